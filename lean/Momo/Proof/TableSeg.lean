import Momo.Model.Table
import Momo.Props.C16
import Mathlib.Data.List.Nodup
import Mathlib.Data.List.Perm.Basic
import Mathlib.Data.List.Perm.Subperm
/-!
  C07, group level: the raw array of one multi-hash key (`MultiHash::pvAdd`, `pvSortRaws`, `AcceptRemove`,
  `FilterRaws`): full segments stay sorted by address, removal removes exactly the given raw.
-/
namespace Momo.Table
open List

/-- ascending by address (strict: live raws have distinct addresses) -/
def Sorted (addr : Nat → Nat) (l : List Nat) : Prop := l.Pairwise (fun a b => addr a < addr b)

/-- `[lo, hi)` of a list -/
def slice (l : List Nat) (lo hi : Nat) : List Nat := (l.take hi).drop lo

/-- start of segment `k` -/
def segStart : Nat → Nat
  | 0 => 0
  | k+1 => segEnd k

/-- every full segment (one that ends strictly before the end of the array) is sorted by address -/
def SegSorted (addr : Nat → Nat) (raws : List Nat) : Prop :=
  ∀ k, segEnd k < raws.length → Sorted addr (slice raws (segStart k) (segEnd k))

/-! ### insertion sort -/

theorem insertByAddr_perm (addr : Nat → Nat) (x : Nat) (l : List Nat) : (insertByAddr addr x l).Perm (x :: l) := by
  induction l with
  | nil => exact Perm.refl _
  | cons y ys ih =>
    unfold insertByAddr
    split
    · exact (Perm.cons y ih).trans (Perm.swap x y ys)
    · exact Perm.refl _

theorem sortByAddr_perm (addr : Nat → Nat) (l : List Nat) : (sortByAddr addr l).Perm l := by
  induction l with
  | nil => exact Perm.refl _
  | cons x xs ih =>
    unfold sortByAddr
    exact (insertByAddr_perm addr x _).trans (Perm.cons x ih)

theorem sortByAddr_length (addr : Nat → Nat) (l : List Nat) : (sortByAddr addr l).length = l.length :=
  (sortByAddr_perm addr l).length_eq

theorem insertByAddr_sorted (addr : Nat → Nat) (x : Nat) (l : List Nat) (hs : Sorted addr l)
    (hx : ∀ y ∈ l, addr y ≠ addr x) : Sorted addr (insertByAddr addr x l) := by
  induction l with
  | nil => simp [insertByAddr, Sorted]
  | cons y ys ih =>
    unfold Sorted at hs ⊢
    rw [pairwise_cons] at hs
    unfold insertByAddr
    split
    · rename_i hlt
      rw [pairwise_cons]
      refine ⟨?_, ih hs.2 (fun z hz => hx z (mem_cons_of_mem _ hz))⟩
      intro z hz
      rcases mem_cons.mp ((insertByAddr_perm addr x ys).mem_iff.mp hz) with h | h
      · subst h; exact hlt
      · exact hs.1 z h
    · rename_i hge
      have hne := hx y (mem_cons_self)
      have hxy : addr x < addr y := by omega
      rw [pairwise_cons]
      refine ⟨?_, pairwise_cons.mpr hs⟩
      intro z hz
      rcases mem_cons.mp hz with h | h
      · subst h; exact hxy
      · exact Nat.lt_trans hxy (hs.1 z h)

theorem sortByAddr_sorted (addr : Nat → Nat) (l : List Nat) (hnd : (l.map addr).Nodup) : Sorted addr (sortByAddr addr l) := by
  induction l with
  | nil => simp [sortByAddr, Sorted]
  | cons x xs ih =>
    rw [map_cons, nodup_cons] at hnd
    unfold sortByAddr
    apply insertByAddr_sorted addr x _ (ih hnd.2)
    intro y hy he
    have hy' := (sortByAddr_perm addr xs).mem_iff.mp hy
    exact hnd.1 (he ▸ mem_map_of_mem hy')

/-! ### `std::lower_bound` on a sorted range -/

theorem lowerBound_cons (addr : Nat → Nat) (y : Nat) (ys : List Nat) (x : Nat) :
    lowerBound addr (y :: ys) x = if addr y < addr x then lowerBound addr ys x + 1 else 0 := by
  unfold lowerBound
  rw [takeWhile_cons]
  split <;> simp_all

theorem insert_at_lowerBound (addr : Nat → Nat) (x : Nat) (l : List Nat) :
    l.take (lowerBound addr l x) ++ x :: l.drop (lowerBound addr l x) = insertByAddr addr x l := by
  induction l with
  | nil => simp [lowerBound, insertByAddr]
  | cons y ys ih =>
    rw [lowerBound_cons]
    unfold insertByAddr
    split
    · simp only [take_succ_cons, drop_succ_cons, cons_append]
      rw [ih]
    · simp

theorem lowerBound_le (addr : Nat → Nat) (l : List Nat) (x : Nat) : lowerBound addr l x ≤ l.length := by
  induction l with
  | nil => simp [lowerBound]
  | cons y ys ih => rw [lowerBound_cons]; split <;> simp; omega

theorem lowerBound_prefix (addr : Nat → Nat) (pre rest : List Nat) (x : Nat) (h : ∀ a ∈ pre, addr a < addr x) :
    lowerBound addr (pre ++ rest) x = pre.length + lowerBound addr rest x := by
  induction pre with
  | nil => simp
  | cons a as ih =>
    rw [cons_append, lowerBound_cons, if_pos (h a mem_cons_self), ih (fun b hb => h b (mem_cons_of_mem _ hb))]
    simp; omega

/-- binary search in `[first, last - 1)` of a sorted segment finds the position of an element of the segment -/
theorem lowerBound_finds (addr : Nat → Nat) (pre post : List Nat) (x : Nat) (hs : Sorted addr (pre ++ x :: post)) :
    lowerBound addr (pre ++ x :: post).dropLast x = pre.length := by
  unfold Sorted at hs
  rw [pairwise_append] at hs
  have hpre : ∀ a ∈ pre, addr a < addr x := fun a ha => hs.2.2 a ha x mem_cons_self
  cases post with
  | nil =>
    have : (pre ++ [x]).dropLast = pre := by simp
    rw [this]
    have := lowerBound_prefix addr pre [] x hpre
    simpa [lowerBound] using this
  | cons b bs =>
    have : (pre ++ x :: b :: bs).dropLast = pre ++ x :: (b :: bs).dropLast := by
      rw [dropLast_append_of_ne_nil (by simp)]; simp
    rw [this, lowerBound_prefix addr pre _ x hpre, lowerBound_cons, if_neg (Nat.lt_irrefl _)]
    simp

/-! ### slices -/

theorem slice_append_left (a b : List Nat) (lo hi : Nat) (h : hi ≤ a.length) : slice (a ++ b) lo hi = slice a lo hi := by
  unfold slice
  rw [take_append_of_le_length h]

theorem slice_of_take_eq (l l' : List Nat) (lo hi : Nat) (h : l.take hi = l'.take hi) : slice l lo hi = slice l' lo hi := by
  unfold slice
  rw [h]

theorem slice_append_right (a b : List Nat) (lo hi : Nat) (h : a.length ≤ lo) :
    slice (a ++ b) lo hi = slice b (lo - a.length) (hi - a.length) := by
  unfold slice
  rw [take_append, drop_append]
  have : drop lo (take hi a) = [] := by
    apply drop_eq_nil_of_le
    rw [length_take]; omega
  rw [this, length_take]
  simp only [nil_append]
  by_cases hh : hi ≤ a.length
  · have : hi - a.length = 0 := by omega
    rw [this]; simp
  · have : min hi a.length = a.length := by omega
    rw [this]

theorem slice_mid (a m b : List Nat) : slice (a ++ m ++ b) a.length (a.length + m.length) = m := by
  unfold slice
  rw [append_assoc, take_append, drop_append]
  simp

theorem slice_length (l : List Nat) (lo hi : Nat) (h1 : lo ≤ hi) (h2 : hi ≤ l.length) : (slice l lo hi).length = hi - lo := by
  unfold slice
  rw [length_drop, length_take]; omega

theorem split3 (l : List Nat) (lo hi : Nat) (h1 : lo ≤ hi) : l = l.take lo ++ slice l lo hi ++ l.drop hi := by
  unfold slice
  have e1 : take lo l = take lo (take hi l) := by rw [take_take, Nat.min_eq_left h1]
  rw [e1, take_append_drop, take_append_drop]

/-! ### segment boundaries (`rawIndex2` of the loops) and `GetSegItemIndexes` (C16) -/

theorem segSize_eq (k : Nat) : segSize k = 2 ^ Seg.segLog k * 2 ^ L0 := by
  unfold segSize
  rw [Seg.itemCount_sqrt, Nat.pow_add]

theorem segSize_pos (k : Nat) : 0 < segSize k := by
  rw [segSize_eq]; exact Nat.mul_pos (Nat.two_pow_pos _) (Nat.two_pow_pos _)

theorem segSize_zero : segSize 0 = 2 ^ L0 := by
  rw [segSize_eq]
  have : Seg.segLog 0 = 0 := by decide
  rw [this]; simp

theorem segEnd_succ (k : Nat) : segEnd (k + 1) = segEnd k + segSize (k + 1) := rfl

theorem segEnd_eq_getIndex (k : Nat) : segEnd k = Seg.getIndex .sqrt L0 (k + 1) 0 := by
  induction k with
  | zero =>
    rw [(Seg.C16_capacity_counts_slots .sqrt L0 1).1]
    show 2 ^ L0 = _
    simp [← segSize_zero, segSize]
  | succ k ih =>
    rw [segEnd_succ, ih, (Seg.C16_capacity_counts_slots .sqrt L0 (k + 1)).1,
      (Seg.C16_capacity_counts_slots .sqrt L0 (k + 1 + 1)).1, List.range_succ (n := k + 1)]
    simp [segSize]

theorem segStart_eq_getIndex (k : Nat) : segStart k = Seg.getIndex .sqrt L0 k 0 := by
  cases k with
  | zero => rw [(Seg.C16_capacity_counts_slots .sqrt L0 0).1]; rfl
  | succ k => exact segEnd_eq_getIndex k

theorem segEnd_eq (k : Nat) : segEnd k = segStart k + segSize k := by
  cases k with
  | zero => show 2 ^ L0 = 0 + segSize 0; rw [segSize_zero]; simp
  | succ k => rfl

theorem segStart_lt_end (k : Nat) : segStart k < segEnd k := by
  rw [segEnd_eq]; have := segSize_pos k; omega

theorem segEnd_mono {j k : Nat} (h : j < k) : segEnd j < segEnd k := by
  induction k with
  | zero => omega
  | succ k ih =>
    have hp := segSize_pos (k + 1)
    rw [segEnd_succ]
    by_cases hjk : j = k
    · subst hjk; omega
    · have := ih (by omega); omega

theorem segEnd_le_start {j k : Nat} (h : j < k) : segEnd j ≤ segStart k := by
  cases k with
  | zero => omega
  | succ k =>
    show segEnd j ≤ segEnd k
    by_cases hjk : j = k
    · subst hjk; exact Nat.le_refl _
    · exact Nat.le_of_lt (segEnd_mono (by omega))

theorem segEnd_inj {j k : Nat} (h : segEnd j = segEnd k) : j = k := by
  rcases Nat.lt_trichotomy j k with h1 | h1 | h1
  · have := segEnd_mono h1; omega
  · exact h1
  · have := segEnd_mono h1; omega

theorem segEnd_mod (k : Nat) : segEnd k % 2 ^ L0 = 0 := by
  induction k with
  | zero => show 2 ^ L0 % 2 ^ L0 = 0; exact Nat.mod_self _
  | succ k ih =>
    rw [segEnd_succ, segSize_eq, Nat.add_mod, ih, Nat.mul_mod_left]; simp

theorem getSeg_segEnd (k : Nat) : Seg.getSeg .sqrt L0 (segEnd k) = (k + 1, 0) := by
  rw [segEnd_eq_getIndex]
  exact Seg.C16_inverse .sqrt L0 (k + 1) 0 (by rw [← segSize]; exact segSize_pos _)

/-- `GetSegItemIndexes(n)` answers "first slot of a segment" only at a segment boundary -/
theorem boundary_of_getSeg (n : Nat) (hn : 0 < n) (h : (Seg.getSeg .sqrt L0 n).2 = 0) :
    ∃ j, n = segEnd j ∧ (Seg.getSeg .sqrt L0 n).1 = j + 1 := by
  have rt := Seg.C16_roundtrip .sqrt L0 n
  rw [h] at rt
  cases hs : (Seg.getSeg .sqrt L0 n).1 with
  | zero =>
    rw [hs, (Seg.C16_capacity_counts_slots .sqrt L0 0).1] at rt
    simp at rt; omega
  | succ j =>
    refine ⟨j, ?_, rfl⟩
    rw [hs] at rt
    rw [segEnd_eq_getIndex]; exact rt.symm

/-- what `pvAdd` does before appending: at a segment boundary the segment that just became full is sorted,
    otherwise nothing happens -/
theorem pvAddSort_spec (addr : Nat → Nat) (raws : List Nat) :
    (∃ j, raws.length = segEnd j ∧ pvAddSort addr raws = sortSeg addr raws (segStart j) (segEnd j)) ∨
    ((∀ j, raws.length ≠ segEnd j) ∧ pvAddSort addr raws = raws) := by
  by_cases hb : ∃ j, raws.length = segEnd j
  · left
    obtain ⟨j, hj⟩ := hb
    refine ⟨j, hj, ?_⟩
    unfold pvAddSort
    have hpos : 0 < raws.length := by rw [hj]; exact Nat.lt_of_le_of_lt (Nat.zero_le _) (segStart_lt_end j)
    have hmod : raws.length % (Extracted.dtSegMaskShift * 2 ^ L0) = 0 := by
      simp only [Extracted.dtSegMaskShift, Nat.one_mul]; rw [hj]; exact segEnd_mod j
    rw [if_pos ⟨hpos, hmod⟩]
    have hg : Seg.getSeg .sqrt L0 raws.length = (j + 1, 0) := by rw [hj]; exact getSeg_segEnd j
    rw [hg]
    simp only [if_true, Nat.add_sub_cancel]
    have : raws.length - segSize j = segStart j := by rw [hj, segEnd_eq]; omega
    rw [this, hj]
  · right
    refine ⟨fun j hj => hb ⟨j, hj⟩, ?_⟩
    unfold pvAddSort
    split
    · rename_i hc
      split
      · rename_i hz
        obtain ⟨j, hj, _⟩ := boundary_of_getSeg raws.length hc.1 hz
        exact absurd ⟨j, hj⟩ hb
      · rfl
    · rfl

/-! ### `pvAdd` keeps the full segments sorted -/

theorem sortSeg_perm (addr : Nat → Nat) (l : List Nat) (lo hi : Nat) (h : lo ≤ hi) : (sortSeg addr l lo hi).Perm l := by
  unfold sortSeg
  have e := split3 l lo hi h
  conv_rhs => rw [e]
  unfold slice
  exact Perm.append_right _ (Perm.append_left _ (sortByAddr_perm addr _))

theorem sortSeg_length (addr : Nat → Nat) (l : List Nat) (lo hi : Nat) (h : lo ≤ hi) : (sortSeg addr l lo hi).length = l.length :=
  (sortSeg_perm addr l lo hi h).length_eq

theorem nodup_map_sublist (addr : Nat → Nat) {l l' : List Nat} (h : l'.Sublist l) (hnd : (l.map addr).Nodup) : (l'.map addr).Nodup :=
  (h.map addr).nodup hnd

theorem slice_sublist (l : List Nat) (lo hi : Nat) : (slice l lo hi).Sublist l :=
  (drop_sublist _ _).trans (take_sublist _ _)

theorem take_sortSeg (addr : Nat → Nat) (l : List Nat) (lo hi m : Nat) (hm : m ≤ lo) (hlo : lo ≤ l.length) :
    (sortSeg addr l lo hi).take m = l.take m := by
  unfold sortSeg
  rw [append_assoc, take_append_of_le_length (by rw [length_take]; omega), take_take, Nat.min_eq_left hm]

theorem slice_sortSeg (addr : Nat → Nat) (l : List Nat) (lo hi : Nat) (h : lo ≤ hi) (hh : hi ≤ l.length) :
    slice (sortSeg addr l lo hi) lo hi = sortByAddr addr (slice l lo hi) := by
  unfold sortSeg
  have h1 : (take lo l).length = lo := by rw [length_take]; omega
  have h2 : (sortByAddr addr (drop lo (take hi l))).length = hi - lo := by
    rw [sortByAddr_length, length_drop, length_take]; omega
  have := slice_mid (take lo l) (sortByAddr addr (drop lo (take hi l))) (drop hi l)
  rw [h1, h2] at this
  have e : lo + (hi - lo) = hi := by omega
  rw [e] at this
  exact this

theorem pvAddSort_perm (addr : Nat → Nat) (raws : List Nat) : (pvAddSort addr raws).Perm raws := by
  rcases pvAddSort_spec addr raws with ⟨j, _, e⟩ | ⟨_, e⟩
  · rw [e]; exact sortSeg_perm addr raws _ _ (Nat.le_of_lt (segStart_lt_end j))
  · rw [e]

/-- after `pvAdd` every segment that ends at or before the end of the array is sorted -/
theorem pvAddSort_sorted (addr : Nat → Nat) (raws : List Nat) (hnd : (raws.map addr).Nodup) (hs : SegSorted addr raws) :
    ∀ k, segEnd k ≤ raws.length → Sorted addr (slice (pvAddSort addr raws) (segStart k) (segEnd k)) := by
  intro k hk
  rcases pvAddSort_spec addr raws with ⟨j, hj, e⟩ | ⟨hnb, e⟩
  · rw [e]
    have hse := Nat.le_of_lt (segStart_lt_end j)
    rcases Nat.lt_trichotomy k j with hkj | hkj | hkj
    · have hle := segEnd_le_start hkj
      have ht := take_sortSeg addr raws (segStart j) (segEnd j) (segEnd k) hle (by omega)
      rw [slice_of_take_eq _ _ _ _ ht]
      exact hs k (by rw [hj]; exact segEnd_mono hkj)
    · subst hkj
      rw [slice_sortSeg addr raws _ _ hse (by omega)]
      exact sortByAddr_sorted addr _ (nodup_map_sublist addr (slice_sublist _ _ _) hnd)
    · have := segEnd_mono hkj; omega
  · rw [e]
    exact hs k (Nat.lt_of_le_of_ne hk (fun h => hnb k h.symm))

theorem segSorted_pvAddSort (addr : Nat → Nat) (raws : List Nat) (hnd : (raws.map addr).Nodup) (hs : SegSorted addr raws) :
    SegSorted addr (pvAddSort addr raws) := by
  intro k hk
  rw [(pvAddSort_perm addr raws).length_eq] at hk
  exact pvAddSort_sorted addr raws hnd hs k (Nat.le_of_lt hk)

theorem segSorted_pvAdd (addr : Nat → Nat) (raws : List Nat) (raw : Nat) (hnd : (raws.map addr).Nodup) (hs : SegSorted addr raws) :
    SegSorted addr (pvAddSort addr raws ++ [raw]) := by
  intro k hk
  have hl := (pvAddSort_perm addr raws).length_eq
  rw [length_append, hl] at hk
  simp only [length_cons, length_nil] at hk
  rw [slice_append_left _ _ _ _ (by rw [hl]; omega)]
  exact pvAddSort_sorted addr raws hnd hs k (by omega)

/-- dropping raws from the end keeps the full segments sorted -/
theorem segSorted_take (addr : Nat → Nat) (raws : List Nat) (m : Nat) (hs : SegSorted addr raws) : SegSorted addr (raws.take m) := by
  intro k hk
  rw [length_take] at hk
  have : (raws.take m).take (segEnd k) = raws.take (segEnd k) := by rw [take_take, Nat.min_eq_left (by omega)]
  rw [slice_of_take_eq _ _ _ _ this]
  exact hs k (by omega)

theorem segSorted_dropLast (addr : Nat → Nat) (raws : List Nat) (hs : SegSorted addr raws) : SegSorted addr raws.dropLast := by
  rw [dropLast_eq_take]; exact segSorted_take addr raws _ hs

/-! ### `AcceptRemove` -/

theorem sorted_nodup (addr : Nat → Nat) (l : List Nat) (h : Sorted addr l) : l.Nodup := by
  unfold Sorted at h
  exact h.imp (fun {a b} hab e => by subst e; exact Nat.lt_irrefl _ hab)

theorem nodup_of_map (addr : Nat → Nat) (l : List Nat) (h : (l.map addr).Nodup) : l.Nodup := Nodup.of_map addr h

theorem erase_mid (A B : List Nat) (x : Nat) (h : x ∉ A) : (A ++ x :: B).erase x = A ++ B := by
  rw [erase_append_right _ h, erase_cons_head]

/-- `HashMultiMap::Remove(keyIter, j)` removes exactly the raw at `j` and leaves everything before `j` in place -/
theorem removeSwap_spec (l : List Nat) (j : Nat) (hnd : l.Nodup) (hj : j < l.length) :
    (removeSwap l j).Perm (l.erase (l.getD j 0)) ∧ (∀ m, m ≤ j → (removeSwap l j).take m = l.take m) ∧
    (removeSwap l j).length = l.length - 1 := by
  obtain ⟨A, x, B, rfl, hA⟩ : ∃ A x B, l = A ++ x :: B ∧ A.length = j := by
    refine ⟨l.take j, l[j], l.drop (j + 1), ?_, by rw [length_take]; omega⟩
    rw [← List.drop_eq_getElem_cons hj, take_append_drop]
  have hx : (A ++ x :: B).getD j 0 = x := by
    rw [getD_eq_getElem?_getD, getElem?_append_right (by omega), hA]; simp
  rw [hx]
  have hxA : x ∉ A := by
    intro h
    rw [nodup_append] at hnd
    exact hnd.2.2 x h x mem_cons_self rfl
  rw [erase_mid A B x hxA]
  unfold removeSwap
  cases hB : B.getLast? with
  | none =>
    have hBn : B = [] := by simpa using hB
    subst hBn
    have hl : (A ++ [x]).getLast? = some x := by simp
    rw [hl]
    simp only
    have hset : (A ++ [x]).set j x = A ++ [x] := by
      rw [set_append_right _ _ (by omega), hA]; simp
    rw [hset]
    refine ⟨by simp, ?_, by simp⟩
    intro m hm
    rw [dropLast_concat, take_append_of_le_length (by omega)]
  | some last =>
    obtain ⟨B', rfl⟩ := getLast?_eq_some_iff.mp hB
    have hl : (A ++ x :: (B' ++ [last])).getLast? = some last := by
      rw [show A ++ x :: (B' ++ [last]) = (A ++ x :: B') ++ [last] by simp]
      exact getLast?_concat
    rw [hl]
    simp only
    have hset : (A ++ x :: (B' ++ [last])).set j last = A ++ last :: (B' ++ [last]) := by
      rw [set_append_right _ _ (by omega), hA]; simp
    rw [hset]
    have hd : (A ++ last :: (B' ++ [last])).dropLast = A ++ last :: B' := by
      rw [show A ++ last :: (B' ++ [last]) = (A ++ last :: B') ++ [last] by simp, dropLast_concat]
    rw [hd]
    refine ⟨?_, ?_, by simp⟩
    · have h1 : (A ++ last :: B').Perm (last :: (A ++ B')) := perm_middle
      have h2 : (A ++ (B' ++ [last])).Perm (last :: (A ++ B')) := by
        rw [← append_assoc]; exact perm_append_singleton _ _
      exact h1.trans h2.symm
    · intro m hm
      rw [take_append_of_le_length (by omega), take_append_of_le_length (by omega)]

theorem removeInSeg_none (addr : Nat → Nat) (raws : List Nat) (raw lo hi : Nat) (h : raw ∉ slice raws lo hi) :
    removeInSeg addr raws raw lo hi = none := by
  unfold removeInSeg
  simp only
  split
  · rename_i hc
    exfalso
    apply h
    have hi' := hc.2
    have he : ((raws.take hi).drop lo).getD (lowerBound addr ((raws.take hi).drop lo).dropLast raw) 0 = raw := by
      simpa using hc.1
    rw [getD_eq_getElem?_getD, getElem?_eq_getElem hi'] at he
    simp only [Option.getD_some] at he
    unfold slice
    rw [← he]
    exact getElem_mem _
  · rfl

/-- removal from a full segment `[lo, hi)` that contains the raw -/
theorem removeInSeg_some (addr : Nat → Nat) (raws : List Nat) (raw lo hi : Nat) (_hlo : lo ≤ hi) (hhi : hi < raws.length)
    (hs : Sorted addr (slice raws lo hi)) (hmem : raw ∈ slice raws lo hi) :
    ∃ pre post rest last, slice raws lo hi = pre ++ raw :: post ∧ raws.drop hi = rest ++ [last] ∧
      removeInSeg addr raws raw lo hi = some (raws.take lo ++ insertByAddr addr last (pre ++ post) ++ rest) := by
  obtain ⟨pre, post, hsplit⟩ := append_of_mem hmem
  have hne : raws.drop hi ≠ [] := by
    intro h; have := congrArg length h; rw [length_drop] at this; simp at this; omega
  obtain ⟨rest, last, hrest⟩ : ∃ rest last, raws.drop hi = rest ++ [last] :=
    ⟨(raws.drop hi).dropLast, (raws.drop hi).getLast hne, (dropLast_append_getLast hne).symm⟩
  refine ⟨pre, post, rest, last, hsplit, hrest, ?_⟩
  have hlast : raws.getLastD 0 = last := by
    have : raws = raws.take hi ++ (rest ++ [last]) := by rw [← hrest, take_append_drop]
    rw [this, ← append_assoc, getLastD_concat]
  unfold removeInSeg
  simp only
  have hseg : (raws.take hi).drop lo = pre ++ raw :: post := hsplit
  rw [hsplit] at hs
  rw [hseg]
  have hi' := lowerBound_finds addr pre post raw hs
  rw [hi', hlast]
  have hget : (pre ++ raw :: post).getD pre.length 0 = raw := by
    rw [getD_eq_getElem?_getD, getElem?_append_right (Nat.le_refl _)]; simp
  rw [hget]
  have hcond : ((raw == raw) = true ∧ pre.length < (pre ++ raw :: post).length) := by
    refine ⟨by simp, by simp⟩
  rw [if_pos hcond]
  have herase : (pre ++ raw :: post).eraseIdx pre.length = pre ++ post := by
    rw [eraseIdx_append_of_length_le (Nat.le_refl _)]; simp
  rw [herase, insert_at_lowerBound, hrest]
  congr 1
  rw [← append_assoc, dropLast_concat]

theorem mem_drop_split (l : List Nat) (lo hi : Nat) (h : lo ≤ hi) (x : Nat) (hx : x ∈ l.drop lo) (hn : x ∉ slice l lo hi) :
    x ∈ l.drop hi := by
  have e : l.drop lo = slice l lo hi ++ l.drop hi := by
    unfold slice
    conv_lhs => rw [← take_append_drop hi l]
    rw [drop_append]
    by_cases hh : hi ≤ l.length
    · rw [length_take, Nat.min_eq_left hh]
      have : lo - hi = 0 := by omega
      rw [this]; simp
    · have : l.drop hi = [] := drop_eq_nil_of_le (by omega)
      rw [this]; simp
  rw [e] at hx
  rcases mem_append.mp hx with h1 | h1
  · exact absurd h1 hn
  · exact h1

/-- the loop of `AcceptRemove` over the segments: exactly the given raw disappears, full segments stay sorted -/
theorem removeFromRaws_spec (addr : Nat → Nat) (raws : List Nat) (raw : Nat)
    (hnd : (raws.map addr).Nodup) (hs : SegSorted addr raws) :
    ∀ fuel k, raws.length ≤ fuel + segStart k → raw ∈ raws.drop (segStart k) →
      (removeFromRaws addr raws raw fuel k (segStart k)).Perm (raws.erase raw) ∧
      SegSorted addr (removeFromRaws addr raws raw fuel k (segStart k)) := by
  have hndr := nodup_of_map addr raws hnd
  -- the tail branch
  have tail : ∀ k, ¬ segEnd k < raws.length → raw ∈ raws.drop (segStart k) →
      (removeSwap raws (segStart k + indexOf (raws.drop (segStart k)) raw)).Perm (raws.erase raw) ∧
      SegSorted addr (removeSwap raws (segStart k + indexOf (raws.drop (segStart k)) raw)) := by
    intro k hk hmem
    have hidx : indexOf (raws.drop (segStart k)) raw < (raws.drop (segStart k)).length := by
      unfold indexOf
      exact findIdx_lt_length.mpr ⟨raw, hmem, by simp⟩
    have hj : segStart k + indexOf (raws.drop (segStart k)) raw < raws.length := by
      rw [length_drop] at hidx; omega
    have hget : raws.getD (segStart k + indexOf (raws.drop (segStart k)) raw) 0 = raw := by
      rw [getD_eq_getElem?_getD, getElem?_eq_getElem hj]
      simp only [Option.getD_some]
      have h1 : raws[segStart k + indexOf (raws.drop (segStart k)) raw] = (raws.drop (segStart k))[indexOf (raws.drop (segStart k)) raw] := by
        rw [getElem_drop]
      rw [h1]
      have := findIdx_getElem (p := fun y => y == raw) (xs := raws.drop (segStart k)) (w := hidx)
      unfold indexOf
      simpa using this
    obtain ⟨hp, ht, hl⟩ := removeSwap_spec raws _ hndr hj
    rw [hget] at hp
    refine ⟨hp, ?_⟩
    intro k' hk'
    rw [hl] at hk'
    have hkk : k' < k := by
      rcases Nat.lt_or_ge k' k with h | h
      · exact h
      · exfalso
        have : segEnd k ≤ segEnd k' := by
          rcases Nat.eq_or_lt_of_le h with e | e
          · subst e; exact Nat.le_refl _
          · exact Nat.le_of_lt (segEnd_mono e)
        omega
    have hle := segEnd_le_start hkk
    rw [slice_of_take_eq _ _ _ _ (ht (segEnd k') (by omega))]
    exact hs k' (by omega)
  intro fuel
  induction fuel with
  | zero =>
    intro k hlen hmem
    exfalso
    have : raws.drop (segStart k) = [] := drop_eq_nil_of_le (by omega)
    rw [this] at hmem; simp at hmem
  | succ fuel ih =>
    intro k hlen hmem
    unfold removeFromRaws
    by_cases hfull : segEnd k < raws.length
    · rw [if_pos hfull]
      have hse := Nat.le_of_lt (segStart_lt_end k)
      by_cases hin : raw ∈ slice raws (segStart k) (segEnd k)
      · obtain ⟨pre, post, rest, last, hsplit, hrest, hrem⟩ :=
          removeInSeg_some addr raws raw _ _ hse hfull (hs k hfull) hin
        rw [hrem]
        simp only
        -- decomposition of the array
        have hdec : raws = raws.take (segStart k) ++ (pre ++ raw :: post) ++ (rest ++ [last]) := by
          rw [← hsplit, ← hrest]; exact split3 raws _ _ hse
        have hnd' := hnd
        rw [hdec] at hndr
        have hA : raw ∉ raws.take (segStart k) := by
          intro h
          rw [append_assoc, nodup_append] at hndr
          exact hndr.2.2 raw h raw (by simp) rfl
        have hpre : raw ∉ pre := by
          intro h
          rw [append_assoc, nodup_append] at hndr
          have := hndr.2.1
          rw [nodup_append] at this
          have h3 := this.1
          rw [nodup_append] at h3
          exact h3.2.2 raw h raw mem_cons_self rfl
        have herase : raws.erase raw = raws.take (segStart k) ++ (pre ++ post) ++ (rest ++ [last]) := by
          conv_lhs => rw [hdec]
          rw [append_assoc, erase_append_right _ hA, erase_append_left _ (by simp), erase_mid pre post raw hpre]
          simp
        refine ⟨?_, ?_⟩
        · rw [herase]
          have h1 : (insertByAddr addr last (pre ++ post)).Perm (last :: (pre ++ post)) := insertByAddr_perm _ _ _
          have h2 : (raws.take (segStart k) ++ insertByAddr addr last (pre ++ post) ++ rest).Perm
              (raws.take (segStart k) ++ (last :: (pre ++ post)) ++ rest) :=
            Perm.append_right _ (Perm.append_left _ h1)
          refine h2.trans ?_
          have h3 : (raws.take (segStart k) ++ (last :: (pre ++ post)) ++ rest).Perm
              (last :: (raws.take (segStart k) ++ (pre ++ post) ++ rest)) := by
            rw [append_assoc, append_assoc]
            simp only [cons_append]
            exact perm_middle
          refine h3.trans ?_
          rw [← append_assoc (raws.take (segStart k) ++ (pre ++ post)) rest [last]]
          exact (perm_append_singleton _ _).symm
        · -- sortedness of the result
          have hsl : (slice raws (segStart k) (segEnd k)).length = segEnd k - segStart k :=
            slice_length raws _ _ hse (Nat.le_of_lt hfull)
          have hlen1 : (pre ++ post).length + 1 = segEnd k - segStart k := by
            rw [← hsl, hsplit]; simp; omega
          have htk : (raws.take (segStart k)).length = segStart k := by rw [length_take]; omega
          have hins : (insertByAddr addr last (pre ++ post)).length = segEnd k - segStart k := by
            rw [(insertByAddr_perm addr last (pre ++ post)).length_eq]; simp; simp at hlen1; omega
          have hrl : rest.length + 1 = raws.length - segEnd k := by
            have := congrArg length hrest; rw [length_drop] at this; simp at this; omega
          intro k' hk'
          rw [length_append, length_append, htk, hins] at hk'
          rcases Nat.lt_trichotomy k' k with hkk | hkk | hkk
          · have hle := segEnd_le_start hkk
            rw [append_assoc, slice_append_left _ _ _ _ (by omega)]
            have : slice (raws.take (segStart k)) (segStart k') (segEnd k') = slice raws (segStart k') (segEnd k') := by
              apply slice_of_take_eq; rw [take_take, Nat.min_eq_left hle]
            rw [this]
            exact hs k' (by omega)
          · subst hkk
            have := slice_mid (raws.take (segStart k')) (insertByAddr addr last (pre ++ post)) rest
            rw [htk, hins] at this
            have e : segStart k' + (segEnd k' - segStart k') = segEnd k' := by omega
            rw [e] at this
            rw [this]
            apply insertByAddr_sorted
            · have hsorted := hs k' hfull
              rw [hsplit] at hsorted
              unfold Sorted at hsorted ⊢
              exact hsorted.sublist (by simp)
            · intro y hy he
              -- `last` sits behind the segment, `y` inside: different positions of a list with distinct addresses
              rw [hdec] at hnd'
              rw [map_append, nodup_append] at hnd'
              have hy' : y ∈ raws.take (segStart k') ++ (pre ++ raw :: post) := by
                apply mem_append_right
                rcases mem_append.mp hy with h | h
                · exact mem_append_left _ h
                · exact mem_append_right _ (mem_cons_of_mem _ h)
              exact hnd'.2.2 (addr y) (mem_map_of_mem hy') (addr last) (mem_map_of_mem (by simp)) he
          · -- a later segment: untouched
            have hge : segEnd k ≤ segStart k' := segEnd_le_start hkk
            have hpre : (raws.take (segStart k) ++ insertByAddr addr last (pre ++ post)).length = segEnd k := by
              rw [length_append, htk, hins]; omega
            rw [slice_append_right _ _ _ _ (by omega), hpre]
            have horig := hs k' (by omega)
            have e0 : raws = (raws.take (segEnd k)) ++ (rest ++ [last]) := by rw [← hrest, take_append_drop]
            have hpre2 : (raws.take (segEnd k)).length = segEnd k := by rw [length_take]; omega
            rw [e0, slice_append_right _ _ _ _ (by omega), hpre2] at horig
            have : slice (rest ++ [last]) (segStart k' - segEnd k) (segEnd k' - segEnd k) =
                slice rest (segStart k' - segEnd k) (segEnd k' - segEnd k) :=
              slice_append_left _ _ _ _ (by omega)
            rw [this] at horig
            exact horig
      · rw [removeInSeg_none addr raws raw _ _ hin]
        simp only
        have := ih (k + 1) (by show raws.length ≤ fuel + segEnd k; have := segStart_lt_end k; omega)
          (mem_drop_split raws _ _ hse raw hmem hin)
        exact this
    · rw [if_neg hfull]
      exact tail k hfull hmem

/-- **`MultiHash::AcceptRemove(raw)` on one key.** With distinct addresses and sorted full segments the group
    loses exactly `raw` (or consisted of `raw` alone: `RemoveKey`), and the full segments stay sorted. -/
theorem acceptRemoveGroup_exact (addr : Nat → Nat) (g : Group) (raw : Nat)
    (hnd : (g.members.map addr).Nodup) (hs : SegSorted addr g.raws) (hmem : raw ∈ g.members) :
    match acceptRemoveGroup addr g raw with
    | none => g.members = [raw]
    | some g' => g'.members.Perm (g.members.erase raw) ∧ SegSorted addr g'.raws ∧ g'.h0 = g.h0 := by
  unfold acceptRemoveGroup
  unfold Group.members at *
  cases hl : g.raws.getLast? with
  | none =>
    have : g.raws = [] := by simpa using hl
    simp only
    rw [this] at hmem ⊢
    simp at hmem
    rw [hmem]
  | some last =>
    simp only
    obtain ⟨init, hinit⟩ := getLast?_eq_some_iff.mp hl
    by_cases hk : g.key = raw
    · have : (g.key == raw) = true := by simp [hk]
      rw [if_pos this]
      simp only
      refine ⟨?_, segSorted_dropLast addr _ hs, by simp⟩
      rw [hk, erase_cons_head, hinit, dropLast_concat]
      exact (perm_append_singleton last init).symm
    · have : ¬ (g.key == raw) = true := by simp [hk]
      rw [if_neg this]
      simp only
      have hmr : raw ∈ g.raws := by
        rcases mem_cons.mp hmem with h | h
        · exact absurd h.symm hk
        · exact h
      rw [map_cons, nodup_cons] at hnd
      have := removeFromRaws_spec addr g.raws raw hnd.2 hs g.raws.length 0 (by simp [segStart]) (by simpa [segStart] using hmr)
      refine ⟨?_, this.2, by simp⟩
      rw [erase_cons_tail (by simpa using hk)]
      exact Perm.cons _ this.1

/-! ### `MultiHash::FilterRaws` on one key -/

theorem filterSwap_spec (keepRaw : Nat → Bool) :
    ∀ fuel i (l : List Nat), l.Nodup → i ≤ l.length → l.length - i ≤ fuel →
      (filterSwap keepRaw fuel i l).Perm (l.take i ++ (l.drop i).filter keepRaw) := by
  intro fuel
  induction fuel with
  | zero =>
    intro i l _ hi hf
    have : l.drop i = [] := drop_eq_nil_of_le (by omega)
    unfold filterSwap
    rw [this, take_of_length_le (by omega)]; simp
  | succ fuel ih =>
    intro i l hnd hi hf
    unfold filterSwap
    by_cases hlt : i < l.length
    · rw [if_pos hlt]
      obtain ⟨x, hd, hget, htk⟩ : ∃ x, l.drop i = x :: l.drop (i + 1) ∧ l.getD i 0 = x ∧ l.take (i + 1) = l.take i ++ [x] :=
        ⟨l[i], List.drop_eq_getElem_cons hlt, by rw [getD_eq_getElem?_getD, getElem?_eq_getElem hlt]; rfl,
          take_succ_eq_append_getElem hlt⟩
      rw [hget]
      by_cases hk : keepRaw x = true
      · rw [if_pos hk]
        refine (ih (i + 1) l hnd (by omega) (by omega)).trans ?_
        rw [hd, filter_cons_of_pos hk, htk]
        exact Perm.of_eq (by simp)
      · rw [if_neg hk]
        obtain ⟨hp, ht, hl⟩ := removeSwap_spec l i hnd hlt
        rw [hget] at hp
        have hnd' : (removeSwap l i).Nodup := hp.nodup_iff.mpr (hnd.erase _)
        refine (ih i (removeSwap l i) hnd' (by omega) (by omega)).trans ?_
        rw [ht i (Nat.le_refl _), hd, filter_cons_of_neg hk]
        apply Perm.append_left
        apply Perm.filter
        -- suffixes of permutations with a common prefix are permutations
        have herase : l.erase x = l.take i ++ l.drop (i + 1) := by
          conv_lhs => rw [← take_append_drop i l, hd]
          apply erase_mid
          intro h
          have hnd2 := hnd
          rw [← take_append_drop i l, hd, nodup_append] at hnd2
          exact hnd2.2.2 _ h _ mem_cons_self rfl
        rw [herase] at hp
        have : (removeSwap l i).Perm (l.take i ++ (removeSwap l i).drop i) := by
          conv_lhs => rw [← take_append_drop i (removeSwap l i), ht i (Nat.le_refl _)]
        exact (perm_append_left_iff _).mp (this.symm.trans hp)
    · rw [if_neg hlt]
      have : l.drop i = [] := drop_eq_nil_of_le (by omega)
      rw [this, take_of_length_le (by omega)]; simp

theorem sortFullSegs_spec (addr : Nat → Nat) :
    ∀ fuel k (raws : List Nat), (raws.map addr).Nodup → raws.length ≤ fuel + segStart k →
      (∀ k', k' < k → segEnd k' < raws.length → Sorted addr (slice raws (segStart k') (segEnd k'))) →
      (sortFullSegs addr raws fuel k (segStart k)).Perm raws ∧ SegSorted addr (sortFullSegs addr raws fuel k (segStart k)) := by
  intro fuel
  induction fuel with
  | zero =>
    intro k raws _ hlen hprev
    unfold sortFullSegs
    refine ⟨Perm.refl _, ?_⟩
    intro k' hk'
    apply hprev k' _ hk'
    rcases Nat.lt_or_ge k' k with h | h
    · exact h
    · exfalso
      have h1 : segStart k ≤ segStart k' := by
        rcases Nat.eq_or_lt_of_le h with e | e
        · subst e; exact Nat.le_refl _
        · exact Nat.le_trans (Nat.le_of_lt (segStart_lt_end k)) (segEnd_le_start e)
      have := segStart_lt_end k'; omega
  | succ fuel ih =>
    intro k raws hnd hlen hprev
    unfold sortFullSegs
    by_cases hfull : segEnd k < raws.length
    · rw [if_pos hfull]
      have hse := Nat.le_of_lt (segStart_lt_end k)
      have hp := sortSeg_perm addr raws (segStart k) (segEnd k) hse
      have hl := hp.length_eq
      have hnd' : ((sortSeg addr raws (segStart k) (segEnd k)).map addr).Nodup := (hp.map addr).nodup_iff.mpr hnd
      have := ih (k + 1) (sortSeg addr raws (segStart k) (segEnd k)) hnd'
        (by rw [hl]; show raws.length ≤ fuel + segEnd k; have := segStart_lt_end k; omega) ?_
      · exact ⟨this.1.trans hp, this.2⟩
      · intro k' hk' hke
        rw [hl] at hke
        rcases Nat.eq_or_lt_of_le (Nat.le_of_lt_succ hk') with e | e
        · subst e
          rw [slice_sortSeg addr raws _ _ hse (Nat.le_of_lt hfull)]
          exact sortByAddr_sorted addr _ (nodup_map_sublist addr (slice_sublist _ _ _) hnd)
        · have ht := take_sortSeg addr raws (segStart k) (segEnd k) (segEnd k') (segEnd_le_start e) (by omega)
          rw [slice_of_take_eq _ _ _ _ ht]
          exact hprev k' e hke
    · rw [if_neg hfull]
      refine ⟨Perm.refl _, ?_⟩
      intro k' hk'
      apply hprev k' _ hk'
      rcases Nat.lt_or_ge k' k with h | h
      · exact h
      · exfalso
        have : segEnd k ≤ segEnd k' := by
          rcases Nat.eq_or_lt_of_le h with e | e
          · subst e; exact Nat.le_refl _
          · exact Nat.le_of_lt (segEnd_mono e)
        omega

/-- **one key of `MultiHash::FilterRaws`**: the group keeps exactly the raws the filter accepts (`none`: no raw
    survives, `RemoveKey`), and its full segments are sorted afterwards -/
theorem filterGroup_spec (addr : Nat → Nat) (keepRaw : Nat → Bool) (g : Group) (hnd : (g.members.map addr).Nodup) :
    match filterGroup addr keepRaw g with
    | none => g.members.filter keepRaw = []
    | some g' => g'.members.Perm (g.members.filter keepRaw) ∧ SegSorted addr g'.raws ∧ g'.h0 = g.h0 := by
  unfold Group.members at *
  rw [map_cons, nodup_cons] at hnd
  have hndr := nodup_of_map addr g.raws hnd.2
  have h1 := filterSwap_spec keepRaw (2 * g.raws.length + 1) 0 g.raws hndr (Nat.zero_le _) (by omega)
  simp only [take_zero, drop_zero, nil_append] at h1
  have hnd1 : ((filterSwap keepRaw (2 * g.raws.length + 1) 0 g.raws).map addr).Nodup :=
    (h1.map addr).nodup_iff.mpr ((filter_sublist.map addr).nodup hnd.2)
  have h2 := sortFullSegs_spec addr (filterSwap keepRaw (2 * g.raws.length + 1) 0 g.raws).length 0
    (filterSwap keepRaw (2 * g.raws.length + 1) 0 g.raws) hnd1 (by simp [segStart]) (fun k' hk' => absurd hk' (Nat.not_lt_zero _))
  simp only [segStart] at h2
  have h3 := h2.1.trans h1
  unfold filterGroup
  simp only
  by_cases hk : keepRaw g.key = true
  · rw [if_pos hk]
    simp only
    rw [filter_cons_of_pos hk]
    exact ⟨Perm.cons _ h3, h2.2, by simp⟩
  · rw [if_neg hk, filter_cons_of_neg hk]
    cases hl : (sortFullSegs addr (filterSwap keepRaw (2 * g.raws.length + 1) 0 g.raws)
        (filterSwap keepRaw (2 * g.raws.length + 1) 0 g.raws).length 0 0).getLast? with
    | none =>
      simp only
      have : sortFullSegs addr (filterSwap keepRaw (2 * g.raws.length + 1) 0 g.raws)
        (filterSwap keepRaw (2 * g.raws.length + 1) 0 g.raws).length 0 0 = [] := by simpa using hl
      rw [this] at h3
      exact h3.symm.eq_nil
    | some last =>
      simp only
      obtain ⟨init, hinit⟩ := getLast?_eq_some_iff.mp hl
      refine ⟨?_, segSorted_dropLast addr _ h2.2, by simp⟩
      rw [hinit, dropLast_concat]
      rw [hinit] at h3
      exact (perm_append_singleton last init).symm.trans h3

end Momo.Table
