import Momo.Proof.ProbeTri
/-! The probe loop of `pvAddNogrow` reports "table is full" only when every bucket is full. -/
namespace Momo.Probe

def seqOf (quad : Bool) (L home : Nat) : Nat → Nat := if quad then seqQuad L home else seqLin L home

theorem seqOf_succ (quad : Bool) (L home p : Nat) :
    seqOf quad L home (p+1) =
      (if quad then nextQuad L (seqOf quad L home p) (p+1) else nextLin L (seqOf quad L home p)) := by
  cases quad <;> simp [seqOf, seqQuad, seqLin]

theorem seqOf_surj (quad : Bool) (L home b : Nat) (hh : home < 2 ^ L) (hb : b < 2 ^ L) :
    ∃ p, p < 2 ^ L ∧ seqOf quad L home p = b := by
  cases quad
  · simpa [seqOf] using seqLin_surj L home b hh hb
  · simpa [seqOf] using seqQuad_surj L home b hh hb

theorem go_spec (quad : Bool) (L : Nat) (isFull : Nat → Bool) (home : Nat) (fuel probe : Nat)
    (hinv : ∀ q, q < probe → isFull (seqOf quad L home q) = true)
    (hf : fuel + probe = 2 ^ L) (hp : 0 < fuel) :
    match addProbe.go quad L isFull fuel probe (seqOf quad L home probe) with
    | none => ∀ q, q < 2 ^ L → isFull (seqOf quad L home q) = true
    | some (p, idx) => p < 2 ^ L ∧ idx = seqOf quad L home p ∧ isFull idx = false ∧
        ∀ q, q < p → isFull (seqOf quad L home q) = true := by
  induction fuel generalizing probe with
  | zero => omega
  | succ f ih =>
    unfold addProbe.go
    by_cases hfull : isFull (seqOf quad L home probe) = true
    · simp only [hfull, if_true]
      have hinv' : ∀ q, q < probe + 1 → isFull (seqOf quad L home q) = true := by
        intro q hq
        by_cases hq' : q = probe
        · subst hq'; exact hfull
        · exact hinv q (by omega)
      by_cases hge : probe + 1 ≥ 2 ^ L
      · simp only [hge, if_true]
        intro q hq; exact hinv' q (by omega)
      · simp only [hge, if_false]
        have := ih (probe + 1) hinv' (by omega) (by omega)
        rw [seqOf_succ] at this
        exact this
    · have hfalse : isFull (seqOf quad L home probe) = false := by
        cases h : isFull (seqOf quad L home probe) <;> simp_all
      simp only [hfalse]
      exact ⟨by omega, rfl, hfalse, hinv⟩

theorem addProbe_spec (quad : Bool) (L : Nat) (isFull : Nat → Bool) (home : Nat) :
    match addProbe quad L isFull home with
    | none => ∀ q, q < 2 ^ L → isFull (seqOf quad L home q) = true
    | some (p, idx) => p < 2 ^ L ∧ idx = seqOf quad L home p ∧ isFull idx = false ∧
        ∀ q, q < p → isFull (seqOf quad L home q) = true := by
  unfold addProbe
  have h0 : seqOf quad L home 0 = home := by cases quad <;> simp [seqOf, seqQuad, seqLin]
  have := go_spec quad L isFull home (2 ^ L) 0 (by intro q hq; omega) (by omega) (Nat.two_pow_pos L)
  rw [h0] at this
  exact this

end Momo.Probe
