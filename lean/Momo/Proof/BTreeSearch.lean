import Momo.Proof.BTreeBasic
/-!
  C02, search: both in-node strategies of `pvFindFirst(node, pred)` return the index of the first item satisfying a
  monotone predicate, and the descent of `pvFindFirst(pred)` returns the position whose in-order index is the index of
  the first element of the whole in-order list satisfying it. Core Lean only.
-/
namespace Momo.BTree
open Node
variable {α : Type}

/-- the predicate never goes back to `false` along the list (true for `!IsLess(item, key)` and `IsLess(key, item)` on
    a list sorted by a strict weak order) -/
def Mono (p : α → Bool) (l : List α) : Prop := l.Pairwise (fun x y => p x = true → p y = true)

theorem firstTrue_le (p : α → Bool) (l : List α) : firstTrue p l ≤ l.length := by
  induction l with
  | nil => simp [firstTrue]
  | cons x xs ih => simp only [firstTrue]; split <;> simp <;> omega

theorem firstTrue_eq_takeWhile (p : α → Bool) (l : List α) :
    firstTrue p l = (l.takeWhile (fun x => !p x)).length := by
  induction l with
  | nil => simp [firstTrue]
  | cons x xs ih =>
    simp only [firstTrue, List.takeWhile_cons]
    cases h : p x <;> simp [ih]

theorem firstTrue_false_before (p : α → Bool) (l : List α) (j : Nat) (hj : j < firstTrue p l) (x : α)
    (hx : l[j]? = some x) : p x = false := by
  induction l generalizing j with
  | nil => simp at hx
  | cons y ys ih =>
    simp only [firstTrue] at hj
    split at hj
    · omega
    · rename_i hy
      cases j with
      | zero => simp at hx; subst hx; simpa using hy
      | succ j' => exact ih j' (by omega) (by simpa using hx)

theorem firstTrue_true_at (p : α → Bool) (l : List α) (h : firstTrue p l < l.length) :
    ∃ x, l[firstTrue p l]? = some x ∧ p x = true := by
  induction l with
  | nil => simp at h
  | cons y ys ih =>
    simp only [firstTrue] at h ⊢
    split
    · rename_i hy; exact ⟨y, by simp, hy⟩
    · rename_i hy
      simp only [hy] at h
      have := ih (by simpa using h)
      simpa using this

theorem firstTrue_all_false (p : α → Bool) (l : List α) (h : ∀ x ∈ l, p x = false) : firstTrue p l = l.length := by
  induction l with
  | nil => simp [firstTrue]
  | cons y ys ih =>
    have hy := h y (by simp)
    simp [firstTrue, hy, ih (fun x hx => h x (by simp [hx]))]

theorem firstTrue_eq_length_iff (p : α → Bool) (l : List α) : firstTrue p l = l.length → ∀ x ∈ l, p x = false := by
  induction l with
  | nil => simp
  | cons y ys ih =>
    intro h x hx
    simp only [firstTrue] at h
    split at h
    · simp at h
    · rename_i hy
      rcases List.mem_cons.mp hx with rfl | hx
      · simpa using hy
      · exact ih (by simpa using h) x hx

theorem firstTrue_append_false (p : α → Bool) (a b : List α) (h : ∀ x ∈ a, p x = false) :
    firstTrue p (a ++ b) = a.length + firstTrue p b := by
  induction a with
  | nil => simp
  | cons y ys ih =>
    have hy := h y (by simp)
    simp only [List.cons_append, firstTrue, hy, List.length_cons]
    rw [ih (fun x hx => h x (by simp [hx]))]
    simp; omega

theorem firstTrue_append_left (p : α → Bool) (a b : List α) (h : firstTrue p a < a.length) :
    firstTrue p (a ++ b) = firstTrue p a := by
  induction a with
  | nil => simp at h
  | cons y ys ih =>
    simp only [List.cons_append, firstTrue] at h ⊢
    split
    · rfl
    · rename_i hy
      simp only [hy] at h
      rw [ih (by simpa using h)]

theorem firstTrue_head_true (p : α → Bool) (x : α) (l : List α) (h : p x = true) : firstTrue p (x :: l) = 0 := by
  simp [firstTrue, h]

theorem Mono.true_after {p : α → Bool} {l : List α} (hm : Mono p l) (j : Nat) (hj : firstTrue p l ≤ j) (x : α)
    (hx : l[j]? = some x) : p x = true := by
  induction l generalizing j with
  | nil => simp at hx
  | cons y ys ih =>
    have hm' := List.pairwise_cons.mp hm
    simp only [firstTrue] at hj
    split at hj
    · rename_i hy
      cases j with
      | zero => simp at hx; subst hx; exact hy
      | succ j' =>
        have : x ∈ ys := List.mem_of_getElem? (by simpa using hx)
        exact hm'.1 x this hy
    · cases j with
      | zero => omega
      | succ j' => exact ih hm'.2 j' (by omega) (by simpa using hx)

theorem Mono.sublist {p : α → Bool} {l l' : List α} (hm : Mono p l) (h : l'.Sublist l) : Mono p l' :=
  List.Pairwise.sublist h hm

/-! ### in-node search -/

theorem findLin_eq (p : α → Bool) (l : List α) (hm : Mono p l) : findLin p l = firstTrue p l := by
  unfold findLin
  cases hl : l.getLast? with
  | none =>
    have : l = [] := by simpa using hl
    subst this; simp [firstTrue]
  | some last =>
    simp only
    split
    · rfl
    · rename_i hp
      symm; apply firstTrue_all_false
      intro x hx
      obtain ⟨init, rfl⟩ : ∃ init, l = init ++ [last] := List.getLast?_eq_some_iff.mp hl
      rcases List.mem_append.mp hx with hx | hx
      · have := (List.pairwise_append.mp hm).2.2 x hx last (by simp)
        cases hpx : p x with
        | false => rfl
        | true => exact absurd (this hpx) hp
      · simp at hx; subst hx; simpa using hp

theorem binLoop_eq (p : α → Bool) (l : List α) (hm : Mono p l) (fuel lo hi : Nat)
    (h1 : lo ≤ firstTrue p l) (h2 : firstTrue p l ≤ hi) (h3 : hi ≤ l.length) (h4 : hi - lo ≤ fuel) :
    binLoop p l fuel lo hi = firstTrue p l := by
  induction fuel generalizing lo hi with
  | zero => simp only [binLoop]; omega
  | succ f ih =>
    simp only [binLoop]
    split
    · rename_i hlt
      have hmid : (lo + hi) / 2 < l.length := by omega
      obtain ⟨x, hx⟩ := getElem?_of_lt hmid
      simp only [hx]
      split
      · rename_i hp
        apply ih
        · exact h1
        · -- p holds at mid, so the first true index is at most mid
          apply Decidable.byContradiction; intro hc
          have := firstTrue_false_before p l ((lo + hi) / 2) (by omega) x hx
          simp [hp] at this
        · omega
        · omega
      · rename_i hp
        apply ih
        · apply Decidable.byContradiction; intro hc
          have := hm.true_after ((lo + hi) / 2) (by omega) x hx
          exact hp this
        · exact h2
        · exact h3
        · omega
    · omega

theorem findBin_eq (p : α → Bool) (l : List α) (hm : Mono p l) : findBin p l = firstTrue p l := by
  unfold findBin
  exact binLoop_eq p l hm l.length 0 l.length (Nat.zero_le _) (firstTrue_le p l) (Nat.le_refl _) (by omega)

theorem findIn_eq (lin : Bool) (p : α → Bool) (l : List α) (hm : Mono p l) : findIn lin p l = firstTrue p l := by
  unfold findIn; split
  · exact findLin_eq p l hm
  · exact findBin_eq p l hm

/-! ### what `Pairwise` on the in-order list of an internal node says about items and children -/

theorem items_sublist_inter (cs : List (Node α)) (is : List α) (hlen : cs.length = is.length + 1) :
    is.Sublist (inter cs is) := by
  induction cs generalizing is with
  | nil => simp at hlen
  | cons c cs ih =>
    cases is with
    | nil => simp
    | cons s is' =>
      simp only [inter_cons_cons]
      exact List.Sublist.trans (List.Sublist.cons_cons s (ih is' (by simpa using hlen)))
        (List.sublist_append_right _ _)

theorem child_sublist_inter (cs : List (Node α)) (is : List α) (i : Nat) (c : Node α) (hc : cs[i]? = some c)
    (hlen : cs.length = is.length + 1) : (toList c).Sublist (inter cs is) := by
  rw [inter_split cs is i c hc hlen]
  exact List.Sublist.trans (List.sublist_append_right _ _) (List.sublist_append_left _ _)

theorem pre_all_false (p : α → Bool) (cs : List (Node α)) (is : List α) (i : Nat)
    (hm : Mono p (inter cs is)) (hlen : cs.length = is.length + 1) (hi : i ≤ is.length)
    (hf : ∀ j x, j < i → is[j]? = some x → p x = false) : ∀ x ∈ preOf cs is i, p x = false := by
  induction cs generalizing is i with
  | nil => simp at hlen
  | cons c cs ih =>
    cases i with
    | zero => simp [preOf]
    | succ k =>
      cases is with
      | nil => simp at hi
      | cons s is' =>
        have hs : p s = false := hf 0 s (by omega) (by simp)
        simp only [inter_cons_cons] at hm
        obtain ⟨_, hm2, hm3⟩ := List.pairwise_append.mp hm
        intro x hx
        simp only [preOf, List.take_succ_cons, inter_cons_cons, List.mem_append, List.mem_cons] at hx
        rcases hx with hx | rfl | hx
        · have := hm3 x hx s (by simp)
          cases hpx : p x with
          | false => rfl
          | true => rw [this hpx] at hs; exact absurd hs (by simp)
        · exact hs
        · exact ih is' k (List.pairwise_cons.mp hm2).2 (by simpa using hlen) (by simpa using hi)
            (fun j y hj hy => hf (j+1) y (by omega) (by simpa using hy)) x hx

theorem post_all_true (p : α → Bool) (cs : List (Node α)) (is : List α) (i : Nat)
    (hm : Mono p (inter cs is)) (hlen : cs.length = is.length + 1)
    (ht : ∀ j x, i ≤ j → is[j]? = some x → p x = true) : ∀ y ∈ postOf cs is i, p y = true := by
  induction cs generalizing is i with
  | nil => simp at hlen
  | cons c cs ih =>
    cases is with
    | nil => simp [postOf]
    | cons s is' =>
      simp only [inter_cons_cons] at hm
      obtain ⟨_, hm2, _⟩ := List.pairwise_append.mp hm
      cases i with
      | zero =>
        have hs : p s = true := ht 0 s (Nat.le_refl _) (by simp)
        intro y hy
        simp only [postOf, List.drop_zero, Nat.zero_add, List.drop_succ_cons, List.mem_cons] at hy
        rcases hy with rfl | hy
        · exact hs
        · exact (List.pairwise_cons.mp hm2).1 y hy hs
      | succ k =>
        intro y hy
        have : postOf (c :: cs) (s :: is') (k+1) = postOf cs is' k := by simp [postOf]
        rw [this] at hy
        exact ih is' k (List.pairwise_cons.mp hm2).2 (by simpa using hlen)
          (fun j x hj hx => ht (j+1) x (by omega) (by simpa using hx)) y hy

/-! ### the descent -/

/-- `pvFindFirst(pred)` below a node: a result is an element position whose in-order index is the index of the first
    element satisfying the predicate; no result means no element of the subtree satisfies it -/
theorem findFirst_spec (lin : Bool) (p : α → Bool) {d : Nat} {n : Node α} (hb : Bal d n) (hm : Mono p (toList n)) :
    (∀ q, findFirst lin p n = some q →
        ValidElem n q.path q.idx ∧ idxOf n q.path q.idx = firstTrue p (toList n) ∧ firstTrue p (toList n) < size n) ∧
    (findFirst lin p n = none → firstTrue p (toList n) = size n) := by
  induction hb with
  | leaf cap items =>
    simp only [toList_leaf] at hm
    simp only [findFirst, findIn_eq lin p items hm, toList_leaf, size]
    constructor
    · intro q hq
      split at hq
      · rename_i hlt
        cases hq
        exact ⟨⟨leaf cap items, by simp, by simpa [Node.count] using hlt⟩, by simp, hlt⟩
      · cases hq
    · intro h
      split at h
      · cases h
      · have := firstTrue_le p items; omega
  | inner d items cs hlen hall ih =>
    simp only [toList_inner] at hm
    have hmi : Mono p items := hm.sublist (items_sublist_inter cs items hlen)
    have hfi := findIn_eq lin p items hmi
    have hle := firstTrue_le p items
    obtain ⟨c, hc⟩ := getElem?_of_lt (l := cs) (i := firstTrue p items) (by omega)
    have hmc : Mono p (toList c) := hm.sublist (child_sublist_inter cs items _ c hc hlen)
    have ihc := ih c (List.mem_of_getElem? hc) hmc
    have hsplit := inter_split cs items (firstTrue p items) c hc hlen
    have hpre := pre_all_false p cs items (firstTrue p items) hm hlen hle
      (fun j x hj hx => firstTrue_false_before p items j hj x hx)
    have hpost := post_all_true p cs items (firstTrue p items) hm hlen
      (fun j x hj hx => hmi.true_after j hj x hx)
    have hprelen := preOf_length cs items (firstTrue p items) hle hlen
    simp only [findFirst, hfi, findFirstAt_eq, hc, toList_inner, size]
    -- index of the first true element of the whole list, by cases on the child
    have key : firstTrue p (inter cs items) =
        (preOf cs items (firstTrue p items)).length + firstTrue p (toList c ++ postOf cs items (firstTrue p items)) := by
      rw [hsplit, List.append_assoc, firstTrue_append_false p _ _ hpre]
    cases hff : findFirst lin p c with
    | some q =>
      obtain ⟨hv, hidx, hlt⟩ := ihc.1 q hff
      simp only
      constructor
      · intro q' hq'; cases hq'
        refine ⟨?_, ?_, ?_⟩
        · obtain ⟨m, hm1, hm2⟩ := hv
          exact ⟨m, by simp [hc, hm1], hm2⟩
        · simp only [idxOf_inner_cons, hc, hidx, key, hprelen]
          rw [firstTrue_append_left p _ _ (by simpa [size] using hlt)]
        · rw [key, firstTrue_append_left p _ _ (by simpa [size] using hlt), hsplit]
          simp only [List.length_append, size] at hlt ⊢
          omega
      · intro h; cases h
    | none =>
      have hnone := ihc.2 hff
      have hallc := firstTrue_eq_length_iff p (toList c) (by simpa [size] using hnone)
      have key2 : firstTrue p (toList c ++ postOf cs items (firstTrue p items)) =
          (toList c).length + firstTrue p (postOf cs items (firstTrue p items)) :=
        firstTrue_append_false p _ _ hallc
      simp only
      constructor
      · intro q' hq'
        split at hq'
        · rename_i hlt
          cases hq'
          -- the item `firstTrue p items` of this node is the first true element
          obtain ⟨x, hx, hpx⟩ := firstTrue_true_at p items hlt
          have hd : items.drop (firstTrue p items) = x :: items.drop (firstTrue p items + 1) := by
            rw [List.drop_eq_getElem_cons hlt]
            congr 1
            rw [List.getElem?_eq_getElem hlt] at hx; exact Option.some.inj hx
          have hpo : firstTrue p (postOf cs items (firstTrue p items)) = 0 := by
            simp only [postOf, hd]; exact firstTrue_head_true p x _ hpx
          refine ⟨⟨inner items cs, by simp, by simpa [Node.count] using hlt⟩, ?_, ?_⟩
          · rw [idxOf_inner_nil, sum_take_succ cs _ c hc, key, key2, hpo, hprelen]; simp [size]; omega
          · rw [key, key2, hpo, hsplit]
            simp only [List.length_append, postOf, hd, List.length_cons]; omega
        · cases hq'
      · intro h
        split at h
        · cases h
        · rename_i hnlt
          have he : firstTrue p items = items.length := by omega
          have hpo : postOf cs items (firstTrue p items) = [] := by simp [postOf, he]
          rw [key, key2, hpo, hsplit, hpo]; simp [firstTrue]

/-- `pvFindFirst(pred)` on a root: the returned iterator (`GetEnd()` when nothing satisfies the predicate) denotes the
    index of the first element of the in-order list satisfying the predicate -/
theorem findPos_idx (lin : Bool) (p : α → Bool) {d : Nat} {r : Node α} (hb : Bal d r) (hm : Mono p (toList r)) :
    idxOf r (findPos lin p r).path (findPos lin p r).idx = firstTrue p (toList r) := by
  have h := findFirst_spec lin p hb hm
  unfold findPos
  cases hf : findFirst lin p r with
  | some q => simpa using (h.1 q hf).2.1
  | none =>
    have := h.2 hf
    simp only [Option.getD_none, endPos, this]
    cases hb with
    | leaf cap items => simp [Node.count, size]
    | inner d items cs hlen hall => simpa [Node.count] using idxOf_end items cs hlen

/-- the returned iterator is an element position or `GetEnd()` -/
theorem findPos_valid (lin : Bool) (p : α → Bool) {d : Nat} {r : Node α} (hb : Bal d r) (hm : Mono p (toList r)) :
    (ValidElem r (findPos lin p r).path (findPos lin p r).idx ∧ firstTrue p (toList r) < size r) ∨
    (findPos lin p r = endPos r ∧ firstTrue p (toList r) = size r) := by
  have h := findFirst_spec lin p hb hm
  unfold findPos
  cases hf : findFirst lin p r with
  | some q => exact Or.inl ⟨by simpa using (h.1 q hf).1, (h.1 q hf).2.2⟩
  | none => exact Or.inr ⟨by simp, h.2 hf⟩

end Momo.BTree
