import Momo.Model.Columns
/-!
# Soundness and termination of the depth-first fill of the addends (`Graph::FillAddends`,
`pvFillAddends`, DataColumn.h l.834-854 and l.1174-1187) — lemmas for C18

Core Lean only.  Main results: `fillEdges_spec`, `fillVertex_spec`, `fillRoots_spec`, `fill_spec`.
The invariant that makes the 64-bit arithmetic exact: every non-zero addend lies within
`(number of non-zero addends) * B` of the root value `2^63`, where `B` bounds the edge values
(offsets). With `(n + 1) * B < 2^63` no assignment can produce `0` (which the C++ reads as
"unvisited"), every assignment turns a zero into a non-zero, and so the recursion depth is bounded
by the number of zero addends — this is the termination argument.
-/
namespace Momo.Col

theorem W_eq : W = 18446744073709551616 := by decide
theorem H_eq : H = 9223372036854775808 := by decide

def zeros (a : Array Nat) : Nat := a.toList.count 0

theorem getD_set (a : Array Nat) (i j x : Nat) :
    (a.setIfInBounds i x).getD j 0 = if i = j ∧ i < a.size then x else a.getD j 0 := by
  simp only [Array.getD_eq_getD_getElem?, Array.getElem?_setIfInBounds]
  by_cases h : i = j
  · subst h
    by_cases h2 : i < a.size
    · simp [h2]
    · simp [h2]
  · simp [h]

theorem lt_size_of_getD_ne (a : Array Nat) (i : Nat) (h : a.getD i 0 ≠ 0) : i < a.size := by
  apply Decidable.byContradiction
  intro hn
  apply h
  simp [Array.getD_eq_getD_getElem?, Nat.not_lt.mp hn]

theorem zeros_le (a : Array Nat) : zeros a ≤ a.size := by
  unfold zeros
  simpa using List.count_le_length (a := 0) (l := a.toList)

theorem zeros_set (a : Array Nat) (i x : Nat) (hi : i < a.size) (h0 : a.getD i 0 = 0) (hx : x ≠ 0) :
    zeros (a.setIfInBounds i x) + 1 = zeros a := by
  unfold zeros
  rw [Array.toList_setIfInBounds, List.count_set (by simpa using hi)]
  have hi' : i < a.toList.length := by simpa using hi
  have h1 : a.toList[i] = 0 := by
    have := h0
    simp [Array.getD_eq_getD_getElem?, hi] at this
    simpa using this
  have hpos : 0 < a.toList.count 0 := by
    apply List.count_pos_iff.mpr
    rw [← h1]; exact List.getElem_mem hi'
  simp only [h1, beq_self_eq_true, if_true]
  have : (x == 0) = false := by simpa using hx
  simp only [this, Bool.false_eq_true, if_false]
  omega

/-- every edge stays inside the vertex range and its value (an offset) is at most `B` -/
def GOK (g : Adj) (n B : Nat) : Prop := g.size = n ∧ ∀ w e, e ∈ g.getD w [] → e.vertex < n ∧ e.value ≤ B

/-- every non-zero addend is within `(number of non-zero addends) * B` of the root value `2^63` -/
def Bd (n B : Nat) (a : Array Nat) : Prop :=
  ∀ w, a.getD w 0 ≠ 0 → H ≤ a.getD w 0 + (n - zeros a) * B ∧ a.getD w 0 ≤ H + (n - zeros a) * B

/-- the edge `e` out of `w` is satisfied: both addends non-zero and they sum (in `size_t`) to the value -/
def Sat (a : Array Nat) (w : Nat) (e : Edge) : Prop :=
  a.getD w 0 ≠ 0 ∧ a.getD e.vertex 0 ≠ 0 ∧ add64 (a.getD w 0) (a.getD e.vertex 0) = e.value

/-- `a'` extends `a`: non-zero addends are never changed -/
def Ext (a a' : Array Nat) : Prop :=
  a'.size = a.size ∧ zeros a' ≤ zeros a ∧ ∀ w, a.getD w 0 ≠ 0 → a'.getD w 0 = a.getD w 0

theorem Ext.refl (a : Array Nat) : Ext a a := ⟨rfl, Nat.le_refl _, fun _ _ => rfl⟩

theorem Ext.trans {a b c : Array Nat} (h1 : Ext a b) (h2 : Ext b c) : Ext a c := by
  refine ⟨h2.1.trans h1.1, Nat.le_trans h2.2.1 h1.2.1, ?_⟩
  intro w hw
  have hb : b.getD w 0 = a.getD w 0 := h1.2.2 w hw
  rw [h2.2.2 w (by rw [hb]; exact hw), hb]

theorem Sat.mono {a a' : Array Nat} {w : Nat} {e : Edge} (h : Sat a w e) (hx : Ext a a') : Sat a' w e := by
  obtain ⟨h1, h2, h3⟩ := h
  refine ⟨?_, ?_, ?_⟩
  · rw [hx.2.2 w h1]; exact h1
  · rw [hx.2.2 _ h2]; exact h2
  · rw [hx.2.2 w h1, hx.2.2 _ h2]; exact h3

structure Post (g : Adj) (n B v : Nat) (es : List Edge) (a a' : Array Nat) : Prop where
  ext : Ext a a'
  bd : Bd n B a'
  here : ∀ e ∈ es, Sat a' v e
  fresh : ∀ w, a.getD w 0 = 0 → a'.getD w 0 ≠ 0 → ∀ e ∈ g.getD w [], Sat a' w e

def RecOK (g : Adj) (n B : Nat) (R : Nat → Array Nat → Res) (m : Nat) : Prop :=
  ∀ v a, a.size = n → Bd n B a → a.getD v 0 ≠ 0 → zeros a < m →
    R v a ≠ .fuel ∧ ∀ a', R v a = .ok a' → Post g n B v (g.getD v []) a a'

/-- arithmetic of one assignment `addend2 = edge->value - addend` -/
theorem assign_arith (n B k x val : Nat) (hB : (n + 1) * B < H) (hk : k < n) (hval : val ≤ B)
    (hlo : H ≤ x + k * B) (hhi : x ≤ H + k * B) :
    sub64 val x ≠ 0 ∧ add64 x (sub64 val x) = val ∧
    H ≤ sub64 val x + (k + 1) * B ∧ sub64 val x ≤ H + (k + 1) * B := by
  have h1 : (k + 1) * B ≤ n * B := Nat.mul_le_mul_right B hk
  have h2 : (n + 1) * B = n * B + B := Nat.succ_mul n B
  have h3 : (k + 1) * B = k * B + B := Nat.succ_mul k B
  rw [H_eq] at hB hlo hhi ⊢
  have hx : x < W := by rw [W_eq]; omega
  have hv : val < W := by rw [W_eq]; omega
  have hs : sub64 val x = val + W - x := by
    unfold sub64
    rw [Nat.mod_eq_of_lt hx, Nat.mod_eq_of_lt hv, Nat.mod_eq_of_lt]
    rw [W_eq]; omega
  rw [hs]
  unfold add64
  have : x + (val + W - x) = val + W := by rw [W_eq]; omega
  rw [this, Nat.add_mod_right, Nat.mod_eq_of_lt hv]
  rw [W_eq]
  omega

theorem fillEdges_spec (g : Adj) (n B : Nat) (hB : (n + 1) * B < H)
    (R : Nat → Array Nat → Res) (m : Nat) (hR : RecOK g n B R m) (v : Nat) :
    ∀ (es : List Edge) (a : Array Nat), (∀ e ∈ es, e.vertex < n ∧ e.value ≤ B) →
      a.size = n → Bd n B a → a.getD v 0 ≠ 0 → zeros a ≤ m →
      fillEdges R es (a.getD v 0) a ≠ .fuel ∧
      ∀ a', fillEdges R es (a.getD v 0) a = .ok a' → Post g n B v es a a' := by
  intro es
  induction es with
  | nil =>
    intro a _ _ hbd _ _
    refine ⟨by simp [fillEdges], ?_⟩
    intro a' h
    simp only [fillEdges, Res.ok.injEq] at h
    subst h
    exact ⟨Ext.refl _, hbd, by simp, fun w h0 h1 => absurd h0 h1⟩
  | cons e es ih =>
    intro a hes hsz hbd hv hz
    have he := hes e (by simp)
    have hes' : ∀ e' ∈ es, e'.vertex < n ∧ e'.value ≤ B := fun e' h => hes e' (by simp [h])
    unfold fillEdges
    by_cases h0 : a.getD e.vertex 0 = 0
    · simp only [h0, if_true]
      -- the assignment
      have hzn : zeros a ≤ n := hsz ▸ zeros_le a
      have hvb := hbd v hv
      have hei : e.vertex < a.size := hsz ▸ he.1
      have hzpos : 0 < zeros a := by
        have := zeros_set a e.vertex 1 hei h0 (by decide); omega
      have hk : n - zeros a < n := by omega
      obtain ⟨hx0, hsum, hxlo, hxhi⟩ := assign_arith n B (n - zeros a) (a.getD v 0) e.value hB hk he.2 hvb.1 hvb.2
      have hz1 := zeros_set a e.vertex (sub64 e.value (a.getD v 0)) hei h0 hx0
      have hne : e.vertex ≠ v := fun h => hv (h ▸ h0)
      have hk1 : n - zeros (a.setIfInBounds e.vertex (sub64 e.value (a.getD v 0))) = n - zeros a + 1 := by omega
      have hle : (n - zeros a) * B ≤ (n - zeros a + 1) * B := Nat.mul_le_mul_right B (Nat.le_succ _)
      have hext1 : Ext a (a.setIfInBounds e.vertex (sub64 e.value (a.getD v 0))) := by
        refine ⟨by simp, by omega, ?_⟩
        intro w hw
        rw [getD_set]
        have : ¬ (e.vertex = w ∧ e.vertex < a.size) := fun h => hw (h.1 ▸ h0)
        simp [this]
      have hbd1 : Bd n B (a.setIfInBounds e.vertex (sub64 e.value (a.getD v 0))) := by
        intro w hw
        rw [hk1]
        rw [getD_set] at hw ⊢
        by_cases hc : e.vertex = w ∧ e.vertex < a.size
        · rw [if_pos hc]
          exact ⟨hxlo, hxhi⟩
        · rw [if_neg hc] at hw ⊢
          have := hbd w hw
          omega
      have hself : (a.setIfInBounds e.vertex (sub64 e.value (a.getD v 0))).getD e.vertex 0
          = sub64 e.value (a.getD v 0) := by
        rw [getD_set]; simp [hei]
      have hr := hR e.vertex _ (by simpa using hsz) hbd1 (by rw [hself]; exact hx0) (by omega)
      cases hrr : R e.vertex (a.setIfInBounds e.vertex (sub64 e.value (a.getD v 0))) with
      | fuel => exact absurd hrr hr.1
      | bad => simp
      | ok a2 =>
        simp only
        have hp := hr.2 a2 hrr
        have hv2 : a2.getD v 0 = a.getD v 0 := (Ext.trans hext1 hp.ext).2.2 v hv
        have hrec := ih a2 hes' (by rw [hp.ext.1]; simpa using hsz) hp.bd (by rw [hv2]; exact hv)
          (by have := hp.ext.2.1; omega)
        rw [hv2] at hrec
        refine ⟨hrec.1, ?_⟩
        intro a' ha'
        have hq := hrec.2 a' ha'
        have hext : Ext a a' := Ext.trans hext1 (Ext.trans hp.ext hq.ext)
        refine ⟨hext, hq.bd, ?_, ?_⟩
        · intro e' he'
          rcases List.mem_cons.mp he' with rfl | he'
          · -- the assigned edge
            have hs1 : Sat (a.setIfInBounds e'.vertex (sub64 e'.value (a.getD v 0))) v e' := by
              refine ⟨?_, ?_, ?_⟩
              · rw [hext1.2.2 v hv]; exact hv
              · rw [hself]; exact hx0
              · rw [hext1.2.2 v hv, hself]; exact hsum
            exact hs1.mono (Ext.trans hp.ext hq.ext)
          · exact hq.here e' he'
        · intro w hw0 hw' e' he'
          by_cases h2 : a2.getD w 0 = 0
          · exact hq.fresh w h2 hw' e' he'
          · by_cases h1 : (a.setIfInBounds e.vertex (sub64 e.value (a.getD v 0))).getD w 0 = 0
            · exact (hp.fresh w h1 h2 e' he').mono hq.ext
            · -- w is the vertex just assigned
              have hwe : e.vertex = w := by
                rw [getD_set] at h1
                by_cases hc : e.vertex = w ∧ e.vertex < a.size
                · exact hc.1
                · rw [if_neg hc] at h1; exact absurd hw0 h1
              subst hwe
              exact (hp.here e' he').mono hq.ext
    · simp only [h0, if_false]
      by_cases hc : add64 (a.getD v 0) (a.getD e.vertex 0) ≠ e.value
      · rw [if_pos hc]
        exact ⟨by simp, by intro a' h; cases h⟩
      · rw [if_neg hc]
        have hrec := ih a hes' hsz hbd hv hz
        refine ⟨hrec.1, ?_⟩
        intro a' ha'
        have hq := hrec.2 a' ha'
        refine ⟨hq.ext, hq.bd, ?_, hq.fresh⟩
        intro e' he'
        rcases List.mem_cons.mp he' with rfl | he'
        · have : Sat a v e' := ⟨hv, h0, Decidable.not_not.mp hc⟩
          exact this.mono hq.ext
        · exact hq.here e' he'


theorem fillVertex_spec (g : Adj) (n B : Nat) (hB : (n + 1) * B < H) (hg : GOK g n B) :
    ∀ fuel, RecOK g n B (fillVertex fuel g) fuel := by
  intro fuel
  induction fuel with
  | zero => intro v a _ _ _ hz; omega
  | succ f ih =>
    intro v a hsz hbd hv hz
    unfold fillVertex
    exact fillEdges_spec g n B hB (fillVertex f g) f ih v (g.getD v []) a (fun e he => hg.2 v e he) hsz hbd hv (by omega)

/-- every edge out of a vertex with a non-zero addend is satisfied -/
def AllSat (g : Adj) (a : Array Nat) : Prop := ∀ w, a.getD w 0 ≠ 0 → ∀ e ∈ g.getD w [], Sat a w e

theorem fillRoots_spec (g : Adj) (n B : Nat) (hB : (n + 1) * B < H) (hg : GOK g n B) (fuel : Nat) (hf : n ≤ fuel) :
    ∀ (vs : List Nat) (a : Array Nat), (∀ v ∈ vs, v < n) → a.size = n → Bd n B a → AllSat g a →
      fillRoots fuel g vs a ≠ .fuel ∧
      ∀ a', fillRoots fuel g vs a = .ok a' →
        Ext a a' ∧ Bd n B a' ∧ AllSat g a' ∧ ∀ v ∈ vs, g.getD v [] ≠ [] → a'.getD v 0 ≠ 0 := by
  intro vs
  induction vs with
  | nil =>
    intro a _ _ hbd hall
    refine ⟨by simp [fillRoots], ?_⟩
    intro a' h
    simp only [fillRoots, Res.ok.injEq] at h
    subst h
    exact ⟨Ext.refl _, hbd, hall, by simp⟩
  | cons v vs ih =>
    intro a hvs hsz hbd hall
    have hvs' : ∀ v' ∈ vs, v' < n := fun v' h => hvs v' (by simp [h])
    have hvn : v < n := hvs v (by simp)
    unfold fillRoots
    by_cases hc : ((g.getD v []).isEmpty || a.getD v 0 ≠ 0) = true
    · rw [if_pos hc]
      have hrec := ih a hvs' hsz hbd hall
      refine ⟨hrec.1, ?_⟩
      intro a' ha'
      obtain ⟨hx, hb, hs, hr⟩ := hrec.2 a' ha'
      refine ⟨hx, hb, hs, ?_⟩
      intro v' hv' hne
      rcases List.mem_cons.mp hv' with rfl | hv'
      · have hnz : a.getD v' 0 ≠ 0 := by
          simp only [Bool.or_eq_true, List.isEmpty_iff, decide_eq_true_eq] at hc
          rcases hc with hc | hc
          · exact absurd hc hne
          · exact hc
        rw [hx.2.2 v' hnz]; exact hnz
      · exact hr v' hv' hne
    · rw [if_neg hc]
      have h0 : a.getD v 0 = 0 := by
        simp only [Bool.or_eq_true, List.isEmpty_iff, decide_eq_true_eq, not_or] at hc
        exact Decidable.not_not.mp hc.2
      have hvi : v < a.size := hsz ▸ hvn
      have hH : H ≠ 0 := by rw [H_eq]; decide
      have hz1 := zeros_set a v H hvi h0 hH
      have hzn : zeros a ≤ n := hsz ▸ zeros_le a
      have hself : (a.setIfInBounds v H).getD v 0 = H := by rw [getD_set]; simp [hvi]
      have hext1 : Ext a (a.setIfInBounds v H) := by
        refine ⟨by simp, by omega, ?_⟩
        intro w hw
        rw [getD_set]
        have : ¬ (v = w ∧ v < a.size) := fun h => hw (h.1 ▸ h0)
        simp [this]
      have hbd1 : Bd n B (a.setIfInBounds v H) := by
        intro w hw
        have hk1 : n - zeros (a.setIfInBounds v H) = n - zeros a + 1 := by omega
        have hle : (n - zeros a) * B ≤ (n - zeros a + 1) * B := Nat.mul_le_mul_right B (Nat.le_succ _)
        rw [hk1]
        rw [getD_set] at hw ⊢
        by_cases hcc : v = w ∧ v < a.size
        · rw [if_pos hcc]; omega
        · rw [if_neg hcc] at hw ⊢
          have := hbd w hw
          omega
      have hr := fillVertex_spec g n B hB hg fuel v _ (by simpa using hsz) hbd1 (by rw [hself]; exact hH) (by omega)
      cases hrr : fillVertex fuel g v (a.setIfInBounds v H) with
      | fuel => exact absurd hrr hr.1
      | bad => exact ⟨by simp, by intro a' h; cases h⟩
      | ok a2 =>
        simp only
        have hp := hr.2 a2 hrr
        have hall2 : AllSat g a2 := by
          intro w hw e he
          by_cases h1 : (a.setIfInBounds v H).getD w 0 = 0
          · exact hp.fresh w h1 hw e he
          · by_cases hwv : v = w
            · subst hwv; exact hp.here e he
            · have hw0 : a.getD w 0 ≠ 0 := by
                rw [getD_set] at h1
                have : ¬ (v = w ∧ v < a.size) := fun h => hwv h.1
                rw [if_neg this] at h1; exact h1
              exact (hall w hw0 e he).mono (Ext.trans hext1 hp.ext)
        have hrec := ih a2 hvs' (by rw [hp.ext.1]; simpa using hsz) hp.bd hall2
        refine ⟨hrec.1, ?_⟩
        intro a' ha'
        obtain ⟨hx, hb, hs, hrs⟩ := hrec.2 a' ha'
        refine ⟨Ext.trans hext1 (Ext.trans hp.ext hx), hb, hs, ?_⟩
        intro v' hv' hne
        rcases List.mem_cons.mp hv' with rfl | hv'
        · have : a2.getD v' 0 = H := by rw [hp.ext.2.2 v' (by rw [hself]; exact hH), hself]
          rw [hx.2.2 v' (by rw [this]; exact hH), this]; exact hH
        · exact hrs v' hv' hne

theorem zeros_replicate (n : Nat) : zeros (Array.replicate n 0) = n := by
  simp [zeros]

theorem getD_replicate (n w : Nat) : (Array.replicate n 0).getD w 0 = 0 := by
  simp only [Array.getD_eq_getD_getElem?, Array.getElem?_replicate]
  split <;> rfl

/-- **Soundness of the fill** (the `pvFillAddends` loop on a fresh addend array): it never runs out
of fuel, and when it succeeds every edge of the graph is satisfied by the returned addends. -/
theorem fill_spec (g : Adj) (n B : Nat) (hB : (n + 1) * B < H) (hg : GOK g n B) :
    fillRoots n g (List.range n) (Array.replicate n 0) ≠ .fuel ∧
    ∀ a', fillRoots n g (List.range n) (Array.replicate n 0) = .ok a' →
      a'.size = n ∧ Bd n B a' ∧ ∀ w e, e ∈ g.getD w [] → Sat a' w e := by
  have h := fillRoots_spec g n B hB hg n (Nat.le_refl n) (List.range n) (Array.replicate n 0)
    (fun v hv => List.mem_range.mp hv) (by simp)
    (fun w hw => absurd (getD_replicate n w) hw) (fun w hw => absurd (getD_replicate n w) hw)
  refine ⟨h.1, ?_⟩
  intro a' ha'
  obtain ⟨hx, hb, hs, hr⟩ := h.2 a' ha'
  refine ⟨by rw [hx.1]; simp, hb, ?_⟩
  intro w e he
  have hw : w < n := by
    apply Decidable.byContradiction
    intro hn
    have : g.getD w [] = [] := by
      simp [Array.getD_eq_getD_getElem?, hg.1, Nat.not_lt.mp hn]
    rw [this] at he; cases he
  exact hs w (hr w (List.mem_range.mpr hw) (List.ne_nil_of_mem he)) e he

end Momo.Col
