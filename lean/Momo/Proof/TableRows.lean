import Momo.Proof.TableRemove
/-!
  C07, table level, part 2: `RemoveRaw`, `pvExtractRaw` (by number, with and without order, by reference),
  `pvFilterRaws` / `Remove(range)` / `Remove(filter)` / `Assign`, `TryInsert`: the invariant is kept and the rows
  are what the row-list specification says.
-/
namespace Momo.Table
open List

/-- same raw: identity, values, address (the row number may differ) -/
abbrev RowRel (a b : Row) : Prop := b.id = a.id ∧ b.vals = a.vals ∧ b.addr = a.addr

theorem addrs_forall₂ {st st' : Store} (h : Forall₂ RowRel st st') : st'.map (·.addr) = st.map (·.addr) := by
  induction h with
  | nil => rfl
  | cons hab _ ih => simp only [map_cons]; rw [hab.2.2, ih]

/-- the rows of the table are a rearrangement (and renumbering) of a store for which the indexes are consistent -/
theorem Inv_of_perm_rel {acc : Acc} {keep : Bool} {t : Table} {st mid : Store} (hnd : (ids st).Nodup) (hai : AddrInj st)
    (hp : st.Perm mid) (hrel : Forall₂ RowRel mid t.rows)
    (hnum : keep = true → ∀ (i : Nat) (r : Row), t.rows[i]? = some r → r.num = i)
    (hu : ∀ u ∈ t.uidx, UInv acc st u) (hm : ∀ m ∈ t.midx, MInv acc st m) : Inv acc keep t := by
  have hsim : StoreSim st t.rows := (storeSim_of_perm hp hnd).trans (storeSim_of_forall₂ hrel)
  refine Inv_of_sim hsim ?_ ?_ hnum hu hm
  · rw [ids_forall₂ hrel]; exact (hp.map _).nodup_iff.mp hnd
  · unfold AddrInj; rw [addrs_forall₂ hrel]; exact (hp.map _).nodup_iff.mp hai

theorem forall₂_rowRel_refl (l : List Row) : Forall₂ RowRel l l := forall₂_same.mpr (fun _ _ => ⟨rfl, rfl, rfl⟩)

/-! ### `DataIndexes::RemoveRaw` -/

section removeRaw
variable {vis : Vis} (hc : Complete vis) (acc : Acc) (keep : Bool)
include hc

theorem removeRaw_inv (t : Table) (hinv : Inv acc keep t) {raw : Nat} (hraw : raw ∈ ids t.rows) :
    (removeRaw vis acc t t.rows raw).rows = t.rows ∧
    (∀ u ∈ (removeRaw vis acc t t.rows raw).uidx, UInv acc (keepRows t.rows (fun x => x != raw)) u) ∧
    (∀ m ∈ (removeRaw vis acc t t.rows raw).midx, MInv acc (keepRows t.rows (fun x => x != raw)) m) := by
  refine ⟨rfl, ?_, ?_⟩
  · intro u hu
    obtain ⟨u0, hu0, rfl⟩ := mem_map.mp hu
    exact UIdx.remove_spec hc acc hinv.idsNodup u0 (hinv.uinv u0 hu0) hraw
  · intro m hm
    obtain ⟨m0, hm0, rfl⟩ := mem_map.mp hm
    exact MIdx.remove_spec hc acc hinv.idsNodup hinv.addrInj m0 (hinv.minv m0 hm0) hraw

end removeRaw

/-! ### rows after a removal -/

theorem keepRows_ne_eq_eraseIdx {st : Store} (hnd : (ids st).Nodup) {n : Nat} (hn : n < st.length) :
    keepRows st (fun x => x != st[n].id) = st.eraseIdx n := by
  unfold keepRows
  exact (eraseIdx_eq_filter_of_nodup_map (fun r : Row => r.id) st n hn hnd).symm

theorem keepRows_nodup {st : Store} (hnd : (ids st).Nodup) (keep : Nat → Bool) : (ids (keepRows st keep)).Nodup := by
  rw [ids_keepRows]; exact hnd.filter _

/-- `mRaws[n] = mRaws.back(); mRaws.RemoveBack()` as a rearrangement of the removal of position `n` -/
theorem swap_remove_perm {α : Type} (l : List α) (last : α) (n : Nat) (hl : l.getLast? = some last)
    (hn : n < l.length - 1) : (l.eraseIdx n).Perm ((l.set n last).dropLast) := by
  obtain ⟨init, rfl⟩ := getLast?_eq_some_iff.mp hl
  have hn' : n < init.length := by simpa using hn
  rw [set_append_left _ _ hn', dropLast_concat, eraseIdx_append_of_lt_length hn']
  have h1 : init.set n last = init.take n ++ last :: init.drop (n + 1) := set_eq_take_append_cons_drop.trans (by simp [hn'])
  have h2 : init.eraseIdx n = init.take n ++ init.drop (n + 1) := eraseIdx_eq_take_drop_succ _ _
  rw [h1, h2, append_assoc]
  exact Perm.append_left _ (perm_append_singleton _ _)

theorem getElem?_eraseIdx_lt {α : Type} (l : List α) (n i : Nat) (h : i < n) : (l.eraseIdx n)[i]? = l[i]? := by
  rw [getElem?_eraseIdx]; simp [h]

section extract
variable {vis : Vis} (hc : Complete vis) (acc : Acc) (keep : Bool)
include hc

/-- **`pvExtractRaw(number, keepOrder)`**: the row at position `n` leaves the table and every index; with
    `keepOrder` the later rows move up and are renumbered, without it the last row takes its place and number -/
theorem extract_spec (t : Table) (hinv : Inv acc keep t) (n : Nat) (keepOrder : Bool) :
    Inv acc keep (extract vis acc keep t n keepOrder).1 ∧
    match t.rows[n]? with
    | none => extract vis acc keep t n keepOrder = (t, none)
    | some r => (extract vis acc keep t n keepOrder).2 = some r ∧
        (extract vis acc keep t n keepOrder).1.rows =
          if keepOrder then setNumbers keep n (t.rows.eraseIdx n)
          else if n < t.rows.length - 1 then (t.rows.set n (setNum keep (t.rows.getLastD r) n)).dropLast
          else t.rows.dropLast := by
  unfold extract
  cases hr : t.rows[n]? with
  | none => exact ⟨hinv, rfl⟩
  | some r =>
    simp only
    obtain ⟨hn, hrn⟩ := List.getElem?_eq_some_iff.mp hr
    have hraw : r.id ∈ ids t.rows := mem_ids_iff.mpr ⟨r, hrn ▸ getElem_mem hn, rfl⟩
    obtain ⟨_, hu, hm⟩ := removeRaw_inv hc acc keep t hinv hraw
    have hst : keepRows t.rows (fun x => x != r.id) = t.rows.eraseIdx n := by
      rw [← hrn]; exact keepRows_ne_eq_eraseIdx hinv.idsNodup hn
    rw [hst] at hu hm
    have hnd' : (ids (t.rows.eraseIdx n)).Nodup := by rw [← hst]; exact keepRows_nodup hinv.idsNodup _
    have hai' : AddrInj (t.rows.eraseIdx n) := by rw [← hst]; exact addrInj_keepRows hinv.addrInj _
    cases keepOrder with
    | true =>
      simp only [if_true]
      refine ⟨?_, trivial, trivial⟩
      refine Inv_of_perm_rel (t := { removeRaw vis acc t t.rows r.id with rows := setNumbers keep n (t.rows.eraseIdx n) })
        hnd' hai' (Perm.refl _) (setNumbers_rel keep _ n) ?_ hu hm
      intro hk i x hx
      subst hk
      exact setNumbers_nums _ n (fun i x hi hx => hinv.nums rfl i x (by rw [← getElem?_eraseIdx_lt _ n i hi]; exact hx)) i x hx
    | false =>
      simp only [Bool.false_eq_true, if_false]
      cases hl : t.rows.getLast? with
      | none =>
        have : t.rows = [] := by simpa using hl
        rw [this] at hn; simp at hn
      | some last =>
        simp only
        have hlastD : t.rows.getLastD r = last := by
          rw [getLastD_eq_getLast?, hl]; rfl
        rw [hlastD]
        by_cases hlt : n < t.rows.length - 1
        · rw [if_pos hlt, if_pos hlt]
          refine ⟨?_, rfl, rfl⟩
          have hrel : Forall₂ RowRel ((t.rows.set n last).dropLast) ((t.rows.set n (setNum keep last n)).dropLast) := by
            have h1 : Forall₂ RowRel (t.rows.set n last) (t.rows.set n (setNum keep last n)) := by
              rw [set_eq_take_append_cons_drop, set_eq_take_append_cons_drop]
              split
              all_goals first
                | exact rel_append (forall₂_rowRel_refl _)
                    (Forall₂.cons ⟨setNum_id _ _ _, setNum_vals _ _ _, setNum_addr _ _ _⟩ (forall₂_rowRel_refl _))
            rw [dropLast_eq_take, dropLast_eq_take, length_set, length_set]
            exact forall₂_take _ h1
          refine Inv_of_perm_rel (t := { removeRaw vis acc t t.rows r.id with rows := (t.rows.set n (setNum keep last n)).dropLast })
            hnd' hai' (swap_remove_perm t.rows last n hl hlt) hrel ?_ hu hm
          intro hk i x hx
          subst hk
          have hx' : ((t.rows.set n (setNum true last n)).dropLast)[i]? = some x := hx
          rw [dropLast_eq_take, getElem?_take] at hx'
          split at hx'
          · rw [getElem?_set] at hx'
            split at hx'
            · rename_i hni
              simp only [Option.some.injEq] at hx'; rw [← hx', setNum_num, hni]
            · exact hinv.nums rfl i x hx'
          · simp at hx'
        · rw [if_neg hlt, if_neg hlt]
          refine ⟨?_, rfl, rfl⟩
          have he : t.rows.dropLast = t.rows.eraseIdx n := by
            rw [dropLast_eq_eraseIdx (i := n) (by omega)]
          rw [he]
          refine Inv_of_perm_rel (t := { removeRaw vis acc t t.rows r.id with rows := t.rows.eraseIdx n })
            hnd' hai' (Perm.refl _) (forall₂_rowRel_refl _) ?_ hu hm
          intro hk i x hx
          have hx' : (t.rows.eraseIdx n)[i]? = some x := hx
          rw [getElem?_eraseIdx] at hx'
          split at hx'
          · exact hinv.nums hk i x hx'
          · have := (List.getElem?_eq_some_iff.mp hx').1; omega

end extract
/-! ### `pvFilterRaws` -/

theorem filterTable_inv (acc : Acc) (keep : Bool) (t : Table) (hinv : Inv acc keep t) (kf : Nat → Bool) :
    (filterTable t kf).rows = keepRows t.rows kf ∧
    (∀ u ∈ (filterTable t kf).uidx, UInv acc (keepRows t.rows kf) u) ∧
    (∀ m ∈ (filterTable t kf).midx, MInv acc (keepRows t.rows kf) m) := by
  refine ⟨rfl, ?_, ?_⟩
  · intro u hu
    obtain ⟨u0, hu0, rfl⟩ := mem_map.mp hu
    exact UInv_filter acc (hinv.uinv u0 hu0) kf rfl (hinv.uinv u0 hu0).noPos (Perm.refl _)
  · intro m hm
    obtain ⟨m0, hm0, rfl⟩ := mem_map.mp hm
    have hm0i := hinv.minv m0 hm0
    have hR : Forall₂ (GroupStep (addrOf t.rows) kf (fun _ => [])) m0.groups (m0.groups.map (filterGroup (addrOf t.rows) kf)) := by
      rw [forall₂_map_right_iff]
      refine forall₂_same.mpr ?_
      intro g hg
      have := filterGroup_spec (addrOf t.rows) kf g (hm0i.members_addr_nodup hinv.idsNodup hinv.addrInj hg)
      cases ho : filterGroup (addrOf t.rows) kf g with
      | none => rw [ho] at this; exact ⟨this, rfl⟩
      | some g' => rw [ho] at this; exact ⟨by rw [append_nil]; exact this.1, this.2.1, this.2.2⟩
    have := MInv_filter acc hm0i kf _ hR
    have he : m0.filterRaws t.rows kf =
        MIdx.mk m0.cols ((m0.groups.map (filterGroup (addrOf t.rows) kf)).filterMap id) none none := by
      unfold MIdx.filterRaws
      rw [filterMap_map]
      have h1 := hm0i.noPos.1
      have h2 := hm0i.noPos.2
      cases m0; simp_all
    rw [he]; exact this

theorem Inv_renumbered {acc : Acc} {keep : Bool} {t : Table} {st mid : Store} (hnd : (ids st).Nodup) (hai : AddrInj st)
    (hp : st.Perm mid) (hrows : t.rows = setNumbers keep 0 mid)
    (hu : ∀ u ∈ t.uidx, UInv acc st u) (hm : ∀ m ∈ t.midx, MInv acc st m) : Inv acc keep t := by
  refine Inv_of_perm_rel hnd hai hp (by rw [hrows]; exact setNumbers_rel keep mid 0) ?_ hu hm
  intro hk i x hx
  subst hk
  rw [hrows] at hx
  exact setNumbers_nums mid 0 (fun i x hi _ => absurd hi (Nat.not_lt_zero _)) i x hx

/-- **`Remove(begin, end)`** (the rows named leave the table, the others keep their order and are renumbered) -/
theorem removeRows_spec (acc : Acc) (keep : Bool) (t : Table) (hinv : Inv acc keep t) (rm : List Nat) :
    Inv acc keep (removeRows keep t rm) ∧
    (removeRows keep t rm).rows = setNumbers keep 0 (t.rows.filter (fun r => !rm.contains r.id)) := by
  obtain ⟨hr, hu, hm⟩ := filterTable_inv acc keep t hinv (fun id => !rm.contains id)
  refine ⟨?_, rfl⟩
  exact Inv_renumbered (t := removeRows keep t rm) (keepRows_nodup hinv.idsNodup _) (addrInj_keepRows hinv.addrInj _)
    (Perm.refl _) rfl hu hm

/-- **`Remove(rowFilter)`** -/
theorem removePred_spec (acc : Acc) (keep : Bool) (t : Table) (hinv : Inv acc keep t) (p : Row → Bool) :
    Inv acc keep (removePred keep t p) ∧
    (removePred keep t p).rows = setNumbers keep 0 (t.rows.filter (fun r => !p r)) := by
  unfold removePred
  obtain ⟨h1, h2⟩ := removeRows_spec acc keep t hinv ((t.rows.filter p).map (·.id))
  refine ⟨h1, ?_⟩
  rw [h2]
  congr 1
  apply filter_congr
  intro r hr
  congr 1
  apply Bool.eq_iff_iff.mpr
  simp only [contains_iff_mem, mem_map, mem_filter]
  constructor
  · rintro ⟨r', ⟨hr', hp'⟩, hid⟩
    have : r' = r := by
      have h1 := rowOf_mem hinv.idsNodup hr'
      have h2 := rowOf_mem hinv.idsNodup hr
      rw [hid, h2] at h1; exact (Option.some.inj h1).symm
    rw [← this]; exact hp'
  · intro hp; exact ⟨r, ⟨hr, hp⟩, rfl⟩

/-! ### `Assign` -/

theorem firstOccs_spec : ∀ (l seen : List Nat), (firstOccs seen l).Nodup ∧ ∀ x ∈ firstOccs seen l, x ∉ seen ∧ x ∈ l
  | [], _ => by simp [firstOccs]
  | y :: ys, seen => by
    unfold firstOccs
    by_cases h : seen.contains y = true
    · rw [if_pos h]
      obtain ⟨h1, h2⟩ := firstOccs_spec ys seen
      exact ⟨h1, fun x hx => ⟨(h2 x hx).1, mem_cons_of_mem _ (h2 x hx).2⟩⟩
    · rw [if_neg h]
      obtain ⟨h1, h2⟩ := firstOccs_spec ys (y :: seen)
      refine ⟨nodup_cons.mpr ⟨fun hy => (h2 y hy).1 mem_cons_self, h1⟩, ?_⟩
      intro x hx
      rcases mem_cons.mp hx with e | e
      · subst e; exact ⟨by simpa using h, mem_cons_self⟩
      · exact ⟨fun hs => (h2 x e).1 (mem_cons_of_mem _ hs), mem_cons_of_mem _ (h2 x e).2⟩

theorem filterMap_rowOf_perm {st : Store} (hnd : (ids st).Nodup) (order : List Nat) (ho : order.Nodup)
    (hall : ∀ r ∈ st, r.id ∈ order) : st.Perm (order.filterMap (rowOf st)) := by
  apply (perm_ext_iff_of_nodup (Nodup.of_map _ hnd) ?_).mpr
  · intro r
    rw [mem_filterMap]
    constructor
    · intro hr; exact ⟨r.id, hall r hr, rowOf_mem hnd hr⟩
    · rintro ⟨x, _, hx⟩; exact (rowOf_some hx).1
  · apply Nodup.filterMap _ ho
    intro a a' b hb hb'
    have h1 := (rowOf_some (by simpa using hb)).2
    have h2 := (rowOf_some (by simpa using hb')).2
    rw [← h1, ← h2]

/-- **`Assign(begin, end)`**: the rows named, in the order of their first mention, renumbered -/
theorem assign_spec (acc : Acc) (keep : Bool) (t : Table) (hinv : Inv acc keep t) (named : List Nat) :
    Inv acc keep (assign keep t named) ∧
    (assign keep t named).rows = setNumbers keep 0 ((firstOccs [] named).filterMap (rowOf t.rows)) := by
  obtain ⟨hr, hu, hm⟩ := filterTable_inv acc keep t hinv (fun id => (firstOccs [] named).contains id)
  have hrows : (assign keep t named).rows =
      setNumbers keep 0 ((firstOccs [] named).filterMap (rowOf (keepRows t.rows (fun id => (firstOccs [] named).contains id)))) := rfl
  have hnd' := keepRows_nodup hinv.idsNodup (fun id => (firstOccs [] named).contains id)
  refine ⟨?_, ?_⟩
  · refine Inv_renumbered (t := assign keep t named) hnd' (addrInj_keepRows hinv.addrInj _)
      (filterMap_rowOf_perm hnd' _ (firstOccs_spec named []).1 ?_) hrows hu hm
    intro r hr
    have := (mem_filter.mp hr).2
    simpa using this
  · rw [hrows]
    congr 1
    apply filterMap_congr
    intro x hx
    exact rowOf_keepRows t.rows _ (by simpa using hx)

/-! ### `TryInsert` -/

section insert
variable {vis : Vis} (hc : Complete vis) (acc : Acc) (keep : Bool)
include hc

/-- **`TryInsert(rowNumber, row)`**: as `TryAdd`, the accepted row standing at position `n` and the rows from there on
    renumbered -/
theorem tryInsert_spec (t : Table) (hinv : Inv acc keep t) (n : Nat) (r : Row) (hr : r.id ∉ ids t.rows)
    (hra : r.addr ∉ t.rows.map (·.addr)) (f : Fault) :
    Inv acc keep (tryInsert vis acc keep t n r f).1 ∧
    match (tryInsert vis acc keep t n r f).2 with
    | .ok => n ≤ t.rows.length ∧
             (tryInsert vis acc keep t n r f).1.rows =
               setNumbers keep n (t.rows.take n ++ setNum keep r t.rows.length :: t.rows.drop n) ∧
             (∀ u ∈ t.uidx, ∀ x ∈ t.rows, keyEq u.cols r.vals x.vals = false)
    | .dup x j => TEquiv t (tryInsert vis acc keep t n r f).1 ∧
             ∃ u row, t.uidx[j]? = some u ∧ row ∈ t.rows ∧ row.id = x ∧ keyEq u.cols r.vals row.vals = true ∧
               ∀ i' u', i' < j → t.uidx[i']? = some u' → ∀ y ∈ t.rows, keyEq u'.cols r.vals y.vals = false
    | .badAlloc => TEquiv t (tryInsert vis acc keep t n r f).1 ∧ f ≠ .none
    | .outOfRange => t.rows.length < n ∧ (tryInsert vis acc keep t n r f).1 = t := by
  unfold tryInsert
  by_cases hn : t.rows.length < n
  · rw [if_pos hn]; exact ⟨hinv, hn, rfl⟩
  · rw [if_neg hn]
    have h := tryAdd_spec hc acc keep t hinv r hr hra f
    cases hs : tryAdd vis acc keep t r f with
    | mk t' res =>
      rw [hs] at h
      cases res with
      | ok =>
        simp only at h ⊢
        obtain ⟨hinv', hrows, hno⟩ := h
        refine ⟨?_, by omega, trivial, hno⟩
        have hperm : t'.rows.Perm (t.rows.take n ++ setNum keep r t.rows.length :: t.rows.drop n) := by
          rw [hrows, show t.rows ++ [setNum keep r t.rows.length] =
            t.rows.take n ++ (t.rows.drop n ++ [setNum keep r t.rows.length]) by rw [← append_assoc, take_append_drop]]
          exact Perm.append_left _ (perm_append_singleton _ _)
        refine Inv_of_perm_rel (t := { t' with rows := setNumbers keep n (t.rows.take n ++ setNum keep r t.rows.length :: t.rows.drop n) })
          hinv'.idsNodup hinv'.addrInj hperm (setNumbers_rel keep _ n) ?_ hinv'.uinv hinv'.minv
        intro hk i x hx
        subst hk
        refine setNumbers_nums _ n ?_ i x hx
        intro i x hi hx
        rw [getElem?_append_left (by rw [length_take]; omega), getElem?_take, if_pos hi] at hx
        exact hinv.nums rfl i x hx
      | dup x j => exact h
      | badAlloc => exact h
      | outOfRange => exact h.2.elim

end insert

/-! ### `pvExtractRaw(ConstRowReference)` -/

theorem numberOf_spec (acc : Acc) (keep : Bool) (t : Table) (hinv : Inv acc keep t) (id : Nat) :
    match numberOf keep t id with
    | none => id ∉ ids t.rows
    | some n => ∃ r, t.rows[n]? = some r ∧ r.id = id := by
  unfold numberOf
  cases hr : rowOf t.rows id with
  | none =>
    simp only
    intro hin
    obtain ⟨r, hr', hid⟩ := mem_ids_iff.mp hin
    rw [← hid, rowOf_mem hinv.idsNodup hr'] at hr; simp at hr
  | some r =>
    simp only
    obtain ⟨hmem, hid⟩ := rowOf_some hr
    cases keep with
    | true =>
      simp only [if_true]
      obtain ⟨i, hi, hri⟩ := getElem_of_mem hmem
      have : t.rows[i]? = some r := by rw [getElem?_eq_getElem hi, hri]
      rw [hinv.nums rfl i r this]
      exact ⟨r, this, hid⟩
    | false =>
      simp only [Bool.false_eq_true, if_false]
      have hlt : t.rows.findIdx (fun x => x.id == id) < t.rows.length :=
        findIdx_lt_length.mpr ⟨r, hmem, by simp [hid]⟩
      refine ⟨t.rows[t.rows.findIdx (fun x => x.id == id)], getElem?_eq_getElem hlt, ?_⟩
      have := findIdx_getElem (w := hlt)
      simpa using this

section extractRef
variable {vis : Vis} (hc : Complete vis) (acc : Acc) (keep : Bool)
include hc

/-- **`pvExtractRaw(rowReference)`**: the row with this identity leaves the table, order kept -/
theorem extractRef_spec (t : Table) (hinv : Inv acc keep t) (id : Nat) :
    Inv acc keep (extractRef vis acc keep t id).1 ∧
    ((id ∉ ids t.rows ∧ extractRef vis acc keep t id = (t, none)) ∨
     (∃ n r, t.rows[n]? = some r ∧ r.id = id ∧ (extractRef vis acc keep t id).2 = some r ∧
        (extractRef vis acc keep t id).1.rows = setNumbers keep n (t.rows.eraseIdx n))) := by
  have h := numberOf_spec acc keep t hinv id
  unfold extractRef
  cases hn : numberOf keep t id with
  | none => rw [hn] at h; exact ⟨hinv, Or.inl ⟨h, rfl⟩⟩
  | some n =>
    rw [hn] at h
    obtain ⟨r, hr, hid⟩ := h
    simp only
    have := extract_spec hc acc keep t hinv n true
    rw [hr] at this
    simp only [if_true] at this
    exact ⟨this.1, Or.inr ⟨n, r, hr, hid, this.2.1, this.2.2⟩⟩

end extractRef
end Momo.Table
