import Momo.Proof.StdWOrdOps
import Momo.Proof.BTreeOps
/-!
  The native contract of TreeSet / TreeMap that the wrapper model of C06 uses (`lb`, `ub`, `treeInsert`, `insertAt`) is
  the reference semantics `Momo.BTree.lowerIdx / upperIdx / Spec.insert1` that C02 proves the B-tree refines, instantiated
  with the order "compare the keys" on (key, tag) items.
-/
namespace Momo.StdW
open Momo.StdWrap List
open Momo.StdSpec hiding Item

/-- the comparison of the stdish element types of the model: by key only -/
def keyLt (a b : Item) : Bool := a.1 < b.1

theorem keyLt_order : Momo.BTree.Order keyLt :=
  ⟨fun a b h => by simp only [keyLt, decide_eq_true_eq, decide_eq_false_iff_not] at h ⊢; omega,
   fun a b c h1 h2 => by simp only [keyLt, decide_eq_false_iff_not] at h1 h2 ⊢; omega⟩

theorem lb_eq_lowerIdx (xs : List Item) (x : Item) : lb x.1 xs = Momo.BTree.lowerIdx keyLt xs x := by
  unfold Momo.BTree.lowerIdx
  induction xs with
  | nil => simp [lb]
  | cons e t ih =>
    by_cases h : e.1 < x.1
    · simp [lb, takeWhile_cons, keyLt, h]; simpa [keyLt] using ih
    · simp [lb, takeWhile_cons, keyLt, h]

theorem ub_eq_upperIdx (xs : List Item) (x : Item) : ub x.1 xs = Momo.BTree.upperIdx keyLt xs x := by
  unfold Momo.BTree.upperIdx
  induction xs with
  | nil => simp [ub]
  | cons e t ih =>
    by_cases h : x.1 < e.1
    · simp [ub, takeWhile_cons, keyLt, h]
    · simp [ub, takeWhile_cons, keyLt, h]; simpa [keyLt] using ih

theorem insertAt_eq_insertIdx (xs : List Item) (i : Nat) (x : Item) (h : i ≤ xs.length) : insertAt xs i x = xs.insertIdx i x := by
  unfold insertAt
  induction xs generalizing i with
  | nil =>
    have : i = 0 := by simpa using h
    subst this; simp
  | cons e t ih =>
    cases i with
    | zero => simp
    | succ j =>
      simp only [take_succ_cons, drop_succ_cons, cons_append, insertIdx_succ_cons]
      rw [ih j (by simpa using h)]

theorem sortedK_iff_sortedBy (multi : Bool) (xs : List Item) : SortedK multi xs ↔ Momo.BTree.SortedBy keyLt multi xs := by
  unfold SortedK Momo.BTree.SortedBy Sorted StrictSorted
  cases multi with
  | true =>
    simp only [if_true, keyLt, decide_eq_false_iff_not, Nat.not_lt]
  | false =>
    simp only [Bool.false_eq_true, if_false, keyLt, decide_eq_true_eq]

/-- `TreeSet::Insert` as the wrapper model uses it = the stable reference insertion of C02 -/
theorem treeInsert_eq_insert1 (multi : Bool) (xs : List Item) (hs : SortedK multi xs) (x : Item) :
    (treeInsert multi xs x).1 = Momo.BTree.Spec.insert1 keyLt multi xs x := by
  rw [treeInsert_eq multi xs hs x]
  unfold sInsert Momo.BTree.Spec.insert1
  have hany : xs.any (fun y => Momo.BTree.equiv keyLt y x) = hasKey x.1 xs := by
    unfold hasKey Momo.BTree.equiv keyLt
    congr 1; funext y
    rw [Bool.eq_iff_iff]; simp; omega
  rw [hany, upperPos_eq, putAt_eq, ← ub_eq_upperIdx]
  cases multi <;> cases hk : hasKey x.1 xs <;> simp [insertAt_eq_insertIdx xs _ x (ub_le_length x.1 xs)]

end Momo.StdW
