import Momo.Proof.BTreeFaultReb
import Momo.Proof.BTreeRemove
/-!
  C04 / C10 for the B-tree family: `pvRemove` / `pvExtract` under every fault schedule.
  The proofs of `Proof/BTreeRemove.lean` are repeated here for a removal whose rebalancing pass is *any* function meeting the
  specification of `pvRebalance` (`RebOK`) - the fault-free pass and every faulty pass (`rebalanceF_spec`) are instances.
  Core Lean only.
-/
namespace Momo.BTree
open Node
variable {α : Type}

/-- a rebalancing pass that does what `rebalance_spec` says -/
def RebOK (cfg : Cfg) (reb : Node α → List Nat → List Nat → Node α × List Nat) : Prop :=
  ∀ {d : Nat} {r : Node α}, Bal d r → ∀ (path saved : List Nat),
    toList (reb r path saved).1 = toList r ∧ (∃ d', Bal d' (reb r path saved).1) ∧
    (∀ cap its, nodeAt? r saved = some (leaf cap its) →
      ∃ cap' its', nodeAt? (reb r path saved).1 (reb r path saved).2 = some (leaf cap' its') ∧
        its.length ≤ its'.length ∧ offsetOf (reb r path saved).1 (reb r path saved).2 = offsetOf r saved) ∧
    (Caps cfg.maxCap r → Caps cfg.maxCap (reb r path saved).1)

theorem rebOK_rebalance (cfg : Cfg) (fast : Bool) : RebOK (α := α) cfg (rebalance cfg fast) :=
  fun hb path saved => rebalance_spec cfg fast hb path saved

/-- `removeAt` with the rebalancing pass as a parameter -/
def removeAtG (reb : Node α → List Nat → List Nat → Node α × List Nat) (r : Node α) (pos : Pos) : Node α × Pos :=
  match nodeAt? r pos.path with
  | some (leaf _ _) =>
    (match reb (modifyAt (removeItem pos.idx) r pos.path) pos.path pos.path with
     | (r', saved) => (r', moveIf r' ⟨saved, pos.idx⟩))
  | some (inner items cs) =>
    (match cs[pos.idx]?, cs[pos.idx + 1]? with
     | some left, some right =>
       (match popLast left with
        | none =>
          (match reb (modifyAt (fun _ => destroyInternal items cs pos.idx false) r pos.path)
              pos.path (pos.path ++ pos.idx :: leftPath right) with
           | (r', saved) => (r', moveIf r' ⟨saved, 0⟩))
        | some (left', x, cp) =>
          (match reb (modifyAt (fun _ => inner (items.set pos.idx x) (cs.set pos.idx left')) r pos.path)
              (pos.path ++ pos.idx :: cp) (pos.path ++ (pos.idx + 1) :: leftPath right) with
           | (r', saved) => (r', moveIf r' ⟨saved, 0⟩)))
     | _, _ => (r, pos))
  | none => (r, pos)

theorem removeAt_eq_G (cfg : Cfg) (r : Node α) (pos : Pos) : removeAt cfg r pos = removeAtG (rebalance cfg true) r pos := rfl

theorem remove_finishG (cfg : Cfg) (reb : Node α → List Nat → List Nat → Node α × List Nat) (hreb : RebOK cfg reb) {d : Nat} {r1 : Node α} (hb : Bal d r1) (path saved : List Nat)
    (j cap : Nat) (its : List α) (hs : nodeAt? r1 saved = some (leaf cap its)) (hj : j ≤ its.length) :
    toList (reb r1 path saved).1 = toList r1 ∧ (∃ d', Bal d' (reb r1 path saved).1) ∧
    idxOf (reb r1 path saved).1
        (moveIf (reb r1 path saved).1 ⟨(reb r1 path saved).2, j⟩).path
        (moveIf (reb r1 path saved).1 ⟨(reb r1 path saved).2, j⟩).idx
      = offsetOf r1 saved + j ∧
    ValidPos (reb r1 path saved).1
        (moveIf (reb r1 path saved).1 ⟨(reb r1 path saved).2, j⟩) ∧
    (Caps cfg.maxCap r1 → Caps cfg.maxCap (reb r1 path saved).1) := by
  obtain ⟨a, ⟨d', b⟩, e, f⟩ := hreb hb path saved
  obtain ⟨cap', its', e1, e2, e3⟩ := e cap its hs
  obtain ⟨m1, m2⟩ := moveIf_spec b _ j e1 (by simp only [Node.count]; omega)
  refine ⟨a, ⟨d', b⟩, ?_, m2, f⟩
  rw [m1, idxOf_eq_offset _ _ _ j e1, e3]; simp


theorem removeAtG_leaf_spec (cfg : Cfg) (reb : Node α → List Nat → List Nat → Node α × List Nat) (hreb : RebOK cfg reb) {d : Nat} {r : Node α} (hb : Bal d r) (pos : Pos) (cap : Nat)
    (items : List α) (hm : nodeAt? r pos.path = some (leaf cap items)) (hi : pos.idx < items.length) :
    toList (removeAtG reb r pos).1 = (toList r).eraseIdx (idxOf r pos.path pos.idx) ∧
    (∃ d', Bal d' (removeAtG reb r pos).1) ∧
    idxOf (removeAtG reb r pos).1 (removeAtG reb r pos).2.path (removeAtG reb r pos).2.idx = idxOf r pos.path pos.idx ∧
    ValidPos (removeAtG reb r pos).1 (removeAtG reb r pos).2 ∧
    (Caps cfg.maxCap r → Caps cfg.maxCap (removeAtG reb r pos).1) := by
  have hbm := (hb.nodeAt hm).1
  have hd0 := hbm.leaf_depth
  obtain ⟨pre, post, e1, e2, e3, e4, e5, e6, e7⟩ := modifyAt_spec hb pos.path hm (removeItem pos.idx)
    (by rw [hd0]; exact Bal.leaf _ _)
  simp only [removeItem] at e3 e5 e7
  obtain ⟨a, b, c, v, f⟩ := remove_finishG cfg reb hreb e4 pos.path pos.path pos.idx cap (items.eraseIdx pos.idx) e5
    (by rw [List.length_eraseIdx_of_lt hi]; omega)
  unfold removeAtG
  simp only [hm]
  refine ⟨?_, b, ?_, v, ?_⟩
  · rw [a, e3, e1, idxOf_eq_offset r _ pos.path pos.idx hm, ← e2]
    simp only [toList_leaf, idxOf_leaf]
    exact (eraseIdx_middle pre items post pos.idx hi).symm
  · rw [c, e6, idxOf_eq_offset r _ pos.path pos.idx hm]; simp
  · intro hcaps
    apply f
    apply e7 _ hcaps
    cases hcm : (capsAt hcaps pos.path hm) with
    | leaf _ _ h1 h2 => exact Caps.leaf _ _ (by have := List.length_eraseIdx_le items pos.idx; omega) h2

/-- `pvRemove` for an item of an internal node (`pvRemoveInternal`), both branches -/
theorem removeAtG_inner_spec (cfg : Cfg) (reb : Node α → List Nat → List Nat → Node α × List Nat) (hreb : RebOK cfg reb) {d : Nat} {r : Node α} (hb : Bal d r) (pos : Pos) (items : List α)
    (cs : List (Node α)) (hm : nodeAt? r pos.path = some (inner items cs)) (hi : pos.idx < items.length) :
    toList (removeAtG reb r pos).1 = (toList r).eraseIdx (idxOf r pos.path pos.idx) ∧
    (∃ d', Bal d' (removeAtG reb r pos).1) ∧
    idxOf (removeAtG reb r pos).1 (removeAtG reb r pos).2.path (removeAtG reb r pos).2.idx = idxOf r pos.path pos.idx ∧
    ValidPos (removeAtG reb r pos).1 (removeAtG reb r pos).2 ∧
    (Caps cfg.maxCap r → Caps cfg.maxCap (removeAtG reb r pos).1) := by
  have hbm := (hb.nodeAt hm).1
  obtain ⟨dm, hdm, hall⟩ := hbm.inner_depth
  rw [hdm] at hbm
  have hlen := hbm.inner_len
  obtain ⟨left, hl⟩ := getElem?_of_lt (l := cs) (i := pos.idx) (by omega)
  obtain ⟨right, hr⟩ := getElem?_of_lt (l := cs) (i := pos.idx + 1) (by omega)
  obtain ⟨x, hx⟩ := getElem?_of_lt hi
  have hbl := hall left (List.mem_of_getElem? hl)
  have hbr := hall right (List.mem_of_getElem? hr)
  obtain ⟨⟨lcap, lits, hlp1⟩, hlp2⟩ := leftPath_spec hbr
  have hlp3 : offsetOf right (leftPath right) = 0 := by
    have := idxOf_eq_offset right _ (leftPath right) 0 hlp1
    rw [hlp2] at this; simp at this; omega
  have hprelen := preOf_length cs items pos.idx (by omega) hlen
  have hidxm : idxOf (inner items cs) [] pos.idx = (preOf cs items pos.idx).length + size left := by
    rw [idxOf_inner_nil, sum_take_succ cs _ left hl, hprelen]; omega
  unfold removeAtG
  simp only [hm, hl, hr]
  cases hp : popLast left with
  | none =>
    simp only
    have hempty := toList_nil_of_popLast_none hbl hp
    obtain ⟨t1, t2⟩ := inter_eraseIdx_empty cs items pos.idx left x hl hx hlen hempty
    have hbm' : Bal (d - pos.path.length) (destroyInternal items cs pos.idx false) := by
      rw [hdm]
      simp only [destroyInternal, Bool.false_eq_true, if_false]
      refine Bal.inner dm _ _ ?_ (fun z hz => hall z (List.mem_of_mem_eraseIdx hz))
      rw [List.length_eraseIdx_of_lt (by omega), List.length_eraseIdx_of_lt hi]; omega
    obtain ⟨pre, post, e1, e2, e3, e4, e5, e6, e7⟩ := modifyAt_spec hb pos.path hm
      (fun _ => destroyInternal items cs pos.idx false) hbm'
    -- the saved node: leftmost leaf of the right child, now child `idx`
    have hright' : (cs.eraseIdx pos.idx)[pos.idx]? = some right := by
      rw [List.getElem?_eraseIdx_of_ge (Nat.le_refl _)]; exact hr
    have hsaved : nodeAt? (modifyAt (fun _ => destroyInternal items cs pos.idx false) r pos.path)
        (pos.path ++ pos.idx :: leftPath right) = some (leaf lcap lits) := by
      rw [nodeAt?_append, e5]
      simp only [destroyInternal, Bool.false_eq_true, if_false]
      rw [nodeAt?_inner_cons' hright']; exact hlp1
    have hoff : offsetOf (modifyAt (fun _ => destroyInternal items cs pos.idx false) r pos.path)
        (pos.path ++ pos.idx :: leftPath right) = idxOf r pos.path pos.idx := by
      rw [offsetOf_append _ _ _ _ e5, e6, idxOf_eq_offset r _ pos.path pos.idx hm, hidxm]
      simp only [destroyInternal, Bool.false_eq_true, if_false]
      have ht : (cs.eraseIdx pos.idx).take pos.idx = cs.take pos.idx := by
        rw [List.eraseIdx_eq_take_drop_succ, List.take_append_of_le_length (by simp; omega), List.take_take]; simp
      have : size left = 0 := by simp [size, hempty]
      rw [offsetOf_inner_cons' hright', hlp3, this, hprelen, ht]
    obtain ⟨a, b, c, v, f⟩ := remove_finishG cfg reb hreb e4 pos.path (pos.path ++ pos.idx :: leftPath right) 0 lcap lits
      hsaved (Nat.zero_le _)
    refine ⟨?_, b, by rw [c, hoff]; simp, v, ?_⟩
    · rw [a, e3, e1, idxOf_eq_offset r _ pos.path pos.idx hm, ← e2, hidxm]
      simp only [destroyInternal, Bool.false_eq_true, if_false, toList_inner, t2]
      rw [t1]
      have hsz : size left = 0 := by simp [size, hempty]
      rw [hsz]
      have h2 : pre ++ (preOf cs items pos.idx ++ x :: inter (cs.drop (pos.idx + 1)) (items.drop (pos.idx + 1))) ++ post =
          (pre ++ preOf cs items pos.idx) ++ x :: (inter (cs.drop (pos.idx + 1)) (items.drop (pos.idx + 1)) ++ post) := by
        simp
      have h3 : pre.length + ((preOf cs items pos.idx).length + 0) = (pre ++ preOf cs items pos.idx).length := by simp
      rw [h2, h3, eraseIdx_at_cons]; simp
    · intro hcaps
      apply f
      apply e7 _ hcaps
      have hcm := capsAt hcaps pos.path hm
      cases hcm with
      | inner _ _ h1 h2 =>
        simp only [destroyInternal]
        exact Caps.inner _ _ (by have := List.length_eraseIdx_le items pos.idx; omega)
          (fun z hz => h2 z (List.mem_of_mem_eraseIdx hz))
  | some res =>
    obtain ⟨left', y, cp⟩ := res
    simp only
    obtain ⟨p1, p2, p3⟩ := popLast_spec hbl left' y cp hp
    obtain ⟨t1, t2⟩ := inter_set_pred cs items pos.idx left left' x y hl hx hlen p1
    have hcl : pos.idx < cs.length := by omega
    have hbm' : Bal (d - pos.path.length) (inner (items.set pos.idx y) (cs.set pos.idx left')) := by
      rw [hdm]
      exact Bal.inner dm _ _ (by simpa using hlen) (fun z hz => by
        rcases List.mem_or_eq_of_mem_set hz with h' | rfl
        · exact hall z h'
        · exact p2)
    obtain ⟨pre, post, e1, e2, e3, e4, e5, e6, e7⟩ := modifyAt_spec hb pos.path hm
      (fun _ => inner (items.set pos.idx y) (cs.set pos.idx left')) hbm'
    have hright' : (cs.set pos.idx left')[pos.idx + 1]? = some right := by
      rw [List.getElem?_set_ne (by omega)]; exact hr
    have hleft' : (cs.set pos.idx left')[pos.idx]? = some left' := by simp [hcl]
    have hsaved : nodeAt? (modifyAt (fun _ => inner (items.set pos.idx y) (cs.set pos.idx left')) r pos.path)
        (pos.path ++ (pos.idx + 1) :: leftPath right) = some (leaf lcap lits) := by
      rw [nodeAt?_append, e5]
      show nodeAt? (inner (items.set pos.idx y) (cs.set pos.idx left')) ((pos.idx + 1) :: leftPath right) = _
      rw [nodeAt?_inner_cons' hright']; exact hlp1
    have hszl : size left = size left' + 1 := by simp [size, p1]
    have hoff : offsetOf (modifyAt (fun _ => inner (items.set pos.idx y) (cs.set pos.idx left')) r pos.path)
        (pos.path ++ (pos.idx + 1) :: leftPath right) = idxOf r pos.path pos.idx := by
      rw [offsetOf_append _ _ _ _ e5, e6, idxOf_eq_offset r _ pos.path pos.idx hm, hidxm]
      rw [offsetOf_inner_cons' hright', hlp3, sum_take_succ _ _ left' hleft', hprelen, hszl]
      simp [List.take_set_of_le] <;> omega
    obtain ⟨a, b, c, v, f⟩ := remove_finishG cfg reb hreb e4 (pos.path ++ pos.idx :: cp)
      (pos.path ++ (pos.idx + 1) :: leftPath right) 0 lcap lits hsaved (Nat.zero_le _)
    refine ⟨?_, b, by rw [c, hoff]; simp, v, ?_⟩
    · rw [a, e3, e1, idxOf_eq_offset r _ pos.path pos.idx hm, ← e2, hidxm]
      simp only [toList_inner, t2]
      rw [t1, hszl]
      have : pre.length + ((preOf cs items pos.idx).length + (size left' + 1)) =
          (pre ++ (preOf cs items pos.idx ++ toList left' ++ [y])).length := by simp [size] <;> omega
      rw [this]
      have h2 : pre ++ (preOf cs items pos.idx ++ toList left' ++
            y :: x :: inter (cs.drop (pos.idx + 1)) (items.drop (pos.idx + 1))) ++ post =
          (pre ++ (preOf cs items pos.idx ++ toList left' ++ [y])) ++
            x :: (inter (cs.drop (pos.idx + 1)) (items.drop (pos.idx + 1)) ++ post) := by simp
      rw [h2, eraseIdx_at_cons]; simp
    · intro hcaps
      apply f
      apply e7 _ hcaps
      have hcm := capsAt hcaps pos.path hm
      cases hcm with
      | inner _ _ h1 h2 =>
        exact Caps.inner _ _ (by simpa using h1) (fun z hz => by
          rcases List.mem_or_eq_of_mem_set hz with h' | rfl
          · exact h2 z h'
          · exact p3 _ (h2 left (List.mem_of_getElem? hl)))


theorem removeAtG_spec (cfg : Cfg) (reb : Node α → List Nat → List Nat → Node α × List Nat) (hreb : RebOK cfg reb) {d : Nat} {r : Node α} (hb : Bal d r) (pos : Pos)
    (hv : ValidElem r pos.path pos.idx) :
    toList (removeAtG reb r pos).1 = (toList r).eraseIdx (idxOf r pos.path pos.idx) ∧
    (∃ d', Bal d' (removeAtG reb r pos).1) ∧
    idxOf (removeAtG reb r pos).1 (removeAtG reb r pos).2.path (removeAtG reb r pos).2.idx = idxOf r pos.path pos.idx ∧
    ValidPos (removeAtG reb r pos).1 (removeAtG reb r pos).2 ∧
    (Caps cfg.maxCap r → Caps cfg.maxCap (removeAtG reb r pos).1) := by
  obtain ⟨m, hm, hi⟩ := hv
  cases m with
  | leaf cap items => exact removeAtG_leaf_spec cfg reb hreb hb pos cap items hm (by simpa [Node.count] using hi)
  | inner items cs => exact removeAtG_inner_spec cfg reb hreb hb pos items cs hm (by simpa [Node.count] using hi)


end Momo.BTree
