import Momo.Translated.Wave2
import Momo.Proof.SegMachine
import Momo.Model.Arr
/-!
  C05: the capacity tests of `Array` (Array.h) — `Data::GetCapacity`, the three tests of `Data::Reallocate`, the heap test of
  `Data::Reset`, the tests of `Reserve` and `Shrink(capacity)` and the shrink target — as translated from the header (area Wave2,
  lean/Momo/Translated/Wave2.lean) are the tests of the model `Momo/Model/Arr.lean` (`capacity`, `reallocate`, `reset`, `reserve`,
  `shrink`).
  The generated definitions are rewritten by tools/translate.py from the current headers on every check; a changed
  function body makes the equalities below fail to elaborate.
-/
namespace Momo.TrEq
open Momo Momo.Arr

theorem tr_arr_getCapacity {α : Type} (cfg : Cfg) (s : State α) :
    Tr.arr_Data_GetCapacity cfg.intCap s.internal s.cap = capacity cfg s := rfl

theorem tr_arr_Reallocate_internal (ic cur : Nat) : (Tr.arr_Reallocate_internal ic cur = true) ↔ cur = ic := by
  simp [Tr.arr_Reallocate_internal]
theorem tr_arr_Reallocate_small (ic lin exp : Nat) : Tr.arr_Reallocate_small ic lin exp = (decide (lin ≤ ic) || decide (exp ≤ ic)) := rfl
theorem tr_arr_Reallocate_tryInplace (cr : Bool) (lin exp : Nat) :
    Tr.arr_Reallocate_tryInplace cr lin exp = (!cr || decide (lin < exp)) := rfl
theorem tr_arr_Reserve_grows (n cur : Nat) : (Tr.arr_Reserve_grows n cur = true) ↔ n > cur := by simp [Tr.arr_Reserve_grows]
theorem tr_arr_Shrink_keeps (ic ini n : Nat) : Tr.arr_Shrink_keeps ic ini n = (decide (ini ≤ n) || decide (ini = ic)) := rfl
theorem tr_arr_Shrink_target (cnt n : Nat) : Tr.arr_Shrink_target cnt n = Nat.max n cnt := by
  unfold Tr.arr_Shrink_target
  simp only [decide_eq_true_eq, Nat.max_def]
  split <;> split <;> omega
theorem tr_arr_Reset_heap (ic n : Nat) : (Tr.arr_Reset_heap ic n = true) ↔ n > ic := by simp [Tr.arr_Reset_heap]

/-- `Data::Reallocate(capacityLin, capacityExp)` (model `reallocate`) with its three tests taken from the translated header -/
theorem reallocate_translated {α : Type} (cfg : Cfg) (s : State α) (lin exp : Nat) :
    reallocate cfg s lin exp =
      if Tr.arr_Reallocate_internal cfg.intCap (Tr.arr_Data_GetCapacity cfg.intCap s.internal s.cap) = true then (false, s, [])
      else if Tr.arr_Reallocate_small cfg.intCap lin exp = true then (false, s, [])
      else if (Tr.arr_Reallocate_tryInplace cfg.canRealloc lin exp && cfg.canInplace) = true then
        if s.cap = lin then (true, s, [])
        else if s.oracle then (true, { s with cap := lin }, [.inplace s.cap lin true])
        else if cfg.canRealloc then (true, { s with cap := exp }, .inplace s.cap lin false :: reallocEv s.cap exp)
        else (false, s, [.inplace s.cap lin false])
      else if cfg.canRealloc then (true, { s with cap := exp }, reallocEv s.cap exp)
      else (false, s, []) := by
  simp only [tr_arr_getCapacity, tr_arr_Reallocate_internal, tr_arr_Reallocate_small, tr_arr_Reallocate_tryInplace]
  rfl

/-- `Reserve(capacity)` and `Shrink(capacity)` (models `reserve`, `shrink`) with the translated tests and shrink target, and the
    heap test of `Data::Reset` (first branch of the model `reset`) -/
theorem reserve_shrink_translated {α : Type} (cfg : Cfg) (s : State α) (n : Nat) (newCells : Cells α) :
    reserve cfg s n = (if Tr.arr_Reserve_grows n (Tr.arr_Data_GetCapacity cfg.intCap s.internal s.cap) = true
                       then grow cfg s n true else (s, [])) ∧
    shrink cfg s n = (if Tr.arr_Shrink_keeps cfg.intCap (Tr.arr_Data_GetCapacity cfg.intCap s.internal s.cap) n = true then (s, [])
                      else moveTo cfg s (Tr.arr_Shrink_target s.cells.length n) (Tr.arr_Shrink_target s.cells.length n)) ∧
    (Tr.arr_Reset_heap cfg.intCap n = true →
      reset cfg s n newCells = ({ s with cells := newCells, cap := n, internal := false },
        .alloc n :: (if capacity cfg s > cfg.intCap then [.dealloc s.cap] else []))) := by
  refine ⟨?_, ?_, ?_⟩
  · simp only [tr_arr_getCapacity, tr_arr_Reserve_grows]; rfl
  · simp only [tr_arr_getCapacity, tr_arr_Shrink_keeps, tr_arr_Shrink_target]; rfl
  · intro h
    rw [tr_arr_Reset_heap] at h
    unfold reset
    rw [if_pos h]

end Momo.TrEq
