import Momo.Model.RowsHB
import Momo.Proof.RowsXfer
/-!
  Lemmas for the row hand-off model (C19), part 7: vector-clock operations of the race detector
  (acquire, read-modify-write, user synchronisation, access).
-/
namespace Momo.Rows

/-- epoch `e` is covered by clock `v` -/
def epochLe (e : Option (Tid × Nat)) (v : VC) : Prop :=
  match e with
  | none => True
  | some (u, c) => c ≤ v u

theorem epochLe_mono {e : Option (Tid × Nat)} {v v' : VC} (h : epochLe e v) (hm : ∀ u, v u ≤ v' u) : epochLe e v' := by
  cases e with
  | none => trivial
  | some p => obtain ⟨u, c⟩ := p; exact Nat.le_trans h (hm u)

theorem ordered_iff {hb : HB} {t : Tid} {r : Row} : hb.ordered t r = true ↔ epochLe (hb.last r) (hb.vc t) := by
  unfold HB.ordered epochLe
  cases hb.last r with
  | none => simp
  | some p => obtain ⟨u, c⟩ := p; simp

theorem join_left (a b : VC) (u : Tid) : a u ≤ (a.join b) u := Nat.le_max_left _ _
theorem join_right (a b : VC) (u : Tid) : b u ≤ (a.join b) u := Nat.le_max_right _ _
theorem tick_le (a : VC) (t u : Tid) : a u ≤ (a.tick t) u := by
  unfold VC.tick; split <;> omega

theorem setVC_self (hb : HB) (t : Tid) (v : VC) : hb.setVC t v t = v := by simp [HB.setVC]
theorem setVC_ne (hb : HB) {t u : Tid} (v : VC) (h : u ≠ t) : hb.setVC t v u = hb.vc u := by simp [HB.setVC, h]

theorem setVC_mono (hb : HB) (t : Tid) (v : VC) (hv : ∀ u, hb.vc t u ≤ v u) (t' u : Tid) : hb.vc t' u ≤ hb.setVC t v t' u := by
  by_cases h : t' = t
  · subst h; rw [setVC_self]; exact hv u
  · rw [setVC_ne hb v h]; exact Nat.le_refl _

/-! ### what the clock operations guarantee -/

theorem acquire_spec (hb : HB) (t : Tid) :
    (∀ t' u, hb.vc t' u ≤ (hb.acquire t).vc t' u) ∧ (hb.acquire t).headVC = hb.headVC ∧ (hb.acquire t).last = hb.last ∧
    (∀ u, hb.headVC u ≤ (hb.acquire t).vc t u) := by
  refine ⟨fun t' u => setVC_mono hb t _ (fun u => join_left _ _ u) t' u, rfl, rfl, fun u => ?_⟩
  show hb.headVC u ≤ hb.setVC t _ t u
  rw [setVC_self]; exact join_right _ _ u

theorem rmw_spec (hb : HB) (t : Tid) :
    (∀ t' u, hb.vc t' u ≤ (hb.rmw t).vc t' u) ∧ (∀ u, hb.headVC u ≤ (hb.rmw t).headVC u) ∧ (hb.rmw t).last = hb.last ∧
    (∀ u, hb.headVC u ≤ (hb.rmw t).vc t u) ∧ (∀ u, hb.vc t u ≤ (hb.rmw t).headVC u) := by
  refine ⟨fun t' u => setVC_mono hb t _ (fun u => Nat.le_trans (join_left _ _ u) (tick_le _ _ _)) t' u,
    fun u => join_right _ _ u, rfl, fun u => ?_, fun u => join_left _ _ u⟩
  show hb.headVC u ≤ hb.setVC t _ t u
  rw [setVC_self]; exact Nat.le_trans (join_right _ _ u) (tick_le _ _ _)

theorem sync_spec (hb : HB) (t u : Tid) :
    (∀ t' x, hb.vc t' x ≤ (hb.sync t u).vc t' x) ∧ (hb.sync t u).headVC = hb.headVC ∧ (hb.sync t u).last = hb.last ∧
    (∀ x, hb.vc t x ≤ (hb.sync t u).vc u x) := by
  have h1 : ∀ t' x, hb.vc t' x ≤ hb.setVC t ((hb.vc t).tick t) t' x :=
    fun t' x => setVC_mono hb t _ (fun x => tick_le _ _ _) t' x
  refine ⟨fun t' x => ?_, rfl, rfl, fun x => ?_⟩
  · refine Nat.le_trans (h1 t' x) ?_
    exact setVC_mono { hb with vc := hb.setVC t ((hb.vc t).tick t) } u _ (fun x => join_left _ _ x) t' x
  · show hb.vc t x ≤ HB.setVC { hb with vc := hb.setVC t ((hb.vc t).tick t) } u _ u x
    rw [setVC_self]; exact join_right _ _ x

theorem touch_spec (hb : HB) (t : Tid) (r : Row) :
    (hb.touch t r).vc = hb.vc ∧ (hb.touch t r).headVC = hb.headVC ∧ (hb.touch t r).last r = some (t, hb.vc t t) ∧
    (∀ x, x ≠ r → (hb.touch t r).last x = hb.last x) := by
  refine ⟨rfl, rfl, by simp [HB.touch], fun x hx => by simp [HB.touch, hx]⟩

end Momo.Rows
