import Momo.Proof.BTreeFaultBasic
import Momo.Proof.BTreeAdd
/-!
  C04 for the B-tree family: the Relocator. Whatever plan of `CreateNode` / `AddSegment` calls it executes and wherever the
  schedule makes a step throw, the ledger at that moment is the ledger at construction plus exactly what is registered in
  `mNewNodes` plus the heap blocks of the four arrays — so `~Relocator` gives everything back (`relocRun_destroy`), and a
  completed `RelocateCreate` followed by the destructor leaves the ledger changed by "new nodes − old nodes" and by what
  the creator did (`relocateCreate_commit`). Core Lean only.
-/
namespace Momo.BTreeF
open Momo Momo.BTree Momo.BTree.Node
variable {α : Type}

local macro "triv" : tactic => `(tactic| first | rfl | trivial | simp)

/-! ### the arrays -/

/-- the ledger with `d` more heap blocks of bookkeeping arrays -/
def auxShift (l : Ledger) (d : Int) : Ledger := { l with aux := l.aux + d }

@[simp] theorem auxShift_zero (l : Ledger) : auxShift l 0 = l := by simp [auxShift]

theorem b2i_cases (b : Bool) : b2i b = 0 ∨ b2i b = 1 := by cases b <;> simp [b2i]

theorem IArr.grow_led (S : Sched) (a : IArr) (m : Nat) (rs : Bool) (w : W) :
    (a.grow S m rs w).2.2.led = auxShift w.led (b2i (a.grow S m rs w).2.1.heap - b2i a.heap) := by
  unfold IArr.grow
  by_cases hf : S.alloc w.allocN = true
  · simp [hf]
  · simp only [hf, Bool.false_eq_true, if_false]
    cases hh : a.heap <;> simp [auxShift, b2i]

theorem IArr.addBack_led (S : Sched) (a : IArr) (w : W) :
    (a.addBack S w).2.2.led = auxShift w.led (b2i (a.addBack S w).2.1.heap - b2i a.heap) := by
  unfold IArr.addBack
  by_cases h : a.count < a.cap
  · simp [h]
  · simp only [h, if_false]
    have := IArr.grow_led S a (a.count + 1) false w
    cases hg : a.grow S (a.count + 1) false w with
    | mk t rest =>
      obtain ⟨a', w'⟩ := rest
      rw [hg] at this
      cases t <;> simpa using this

theorem IArr.reserve_led (S : Sched) (a : IArr) (n : Nat) (w : W) :
    (a.reserve S n w).2.2.led = auxShift w.led (b2i (a.reserve S n w).2.1.heap - b2i a.heap) := by
  unfold IArr.reserve
  by_cases h : n ≤ a.cap
  · simp [h]
  · simp only [h, if_false]; exact IArr.grow_led S a n true w

/-- without allocation faults the array operations succeed -/
theorem IArr.grow_ok (S : Sched) (hn : S.NoAlloc) (a : IArr) (m : Nat) (rs : Bool) (w : W) : (a.grow S m rs w).1 = false := by
  unfold IArr.grow; simp [hn w.allocN]

theorem IArr.addBack_ok (S : Sched) (hn : S.NoAlloc) (a : IArr) (w : W) : (a.addBack S w).1 = false := by
  unfold IArr.addBack
  by_cases h : a.count < a.cap
  · simp [h]
  · simp only [h, if_false]
    have := IArr.grow_ok S hn a (a.count + 1) false w
    cases hg : a.grow S (a.count + 1) false w with
    | mk t rest => obtain ⟨a', w'⟩ := rest; rw [hg] at this; simp at this; subst this; rfl

theorem IArr.reserve_ok (S : Sched) (hn : S.NoAlloc) (a : IArr) (n : Nat) (w : W) : (a.reserve S n w).1 = false := by
  unfold IArr.reserve
  by_cases h : n ≤ a.cap
  · simp [h]
  · simp only [h, if_false]; exact IArr.grow_ok S hn a n true w

/-! ### the invariant of a Relocator -/

/-- the ledger `l` is the ledger `l0` of the moment the Relocator was constructed plus what the Relocator holds -/
def RInv (l0 : Ledger) (r : Reloc) (l : Ledger) : Prop :=
  l = { l0 with leaves := l0.leaves + r.newLeaves, inners := l0.inners + r.newInners, aux := l0.aux + r.heapBlocks }

theorem RInv.fresh (l0 : Ledger) : RInv l0 {} l0 := by
  apply Ledger.ext' <;> simp [Reloc.heapBlocks, b2i]

/-- `~Relocator` gives back exactly what the Relocator holds -/
theorem RInv.destroy {l0 : Ledger} {r : Reloc} {w : W} (h : RInv l0 r w.led) : (r.destroy w).led = l0 := by
  unfold RInv at h
  apply Ledger.ext' <;> simp [Reloc.destroy, h] <;> omega

/-- number of `CreateNode(isLeaf = lf, …)` / `mOldNodes.AddBack` of nodes of kind `lf` in a plan -/
def planNew (lf : Bool) : List PStep → Nat
  | [] => 0
  | .create l :: ps => (if l = lf then 1 else 0) + planNew lf ps
  | _ :: ps => planNew lf ps

def planOld (lf : Bool) : List PStep → Nat
  | [] => 0
  | .old l :: ps => (if l = lf then 1 else 0) + planOld lf ps
  | _ :: ps => planOld lf ps

/-- number of items the segments of a plan cover -/
def planItems : List PStep → Nat
  | [] => 0
  | .seg n :: ps => n + planItems ps
  | _ :: ps => planItems ps

@[simp] theorem planNew_append (lf : Bool) (a b : List PStep) : planNew lf (a ++ b) = planNew lf a + planNew lf b := by
  induction a with
  | nil => simp [planNew]
  | cons s ss ih => cases s <;> simp [planNew, ih] <;> omega

@[simp] theorem planOld_append (lf : Bool) (a b : List PStep) : planOld lf (a ++ b) = planOld lf a + planOld lf b := by
  induction a with
  | nil => simp [planOld]
  | cons s ss ih => cases s <;> simp [planOld, ih] <;> omega

/-- one call keeps the invariant — also when it throws — and registers what it says -/
theorem Reloc.step_spec (S : Sched) (s : PStep) (r : Reloc) (w : W) (l0 : Ledger) (h : RInv l0 r w.led) :
    RInv l0 (r.step S s w).2.1 (r.step S s w).2.2.led ∧
    ((r.step S s w).1 = false →
      (r.step S s w).2.1.newLeaves = r.newLeaves + planNew true [s] ∧
      (r.step S s w).2.1.newInners = r.newInners + planNew false [s] ∧
      (r.step S s w).2.1.oldLeaves = r.oldLeaves + planOld true [s] ∧
      (r.step S s w).2.1.oldInners = r.oldInners + planOld false [s] ∧
      (r.step S s w).2.1.itemCount = r.itemCount + planItems [s]) ∧
    (S.NoAlloc → (r.step S s w).1 = false) := by
  unfold RInv at h
  cases s with
  | old lf =>
    simp only [Reloc.step]
    have hl := IArr.addBack_led S r.oldN w
    have hok := fun hn => IArr.addBack_ok S hn r.oldN w
    cases hg : r.oldN.addBack S w with
    | mk t rest =>
      obtain ⟨a, w'⟩ := rest
      rw [hg] at hl hok
      simp only at hl
      cases t with
      | true =>
        refine ⟨?_, fun hh => (by cases hh), fun hn => (by simpa using hok hn)⟩
        unfold RInv
        apply Ledger.ext' <;> simp [hl, h, auxShift, Reloc.heapBlocks] <;> omega
      | false =>
        refine ⟨?_, fun _ => ?_, fun _ => (by triv)⟩
        · unfold RInv
          apply Ledger.ext' <;> simp [hl, h, auxShift, Reloc.heapBlocks] <;> omega
        · cases lf <;> simp [planNew, planOld, planItems]
  | create lf =>
    simp only [Reloc.step]
    have hl := IArr.reserve_led S r.newN (r.newN.count + 1) w
    have hok := fun hn => IArr.reserve_ok S hn r.newN (r.newN.count + 1) w
    cases hg : r.newN.reserve S (r.newN.count + 1) w with
    | mk t rest =>
      obtain ⟨a, w'⟩ := rest
      rw [hg] at hl hok
      simp only at hl
      cases t with
      | true =>
        refine ⟨?_, fun hh => (by cases hh), fun hn => (by simpa using hok hn)⟩
        unfold RInv
        apply Ledger.ext' <;> simp [hl, h, auxShift, Reloc.heapBlocks] <;> omega
      | false =>
        simp only
        by_cases hf : S.alloc w'.allocN = true
        · simp only [hf, if_true]
          refine ⟨?_, fun hh => (by cases hh), fun hn => (by rw [hn] at hf; cases hf)⟩
          unfold RInv
          apply Ledger.ext' <;> simp [hl, h, auxShift, Reloc.heapBlocks] <;> omega
        · simp only [hf, Bool.false_eq_true, if_false]
          refine ⟨?_, fun _ => ?_, fun _ => (by triv)⟩
          · unfold RInv
            cases lf <;> (apply Ledger.ext' <;> simp [hl, h, auxShift, Reloc.heapBlocks, W.addNode] <;> omega)
          · cases lf <;> simp [planNew, planOld, planItems]
  | seg n =>
    simp only [Reloc.step]
    by_cases hn0 : n = 0
    · simp only [hn0, if_true]
      exact ⟨h, fun _ => (by simp [planNew, planOld, planItems]), fun _ => (by triv)⟩
    · simp only [hn0, if_false]
      have hl := IArr.addBack_led S r.src w
      have hok := fun hn => IArr.addBack_ok S hn r.src w
      cases hg : r.src.addBack S w with
      | mk t rest =>
        obtain ⟨a, w'⟩ := rest
        rw [hg] at hl hok
        simp only at hl
        cases t with
        | true =>
          refine ⟨?_, fun hh => (by cases hh), fun hn => (by simpa using hok hn)⟩
          unfold RInv
          apply Ledger.ext' <;> simp [hl, h, auxShift, Reloc.heapBlocks] <;> omega
        | false =>
          simp only
          have hl2 := IArr.addBack_led S r.dst w'
          have hok2 := fun hn => IArr.addBack_ok S hn r.dst w'
          cases hg2 : r.dst.addBack S w' with
          | mk t2 rest2 =>
            obtain ⟨b, w''⟩ := rest2
            rw [hg2] at hl2 hok2
            simp only at hl2
            cases t2 with
            | true =>
              refine ⟨?_, fun hh => (by cases hh), fun hn => (by simpa using hok2 hn)⟩
              unfold RInv
              apply Ledger.ext' <;> simp [hl2, hl, h, auxShift, Reloc.heapBlocks] <;> omega
            | false =>
              refine ⟨?_, fun _ => (by simp [planNew, planOld, planItems]), fun _ => (by triv)⟩
              unfold RInv
              apply Ledger.ext' <;> simp [hl2, hl, h, auxShift, Reloc.heapBlocks] <;> omega

/-- a whole plan -/
theorem Reloc.run_spec (S : Sched) (ps : List PStep) (r : Reloc) (w : W) (l0 : Ledger) (h : RInv l0 r w.led) :
    RInv l0 (Reloc.run S ps r w).2.1 (Reloc.run S ps r w).2.2.led ∧
    ((Reloc.run S ps r w).1 = false →
      (Reloc.run S ps r w).2.1.newLeaves = r.newLeaves + planNew true ps ∧
      (Reloc.run S ps r w).2.1.newInners = r.newInners + planNew false ps ∧
      (Reloc.run S ps r w).2.1.oldLeaves = r.oldLeaves + planOld true ps ∧
      (Reloc.run S ps r w).2.1.oldInners = r.oldInners + planOld false ps ∧
      (Reloc.run S ps r w).2.1.itemCount = r.itemCount + planItems ps) ∧
    (S.NoAlloc → (Reloc.run S ps r w).1 = false) := by
  induction ps generalizing r w with
  | nil => simp [Reloc.run, planNew, planOld, planItems, h]
  | cons s ss ih =>
    simp only [Reloc.run]
    obtain ⟨a, b, c⟩ := Reloc.step_spec S s r w l0 h
    cases hs : r.step S s w with
    | mk t rest =>
      obtain ⟨r', w'⟩ := rest
      rw [hs] at a b c
      simp only at a b c
      cases t with
      | true => exact ⟨a, fun hh => (by cases hh), fun hn => (by simpa using c hn)⟩
      | false =>
        simp only
        obtain ⟨a2, b2, c2⟩ := ih r' w' a
        obtain ⟨b11, b12, b13, b14, b15⟩ := b rfl
        refine ⟨a2, fun hh => ?_, c2⟩
        obtain ⟨e1, e2, e3, e4, e5⟩ := b2 hh
        have p1 : ∀ lf, planNew lf (s :: ss) = planNew lf [s] + planNew lf ss := by
          intro lf; cases s <;> simp [planNew]
        have p2 : ∀ lf, planOld lf (s :: ss) = planOld lf [s] + planOld lf ss := by
          intro lf; cases s <;> simp [planOld]
        have p3 : planItems (s :: ss) = planItems [s] + planItems ss := by
          cases s <;> simp [planItems]
        rw [e1, e2, e3, e4, e5, b11, b12, b13, b14, b15, p1, p1, p2, p2, p3]
        omega

/-- **whatever step of whatever plan throws, the destructor restores the ledger** -/
theorem relocRun_destroy (S : Sched) (ps : List PStep) (w : W) :
    ((Reloc.run S ps {} w).2.1.destroy (Reloc.run S ps {} w).2.2).led = w.led :=
  ((Reloc.run_spec S ps {} w w.led (RInv.fresh _)).1).destroy

/-! ### RelocateCreate -/

theorem copyLoop_spec (S : Sched) (n : Nat) (w : W) :
    (copyLoop S n w).2.2.led = { w.led with items := w.led.items + (copyLoop S n w).1 } ∧
    ((copyLoop S n w).2.1 = false → (copyLoop S n w).1 = n) ∧
    (S.NoCtor → (copyLoop S n w).2.1 = false) := by
  induction n generalizing w with
  | zero => simp [copyLoop]
  | succ n ih =>
    simp only [copyLoop]
    by_cases hf : S.ctor w.ctorN = true
    · simp only [hf, if_true]
      exact ⟨by simp, fun hh => (by cases hh), fun hn => (by rw [hn] at hf; cases hf)⟩
    · simp only [hf, Bool.false_eq_true, if_false]
      obtain ⟨a, b, c⟩ := ih (w.tickCtor.addItems 1)
      cases hc : copyLoop S n (w.tickCtor.addItems 1) with
      | mk d rest =>
        obtain ⟨t, w'⟩ := rest
        rw [hc] at a b c
        simp only at a b c ⊢
        refine ⟨?_, fun hh => (by rw [b hh]), c⟩
        rw [a]; apply Ledger.ext' <;> simp <;> omega

/-- what a creator does to the ledger: nothing when it throws, `f` of its final state when it returns -/
def CreatorSpec {σ : Type} (creator : W → Bool × σ × W) (f : σ → Ledger) : Prop :=
  ∀ w0, ((creator w0).1 = true → (creator w0).2.2.led = w0.led) ∧
        ((creator w0).1 = false → (creator w0).2.2.led = w0.led + f (creator w0).2.1)

theorem Ledger.add_zero' (l : Ledger) : l + ({} : Ledger) = l := by apply Ledger.ext' <;> simp

theorem copyCreator_spec (S : Sched) : CreatorSpec (copyCreator S) (fun _ => Ledger.ofItems 1) := by
  intro w0
  unfold copyCreator
  by_cases hf : S.ctor w0.ctorN = true
  · simp [hf]
  · simp only [hf, Bool.false_eq_true, if_false]
    refine ⟨fun hh => (by cases hh), fun _ => ?_⟩
    apply Ledger.ext' <;> simp

theorem handleCreator_spec (S : Sched) (ic : ICfg α) : CreatorSpec (handleCreator S ic) (fun _ => ({} : Ledger)) := by
  intro w0
  unfold handleCreator
  by_cases hr : ic.reloc = true
  · simp [hr, Ledger.add_zero']
  · simp only [hr, Bool.false_eq_true, if_false]
    by_cases hf : S.ctor w0.ctorN = true
    · simp [hf]
    · simp [hf, Ledger.add_zero']

/-- `RelocateCreate`: when it throws — growth of the segment arrays, a copy, the creator — the invariant holds with the old
    base; when it returns, with the base moved by what the creator did; the registrations are untouched -/
theorem Reloc.relocateCreate_spec {σ : Type} (S : Sched) (ic : ICfg α) (r : Reloc) (creator : W → Bool × σ × W) (s0 : σ)
    (w : W) (l0 : Ledger) (f : σ → Ledger) (hc : CreatorSpec creator f) (h : RInv l0 r w.led) :
    ((r.relocateCreate S ic creator s0 w).1 = true →
        RInv l0 (r.relocateCreate S ic creator s0 w).2.2.1 (r.relocateCreate S ic creator s0 w).2.2.2.led) ∧
    ((r.relocateCreate S ic creator s0 w).1 = false →
        RInv (l0 + f (r.relocateCreate S ic creator s0 w).2.1) (r.relocateCreate S ic creator s0 w).2.2.1
          (r.relocateCreate S ic creator s0 w).2.2.2.led) ∧
    (r.relocateCreate S ic creator s0 w).2.2.1.newLeaves = r.newLeaves ∧
    (r.relocateCreate S ic creator s0 w).2.2.1.newInners = r.newInners ∧
    (r.relocateCreate S ic creator s0 w).2.2.1.oldLeaves = r.oldLeaves ∧
    (r.relocateCreate S ic creator s0 w).2.2.1.oldInners = r.oldInners := by
  unfold RInv at h
  unfold Reloc.relocateCreate
  have hl := IArr.addBack_led S r.src w
  cases hg : r.src.addBack S w with
  | mk t rest =>
    obtain ⟨a, w1⟩ := rest
    rw [hg] at hl
    simp only at hl
    cases t with
    | true =>
      simp only
      refine ⟨fun _ => ?_, fun hh => (by cases hh), (by triv), (by triv), (by triv), (by triv)⟩
      unfold RInv
      apply Ledger.ext' <;> simp [hl, h, auxShift, Reloc.heapBlocks] <;> omega
    | false =>
      simp only
      have hl2 := IArr.addBack_led S r.dst w1
      cases hg2 : r.dst.addBack S w1 with
      | mk t2 rest2 =>
        obtain ⟨b, w2⟩ := rest2
        rw [hg2] at hl2
        simp only at hl2
        have hbase : RInv l0 { r with src := a, dst := b } w2.led := by
          unfold RInv
          apply Ledger.ext' <;> simp [hl2, hl, h, auxShift, Reloc.heapBlocks] <;> omega
        cases t2 with
        | true =>
          simp only
          exact ⟨fun _ => hbase, fun hh => (by cases hh), (by triv), (by triv), (by triv), (by triv)⟩
        | false =>
          simp only
          by_cases hr : ic.reloc = true
          · simp only [hr, if_true]
            obtain ⟨c1, c2⟩ := hc w2
            cases hcr : creator w2 with
            | mk t3 rest3 =>
              obtain ⟨s, w3⟩ := rest3
              rw [hcr] at c1 c2
              simp only at c1 c2 ⊢
              refine ⟨fun hh => ?_, fun hh => ?_, (by triv), (by triv), (by triv), (by triv)⟩
              · unfold RInv at hbase ⊢; rw [c1 hh, hbase]
              · unfold RInv at hbase ⊢; rw [c2 hh, hbase]; apply Ledger.ext' <;> simp <;> omega
          · simp only [hr, Bool.false_eq_true, if_false]
            obtain ⟨k1, k2, _⟩ := copyLoop_spec S r.itemCount w2
            cases hcl : copyLoop S r.itemCount w2 with
            | mk d rest3 =>
              obtain ⟨t3, w3⟩ := rest3
              rw [hcl] at k1 k2
              simp only at k1 k2
              cases t3 with
              | true =>
                simp only
                refine ⟨fun _ => ?_, fun hh => (by cases hh), (by triv), (by triv), (by triv), (by triv)⟩
                unfold RInv at hbase ⊢
                apply Ledger.ext' <;> simp [k1, hbase] <;> omega
              | false =>
                simp only
                have hd := k2 rfl
                obtain ⟨c1, c2⟩ := hc w3
                cases hcr : creator w3 with
                | mk t4 rest4 =>
                  obtain ⟨s, w4⟩ := rest4
                  rw [hcr] at c1 c2
                  simp only at c1 c2 ⊢
                  refine ⟨fun hh => ?_, fun hh => ?_, (by triv), (by triv), (by triv), (by triv)⟩
                  · unfold RInv at hbase ⊢
                    apply Ledger.ext' <;> simp [c1 hh, k1, hbase, hd] <;> omega
                  · unfold RInv at hbase ⊢
                    apply Ledger.ext' <;> simp [c2 hh, k1, hbase, hd] <;> omega

/-- the destructor after the `Swap` of a completed `RelocateCreate`: the old nodes go, the new ones stay -/
theorem RInv.commit_destroy {l0 : Ledger} {r : Reloc} {w : W} (h : RInv l0 r w.led) :
    (r.commit.destroy w).led =
      { l0 with leaves := l0.leaves + r.newLeaves - r.oldLeaves, inners := l0.inners + r.newInners - r.oldInners } := by
  unfold RInv at h
  apply Ledger.ext' <;> simp [Reloc.destroy, Reloc.commit, Reloc.heapBlocks, h] <;> omega

end Momo.BTreeF
