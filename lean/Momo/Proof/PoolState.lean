import Momo.Proof.PoolGeometry
/-!
  State machine of `MemPool` (C09): invariant of one buffer (free chain) and of the pool, and the effect of
  `pvNewBlock` / `pvDeleteBlock` on the set of handed-out blocks.
-/
namespace Momo.Pool

/-- following the link bytes from `s` visits exactly `ch` -/
def Chain (link : Int → Option Int) : Int → List Int → Prop
  | _, [] => True
  | s, x :: xs => s = x ∧ ∃ v, link x = some v ∧ Chain link v xs

theorem Chain_congr {l l' : Int → Option Int} {ch : List Int} (h : ∀ x ∈ ch, l' x = l x) (s : Int) :
    Chain l s ch → Chain l' s ch := by
  induction ch generalizing s with
  | nil => intro _; trivial
  | cons x xs ih =>
    intro ⟨h1, v, h2, h3⟩
    exact ⟨h1, v, by rw [h x (by simp)]; exact h2, ih (fun y hy => h y (by simp [hy])) v h3⟩

theorem freeChain_of_Chain (b : Buffer) : ∀ (ch : List Int) (s : Int), Chain b.link s ch →
    freeChain b ch.length s = some ch := by
  intro ch
  induction ch with
  | nil => intro s _; rfl
  | cons x xs ih =>
    intro s ⟨h1, v, h2, h3⟩
    subst h1
    simp [freeChain, h2, ih v h3]

/-- a buffer in a legal state -/
structure BufWF (P : Params) (b : Buffer) : Prop where
  layout : b.buf = (newBuffer P b.base).buf ∧ b.first = (newBuffer P b.base).first ∧
           b.beginOffset = (newBuffer P b.base).beginOffset
  aligned : P.allocAlign ∣ b.base
  chain : ∃ ch : List Int, Chain b.link b.firstFree ch ∧ (ch.length : Int) = b.freeCount ∧ ch.Nodup ∧
            (∀ i ∈ ch, b.first ≤ i ∧ i < b.first + P.N) ∧
            (∀ i, b.first ≤ i → i < b.first + P.N → (b.link i = none ↔ i ∉ ch))

theorem indexes_nodup (P : Params) (b : Buffer) : (b.indexes P).Nodup := by
  unfold Buffer.indexes
  exact List.Pairwise.map _ (fun x y (hxy : x ≠ y) => by omega) List.nodup_range

theorem mem_indexes (P : Params) (b : Buffer) (i : Int) (hN : 0 ≤ P.N) :
    i ∈ b.indexes P ↔ b.first ≤ i ∧ i < b.first + P.N := by
  unfold Buffer.indexes
  simp only [List.mem_map, List.mem_range]
  constructor
  · rintro ⟨j, hj, rfl⟩; omega
  · intro ⟨h1, h2⟩
    exact ⟨(i - b.first).toNat, by omega, by omega⟩

/-- changing a Boolean filter at one element of a duplicate-free list -/
theorem filter_flip {α : Type} [DecidableEq α] (l : List α) (a : α) (p q : α → Bool) (hnd : l.Nodup) (ha : a ∈ l)
    (hp : p a = false) (hq : q a = true) (hpq : ∀ x, x ≠ a → q x = p x) :
    (l.filter q).Perm (a :: l.filter p) := by
  induction l with
  | nil => simp at ha
  | cons x xs ih =>
    have hx : x ∉ xs := (List.nodup_cons.mp hnd).1
    have hnd' := (List.nodup_cons.mp hnd).2
    by_cases hxa : x = a
    · subst hxa
      have : xs.filter q = xs.filter p := by
        apply List.filter_congr
        intro y hy; exact hpq y (fun e => hx (e ▸ hy))
      simp [List.filter_cons, hp, hq, this]
    · have ha' : a ∈ xs := by simpa [Ne.symm hxa] using ha
      have := ih hnd' ha'
      simp only [List.filter_cons, hpq x hxa]
      split
      · exact (List.Perm.cons x this).trans (List.Perm.swap a x _)
      · exact this

theorem taken_perm_of_flip (P : Params) (b b' : Buffer) (x : Int) (hN : 0 ≤ P.N)
    (hbuf : b'.buf = b.buf) (hfirst : b'.first = b.first)
    (hx : b.first ≤ x ∧ x < b.first + P.N)
    (hp : (b.link x).isNone = false) (hq : (b'.link x).isNone = true)
    (hpq : ∀ i, i ≠ x → b'.link i = b.link i) :
    (b'.taken P).Perm (getBlock P b.buf x :: b.taken P) := by
  unfold Buffer.taken
  have hidx : b'.indexes P = b.indexes P := by unfold Buffer.indexes; rw [hfirst]
  rw [hidx, hbuf]
  have := filter_flip (b.indexes P) x (fun i => (b.link i).isNone) (fun i => (b'.link i).isNone)
    (indexes_nodup P b) ((mem_indexes P b x hN).mpr hx) hp hq (fun i hi => by simp only [hpq i hi])
  exact (this.map _).trans (by simp)

theorem getBlock_inj {P : Params} {k : Int} (hM : Multi P k) (buf i j : Int)
    (h : getBlock P buf i = getBlock P buf j) : i = j := by
  have hS := hM.S_pos
  rcases Int.lt_trichotomy i j with hlt | heq | hgt
  · have := hM.block_order buf i j hlt; omega
  · exact heq
  · have := hM.block_order buf j i hgt; omega

/-- the buffer after `take` read the link value `v` -/
def Buffer.afterTake (b : Buffer) (v : Int) : Buffer :=
  { b with firstFree := v, freeCount := b.freeCount - 1,
           link := fun i => if i = b.firstFree then none else b.link i }

theorem Buffer.take_eq (b : Buffer) (v : Int) (h : b.link b.firstFree = some v) :
    b.take = some (b.firstFree, b.afterTake v) := by
  unfold Buffer.take Buffer.afterTake; rw [h]

theorem BufWF.take_ok {P : Params} {k : Int} (hM : Multi P k) {b : Buffer} (h : BufWF P b) (hfc : 1 ≤ b.freeCount) :
    ∃ b', b.take = some (b.firstFree, b') ∧ BufWF P b' ∧ b'.freeCount = b.freeCount - 1 ∧
      b'.buf = b.buf ∧ b'.base = b.base ∧ b'.first = b.first ∧ b'.beginOffset = b.beginOffset ∧
      (b.first ≤ b.firstFree ∧ b.firstFree < b.first + P.N) ∧
      (b'.taken P).Perm (getBlock P b.buf b.firstFree :: b.taken P) ∧
      getBlock P b.buf b.firstFree ∉ b.taken P := by
  obtain ⟨ch, hch, hlen, hnd, hrange, hnone⟩ := h.chain
  cases ch with
  | nil => simp at hlen; omega
  | cons x xs =>
    obtain ⟨hx, v, hv, hrest⟩ := hch
    subst hx
    have hxr := hrange b.firstFree (by simp)
    have hxn : b.firstFree ∉ xs := (List.nodup_cons.mp hnd).1
    have hN : 0 ≤ P.N := by have := hM.hN; omega
    refine ⟨b.afterTake v, b.take_eq v hv, ?_, rfl, rfl, rfl, rfl, rfl, hxr, ?_, ?_⟩
    · refine ⟨h.layout, h.aligned, xs, ?_, ?_, (List.nodup_cons.mp hnd).2, ?_, ?_⟩
      · apply Chain_congr _ v hrest
        intro y hy
        have : y ≠ b.firstFree := by intro e; exact hxn (e ▸ hy)
        simp [Buffer.afterTake, this]
      · simp only [List.length_cons] at hlen; simp only [Buffer.afterTake]; omega
      · intro i hi; exact hrange i (by simp [hi])
      · intro i h1 h2
        simp only [Buffer.afterTake]
        by_cases hi : i = b.firstFree
        · simp only [hi, if_true, true_iff]; exact hxn
        · simp only [hi, if_false]
          rw [hnone i h1 h2]
          simp [hi]
    · apply taken_perm_of_flip P b (b.afterTake v) b.firstFree hN rfl rfl hxr
      · rw [hv]; rfl
      · simp [Buffer.afterTake]
      · intro i hi; simp [Buffer.afterTake, hi]
    · unfold Buffer.taken
      intro hm
      obtain ⟨i, hi, hie⟩ := List.mem_map.mp hm
      have hi' := List.mem_filter.mp hi
      have : i = b.firstFree := getBlock_inj hM _ _ _ hie
      rw [this, hv] at hi'
      simp at hi'

theorem BufWF.put_ok {P : Params} {k : Int} (hM : Multi P k) {b : Buffer} (h : BufWF P b) (idx : Int)
    (hr : b.first ≤ idx ∧ idx < b.first + P.N) (hl : b.link idx = none) :
    BufWF P (b.put idx) ∧ (b.taken P).Perm (getBlock P b.buf idx :: (b.put idx).taken P) ∧
    getBlock P b.buf idx ∉ (b.put idx).taken P := by
  obtain ⟨ch, hch, hlen, hnd, hrange, hnone⟩ := h.chain
  have hN : 0 ≤ P.N := by have := hM.hN; omega
  have hidx : idx ∉ ch := (hnone idx hr.1 hr.2).mp hl
  refine ⟨⟨h.layout, h.aligned, idx :: ch, ?_, ?_, List.nodup_cons.mpr ⟨hidx, hnd⟩, ?_, ?_⟩, ?_, ?_⟩
  · refine ⟨rfl, b.firstFree, by simp [Buffer.put], ?_⟩
    apply Chain_congr _ _ hch
    intro y hy
    have : y ≠ idx := fun e => hidx (e ▸ hy)
    simp [Buffer.put, this]
  · simp only [List.length_cons, Buffer.put]; omega
  · intro i hi
    rcases List.mem_cons.mp hi with rfl | hi
    · exact hr
    · exact hrange i hi
  · intro i h1 h2
    simp only [Buffer.put]
    by_cases hi : i = idx
    · simp [hi]
    · simp only [hi, if_false, List.mem_cons, false_or]
      exact hnone i h1 h2
  · apply taken_perm_of_flip P (b.put idx) b idx hN rfl rfl hr
    · simp [Buffer.put]
    · rw [hl]; rfl
    · intro i hi; simp [Buffer.put, hi]
  · unfold Buffer.taken
    intro hm
    obtain ⟨i, hi, hie⟩ := List.mem_map.mp hm
    have hi' := List.mem_filter.mp hi
    have : i = idx := getBlock_inj hM _ _ _ hie
    rw [this] at hi'
    simp [Buffer.put] at hi'

/-- `n` consecutive integers from `s` -/
def consec (s : Int) : Nat → List Int
  | 0 => []
  | n+1 => s :: consec (s + 1) n

theorem mem_consec (i : Int) : ∀ (n : Nat) (s : Int), i ∈ consec s n ↔ s ≤ i ∧ i < s + n := by
  intro n
  induction n with
  | zero => intro s; simp [consec]
  | succ n ih => intro s; simp only [consec, List.mem_cons, ih]; omega

theorem consec_nodup : ∀ (n : Nat) (s : Int), (consec s n).Nodup := by
  intro n
  induction n with
  | zero => intro s; simp [consec]
  | succ n ih =>
    intro s
    simp only [consec, List.nodup_cons, mem_consec]
    exact ⟨by omega, ih (s + 1)⟩

theorem consec_length : ∀ (n : Nat) (s : Int), (consec s n).length = n := by
  intro n
  induction n with
  | zero => intro s; rfl
  | succ n ih => intro s; simp [consec, ih]

theorem fresh_chain (P : Params) (base : Int) :
    ∀ (n : Nat) (s : Int), (newBuffer P base).first ≤ s → s + n = (newBuffer P base).first + P.N →
      Chain (Buffer.fresh P base).link s (consec s n) := by
  intro n
  induction n with
  | zero => intro s _ _; trivial
  | succ n ih =>
    intro s h1 h2
    refine ⟨rfl, ?_⟩
    by_cases hl : s < (newBuffer P base).first + P.N - 1
    · refine ⟨s + 1, by simp [Buffer.fresh, h1, hl], ih (s + 1) (by omega) (by omega)⟩
    · have hn : n = 0 := by omega
      subst hn
      refine ⟨-(Extracted.poolFreeTerminator : Int), ?_, trivial⟩
      have : s = (newBuffer P base).first + P.N - 1 := by omega
      simp [Buffer.fresh, this]

theorem fresh_wf {P : Params} {k : Int} (hM : Multi P k) (base : Int) (hbase : P.allocAlign ∣ base) :
    BufWF P (Buffer.fresh P base) ∧ (Buffer.fresh P base).freeCount = P.N ∧
    (Buffer.fresh P base).taken P = [] := by
  have hN := hM.hN
  obtain ⟨n, hn⟩ : ∃ n : Nat, P.N = (n : Int) := ⟨P.N.toNat, by omega⟩
  refine ⟨⟨⟨rfl, rfl, rfl⟩, hbase, consec (newBuffer P base).first n, ?_, ?_, consec_nodup _ _, ?_, ?_⟩, rfl, ?_⟩
  · show Chain _ (newBuffer P base).first _
    exact fresh_chain P base n _ (Int.le_refl _) (by simp [hn])
  -- length
  · rw [consec_length]; simp [Buffer.fresh, hn]
  · intro i hi
    have := (mem_consec i n _).mp hi
    simp only [Buffer.fresh]; omega
  · intro i h1 h2
    simp only [Buffer.fresh] at h1 h2
    rw [mem_consec]
    simp only [Buffer.fresh]
    split
    · simp; omega
    · split
      · simp; omega
      · omega
  · unfold Buffer.taken
    rw [List.map_eq_nil_iff, List.filter_eq_nil_iff]
    intro i hi
    have := (mem_indexes P _ i (by omega)).mp hi
    simp only [Buffer.fresh] at this ⊢
    split
    · simp
    · split
      · simp
      · omega

end Momo.Pool
