import Momo.Proof.SortTop
/-!
  C17 lemmas, part 12: the cell-list statements specialised to the two public call shapes -
  `Sort/Find/GetBounds/IsSorted(begin, count, …, hashFunc, equalFunc)` on an array of items (`plainMem`) and the
  `…Prehashed` variants on an array of items with a parallel array of hash codes (`preMem`).
-/
namespace Momo.Sort
variable {α : Type}

/-- equal items are contiguous: between two equal items every item is equal to them -/
def Grouped (eq : α → α → Bool) (l : List α) : Prop :=
  ∀ i j k (_ : i < j) (_ : j < k) (hk : k < l.length), eq l[i] l[k] = true → eq l[i] l[j] = true

/-! ### plain: cells = (item, hashFunc item) -/

/-- the cell list of `plainMem` -/
def plainCells (hash : α → Nat) (a : Array α) : List (α × Nat) := a.toList.map fun x => (x, hash x)

theorem plainCells_length (hash : α → Nat) (a : Array α) : (plainCells hash a).length = a.size := by simp [plainCells]

theorem plain_sorted_iff (hash : α → Nat) (a : Array α) :
    SortedL (plainCells hash a) ↔ a.toList.Pairwise (fun x y => hash x ≤ hash y) := by
  unfold SortedL plainCells
  rw [List.pairwise_map]

theorem plain_grouped_iff (hash : α → Nat) (eq : α → α → Bool) (a : Array α) :
    GroupedCells eq (plainCells hash a) ↔ Grouped eq a.toList := by
  unfold GroupedCells Grouped plainCells
  constructor
  · intro h i j k hij hjk hk hik
    have := h i j k hij hjk (by simpa using hk)
    simp only [List.getElem_map] at this
    exact this hik
  · intro h i j k hij hjk hk hik
    simp only [List.getElem_map] at hik ⊢
    exact h i j k hij hjk (by simpa using hk) hik

theorem plain_perm {hash : α → Nat} {a a' : Array α} (h : (plainCells hash a').Perm (plainCells hash a)) :
    a'.toList.Perm a.toList := by
  have := h.map Prod.fst
  simpa [plainCells, List.map_map, Function.comp_def] using this

theorem plain_consL (hash : α → Nat) (eq : α → α → Bool) (a : Array α)
    (h : ∀ x ∈ a.toList, ∀ y ∈ a.toList, eq x y = true → hash x = hash y) : ConsL eq (plainCells hash a) := by
  intro x hx y hy hxy
  obtain ⟨x', hx', rfl⟩ := List.mem_map.1 hx
  obtain ⟨y', hy', rfl⟩ := List.mem_map.1 hy
  exact h x' hx' y' hy' hxy

/-! ### prehashed: cells = zip items hashes -/

/-- the cell list of `preMem` -/
def preCells (s : Array α × Array Nat) : List (α × Nat) := s.1.toList.zip s.2.toList

theorem preCells_length (s : Array α × Array Nat) (h : s.1.size = s.2.size) : (preCells s).length = s.1.size := by
  simp [preCells, h]

theorem pre_map_snd (s : Array α × Array Nat) (h : s.1.size = s.2.size) : (preCells s).map Prod.snd = s.2.toList := by
  unfold preCells
  apply List.map_snd_zip
  simp [h]

theorem pre_map_fst (s : Array α × Array Nat) (h : s.1.size = s.2.size) : (preCells s).map Prod.fst = s.1.toList := by
  unfold preCells
  apply List.map_fst_zip
  simp [h]

theorem pre_sorted_iff (s : Array α × Array Nat) (h : s.1.size = s.2.size) :
    SortedL (preCells s) ↔ s.2.toList.Pairwise (· ≤ ·) := by
  unfold SortedL
  rw [← pre_map_snd s h, List.pairwise_map]

theorem pre_grouped_iff (eq : α → α → Bool) (s : Array α × Array Nat) (h : s.1.size = s.2.size) :
    GroupedCells eq (preCells s) ↔ Grouped eq s.1.toList := by
  have hlen := preCells_length s h
  have hget : ∀ i (hi : i < (preCells s).length), ((preCells s)[i]).1 = s.1.toList[i]'(by simpa [hlen] using hi) := by
    intro i hi
    simp [preCells]
  unfold GroupedCells Grouped
  constructor
  · intro hg i j k hij hjk hk hik
    have hk' : k < (preCells s).length := by rw [hlen]; simpa using hk
    have := hg i j k hij hjk hk'
    rw [hget i (by omega), hget j (by omega), hget k hk'] at this
    exact this hik
  · intro hg i j k hij hjk hk hik
    rw [hget i (by omega), hget j (by omega)]
    rw [hget i (by omega), hget k hk] at hik
    exact hg i j k hij hjk (by rw [hlen] at hk; simpa using hk) hik

end Momo.Sort
