import Momo.Model.BTreeFault
import Momo.Proof.BTreeTree
/-!
  C04 / C10 for the B-tree family, basic lemmas of the fault layer: the ledger algebra, the world bookkeeping, and the search
  under a throwing comparison (it never touches the ledger; when it returns, it returns what the fault-free search returns;
  when no comparison is scheduled to throw, it returns).
  Core Lean only.
-/
namespace Momo.BTreeF
open Momo Momo.BTree Momo.BTree.Node
variable {α : Type}

/-! ### ledger algebra -/

@[ext] theorem Ledger.ext' {a b : Ledger} (h1 : a.leaves = b.leaves) (h2 : a.inners = b.inners) (h3 : a.items = b.items)
    (h4 : a.aux = b.aux) (h5 : a.params = b.params) (h6 : a.crews = b.crews) : a = b := by
  cases a; cases b; simp_all

@[simp] theorem Ledger.add_leaves (a b : Ledger) : (a + b).leaves = a.leaves + b.leaves := rfl
@[simp] theorem Ledger.add_inners (a b : Ledger) : (a + b).inners = a.inners + b.inners := rfl
@[simp] theorem Ledger.add_items (a b : Ledger) : (a + b).items = a.items + b.items := rfl
@[simp] theorem Ledger.add_aux (a b : Ledger) : (a + b).aux = a.aux + b.aux := rfl
@[simp] theorem Ledger.add_params (a b : Ledger) : (a + b).params = a.params + b.params := rfl
@[simp] theorem Ledger.add_crews (a b : Ledger) : (a + b).crews = a.crews + b.crews := rfl
@[simp] theorem Ledger.sub_leaves (a b : Ledger) : (a - b).leaves = a.leaves - b.leaves := rfl
@[simp] theorem Ledger.sub_inners (a b : Ledger) : (a - b).inners = a.inners - b.inners := rfl
@[simp] theorem Ledger.sub_items (a b : Ledger) : (a - b).items = a.items - b.items := rfl
@[simp] theorem Ledger.sub_aux (a b : Ledger) : (a - b).aux = a.aux - b.aux := rfl
@[simp] theorem Ledger.sub_params (a b : Ledger) : (a - b).params = a.params - b.params := rfl
@[simp] theorem Ledger.sub_crews (a b : Ledger) : (a - b).crews = a.crews - b.crews := rfl

@[simp] theorem Ledger.ofItems_leaves (n : Int) : (Ledger.ofItems n).leaves = 0 := rfl
@[simp] theorem Ledger.ofItems_inners (n : Int) : (Ledger.ofItems n).inners = 0 := rfl
@[simp] theorem Ledger.ofItems_items (n : Int) : (Ledger.ofItems n).items = n := rfl
@[simp] theorem Ledger.ofItems_aux (n : Int) : (Ledger.ofItems n).aux = 0 := rfl
@[simp] theorem Ledger.ofItems_params (n : Int) : (Ledger.ofItems n).params = 0 := rfl
@[simp] theorem Ledger.ofItems_crews (n : Int) : (Ledger.ofItems n).crews = 0 := rfl

@[simp] theorem nodeLed_leaves (ft : FTree α) : ft.nodeLed.leaves = ft.leaves := rfl
@[simp] theorem nodeLed_inners (ft : FTree α) : ft.nodeLed.inners = ft.inners := rfl
@[simp] theorem nodeLed_items (ft : FTree α) : ft.nodeLed.items = 0 := rfl
@[simp] theorem nodeLed_aux (ft : FTree α) : ft.nodeLed.aux = 0 := rfl
@[simp] theorem nodeLed_params (ft : FTree α) : ft.nodeLed.params = if ft.params then 1 else 0 := rfl
@[simp] theorem nodeLed_crews (ft : FTree α) : ft.nodeLed.crews = 0 := rfl

/-! ### the world: ticks never touch the ledger, ledger updates never touch the counters -/

@[simp] theorem tickCmp_led (w : W) : w.tickCmp.led = w.led := rfl
@[simp] theorem tickAlloc_led (w : W) : w.tickAlloc.led = w.led := rfl
@[simp] theorem tickCtor_led (w : W) : w.tickCtor.led = w.led := rfl
@[simp] theorem tickRepl_led (w : W) : w.tickRepl.led = w.led := rfl
@[simp] theorem tickFilt_led (w : W) : w.tickFilt.led = w.led := rfl

@[simp] theorem addLeaves_led (w : W) (d : Int) : (w.addLeaves d).led = { w.led with leaves := w.led.leaves + d } := rfl
@[simp] theorem addInners_led (w : W) (d : Int) : (w.addInners d).led = { w.led with inners := w.led.inners + d } := rfl
@[simp] theorem addItems_led (w : W) (d : Int) : (w.addItems d).led = { w.led with items := w.led.items + d } := rfl
@[simp] theorem addAux_led (w : W) (d : Int) : (w.addAux d).led = { w.led with aux := w.led.aux + d } := rfl
@[simp] theorem addParams_led (w : W) (d : Int) : (w.addParams d).led = { w.led with params := w.led.params + d } := rfl
@[simp] theorem addCrews_led (w : W) (d : Int) : (w.addCrews d).led = { w.led with crews := w.led.crews + d } := rfl

@[simp] theorem addLeaves_allocN (w : W) (d : Int) : (w.addLeaves d).allocN = w.allocN := rfl
@[simp] theorem addInners_allocN (w : W) (d : Int) : (w.addInners d).allocN = w.allocN := rfl
@[simp] theorem addItems_allocN (w : W) (d : Int) : (w.addItems d).allocN = w.allocN := rfl
@[simp] theorem addAux_allocN (w : W) (d : Int) : (w.addAux d).allocN = w.allocN := rfl
@[simp] theorem addParams_allocN (w : W) (d : Int) : (w.addParams d).allocN = w.allocN := rfl
@[simp] theorem addItems_ctorN (w : W) (d : Int) : (w.addItems d).ctorN = w.ctorN := rfl
@[simp] theorem addLeaves_ctorN (w : W) (d : Int) : (w.addLeaves d).ctorN = w.ctorN := rfl
@[simp] theorem addInners_ctorN (w : W) (d : Int) : (w.addInners d).ctorN = w.ctorN := rfl

theorem addNode_led (w : W) (lf : Bool) (d : Int) :
    (w.addNode lf d).led = { w.led with leaves := w.led.leaves + (if lf then d else 0),
                                        inners := w.led.inners + (if lf then 0 else d) } := by
  cases lf <;> simp [W.addNode]

/-- the schedules under which a kind of step never throws -/
def Sched.NoCmp (S : Sched) : Prop := ∀ i, S.cmp i = false
def Sched.NoAlloc (S : Sched) : Prop := ∀ i, S.alloc i = false
def Sched.NoCtor (S : Sched) : Prop := ∀ i, S.ctor i = false
def Sched.NoRepl (S : Sched) : Prop := ∀ i, S.repl i = false
def Sched.NoFilt (S : Sched) : Prop := ∀ i, S.filt i = false

/-- nothing is scheduled to throw -/
structure Sched.Clean (S : Sched) : Prop where
  cmp : S.NoCmp
  alloc : S.NoAlloc
  ctor : S.NoCtor
  repl : S.NoRepl
  filt : S.NoFilt

theorem Sched.clean_clean : Sched.clean.Clean := ⟨fun _ => rfl, fun _ => rfl, fun _ => rfl, fun _ => rfl, fun _ => rfl⟩

/-! ### in-node search -/

theorem scanF_spec (S : Sched) (p : α → Bool) (items : List α) (i : Nat) (w : W) :
    (scanF S p items i w).2.led = w.led ∧
    (∀ r, (scanF S p items i w).1 = some r → r = i + firstTrue p items) ∧
    (S.NoCmp → (scanF S p items i w).1 = some (i + firstTrue p items)) := by
  induction items generalizing i w with
  | nil => simp [scanF, firstTrue]
  | cons x xs ih =>
    simp only [scanF, firstTrue]
    by_cases hf : S.cmp w.cmpN = true
    · simp only [hf, if_true, tickCmp_led, true_and]
      exact ⟨fun r h => (by cases h), fun hn => (by rw [hn] at hf; cases hf)⟩
    · simp only [hf, Bool.false_eq_true, if_false]
      by_cases hp : p x = true
      · simp [hp]
      · simp only [hp, Bool.false_eq_true, if_false]
        obtain ⟨a, b, c⟩ := ih (i + 1) w.tickCmp
        refine ⟨(by rw [a]; rfl), fun r h => (by rw [b r h]; omega), fun hn => (by rw [c hn]; congr 1; omega)⟩

theorem findLinF_spec (S : Sched) (p : α → Bool) (items : List α) (w : W) :
    (findLinF S p items w).2.led = w.led ∧
    (∀ r, (findLinF S p items w).1 = some r → r = findLin p items) ∧
    (S.NoCmp → (findLinF S p items w).1 = some (findLin p items)) := by
  unfold findLinF findLin
  cases hl : items.getLast? with
  | none => simp
  | some l =>
    simp only
    by_cases hf : S.cmp w.cmpN = true
    · simp only [hf, if_true, tickCmp_led, true_and]
      exact ⟨fun r h => (by cases h), fun hn => (by rw [hn] at hf; cases hf)⟩
    · simp only [hf, Bool.false_eq_true, if_false]
      by_cases hp : p l = true
      · simp only [hp, if_true]
        obtain ⟨a, b, c⟩ := scanF_spec S p items 0 w.tickCmp
        exact ⟨(by rw [a]; rfl), fun r h => (by rw [b r h]; omega), fun hn => (by rw [c hn]; congr 1; omega)⟩
      · simp [hp]

theorem binLoopF_spec (S : Sched) (p : α → Bool) (items : List α) (fuel lo hi : Nat) (w : W) :
    (binLoopF S p items fuel lo hi w).2.led = w.led ∧
    (∀ r, (binLoopF S p items fuel lo hi w).1 = some r → r = binLoop p items fuel lo hi) ∧
    (S.NoCmp → (binLoopF S p items fuel lo hi w).1 = some (binLoop p items fuel lo hi)) := by
  induction fuel generalizing lo hi w with
  | zero => simp [binLoopF, binLoop]
  | succ fuel ih =>
    simp only [binLoopF, binLoop]
    by_cases hlt : lo < hi
    · simp only [hlt, if_true]
      cases hx : items[(lo + hi) / 2]? with
      | none => simp
      | some x =>
        simp only
        by_cases hf : S.cmp w.cmpN = true
        · simp only [hf, if_true, tickCmp_led, true_and]
          exact ⟨fun r h => (by cases h), fun hn => (by rw [hn] at hf; cases hf)⟩
        · simp only [hf, Bool.false_eq_true, if_false]
          by_cases hp : p x = true
          · simp only [hp, if_true]
            obtain ⟨a, b, c⟩ := ih lo ((lo + hi) / 2) w.tickCmp
            exact ⟨(by rw [a]; rfl), b, c⟩
          · simp only [hp, Bool.false_eq_true, if_false]
            obtain ⟨a, b, c⟩ := ih ((lo + hi) / 2 + 1) hi w.tickCmp
            exact ⟨(by rw [a]; rfl), b, c⟩
    · simp [hlt]

theorem findInF_spec (S : Sched) (lin : Bool) (p : α → Bool) (items : List α) (w : W) :
    (findInF S lin p items w).2.led = w.led ∧
    (∀ r, (findInF S lin p items w).1 = some r → r = findIn lin p items) ∧
    (S.NoCmp → (findInF S lin p items w).1 = some (findIn lin p items)) := by
  unfold findInF findIn
  cases lin with
  | true => simpa using findLinF_spec S p items w
  | false => simpa [findBin] using binLoopF_spec S p items items.length 0 items.length w

/-! ### tree search -/

theorem findFirstAtF_eq (S : Sched) (lin : Bool) (p : α → Bool) (cs : List (Node α)) (i : Nat) (w : W) :
    findFirstAtF S lin p cs i w = (match cs[i]? with
      | some c => findFirstF S lin p c w
      | none => (some none, w)) := by
  induction cs generalizing i with
  | nil => simp [findFirstAtF]
  | cons c cs ih =>
    cases i with
    | zero => simp [findFirstAtF]
    | succ i => simp [findFirstAtF, ih]

/-- the tree search under a throwing comparison: the ledger is untouched; an answer is the fault-free answer; without a
    scheduled fault there is an answer -/
theorem findFirstF_spec (S : Sched) (lin : Bool) (p : α → Bool) {d : Nat} {n : Node α} (hb : Bal d n) (w : W) :
    (findFirstF S lin p n w).2.led = w.led ∧
    (∀ r, (findFirstF S lin p n w).1 = some r → r = findFirst lin p n) ∧
    (S.NoCmp → (findFirstF S lin p n w).1 = some (findFirst lin p n)) := by
  induction hb generalizing w with
  | leaf cap items =>
    simp only [findFirstF, findFirst]
    obtain ⟨a, b, c⟩ := findInF_spec S lin p items w
    cases h : findInF S lin p items w with
    | mk o w' =>
      rw [h] at a b c
      cases o with
      | none => exact ⟨a, fun r hr => (by cases hr), fun hn => (by simpa using c hn)⟩
      | some i =>
        have hi := b i rfl
        subst hi
        exact ⟨a, fun r hr => (by simpa using hr.symm), fun _ => rfl⟩
  | inner d items cs hlen hall ih =>
    simp only [findFirstF, findFirst, findFirstAt_eq, findFirstAtF_eq]
    obtain ⟨a, b, c⟩ := findInF_spec S lin p items w
    cases h : findInF S lin p items w with
    | mk o w' =>
      rw [h] at a b c
      cases o with
      | none => exact ⟨a, fun r hr => (by cases hr), fun hn => (by simpa using c hn)⟩
      | some i =>
        have hi := b i rfl
        subst hi
        simp only
        cases hc : cs[findIn lin p items]? with
        | none => simp only; exact ⟨a, fun r hr => (by simpa using hr.symm), fun _ => (by simp)⟩
        | some ch =>
          simp only
          obtain ⟨a2, b2, c2⟩ := ih ch (List.mem_of_getElem? hc) w'
          cases h2 : findFirstF S lin p ch w' with
          | mk o2 w2 =>
            rw [h2] at a2 b2 c2
            cases o2 with
            | none => exact ⟨(by rw [a2, a]), fun r hr => (by cases hr), fun hn => (by simpa using c2 hn)⟩
            | some q =>
              have hq := b2 q rfl
              subst hq
              cases hq2 : findFirst lin p ch with
              | none => simp only; exact ⟨(by rw [a2, a]), fun r hr => (by simpa using hr.symm), fun _ => (by simp)⟩
              | some q' => simp only; exact ⟨(by rw [a2, a]), fun r hr => (by simpa using hr.symm), fun _ => (by simp)⟩

/-- … of the container -/
theorem findPosF_spec (S : Sched) (lin : Bool) (p : α → Bool) (cfg : Cfg) (t : Tree α) (hw : t.WF cfg) (w : W) :
    (findPosF S lin p t w).2.led = w.led ∧
    (∀ q, (findPosF S lin p t w).1 = some q → q = (match t.root with
        | some r => findPos lin p r
        | none => ⟨[], 0⟩)) ∧
    (S.NoCmp → (findPosF S lin p t w).1 = some (match t.root with
        | some r => findPos lin p r
        | none => ⟨[], 0⟩)) := by
  unfold findPosF
  cases hr : t.root with
  | none => simp
  | some r =>
    simp only
    obtain ⟨d, hb⟩ := hw.bal r hr
    obtain ⟨a, b, c⟩ := findFirstF_spec S lin p hb w
    cases h : findFirstF S lin p r w with
    | mk o w' =>
      rw [h] at a b c
      cases o with
      | none => exact ⟨a, fun q hq => (by cases hq), fun hn => (by simpa using c hn)⟩
      | some q =>
        have hq := b q rfl
        subst hq
        exact ⟨a, fun q' hq' => (by simpa [findPos] using hq'.symm), fun _ => (by simp [findPos])⟩

/-- the ledger part alone needs no well-formedness -/
theorem findInF_led (S : Sched) (lin : Bool) (p : α → Bool) (items : List α) (w : W) :
    (findInF S lin p items w).2.led = w.led := (findInF_spec S lin p items w).1

theorem isGreaterF_spec (S : Sched) (lt : α → α → Bool) (t : Tree α) (pos : Pos) (k : α) (w : W) :
    (isGreaterF S lt t pos k w).2.led = w.led ∧
    (∀ b, (isGreaterF S lt t pos k w).1 = some b → b = Tree.isGreater lt t pos k) ∧
    (S.NoCmp → (isGreaterF S lt t pos k w).1 = some (Tree.isGreater lt t pos k)) := by
  unfold isGreaterF Tree.isGreater
  by_cases he : pos = t.endPos
  · simp [he]
  · simp only [he, if_false]
    cases hx : t.elemAt? pos with
    | none => simp
    | some x =>
      simp only
      by_cases hf : S.cmp w.cmpN = true
      · simp only [hf, if_true, tickCmp_led, true_and]
        exact ⟨fun r h => (by cases h), fun hn => (by rw [hn] at hf; cases hf)⟩
      · simp [hf]

end Momo.BTreeF
