import Momo.Proof.ValXfer
/-!
  The memory-manager ledger over event traces of the value-semantics model (C14): every block is handed out while
  not live, and given back while live *through the manager that handed it out*. This is the check the harness's
  `Ledger` (harness/c14_value.h) performs on the real managers; here it is proved for every trace the model can produce.
-/
namespace Momo.Val

/-- block ↦ allocating manager, for the live blocks -/
abbrev OwnerMap := Nat → Option Mgr

/-- the manager that allocated block `h`, if the block is live -/
def ownerOf (H : Heap) : OwnerMap := fun h => (H.get h).map (·.mgr)

def OwnerMap.set (L : OwnerMap) (h : Nat) (v : Option Mgr) : OwnerMap := fun x => if x = h then v else L x

/-- one event against the ledger; `none` = violation -/
def ledgerStep (L : OwnerMap) : Ev → Option OwnerMap
  | .alloc m h => if L h = none then some (L.set h (some m)) else none    -- a live block is never handed out again
  | .free m h => if L h = some m then some (L.set h none) else none       -- live, and freed through its allocating manager
  | _ => some L

def ledgerRun : OwnerMap → List Ev → Option OwnerMap
  | L, [] => some L
  | L, e :: es =>
    match ledgerStep L e with
    | none => none
    | some L' => ledgerRun L' es

/-- events that do not concern the managers -/
def isMemEv : Ev → Bool
  | .alloc _ _ => true
  | .free _ _ => true
  | _ => false

theorem ledgerRun_append (L : OwnerMap) (a b : List Ev) :
    ledgerRun L (a ++ b) = (ledgerRun L a).bind (fun L' => ledgerRun L' b) := by
  induction a generalizing L with
  | nil => rfl
  | cons e es ih =>
    simp only [List.cons_append, ledgerRun]
    cases ledgerStep L e with
    | none => rfl
    | some L' => exact ih L'

theorem ledgerRun_neutral (L : OwnerMap) (es : List Ev) (h : ∀ e ∈ es, isMemEv e = false) : ledgerRun L es = some L := by
  induction es with
  | nil => rfl
  | cons e es ih =>
    have he := h e (by simp)
    have : ledgerStep L e = some L := by
      cases e <;> simp_all [isMemEv, ledgerStep]
    simp only [ledgerRun, this]
    exact ih (fun x hx => h x (by simp [hx]))

theorem neutral_destroyEvs (k : Kind) (xs : List Elem) : ∀ e ∈ destroyEvs k xs, isMemEv e = false := by
  intro e he; obtain ⟨x, rfl⟩ := mem_destroyEvs he; rfl

theorem neutral_relocEvs (k : Kind) (xs : List Elem) : ∀ e ∈ relocEvs k xs, isMemEv e = false := by
  intro e he
  unfold relocEvs at he
  split at he
  · cases he
  · obtain ⟨x, _, hx⟩ := List.mem_flatMap.mp he
    simp only [List.mem_cons, List.not_mem_nil, or_false] at hx
    rcases hx with rfl | rfl
    · split <;> rfl
    · rfl

theorem neutral_xferEvs (k : Kind) (xs : List Elem) : ∀ e ∈ xferEvs k xs, isMemEv e = false := by
  intro e he
  obtain ⟨x, _, rfl⟩ := List.mem_map.mp he
  split <;> rfl

theorem neutral_copies (xs : List Elem) : ∀ e ∈ xs.map Ev.copy, isMemEv e = false := by
  intro e he; obtain ⟨x, _, rfl⟩ := List.mem_map.mp he; rfl

theorem neutral_srcXfer (k : Kind) (w : World) (src : Option Nat) : ∀ e ∈ srcXfer k w src, isMemEv e = false := by
  intro e he
  cases src with
  | none => cases he
  | some s =>
    simp only [srcXfer] at he
    split at he
    · exact neutral_xferEvs _ _ e he
    · cases he

theorem ownerOf_alloc (H : Heap) (m : Mgr) (xs : List Elem) :
    ownerOf (H.alloc m xs) = (ownerOf H).set H.next (some m) := by
  funext h
  simp only [ownerOf, Heap.get_alloc, OwnerMap.set]
  by_cases hh : h = H.next <;> simp [hh]

theorem ownerOf_free (H : Heap) (a : Nat) : ownerOf (H.free a) = (ownerOf H).set a none := by
  funext h
  simp only [ownerOf, Heap.get_free, OwnerMap.set]
  by_cases hh : h = a <;> simp [hh]

theorem ownerOf_emptyCells (hs : List Nat) (H : Heap) : ownerOf (emptyCells hs H) = ownerOf H := by
  funext h
  simp only [ownerOf, emptyCells_get]
  split
  · cases H.get h <;> simp
  · rfl

/-- `Allocate` of fresh handles is accepted and leads to the owners of the new heap -/
theorem ledger_allocCells (m : Mgr) (ls : List (List Elem)) (H : Heap) (hf : ∀ h, H.next ≤ h → H.get h = none) :
    ledgerRun (ownerOf H) ((allocCells m ls H).1.map (Ev.alloc m)) = some (ownerOf (allocCells m ls H).2) := by
  induction ls generalizing H with
  | nil => rfl
  | cons xs rest ih =>
    simp only [allocCells, List.map_cons, ledgerRun, ledgerStep]
    have h0 : ownerOf H H.next = none := by simp [ownerOf, hf H.next (Nat.le_refl _)]
    simp only [h0, if_true]
    rw [← ownerOf_alloc]
    apply ih
    intro h hh
    simp only [Heap.next_alloc] at hh
    have : ¬ h = H.next := by omega
    simp only [Heap.get_alloc, this, if_false]
    exact hf h (by omega)

/-- `Deallocate` of distinct live blocks through their allocating manager is accepted -/
theorem ledger_freeCells (m : Mgr) (hs : List Nat) (H : Heap) (nd : hs.Nodup) (hl : ∀ h ∈ hs, ownerOf H h = some m) :
    ledgerRun (ownerOf H) (hs.map (Ev.free m)) = some (ownerOf (freeCells hs H)) := by
  induction hs generalizing H with
  | nil => rfl
  | cons a r ih =>
    simp only [List.map_cons, ledgerRun, ledgerStep, hl a (by simp), if_true]
    rw [← ownerOf_free]
    have nd' := List.nodup_cons.mp nd
    have : freeCells (a :: r) H = freeCells r (H.free a) := rfl
    rw [this]
    apply ih (H.free a) nd'.2
    intro h hh
    have hne : h ≠ a := fun e => nd'.1 (e ▸ hh)
    rw [ownerOf_free]; simp only [OwnerMap.set, hne, if_false]
    exact hl h (by simp [hh])

theorem owner_of_live {w : World} (wf : WF w) {i : Nat} {c : Cont} {m : Mgr} (hi : w.objs i = some c) (hm : c.mgr = some m) :
    ∀ h ∈ c.owned, ownerOf w.heap h = some m := by
  intro h hh
  obtain ⟨cell, hg, hmm⟩ := (wf.ok i c hi).live h hh
  rw [hm] at hmm; cases hmm
  simp [ownerOf, hg]

/-- **every primitive step is accepted by the ledger**, and the ledger afterwards is the owner map of the new heap -/
theorem prim_ledger (k : Kind) {w w' : World} {evs : List Ev} (wf : WF w) (p : Prim)
    (h : p.exec k w = some (w', evs)) : ledgerRun (ownerOf w.heap) evs = some (ownerOf w'.heap) := by
  cases p with
  | new i m =>
    obtain ⟨hj, _⟩ := new_inv h
    rw [exec_new k w i m hj] at h
    simp only [Option.some.injEq, Prod.mk.injEq] at h
    obtain ⟨rfl, rfl⟩ := h
    exact ledger_allocCells m _ w.heap wf.fresh
  | copy j i m =>
    simp only [Prim.exec] at h
    split at h
    · rename_i s hj hi
      split at h
      · cases h
      · split at h
        · simp only [Option.some.injEq, Prod.mk.injEq] at h
          obtain ⟨rfl, rfl⟩ := h
          rw [ledgerRun_append, ledger_allocCells m _ w.heap wf.fresh]
          exact ledgerRun_neutral _ _ (neutral_copies _)
        · simp only [Option.some.injEq, Prod.mk.injEq] at h
          obtain ⟨rfl, rfl⟩ := h
          rw [ledgerRun_append, ledgerRun_append, ledger_allocCells m _ w.heap wf.fresh]
          simp only [Option.bind_some]
          rw [ledger_allocCells m _ _ (fresh_allocCells wf m _)]
          exact ledgerRun_neutral _ _ (neutral_copies _)
    · cases h
  | move j i =>
    obtain ⟨s, _, _, rfl, rfl⟩ := move_inv h
    exact ledgerRun_neutral _ _ (neutral_relocEvs _ _)
  | swap i j =>
    obtain ⟨a, b, _, _, rfl, rfl⟩ := swap_inv h
    rfl
  | destroy i =>
    cases hi : w.objs i with
    | none => simp [Prim.exec, hi] at h
    | some c =>
      cases hm : c.mgr with
      | none =>
        simp only [Prim.exec, hi, hm] at h
        split at h
        · simp only [Option.some.injEq, Prod.mk.injEq] at h
          obtain ⟨rfl, rfl⟩ := h
          rfl
        · cases h
      | some m =>
        obtain ⟨rfl, rfl⟩ := destroy_some_inv hi hm h
        rw [ledgerRun_append, ledgerRun_neutral _ _ (neutral_destroyEvs _ _)]
        exact ledger_freeCells m c.owned w.heap (wf.ok i c hi).nodup (owner_of_live wf hi hm)
  | clear i keep =>
    cases hi : w.objs i with
    | none => simp [Prim.exec, hi] at h
    | some c =>
      cases hm : c.mgr with
      | none =>
        simp only [Prim.exec, hi, hm] at h
        split at h
        · simp only [Option.some.injEq, Prod.mk.injEq] at h
          obtain ⟨rfl, rfl⟩ := h
          rfl
        · cases h
      | some m =>
        obtain ⟨rfl, rfl⟩ := clear_inv hi hm h
        rw [ledgerRun_append, ledgerRun_neutral _ _ (neutral_destroyEvs _ _)]
        simp only [Option.bind_some]
        have hnd : c.body.Nodup := by
          have := (wf.ok i c hi).nodup
          unfold Cont.owned at this
          exact (List.nodup_append.mp this).2.1
        rw [← ownerOf_emptyCells (c.body.take keep) w.heap]
        apply ledger_freeCells m _ _ (List.Nodup.sublist (List.drop_sublist keep c.body) hnd)
        intro h hh
        rw [ownerOf_emptyCells]
        exact owner_of_live wf hi hm h (List.mem_append.mpr (Or.inr (List.mem_of_mem_drop hh)))
  | setLayout i inl cells cap src =>
    obtain ⟨c, m, hi, hm, _, rfl, rfl⟩ := setLayout_inv h
    rw [ledgerRun_append, ledgerRun_append, ledgerRun_neutral _ _ (neutral_srcXfer _ _ _)]
    simp only [Option.bind_some]
    have hnd : c.body.Nodup := by
      have := (wf.ok i c hi).nodup
      unfold Cont.owned at this
      exact (List.nodup_append.mp this).2.1
    rw [ledger_freeCells m c.body w.heap hnd
      (fun h hh => owner_of_live wf hi hm h (List.mem_append.mpr (Or.inr hh)))]
    simp only [Option.bind_some]
    exact ledger_allocCells m cells _ (fresh_freeCells wf.fresh _)

theorem run_ledger (k : Kind) {w w' : World} {evs : List Ev} (wf : WF w) (ps : List Prim)
    (h : run k w ps = some (w', evs)) : ledgerRun (ownerOf w.heap) evs = some (ownerOf w'.heap) := by
  induction ps generalizing w evs with
  | nil => obtain ⟨rfl, rfl⟩ := run_nil_inv h; rfl
  | cons p ps ih =>
    obtain ⟨w1, e1, e2, h1, h2, rfl⟩ := run_cons_inv h
    rw [ledgerRun_append, prim_ledger k wf p h1]
    exact ih (prim_sound k wf p h1).1 h2

theorem step_ledger (cfg : Cfg) {w w' : World} {evs : List Ev} (wf : WF w) (op : Op)
    (h : step cfg w op = some (w', evs)) : ledgerRun (ownerOf w.heap) evs = some (ownerOf w'.heap) := by
  unfold step at h
  split at h
  · cases h
  · exact run_ledger cfg.k wf _ h

/-- a history with its whole event trace -/
def runOpsEv (cfg : Cfg) : World → List Op → Option (World × List Ev)
  | w, [] => some (w, [])
  | w, op :: ops =>
    match step cfg w op with
    | none => none
    | some (w1, e1) =>
      match runOpsEv cfg w1 ops with
      | none => none
      | some (w2, e2) => some (w2, e1 ++ e2)

theorem runOpsEv_fst (cfg : Cfg) (w : World) (ops : List Op) : (runOpsEv cfg w ops).map (·.1) = runOps cfg w ops := by
  induction ops generalizing w with
  | nil => rfl
  | cons op ops ih =>
    simp only [runOpsEv, runOps]
    cases step cfg w op with
    | none => rfl
    | some r =>
      obtain ⟨w1, e1⟩ := r
      simp only
      rw [← ih w1]
      cases runOpsEv cfg w1 ops with
      | none => rfl
      | some r2 => rfl

theorem runOpsEv_ledger (cfg : Cfg) {w w' : World} {evs : List Ev} (wf : WF w) (ops : List Op)
    (h : runOpsEv cfg w ops = some (w', evs)) : WF w' ∧ ledgerRun (ownerOf w.heap) evs = some (ownerOf w'.heap) := by
  induction ops generalizing w evs with
  | nil =>
    simp only [runOpsEv, Option.some.injEq, Prod.mk.injEq] at h
    obtain ⟨rfl, rfl⟩ := h
    exact ⟨wf, rfl⟩
  | cons op ops ih =>
    simp only [runOpsEv] at h
    split at h
    · cases h
    · rename_i w1 e1 h1
      split at h
      · cases h
      · rename_i w2 e2 h2
        simp only [Option.some.injEq, Prod.mk.injEq] at h
        obtain ⟨rfl, rfl⟩ := h
        obtain ⟨wf2, l2⟩ := ih (step_sound cfg wf op h1).1 h2
        refine ⟨wf2, ?_⟩
        rw [ledgerRun_append, step_ledger cfg wf op h1]
        exact l2

theorem ownerOf_empty : ownerOf Heap.empty = fun _ => none := by
  funext h; rfl

/-! ### no orphan blocks: every live block is owned by a live object -/

/-- every live block is referred to by some live object (with `WF`: by exactly one) -/
def Tight (w : World) : Prop := ∀ h cell, w.heap.get h = some cell → ∃ i c, w.objs i = some c ∧ h ∈ c.owned

theorem Tight.init : Tight World.init := by intro h cell hg; cases hg

theorem get_lt_next {w : World} (wf : WF w) {h : Nat} {cell : Cell} (hg : w.heap.get h = some cell) : h < w.heap.next := by
  apply Decidable.byContradiction; intro hn
  rw [wf.fresh h (by omega)] at hg; cases hg

/-- a block that is live after `allocCells` is an old live block or one of the new handles -/
theorem allocCells_live {m : Mgr} {ls : List (List Elem)} {H : Heap} (hf : ∀ h, H.next ≤ h → H.get h = none)
    {h : Nat} {cell : Cell} (hg : (allocCells m ls H).2.get h = some cell) :
    (h < H.next ∧ H.get h = some cell) ∨ h ∈ (allocCells m ls H).1 := by
  by_cases hlt : h < H.next
  · left; rw [allocCells_get_old m ls H h hlt] at hg; exact ⟨hlt, hg⟩
  · right
    apply mem_allocCells_fst.mpr
    refine ⟨by omega, ?_⟩
    apply Decidable.byContradiction; intro hn
    rw [allocCells_get_fresh m ls H hf h (by omega)] at hg; cases hg

theorem prim_tight (k : Kind) {w w' : World} {evs : List Ev} (wf : WF w) (tt : Tight w) (p : Prim)
    (h : p.exec k w = some (w', evs)) : Tight w' := by
  cases p with
  | new i m =>
    obtain ⟨hj, _⟩ := new_inv h
    rw [exec_new k w i m hj] at h
    simp only [Option.some.injEq, Prod.mk.injEq] at h
    obtain ⟨rfl, rfl⟩ := h
    intro x cell hg
    rcases allocCells_live wf.fresh hg with ⟨_, hold⟩ | hnew
    · obtain ⟨y, c, hc, hm⟩ := tt x cell hold
      have : y ≠ i := by intro e; subst e; rw [hj] at hc; cases hc
      exact ⟨y, c, by simp [upd, this, hc], hm⟩
    · exact ⟨i, _, upd_same _ _ _, by simpa [Cont.owned] using hnew⟩
  | copy j i m =>
    simp only [Prim.exec] at h
    split at h
    · rename_i s hj hi
      split at h
      · cases h
      · have old : ∀ x cell, w.heap.get x = some cell → ∀ t, ∃ y c, upd w.objs j (some t) y = some c ∧ x ∈ c.owned := by
          intro x cell hold t
          obtain ⟨y, c, hc, hm⟩ := tt x cell hold
          have : y ≠ j := by intro e; subst e; rw [hj] at hc; cases hc
          exact ⟨y, c, by simp [upd, this, hc], hm⟩
        split at h
        · simp only [Option.some.injEq, Prod.mk.injEq] at h
          obtain ⟨rfl, rfl⟩ := h
          intro x cell hg
          rcases allocCells_live wf.fresh hg with ⟨_, hold⟩ | hnew
          · exact old x cell hold _
          · exact ⟨j, _, upd_same _ _ _, by simpa [Cont.owned] using hnew⟩
        · simp only [Option.some.injEq, Prod.mk.injEq] at h
          obtain ⟨rfl, rfl⟩ := h
          intro x cell hg
          rcases allocCells_live (fresh_allocCells wf m _) hg with ⟨_, hg1⟩ | hnew
          · rcases allocCells_live wf.fresh hg1 with ⟨_, hold⟩ | hnew
            · exact old x cell hold _
            · exact ⟨j, _, upd_same _ _ _, by simp [Cont.owned, hnew]⟩
          · exact ⟨j, _, upd_same _ _ _, by simp [Cont.owned, hnew]⟩
    · cases h
  | move j i =>
    obtain ⟨s, hi, hj, rfl, rfl⟩ := move_inv h
    have hij : i ≠ j := by intro e; subst e; rw [hj] at hi; cases hi
    intro x cell hg
    obtain ⟨y, c, hc, hm⟩ := tt x cell hg
    by_cases hy : y = i
    · subst hy; rw [hi] at hc; cases hc
      exact ⟨j, _, by simp [upd], hm⟩
    · have hyj : y ≠ j := by intro e; subst e; rw [hj] at hc; cases hc
      exact ⟨y, c, by simp [upd, hy, hyj, hc], hm⟩
  | swap i j =>
    obtain ⟨a, b, hi, hj, rfl, rfl⟩ := swap_inv h
    intro x cell hg
    obtain ⟨y, c, hc, hm⟩ := tt x cell hg
    by_cases hyi : y = i
    · subst hyi; rw [hi] at hc; cases hc
      exact ⟨j, _, by simp [upd], hm⟩
    · by_cases hyj : y = j
      · subst hyj; rw [hj] at hc; cases hc
        have hij : i ≠ y := fun e => hyi e.symm
        exact ⟨i, _, by simp [upd, hij], hm⟩
      · exact ⟨y, c, by simp [upd, hyi, hyj, hc], hm⟩
  | destroy i =>
    obtain ⟨c, hi, ho, _, hgo, _⟩ := destroy_inv h
    intro x cell hg
    cases hm : c.mgr with
    | none =>
      simp only [Prim.exec, hi, hm] at h
      split at h
      · rename_i hnull
        simp only [Option.some.injEq, Prod.mk.injEq] at h
        obtain ⟨rfl, _⟩ := h
        obtain ⟨y, d, hd, hmem⟩ := tt x cell hg
        have : y ≠ i := by intro e; subst e; rw [hi] at hd; cases hd; simp [hnull.1] at hmem
        exact ⟨y, d, by simp [upd, this, hd], hmem⟩
      · cases h
    | some m =>
      obtain ⟨rfl, _⟩ := destroy_some_inv hi hm h
      have hx : x ∉ c.owned := by
        intro hx
        have : (freeCells c.owned w.heap).get x = none := by rw [freeCells_get]; simp [hx]
        rw [this] at hg; cases hg
      have hold : w.heap.get x = some cell := by
        have : (freeCells c.owned w.heap).get x = w.heap.get x := by rw [freeCells_get]; simp [hx]
        rw [← this]; exact hg
      obtain ⟨y, d, hd, hmem⟩ := tt x cell hold
      have : y ≠ i := by intro e; subst e; rw [hi] at hd; cases hd; exact hx hmem
      exact ⟨y, d, by simp [upd, this, hd], hmem⟩
  | clear i keep =>
    cases hi : w.objs i with
    | none => simp [Prim.exec, hi] at h
    | some c =>
      cases hm : c.mgr with
      | none =>
        simp only [Prim.exec, hi, hm] at h
        split at h
        · simp only [Option.some.injEq, Prod.mk.injEq] at h
          obtain ⟨rfl, _⟩ := h
          exact tt
        · cases h
      | some m =>
        obtain ⟨rfl, _⟩ := clear_inv hi hm h
        intro x cell hg
        have hg' : (freeCells (c.body.drop keep) (emptyCells (c.body.take keep) w.heap)).get x = some cell := hg
        rw [freeCells_get] at hg'
        by_cases hd : x ∈ c.body.drop keep
        · simp [hd] at hg'
        · simp only [hd, if_false, emptyCells_get] at hg'
          have hlive : ∃ cell0, w.heap.get x = some cell0 := by
            cases hw : w.heap.get x with
            | none => simp [hw] at hg'
            | some c0 => exact ⟨c0, rfl⟩
          obtain ⟨cell0, hold⟩ := hlive
          obtain ⟨y, d, hdd, hmem⟩ := tt x cell0 hold
          by_cases hy : y = i
          · subst hy; rw [hi] at hdd; cases hdd
            refine ⟨y, _, upd_same _ _ _, ?_⟩
            have hmem : x ∈ c.aux ∨ x ∈ c.body := by simpa [Cont.owned] using hmem
            show x ∈ c.aux ++ c.body.take keep
            rcases hmem with hmem | hmem
            · exact List.mem_append.mpr (Or.inl hmem)
            · rw [← List.take_append_drop keep c.body] at hmem
              rcases List.mem_append.mp hmem with hmem | hmem
              · exact List.mem_append.mpr (Or.inr hmem)
              · exact absurd hmem hd
          · exact ⟨y, d, by simp [upd, hy, hdd], hmem⟩
  | setLayout i inl cells cap src =>
    obtain ⟨c, m, hi, hm, _, rfl, _⟩ := setLayout_inv h
    intro x cell hg
    rcases allocCells_live (fresh_freeCells wf.fresh _) hg with ⟨_, hg1⟩ | hnew
    · rw [freeCells_get] at hg1
      by_cases hb : x ∈ c.body
      · simp [hb] at hg1
      · simp only [hb, if_false] at hg1
        obtain ⟨y, d, hd, hmem⟩ := tt x cell hg1
        by_cases hy : y = i
        · subst hy; rw [hi] at hd; cases hd
          refine ⟨y, _, upd_same _ _ _, ?_⟩
          have hmem : x ∈ c.aux ∨ x ∈ c.body := by simpa [Cont.owned] using hmem
          rcases hmem with hmem | hmem
          · exact List.mem_append.mpr (Or.inl hmem)
          · exact absurd hmem hb
        · exact ⟨y, d, by simp [upd, hy, hd], hmem⟩
    · exact ⟨i, _, upd_same _ _ _, List.mem_append.mpr (Or.inr hnew)⟩

theorem run_tight (k : Kind) {w w' : World} {evs : List Ev} (wf : WF w) (tt : Tight w) (ps : List Prim)
    (h : run k w ps = some (w', evs)) : Tight w' := by
  induction ps generalizing w evs with
  | nil => obtain ⟨rfl, _⟩ := run_nil_inv h; exact tt
  | cons p ps ih =>
    obtain ⟨w1, e1, e2, h1, h2, _⟩ := run_cons_inv h
    exact ih (prim_sound k wf p h1).1 (prim_tight k wf tt p h1) h2

theorem step_tight (cfg : Cfg) {w w' : World} {evs : List Ev} (wf : WF w) (tt : Tight w) (op : Op)
    (h : step cfg w op = some (w', evs)) : Tight w' := by
  unfold step at h
  split at h
  · cases h
  · exact run_tight cfg.k wf tt _ h

theorem runOps_tight (cfg : Cfg) {w w' : World} (wf : WF w) (tt : Tight w) (ops : List Op)
    (h : runOps cfg w ops = some w') : Tight w' := by
  induction ops generalizing w with
  | nil => simp only [runOps, Option.some.injEq] at h; subst h; exact tt
  | cons op ops ih =>
    simp only [runOps] at h
    split at h
    · cases h
    · rename_i w1 e1 h1
      exact ih (step_sound cfg wf op h1).1 (step_tight cfg wf tt op h1) h

end Momo.Val
