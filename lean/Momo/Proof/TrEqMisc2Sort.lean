import Momo.Translated
import Momo.Translated.Misc
import Momo.Proof.SegMachine
import Momo.Proof.SortArith
import Momo.Proof.TrEqMisc
/-!
  C17: the integer kernels of `HashSorter` / `RadixSorter` as translated from the headers (area Misc,
  lean/Momo/Translated/Misc.lean) are the model functions of `Momo/Model/Sort.lean`:
  `pvMultShift = multShift`, `pvCompare = pvCompare`, `pvGetRadix = getRadix`, the shift clamp of `RadixSorter::Sort`,
  `nextShift`, `selectionSortMaxCount`, `radixCount`, and the index updates of `pvFindHash`, `pvExponentialSearch`,
  `pvBinarySearch` are the expressions the model loops (`findHashLoop`, `expLoop`, `binLoop`) use.
  The generated definitions are rewritten by tools/translate.py from the current headers on every check; a changed
  function body makes the equalities below fail to elaborate.
-/
namespace Momo.TrEq
open Momo Momo.Seg

/-! ### HashSorter.h -/

/-- `pvMultShift`: every 64-bit product and sum wraps in the translation exactly where the model wraps — no hypothesis. -/
theorem tr_multShift (v1 v2 : Nat) : Tr.hs_pvMultShift v1 v2 = Sort.multShift v1 v2 := by
  have hm : Seg.sub64 (Seg.shl64 1 32) 1 = 2 ^ 32 - 1 := by decide
  unfold Tr.hs_pvMultShift Sort.multShift
  simp only [hm, Seg.add64, Seg.mul64, w64_eq, Sort.w64, Sort.halfSize, Sort.halfMask, Extracted.hsHalfSizeFactor]

theorem tr_pvCompare (v1 v2 : Nat) : Tr.hs_pvCompare v1 v2 = Sort.pvCompare v1 v2 := by
  unfold Tr.hs_pvCompare Sort.pvCompare
  by_cases h1 : v1 < v2
  · simp [h1]
  · by_cases h2 : v1 = v2 <;> simp [h1, h2]

theorem tr_findHash_start (h n : Nat) : Tr.hs_findHash_start h n = Sort.multShift h n := tr_multShift h n

/-- `middleIndex += pvMultShift(itemHash - middleHash, count)`: the model's unbounded `mid + multShift (h - mh) n`
    when `middleHash ≤ itemHash` (the branch condition) and the sum is a `size_t`. -/
theorem tr_findHash_up (mid h mh n : Nat) (hle : mh ≤ h) (hw : mid + Sort.multShift (h - mh) n < 2 ^ 64) :
    Tr.hs_findHash_up mid h mh n = mid + Sort.multShift (h - mh) n := by
  unfold Tr.hs_findHash_up
  rw [tr_multShift, sub64_of_le hle, add64_of_lt hw]

/-- the sum is a `size_t` for every sequence of at most 2^63 items: `pvMultShift(d, n) < n` -/
theorem findHash_up_fits (mid h mh n : Nat) (hh : h < 2 ^ 64) (hmid : mid < n) (hn : n ≤ 2 ^ 63) :
    mid + Sort.multShift (h - mh) n < 2 ^ 64 := by
  have := Sort.multShift_lt (h - mh) n (by omega) (by omega)
  omega

theorem tr_findHash_diff (h mh n : Nat) (hle : h ≤ mh) : Tr.hs_findHash_diff h mh n = Sort.multShift (mh - h) n := by
  unfold Tr.hs_findHash_diff
  rw [tr_multShift, sub64_of_le hle]

theorem tr_findHash_downBreak (l d m : Nat) (hw : l + d < 2 ^ 64) : Tr.hs_findHash_downBreak l d m = decide (l + d > m) := by
  unfold Tr.hs_findHash_downBreak
  rw [add64_of_lt hw]

theorem tr_findHash_down (m d : Nat) (hle : d ≤ m) : Tr.hs_findHash_down m d = m - d := by
  unfold Tr.hs_findHash_down
  rw [sub64_of_le hle]

theorem tr_expSearch_next (i : Nat) (hw : i * 2 + 2 < 2 ^ 64) : Tr.hs_expSearch_next i = i * 2 + 2 := by
  unfold Tr.hs_expSearch_next
  rw [mul64_of_lt (by omega), add64_of_lt hw]

theorem tr_binSearch_middle (l r : Nat) (hw : l + r < 2 ^ 64) : Tr.hs_binSearch_middle l r = (l + r) / 2 := by
  unfold Tr.hs_binSearch_middle
  rw [add64_of_lt hw]

/-! ### the model loops, one iteration, written with the translated index arithmetic -/

/-- one iteration of the `while (true)` loop of `pvFindHash` (model `Sort.findHashLoop`) with every index computation
    replaced by the code translated from the header. Hypotheses: what holds in the C++ at that point — the hashes are
    `size_t`, `leftIndex ≤ middleIndex < count ≤ 2^63`. -/
theorem findHashLoop_translated {σ α : Type} (M : Sort.Mem σ α) (s : σ) (count itemHash f step left right mid mh : Nat)
    (hc : M.code s mid = some mh) (hh : itemHash < 2 ^ 64) (hmh : mh < 2 ^ 64)
    (hl : left ≤ mid) (hmid : mid < count) (hn : count ≤ 2 ^ 63) :
    Sort.findHashLoop M s count itemHash (f + 1) step left right mid =
      if mh < itemHash then
        if step = 0 then
          (Sort.csub right (mid + 1)).bind fun n =>
            (Sort.exponentialSearch (Sort.hashCmp (M.fwd s (mid + 1)) itemHash) n).map fun r => (mid + 1 + r.1, r.2)
        else if Tr.hs_findHash_up mid itemHash mh count ≥ right then
          (Sort.csub right (mid + 1)).bind fun n => Sort.binarySearchAt (Sort.hashCmp (M.fwd s 0) itemHash) (mid + 1) n
        else Sort.findHashLoop M s count itemHash f (step - 1) (mid + 1) right (Tr.hs_findHash_up mid itemHash mh count)
      else if mh > itemHash then
        if step = 0 then
          (Sort.csub mid left).bind fun n =>
            (Sort.exponentialSearch (Sort.revHashCmp (M.rev s mid) itemHash) n).bind fun r =>
              (Sort.csub mid (r.1 + (if r.2 then 1 else 0))).map fun idx => (idx, r.2)
        else if Tr.hs_findHash_downBreak left (Tr.hs_findHash_diff itemHash mh count) mid = true then
          (Sort.csub mid left).bind fun n => Sort.binarySearchAt (Sort.hashCmp (M.fwd s 0) itemHash) left n
        else Sort.findHashLoop M s count itemHash f (step - 1) left mid
          (Tr.hs_findHash_down mid (Tr.hs_findHash_diff itemHash mh count))
      else some (mid, true) := by
  rw [Sort.findHashLoop, hc]
  simp only [Option.bind_some]
  by_cases h1 : mh < itemHash
  · simp only [if_pos h1]
    rw [tr_findHash_up mid itemHash mh count (by omega) (findHash_up_fits mid itemHash mh count hh hmid hn)]
  · simp only [if_neg h1]
    by_cases h2 : mh > itemHash
    · simp only [if_pos h2]
      have hd : Sort.multShift (mh - itemHash) count < count := Sort.multShift_lt _ _ (by omega) (by omega)
      rw [tr_findHash_diff itemHash mh count (by omega), tr_findHash_downBreak _ _ _ (by omega)]
      simp only [decide_eq_true_eq]
      by_cases h3 : step = 0
      · simp only [if_pos h3]
      · simp only [if_neg h3]
        by_cases h4 : left + Sort.multShift (mh - itemHash) count > mid
        · simp only [if_pos h4]
        · simp only [if_neg h4]
          rw [tr_findHash_down _ _ (by omega)]
    · simp only [if_neg h2]

/-- `pvFindHash` itself: the start of the loop uses the translated `pvGetStepCount` and `pvMultShift(itemHash, count)` -/
theorem findHash_translated {σ α : Type} (M : Sort.Mem σ α) (s : σ) (count itemHash : Nat) :
    Sort.findHash M s count itemHash =
      if count = 0 then some (0, false)
      else Sort.findHashLoop M s count itemHash (Tr.hs_pvGetStepCount count + 1) (Tr.hs_pvGetStepCount count) 0 count
        (Tr.hs_findHash_start itemHash count) := by
  rw [tr_stepCount, tr_findHash_start]
  rfl

/-- one iteration of the `for` loop of `pvExponentialSearch` (model `Sort.expLoop`): the next probe index is the
    translated `i = i * 2 + 2` (`i < count ≤ 2^62`, so nothing wraps) -/
theorem expLoop_translated (cmp : Sort.Cmp) (count f i left : Nat) (hi : i < count) (hn : count ≤ 2 ^ 62) :
    Sort.expLoop cmp count (f + 1) i left =
      (cmp i).bind fun c =>
        if c > 0 then (Sort.csub i left).bind fun n => Sort.binarySearchAt cmp left n
        else if c = 0 then some (i, true)
        else Sort.expLoop cmp count f (Tr.hs_expSearch_next i) (i + 1) := by
  rw [Sort.expLoop, if_pos hi, tr_expSearch_next i (by omega)]

/-- one iteration of the loop of `pvBinarySearch` (model `Sort.binLoop`): the probe index is the translated
    `(leftIndex + rightIndex) / 2` (`leftIndex < rightIndex ≤ 2^63`, so the sum does not wrap) -/
theorem binLoop_translated (cmp : Sort.Cmp) (f l r : Nat) (hlr : l < r) (hr : r ≤ 2 ^ 63) :
    Sort.binLoop cmp (f + 1) l r =
      (cmp (Tr.hs_binSearch_middle l r)).bind fun c =>
        if c < 0 then Sort.binLoop cmp f (Tr.hs_binSearch_middle l r + 1) r
        else if c > 0 then Sort.binLoop cmp f l (Tr.hs_binSearch_middle l r)
        else some (Tr.hs_binSearch_middle l r, true) := by
  rw [Sort.binLoop, if_pos hlr, tr_binSearch_middle l r (by omega)]

/-! ### RadixSorter.h -/

theorem tr_getRadix (R code shift : Nat) (hR : R < 64) : Tr.rs_pvGetRadix R code shift = Sort.getRadix R code shift := by
  unfold Tr.rs_pvGetRadix Sort.getRadix
  have := mask64_eq hR
  unfold mask64 at this
  rw [this]

theorem tr_radixCount (R : Nat) (hR : R < 64) : Tr.rs_radixCount R = 2 ^ R := shl64_one hR

theorem tr_selectionSortMaxCount (R : Nat) (hR : R < 126) : Tr.rs_selectionSortMaxCount R = Sort.selectionSortMaxCount R := by
  unfold Tr.rs_selectionSortMaxCount Sort.selectionSortMaxCount
  simp only [Extracted.rsSelDiv, Extracted.rsSelAdd]
  rw [add64_of_lt (by omega), shl64_one (by omega)]

/-- the `shift` argument `RadixSorter::Sort` passes to `pvSort`, clamp included: the model's
    `if W > R then W - R else 0` for codes of `W = 8 * sizeof(Code)` bits -/
theorem tr_sortShift (R sz : Nat) (hsz : sz < 2 ^ 61) :
    Tr.rs_Sort_shift R sz = if 8 * sz > R then 8 * sz - R else 0 := by
  unfold Tr.rs_Sort_shift
  rw [mul64_of_lt (by omega)]
  by_cases h : 8 * sz > R
  · simp only [h, decide_true, if_true]
    rw [sub64_of_le (by omega)]
  · simp [h]

theorem tr_nextShift (R shift : Nat) : Tr.rs_nextShift R shift = Sort.nextShift R shift := by
  unfold Tr.rs_nextShift Sort.nextShift
  by_cases h : shift > R
  · simp only [h, decide_true, if_true]
    rw [sub64_of_le (by omega)]
  · simp [h]

end Momo.TrEq
