import Momo.Proof.ArrFaultShift
/-!
  C10, lemmas part 4: positional insert / remove of `momo::Array` (basic guarantee) under every fault schedule:
  success with the state of the fault-free model `Momo.Arr`; after an exception a valid array (`WF`: count within
  capacity, storage consistent) whose ledger is exactly what it owns (as many constructed objects as cells, its own
  block, no bad deallocation / destruction), with the count between the old and the intended new count.
-/
namespace Momo.ArrF
set_option linter.unusedSimpArgs false
set_option linter.unusedVariables false
open Momo Momo.Arr
open FM (throw tryCatch)
variable {α β γ : Type}

/-- a valid array whose ledger is exactly what it owns, plus `k` other objects and the blocks `rest` -/
structure Valid (cfg : Cfg) (rest : List Nat) (k : Nat) (x : Sys α) : Prop where
  wf : WF cfg x.arr
  frame : Frame cfg rest x
  objs : x.objs = x.arr.cells.length + k
  good : x.bad = false

theorem Valid.owns {cfg : Cfg} {rest : List Nat} {k : Nat} {x : Sys α} (v : Valid cfg rest k x) : Owns cfg rest k x :=
  ⟨v.frame, v.objs, v.good⟩

theorem valid_of_core {cfg : Cfg} {rest : List Nat} {k : Nat} {x y : Sys α} (v : Valid cfg rest k x) (h : y.core = x.core) :
    Valid cfg rest k y := by
  simp only [core_eq_iff] at h
  obtain ⟨ha, hb, ho, hbad⟩ := h
  exact ⟨ha ▸ v.wf, frame_of_eq v.frame ha hb, by rw [ho, ha]; exact v.objs, hbad.trans v.good⟩

/-- a program of the shifter on an array with room for the items it appends -/
theorem shift_basic (cfg : Cfg) (thr : Thr) (rest : List Nat) (k : Nat) (ps : List (Prim α)) (x : Sys α)
    (v : Valid cfg rest k x) (room : x.arr.cells.length + adds ps ≤ capacity cfg x.arr) :
    Post (execPrims cfg thr ps) x
      (fun _ y => y.arr = { x.arr with cells := runPrims cfg.keeps x.arr.cells ps } ∧ Valid cfg rest k y)
      (fun y => Valid cfg rest k y ∧ x.arr.cells.length ≤ y.arr.cells.length ∧
        y.arr.cells.length ≤ x.arr.cells.length + adds ps) := by
  apply Post.mono (execPrims_spec cfg thr ps x)
  · rintro _ y ⟨ya, yb, yo, ybad⟩
    refine ⟨ya, ?_, ?_, ?_, ybad.trans v.good⟩
    · rw [ya]; exact wf_with_cells v.wf _ (by rw [runPrims_length]; exact room)
    · have := v.frame; unfold Frame at *; rw [ya, yb, this]; rfl
    · rw [yo, ya, v.objs]; simp only [runPrims_length]; omega
  · rintro y ⟨n, hn, ya, yb, yo, ybad⟩
    have hle := adds_take_le ps n
    refine ⟨⟨?_, ?_, ?_, ybad.trans v.good⟩, ?_, ?_⟩
    · rw [ya]; exact wf_with_cells v.wf _ (by rw [runPrims_length]; omega)
    · have := v.frame; unfold Frame at *; rw [ya, yb, this]; rfl
    · rw [yo, ya, v.objs]; simp only [runPrims_length]; omega
    · rw [ya]; simp only [runPrims_length]; omega
    · rw [ya]; simp only [runPrims_length]; omega

theorem shiftNF_basic (cfg : Cfg) (thr : Thr) (rest : List Nat) (k : Nat) (index count : Nat) (item : Ref α) (x : Sys α)
    (v : Valid cfg rest k x) (hi : index ≤ x.arr.cells.length) (room : x.arr.cells.length + count ≤ capacity cfg x.arr) :
    Post (shiftNF cfg thr index count item) x
      (fun _ y => y.arr = { x.arr with cells := insertNogrowN cfg.keeps x.arr.cells index count item } ∧ Valid cfg rest k y)
      (fun y => Valid cfg rest k y ∧ x.arr.cells.length ≤ y.arr.cells.length ∧
        y.arr.cells.length ≤ x.arr.cells.length + count) := by
  unfold shiftNF
  simp only [post_getArr_bind]
  have := shift_basic cfg thr rest k (progN x.arr.cells.length index count item) x v (by rw [adds_progN _ _ _ _ hi]; exact room)
  rw [runPrims_progN, adds_progN _ _ _ _ hi] at this
  exact this

theorem shiftRF_basic (cfg : Cfg) (thr : Thr) (rest : List Nat) (k : Nat) (mv : Bool) (index : Nat) (rs : List (Ref α))
    (x : Sys α) (v : Valid cfg rest k x) (hi : index ≤ x.arr.cells.length)
    (room : x.arr.cells.length + rs.length ≤ capacity cfg x.arr) :
    Post (shiftRF cfg thr mv index rs) x
      (fun _ y => y.arr = { x.arr with cells := insertNogrowR cfg.keeps mv x.arr.cells index rs } ∧ Valid cfg rest k y)
      (fun y => Valid cfg rest k y ∧ x.arr.cells.length ≤ y.arr.cells.length ∧
        y.arr.cells.length ≤ x.arr.cells.length + rs.length) := by
  unfold shiftRF
  simp only [post_getArr_bind]
  have := shift_basic cfg thr rest k (progR mv x.arr.cells.length index rs) x v (by rw [adds_progR _ _ _ _ hi]; exact room)
  rw [runPrims_progR, adds_progR _ _ _ _ hi] at this
  exact this

/-- `pvGrow` on a valid array: grown and valid, or unchanged -/
theorem growF_valid (cfg : Cfg) (thr : Thr) (rest : List Nat) (k : Nat) (minNew : Nat) (x : Sys α)
    (v : Valid cfg rest k x) (h : capacity cfg x.arr < minNew) (hlen : x.arr.cells.length ≤ minNew) :
    Post (growF cfg thr minNew false) x
      (fun _ y => y.arr = (grow cfg x.arr minNew false).1 ∧ Valid cfg rest k y ∧ y.arr.cells = x.arr.cells ∧
        minNew ≤ capacity cfg y.arr)
      (fun y => y.core = x.core) := by
  apply Post.mono (growF_spec cfg thr minNew false x rest v.wf v.frame h) _ (fun _ h => h)
  rintro _ y ⟨ya, yf, yo, ybad⟩
  obtain ⟨w', hc⟩ := grow_wf cfg x.arr minNew false v.wf hlen
  have hcells := grow_cells cfg x.arr minNew false (by omega)
  refine ⟨ya, ⟨ya ▸ w', yf, ?_, ybad.trans v.good⟩, ?_, ?_⟩
  · rw [yo, v.objs, ya, hcells]
  · rw [ya, hcells]
  · rw [ya]; exact hc

/-- leaving the scope of an `ArrayItemHandler` / `ItemHandler` -/
theorem valid_drop {cfg : Cfg} {rest : List Nat} {k : Nat} {y : Sys α} (v : Valid cfg rest (k + 1) y) :
    Valid cfg rest k { y with objs := y.objs - 1, bad := y.bad || decide (y.objs < 1) } := by
  refine ⟨v.wf, v.frame, ?_, ?_⟩
  · have := v.objs; simp only; omega
  · have h1 := v.objs; have h2 := v.good
    simp only [h2, Bool.false_or, decide_eq_false_iff_not]; omega

/-- `{ handler; try body } ~handler`: the body's outcome with one object less -/
theorem handler_scope {cfg : Cfg} {rest : List Nat} {k : Nat} (body : FM α Unit) (x : Sys α)
    (P R : State α → Prop)
    (h : Post body x (fun _ y => Valid cfg rest (k + 1) y ∧ P y.arr) (fun y => Valid cfg rest (k + 1) y ∧ R y.arr)) :
    Post (do tryCatch body (undo 1); destroyObjs 1) x
      (fun _ y => Valid cfg rest k y ∧ P y.arr) (fun y => Valid cfg rest k y ∧ R y.arr) := by
  apply Post.bind (fun _ y => Valid cfg rest (k + 1) y ∧ P y.arr)
  · apply Post.tryCatch _ h
    rintro y ⟨v, hr⟩
    simp only [post_undo]
    exact ⟨valid_drop v, hr⟩
  · rintro _ y ⟨v, hp⟩
    simp only [post_destroyObjs]
    exact ⟨valid_drop v, hp⟩

/-- outcome of an operation with the basic guarantee that may add up to `count` items -/
def Basic (cfg : Cfg) (rest : List Nat) (k : Nat) (m : FM α Unit) (x : Sys α) (s' : State α) (count : Nat) : Prop :=
  Post m x (fun _ y => y.arr = s' ∧ Valid cfg rest k y)
    (fun y => Valid cfg rest k y ∧ x.arr.cells.length ≤ y.arr.cells.length ∧
      y.arr.cells.length ≤ x.arr.cells.length + count)

theorem insertCrtF_basic (cfg : Cfg) (thr : Thr) (rest : List Nat) (k : Nat) (index : Nat) (mv : Bool) (item : Ref α)
    (x : Sys α) (v : Valid cfg rest k x) (hi : index ≤ x.arr.cells.length) :
    Basic cfg rest k (insertCrtF cfg thr index mv item) x (insertCrt cfg x.arr index mv item).1 1 := by
  unfold Basic insertCrtF insertCrt
  simp only [post_getArr_bind]
  apply Post.bind' _ _ (construct_spec _ x)
  · intro y hy
    have := (core_eq_iff _ _).mp hy
    exact ⟨valid_of_core v hy, by rw [this.1]; omega, by rw [this.1]; omega⟩
  · intro _ y hy
    simp only [core_eq_mk, core_arr, core_blocks, core_bad] at hy
    obtain ⟨ya, yb, yo, ybad⟩ := hy
    simp only [post_modifyCells_bind, ya]
    have hlen : (item.taken cfg.keeps mv x.arr.cells).length = x.arr.cells.length := taken_length _ _ _ _
    have v1 : Valid cfg rest (k + 1)
        { y with arr := { x.arr with cells := item.taken cfg.keeps mv x.arr.cells } } := by
      refine ⟨wf_with_cells v.wf _ (by rw [hlen]; exact v.wf.count_le), ?_, ?_, ybad.trans v.good⟩
      · have := v.frame; unfold Frame at *; simp only [ownBlocks_cells]; rw [yb, this]
      · simp only [hlen, yo, v.objs]; omega
    apply Post.mono (handler_scope (cfg := cfg) (rest := rest) (k := k) _ _
      (fun s => s = (insertCrt cfg x.arr index mv item).1)
      (fun s => x.arr.cells.length ≤ s.cells.length ∧ s.cells.length ≤ x.arr.cells.length + 1) ?_)
    · rintro _ z ⟨vz, hz⟩
      unfold insertCrt at hz
      exact ⟨hz, vz⟩
    · rintro z ⟨vz, hz⟩
      exact ⟨vz, hz⟩
    · split
      · rename_i hg
        have hgv := growF_valid cfg thr rest (k + 1) (x.arr.cells.length + 1) _ v1 (by show capacity cfg x.arr < _; omega)
          (by simp only [hlen]; omega)
        apply Post.bind' _ _ hgv
        · intro z hz
          have := (core_eq_iff _ _).mp hz
          refine ⟨valid_of_core v1 hz, ?_, ?_⟩ <;> rw [this.1] <;> simp only [hlen] <;> omega
        · rintro _ z ⟨za, vz, zc, zcap⟩
          simp only at zc
          have hzl : z.arr.cells.length = x.arr.cells.length := by rw [zc, hlen]
          apply Post.mono (shiftRF_basic cfg thr rest (k + 1) true index [.ext (item.read x.arr.cells)] z vz
            (by omega) (by simp only [List.length_cons, List.length_nil]; omega))
          · rintro _ u ⟨ua, vu⟩
            refine ⟨vu, ?_⟩
            rw [ua, za, insertCrt, if_pos hg]
            rfl
          · rintro u ⟨vu, h1, h2⟩
            simp only [List.length_cons, List.length_nil] at h2
            exact ⟨vu, by omega, by omega⟩
      · rename_i hg
        apply Post.mono (shiftRF_basic cfg thr rest (k + 1) true index [.ext (item.read x.arr.cells)] _ v1
          (by simp only [hlen]; exact hi)
          (by simp only [hlen, List.length_cons, List.length_nil]; show _ ≤ capacity cfg x.arr; omega))
        · rintro _ u ⟨ua, vu⟩
          refine ⟨vu, ?_⟩
          rw [ua, insertCrt, if_neg hg]
        · rintro u ⟨vu, h1, h2⟩
          simp only [hlen, List.length_cons, List.length_nil] at h1 h2
          exact ⟨vu, by omega, by omega⟩

theorem insertMoveF_basic (cfg : Cfg) (thr : Thr) (rest : List Nat) (k : Nat) (index : Nat) (item : Ref α)
    (x : Sys α) (v : Valid cfg rest k x) (hi : index ≤ x.arr.cells.length) :
    Basic cfg rest k (insertMoveF cfg thr index item) x (insertMove cfg x.arr index item).1 1 := by
  unfold insertMoveF insertMove
  unfold Basic
  simp only [post_getArr_bind]
  split
  · exact insertCrtF_basic cfg thr rest k index true item x v hi
  · rename_i h
    simp only [Bool.or_eq_true, decide_eq_true_eq, not_or, Nat.not_lt] at h
    apply Post.mono (shiftRF_basic cfg thr rest k true index [item] x v hi
      (by simp only [List.length_cons, List.length_nil]; omega))
    · rintro _ y ⟨ya, vy⟩
      exact ⟨ya, vy⟩
    · rintro y ⟨vy, h1, h2⟩
      simp only [List.length_cons, List.length_nil] at h2
      exact ⟨vy, h1, by omega⟩

theorem insertNF_basic (cfg : Cfg) (thr : Thr) (rest : List Nat) (k : Nat) (index count : Nat) (item : Ref α)
    (x : Sys α) (v : Valid cfg rest k x) (hi : index ≤ x.arr.cells.length) :
    Basic cfg rest k (insertNF cfg thr index count item) x (insertN cfg x.arr index count item).1 count := by
  unfold insertNF insertN
  unfold Basic
  simp only [post_getArr_bind]
  -- the three branches share the item handler
  have hscope : ∀ (body : FM α Unit) (s' : State α),
      (∀ y : Sys α, y.arr = x.arr → Valid cfg rest (k + 1) y →
        Post body y (fun _ z => Valid cfg rest (k + 1) z ∧ z.arr = s')
          (fun z => Valid cfg rest (k + 1) z ∧ (x.arr.cells.length ≤ z.arr.cells.length ∧
            z.arr.cells.length ≤ x.arr.cells.length + count))) →
      Post (do construct thr.copy; tryCatch body (undo 1); destroyObjs 1) x
        (fun _ y => y.arr = s' ∧ Valid cfg rest k y)
        (fun y => Valid cfg rest k y ∧ x.arr.cells.length ≤ y.arr.cells.length ∧
          y.arr.cells.length ≤ x.arr.cells.length + count) := by
    intro body s' hbody
    apply Post.bind' _ _ (construct_spec _ x)
    · intro y hy
      have := (core_eq_iff _ _).mp hy
      exact ⟨valid_of_core v hy, by rw [this.1]; omega, by rw [this.1]; omega⟩
    · intro _ y hy
      simp only [core_eq_mk, core_arr, core_blocks, core_bad] at hy
      obtain ⟨ya, yb, yo, ybad⟩ := hy
      have v1 : Valid cfg rest (k + 1) y :=
        ⟨ya ▸ v.wf, frame_of_eq v.frame ya yb, by rw [yo, ya, v.objs]; omega, ybad.trans v.good⟩
      apply Post.mono (handler_scope (cfg := cfg) (rest := rest) (k := k) body y (fun s => s = s')
        (fun s => x.arr.cells.length ≤ s.cells.length ∧ s.cells.length ≤ x.arr.cells.length + count) (hbody y ya v1))
      · rintro _ z ⟨vz, hz⟩; exact ⟨hz, vz⟩
      · rintro z ⟨vz, hz⟩; exact ⟨vz, hz⟩
  split
  · rename_i hg
    apply hscope
    intro y ya v1
    have hgv := growF_valid cfg thr rest (k + 1) (x.arr.cells.length + count) y v1 (by rw [ya]; omega) (by rw [ya]; omega)
    apply Post.bind' _ _ hgv
    · intro z hz
      have := (core_eq_iff _ _).mp hz
      refine ⟨valid_of_core v1 hz, ?_, ?_⟩ <;> rw [this.1, ya] <;> omega
    · rintro _ z ⟨za, vz, zc, zcap⟩
      have hzl : z.arr.cells.length = x.arr.cells.length := by rw [zc, ya]
      apply Post.mono (shiftNF_basic cfg thr rest (k + 1) index count (.ext (item.read x.arr.cells)) z vz
        (by omega) (by omega))
      · rintro _ u ⟨ua, vu⟩
        refine ⟨vu, ?_⟩
        rw [ua, za, ya]; rfl
      · rintro u ⟨vu, h1, h2⟩
        exact ⟨vu, by omega, by omega⟩
  · rename_i hg
    split
    · apply hscope
      intro y ya v1
      apply Post.mono (shiftNF_basic cfg thr rest (k + 1) index count (.ext (item.read x.arr.cells)) y v1
        (by rw [ya]; exact hi) (by rw [ya]; omega))
      · rintro _ u ⟨ua, vu⟩
        exact ⟨vu, by rw [ua, ya]⟩
      · rintro u ⟨vu, h1, h2⟩
        rw [ya] at h1 h2
        exact ⟨vu, h1, h2⟩
    · apply Post.mono (shiftNF_basic cfg thr rest k index count item x v hi (by omega))
      · rintro _ u ⟨ua, vu⟩
        exact ⟨ua, vu⟩
      · rintro u h; exact h

theorem insertRangeF_basic (cfg : Cfg) (thr : Thr) (rest : List Nat) (k : Nat) (index : Nat) (xs : List (Cell α))
    (x : Sys α) (v : Valid cfg rest k x) (hi : index ≤ x.arr.cells.length) :
    Basic cfg rest k (insertRangeF cfg thr index xs) x (insertRange cfg x.arr index xs).1 xs.length := by
  unfold insertRangeF insertRange
  unfold Basic
  simp only [post_getArr_bind]
  split
  · rename_i hg
    have hgv := growF_valid cfg thr rest k (x.arr.cells.length + xs.length) x v (by omega) (by omega)
    apply Post.bind' _ _ hgv
    · intro z hz
      have := (core_eq_iff _ _).mp hz
      refine ⟨valid_of_core v hz, ?_, ?_⟩ <;> rw [this.1] <;> omega
    · rintro _ z ⟨za, vz, zc, zcap⟩
      have hzl : z.arr.cells.length = x.arr.cells.length := by rw [zc]
      apply Post.mono (shiftRF_basic cfg thr rest k false index (xs.map .ext) z vz
        (by omega) (by simp only [List.length_map]; omega))
      · rintro _ u ⟨ua, vu⟩
        refine ⟨?_, vu⟩
        rw [ua, za]; rfl
      · rintro u ⟨vu, h1, h2⟩
        simp only [List.length_map] at h2
        exact ⟨vu, by omega, by omega⟩
  · rename_i hg
    simp only [post_pure_bind]
    apply Post.mono (shiftRF_basic cfg thr rest k false index (xs.map .ext) x v hi
      (by simp only [List.length_map]; omega))
    · rintro _ u ⟨ua, vu⟩
      exact ⟨ua, vu⟩
    · rintro u ⟨vu, h1, h2⟩
      simp only [List.length_map] at h2
      exact ⟨vu, h1, h2⟩

/-- `pvRemoveBack(count)` on a valid array -/
theorem removeBackF_valid (cfg : Cfg) (rest : List Nat) (k : Nat) (count : Nat) (x : Sys α) (v : Valid cfg rest k x)
    (h : count ≤ x.arr.cells.length) :
    Post (removeBackF count) x (fun _ y => y.arr = removeBack x.arr count ∧ Valid cfg rest k y) (fun _ => False) := by
  unfold removeBackF
  simp only [post_getArr_bind, post_destroyObjs_bind, post_setArr, true_and]
  refine ⟨wf_with_cells v.wf _ (by simp only [List.length_take]; have := v.wf.count_le; omega), ?_, ?_, ?_⟩
  · have := v.frame; unfold Frame at *; exact this
  · have := v.objs; simp only [removeBack, List.length_take]; omega
  · have h1 := v.objs; have h2 := v.good
    simp only [h2, Bool.false_or, decide_eq_false_iff_not]; omega

theorem removeF_basic (cfg : Cfg) (thr : Thr) (rest : List Nat) (k : Nat) (index count : Nat)
    (x : Sys α) (v : Valid cfg rest k x) (h : index + count ≤ x.arr.cells.length) :
    Basic cfg rest k (removeF cfg thr index count) x (removeOp cfg x.arr index count) 0 := by
  unfold removeF removeOp remove
  unfold Basic
  simp only [post_getArr_bind]
  split
  · rename_i h0
    simp only [post_pure, true_and]
    exact v
  · rename_i h0
    have hadds := adds_progRem (α := α) count (x.arr.cells.length - (index + count)) (index + count)
    apply Post.bind' _ _ (shift_basic cfg thr rest k _ x v (by rw [hadds]; have := v.wf.count_le; omega))
    · rintro y ⟨vy, h1, h2⟩
      rw [hadds] at h2
      exact ⟨vy, h1, h2⟩
    · rintro _ y ⟨ya, vy⟩
      rw [runPrims_progRem] at ya
      have hl : y.arr.cells.length = x.arr.cells.length := by
        rw [ya]; simp only
        have := runPrims_length cfg.keeps (progRem count (index + count) (x.arr.cells.length - (index + count))) x.arr.cells
        rw [runPrims_progRem, hadds] at this
        omega
      apply Post.mono (removeBackF_valid cfg rest k count y vy (by omega)) _ (fun _ h => h.elim)
      rintro _ z ⟨za, vz⟩
      refine ⟨?_, vz⟩
      rw [za, removeBack, hl, ya]

theorem loopFilt_count_le (keeps : Bool) (p : Cell α → Bool) : ∀ (f : Nat) (a : Cells α) (nc i : Nat),
    (loopFilt keeps p a nc i f).2 ≤ nc + f ∧ (loopFilt keeps p a nc i f).1.length = a.length
  | 0, a, nc, i => by simp [loopFilt]
  | f+1, a, nc, i => by
    simp only [loopFilt]
    split
    · have := loopFilt_count_le keeps p f a nc (i+1); omega
    · have := loopFilt_count_le keeps p f (assignMove keeps a i nc) (nc+1) (i+1)
      rw [assignMove_length] at this; omega

theorem loopFiltF_spec (cfg : Cfg) (thr : Thr) (rest : List Nat) (k : Nat) (p : Cell α → Bool) :
    ∀ (f nc i : Nat) (x : Sys α), Valid cfg rest k x →
    Post (loopFiltF cfg thr p nc i f) x
      (fun r y => y.arr = { x.arr with cells := (loopFilt cfg.keeps p x.arr.cells nc i f).1 } ∧
        r = (loopFilt cfg.keeps p x.arr.cells nc i f).2 ∧ Valid cfg rest k y)
      (fun y => Valid cfg rest k y ∧ y.arr.cells.length = x.arr.cells.length)
  | 0, nc, i, x, v => by
    simp only [loopFiltF, loopFilt, post_pure, true_and]
    exact v
  | f+1, nc, i, x, v => by
    unfold loopFiltF
    simp only [post_getArr_bind, loopFilt]
    split
    · exact loopFiltF_spec cfg thr rest k p f nc (i+1) x v
    · apply Post.bind' _ _ (execPrim_spec cfg thr (.assignMove i nc) x)
      · intro y hy
        have := (core_eq_iff _ _).mp hy
        exact ⟨valid_of_core v hy, by rw [this.1]⟩
      · rintro _ y ⟨ya, yb, yo, ybad⟩
        simp only [Prim.apply, Prim.adds, Bool.false_eq_true, ↓reduceIte, Nat.add_zero] at ya yo
        have vy : Valid cfg rest k y := by
          refine ⟨?_, ?_, ?_, ybad.trans v.good⟩
          · rw [ya]; exact wf_with_cells v.wf _ (by rw [assignMove_length]; exact v.wf.count_le)
          · have := v.frame; unfold Frame at *; rw [ya, yb, this]; rfl
          · rw [yo, ya, v.objs]; simp only [assignMove_length]
        apply Post.mono (loopFiltF_spec cfg thr rest k p f (nc+1) (i+1) y vy)
        · rintro r z ⟨za, hr, vz⟩
          rw [ya] at za hr
          exact ⟨za, hr, vz⟩
        · rintro z ⟨vz, hz⟩
          rw [ya] at hz
          simp only [assignMove_length] at hz
          exact ⟨vz, hz⟩

theorem removeIfF_basic (cfg : Cfg) (thr : Thr) (rest : List Nat) (k : Nat) (p : Cell α → Bool)
    (x : Sys α) (v : Valid cfg rest k x) :
    Post (removeIfF cfg thr p) x
      (fun r y => y.arr = (removeIfOp cfg x.arr p).1 ∧ r = (removeIfOp cfg x.arr p).2 ∧ Valid cfg rest k y)
      (fun y => Valid cfg rest k y ∧ y.arr.cells.length = x.arr.cells.length) := by
  unfold removeIfF removeIfOp removeIf removeIfAt finishFilt
  simp only [post_getArr_bind]
  obtain ⟨_, hk, _, _⟩ := firstHit_spec p x.arr.cells x.arr.cells.length 0 (by omega)
  generalize firstHit p x.arr.cells 0 x.arr.cells.length = k0 at hk ⊢
  apply Post.bind' _ _ (loopFiltF_spec cfg thr rest k p _ _ _ x v) (fun _ h => h)
  rintro r y ⟨ya, rfl, vy⟩
  obtain ⟨hle, hlen⟩ := loopFilt_count_le cfg.keeps p (x.arr.cells.length - (k0 + 1)) x.arr.cells k0 (k0 + 1)
  have hl : y.arr.cells.length = x.arr.cells.length := by rw [ya]; exact hlen
  have hnc : (loopFilt cfg.keeps p x.arr.cells k0 (k0 + 1) (x.arr.cells.length - (k0 + 1))).2 ≤ x.arr.cells.length := by
    by_cases h : k0 = x.arr.cells.length
    · have : x.arr.cells.length - (k0 + 1) = 0 := by omega
      rw [this] at hle ⊢
      simp only [loopFilt] at hle ⊢; omega
    · omega
  apply Post.bind' _ _ (removeBackF_valid cfg rest k _ y vy (by omega)) (fun _ h => h.elim)
  rintro _ z ⟨za, vz⟩
  simp only [post_pure]
  refine ⟨?_, trivial, vz⟩
  rw [za, removeBack, hl, ya]
  simp only
  congr 2
  omega

end Momo.ArrF
