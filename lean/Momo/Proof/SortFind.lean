import Momo.Proof.SortSearch
/-!
  C17 lemmas, part 2: `pvFind` and `pvGetBounds` (HashSorter.h:267-314) on a sequence whose codes are
  non-decreasing and whose equal items are contiguous return what a linear scan returns.
-/
namespace Momo.Sort
variable {σ α : Type}

theorem eqv_iff {eq : α → α → Bool} (he : IsEqv eq) {x y item : α} (hx : eq x item = true) :
    eq y item = true ↔ eq x y = true :=
  ⟨fun hy => he.trans _ _ _ hx (he.symm _ _ hy), fun hxy => he.trans _ _ _ (he.symm _ _ hxy) hx⟩

theorem bool_false_of_not {b : Bool} (h : ¬ b = true) : b = false := by
  cases b <;> simp_all

/-- result of `pvFind`: an index holding an equal item, or "no cell holds an equal item" -/
def FindPost (eq : α → α → Bool) (A : Nat → α × Nat) (n : Nat) (item : α) (res : Nat × Bool) : Prop :=
  (res.2 = true → res.1 < n ∧ eq (A res.1).1 item = true) ∧
  (res.2 = false → res.1 ≤ n ∧ ∀ k, k < n → eq (A k).1 item = false)

/-- when the hash is absent no item can be equal -/
theorem absent_of_hashPost {eq : α → α → Bool} {A : Nat → α × Nat} {n : Nat} {item : α} {itemHash : Nat} {res : Nat × Bool}
    (hcons : ∀ i, i < n → eq (A i).1 item = true → (A i).2 = itemHash)
    (hp : HashPost A n itemHash res) (hnf : res.2 = false) : ∀ k, k < n → eq (A k).1 item = false := by
  intro k hk
  obtain ⟨_, h1, h2⟩ := hp.2 hnf
  apply bool_false_of_not
  intro he
  have := hcons k hk he
  by_cases hkp : k < res.1
  · have := h1 k hkp; omega
  · have := h2 k (by omega) hk; omega

section
variable (M : Mem σ α) (eq : α → α → Bool) (s : σ) (A : Nat → α × Nat) (n : Nat)
  (hr : MRepr M s A n) (he : IsEqv eq) (hs : SortedF A n) (hc : ContigF eq A n)
  (item : α) (itemHash : Nat) (hh : itemHash < 2 ^ 64)
  (hcons : ∀ i, i < n → eq (A i).1 item = true → (A i).2 = itemHash)
include hr he hs hc hcons

/-- the backward `pvFindNext` of `pvFind`/`pvGetBounds`, started at a cell `p` with the sought code and another item -/
theorem revNext_spec (p : Nat) (hp : p < n) (hcode : (A p).2 = itemHash) (hne : eq (A p).1 item = false) :
    ∃ res, findNext eq (M.rev s (p + 1)) (p + 1) item itemHash = some res ∧
      NextPost eq (fun i => A (p + 1 - 1 - i)) (p + 1) item itemHash res :=
  findNext_spec eq he _ _ (p + 1) (hr.rev (p + 1) (by omega)) (hc.rev he (p + 1) (by omega))
    (hs.convex.rev (p + 1) (by omega)) item itemHash
    (fun i hi h => hcons _ (by omega) h) (by omega) (by simpa using hcode) (by simpa using hne)

/-- the forward `pvFindNext` -/
theorem fwdNext_spec (p : Nat) (hp : p < n) (hcode : (A p).2 = itemHash) (hne : eq (A p).1 item = false) :
    ∃ res, findNext eq (M.fwd s p) (n - p) item itemHash = some res ∧
      NextPost eq (fun i => A (p + i)) (n - p) item itemHash res :=
  findNext_spec eq he _ _ (n - p) (hr.fwd p) (hc.shift p) (hs.convex.shift p) item itemHash
    (fun i hi h => hcons _ (by omega) h) (by omega) (by simpa using hcode) (by simpa using hne)

include hh in
theorem find_spec : ∃ res, find M eq s n item itemHash = some res ∧ FindPost eq A n item res := by
  unfold find
  obtain ⟨res, hres, hpost⟩ := findHash_spec M s A n hr hs itemHash hh
  rw [hres]
  simp only [Option.bind_some]
  cases hfound : res.2 with
  | false =>
    simp only [Bool.not_false, if_true]
    refine ⟨res, rfl, ?_, ?_⟩
    · intro h; rw [hfound] at h; cases h
    · intro _
      exact ⟨(hpost.2 hfound).1, absent_of_hashPost hcons hpost hfound⟩
  | true =>
    obtain ⟨hp, hcode⟩ := hpost.1 hfound
    simp only [Bool.not_true, Bool.false_eq_true, if_false, (hr res.1 hp).1, Option.bind_some]
    by_cases hitem : eq (A res.1).1 item = true
    · simp only [hitem, if_true]
      refine ⟨res, rfl, ?_, ?_⟩
      · intro _; exact ⟨hp, hitem⟩
      · intro h; rw [hfound] at h; cases h
    · have hne := bool_false_of_not hitem
      simp only [hne, Bool.false_eq_true, if_false]
      obtain ⟨rv, hrv, hrvp⟩ := revNext_spec M eq s A n hr he hs hc item itemHash hcons res.1 hp hcode hne
      rw [hrv]
      simp only [Option.bind_some]
      cases hrf : rv.2 with
      | true =>
        obtain ⟨h1, h2, h3, _⟩ := hrvp.1 hrf
        have hsub : rv.1 + 1 ≤ res.1 + 1 := by omega
        simp only [if_true, csub, hsub, Option.map_some]
        refine ⟨_, rfl, ?_, ?_⟩
        · intro _
          refine ⟨by simp; omega, ?_⟩
          show eq (A (res.1 + 1 - (rv.1 + 1))).1 item = true
          rwa [show res.1 + 1 - (rv.1 + 1) = res.1 + 1 - 1 - rv.1 by omega]
        · intro h; cases h
      | false =>
        obtain ⟨_, _, hall, _⟩ := hrvp.2 hrf
        have hsub : res.1 ≤ n := by omega
        simp only [Bool.false_eq_true, if_false, csub, hsub, if_true, Option.bind_some]
        obtain ⟨fw, hfw, hfwp⟩ := fwdNext_spec M eq s A n hr he hs hc item itemHash hcons res.1 hp hcode hne
        rw [hfw]
        simp only [Option.map_some]
        refine ⟨_, rfl, ?_, ?_⟩
        · intro hf
          obtain ⟨h1, _, h3, _⟩ := hfwp.1 hf
          exact ⟨by simp; omega, h3⟩
        · intro hf
          obtain ⟨h1, _, hall2, _⟩ := hfwp.2 hf
          refine ⟨by simp; omega, ?_⟩
          intro k hk
          by_cases hkp : k ≤ res.1
          · have : eq (A (res.1 + 1 - 1 - (res.1 - k))).1 item = false := hall (res.1 - k) (by omega)
            rwa [show res.1 + 1 - 1 - (res.1 - k) = k by omega] at this
          · have : eq (A (res.1 + (k - res.1))).1 item = false := hall2 (k - res.1) (by omega)
            rwa [show res.1 + (k - res.1) = k by omega] at this

/-- result of `pvGetBounds`: exactly the index range of the cells holding an equal item -/
def BoundsPost (eq : α → α → Bool) (A : Nat → α × Nat) (n : Nat) (item : α) (res : Nat × Nat) : Prop :=
  res.1 ≤ res.2 ∧ res.2 ≤ n ∧ ∀ k, k < n → (eq (A k).1 item = true ↔ res.1 ≤ k ∧ k < res.2)

include hh in
theorem getBounds_spec : ∃ res, getBounds M eq s n item itemHash = some res ∧ BoundsPost eq A n item res := by
  unfold getBounds
  obtain ⟨res, hres, hpost⟩ := findHash_spec M s A n hr hs itemHash hh
  rw [hres]
  simp only [Option.bind_some]
  cases hfound : res.2 with
  | false =>
    simp only [Bool.not_false, if_true]
    refine ⟨_, rfl, Nat.le_refl _, (hpost.2 hfound).1, ?_⟩
    intro k hk
    have := absent_of_hashPost hcons hpost hfound k hk
    simp only [this, Bool.false_eq_true, false_iff]
    omega
  | true =>
    obtain ⟨hp, hcode⟩ := hpost.1 hfound
    simp only [Bool.not_true, Bool.false_eq_true, if_false, (hr res.1 hp).1, Option.bind_some]
    by_cases hitem : eq (A res.1).1 item = true
    · -- the hash search hit an equal item: widen to both sides with pvFindOther
      simp only [hitem, if_true]
      obtain ⟨q1, hq1, hq1a, hq1b, hq1c, hq1d⟩ := findOther_spec eq (M.rev s (res.1 + 1)) _ (res.1 + 1)
        (hr.rev (res.1 + 1) (by omega)) (hc.rev he (res.1 + 1) (by omega)) 0 (res.1 + 1) (by omega) (by omega)
      rw [hq1]
      have hs1 : q1 ≤ res.1 + 1 := by omega
      have hs2 : res.1 ≤ n := by omega
      simp only [Option.bind_some, csub, hs1, hs2, if_true]
      obtain ⟨e, he1, hea, heb, hec, hed⟩ := findOther_spec eq (M.fwd s res.1) _ (n - res.1)
        (hr.fwd res.1) (hc.shift res.1) 0 (n - res.1) (by omega) (by omega)
      rw [he1]
      have hs3 : res.1 + 1 - q1 ≤ res.1 + e := by omega
      simp only [Option.bind_some, hs3, if_true, Option.map_some]
      refine ⟨_, rfl, by simp; omega, by simp; omega, ?_⟩
      intro k hk
      rw [eqv_iff he hitem]
      show eq (A res.1).1 (A k).1 = true ↔ res.1 + 1 - q1 ≤ k ∧ k < res.1 + e
      by_cases hk1 : k < res.1
      · by_cases hk2 : res.1 - k < q1
        · have : eq (A (res.1 + 1 - 1 - 0)).1 (A (res.1 + 1 - 1 - (res.1 - k))).1 = true := hq1c (res.1 - k) (by omega) hk2
          rw [show res.1 + 1 - 1 - 0 = res.1 by omega, show res.1 + 1 - 1 - (res.1 - k) = k by omega] at this
          simp only [this, true_iff]; omega
        · have : eq (A (res.1 + 1 - 1 - 0)).1 (A (res.1 + 1 - 1 - (res.1 - k))).1 = false := hq1d (res.1 - k) (by omega) (by omega)
          rw [show res.1 + 1 - 1 - 0 = res.1 by omega, show res.1 + 1 - 1 - (res.1 - k) = k by omega] at this
          simp only [this, Bool.false_eq_true, false_iff]; omega
      · by_cases hk3 : k = res.1
        · subst hk3
          simp only [he.refl, true_iff]; omega
        · by_cases hk2 : k - res.1 < e
          · have : eq (A (res.1 + 0)).1 (A (res.1 + (k - res.1))).1 = true := hec (k - res.1) (by omega) hk2
            rw [show res.1 + 0 = res.1 by omega, show res.1 + (k - res.1) = k by omega] at this
            simp only [this, true_iff]; omega
          · have : eq (A (res.1 + 0)).1 (A (res.1 + (k - res.1))).1 = false := hed (k - res.1) (by omega) (by omega)
            rw [show res.1 + 0 = res.1 by omega, show res.1 + (k - res.1) = k by omega] at this
            simp only [this, Bool.false_eq_true, false_iff]; omega
    · have hne := bool_false_of_not hitem
      simp only [hne, Bool.false_eq_true, if_false]
      obtain ⟨rv, hrv, hrvp⟩ := revNext_spec M eq s A n hr he hs hc item itemHash hcons res.1 hp hcode hne
      rw [hrv]
      simp only [Option.bind_some]
      cases hrf : rv.2 with
      | true =>
        -- an equal item lies before: it is the last one of its group
        obtain ⟨h1, h2, h3, h4⟩ := hrvp.1 hrf
        have h3' : eq (A (res.1 - rv.1)).1 item = true := by
          have : eq (A (res.1 + 1 - 1 - rv.1)).1 item = true := h3
          rwa [show res.1 + 1 - 1 - rv.1 = res.1 - rv.1 by omega] at this
        have hs1 : rv.1 ≤ res.1 + 1 := by omega
        simp only [if_true, csub, hs1, Option.bind_some]
        obtain ⟨q, hq, hqa, hqb, hqc, hqd⟩ := findOther_spec eq (M.rev s (res.1 + 1)) _ (res.1 + 1)
          (hr.rev (res.1 + 1) (by omega)) (hc.rev he (res.1 + 1) (by omega)) rv.1 (res.1 + 1 - rv.1) (by omega) (by omega)
        rw [hq]
        have hs2 : q ≤ res.1 + 1 := by omega
        have hs3 : res.1 + 1 - q ≤ res.1 + 1 - rv.1 := by omega
        simp only [Option.bind_some, hs2, hs3, if_true, Option.map_some]
        refine ⟨_, rfl, by simp; omega, by simp; omega, ?_⟩
        intro k hk
        show eq (A k).1 item = true ↔ res.1 + 1 - q ≤ k ∧ k < res.1 + 1 - rv.1
        by_cases hk1 : k ≤ res.1
        · by_cases hk2 : res.1 - k < rv.1
          · have : eq (A (res.1 + 1 - 1 - (res.1 - k))).1 item = false := h4 (res.1 - k) hk2
            rw [show res.1 + 1 - 1 - (res.1 - k) = k by omega] at this
            simp only [this, Bool.false_eq_true, false_iff]; omega
          · by_cases hk3 : res.1 - k = rv.1
            · rw [show k = res.1 - rv.1 by omega]
              simp only [h3', true_iff]; omega
            · rw [eqv_iff he h3']
              by_cases hk4 : res.1 - k < q
              · have : eq (A (res.1 + 1 - 1 - rv.1)).1 (A (res.1 + 1 - 1 - (res.1 - k))).1 = true := hqc (res.1 - k) (by omega) hk4
                rw [show res.1 + 1 - 1 - rv.1 = res.1 - rv.1 by omega, show res.1 + 1 - 1 - (res.1 - k) = k by omega] at this
                simp only [this, true_iff]; omega
              · have : eq (A (res.1 + 1 - 1 - rv.1)).1 (A (res.1 + 1 - 1 - (res.1 - k))).1 = false := hqd (res.1 - k) (by omega) (by omega)
                rw [show res.1 + 1 - 1 - rv.1 = res.1 - rv.1 by omega, show res.1 + 1 - 1 - (res.1 - k) = k by omega] at this
                simp only [this, Bool.false_eq_true, false_iff]; omega
        · -- behind `res.1` nothing can be equal: the cell `res.1` in between is not
          have : eq (A k).1 item = false := by
            apply bool_false_of_not
            intro hke
            have h5 : eq (A (res.1 - rv.1)).1 (A k).1 = true := (eqv_iff he h3').1 hke
            have h6 := hc (res.1 - rv.1) res.1 k (by omega) (by omega) hk h5
            have h7 := (eqv_iff he h3').2 h6
            rw [hne] at h7; cases h7
          simp only [this, Bool.false_eq_true, false_iff]; omega
      | false =>
        obtain ⟨_, _, hall, _⟩ := hrvp.2 hrf
        have hall' : ∀ k, k ≤ res.1 → eq (A k).1 item = false := by
          intro k hk
          have : eq (A (res.1 + 1 - 1 - (res.1 - k))).1 item = false := hall (res.1 - k) (by omega)
          rwa [show res.1 + 1 - 1 - (res.1 - k) = k by omega] at this
        have hsub : res.1 ≤ n := by omega
        simp only [Bool.false_eq_true, if_false, csub, hsub, if_true, Option.bind_some]
        obtain ⟨fw, hfw, hfwp⟩ := fwdNext_spec M eq s A n hr he hs hc item itemHash hcons res.1 hp hcode hne
        rw [hfw]
        simp only [Option.bind_some]
        cases hff : fw.2 with
        | false =>
          obtain ⟨h1, _, hall2, _⟩ := hfwp.2 hff
          simp only [Bool.not_false, if_true]
          refine ⟨_, rfl, Nat.le_refl _, by simp; omega, ?_⟩
          intro k hk
          have : eq (A k).1 item = false := by
            by_cases hkp : k ≤ res.1
            · exact hall' k hkp
            · have : eq (A (res.1 + (k - res.1))).1 item = false := hall2 (k - res.1) (by omega)
              rwa [show res.1 + (k - res.1) = k by omega] at this
          simp only [this, Bool.false_eq_true, false_iff]; omega
        | true =>
          obtain ⟨h1, h2, h3, h4⟩ := hfwp.1 hff
          have h3' : eq (A (res.1 + fw.1)).1 item = true := h3
          have hs1 : res.1 + fw.1 ≤ n := by omega
          simp only [Bool.not_true, Bool.false_eq_true, if_false, hs1, if_true, Option.bind_some]
          obtain ⟨e, he1, hea, heb, hec, hed⟩ := findOther_spec eq (M.fwd s res.1) _ (n - res.1)
            (hr.fwd res.1) (hc.shift res.1) fw.1 (n - (res.1 + fw.1)) (by omega) (by omega)
          rw [he1]
          simp only [Option.map_some]
          refine ⟨_, rfl, by simp; omega, by simp; omega, ?_⟩
          intro k hk
          show eq (A k).1 item = true ↔ res.1 + fw.1 ≤ k ∧ k < res.1 + e
          by_cases hk1 : k < res.1 + fw.1
          · have : eq (A k).1 item = false := by
              by_cases hkp : k ≤ res.1
              · exact hall' k hkp
              · have : eq (A (res.1 + (k - res.1))).1 item = false := h4 (k - res.1) (by omega)
                rwa [show res.1 + (k - res.1) = k by omega] at this
            simp only [this, Bool.false_eq_true, false_iff]; omega
          · by_cases hk2 : k = res.1 + fw.1
            · subst hk2
              simp only [h3', true_iff]; omega
            · rw [eqv_iff he h3']
              by_cases hk3 : k - res.1 < e
              · have : eq (A (res.1 + fw.1)).1 (A (res.1 + (k - res.1))).1 = true := hec (k - res.1) (by omega) hk3
                rw [show res.1 + (k - res.1) = k by omega] at this
                simp only [this, true_iff]; omega
              · have : eq (A (res.1 + fw.1)).1 (A (res.1 + (k - res.1))).1 = false := hed (k - res.1) (by omega) (by omega)
                rw [show res.1 + (k - res.1) = k by omega] at this
                simp only [this, Bool.false_eq_true, false_iff]; omega

end

end Momo.Sort
