import Momo.Proof.PoolAllocOwn
/-!
  C20, layer C: what copy construction, move construction, move assignment and swap do to pools and blocks.
-/
namespace Momo.PoolAlloc

theorem err_none_of_not_isSome {s : Sys} (h : ¬ s.err.isSome = true) : s.err = none := by
  cases h' : s.err with
  | none => rfl
  | some _ => simp [h'] at h

/-- copy construction: a pool that did not exist before, everything that existed is untouched -/
theorem copyConstruct_spec {cs : CSys} (hc : CInv cs) (h0 : cs.sys.err = none) (d c : Nat) (cls : Cls) (cb : Nat)
    (acts : List Act) (hok : (cstep cs (.copyConstruct d c cls cb acts)).sys.err = none) :
    (⟨d, cs.sys.pools.length⟩ : Ent) ∈ (cstep cs (.copyConstruct d c cls cb acts)).ents ∧
    (∀ e ∈ cs.ents, e.pid ≠ cs.sys.pools.length ∧ e.eid ≠ d ∧ e ∈ (cstep cs (.copyConstruct d c cls cb acts)).ents) ∧
    (∀ (j : Nat) (st : PoolSt), cs.sys.pools[j]? = some st →
        (cstep cs (.copyConstruct d c cls cb acts)).sys.pools[j]? = some st) ∧
    (∀ b ∈ cs.sys.blocks, b ∈ (cstep cs (.copyConstruct d c cls cb acts)).sys.blocks ∧
        (cstep cs (.copyConstruct d c cls cb acts)).own b.id = cs.own b.id) ∧
    (∀ b ∈ (cstep cs (.copyConstruct d c cls cb acts)).sys.blocks,
        b ∈ cs.sys.blocks ∨ (b.pid = cs.sys.pools.length ∧ (cstep cs (.copyConstruct d c cls cb acts)).own b.id = d)) ∧
    (∀ x : Base, x.pid ≠ cs.sys.pools.length →
        (x ∈ (cstep cs (.copyConstruct d c cls cb acts)).sys.base ↔ x ∈ cs.sys.base)) := by
  unfold cstep at hok ⊢
  have he : ¬ cs.sys.err.isSome = true := by simp [h0]
  rw [if_neg he] at hok ⊢
  simp only at hok ⊢
  cases hs : findEnt cs c with
  | none => simp only [hs] at hok; rw [cfail_err cs h0] at hok; cases hok
  | some ce =>
    simp only [hs] at hok ⊢
    by_cases hf : (findEnt cs d).isSome = true
    · rw [if_pos hf] at hok; rw [cfail_err cs h0] at hok; cases hok
    · rw [if_neg hf] at hok ⊢
      have hfresh := findEnt_none (cs := cs) (e := d) (by simpa using hf)
      have hc1 := newAlloc_cinv hc h0 d cls cb hfresh
      have h01 : (step cs.sys (.anew cls cb)).err = none := by rw [step_eq_of_ok h0]; exact h0
      have hfr := acts_frame hc1 (e := d) (p := cs.sys.pools.length) (en := ⟨d, cs.sys.pools.length⟩) List.mem_cons_self rfl rfl acts h01 hok
      have hents := acts_ents d cs.sys.pools.length
        { cs with sys := step cs.sys (.anew cls cb), ents := ⟨d, cs.sys.pools.length⟩ :: cs.ents } acts
      have hsys1 : (step cs.sys (.anew cls cb)) = doNew cs.sys cls cb := by rw [step_eq_of_ok h0]
      refine ⟨by rw [hents]; exact List.mem_cons_self, ?_, ?_, ?_, ?_, ?_⟩
      · intro e he
        have := ent_pid_lt hc he
        exact ⟨by omega, hfresh e he, by rw [hents]; exact List.mem_cons_of_mem _ he⟩
      · intro j st hst
        have hj : j < cs.sys.pools.length := (List.getElem?_eq_some_iff.mp hst).1
        rw [hfr.pools j (by omega)]
        simp only [hsys1, doNew]
        exact getElem?_append_some hst
      · intro b hb
        obtain ⟨x, hx, hx1, _⟩ := hc.owned b hb
        have hne : cs.own b.id ≠ d := by rw [← hx1]; exact hfresh x hx
        have hb1 : b ∈ (step cs.sys (.anew cls cb)).blocks := by rw [hsys1]; exact hb
        exact hfr.keep b hb1 hne
      · intro b hb
        rcases hfr.fresh b hb with ⟨hb1, _⟩ | h
        · left; rw [hsys1] at hb1; exact hb1
        · right; exact h
      · intro x hx
        rw [hfr.base x hx]
        simp only [hsys1, doNew, List.mem_cons]
        constructor
        · rintro (rfl | h)
          · exact absurd rfl hx
          · exact h
        · exact Or.inr

/-- move construction: the new container's allocator points to the same pool, no memory moves, the blocks change hands -/
theorem moveConstruct_spec {cs : CSys} (h0 : cs.sys.err = none) (d c : Nat)
    (hok : (cstep cs (.moveConstruct d c)).sys.err = none) :
    ∃ ce, ce ∈ cs.ents ∧ ce.eid = c ∧
      (⟨d, ce.pid⟩ : Ent) ∈ (cstep cs (.moveConstruct d c)).ents ∧ ce ∈ (cstep cs (.moveConstruct d c)).ents ∧
      (cstep cs (.moveConstruct d c)).sys.blocks = cs.sys.blocks ∧
      (cstep cs (.moveConstruct d c)).sys.base = cs.sys.base ∧
      (∀ i, cs.own i = c → (cstep cs (.moveConstruct d c)).own i = d) ∧
      (∀ i, cs.own i ≠ c → (cstep cs (.moveConstruct d c)).own i = cs.own i) := by
  unfold cstep at hok ⊢
  have he : ¬ cs.sys.err.isSome = true := by simp [h0]
  rw [if_neg he] at hok ⊢
  simp only at hok ⊢
  cases hs : findEnt cs c with
  | none => simp only [hs] at hok; rw [cfail_err cs h0] at hok; cases hok
  | some ce =>
    simp only [hs] at hok ⊢
    by_cases hf : (findEnt cs d).isSome = true
    · rw [if_pos hf] at hok; rw [cfail_err cs h0] at hok; cases hok
    · rw [if_neg hf] at hok ⊢
      simp only at hok ⊢
      rw [step_eq_of_ok h0] at hok ⊢
      simp only at hok ⊢
      obtain ⟨st, _, hblocks, hbase, _, _⟩ := doCopy_ok hok
      refine ⟨ce, (findEnt_some hs).1, (findEnt_some hs).2, List.mem_cons_self,
        List.mem_cons_of_mem _ (findEnt_some hs).1, hblocks, hbase, ?_, ?_⟩
      · intro i hi; simp [hi]
      · intro i hi; simp [hi]

/-- move assignment: the target's old blocks are gone, it points to the source's pool and holds the source's blocks -/
theorem moveAssign_spec {cs : CSys} (hc : CInv cs) (h0 : cs.sys.err = none) (d c : Nat) (acts : List Act)
    (hok : (cstep cs (.moveAssign d c acts)).sys.err = none) :
    ∃ de ce, de ∈ cs.ents ∧ de.eid = d ∧ ce ∈ cs.ents ∧ ce.eid = c ∧ d ≠ c ∧
      (⟨d, ce.pid⟩ : Ent) ∈ (cstep cs (.moveAssign d c acts)).ents ∧ ce ∈ (cstep cs (.moveAssign d c acts)).ents ∧
      (∀ b ∈ cs.sys.blocks, cs.own b.id = c →
          b ∈ (cstep cs (.moveAssign d c acts)).sys.blocks ∧ (cstep cs (.moveAssign d c acts)).own b.id = d ∧ b.pid = ce.pid) ∧
      (∀ b ∈ (cstep cs (.moveAssign d c acts)).sys.blocks, (cstep cs (.moveAssign d c acts)).own b.id ≠ c) ∧
      (∀ b ∈ cs.sys.blocks, cs.own b.id = d → b ∉ (cstep cs (.moveAssign d c acts)).sys.blocks) ∧
      (∀ b ∈ cs.sys.blocks, cs.own b.id ≠ d → cs.own b.id ≠ c →
          b ∈ (cstep cs (.moveAssign d c acts)).sys.blocks ∧ (cstep cs (.moveAssign d c acts)).own b.id = cs.own b.id) := by
  unfold cstep at hok ⊢
  have he : ¬ cs.sys.err.isSome = true := by simp [h0]
  rw [if_neg he] at hok ⊢
  simp only at hok ⊢
  cases hs : findEnt cs d with
  | none => simp only [hs] at hok; rw [cfail_err cs h0] at hok; cases hok
  | some de =>
    cases hs2 : findEnt cs c with
    | none => simp only [hs, hs2] at hok; rw [cfail_err cs h0] at hok; cases hok
    | some ce =>
      simp only [hs, hs2] at hok ⊢
      by_cases hdc : d = c ∨ (!pocma) = true
      · rw [if_pos hdc] at hok; rw [cfail_err cs h0] at hok; cases hok
      · rw [if_neg hdc] at hok ⊢
        by_cases he1 : (acts.foldl (actStep d de.pid) cs).sys.err.isSome = true
        · rw [if_pos he1] at hok; rw [hok] at he1; simp at he1
        · rw [if_neg he1] at hok ⊢
          have h01 := err_none_of_not_isSome he1
          by_cases hn : (!ownsNone (acts.foldl (actStep d de.pid) cs) d) = true
          · rw [if_pos hn] at hok; rw [cfail_err _ h01] at hok; cases hok
          · rw [if_neg hn] at hok ⊢
            have hne : d ≠ c := fun h => hdc (Or.inl h)
            have hnone : ownsNone (acts.foldl (actStep d de.pid) cs) d = true := by simpa using hn
            have hno := ownsNone_iff.mp hnone
            have hfr := acts_frame hc (findEnt_some hs).1 (findEnt_some hs).2 rfl acts h0 h01
            -- the two allocator-object operations do not touch the blocks
            have hokA : (step (acts.foldl (actStep d de.pid) cs).sys (.acopy ce.pid)).err = none := by
              cases h : (step (acts.foldl (actStep d de.pid) cs).sys (.acopy ce.pid)).err with
              | none => rfl
              | some er => simp only at hok; rw [step_of_err h, h] at hok; cases hok
            have hc1 := acts_cinv hc (findEnt_some hs).1 (findEnt_some hs).2 rfl acts h0 h01
            have hinvA := step_inv hc1.inv (.acopy ce.pid) hokA
            have hblocks : (step (step (acts.foldl (actStep d de.pid) cs).sys (.acopy ce.pid)) (.adrop de.pid)).blocks
                = (acts.foldl (actStep d de.pid) cs).sys.blocks := by
              simp only at hok
              rw [step_eq_of_ok hokA] at hok ⊢
              rw [step_eq_of_ok h01] at hok hokA hinvA ⊢
              simp only at hok hokA hinvA ⊢
              obtain ⟨_, _, hbA, _⟩ := doCopy_ok hokA
              obtain ⟨_, _, hbB, _⟩ := doDrop_ok hinvA hok
              rw [hbB, hbA]
            refine ⟨de, ce, (findEnt_some hs).1, (findEnt_some hs).2, (findEnt_some hs2).1, (findEnt_some hs2).2, hne,
              List.mem_cons_self, ?_, ?_, ?_, ?_, ?_⟩
            · refine List.mem_cons_of_mem _ (List.mem_filter.mpr ⟨(findEnt_some hs2).1, ?_⟩)
              rw [(findEnt_some hs2).2]; simpa using fun h : c = d => hne h.symm
            · intro b hb hoc
              obtain ⟨hb1, ho1⟩ := hfr.keep b hb (by rw [hoc]; exact fun h => hne h.symm)
              refine ⟨by simp only; rw [hblocks]; exact hb1, by simp only [ho1, hoc, if_true], ?_⟩
              obtain ⟨x, hx, hx1, hx2⟩ := hc.owned b hb
              have : x = ce := key_inj (·.eid) hc.nodupE hx (findEnt_some hs2).1 (by rw [hx1, hoc, (findEnt_some hs2).2])
              rw [← hx2, this]
            · intro b hb
              simp only
              by_cases h : (acts.foldl (actStep d de.pid) cs).own b.id = c
              · simp only [h, if_true]; exact hne
              · simp only [h, if_false]; exact h
            · intro b hb hod hb'
              simp only at hb'
              rw [hblocks] at hb'
              rcases hfr.fresh b hb' with ⟨_, ho⟩ | ⟨_, ho⟩
              · exact hno b hb' (ho.trans hod)
              · exact hno b hb' ho
            · intro b hb hnd hnc
              obtain ⟨hb1, ho1⟩ := hfr.keep b hb hnd
              refine ⟨by simp only; rw [hblocks]; exact hb1, ?_⟩
              simp only [ho1, hnc, if_false]

/-- swap: the two containers exchange pools and blocks; no memory operation -/
theorem swap_spec {cs : CSys} (h0 : cs.sys.err = none) (d c : Nat)
    (hok : (cstep cs (.swap d c)).sys.err = none) :
    ∃ de ce, de ∈ cs.ents ∧ de.eid = d ∧ ce ∈ cs.ents ∧ ce.eid = c ∧
      (⟨d, ce.pid⟩ : Ent) ∈ (cstep cs (.swap d c)).ents ∧ (⟨c, de.pid⟩ : Ent) ∈ (cstep cs (.swap d c)).ents ∧
      (cstep cs (.swap d c)).sys = cs.sys ∧
      (∀ i, cs.own i = c → (cstep cs (.swap d c)).own i = d) ∧
      (∀ i, cs.own i = d → (cstep cs (.swap d c)).own i = c) ∧
      (∀ i, cs.own i ≠ c → cs.own i ≠ d → (cstep cs (.swap d c)).own i = cs.own i) := by
  unfold cstep at hok ⊢
  have he : ¬ cs.sys.err.isSome = true := by simp [h0]
  rw [if_neg he] at hok ⊢
  simp only at hok ⊢
  cases hs : findEnt cs d with
  | none => simp only [hs] at hok; rw [cfail_err cs h0] at hok; cases hok
  | some de =>
    cases hs2 : findEnt cs c with
    | none => simp only [hs, hs2] at hok; rw [cfail_err cs h0] at hok; cases hok
    | some ce =>
      simp only [hs, hs2] at hok ⊢
      by_cases hp : (!pocs) = true
      · rw [if_pos hp] at hok; rw [cfail_err cs h0] at hok; cases hok
      · rw [if_neg hp]
        obtain ⟨hde, hded⟩ := findEnt_some hs
        obtain ⟨hce, hcec⟩ := findEnt_some hs2
        refine ⟨de, ce, hde, hded, hce, hcec, ?_, ?_, rfl, ?_, ?_, ?_⟩
        · exact List.mem_map.mpr ⟨ce, hce, by simp [swapName, hcec]⟩
        · exact List.mem_map.mpr ⟨de, hde, by simp [swapName, hded]⟩
        · intro i hi; simp [swapName, hi]
        · intro i hi; simp [swapName, hi]
        · intro i h1 h2; simp [swapName, h1, h2]

end Momo.PoolAlloc
