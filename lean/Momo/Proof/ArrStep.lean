import Momo.Proof.ArrOps
/-!
  C05, part 4 of the lemmas: every operation of `momo::Array` refines the reference sequence (`step_cells`).
-/ 
namespace Momo.Arr
variable {α : Type} [Inhabited α]
set_option linter.unusedSectionVars false

/-! ### every operation refines the reference sequence -/

theorem read_live (xs : List α) (item : Ref α) (h : Spec.refOk xs item) :
    item.read (xs.map Cell.live) = .live (Spec.refVal xs item) := by
  match item, h with
  | .ext (.live x), _ => rfl
  | .elem j, h =>
    have hj : j < xs.length := h
    simp only [Ref.read, Spec.refVal]
    rw [cellAt_map_live xs j hj]
    simp [List.getD_eq_getElem?_getD, hj]

theorem insertN_eq_insertList (xs : List α) (index count : Nat) (x : α) :
    Spec.insertN xs index count x = Spec.insertList xs index (List.replicate count x) := rfl

/-- `insertNogrowR … [ext (live v)]` (the `ArrayItemHandler` form used by `InsertCrt`) -/
theorem insert_handler (keeps mv : Bool) (xs : List α) (index : Nat) (v : α) (hi : index ≤ xs.length) :
    insertNogrowR keeps mv (xs.map Cell.live) index [.ext (.live v)] = (Spec.insertN xs index 1 v).map Cell.live :=
  insertNogrowR_spec keeps mv xs index [.ext (.live v)] [v] hi ⟨good_ext mv index _ (.live v), trivial⟩

theorem insertCrt_cells (cfg : Cfg) (s : State α) (xs : List α) (index : Nat) (item : Ref α)
    (hs : s.cells = xs.map Cell.live) (hi : index ≤ xs.length) (hr : Spec.refOk xs item) :
    (insertCrt cfg s index false item).1.cells = (Spec.insertN xs index 1 (Spec.refVal xs item)).map Cell.live := by
  unfold insertCrt
  simp only [Ref.taken, Bool.false_eq_true, if_false]
  split
  · simp only [withCells]
    have : ({ s with cells := s.cells } : State α) = s := by cases s; rfl
    rw [this, grow_cells cfg s _ false (by omega), hs, read_live xs item hr]
    exact insert_handler cfg.keeps true xs index _ hi
  · simp only [hs, read_live xs item hr]
    exact insert_handler cfg.keeps true xs index _ hi

theorem insertList_cons (xs : List α) (index : Nat) (y : α) (ys : List α) (hi : index ≤ xs.length) :
    Spec.insertList (Spec.insertN xs index 1 y) (index + 1) ys = Spec.insertList xs index (y :: ys) := by
  simp only [Spec.insertList, Spec.insertN, List.replicate_one]
  have hA : (xs.take index ++ [y]).length = index + 1 := by simp [Nat.min_eq_left hi]
  have h1 : (xs.take index ++ [y] ++ xs.drop index).take (index + 1) = xs.take index ++ [y] := List.take_left' hA
  have h2 : (xs.take index ++ [y] ++ xs.drop index).drop (index + 1) = xs.drop index := List.drop_left' hA
  rw [h1, h2]; simp

theorem insertInput_cells (cfg : Cfg) : ∀ (ys : List α) (s : State α) (xs : List α) (index : Nat),
    s.cells = xs.map Cell.live → index ≤ xs.length →
    (insertInput cfg s index (ys.map Cell.live)).1.cells = (Spec.insertList xs index ys).map Cell.live
  | [], s, xs, index, hs, _ => by simp [insertInput, Spec.insertList, hs]
  | y :: ys, s, xs, index, hs, hi => by
    simp only [List.map_cons, insertInput]
    have h1 := insertCrt_cells cfg s xs index (.ext (.live y)) hs hi trivial
    have hlen : index + 1 ≤ (Spec.insertN xs index 1 y).length := by
      simp [Spec.insertN]; omega
    rw [insertInput_cells cfg ys _ (Spec.insertN xs index 1 y) (index + 1) h1 hlen, insertList_cons xs index y ys hi]

theorem aliasAtOrAfter_false (s : State α) (xs : List α) (index : Nat) (item : Ref α)
    (hs : s.cells = xs.map Cell.live) (hr : Spec.refOk xs item)
    (h : aliasAtOrAfter s index item = false) :
    Good false index (xs.map Cell.live) item (.live (Spec.refVal xs item)) := by
  match item, hr with
  | .ext (.live y), _ => exact good_ext false index _ (.live y)
  | .elem j, hr =>
    have hj : j < xs.length := hr
    have hlt : j < index := by
      simp [aliasAtOrAfter, indexOf, hs, hj] at h
      exact h
    have := good_elem index (xs.map Cell.live) j hlt
    rw [cellAt_map_live xs j hj] at this
    simpa [Spec.refVal, List.getD_eq_getElem?_getD, hj] using this

theorem insertN_cells (cfg : Cfg) (s : State α) (xs : List α) (index count : Nat) (item : Ref α)
    (hs : s.cells = xs.map Cell.live) (hi : index ≤ xs.length) (hr : Spec.refOk xs item) :
    (insertN cfg s index count item).1.cells = (Spec.insertN xs index count (Spec.refVal xs item)).map Cell.live := by
  unfold insertN
  split
  · simp only [withCells]
    rw [grow_cells cfg s _ false (by omega), hs, read_live xs item hr]
    exact insertNogrowN_spec cfg.keeps xs index count _ _ hi (good_ext false index _ _)
  · split
    · simp only [hs, read_live xs item hr]
      exact insertNogrowN_spec cfg.keeps xs index count _ _ hi (good_ext false index _ _)
    · rename_i _ ha
      simp only [hs]
      exact insertNogrowN_spec cfg.keeps xs index count item _ hi
        (aliasAtOrAfter_false s xs index item hs hr (by simpa using ha))

theorem insertRange_cells (cfg : Cfg) (s : State α) (xs ys : List α) (index : Nat)
    (hs : s.cells = xs.map Cell.live) (hi : index ≤ xs.length) :
    (insertRange cfg s index (ys.map Cell.live)).1.cells = (Spec.insertList xs index ys).map Cell.live := by
  unfold insertRange
  split
  · simp only [withCells]
    rw [grow_cells cfg s _ false (by omega), hs]
    exact insertNogrowR_spec cfg.keeps false xs index _ ys hi (goodAll_ext false index _ _)
  · simp only [hs]
    exact insertNogrowR_spec cfg.keeps false xs index _ ys hi (goodAll_ext false index _ _)

theorem addBackGrowCrt_cells (cfg : Cfg) (s : State α) (item : Ref α) :
    (addBackGrowCrt cfg s false item).1.cells = s.cells ++ [item.read s.cells] := by
  unfold addBackGrowCrt
  rw [reset_cells]
  · simp [Ref.taken]
  · intro h0
    have := growCapacity_ge cfg.growOnReserve (capacity cfg s) (s.cells.length + 1) false false
    omega

theorem setCount_cells (cfg : Cfg) (s : State α) (xs : List α) (count : Nat) (item : Ref α)
    (hs : s.cells = xs.map Cell.live) (hr : Spec.refOk xs item) :
    (setCount cfg s count item).1.cells = (Spec.setCount xs count (Spec.refVal xs item)).map Cell.live := by
  have hn : s.cells.length = xs.length := by simp [hs]
  unfold setCount Spec.setCount
  rw [hn]
  split
  · rename_i h
    simp only [removeBack]
    rw [hs]
    simp only [List.length_map, List.map_take]
    congr 1; omega
  · have hrep : s.cells ++ List.replicate (count - xs.length) (item.read s.cells) =
        (xs ++ List.replicate (count - xs.length) (Spec.refVal xs item)).map Cell.live := by
      rw [hs, read_live xs item hr]; simp
    split
    · exact hrep
    · rename_i h1 h2
      rw [reset_cells _ _ _ _ (by
        intro h0
        have := growCapacity_ge cfg.growOnReserve (capacity cfg s) count true false
        omega)]
      exact hrep

/-- **every operation refines the reference sequence**: for every configuration (item kind, internal capacity,
    memory-manager abilities), every index, every count including 0, every value argument that is an external
    value or any element of the same array -/
theorem step_cells (cfg : Cfg) (s : State α) (xs : List α) (op : Op α)
    (hs : s.cells = xs.map Cell.live) (hv : Spec.valid xs op) :
    (step cfg s op).1.cells = (Spec.step xs op).map Cell.live := by
  cases op with
  | addBackCopy item =>
    have hr : Spec.refOk xs item := hv
    simp only [step, Spec.step, addBackCopy]
    split
    · simp [hs, read_live xs item hr]
    · split
      · simp only [withCells]
        rw [grow_cells cfg s _ false (by omega), hs, read_live xs item hr]; simp
      · rw [addBackGrowCrt_cells, hs, read_live xs item hr]; simp
  | addBackCrt item =>
    have hr : Spec.refOk xs item := hv
    simp only [step, Spec.step, addBackCrt]
    split
    · simp [hs, read_live xs item hr, Ref.taken]
    · rw [addBackGrowCrt_cells, hs, read_live xs item hr]; simp
  | insertCrt index item => exact insertCrt_cells cfg s xs index item hs hv.1 hv.2
  | insertN index count item => exact insertN_cells cfg s xs index count item hs hv.1 hv.2
  | insertRange index ys => exact insertRange_cells cfg s xs ys index hs hv
  | insertInput index ys => exact insertInput_cells cfg ys s xs index hs hv
  | removeBack count =>
    simp [step, Spec.step, removeBack, hs, List.map_take]
  | remove index count =>
    simp only [step, Spec.step, removeOp, hs]
    exact remove_spec cfg.keeps xs index count hv
  | removeIf p =>
    simp only [step, Spec.step, removeIfOp, hs, removeIf_spec, filter_map_live]
  | setCount count item => exact setCount_cells cfg s xs count item hs hv
  | reserve n =>
    simp only [step, Spec.step, reserve]
    split
    · rw [grow_cells cfg s n true (by omega), hs]
    · exact hs
  | shrink n =>
    simp only [step, Spec.step, shrink]
    split
    · exact hs
    · rw [moveTo_cells, hs]
      intro h0
      have : s.cells.length = 0 := by
        have : s.cells.length ≤ Nat.max n s.cells.length := Nat.le_max_right _ _
        omega
      exact List.eq_nil_of_length_eq_zero this
  | clear f =>
    simp only [step, Spec.step, clear]
    split
    · simp [destroy, State.init]
    · simp [removeBack]
  | assignFill count item =>
    have hr : Spec.refOk xs item := hv
    simp [step, Spec.step, assignFill, newFill, withCells, hs, read_live xs item hr]
  | assignRange ys => simp [step, Spec.step, assignRange, newRange, withCells]
  | setItem j x => simp [step, Spec.step, setItem, hs, List.map_set]
  | oracle b => simpa [step, Spec.step] using hs

/-! ### the representation invariant is kept and the capacity always suffices -/

/-- the storage of `s` is well formed and has room for `m` items -/
def Fits (cfg : Cfg) (s : State α) (m : Nat) : Prop :=
  m ≤ capacity cfg s ∧ (s.internal = false → s.cap ≠ 0 → s.cap > cfg.intCap) ∧
  (s.internal = true → cfg.intCap > 0) ∧ (s.internal = false → s.cap = 0 → cfg.intCap = 0)

theorem wf_iff_fits (cfg : Cfg) (s : State α) : WF cfg s ↔ Fits cfg s s.cells.length :=
  ⟨fun w => ⟨w.count_le, w.ext_gt, w.int_pos, w.null_only⟩, fun f => ⟨f.1, f.2.1, f.2.2.1, f.2.2.2⟩⟩

theorem Fits.mono {cfg : Cfg} {s : State α} {m k : Nat} (f : Fits cfg s m) (h : k ≤ m) : Fits cfg s k :=
  ⟨Nat.le_trans h f.1, f.2⟩

theorem fits_with_cells (cfg : Cfg) (s : State α) (cs : Cells α) (m : Nat) :
    Fits cfg { s with cells := cs } m ↔ Fits cfg s m := Iff.rfl

theorem fits_with_oracle (cfg : Cfg) (s : State α) (b : Bool) (m : Nat) :
    Fits cfg { s with oracle := b } m ↔ Fits cfg s m := Iff.rfl

theorem fits_withCells (cfg : Cfg) (r : State α × List Ev) (f : Cells α → Cells α) (m : Nat) :
    Fits cfg (withCells r f).1 m ↔ Fits cfg r.1 m := Iff.rfl

theorem grow_fits (cfg : Cfg) (s : State α) (m : Nat) (r : Bool) (w : WF cfg s) (h : s.cells.length ≤ m) :
    Fits cfg (grow cfg s m r).1 m := by
  obtain ⟨w', hc⟩ := grow_wf cfg s m r w h
  exact ⟨hc, w'.ext_gt, w'.int_pos, w'.null_only⟩

theorem reset_fits (cfg : Cfg) (s : State α) (newCap : Nat) (cs : Cells α) :
    Fits cfg (reset cfg s newCap cs).1 newCap := by
  have h := reset_wf cfg s newCap (List.replicate newCap Cell.moved) (by simp)
  have e : ∀ cs', (reset cfg s newCap cs').1.cap = (reset cfg s newCap cs).1.cap ∧
      (reset cfg s newCap cs').1.internal = (reset cfg s newCap cs).1.internal := by
    intro cs'; unfold reset; repeat' split
    all_goals exact ⟨rfl, rfl⟩
  obtain ⟨e1, e2⟩ := e (List.replicate newCap Cell.moved)
  obtain ⟨w, hc⟩ := h
  refine ⟨?_, ?_, ?_, ?_⟩
  · simpa [capacity, e1, e2] using hc
  · rw [← e1, ← e2]; exact w.ext_gt
  · rw [← e2]; exact w.int_pos
  · rw [← e1, ← e2]; exact w.null_only

theorem newCap_fits (cfg : Cfg) (n : Nat) : Fits cfg (newCap cfg n : State α × List Ev).1 n := by
  unfold newCap
  split
  · rename_i h
    refine ⟨by simp [capacity], ?_, ?_, ?_⟩ <;> simp
    · intro _; exact h
    · omega
  · have w := wf_init (α := α) cfg
    show Fits cfg (State.init cfg) n
    refine ⟨?_, w.ext_gt, w.int_pos, w.null_only⟩
    have := w.cap_ge
    omega

theorem insertCrt_fits (cfg : Cfg) (s : State α) (index : Nat) (item : Ref α) (w : WF cfg s) :
    Fits cfg (insertCrt cfg s index false item).1 (s.cells.length + 1) := by
  unfold insertCrt
  simp only [Ref.taken, Bool.false_eq_true, if_false]
  have : ({ s with cells := s.cells } : State α) = s := by cases s; rfl
  split
  · rw [fits_withCells, this]; exact grow_fits cfg s _ false w (by omega)
  · rename_i h
    show Fits cfg s _
    exact ⟨by omega, w.ext_gt, w.int_pos, w.null_only⟩

theorem insertInput_wf (cfg : Cfg) : ∀ (ys : List α) (s : State α) (xs : List α) (index : Nat),
    WF cfg s → s.cells = xs.map Cell.live → index ≤ xs.length →
    WF cfg (insertInput cfg s index (ys.map Cell.live)).1
  | [], s, _, _, w, _, _ => by simpa [insertInput] using w
  | y :: ys, s, xs, index, w, hs, hi => by
    simp only [List.map_cons, insertInput]
    have h1 := insertCrt_cells cfg s xs index (.ext (.live y)) hs hi trivial
    have hf := insertCrt_fits cfg s index (.ext (.live y)) w
    have hw : WF cfg (insertCrt cfg s index false (.ext (.live y))).1 := by
      rw [wf_iff_fits, h1]
      refine hf.mono ?_
      simp [Spec.insertN, hs]; omega
    have hlen : index + 1 ≤ (Spec.insertN xs index 1 y).length := by
      simp [Spec.insertN]; omega
    exact insertInput_wf cfg ys _ (Spec.insertN xs index 1 y) (index + 1) hw h1 hlen

theorem step_fits (cfg : Cfg) (s : State α) (xs : List α) (op : Op α) (w : WF cfg s)
    (hs : s.cells = xs.map Cell.live) (hv : Spec.valid xs op) :
    Fits cfg (step cfg s op).1 (Spec.step xs op).length := by
  have hn : s.cells.length = xs.length := by simp [hs]
  have fs : Fits cfg s xs.length := hn ▸ (wf_iff_fits cfg s).1 w
  cases op with
  | addBackCopy item =>
    simp only [step, Spec.step, addBackCopy, List.length_append, List.length_singleton]
    split
    · rename_i h; exact ⟨by rw [← hn]; exact h, fs.2⟩
    · split
      · rw [fits_withCells, ← hn]; exact grow_fits cfg s _ false w (by omega)
      · unfold addBackGrowCrt
        exact (reset_fits cfg s _ _).mono (by
          have := growCapacity_ge cfg.growOnReserve (capacity cfg s) (s.cells.length + 1) false false
          omega)
  | addBackCrt item =>
    simp only [step, Spec.step, addBackCrt, List.length_append, List.length_singleton]
    split
    · rename_i h; exact ⟨by rw [← hn]; exact h, fs.2⟩
    · unfold addBackGrowCrt
      exact (reset_fits cfg s _ _).mono (by
        have := growCapacity_ge cfg.growOnReserve (capacity cfg s) (s.cells.length + 1) false false
        omega)
  | insertCrt index item =>
    simp only [step, Spec.step]
    refine (insertCrt_fits cfg s index item w).mono ?_
    simp [Spec.insertN]; have := hv.1; omega
  | insertN index count item =>
    have hl : (Spec.insertN xs index count (Spec.refVal xs item)).length = s.cells.length + count := by
      simp [Spec.insertN]; have := hv.1; omega
    simp only [step, Spec.step, insertN, hl]
    split
    · rw [fits_withCells]; exact grow_fits cfg s _ false w (by omega)
    · rename_i h
      split <;> (show Fits cfg s _; exact ⟨by omega, fs.2⟩)
  | insertRange index ys =>
    have hl : (Spec.insertList xs index ys).length = s.cells.length + (ys.map Cell.live).length := by
      simp [Spec.insertList]; have : index ≤ xs.length := hv; omega
    simp only [step, Spec.step, insertRange, hl]
    split
    · rw [fits_withCells]; exact grow_fits cfg s _ false w (by omega)
    · rename_i h
      show Fits cfg s _
      exact ⟨by omega, fs.2⟩
  | insertInput index ys =>
    simp only [step, Spec.step]
    have hw := insertInput_wf cfg ys s xs index w hs hv
    have hc := insertInput_cells cfg ys s xs index hs hv
    have := (wf_iff_fits cfg _).1 hw
    rw [hc] at this
    simpa using this
  | removeBack count =>
    simp only [step, Spec.step, removeBack]
    exact fs.mono (by simp)
  | remove index count =>
    simp only [step, Spec.step, removeOp]
    exact fs.mono (by simp [Spec.remove]; omega)
  | removeIf p =>
    simp only [step, Spec.step, removeIfOp]
    exact fs.mono (List.length_filter_le _ _)
  | setCount count item =>
    simp only [step, Spec.step, setCount, Spec.setCount, hn]
    split
    · rename_i h
      simp only [removeBack]
      exact fs.mono (by simp; omega)
    · rename_i h
      have hl : (xs ++ List.replicate (count - xs.length) (Spec.refVal xs item)).length = count := by simp; omega
      rw [hl]
      split
      · rename_i h2; exact ⟨h2, fs.2⟩
      · exact (reset_fits cfg s _ _).mono (growCapacity_ge _ _ _ _ _)
  | reserve n =>
    simp only [step, Spec.step, reserve]
    split
    · rename_i h
      exact (grow_fits cfg s n true w (by have := w.count_le; omega)).mono (by have := w.count_le; omega)
    · exact fs
  | shrink n =>
    simp only [step, Spec.step, shrink]
    split
    · exact fs
    · obtain ⟨w', _⟩ := moveTo_wf cfg s (Nat.max n s.cells.length) (Nat.max n s.cells.length) w
        (Nat.le_max_right _ _) (Nat.le_max_right _ _)
      have := (wf_iff_fits cfg _).1 w'
      rw [moveTo_cells cfg s _ _ (by
        intro h0
        have : s.cells.length ≤ Nat.max n s.cells.length := Nat.le_max_right _ _
        exact List.eq_nil_of_length_eq_zero (by omega))] at this
      exact this.mono (by omega)
  | clear f =>
    simp only [step, Spec.step, clear, List.length_nil]
    split
    · have w0 := wf_init (α := α) cfg
      exact ⟨Nat.zero_le _, w0.ext_gt, w0.int_pos, w0.null_only⟩
    · exact fs.mono (Nat.zero_le _)
  | assignFill count item =>
    simp only [step, Spec.step, assignFill, newFill, List.length_replicate]
    exact newCap_fits cfg count
  | assignRange ys =>
    simp only [step, Spec.step, assignRange, newRange]
    show Fits cfg (newCap cfg (ys.map Cell.live).length).1 ys.length
    rw [List.length_map]
    exact newCap_fits cfg ys.length
  | setItem j x =>
    simp only [step, Spec.step, setItem, List.length_set]
    exact fs
  | oracle b =>
    simp only [step, Spec.step]
    exact fs

/-- **the representation invariant is kept by every operation** — in particular `mCount <= GetCapacity()`: the
    capacity obtained by `pvGrow`/`Reset` always suffices for what `InsertNogrow`/`AddBackNogrow` then add -/
theorem step_wf (cfg : Cfg) (s : State α) (xs : List α) (op : Op α) (w : WF cfg s)
    (hs : s.cells = xs.map Cell.live) (hv : Spec.valid xs op) : WF cfg (step cfg s op).1 := by
  rw [wf_iff_fits, step_cells cfg s xs op hs hv, List.length_map]
  exact step_fits cfg s xs op w hs hv

/-! ### histories -/

theorem run_refines (cfg : Cfg) : ∀ (ops : List (Op α)) (s : State α) (xs : List α),
    WF cfg s → s.cells = xs.map Cell.live → Spec.validAll xs ops →
    (run cfg s ops).1.cells = (Spec.run xs ops).map Cell.live ∧ WF cfg (run cfg s ops).1
  | [], s, xs, w, hs, _ => ⟨hs, w⟩
  | op :: ops, s, xs, w, hs, hv => by
    simp only [run, Spec.run]
    exact run_refines cfg ops _ _ (step_wf cfg s xs op w hs hv.1) (step_cells cfg s xs op hs hv.1) hv.2

/-! ### the reserve clause -/

/-- operations that change the size or single elements (everything except `Reserve`, `Shrink`, `Clear(true)` and
    whole-container assignment) -/
def Op.sizeOp : Op α → Prop
  | .reserve _ => False
  | .shrink _ => False
  | .clear f => f = false
  | .assignFill _ _ => False
  | .assignRange _ => False
  | _ => True

/-- every intermediate size of the history stays within `n` -/
def sizesLe : List α → List (Op α) → Nat → Prop
  | _, [], _ => True
  | xs, op :: ops, n => (Spec.step xs op).length ≤ n ∧ sizesLe (Spec.step xs op) ops n

theorem insertCrt_noalloc (cfg : Cfg) (s : State α) (index : Nat) (item : Ref α)
    (h : s.cells.length + 1 ≤ capacity cfg s) :
    (insertCrt cfg s index false item).2 = [] ∧ capacity cfg (insertCrt cfg s index false item).1 = capacity cfg s := by
  unfold insertCrt
  rw [if_neg (by omega)]
  exact ⟨rfl, rfl⟩

theorem insertInput_noalloc (cfg : Cfg) : ∀ (ys : List α) (s : State α) (xs : List α) (index : Nat),
    s.cells = xs.map Cell.live → index ≤ xs.length → xs.length + ys.length ≤ capacity cfg s →
    (insertInput cfg s index (ys.map Cell.live)).2 = [] ∧
    capacity cfg (insertInput cfg s index (ys.map Cell.live)).1 = capacity cfg s
  | [], s, _, _, _, _, _ => ⟨rfl, rfl⟩
  | y :: ys, s, xs, index, hs, hi, hc => by
    simp only [List.map_cons, insertInput]
    have hn : s.cells.length = xs.length := by simp [hs]
    simp only [List.length_cons] at hc
    obtain ⟨e1, c1⟩ := insertCrt_noalloc cfg s index (.ext (.live y)) (by omega)
    have h1 := insertCrt_cells cfg s xs index (.ext (.live y)) hs hi trivial
    have hlen : (Spec.insertN xs index 1 y).length = xs.length + 1 := by simp [Spec.insertN]; omega
    obtain ⟨e2, c2⟩ := insertInput_noalloc cfg ys _ (Spec.insertN xs index 1 y) (index + 1) h1 (by omega)
      (by rw [c1, hlen]; omega)
    exact ⟨by rw [e1, e2]; rfl, by rw [c2, c1]⟩

/-- a size-changing operation whose result fits into the current capacity calls the memory manager not at all
    and leaves the capacity as it is -/
theorem step_noalloc (cfg : Cfg) (s : State α) (xs : List α) (op : Op α)
    (hs : s.cells = xs.map Cell.live) (hv : Spec.valid xs op) (hop : op.sizeOp)
    (hfit : (Spec.step xs op).length ≤ capacity cfg s) :
    (step cfg s op).2 = [] ∧ capacity cfg (step cfg s op).1 = capacity cfg s := by
  have hn : s.cells.length = xs.length := by simp [hs]
  cases op with
  | addBackCopy item =>
    simp only [Spec.step, List.length_append, List.length_singleton] at hfit
    simp only [step, addBackCopy]
    rw [if_pos (by omega)]; exact ⟨rfl, rfl⟩
  | addBackCrt item =>
    simp only [Spec.step, List.length_append, List.length_singleton] at hfit
    simp only [step, addBackCrt]
    rw [if_pos (by omega)]; exact ⟨rfl, rfl⟩
  | insertCrt index item =>
    have : (Spec.insertN xs index 1 (Spec.refVal xs item)).length = xs.length + 1 := by
      simp [Spec.insertN]; have := hv.1; omega
    simp only [Spec.step, this] at hfit
    exact insertCrt_noalloc cfg s index item (by omega)
  | insertN index count item =>
    have : (Spec.insertN xs index count (Spec.refVal xs item)).length = xs.length + count := by
      simp [Spec.insertN]; have := hv.1; omega
    simp only [Spec.step, this] at hfit
    simp only [step, insertN]
    rw [if_neg (by omega)]
    split <;> exact ⟨rfl, rfl⟩
  | insertRange index ys =>
    have : (Spec.insertList xs index ys).length = xs.length + ys.length := by
      simp [Spec.insertList]; have : index ≤ xs.length := hv; omega
    simp only [Spec.step, this] at hfit
    simp only [step, insertRange, List.length_map]
    rw [if_neg (by omega)]
    exact ⟨rfl, rfl⟩
  | insertInput index ys =>
    have : (Spec.insertList xs index ys).length = xs.length + ys.length := by
      simp [Spec.insertList]; have : index ≤ xs.length := hv; omega
    simp only [Spec.step, this] at hfit
    exact insertInput_noalloc cfg ys s xs index hs hv hfit
  | removeBack count => exact ⟨rfl, rfl⟩
  | remove index count => exact ⟨rfl, rfl⟩
  | removeIf p => exact ⟨rfl, rfl⟩
  | setCount count item =>
    simp only [step, setCount]
    split
    · exact ⟨rfl, rfl⟩
    · rename_i h
      have : (Spec.setCount xs count (Spec.refVal xs item)).length = count := by
        simp [Spec.setCount]; split <;> simp <;> omega
      simp only [Spec.step, this] at hfit
      rw [if_pos hfit]; exact ⟨rfl, rfl⟩
  | reserve n => exact hop.elim
  | shrink n => exact hop.elim
  | clear f =>
    have : f = false := hop
    subst this
    exact ⟨rfl, rfl⟩
  | assignFill count item => exact hop.elim
  | assignRange ys => exact hop.elim
  | setItem j x => exact ⟨rfl, rfl⟩
  | oracle b => exact ⟨rfl, rfl⟩

theorem run_noalloc (cfg : Cfg) (n : Nat) : ∀ (ops : List (Op α)) (s : State α) (xs : List α),
    WF cfg s → s.cells = xs.map Cell.live → n ≤ capacity cfg s → (∀ op ∈ ops, op.sizeOp) →
    Spec.validAll xs ops → sizesLe xs ops n → (run cfg s ops).2 = []
  | [], _, _, _, _, _, _, _, _ => rfl
  | op :: ops, s, xs, w, hs, hc, hop, hv, hsz => by
    simp only [run]
    obtain ⟨e, c⟩ := step_noalloc cfg s xs op hs hv.1 (hop op (by simp)) (Nat.le_trans hsz.1 hc)
    rw [e, List.nil_append]
    exact run_noalloc cfg n ops _ _ (step_wf cfg s xs op w hs hv.1) (step_cells cfg s xs op hs hv.1) (by rw [c]; exact hc)
      (fun o ho => hop o (by simp [ho])) hv.2 hsz.2

/-- `Reserve(n)`: afterwards the capacity is at least `n`, the elements are unchanged, the invariant holds -/
theorem reserve_spec (cfg : Cfg) (s : State α) (n : Nat) (w : WF cfg s) :
    n ≤ capacity cfg (reserve cfg s n).1 ∧ (reserve cfg s n).1.cells = s.cells ∧ WF cfg (reserve cfg s n).1 := by
  unfold reserve
  split
  · rename_i h
    have hlen : s.cells.length ≤ n := by have := w.count_le; omega
    obtain ⟨w', hc⟩ := grow_wf cfg s n true w hlen
    exact ⟨hc, grow_cells cfg s n true (by omega), w'⟩
  · exact ⟨(by omega : n ≤ capacity cfg s), rfl, w⟩

/-! ### rvalue arguments that are elements of the same array -/

theorem insCells_set (a vs : Cells α) (index j : Nat) (c : Cell α) (hi : index ≤ a.length) (hj : j < a.length) :
    insCells (a.set j c) index vs = (insCells a index vs).set (if j < index then j else j + vs.length) c := by
  have hl : (a.set j c).length = a.length := by simp
  apply ext_cellAt
  · rw [List.length_set, insCells_length _ _ _ hi, insCells_length _ _ _ (by rw [hl]; exact hi), hl]
  · intro k hk
    rw [insCells_length _ _ _ (by rw [hl]; exact hi), hl] at hk
    by_cases hji : j < index
    · simp only [hji, if_true]
      by_cases hkj : k = j
      · subst hkj
        rw [cellAt_set_eq _ _ _ (by rw [insCells_length _ _ _ hi]; omega),
          insCells_lo _ _ _ _ (by rw [hl]; exact hi) hji, cellAt_set_eq _ _ _ hj]
      · rw [cellAt_set_ne _ _ _ _ (by omega)]
        by_cases h1 : k < index
        · rw [insCells_lo _ _ _ _ (by rw [hl]; exact hi) h1, insCells_lo _ _ _ _ hi h1, cellAt_set_ne _ _ _ _ (by omega)]
        · by_cases h2 : k < index + vs.length
          · rw [insCells_mid _ _ _ _ (by rw [hl]; exact hi) (by omega) h2, insCells_mid _ _ _ _ hi (by omega) h2]
          · rw [insCells_hi _ _ _ _ (by rw [hl]; exact hi) (by omega), insCells_hi _ _ _ _ hi (by omega),
              cellAt_set_ne _ _ _ _ (by omega)]
    · simp only [hji, if_false]
      by_cases hkj : k = j + vs.length
      · subst hkj
        rw [cellAt_set_eq _ _ _ (by rw [insCells_length _ _ _ hi]; omega),
          insCells_hi _ _ _ _ (by rw [hl]; exact hi) (by omega)]
        have : j + vs.length - vs.length = j := by omega
        rw [this, cellAt_set_eq _ _ _ hj]
      · rw [cellAt_set_ne _ _ _ _ (by omega)]
        by_cases h1 : k < index
        · rw [insCells_lo _ _ _ _ (by rw [hl]; exact hi) h1, insCells_lo _ _ _ _ hi h1, cellAt_set_ne _ _ _ _ (by omega)]
        · by_cases h2 : k < index + vs.length
          · rw [insCells_mid _ _ _ _ (by rw [hl]; exact hi) (by omega) h2, insCells_mid _ _ _ _ hi (by omega) h2]
          · rw [insCells_hi _ _ _ _ (by rw [hl]; exact hi) (by omega), insCells_hi _ _ _ _ hi (by omega),
              cellAt_set_ne _ _ _ _ (by omega)]

/-- what a move out of element `j` may leave there: the value (copy-like move, or the copy path of
    `RelocateCreate`) or a moved-from object -/
def LeftBehind (cfg : Cfg) (x : α) (c : Cell α) : Prop := c = .live x ∨ (cfg.keeps = false ∧ c = .moved)

theorem afterMove_left (cfg : Cfg) (x : α) : LeftBehind cfg x (afterMove cfg.keeps (.live x)) := by
  unfold afterMove LeftBehind
  cases cfg.keeps <;> simp

theorem set_same (xs : List α) (j : Nat) (hj : j < xs.length) :
    (xs.map Cell.live).set j (.live xs[j]) = xs.map Cell.live := by
  apply ext_cellAt (by simp)
  intro k _
  by_cases h : k = j
  · subst h; rw [cellAt_set_eq _ _ _ (by simpa using hj), cellAt_map_live xs k hj]
  · rw [cellAt_set_ne _ _ _ _ (by omega)]

/-- **`InsertCrt(index, Creator<Item&&>(array[j]))` = `emplace(pos, std::move(v[j]))`**: the new element is
    `xs[j]`, every other element is unchanged, the source element (now at `j` or `j+1`) is left behind -/
theorem insertCrt_move_elem (cfg : Cfg) (s : State α) (xs : List α) (index j : Nat)
    (hs : s.cells = xs.map Cell.live) (hi : index ≤ xs.length) (hj : j < xs.length) :
    (insertCrt cfg s index true (.elem j)).1.cells =
      ((Spec.insertN xs index 1 xs[j]).map Cell.live).set (if j < index then j else j + 1)
        (afterMove cfg.keeps (.live xs[j])) := by
  have hcell : cellAt (xs.map Cell.live) j = .live xs[j] := cellAt_map_live xs j hj
  have key : ∀ cs : Cells α, cs = (xs.map Cell.live).set j (afterMove cfg.keeps (.live xs[j])) →
      insertNogrowR cfg.keeps true cs index [.ext (.live xs[j])] =
        ((Spec.insertN xs index 1 xs[j]).map Cell.live).set (if j < index then j else j + 1)
          (afterMove cfg.keeps (.live xs[j])) := by
    intro cs hcs
    subst hcs
    rw [insertNogrowR_cells cfg.keeps true ((xs.map Cell.live).set j (afterMove cfg.keeps (.live xs[j]))) index
        [.ext (.live xs[j])] [.live xs[j]] (by simpa using hi)
        (show GoodAll true index _ [Ref.ext (Cell.live xs[j])] [Cell.live xs[j]] from ⟨good_ext true index _ _, trivial⟩),
      insCells_set _ _ index j _ (by simpa using hi) (by simpa using hj)]
    have : [Cell.live xs[j]] = [xs[j]].map Cell.live := rfl
    rw [this, insCells_live]; rfl
  unfold insertCrt
  simp only [Ref.taken, if_true, Ref.moveFrom, Ref.read, hs, hcell]
  split
  · simp only [withCells]
    rw [grow_cells _ _ _ false (by omega)]
    exact key _ rfl
  · exact key _ rfl

/-- **`Insert(index, std::move(array[j]))`** including the aliasing analysis of `Array::Insert(size_t, Item&&)` -/
theorem insertMove_elem (cfg : Cfg) (s : State α) (xs : List α) (index j : Nat)
    (hs : s.cells = xs.map Cell.live) (hi : index ≤ xs.length) (hj : j < xs.length) :
    (insertMove cfg s index (.elem j)).1.cells =
      ((Spec.insertN xs index 1 xs[j]).map Cell.live).set (if j < index then j else j + 1)
        (afterMove cfg.keeps (.live xs[j])) := by
  unfold insertMove
  split
  · exact insertCrt_move_elem cfg s xs index j hs hi hj
  · rename_i h
    simp only [Bool.or_eq_true, decide_eq_true_eq, not_or] at h
    have hlt : j < index := by
      have := h.2
      simp [aliasAtOrAfter, indexOf, hs, hj] at this
      exact this
    have hcell : cellAt (xs.map Cell.live) j = .live xs[j] := cellAt_map_live xs j hj
    simp only [hs, hlt, if_true]
    rw [insertNogrowR_move_elem cfg.keeps _ index j (by simpa using hi) hlt, hcell,
      insertNogrowR_cells cfg.keeps false (xs.map Cell.live) index [.elem j] [.live xs[j]] (by simpa using hi)
        (show GoodAll false index _ [Ref.elem j] [Cell.live xs[j]] from ⟨hcell ▸ good_elem index _ j hlt, trivial⟩)]
    have : [Cell.live xs[j]] = [xs[j]].map Cell.live := rfl
    rw [this, insCells_live]; rfl

/-- **`AddBack(std::move(array[j]))` = `push_back(std::move(v[j]))`**, all four code paths -/
theorem addBackMove_elem (cfg : Cfg) (s : State α) (xs : List α) (j : Nat)
    (hs : s.cells = xs.map Cell.live) (hj : j < xs.length) :
    ∃ c, LeftBehind cfg xs[j] c ∧
      (addBackMoveOp cfg s (.elem j)).1.cells = ((xs ++ [xs[j]]).map Cell.live).set j c := by
  have hcell : cellAt (xs.map Cell.live) j = .live xs[j] := cellAt_map_live xs j hj
  have key : (xs.map Cell.live).set j (afterMove cfg.keeps (.live xs[j])) ++ [Cell.live xs[j]] =
      ((xs ++ [xs[j]]).map Cell.live).set j (afterMove cfg.keeps (.live xs[j])) := by
    rw [List.map_append, List.set_append_left _ _ (by simpa using hj)]; rfl
  unfold addBackMoveOp
  split
  · exact ⟨_, afterMove_left cfg _, by simp only [Ref.moveFrom, Ref.read, hs, hcell]; exact key⟩
  · split
    · refine ⟨_, afterMove_left cfg _, ?_⟩
      simp only [withCells]
      rw [grow_cells _ _ _ false (by omega)]
      simp only [Ref.moveFrom, Ref.read, hs, hcell]; exact key
    · unfold addBackGrowCrt
      rw [reset_cells _ _ _ _ (by
        intro h0
        have := growCapacity_ge cfg.growOnReserve (capacity cfg s) (s.cells.length + 1) false false
        omega)]
      split
      · exact ⟨_, afterMove_left cfg _, by simp only [Ref.taken, if_true, Ref.moveFrom, Ref.read, hs, hcell]; exact key⟩
      · refine ⟨.live xs[j], Or.inl rfl, ?_⟩
        simp only [Ref.read, hs, hcell]
        have h2 : j < (xs ++ [xs[j]]).length := by simp; omega
        have h3 : (xs ++ [xs[j]])[j] = xs[j] := by simp [List.getElem_append_left hj]
        have := set_same (xs ++ [xs[j]]) j h2
        rw [h3] at this
        rw [this]; simp

/-- **`AddBackVar(std::move(array[j]))` = `emplace_back(std::move(v[j]))`** -/
theorem addBackCrt_move_elem (cfg : Cfg) (s : State α) (xs : List α) (j : Nat)
    (hs : s.cells = xs.map Cell.live) (hj : j < xs.length) :
    ∃ c, LeftBehind cfg xs[j] c ∧
      (addBackCrt cfg s true (.elem j)).1.cells = ((xs ++ [xs[j]]).map Cell.live).set j c := by
  have hcell : cellAt (xs.map Cell.live) j = .live xs[j] := cellAt_map_live xs j hj
  have key : (xs.map Cell.live).set j (afterMove cfg.keeps (.live xs[j])) ++ [Cell.live xs[j]] =
      ((xs ++ [xs[j]]).map Cell.live).set j (afterMove cfg.keeps (.live xs[j])) := by
    rw [List.map_append, List.set_append_left _ _ (by simpa using hj)]; rfl
  unfold addBackCrt
  split
  · exact ⟨_, afterMove_left cfg _, by simp only [Ref.taken, if_true, Ref.moveFrom, Ref.read, hs, hcell]; exact key⟩
  · unfold addBackGrowCrt
    rw [reset_cells _ _ _ _ (by
      intro h0
      have := growCapacity_ge cfg.growOnReserve (capacity cfg s) (s.cells.length + 1) false false
      omega)]
    split
    · exact ⟨_, afterMove_left cfg _, by simp only [Ref.taken, if_true, Ref.moveFrom, Ref.read, hs, hcell]; exact key⟩
    · refine ⟨.live xs[j], Or.inl rfl, ?_⟩
      simp only [Ref.read, hs, hcell]
      have h2 : j < (xs ++ [xs[j]]).length := by simp; omega
      have h3 : (xs ++ [xs[j]])[j] = xs[j] := by simp [List.getElem_append_left hj]
      have := set_same (xs ++ [xs[j]]) j h2
      rw [h3] at this
      rw [this]; simp

/-! ### copy, move, swap -/

theorem copyCtor_spec (cfg : Cfg) (src : State α) (f : Bool) (w : WF cfg src) :
    (copyCtor cfg src f).1.cells = src.cells ∧ WF cfg (copyCtor cfg src f).1 := by
  refine ⟨rfl, ?_⟩
  rw [wf_iff_fits]
  show Fits cfg (newCap cfg (if f then src.cells.length else capacity cfg src)).1 src.cells.length
  refine (newCap_fits cfg _).mono ?_
  split
  · exact Nat.le_refl _
  · exact w.count_le

theorem moveCtor_spec (cfg : Cfg) (src : State α) (w : WF cfg src) :
    (moveCtor cfg src).1.cells = src.cells ∧ (moveCtor cfg src).2.cells = [] ∧
    WF cfg (moveCtor cfg src).1 ∧ WF cfg (moveCtor cfg src).2 := by
  refine ⟨rfl, rfl, ⟨w.count_le, w.ext_gt, w.int_pos, w.null_only⟩, ?_⟩
  have w0 := wf_init (α := α) cfg
  exact ⟨w0.count_le, w0.ext_gt, w0.int_pos, w0.null_only⟩

theorem moveAssign_spec (cfg : Cfg) (dst src : State α) (w : WF cfg src) :
    (moveAssign cfg dst src).1.cells = src.cells ∧ (moveAssign cfg dst src).2.1.cells = [] ∧
    WF cfg (moveAssign cfg dst src).1 ∧ WF cfg (moveAssign cfg dst src).2.1 := by
  obtain ⟨_, _, w1, w2⟩ := moveCtor_spec cfg src w
  exact ⟨rfl, rfl, ⟨w1.count_le, w1.ext_gt, w1.int_pos, w1.null_only⟩, w2⟩

theorem copyAssign_spec (cfg : Cfg) (dst src : State α) (w : WF cfg src) :
    (copyAssign cfg dst src).1.cells = src.cells ∧ WF cfg (copyAssign cfg dst src).1 := by
  obtain ⟨_, w1⟩ := copyCtor_spec cfg src true w
  exact ⟨rfl, ⟨w1.count_le, w1.ext_gt, w1.int_pos, w1.null_only⟩⟩

theorem swap_spec (cfg : Cfg) (a b : State α) (wa : WF cfg a) (wb : WF cfg b) :
    (swap a b).1.cells = b.cells ∧ (swap a b).2.cells = a.cells ∧ WF cfg (swap a b).1 ∧ WF cfg (swap a b).2 :=
  ⟨rfl, rfl, ⟨wb.count_le, wb.ext_gt, wb.int_pos, wb.null_only⟩, ⟨wa.count_le, wa.ext_gt, wa.int_pos, wa.null_only⟩⟩

end Momo.Arr
