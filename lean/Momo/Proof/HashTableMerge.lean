import Momo.Proof.HashTableBulk
/-!
  C01/C11, part 8: `MergeTo`. The source is walked in iterator order; an item whose key is absent
  from the destination is added there (`pvAdd`, possibly growing and migrating the destination) and
  removed from the source in place. Result: the source keeps exactly the items whose key the
  destination already had, the destination gains the others; both invariants hold.
-/
namespace Momo.HT
open Momo Momo.Probe

/-! ### state-threading folds as a recursive function -/

/-- map over a list while threading a state and summing a counter -/
def mapState {α β σ : Type} (F : α → σ → β × σ × Nat) : List α → σ → List β × σ × Nat
  | [], s => ([], s, 0)
  | x :: xs, s =>
    ((F x s).1 :: (mapState F xs (F x s).2.1).1, (mapState F xs (F x s).2.1).2.1,
      (F x s).2.2 + (mapState F xs (F x s).2.1).2.2)

theorem foldl_acc3 {α β σ : Type} (F : α → σ → β × σ × Nat) (l : List α) (acc : List β) (s : σ) (n : Nat) :
    l.foldl (fun (a : List β × σ × Nat) x =>
        (a.1 ++ [(F x a.2.1).1], (F x a.2.1).2.1, a.2.2 + (F x a.2.1).2.2)) (acc, s, n)
      = (acc ++ (mapState F l s).1, (mapState F l s).2.1, n + (mapState F l s).2.2) := by
  induction l generalizing acc s n with
  | nil => simp [mapState]
  | cons x xs ih =>
    simp only [List.foldl_cons, ih, mapState, List.append_assoc, List.singleton_append, Nat.add_assoc]

/-- the generic invariant-threading lemma for `mapState` -/
theorem mapState_thread {α β σ : Type} (F : α → σ → β × σ × Nat) (itemsA : α → List Item)
    (itemsB : β → List Item) (Rel : β → α → Prop) (Pre : σ → List Item → Prop) (tr : σ → List Item)
    (Q : Item → Bool)
    (hstep : ∀ x s R, Pre s (itemsA x ++ R) →
      Pre (F x s).2.1 R ∧ Rel (F x s).1 x ∧ (tr (F x s).2.1).Perm ((itemsA x).filter Q ++ tr s) ∧
      (F x s).2.2 + (itemsB (F x s).1).length = (itemsA x).length) :
    ∀ (l : List α) (s : σ) (R : List Item), Pre s ((l.map itemsA).flatten ++ R) →
      Pre (mapState F l s).2.1 R ∧ List.Forall₂ Rel (mapState F l s).1 l ∧
      (tr (mapState F l s).2.1).Perm (((l.map itemsA).flatten).filter Q ++ tr s) ∧
      (mapState F l s).2.2 + (((mapState F l s).1.map itemsB).flatten).length
        = ((l.map itemsA).flatten).length := by
  intro l
  induction l with
  | nil =>
    intro s R h
    simp only [mapState, List.map_nil, List.flatten_nil, List.nil_append, List.filter_nil,
      List.length_nil] at h ⊢
    exact ⟨h, List.Forall₂.nil, List.Perm.refl _, by simp⟩
  | cons x xs ih =>
    intro s R h
    simp only [List.map_cons, List.flatten_cons, List.append_assoc] at h
    obtain ⟨a1, a2, a3, a4⟩ := hstep x s _ h
    obtain ⟨b1, b2, b3, b4⟩ := ih (F x s).2.1 R a1
    simp only [mapState, List.map_cons, List.flatten_cons, List.filter_append, List.length_append]
    refine ⟨b1, List.Forall₂.cons a2 b2, ?_, by omega⟩
    refine b3.trans (perm_of_count fun a => ?_)
    have := a3.count_eq a
    simp only [List.count_append] at this ⊢
    omega

/-! ### the precondition threaded through the merge -/

/-- `d` is the destination so far, `l` the source items still to be examined; `inK` = "key was in
    the destination at the start" -/
structure MPre (sp : Spec) (hf : Nat → Nat) (inK : Nat → Bool) (d : Table) (l : List Item) : Prop where
  inv : TableInv sp hf d
  sub : ∀ k, inK k = true → k ∈ (traverse d).map (·.key)
  nodup : (l.map (·.key)).Nodup
  fresh : ∀ x ∈ l, x.key ∈ (traverse d).map (·.key) → inK x.key = true

theorem MPre.drop_mid {sp : Spec} {hf : Nat → Nat} {inK : Nat → Bool} {d : Table} {A R : List Item}
    {it : Item} (h : MPre sp hf inK d (A ++ it :: R)) :
    MPre sp hf inK d (A ++ R) ∧ it.key ∉ (A ++ R).map (·.key) := by
  have hn := h.nodup
  simp only [List.map_append, List.map_cons] at hn
  rw [List.nodup_middle, List.nodup_cons] at hn
  refine ⟨⟨h.inv, h.sub, by simpa using hn.2, fun x hx => h.fresh x ?_⟩, by simpa using hn.1⟩
  rcases List.mem_append.mp hx with hx | hx
  · exact List.mem_append_left _ hx
  · exact List.mem_append_right _ (List.mem_cons_of_mem _ hx)

theorem faultsOK_default (sp : Spec) : FaultsOK sp {} := fun _ => rfl

/-! ### one bucket of the source -/

theorem mergeGo_spec (sp : Spec) (hf : Nat → Nat) (ok : SpecOK sp) (inK : Nat → Bool) :
    ∀ (i : Nat) (b : Bucket) (d : Table) (m : Nat) (R : List Item),
      MPre sp hf inK d (b.items.take i ++ R) →
      MPre sp hf inK (mergeTo.go sp hf i b d m).2.1 R ∧
      ((mergeTo.go sp hf i b d m).1.items).Perm
        ((b.items.take i).filter (fun x => inK x.key) ++ b.items.drop i) ∧
      (traverse (mergeTo.go sp hf i b d m).2.1).Perm
        ((b.items.take i).filter (fun x => !inK x.key) ++ traverse d) ∧
      (mergeTo.go sp hf i b d m).1.wasFull = b.wasFull ∧
      (mergeTo.go sp hf i b d m).1.bst = b.bst ∧
      (mergeTo.go sp hf i b d m).2.2 + (mergeTo.go sp hf i b d m).1.items.length = m + b.items.length := by
  intro i
  induction i with
  | zero =>
    intro b d m R h
    simp only [mergeTo.go, List.take_zero, List.nil_append, List.filter_nil, List.drop_zero] at h ⊢
    exact ⟨h, List.Perm.refl _, List.Perm.refl _, by simp, by simp, by simp⟩
  | succ i ih =>
    intro b d m R h
    simp only [mergeTo.go]
    cases hi : b.items[i]? with
    | none =>
      simp only
      have hle : b.items.length ≤ i := by simpa using hi
      rw [List.take_of_length_le (by omega : b.items.length ≤ i + 1)] at h ⊢
      rw [List.drop_of_length_le (by omega : b.items.length ≤ i + 1)]
      have := ih b d m R (by rw [List.take_of_length_le hle]; exact h)
      rw [List.take_of_length_le hle, List.drop_of_length_le hle] at this
      exact this
    | some it =>
      simp only
      obtain ⟨hilt, hget⟩ := List.getElem?_eq_some_iff.mp hi
      have htake : b.items.take (i + 1) = b.items.take i ++ [it] := by
        rw [List.take_add_one, hi]; rfl
      have hdrop : b.items.drop i = it :: b.items.drop (i + 1) := by
        rw [List.drop_eq_getElem_cons hilt, hget]
      rw [htake] at h ⊢
      have h' : MPre sp hf inK d (b.items.take i ++ it :: R) := by
        simpa [List.append_assoc] using h
      obtain ⟨hmid, hitfresh⟩ := h'.drop_mid
      have hitmem : it ∈ b.items.take i ++ it :: R := by simp
      cases hfnd : findTable sp hf d it.key with
      | some pos =>
        simp only
        have hin : it.key ∈ (traverse d).map (·.key) :=
          (findTable_spec sp hf d h'.inv it.key).mp (by rw [hfnd]; rfl)
        have hK : inK it.key = true := h'.fresh it hitmem hin
        obtain ⟨a1, a2, a3, a4, a5, a6⟩ := ih b d m R hmid
        refine ⟨a1, ?_, ?_, a4, a5, a6⟩
        · rw [List.filter_append]
          simp only [List.filter_cons, hK, if_true, List.filter_nil, List.append_assoc,
            List.singleton_append]
          rw [hdrop] at a2; exact a2
        · rw [List.filter_append]
          simp only [List.filter_cons, hK, Bool.not_true, Bool.false_eq_true, if_false,
            List.filter_nil, List.append_nil]
          exact a3
      | none =>
        simp only
        have hnot := findTable_none sp hf d h'.inv it.key hfnd
        have hnin : it.key ∉ (traverse d).map (·.key) := by
          intro hmem
          obtain ⟨x, hx, hkx⟩ := List.mem_map.mp hmem
          exact hnot x hx hkx
        have hK : inK it.key = false := by
          cases hk : inK it.key with
          | false => rfl
          | true => exact absurd (h'.sub _ hk) hnin
        have hok : (add sp hf d it {}).2 = .ok := add_nofault_ok sp hf ok d it {} h'.inv.core rfl rfl
        obtain ⟨hD', hperm⟩ := add_ok sp hf ok d it {} h'.inv (faultsOK_default sp) hnot hok
        simp only [hok, beq_self_eq_true, if_true]
        obtain ⟨Rr, hR, hRp⟩ := removeAt_decomp i b hilt
        have hlen : (b.items.take i).length = i := by simp; omega
        have hkeys' : ∀ k, k ∈ (traverse (add sp hf d it {}).1).map (·.key) ↔
            k = it.key ∨ k ∈ (traverse d).map (·.key) := by
          intro k
          rw [(hperm.map (·.key)).mem_iff]; simp
        have hpre' : MPre sp hf inK (add sp hf d it {}).1 ((removeAt i b).items.take i ++ R) := by
          rw [hR, List.take_left' hlen]
          refine ⟨hD', fun k hk => (hkeys' k).mpr (Or.inr (hmid.sub k hk)), hmid.nodup, ?_⟩
          intro x hx hxk
          rcases (hkeys' x.key).mp hxk with he | hin
          · exact absurd (List.mem_map.mpr ⟨x, hx, he⟩) hitfresh
          · exact hmid.fresh x hx hin
        obtain ⟨a1, a2, a3, a4, a5, a6⟩ := ih (removeAt i b) (add sp hf d it {}).1 (m + 1) R hpre'
        refine ⟨a1, ?_, ?_, by rw [a4]; rfl, by rw [a5]; rfl, ?_⟩
        · rw [hR, List.take_left' hlen, List.drop_left' hlen] at a2
          rw [List.filter_append]
          simp only [List.filter_cons, hK, Bool.false_eq_true, if_false, List.filter_nil, List.append_nil]
          exact a2.trans (List.Perm.append_left _ hRp)
        · rw [hR, List.take_left' hlen] at a3
          rw [List.filter_append]
          simp only [List.filter_cons, hK, Bool.not_false, if_true, List.filter_nil, List.append_assoc,
            List.singleton_append]
          exact a3.trans ((List.Perm.append_left _ hperm))
        · rw [length_removeAt] at a6; omega

/-- what one bucket of the source does to the destination (`stepBucket` of the model) -/
def mergeBktF (sp : Spec) (hf : Nat → Nat) (b : Bucket) (d : Table) : Bucket × Table × Nat :=
  mergeTo.go sp hf b.items.length b d 0

/-- source bucket after the merge: kept the items whose key the destination had; flags unchanged -/
def RelB (inK : Nat → Bool) (b' b : Bucket) : Prop :=
  b'.items.Perm (b.items.filter (fun x => inK x.key)) ∧ b'.wasFull = b.wasFull ∧ b'.bst = b.bst

theorem mergeBktF_step (sp : Spec) (hf : Nat → Nat) (ok : SpecOK sp) (inK : Nat → Bool)
    (b : Bucket) (d : Table) (R : List Item) (h : MPre sp hf inK d (b.items ++ R)) :
    MPre sp hf inK (mergeBktF sp hf b d).2.1 R ∧ RelB inK (mergeBktF sp hf b d).1 b ∧
    (traverse (mergeBktF sp hf b d).2.1).Perm (b.items.filter (fun x => !inK x.key) ++ traverse d) ∧
    (mergeBktF sp hf b d).2.2 + (mergeBktF sp hf b d).1.items.length = b.items.length := by
  unfold mergeBktF
  obtain ⟨a1, a2, a3, a4, a5, a6⟩ := mergeGo_spec sp hf ok inK b.items.length b d 0 R (by simpa using h)
  simp only [List.take_length, List.drop_length, List.append_nil] at a2 a3
  exact ⟨a1, ⟨a2, a4, a5⟩, a3, by omega⟩

/-! ### one generation, then the whole source -/

/-- items of a generation in storage order -/
def rawItems (g : Gen) : List Item := (g.bs.map (·.items)).flatten

theorem rawItems_perm (g : Gen) : (rawItems g).Perm (genItems g) := by
  unfold rawItems genItems
  generalize g.bs = bs
  induction bs with
  | nil => simp
  | cons b rest ih =>
    simp only [List.map_cons, List.flatten_cons]
    exact List.Perm.append (List.reverse_perm _).symm ih

def mergeGenF (sp : Spec) (hf : Nat → Nat) (g : Gen) (d : Table) : Gen × Table × Nat :=
  ({ g with bs := (mapState (mergeBktF sp hf) g.bs d).1 },
    (mapState (mergeBktF sp hf) g.bs d).2.1, (mapState (mergeBktF sp hf) g.bs d).2.2)

def RelG (inK : Nat → Bool) (g' g : Gen) : Prop := g'.L = g.L ∧ List.Forall₂ (RelB inK) g'.bs g.bs

theorem mergeGenF_step (sp : Spec) (hf : Nat → Nat) (ok : SpecOK sp) (inK : Nat → Bool)
    (g : Gen) (d : Table) (R : List Item) (h : MPre sp hf inK d (rawItems g ++ R)) :
    MPre sp hf inK (mergeGenF sp hf g d).2.1 R ∧ RelG inK (mergeGenF sp hf g d).1 g ∧
    (traverse (mergeGenF sp hf g d).2.1).Perm ((rawItems g).filter (fun x => !inK x.key) ++ traverse d) ∧
    (mergeGenF sp hf g d).2.2 + (rawItems (mergeGenF sp hf g d).1).length = (rawItems g).length := by
  obtain ⟨a1, a2, a3, a4⟩ := mapState_thread (mergeBktF sp hf) (·.items) (·.items) (RelB inK)
    (MPre sp hf inK) traverse (fun x => !inK x.key)
    (fun b s R hp => mergeBktF_step sp hf ok inK b s R hp) g.bs d R h
  exact ⟨a1, ⟨rfl, a2⟩, a3, a4⟩

theorem mergeTo_eq (sp : Spec) (hf : Nat → Nat) (src dst : Table) :
    mergeTo sp hf src dst =
      ({ src with gens := (mapState (mergeGenF sp hf) src.gens dst).1,
                  count := src.count - (mapState (mergeGenF sp hf) src.gens dst).2.2 },
       (mapState (mergeGenF sp hf) src.gens dst).2.1) := by
  unfold mergeTo
  have hin : ∀ (g : Gen) (d : Table), g.bs.foldl (fun (a : List Bucket × Table × Nat) b =>
        match mergeTo.go sp hf b.items.length b a.2.1 0 with
        | (b', d, m) => (a.1 ++ [b'], d, a.2.2 + m)) ([], d, 0)
      = ((mapState (mergeBktF sp hf) g.bs d).1, (mapState (mergeBktF sp hf) g.bs d).2.1,
          (mapState (mergeBktF sp hf) g.bs d).2.2) := by
    intro g d
    have := foldl_acc3 (mergeBktF sp hf) g.bs [] d 0
    simp only [List.nil_append, Nat.zero_add] at this
    exact this
  simp only [hin]
  have hout := foldl_acc3 (mergeGenF sp hf) src.gens [] dst 0
  simp only [List.nil_append, Nat.zero_add] at hout
  unfold mergeGenF at hout ⊢
  simp only at hout ⊢
  rw [hout]

theorem relB_shr (inK : Nat → Bool) (b' b : Bucket) (h : RelB inK b' b) : Shr b' b := by
  obtain ⟨h1, h2, h3⟩ := h
  refine ⟨fun x hx => ?_, ?_, h2, h3⟩
  · exact (List.mem_filter.mp ((h1.mem_iff).mp hx)).1
  · rw [h1.length_eq]; exact List.length_filter_le _ _

theorem relG_spec (sp : Spec) (hf : Nat → Nat) (inK : Nat → Bool) (g' g : Gen) (h : RelG inK g' g)
    (hI : GenInv sp hf g) :
    GenInv sp hf g' ∧ (genItems g').Perm ((genItems g).filter (fun x => inK x.key)) := by
  obtain ⟨hL, hF⟩ := h
  constructor
  · have := genInv_shrink sp hf g g'.bs hI (forall2_imp (relB_shr inK) hF)
    have e : g' = { g with bs := g'.bs } := by cases g'; cases g; simp_all
    rw [e]; exact this
  · exact bsItems_forall2_filter _ (forall2_imp (fun _ _ h => h.1) hF)

/-- **`MergeTo`**: both tables keep their invariant; the source keeps exactly the items whose key
    was already in the destination, the destination gains exactly the others -/
theorem mergeTo_spec (sp : Spec) (hf : Nat → Nat) (ok : SpecOK sp) (src dst : Table)
    (hS : TableInv sp hf src) (hD : TableInv sp hf dst) :
    TableInv sp hf (mergeTo sp hf src dst).1 ∧ TableInv sp hf (mergeTo sp hf src dst).2 ∧
    (traverse (mergeTo sp hf src dst).1).Perm
      ((traverse src).filter (fun x => decide (x.key ∈ (traverse dst).map (·.key)))) ∧
    (traverse (mergeTo sp hf src dst).2).Perm
      ((traverse src).filter (fun x => !decide (x.key ∈ (traverse dst).map (·.key))) ++ traverse dst) := by
  rw [mergeTo_eq]
  simp only
  set inK : Nat → Bool := fun k => decide (k ∈ (traverse dst).map (·.key)) with hinK
  have hraw : ((src.gens.map rawItems).flatten).Perm (traverse src) := by
    rw [traverse_eq_gensItems]
    generalize src.gens = gs
    induction gs with
    | nil => simp
    | cons g rest ih =>
      simp only [List.map_cons, List.flatten_cons, gensItems_cons]
      exact List.Perm.append (rawItems_perm g) ih
  have hpre : MPre sp hf inK dst ((src.gens.map rawItems).flatten ++ []) := by
    refine ⟨hD, fun k hk => by simpa [hinK] using hk, ?_, fun x _ hx => by simpa [hinK] using hx⟩
    rw [List.append_nil]
    exact nodup_keys_perm hraw hS.core.nodup
  obtain ⟨a1, a2, a3, a4⟩ := mapState_thread (mergeGenF sp hf) rawItems rawItems (RelG inK)
    (MPre sp hf inK) traverse (fun x => !inK x.key)
    (fun g s R hp => mergeGenF_step sp hf ok inK g s R hp) src.gens dst [] hpre
  generalize mapState (mergeGenF sp hf) src.gens dst = r at *
  obtain ⟨gens', dst', moved⟩ := r
  simp only at a1 a2 a3 a4 ⊢
  -- the source afterwards
  have hgens : ∀ (gs' gs : List Gen), List.Forall₂ (RelG inK) gs' gs → (∀ g ∈ gs, GenInv sp hf g) →
      (∀ g ∈ gs', GenInv sp hf g) ∧ (gensItems gs').Perm ((gensItems gs).filter (fun x => inK x.key)) ∧
      ((gs'.map rawItems).flatten).length = (gensItems gs').length := by
    intro gs' gs hF
    induction hF with
    | nil => intro _; simp
    | cons hab _ ih =>
      intro hI
      obtain ⟨c1, c2⟩ := relG_spec sp hf inK _ _ hab (hI _ (by simp))
      obtain ⟨d1, d2, d3⟩ := ih (fun g hg => hI g (by simp [hg]))
      refine ⟨?_, ?_, ?_⟩
      · intro g hg
        rcases List.mem_cons.mp hg with rfl | h
        · exact c1
        · exact d1 g h
      · simp only [gensItems_cons, List.filter_append]
        exact List.Perm.append c2 d2
      · simp only [List.map_cons, List.flatten_cons, gensItems_cons, List.length_append]
        rw [d3, (rawItems_perm _).length_eq]
  obtain ⟨s1, s2, s3⟩ := hgens gens' src.gens a2 hS.core.gens
  have hps : (traverse { src with gens := gens', count := src.count - moved }).Perm
      ((traverse src).filter (fun x => inK x.key)) := s2
  have hpd : (traverse dst').Perm ((traverse src).filter (fun x => !inK x.key) ++ traverse dst) :=
    a3.trans (List.Perm.append_right _ (hraw.filter _))
  refine ⟨⟨⟨s1, ?_, ?_, ?_, ?_⟩, ?_⟩, a1.inv, hps, hpd⟩
  · have hsub : (((traverse src).filter (fun x => inK x.key)).map (·.key)).Sublist
        ((traverse src).map (·.key)) := List.Sublist.map _ List.filter_sublist
    exact nodup_keys_perm hps (hS.core.nodup.sublist hsub)
  · show src.count - moved = (gensItems gens').length
    rw [hS.core.count, ← hraw.length_eq, ← s3]; omega
  · intro hu g' rest' hgr
    show src.cap ≤ _
    change gens' = g' :: rest' at hgr
    subst hgr
    generalize hsg : src.gens = sg at a2
    cases a2 with
    | cons hab hrest =>
      rw [hab.1]
      exact hS.core.capLe hu _ _ hsg
  · intro h
    change gens' = [] at h
    subst h
    generalize hsg : src.gens = sg at a2
    cases a2
    exact hS.core.capNil hsg
  · intro hnr
    show gens'.length ≤ 1
    rw [a2.length_eq]; exact hS.single hnr

/-- `MergeTo` conserves the items of both tables together -/
theorem mergeTo_inv (sp : Spec) (hf : Nat → Nat) (ok : SpecOK sp) (src dst : Table)
    (hS : TableInv sp hf src) (hD : TableInv sp hf dst) :
    TableInv sp hf (mergeTo sp hf src dst).1 ∧ TableInv sp hf (mergeTo sp hf src dst).2 ∧
    (traverse (mergeTo sp hf src dst).1 ++ traverse (mergeTo sp hf src dst).2).Perm
      (traverse src ++ traverse dst) := by
  obtain ⟨a1, a2, a3, a4⟩ := mergeTo_spec sp hf ok src dst hS hD
  refine ⟨a1, a2, (List.Perm.append a3 a4).trans ?_⟩
  rw [← List.append_assoc]
  exact List.Perm.append_right _ (List.filter_append_perm _ _)

end Momo.HT
