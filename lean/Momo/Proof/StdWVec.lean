import Momo.Model.StdWrapOps
/-!
  The C06 history theorem for `stdish::vector`: the wrapper computes an index from the iterator, forwards to the native
  `Array` and rebuilds an iterator from the index; with the native array taken as the item list (C05) every legal call gives
  the same new sequence and the same observation as the specification of `std::vector`.
-/
namespace Momo.StdW
open Momo.StdWrap List
open Momo.StdSpec hiding Item

theorem arrIsEqual_eq (a b : List Nat) : arrIsEqual a b = (a == b) := by
  rw [Bool.eq_iff_iff, beq_iff_eq]
  unfold arrIsEqual
  induction a generalizing b with
  | nil => cases b <;> simp
  | cons x t ih =>
    cases b with
    | nil => simp
    | cons y u =>
      have := ih u
      simp only [length_cons, zip_cons_cons, all_cons, Bool.and_eq_true, beq_iff_eq, Nat.add_right_cancel_iff,
        cons.injEq] at this ⊢
      constructor
      · intro ⟨h1, h2, h3⟩; exact ⟨h2, this.mp ⟨h1, h3⟩⟩
      · intro ⟨h1, h2⟩; have := this.mpr h2; exact ⟨this.1, h1, this.2⟩

theorem wCmpV_eq (a b : List Nat) : wCmpV a b = vecCmp a b := by
  simp [wCmpV, vecCmp, arrIsEqual_eq]

/-- **one call**: equal result (state and observation) -/
theorem wrapV_refines (s : VSt) (c : VCall) (hl : c.legal s = true) : wrapV s c = c.spec s := by
  cases c with
  | pushBack c v => simp [wrapV, VCall.spec, vInsert]
  | popBack c =>
    have h : 0 < (s.get c).length := by simpa [VCall.legal] using hl
    simp only [wrapV, VCall.spec]
    rw [eraseIdx_eq_dropLast (by omega)]
  | insert c p v => simp [wrapV, VCall.spec, vInsert, vecInsert]
  | insertN c p n v => simp [wrapV, VCall.spec, vInsert, vecInsert]
  | insertRange c p ys => simp [wrapV, VCall.spec, vInsert]
  | eraseAt c p => simp [wrapV, VCall.spec, vecErase, eraseIdx_eq_take_drop_succ]
  | eraseRange c p q =>
    have h : p ≤ q := by simp only [VCall.legal, Bool.and_eq_true, decide_eq_true_eq] at hl; exact hl.1
    have : p + (q - p) = q := by omega
    simp [wrapV, VCall.spec, vecErase, this]
  | eraseVal c v =>
    have e : ((s.get c).filter fun e => !(e == v)) = (s.get c).filter fun e => e != v := rfl
    simp only [wrapV, VCall.spec, e]
  | resize c n => simp [wrapV, VCall.spec, arrSetCount, vResize]
  | resizeVal c n v => simp [wrapV, VCall.spec, arrSetCount, vResize]
  | assignN c n v => simp [wrapV, VCall.spec]
  | assignRange c ys => simp [wrapV, VCall.spec]
  | «at» c i =>
    simp only [wrapV, VCall.spec, vecAt]
    by_cases h : i < (s.get c).length
    · have : ¬ i ≥ (s.get c).length := by omega
      simp [this, getElem?_eq_getElem h]
    · have : i ≥ (s.get c).length := by omega
      simp [this, getElem?_eq_none (show (s.get c).length ≤ i by omega)]
  | index c i => simp [wrapV, VCall.spec]
  | front c => simp [wrapV, VCall.spec, head?_eq_getElem?]
  | back c => simp [wrapV, VCall.spec, getLast?_eq_getElem?]
  | clear c => simp [wrapV, VCall.spec]
  | size c => simp [wrapV, VCall.spec]
  | empty c => simp [wrapV, VCall.spec]
  | swap => simp [wrapV, VCall.spec]
  | assignCopy c => simp [wrapV, VCall.spec]
  | assignMove c => simp [wrapV, VCall.spec]
  | constructCopy c => simp [wrapV, VCall.spec]
  | constructMove c => simp [wrapV, VCall.spec]
  | compare => simp [wrapV, VCall.spec, wCmpV_eq]
  | contents c => simp [wrapV, VCall.spec]
  | rcontents c => simp [wrapV, VCall.spec]
  | constructN c n v => simp [wrapV, VCall.spec]
  | constructRange c ys => simp [wrapV, VCall.spec]
  | reserve c n => simp [wrapV, VCall.spec]
  | shrinkToFit c => simp [wrapV, VCall.spec]

theorem runWrapV_eq (cs : List VCall) : ∀ (s : VSt), VCall.legalFrom s cs = true →
    runWrapVFrom s cs = VCall.runSpecFrom s cs := by
  induction cs with
  | nil => intro s _; rfl
  | cons c t ih =>
    intro s hl
    simp only [VCall.legalFrom, Bool.and_eq_true] at hl
    have e := wrapV_refines s c hl.1
    simp only [runWrapVFrom, VCall.runSpecFrom, e]
    rw [ih _ hl.2]

end Momo.StdW
