import Momo.Proof.TableQuery
/-!
  C07, table level: the empty table (with any index definitions) and `Clear` satisfy the invariant.
-/
namespace Momo.Table
open List

/-- a table without rows whose indexes are empty satisfies the invariant -/
theorem Inv_empty (acc : Acc) (keep : Bool) (t : Table) (hr : t.rows = [])
    (hu : ∀ u ∈ t.uidx, u.cols.Nodup ∧ u.ents = [] ∧ u.posAdd = none ∧ u.posRem = none)
    (hm : ∀ m ∈ t.midx, m.cols.Nodup ∧ m.groups = [] ∧ m.kAdd = none ∧ m.kRem = none) : Inv acc keep t := by
  refine ⟨by rw [hr]; simp [ids], by rw [hr]; simp [AddrInj], by rw [hr]; simp, ?_, ?_⟩
  · intro u huu
    obtain ⟨h1, h2, h3, h4⟩ := hu u huu
    refine ⟨h1, ⟨h3, h4⟩, by rw [h2, hr]; simp [ids], by rw [h2]; simp, by rw [hr]; simp [ids]⟩
  · intro m hmm
    obtain ⟨h1, h2, h3, h4⟩ := hm m hmm
    refine ⟨h1, ⟨h3, h4⟩, by rw [h2, hr]; simp [ids], by rw [h2]; simp, by rw [h2]; simp, by rw [h2]; simp,
      by rw [h2]; simp⟩

/-- **`Clear()`**: no rows, every index empty, the invariant holds -/
theorem clear_spec (acc : Acc) (keep : Bool) (t : Table) (hinv : Inv acc keep t) :
    Inv acc keep (clear t) ∧ (clear t).rows = [] := by
  refine ⟨Inv_empty acc keep _ rfl ?_ ?_, rfl⟩
  · intro u hu
    obtain ⟨u0, hu0, rfl⟩ := mem_map.mp hu
    exact ⟨(hinv.uinv u0 hu0).colsNodup, rfl, (hinv.uinv u0 hu0).noPos.1, (hinv.uinv u0 hu0).noPos.2⟩
  · intro m hm
    obtain ⟨m0, hm0, rfl⟩ := mem_map.mp hm
    exact ⟨(hinv.minv m0 hm0).colsNodup, rfl, (hinv.minv m0 hm0).noPos.1, (hinv.minv m0 hm0).noPos.2⟩

end Momo.Table
