import Momo.Proof.LedgerOnce
import Momo.Proof.ValStep
import Momo.Proof.ValOps
/-!
  The manager calls of the value-semantics model (`Momo.Val`, C14: constructors, copy / move construction and
  assignment, Swap, Clear, destructors, the allocator-aware wrapper operations) read as ledger events. For every
  history of operations the block events are accepted by the C03 monitor - every `free` goes to the manager class that
  allocated the block (from the ownership invariant `Val.WF`) - and the monitor's outstanding blocks are exactly the
  cells of the model's heap (`Sync`).
-/
namespace Momo.Ledger

open Momo.Val

/-- block events of the value model as ledger events (the model has no sizes: size 0; its element events carry
    values, not object identities, and are not translated) -/
def ofVal : Val.Ev → Option (Ev Nat)
  | .alloc m h => some (.alloc m h 0)
  | .free m h => some (.dealloc m h 0)
  | _ => none

def blockEvs (evs : List Val.Ev) : List (Ev Nat) := evs.filterMap ofVal

/-- the monitor's outstanding blocks are exactly the cells of the heap, with the allocating manager -/
def Sync (st : St Nat) (H : Heap) : Prop := ∀ h, findB h st.blocks = (H.get h).map (fun c => (c.mgr, 0))

theorem blockEvs_append (a b : List Val.Ev) : blockEvs (a ++ b) = blockEvs a ++ blockEvs b := by
  simp [blockEvs, List.filterMap_append]

theorem blockEvs_allocs (m : Nat) (hs : List Nat) : blockEvs (hs.map (Val.Ev.alloc m)) = hs.map (fun h => Ev.alloc m h 0) := by
  induction hs with
  | nil => rfl
  | cons a r ih => simp only [blockEvs, List.map_cons, List.filterMap_cons, ofVal] at ih ⊢; rw [ih]

theorem blockEvs_frees (m : Nat) (hs : List Nat) : blockEvs (hs.map (Val.Ev.free m)) = hs.map (fun h => Ev.dealloc m h 0) := by
  induction hs with
  | nil => rfl
  | cons a r ih => simp only [blockEvs, List.map_cons, List.filterMap_cons, ofVal] at ih ⊢; rw [ih]

theorem blockEvs_none {evs : List Val.Ev} (h : ∀ ev ∈ evs, ofVal ev = none) : blockEvs evs = [] := by
  induction evs with
  | nil => rfl
  | cons a r ih =>
    simp only [blockEvs, List.filterMap_cons, h a List.mem_cons_self]
    exact ih (fun ev hev => h ev (List.mem_cons_of_mem _ hev))

theorem blockEvs_destroyEvs (k : Kind) (xs : List Elem) : blockEvs (destroyEvs k xs) = [] := by
  apply blockEvs_none; intro ev hev
  obtain ⟨e, rfl⟩ := mem_destroyEvs hev; rfl

theorem blockEvs_copies (xs : List Elem) : blockEvs (xs.map Val.Ev.copy) = [] := by
  apply blockEvs_none; intro ev hev
  obtain ⟨e, _, rfl⟩ := List.mem_map.mp hev; rfl

theorem blockEvs_relocEvs (k : Kind) (xs : List Elem) : blockEvs (relocEvs k xs) = [] := by
  apply blockEvs_none; intro ev hev
  unfold relocEvs at hev
  split at hev
  · cases hev
  · simp only [List.mem_flatMap, List.mem_cons, List.not_mem_nil, or_false] at hev
    obtain ⟨e, _, h | h⟩ := hev
    · subst h; split <;> rfl
    · subst h; rfl

theorem blockEvs_xferEvs (k : Kind) (xs : List Elem) : blockEvs (xferEvs k xs) = [] := by
  apply blockEvs_none; intro ev hev
  unfold xferEvs at hev
  obtain ⟨e, _, rfl⟩ := List.mem_map.mp hev
  split <;> rfl

theorem blockEvs_srcXfer (k : Kind) (w : World) (src : Option Nat) : blockEvs (srcXfer k w src) = [] := by
  unfold srcXfer
  split
  · rfl
  · split
    · exact blockEvs_xferEvs _ _
    · rfl

/-- a run of `alloc`s of distinct handles that are not outstanding -/
theorem run_allocs (m : Nat) : ∀ (hs : List Nat) (st : St Nat), hs.Nodup → (∀ h ∈ hs, findB h st.blocks = none) →
    ∃ st', run st (hs.map (fun h => Ev.alloc m h 0)) = some st' ∧ st'.elems = st.elems ∧
      ∀ h, findB h st'.blocks = if h ∈ hs then some (m, 0) else findB h st.blocks := by
  intro hs
  induction hs with
  | nil => intro st _ _; exact ⟨st, rfl, rfl, fun h => by simp⟩
  | cons a r ih =>
    intro st hnd hfree
    have ha : findB a st.blocks = none := hfree a List.mem_cons_self
    simp only [List.nodup_cons] at hnd
    have hfree' : ∀ h ∈ r, findB h ({ st with blocks := (a, m, 0) :: st.blocks } : St Nat).blocks = none := by
      intro h hh
      have : a ≠ h := fun e => hnd.1 (e ▸ hh)
      simp [findB, this, hfree h (List.mem_cons_of_mem _ hh)]
    obtain ⟨st', h1, h2, h3⟩ := ih _ hnd.2 hfree'
    refine ⟨st', ?_, h2, ?_⟩
    · simp only [List.map_cons, run, step, ha]; exact h1
    · intro h
      rw [h3 h]
      by_cases hr : h ∈ r
      · simp [hr]
      · by_cases hah : a = h
        · subst hah; simp [findB]
        · have : ¬ h = a := fun e => hah e.symm
          simp [hr, findB, hah, this]

/-- a run of `dealloc`s of distinct outstanding handles, all through the allocating manager class -/
theorem run_frees (m : Nat) : ∀ (hs : List Nat) (st : St Nat), hs.Nodup → (∀ h ∈ hs, findB h st.blocks = some (m, 0)) →
    ∃ st', run st (hs.map (fun h => Ev.dealloc m h 0)) = some st' ∧ st'.elems = st.elems ∧
      ∀ h, findB h st'.blocks = if h ∈ hs then none else findB h st.blocks := by
  intro hs
  induction hs with
  | nil => intro st _ _; exact ⟨st, rfl, rfl, fun h => by simp⟩
  | cons a r ih =>
    intro st hnd hlive
    have ha : findB a st.blocks = some (m, 0) := hlive a List.mem_cons_self
    simp only [List.nodup_cons] at hnd
    have hlive' : ∀ h ∈ r, findB h ({ st with blocks := eraseB a st.blocks } : St Nat).blocks = some (m, 0) := by
      intro h hh
      have : a ≠ h := fun e => hnd.1 (e ▸ hh)
      show findB h (eraseB a st.blocks) = _
      rw [findB_eraseB]; simp [this, hlive h (List.mem_cons_of_mem _ hh)]
    obtain ⟨st', h1, h2, h3⟩ := ih _ hnd.2 hlive'
    refine ⟨st', ?_, h2, ?_⟩
    · simp only [List.map_cons, run, step, ha, ne_eq, not_true_eq_false, if_false]; exact h1
    · intro h
      rw [h3 h]
      show (if h ∈ r then none else findB h (eraseB a st.blocks)) = _
      rw [findB_eraseB]
      by_cases hr : h ∈ r
      · simp [hr]
      · by_cases hah : a = h
        · subst hah; simp
        · have : ¬ h = a := fun e => hah e.symm
          simp [hr, hah, this]

theorem run_append_some {st st1 st2 : St Nat} {a b : List (Ev Nat)} (h1 : run st a = some st1) (h2 : run st1 b = some st2) :
    run st (a ++ b) = some st2 := by
  rw [run_append, h1]; exact h2

/-- blocks handed out by `allocCells` from a heap whose handles from `next` on are unused -/
theorem sync_allocCells {st : St Nat} {H : Heap} (hs : Sync st H) (hf : ∀ h, H.next ≤ h → H.get h = none)
    (m : Mgr) (ls : List (List Elem)) :
    ∃ st', run st ((allocCells m ls H).1.map (fun h => Ev.alloc m h 0)) = some st' ∧ st'.elems = st.elems ∧
      Sync st' (allocCells m ls H).2 := by
  have hnone : ∀ h ∈ (allocCells m ls H).1, findB h st.blocks = none := by
    intro h hh
    rw [hs h, hf h (mem_allocCells_fst.mp hh).1]; rfl
  obtain ⟨st', h1, h2, h3⟩ := run_allocs m _ st (allocCells_fst_nodup m ls H) hnone
  refine ⟨st', h1, h2, ?_⟩
  intro h
  rw [h3 h]
  by_cases hh : h ∈ (allocCells m ls H).1
  · obtain ⟨cell, hc, hm⟩ := allocCells_get_mem m ls H h hh
    simp [hh, hc, hm]
  · simp only [hh, if_false]
    rw [hs h]
    by_cases hlt : h < H.next
    · rw [allocCells_get_old m ls H h hlt]
    · have hge : H.next + ls.length ≤ h := by
        apply Decidable.byContradiction; intro hn
        exact hh (mem_allocCells_fst.mpr ⟨by omega, by omega⟩)
      rw [allocCells_get_fresh m ls H hf h hge, hf h (by omega)]

/-- blocks given back by `freeCells`: distinct live handles, all allocated by manager class `m` -/
theorem sync_freeCells {st : St Nat} {H : Heap} (hs : Sync st H) (m : Mgr) (hl : List Nat) (hnd : hl.Nodup)
    (hlive : ∀ h ∈ hl, ∃ cell, H.get h = some cell ∧ cell.mgr = m) :
    ∃ st', run st (hl.map (fun h => Ev.dealloc m h 0)) = some st' ∧ st'.elems = st.elems ∧ Sync st' (freeCells hl H) := by
  have hsome : ∀ h ∈ hl, findB h st.blocks = some (m, 0) := by
    intro h hh
    obtain ⟨cell, hc, hm⟩ := hlive h hh
    rw [hs h, hc, ← hm]; rfl
  obtain ⟨st', h1, h2, h3⟩ := run_frees m hl st hnd hsome
  refine ⟨st', h1, h2, ?_⟩
  intro h
  rw [h3 h, freeCells_get]
  by_cases hh : h ∈ hl
  · simp [hh]
  · simp [hh, hs h]

theorem sync_emptyCells {st : St Nat} {H : Heap} (hs : Sync st H) (hl : List Nat) : Sync st (emptyCells hl H) := by
  intro h
  rw [emptyCells_get, hs h]
  by_cases hh : h ∈ hl
  · simp only [hh, if_true]; cases H.get h <;> rfl
  · simp [hh]

theorem fresh_of_freeCells {H : Heap} (hf : ∀ h, H.next ≤ h → H.get h = none) (hl : List Nat) :
    ∀ h, (freeCells hl H).next ≤ h → (freeCells hl H).get h = none := fresh_freeCells hf hl

/-- **one primitive step**: its block events are accepted and the monitor stays in step with the heap -/
theorem prim_sync (k : Kind) {w w' : World} {evs : List Val.Ev} (wf : WF w) (p : Prim)
    (h : p.exec k w = some (w', evs)) {st : St Nat} (hs : Sync st w.heap) :
    ∃ st', run st (blockEvs evs) = some st' ∧ st'.elems = st.elems ∧ Sync st' w'.heap := by
  cases p with
  | new i m =>
    simp only [Prim.exec] at h
    split at h
    · cases h
    · simp only [Option.some.injEq, Prod.mk.injEq] at h
      obtain ⟨rfl, rfl⟩ := h
      rw [blockEvs_allocs]
      exact sync_allocCells hs wf.fresh m _
  | copy j i m =>
    simp only [Prim.exec] at h
    split at h
    · rename_i s hj hi
      split at h
      · cases h
      · split at h
        · simp only [Option.some.injEq, Prod.mk.injEq] at h
          obtain ⟨rfl, rfl⟩ := h
          rw [blockEvs_append, blockEvs_allocs, blockEvs_copies, List.append_nil]
          exact sync_allocCells hs wf.fresh m _
        · simp only [Option.some.injEq, Prod.mk.injEq] at h
          obtain ⟨rfl, rfl⟩ := h
          rw [blockEvs_append, blockEvs_append, blockEvs_allocs, blockEvs_allocs, blockEvs_copies, List.append_nil]
          obtain ⟨st1, h1, e1, s1⟩ := sync_allocCells hs wf.fresh m (List.replicate k.auxCount [])
          have hf1 := (fresh_allocCells wf m (List.replicate k.auxCount []))
          obtain ⟨st2, h2, e2, s2⟩ := sync_allocCells s1 hf1 m
            (k.rebuild ((if s.inl = [] then [] else [s.inl]) ++ layout w.heap s))
          exact ⟨st2, run_append_some h1 h2, e2.trans e1, s2⟩
    · cases h
  | move j i =>
    obtain ⟨s, _, _, rfl, rfl⟩ := move_inv h
    rw [blockEvs_relocEvs]
    exact ⟨st, rfl, rfl, hs⟩
  | swap i j =>
    obtain ⟨a, b, _, _, rfl, rfl⟩ := swap_inv h
    exact ⟨st, rfl, rfl, hs⟩
  | destroy i =>
    simp only [Prim.exec] at h
    split at h
    · cases h
    · rename_i c hi
      split at h
      · split at h
        · simp only [Option.some.injEq, Prod.mk.injEq] at h
          obtain ⟨rfl, rfl⟩ := h
          exact ⟨st, rfl, rfl, hs⟩
        · cases h
      · rename_i m hm
        simp only [Option.some.injEq, Prod.mk.injEq] at h
        obtain ⟨rfl, rfl⟩ := h
        rw [blockEvs_append, blockEvs_destroyEvs, List.nil_append, blockEvs_frees]
        have ok := wf.ok i c hi
        refine sync_freeCells hs m c.owned ok.nodup ?_
        intro h hh
        obtain ⟨cell, hc, hmm⟩ := ok.live h hh
        rw [hm] at hmm
        exact ⟨cell, hc, (Option.some.inj hmm).symm⟩
  | clear i keep =>
    cases hi : w.objs i with
    | none => simp [Prim.exec, hi] at h
    | some c =>
      cases hm : c.mgr with
      | none =>
        simp only [Prim.exec, hi, hm] at h
        split at h
        · simp only [Option.some.injEq, Prod.mk.injEq] at h
          obtain ⟨rfl, rfl⟩ := h
          exact ⟨st, rfl, rfl, hs⟩
        · cases h
      | some m =>
        obtain ⟨rfl, rfl⟩ := clear_inv hi hm h
        rw [blockEvs_append, blockEvs_destroyEvs, List.nil_append, blockEvs_frees]
        have ok := wf.ok i c hi
        have hbody : ∀ h ∈ c.body, h ∈ c.owned := fun h hh => List.mem_append.mpr (Or.inr hh)
        have hnd : (c.body.drop keep).Nodup :=
          List.Nodup.sublist (List.drop_sublist _ _) (List.Nodup.sublist (List.sublist_append_right _ _) ok.nodup)
        refine sync_freeCells (sync_emptyCells hs _) m _ hnd ?_
        intro h hh
        have hb : h ∈ c.body := List.mem_of_mem_drop hh
        obtain ⟨cell, hc, hmm⟩ := ok.live h (hbody h hb)
        rw [hm] at hmm
        rw [emptyCells_get, hc]
        by_cases ht : h ∈ c.body.take keep
        · exact ⟨⟨cell.mgr, []⟩, by simp [ht], (Option.some.inj hmm).symm⟩
        · exact ⟨cell, by simp [ht], (Option.some.inj hmm).symm⟩
  | setLayout i inl cells cap src =>
    obtain ⟨c, m, hi, hm, _, rfl, rfl⟩ := setLayout_inv h
    rw [blockEvs_append, blockEvs_append, blockEvs_srcXfer, List.nil_append, blockEvs_frees, blockEvs_allocs]
    have ok := wf.ok i c hi
    have hnd : c.body.Nodup := List.Nodup.sublist (List.sublist_append_right _ _) ok.nodup
    obtain ⟨st1, h1, e1, s1⟩ := sync_freeCells hs m c.body hnd (by
      intro h hh
      obtain ⟨cell, hc, hmm⟩ := ok.live h (List.mem_append.mpr (Or.inr hh))
      rw [hm] at hmm
      exact ⟨cell, hc, (Option.some.inj hmm).symm⟩)
    obtain ⟨st2, h2, e2, s2⟩ := sync_allocCells s1 (fresh_freeCells wf.fresh c.body) m cells
    exact ⟨st2, run_append_some h1 h2, e2.trans e1, s2⟩

theorem run_sync (k : Kind) : ∀ (ps : List Prim) {w w' : World} {evs : List Val.Ev}, WF w →
    Val.run k w ps = some (w', evs) → ∀ {st : St Nat}, Sync st w.heap →
    ∃ st', run st (blockEvs evs) = some st' ∧ st'.elems = st.elems ∧ Sync st' w'.heap := by
  intro ps
  induction ps with
  | nil =>
    intro w w' evs _ h st hs
    obtain ⟨rfl, rfl⟩ := run_nil_inv h
    exact ⟨st, rfl, rfl, hs⟩
  | cons p ps ih =>
    intro w w' evs wf h st hs
    obtain ⟨w1, e1, e2, h1, h2, rfl⟩ := run_cons_inv h
    obtain ⟨st1, r1, el1, s1⟩ := prim_sync k wf p h1 hs
    obtain ⟨st2, r2, el2, s2⟩ := ih (prim_sound k wf p h1).1 h2 s1
    rw [blockEvs_append]
    exact ⟨st2, run_append_some r1 r2, el2.trans el1, s2⟩

/-- a history of operations with all events it produces -/
def runOpsEv (cfg : Cfg) : World → List Op → Option (World × List Val.Ev)
  | w, [] => some (w, [])
  | w, op :: ops =>
    match Val.step cfg w op with
    | none => none
    | some (w1, e1) =>
      match runOpsEv cfg w1 ops with
      | none => none
      | some (w2, e2) => some (w2, e1 ++ e2)

/-- **every history of value operations**: accepted, and in step with the heap -/
theorem runOps_sync (cfg : Cfg) : ∀ (ops : List Op) {w w' : World} {evs : List Val.Ev}, WF w →
    runOpsEv cfg w ops = some (w', evs) → ∀ {st : St Nat}, Sync st w.heap →
    ∃ st', run st (blockEvs evs) = some st' ∧ st'.elems = st.elems ∧ Sync st' w'.heap ∧ WF w' := by
  intro ops
  induction ops with
  | nil =>
    intro w w' evs wf h st hs
    simp only [runOpsEv, Option.some.injEq, Prod.mk.injEq] at h
    obtain ⟨rfl, rfl⟩ := h
    exact ⟨st, rfl, rfl, hs, wf⟩
  | cons op ops ih =>
    intro w w' evs wf h st hs
    simp only [runOpsEv] at h
    split at h
    · cases h
    · rename_i w1 e1 h1
      split at h
      · cases h
      · rename_i w2 e2 h2
        simp only [Option.some.injEq, Prod.mk.injEq] at h
        obtain ⟨rfl, rfl⟩ := h
        have h1' := h1
        unfold Val.step at h1'
        split at h1'
        · cases h1'
        · rename_i ps hps
          obtain ⟨st1, r1, el1, s1⟩ := run_sync cfg.k ps wf h1' hs
          obtain ⟨st2, r2, el2, s2, wf2⟩ := ih (step_sound cfg wf op h1).1 h2 s1
          rw [blockEvs_append]
          exact ⟨st2, run_append_some r1 r2, el2.trans el1, s2, wf2⟩

/-! ### nothing in the heap without an owner -/

/-- every cell of the heap is referred to by a live object (so that destroying all objects empties the heap) -/
def NoGarbage (w : World) : Prop := ∀ h cell, w.heap.get h = some cell → ∃ i c, w.objs i = some c ∧ h ∈ c.owned

theorem NoGarbage.init : NoGarbage World.init := by
  intro h cell hc; simp [World.init, Heap.empty, Heap.get, lookupH] at hc

theorem allocCells_get_other {H : Heap} (hf : ∀ h, H.next ≤ h → H.get h = none) (m : Mgr) (ls : List (List Elem))
    {h : Nat} (hh : h ∉ (allocCells m ls H).1) : (allocCells m ls H).2.get h = H.get h := by
  by_cases hlt : h < H.next
  · exact allocCells_get_old m ls H h hlt
  · have hge : H.next + ls.length ≤ h := by
      apply Decidable.byContradiction; intro hn
      exact hh (mem_allocCells_fst.mpr ⟨by omega, by omega⟩)
    rw [allocCells_get_fresh m ls H hf h hge, hf h (by omega)]

theorem prim_noGarbage (k : Kind) {w w' : World} {evs : List Val.Ev} (wf : WF w) (ng : NoGarbage w) (p : Prim)
    (h : p.exec k w = some (w', evs)) : NoGarbage w' := by
  cases p with
  | new i m =>
    simp only [Prim.exec] at h
    split at h
    · cases h
    · rename_i hi
      simp only [Option.some.injEq, Prod.mk.injEq] at h
      obtain ⟨rfl, _⟩ := h
      intro x cell hc
      by_cases hx : x ∈ (allocCells m (List.replicate k.auxCount []) w.heap).1
      · exact ⟨i, _, upd_same _ _ _, by simp [Cont.owned, hx]⟩
      · have hc' : w.heap.get x = some cell := by
          rw [← allocCells_get_other wf.fresh m _ hx]; exact hc
        obtain ⟨i', c', hi', hm'⟩ := ng x cell hc'
        have : i' ≠ i := by intro e; rw [e, hi] at hi'; cases hi'
        exact ⟨i', c', by show upd _ _ _ _ = _; rw [upd_other _ _ this]; exact hi', hm'⟩
  | copy j i m =>
    simp only [Prim.exec] at h
    split at h
    · rename_i s hj hi
      split at h
      · cases h
      · split at h
        · simp only [Option.some.injEq, Prod.mk.injEq] at h
          obtain ⟨rfl, _⟩ := h
          intro x cell hc
          by_cases hx : x ∈ (allocCells m (List.replicate k.auxCount []) w.heap).1
          · exact ⟨j, _, upd_same _ _ _, by simp [Cont.owned, hx]⟩
          · have hc' : w.heap.get x = some cell := by
              rw [← allocCells_get_other wf.fresh m _ hx]; exact hc
            obtain ⟨i', c', hi', hm'⟩ := ng x cell hc'
            have : i' ≠ j := by intro e; rw [e, hj] at hi'; cases hi'
            exact ⟨i', c', by show upd _ _ _ _ = _; rw [upd_other _ _ this]; exact hi', hm'⟩
        · simp only [Option.some.injEq, Prod.mk.injEq] at h
          obtain ⟨rfl, _⟩ := h
          intro x cell hc
          have hf1 := fresh_allocCells wf m (List.replicate k.auxCount [])
          by_cases hx2 : x ∈ (allocCells m (k.rebuild ((if s.inl = [] then [] else [s.inl]) ++ layout w.heap s))
              (allocCells m (List.replicate k.auxCount []) w.heap).2).1
          · exact ⟨j, _, upd_same _ _ _, by simp [Cont.owned, hx2]⟩
          · rw [show (World.heap _) = _ from rfl] at hc
            rw [allocCells_get_other hf1 m _ hx2] at hc
            by_cases hx : x ∈ (allocCells m (List.replicate k.auxCount []) w.heap).1
            · exact ⟨j, _, upd_same _ _ _, by simp [Cont.owned, hx]⟩
            · rw [allocCells_get_other wf.fresh m _ hx] at hc
              obtain ⟨i', c', hi', hm'⟩ := ng x cell hc
              have : i' ≠ j := by intro e; rw [e, hj] at hi'; cases hi'
              exact ⟨i', c', by show upd _ _ _ _ = _; rw [upd_other _ _ this]; exact hi', hm'⟩
    · cases h
  | move j i =>
    obtain ⟨s, hi, hj, rfl, _⟩ := move_inv h
    intro x cell hc
    obtain ⟨i', c', hi', hm'⟩ := ng x cell hc
    by_cases e : i' = i
    · subst e
      rw [hi] at hi'; cases hi'
      exact ⟨j, _, upd_same _ _ _, hm'⟩
    · have ej : i' ≠ j := by intro e2; rw [e2, hj] at hi'; cases hi'
      exact ⟨i', c', by show upd _ _ _ _ = _; rw [upd_other _ _ ej, upd_other _ _ e]; exact hi', hm'⟩
  | swap i j =>
    obtain ⟨a, b, hi, hj, rfl, _⟩ := swap_inv h
    intro x cell hc
    obtain ⟨i', c', hi', hm'⟩ := ng x cell hc
    by_cases e : i' = i
    · subst e
      rw [hi] at hi'; cases hi'
      by_cases eij : i' = j
      · subst eij; rw [hi] at hj; cases hj
        exact ⟨i', _, upd_same _ _ _, hm'⟩
      · exact ⟨j, _, upd_same _ _ _, hm'⟩
    · by_cases ej : i' = j
      · subst ej
        rw [hj] at hi'; cases hi'
        exact ⟨i, _, by show upd _ _ _ _ = _; rw [upd_other _ _ (fun e2 => e e2.symm)]; exact upd_same _ _ _, hm'⟩
      · exact ⟨i', c', by show upd _ _ _ _ = _; rw [upd_other _ _ ej, upd_other _ _ e]; exact hi', hm'⟩
  | destroy i =>
    simp only [Prim.exec] at h
    split at h
    · cases h
    · rename_i c hi
      split at h
      · split at h
        · rename_i hnull
          simp only [Option.some.injEq, Prod.mk.injEq] at h
          obtain ⟨rfl, _⟩ := h
          intro x cell hc
          obtain ⟨i', c', hi', hm'⟩ := ng x cell hc
          have : i' ≠ i := by
            intro e; rw [e, hi] at hi'; cases hi'
            rw [hnull.1] at hm'; cases hm'
          exact ⟨i', c', by show upd _ _ _ _ = _; rw [upd_other _ _ this]; exact hi', hm'⟩
        · cases h
      · simp only [Option.some.injEq, Prod.mk.injEq] at h
        obtain ⟨rfl, _⟩ := h
        intro x cell hc
        rw [show (World.heap _) = _ from rfl, freeCells_get] at hc
        by_cases hx : x ∈ c.owned
        · simp [hx] at hc
        · simp only [hx, if_false] at hc
          obtain ⟨i', c', hi', hm'⟩ := ng x cell hc
          have : i' ≠ i := by
            intro e; rw [e, hi] at hi'; cases hi'; exact hx hm'
          exact ⟨i', c', by show upd _ _ _ _ = _; rw [upd_other _ _ this]; exact hi', hm'⟩
  | clear i keep =>
    cases hi : w.objs i with
    | none => simp [Prim.exec, hi] at h
    | some c =>
      cases hm : c.mgr with
      | none =>
        simp only [Prim.exec, hi, hm] at h
        split at h
        · simp only [Option.some.injEq, Prod.mk.injEq] at h
          obtain ⟨rfl, _⟩ := h
          exact ng
        · cases h
      | some m =>
        obtain ⟨rfl, _⟩ := clear_inv hi hm h
        intro x cell hc
        rw [show (World.heap _) = _ from rfl, freeCells_get] at hc
        by_cases hx : x ∈ c.body.drop keep
        · simp [hx] at hc
        · simp only [hx, if_false] at hc
          rw [emptyCells_get] at hc
          have hold : ∃ cell0, w.heap.get x = some cell0 := by
            by_cases ht : x ∈ c.body.take keep
            · simp only [ht, if_true] at hc
              cases hg : w.heap.get x with
              | none => rw [hg] at hc; cases hc
              | some c0 => exact ⟨c0, rfl⟩
            · simp only [ht, if_false] at hc; exact ⟨cell, hc⟩
          obtain ⟨cell0, hc0⟩ := hold
          obtain ⟨i', c', hi', hm'⟩ := ng x cell0 hc0
          by_cases e : i' = i
          · subst e
            rw [hi] at hi'; cases hi'
            refine ⟨i', _, upd_same _ _ _, ?_⟩
            simp only [Cont.owned, List.mem_append] at hm' ⊢
            rcases hm' with hm' | hm'
            · exact Or.inl hm'
            · right
              rw [← List.take_append_drop keep c.body] at hm'
              rcases List.mem_append.mp hm' with h1 | h1
              · exact h1
              · exact absurd h1 hx
          · exact ⟨i', c', by show upd _ _ _ _ = _; rw [upd_other _ _ e]; exact hi', hm'⟩
  | setLayout i inl cells cap src =>
    obtain ⟨c, m, hi, hm, _, rfl, _⟩ := setLayout_inv h
    intro x cell hc
    by_cases hx : x ∈ (allocCells m cells (freeCells c.body w.heap)).1
    · exact ⟨i, _, upd_same _ _ _, by simp [Cont.owned, hx]⟩
    · rw [show (World.heap _) = _ from rfl, allocCells_get_other (fresh_freeCells wf.fresh c.body) m _ hx, freeCells_get] at hc
      by_cases hb : x ∈ c.body
      · simp [hb] at hc
      · simp only [hb, if_false] at hc
        obtain ⟨i', c', hi', hm'⟩ := ng x cell hc
        by_cases e : i' = i
        · subst e
          rw [hi] at hi'; cases hi'
          refine ⟨i', _, upd_same _ _ _, ?_⟩
          simp only [Cont.owned, List.mem_append] at hm' ⊢
          rcases hm' with hm' | hm'
          · exact Or.inl hm'
          · exact absurd hm' hb
        · exact ⟨i', c', by show upd _ _ _ _ = _; rw [upd_other _ _ e]; exact hi', hm'⟩

theorem run_noGarbage (k : Kind) : ∀ (ps : List Prim) {w w' : World} {evs : List Val.Ev}, WF w → NoGarbage w →
    Val.run k w ps = some (w', evs) → NoGarbage w' := by
  intro ps
  induction ps with
  | nil => intro w w' evs _ ng h; obtain ⟨rfl, _⟩ := run_nil_inv h; exact ng
  | cons p ps ih =>
    intro w w' evs wf ng h
    obtain ⟨w1, e1, e2, h1, h2, _⟩ := run_cons_inv h
    exact ih (prim_sound k wf p h1).1 (prim_noGarbage k wf ng p h1) h2

theorem runOps_noGarbage (cfg : Cfg) : ∀ (ops : List Op) {w w' : World} {evs : List Val.Ev}, WF w → NoGarbage w →
    runOpsEv cfg w ops = some (w', evs) → NoGarbage w' := by
  intro ops
  induction ops with
  | nil =>
    intro w w' evs _ ng h
    simp only [runOpsEv, Option.some.injEq, Prod.mk.injEq] at h
    obtain ⟨rfl, _⟩ := h; exact ng
  | cons op ops ih =>
    intro w w' evs wf ng h
    simp only [runOpsEv] at h
    split at h
    · cases h
    · rename_i w1 e1 h1
      split at h
      · cases h
      · rename_i w2 e2 h2
        simp only [Option.some.injEq, Prod.mk.injEq] at h
        obtain ⟨rfl, _⟩ := h
        have h1' := h1
        unfold Val.step at h1'
        split at h1'
        · cases h1'
        · rename_i ps hps
          exact ih (step_sound cfg wf op h1).1 (run_noGarbage cfg.k ps wf ng h1') h2

/-- **any history of value operations that ends with every object destroyed is balanced**: the block events are accepted
    by the monitor and nothing is outstanding -/
theorem runOps_all_destroyed_balanced (cfg : Cfg) (ops : List Op) {w : World} {evs : List Val.Ev}
    (h : runOpsEv cfg World.init ops = some (w, evs)) (hdead : ∀ i, w.objs i = none) :
    balanced (blockEvs evs) = true := by
  have hs0 : Sync (St.init : St Nat) World.init.heap := by
    intro x; simp [St.init, findB, World.init, Heap.empty, Heap.get, lookupH]
  obtain ⟨st, h1, h2, h3, _⟩ := runOps_sync cfg ops WF.init h hs0
  have ng := runOps_noGarbage cfg ops WF.init NoGarbage.init h
  unfold balanced
  rw [h1]
  have hb : st.blocks = [] := by
    apply findB_none_of_nil
    intro x
    rw [h3 x]
    cases hg : w.heap.get x with
    | none => rfl
    | some cell =>
      obtain ⟨i, c, hi, _⟩ := ng x cell hg
      rw [hdead i] at hi; cases hi
  have he : st.elems = [] := by rw [h2]; rfl
  simp [St.clean, hb, he]

end Momo.Ledger
