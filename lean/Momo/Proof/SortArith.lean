import Momo.Model.Sort
import Mathlib.Tactic.Linarith
import Mathlib.Tactic.Ring
/-!
  C17 lemmas: arithmetic of `HashSorter::pvMultShift` (HashSorter.h:442-451).  With 32-bit halves
  `v = hi·2^32 + lo` the function computes `hi₁·hi₂ + ⌊hi₁·lo₂ / 2^32⌋ + ⌊hi₂·lo₁ / 2^32⌋`; no 64-bit
  operation wraps, the value never exceeds `⌊v₁·v₂ / 2^64⌋`, hence is `< v₂` for every 64-bit `v₁`.
-/
namespace Momo.Sort

theorem multShift_core (a b l1 l2 : Nat) :
    (a * b + a * l2 / 2^32 + b * l1 / 2^32) * 2^64 ≤ (a * 2^32 + l1) * (b * 2^32 + l2) := by
  have e1 : a * l2 / 2^32 * 2^32 ≤ a * l2 := Nat.div_mul_le_self _ _
  have e2 : b * l1 / 2^32 * 2^32 ≤ b * l1 := Nat.div_mul_le_self _ _
  have : (2:Nat)^64 = 2^32 * 2^32 := by norm_num
  rw [this]
  nlinarith [Nat.zero_le (l1 * l2)]

/-- the unwrapped value of `pvMultShift` -/
def multShiftRaw (v1 v2 : Nat) : Nat :=
  (v1 / 2^32) * (v2 / 2^32) + (v1 / 2^32) * (v2 % 2^32) / 2^32 + (v2 / 2^32) * (v1 % 2^32) / 2^32

theorem multShiftRaw_le (v1 v2 : Nat) : multShiftRaw v1 v2 * 2^64 ≤ v1 * v2 := by
  have h := multShift_core (v1 / 2^32) (v2 / 2^32) (v1 % 2^32) (v2 % 2^32)
  have e1 : v1 / 2^32 * 2^32 + v1 % 2^32 = v1 := by rw [Nat.mul_comm]; exact Nat.div_add_mod v1 (2^32)
  have e2 : v2 / 2^32 * 2^32 + v2 % 2^32 = v2 := by rw [Nat.mul_comm]; exact Nat.div_add_mod v2 (2^32)
  rw [e1, e2] at h
  exact h

theorem multShift_eq_raw (v1 v2 : Nat) (h1 : v1 < 2^64) (h2 : v2 < 2^64) : multShift v1 v2 = multShiftRaw v1 v2 := by
  have hraw := multShiftRaw_le v1 v2
  have hlt : multShiftRaw v1 v2 < 2^64 := by
    have : v1 * v2 < 2^64 * 2^64 := Nat.mul_lt_mul'' h1 h2
    by_contra hc
    have : 2^64 * 2^64 ≤ multShiftRaw v1 v2 * 2^64 := Nat.mul_le_mul_right _ (by omega)
    omega
  have ha : v1 / 2^32 < 2^32 := Nat.div_lt_of_lt_mul (by simpa using h1)
  have hb : v2 / 2^32 < 2^32 := Nat.div_lt_of_lt_mul (by simpa using h2)
  have hl1 : v1 % 2^32 < 2^32 := Nat.mod_lt _ (by norm_num)
  have hl2 : v2 % 2^32 < 2^32 := Nat.mod_lt _ (by norm_num)
  have p1 : (v1 / 2^32) * (v2 / 2^32) < 2^64 := by
    have := Nat.mul_lt_mul'' ha hb; simpa using this
  have p2 : (v1 / 2^32) * (v2 % 2^32) < 2^64 := by
    have := Nat.mul_lt_mul'' ha hl2; simpa using this
  have p3 : (v2 / 2^32) * (v1 % 2^32) < 2^64 := by
    have := Nat.mul_lt_mul'' hb hl1; simpa using this
  unfold multShift w64 halfMask halfSize
  simp only [Extracted.hsHalfSizeFactor, Nat.shiftRight_eq_div_pow, Nat.and_two_pow_sub_one_eq_mod]
  unfold multShiftRaw at hlt ⊢
  rw [Nat.mod_eq_of_lt p1, Nat.mod_eq_of_lt p2, Nat.mod_eq_of_lt p3]
  have q1 : (v1 / 2^32) * (v2 / 2^32) + (v1 / 2^32) * (v2 % 2^32) / 2^32 < 2^64 := by omega
  rw [Nat.mod_eq_of_lt q1, Nat.mod_eq_of_lt hlt]

/-- **`pvMultShift(h, n) < n`**: the interpolated index lies inside the sequence. -/
theorem multShift_lt (h n : Nat) (hh : h < 2^64) (hn : 0 < n) : multShift h n < n := by
  by_cases hn64 : n < 2^64
  · rw [multShift_eq_raw h n hh hn64]
    have hraw := multShiftRaw_le h n
    have : h * n < 2^64 * n := Nat.mul_lt_mul_of_pos_right hh hn
    by_contra hc
    have : n * 2^64 ≤ multShiftRaw h n * 2^64 := Nat.mul_le_mul_right _ (by omega)
    omega
  · have : multShift h n < 2^64 := by
      unfold multShift w64
      exact Nat.mod_lt _ (by norm_num)
    omega

/-- `pvMultShift(h, n)` never exceeds the exact `⌊h·n / 2^64⌋` -/
theorem multShift_le_mulhi (h n : Nat) (hh : h < 2^64) (hn : n < 2^64) : multShift h n ≤ h * n / 2^64 := by
  rw [multShift_eq_raw h n hh hn]
  exact (Nat.le_div_iff_mul_le (by norm_num)).mpr (multShiftRaw_le h n)

end Momo.Sort
