import Momo.Proof.HashTableReloc
/-!
  C01/C11, part 6: the single-element and whole-table operations — `pvAdd` (with every fault),
  the refused-growth fallback, `pvRemove`, `Reserve`, `Clear`.
-/
namespace Momo.HT
open Momo Momo.Probe

/-- faults that can occur for a given item category: when items are nothrow-relocatable and the
    hash is nothrow (`sp.nothrowReloc`), the migration cannot be interrupted by an exception -/
def FaultsOK (sp : Spec) (f : Faults) : Prop := sp.nothrowReloc = true → f.relocStop = none

/-! ### slots of one generation -/

theorem sum_lengths_le (bs : List Bucket) (m : Nat) (h : ∀ b ∈ bs, b.items.length ≤ m) :
    (bs.map (·.items.length)).sum ≤ bs.length * m := by
  induction bs with
  | nil => simp
  | cons b rest ih =>
    simp only [List.length_cons, List.map_cons, List.sum_cons]
    have := h b (by simp)
    have := ih (fun b hb => h b (by simp [hb]))
    rw [Nat.add_mul]; omega

theorem genItems_length_le (sp : Spec) (hf : Nat → Nat) (g : Gen) (hI : GenInv sp hf g)
    (hu : sp.unlimited = false) : (genItems g).length ≤ 2 ^ g.L * sp.maxCount := by
  rw [← genCount_eq, ← hI.len]
  unfold genCount
  apply sum_lengths_le
  intro b hb
  obtain ⟨i, _, rfl⟩ := (mem_bs_iff sp g.bs b).mp hb
  exact hI.size hu i

theorem shiftOf_pos (sp : Spec) (L : Nat) : 1 ≤ shiftOf sp L := by
  unfold shiftOf; repeat' split
  all_goals omega

/-- a bucket array at least twice as large has a slot for every old item and one more -/
theorem room_of_bigger (sp : Spec) (hf : Nat → Nat) (ok : SpecOK sp) (g : Gen) (hI : GenInv sp hf g)
    (L' : Nat) (hL : g.L + 1 ≤ L') (hu : sp.unlimited = false) :
    (genItems g).length + 1 ≤ 2 ^ L' * sp.maxCount := by
  have h1 := genItems_length_le sp hf g hI hu
  have h2 : 2 ^ (g.L + 1) ≤ 2 ^ L' := Nat.pow_le_pow_right (by decide) hL
  have h3 : 2 ^ (g.L + 1) * sp.maxCount ≤ 2 ^ L' * sp.maxCount := Nat.mul_le_mul_right _ h2
  have h4 : 2 ^ (g.L + 1) * sp.maxCount = 2 * (2 ^ g.L * sp.maxCount) := by
    rw [Nat.pow_succ]; ac_rfl
  have h5 : 0 < 2 ^ g.L * sp.maxCount := Nat.mul_pos (Nat.two_pow_pos _) ok.maxPos
  omega

/-! ### the sizing loop of `pvAddGrow` -/

theorem growLoop_ge (sp : Spec) (count : Nat) :
    ∀ fuel nl r, growLoop sp count fuel nl = some r → nl ≤ r := by
  intro fuel
  induction fuel with
  | zero => intro nl r h; simp only [growLoop, Option.some.injEq] at h; omega
  | succ f ih =>
    intro nl r h
    simp only [growLoop] at h
    split at h
    · split at h
      · exact Nat.le_trans (Nat.le_succ _) (ih _ _ h)
      · cases h
    · simp only [Option.some.injEq] at h; omega

/-- the loop as the C++ runs it (no fuel): every size it passes over has a capacity `≤ count`, the size it stops at has a
    capacity `> count` — for EVERY capacity rule, as long as the fuel covers `count + 2 - capacity` rounds (it does: `growLog`) -/
theorem growLoop_some (sp : Spec) (count : Nat) :
    ∀ fuel nl r, count + 2 ≤ fuel + capacityOf sp nl → growLoop sp count fuel nl = some r →
      count < capacityOf sp r ∧ ∀ l, nl ≤ l → l < r → capacityOf sp l ≤ count := by
  intro fuel
  induction fuel with
  | zero =>
    intro nl r hfu h
    simp only [growLoop, Option.some.injEq] at h; subst h
    exact ⟨by omega, fun l h1 h2 => by omega⟩
  | succ f ih =>
    intro nl r hfu h
    simp only [growLoop] at h
    split at h
    · rename_i hle
      split at h
      · rename_i hlt
        obtain ⟨h1, h2⟩ := ih (nl + 1) r (by omega) h
        refine ⟨h1, fun l hl hr => ?_⟩
        by_cases hln : l = nl
        · subst hln; exact hle
        · exact h2 l (by omega) hr
      · cases h
    · simp only [Option.some.injEq] at h; subst h
      exact ⟨by omega, fun l h1 h2 => by omega⟩

/-- a failed check: the capacity did not grow from some size `l ≥ nl` to the next although `capacityOf l ≤ count` -/
theorem growLoop_none (sp : Spec) (count : Nat) :
    ∀ fuel nl, growLoop sp count fuel nl = none →
      ∃ l, nl ≤ l ∧ capacityOf sp l ≤ count ∧ capacityOf sp (l + 1) ≤ capacityOf sp l := by
  intro fuel
  induction fuel with
  | zero => intro nl h; simp [growLoop] at h
  | succ f ih =>
    intro nl h
    simp only [growLoop] at h
    split at h
    · rename_i hle
      split at h
      · obtain ⟨l, a, b, c⟩ := ih _ h
        exact ⟨l, by omega, b, c⟩
      · rename_i hn; exact ⟨nl, Nat.le_refl _, hle, by omega⟩
    · cases h

/-- **`pvAddGrow` finds its size** (capacity rule strictly growing, `SpecOK.capMono`): the check inside the loop never fails
    and the loop stops at the first size `≥ pvGetNewLogBucketCount()` whose capacity exceeds the count -/
theorem growLog_spec (sp : Spec) (ok : SpecOK sp) (t : Table) :
    ∃ nl, growLog sp t = some nl ∧ newLog sp t ≤ nl ∧ t.count < capacityOf sp nl ∧
      ∀ l, newLog sp t ≤ l → l < nl → capacityOf sp l ≤ t.count := by
  cases h : growLog sp t with
  | none =>
    obtain ⟨l, _, _, hc⟩ := growLoop_none sp t.count _ _ h
    have := ok.capMono l; omega
  | some nl =>
    obtain ⟨a, b⟩ := growLoop_some sp t.count _ _ nl (by omega) h
    exact ⟨nl, rfl, growLoop_ge sp t.count _ _ nl h, a, b⟩

/-- a table that is not overloaded beyond the next size grows to exactly `pvGetNewLogBucketCount()` (the only case before the
    loop existed) -/
theorem growLog_eq_newLog (sp : Spec) (t : Table) (h : t.count < capacityOf sp (newLog sp t)) :
    growLog sp t = some (newLog sp t) := by
  unfold growLog
  simp only [growLoop]
  rw [if_neg (by omega)]

/-! ### `pvAdd` split into its two phases -/

/-- `pvAddNogrow` on the newest generation -/
def addHead (sp : Spec) (t : Table) (h : Nat) (it : Item) (f : Faults) : Table × Outcome :=
  match t.gens with
  | [] => (t, .badAlloc)
  | g :: rest =>
    if f.refuseAdd then (t, .badAlloc) else
    match addNogrowGen sp g h it with
    | none => (t, .full)
    | some (g', _) => ({ t with gens := g' :: rest, count := t.count + 1 }, .ok)

/-- everything in `pvAdd` before the migration -/
def addPhase1 (sp : Spec) (hf : Nat → Nat) (t : Table) (it : Item) (f : Faults) : Table × Outcome :=
  if t.count < t.cap then addHead sp t (hf it.key) it f
  else
    match growLog sp t with
    | none => (t, .invalid)
    | some nl =>
      if f.refuseGrow then
        if sp.overloadIfCannotGrow && !t.gens.isEmpty then addHead sp t (hf it.key) it f else (t, .badAlloc)
      else if f.refuseAdd then (t, .badAlloc)
      else
        match addNogrowGen sp (emptyGen sp nl) (hf it.key) it with
        | none => (t, .full)
        | some (g', _) =>
          ({ gens := g' :: t.gens, count := t.count + 1, cap := capacityOf sp nl }, .ok)

/-- the migration step at the end of `pvAdd` -/
def addFinish (sp : Spec) (hf : Nat → Nat) (f : Faults) (r : Table × Outcome) : Table × Outcome :=
  match r.2 with
  | .ok => if r.1.gens.length > 1 then (relocate sp hf r.1 f.relocStop, .ok) else (r.1, .ok)
  | _ => (r.1, r.2)

theorem add_eq (sp : Spec) (hf : Nat → Nat) (t : Table) (it : Item) (f : Faults) :
    add sp hf t it f = addFinish sp hf f (addPhase1 sp hf t it f) := by
  have h : ∀ r : Table × Outcome, (match r with
      | (t1, out) => match out with
        | .ok => if t1.gens.length > 1 then (relocate sp hf t1 f.relocStop, Outcome.ok) else (t1, .ok)
        | _ => (t1, out)) = addFinish sp hf f r := by
    intro r; obtain ⟨t1, out⟩ := r; cases out <;> rfl
  unfold add
  exact h _

theorem addHead_fail (sp : Spec) (t : Table) (h : Nat) (it : Item) (f : Faults)
    (hne : (addHead sp t h it f).2 ≠ .ok) : (addHead sp t h it f).1 = t := by
  unfold addHead at *
  cases hg : t.gens with
  | nil => rfl
  | cons g rest =>
    simp only [hg] at hne ⊢
    cases hra : f.refuseAdd with
    | true => simp
    | false =>
      simp only [hra, Bool.false_eq_true, if_false] at hne ⊢
      cases hadd : addNogrowGen sp g h it with
      | none => rfl
      | some r => simp [hadd] at hne

theorem addPhase1_fail (sp : Spec) (hf : Nat → Nat) (t : Table) (it : Item) (f : Faults)
    (hne : (addPhase1 sp hf t it f).2 ≠ .ok) : (addPhase1 sp hf t it f).1 = t := by
  unfold addPhase1 at *
  split
  · rename_i h; simp only [h, if_true] at hne; exact addHead_fail sp t _ it f hne
  · rename_i h; simp only [h, if_false] at hne
    cases hgl : growLog sp t with
    | none => rfl
    | some nl =>
      simp only [hgl] at hne ⊢
      split
      · rename_i h2; simp only [h2, if_true] at hne
        split
        · rename_i h3; simp only [h3, if_true] at hne; exact addHead_fail sp t _ it f hne
        · rfl
      · rename_i h2; simp only [h2] at hne
        split
        · rfl
        · rename_i h3; simp only [h3] at hne
          split
          · rfl
          · rename_i hadd; simp [hadd] at hne

/-- **strong guarantee of `pvAdd`**: whatever fault strikes (refused bucket array, throwing item
    creation, full table), a failed insertion leaves the table exactly as it was -/
theorem add_fail_unchanged (sp : Spec) (hf : Nat → Nat) (t : Table) (it : Item) (f : Faults)
    (hne : (add sp hf t it f).2 ≠ .ok) : (add sp hf t it f).1 = t := by
  rw [add_eq] at *
  unfold addFinish at *
  cases h2 : (addPhase1 sp hf t it f).2 with
  | ok =>
    rw [h2] at hne; simp only at hne
    split at hne <;> simp at hne
  | full =>
    simp only
    exact addPhase1_fail sp hf t it f (by rw [h2]; simp)
  | badAlloc =>
    simp only
    exact addPhase1_fail sp hf t it f (by rw [h2]; simp)
  | invalid =>
    simp only
    exact addPhase1_fail sp hf t it f (by rw [h2]; simp)

theorem nodup_cons_fresh (l : List Item) (it : Item) (hn : (l.map (·.key)).Nodup)
    (hk : ∀ x ∈ l, x.key ≠ it.key) : ((it :: l).map (·.key)).Nodup := by
  simp only [List.map_cons, List.nodup_cons]
  refine ⟨?_, hn⟩
  intro hmem
  obtain ⟨x, hx, hkx⟩ := List.mem_map.mp hmem
  exact hk x hx hkx

theorem addHead_ok (sp : Spec) (hf : Nat → Nat) (ok : SpecOK sp) (t : Table) (it : Item) (f : Faults)
    (hI : TableCore sp hf t) (hk : ∀ x ∈ traverse t, x.key ≠ it.key)
    (hok : (addHead sp t (hf it.key) it f).2 = .ok) :
    TableCore sp hf (addHead sp t (hf it.key) it f).1 ∧
    (traverse (addHead sp t (hf it.key) it f).1).Perm (it :: traverse t) ∧
    (addHead sp t (hf it.key) it f).1.gens.length = t.gens.length := by
  unfold addHead at *
  cases hg : t.gens with
  | nil => simp [hg] at hok
  | cons g rest =>
    simp only [hg] at hok ⊢
    cases hra : f.refuseAdd with
    | true => simp [hra] at hok
    | false =>
      simp only [hra, Bool.false_eq_true, if_false] at hok ⊢
      cases hadd : addNogrowGen sp g (hf it.key) it with
      | none => simp [hadd] at hok
      | some r =>
        obtain ⟨g', idx⟩ := r
        simp only
        obtain ⟨hG', hperm, hL⟩ := addNogrowGen_inv sp hf ok g g' it idx (hI.gens g (by rw [hg]; simp)) hadd
        have hp : (traverse { t with gens := g' :: rest, count := t.count + 1 }).Perm (it :: traverse t) := by
          rw [traverse_eq_gensItems, traverse_eq_gensItems, hg]
          simp only [gensItems_cons]
          exact (List.Perm.append_right _ hperm)
        refine ⟨⟨?_, ?_, ?_, ?_, ?_⟩, hp, by simp⟩
        · intro g'' hg''
          rcases List.mem_cons.mp hg'' with rfl | h
          · exact hG'
          · exact hI.gens g'' (by rw [hg]; simp [h])
        · exact nodup_keys_perm hp (nodup_cons_fresh _ it hI.nodup hk)
        · show t.count + 1 = _
          rw [hp.length_eq, hI.count]; rfl
        · intro hu g'' rest' hgr
          simp only [List.cons.injEq] at hgr
          obtain ⟨rfl, _⟩ := hgr
          show t.cap ≤ _
          rw [hL]; exact hI.capLe hu g rest hg
        · intro h; simp at h

/-- phase 1 of a successful `pvAdd`: the new item is in, nothing else changed; either the
    generation list kept its length or a fresh generation of size `newLog` was put in front -/
theorem addPhase1_ok (sp : Spec) (hf : Nat → Nat) (ok : SpecOK sp) (t : Table) (it : Item) (f : Faults)
    (hI : TableCore sp hf t) (hk : ∀ x ∈ traverse t, x.key ≠ it.key)
    (hok : (addPhase1 sp hf t it f).2 = .ok) :
    TableCore sp hf (addPhase1 sp hf t it f).1 ∧
    (traverse (addPhase1 sp hf t it f).1).Perm (it :: traverse t) ∧
    ((addPhase1 sp hf t it f).1.gens.length = t.gens.length ∨
      ∃ g', (addPhase1 sp hf t it f).1.gens = g' :: t.gens ∧ growLog sp t = some g'.L ∧
        (addPhase1 sp hf t it f).1.cap = capacityOf sp g'.L ∧ (addPhase1 sp hf t it f).1.count = t.count + 1) := by
  unfold addPhase1 at *
  split
  · rename_i h; simp only [h, if_true] at hok
    obtain ⟨a, b, c⟩ := addHead_ok sp hf ok t it f hI hk hok
    exact ⟨a, b, Or.inl c⟩
  · rename_i h; simp only [h, if_false] at hok
    cases hgl : growLog sp t with
    | none => simp [hgl] at hok
    | some nl =>
    simp only [hgl] at hok ⊢
    split
    · rename_i h2; simp only [h2, if_true] at hok
      split
      · rename_i h3; simp only [h3, if_true] at hok
        obtain ⟨a, b, c⟩ := addHead_ok sp hf ok t it f hI hk hok
        exact ⟨a, b, Or.inl c⟩
      · rename_i h3; simp [h3] at hok
    · rename_i h2; simp only [h2] at hok
      split
      · rename_i h3; simp [h3] at hok
      · rename_i h3; simp only [h3] at hok
        cases hadd : addNogrowGen sp (emptyGen sp nl) (hf it.key) it with
        | none => simp [hadd] at hok
        | some r =>
          obtain ⟨g', idx⟩ := r
          simp only
          obtain ⟨hG', hperm, hL⟩ := addNogrowGen_inv sp hf ok _ g' it idx (emptyGen_inv sp hf ok _) hadd
          simp only [genItems_emptyGen, emptyGen_L] at hperm hL
          have hp : (traverse { gens := g' :: t.gens, count := t.count + 1, cap := capacityOf sp nl }).Perm (it :: traverse t) := by
            rw [traverse_eq_gensItems, traverse_eq_gensItems]
            simp only [gensItems_cons]
            exact (List.Perm.append_right _ hperm)
          refine ⟨⟨?_, ?_, ?_, ?_, ?_⟩, hp, Or.inr ⟨g', rfl, by simp [hL], by simp [hL], by simp⟩⟩
          · intro g'' hg''
            rcases List.mem_cons.mp hg'' with rfl | h
            · exact hG'
            · exact hI.gens g'' h
          · exact nodup_keys_perm hp (nodup_cons_fresh _ it hI.nodup hk)
          · show t.count + 1 = _
            rw [hp.length_eq, hI.count]; rfl
          · intro hu g'' rest' hgr
            simp only [List.cons.injEq] at hgr
            obtain ⟨rfl, _⟩ := hgr
            show capacityOf sp nl ≤ _
            rw [hL]; exact ok.capLe hu _
          · intro h; simp at h

/-- **`pvAdd` of a key that is not present, under every fault**: on success the invariant holds
    and the traversal gained exactly the new item — including when the migration that follows the
    insertion is interrupted at an arbitrary point (`f.relocStop`) -/
theorem add_ok (sp : Spec) (hf : Nat → Nat) (ok : SpecOK sp) (t : Table) (it : Item) (f : Faults)
    (hI : TableInv sp hf t) (hF : FaultsOK sp f) (hk : ∀ x ∈ traverse t, x.key ≠ it.key)
    (hok : (add sp hf t it f).2 = .ok) :
    TableInv sp hf (add sp hf t it f).1 ∧ (traverse (add sp hf t it f).1).Perm (it :: traverse t) := by
  rw [add_eq] at *
  unfold addFinish at *
  cases h2 : (addPhase1 sp hf t it f).2 with
  | full => rw [h2] at hok; simp at hok
  | badAlloc => rw [h2] at hok; simp at hok
  | invalid => rw [h2] at hok; simp at hok
  | ok =>
    obtain ⟨hC, hp, hshape⟩ := addPhase1_ok sp hf ok t it f hI.core hk h2
    simp only
    split
    · rename_i hlen
      obtain ⟨c, p, l, _, _⟩ := relocate_core sp hf ok _ hC f.relocStop
      refine ⟨⟨c, ?_⟩, p.trans hp⟩
      intro hnr
      show (relocate sp hf (addPhase1 sp hf t it f).1 f.relocStop).gens.length ≤ 1
      have hs := hI.single hnr
      rcases hshape with h | ⟨g', hg', hL', _, _⟩
      · omega
      · -- a fresh generation in front of at most one old one: the migration completes
        rw [hF hnr]
        have := relocate_complete sp hf ok _ hC g' t.gens hg' (by
          cases hu : sp.unlimited with
          | true => exact Or.inl rfl
          | false =>
            right
            rw [hp.length_eq]
            cases hgs : t.gens with
            | nil => rw [hg', hgs] at hlen; simp at hlen
            | cons g rest =>
              have hrest : rest = [] := by
                rw [hgs] at hs
                cases rest with
                | nil => rfl
                | cons _ _ => simp at hs
              subst hrest
              have hGI := hI.core.gens g (by rw [hgs]; simp)
              have hnl : g.L + 1 ≤ g'.L := by
                have hge := growLoop_ge sp t.count _ _ _ hL'
                unfold newLog at hge; rw [hgs] at hge; have := shiftOf_pos sp g.L; simp only at hge; omega
              have := room_of_bigger sp hf ok g hGI g'.L hnl hu
              rw [traverse_eq_gensItems, hgs]
              simpa using this)
        omega
    · rename_i hlen
      refine ⟨⟨hC, fun _ => ?_⟩, hp⟩
      show (addPhase1 sp hf t it f).1.gens.length ≤ 1
      omega

/-- the invariant survives `pvAdd` whatever the outcome -/
theorem add_keeps_inv (sp : Spec) (hf : Nat → Nat) (ok : SpecOK sp) (t : Table) (it : Item) (f : Faults)
    (hI : TableInv sp hf t) (hF : FaultsOK sp f) (hk : ∀ x ∈ traverse t, x.key ≠ it.key) :
    TableInv sp hf (add sp hf t it f).1 := by
  by_cases hok : (add sp hf t it f).2 = .ok
  · exact (add_ok sp hf ok t it f hI hF hk hok).1
  · rw [add_fail_unchanged sp hf t it f hok]; exact hI

/-! ### the C11 fallback and fault-free success -/

theorem addHead_out (sp : Spec) (t : Table) (h : Nat) (it : Item) (f : Faults) (g : Gen) (rest : List Gen)
    (hg : t.gens = g :: rest) (hra : f.refuseAdd = false) :
    ((addHead sp t h it f).2 = .ok ∨ (addHead sp t h it f).2 = .full) ∧
    ((addHead sp t h it f).2 = .full ↔ ∀ b, b < 2 ^ g.L → isFull sp (bkt sp g.bs b) = true) := by
  unfold addHead
  simp only [hg, hra, Bool.false_eq_true, if_false]
  rw [← addNogrowGen_none_iff sp g h it]
  cases addNogrowGen sp g h it with
  | none => simp
  | some r => simp

theorem addFinish_out (sp : Spec) (hf : Nat → Nat) (f : Faults) (r : Table × Outcome) :
    (addFinish sp hf f r).2 = r.2 := by
  unfold addFinish
  split
  · rename_i h; split <;> simp [h]
  · rfl

/-- **C11, refused growth**: when `Buckets::Create` of the larger bucket array fails and a table
    exists, `pvAdd` inserts into the existing newest bucket array; it fails — with "Hash table is
    full", never `bad_alloc` — only if literally every bucket of that array is full -/
theorem add_refused_fallback (sp : Spec) (hf : Nat → Nat) (t : Table) (it : Item) (f : Faults)
    (g : Gen) (rest : List Gen) (hg : t.gens = g :: rest) (hov : sp.overloadIfCannotGrow = true)
    (hrg : f.refuseGrow = true) (hra : f.refuseAdd = false) (nl : Nat) (hgl : growLog sp t = some nl) :
    ((add sp hf t it f).2 = .ok ∨ (add sp hf t it f).2 = .full) ∧
    ((add sp hf t it f).2 = .full ↔ ∀ b, b < 2 ^ g.L → isFull sp (bkt sp g.bs b) = true) := by
  rw [add_eq, addFinish_out]
  have hp : addPhase1 sp hf t it f = addHead sp t (hf it.key) it f := by
    unfold addPhase1
    split
    · rfl
    · simp [hgl, hov, hg]
  rw [hp]
  exact addHead_out sp t _ it f g rest hg hra

/-- without a fault an insertion always succeeds: the capacity rule grows the table before a
    bucket array can be completely full -/
theorem add_nofault_ok (sp : Spec) (hf : Nat → Nat) (ok : SpecOK sp) (t : Table) (it : Item) (f : Faults)
    (hI : TableCore sp hf t) (hrg : f.refuseGrow = false) (hra : f.refuseAdd = false) :
    (add sp hf t it f).2 = .ok := by
  rw [add_eq, addFinish_out]
  unfold addPhase1
  split
  · rename_i hlt
    cases hg : t.gens with
    | nil => have := hI.capNil hg; omega
    | cons g rest =>
      obtain ⟨h1, h2⟩ := addHead_out sp t (hf it.key) it f g rest hg hra
      rcases h1 with h1 | h1
      · exact h1
      · exfalso
        have hall := h2.mp h1
        have hGI := hI.gens g (by rw [hg]; simp)
        obtain ⟨hu, hge⟩ := genCount_of_all_full sp g hGI.len hall
        have hcap := hI.capLe hu g rest hg
        have hc := hI.count
        rw [traverse_eq_gensItems, hg] at hc
        simp only [gensItems_cons, List.length_append] at hc
        rw [genCount_eq] at hge
        omega
  · obtain ⟨nl, hgl, _⟩ := growLog_spec sp ok t
    simp only [hgl, hrg, hra, Bool.false_eq_true, if_false]
    have := addNogrowGen_emptyGen_isSome sp ok nl (hf it.key) it
    cases hadd : addNogrowGen sp (emptyGen sp nl) (hf it.key) it with
    | none => rw [hadd] at this; cases this
    | some r => rfl

/-! ### `pvRemove` -/

theorem gensItems_modify (gs : List Gen) (gi : Nat) (g : Gen) (F : Gen → Gen) (x : Item)
    (hg : gs[gi]? = some g) (hp : (x :: genItems (F g)).Perm (genItems g)) :
    (x :: gensItems (gs.modify gi F)).Perm (gensItems gs) := by
  induction gs generalizing gi with
  | nil => simp at hg
  | cons a as ih =>
    cases gi with
    | zero =>
      simp only [List.getElem?_cons_zero, Option.some.injEq] at hg
      subst hg
      simp only [List.modify_zero_cons, gensItems_cons]
      exact List.Perm.append_right _ hp
    | succ n =>
      simp only [List.getElem?_cons_succ] at hg
      simp only [List.modify_succ_cons, gensItems_cons]
      exact (List.perm_middle.symm).trans (List.Perm.append_left _ (ih n hg))

/-- **`pvRemove` at a position returned by `pvFind`**: the invariant is kept and exactly the item
    at that position leaves the traversal (in whichever generation it was found) -/
theorem removePos_spec (sp : Spec) (hf : Nat → Nat) (t : Table) (hI : TableInv sp hf t) (gi b j : Nat)
    (g : Gen) (it : Item) (hg : t.gens[gi]? = some g) (hj : (bkt sp g.bs b).items[j]? = some it) :
    TableInv sp hf (removePos sp t gi b j) ∧ (it :: traverse (removePos sp t gi b j)).Perm (traverse t) := by
  have hgm : g ∈ t.gens := List.mem_of_getElem? hg
  have hjlt : j < (bkt sp g.bs b).items.length := by
    rcases List.getElem?_eq_some_iff.mp hj with ⟨h, _⟩; exact h
  have hb : b < g.bs.length := by
    apply Decidable.byContradiction; intro hnb
    rw [bkt_of_ge sp g.bs b (by omega)] at hjlt; simp at hjlt
  have hget : (bkt sp g.bs b).items[j] = it := by
    rcases List.getElem?_eq_some_iff.mp hj with ⟨_, h⟩; exact h
  have hrem := removeBkt_items sp g b j hb hjlt
  rw [hget] at hrem
  have hp : (it :: traverse (removePos sp t gi b j)).Perm (traverse t) := by
    unfold removePos
    rw [traverse_eq_gensItems, traverse_eq_gensItems]
    exact gensItems_modify t.gens gi g _ it hg hrem
  have hnd : ((traverse (removePos sp t gi b j)).map (·.key)).Nodup := by
    have := nodup_keys_perm hp hI.core.nodup
    simp only [List.map_cons, List.nodup_cons] at this
    exact this.2
  refine ⟨⟨⟨?_, hnd, ?_, ?_, ?_⟩, ?_⟩, hp⟩
  · intro g' hg'
    unfold removePos at hg'
    simp only at hg'
    rw [List.mem_iff_getElem?] at hg'
    obtain ⟨n, hn⟩ := hg'
    rw [List.getElem?_modify] at hn
    cases hgn : t.gens[n]? with
    | none => simp [hgn] at hn
    | some g0 =>
      rw [hgn] at hn
      simp only [Option.map_eq_map, Option.map_some, Option.some.injEq] at hn
      have hg0 := hI.core.gens g0 (List.mem_of_getElem? hgn)
      by_cases hgi : gi = n
      · simp only [hgi, if_true] at hn
        subst hn
        by_cases hb0 : b < g0.bs.length
        · exact removeBkt_inv sp hf g0 b j hg0 hb0
        · have : updBkt sp g0.bs b (removeAt j) = g0.bs := by
            unfold updBkt; rw [List.set_eq_of_length_le (by omega)]
          rw [this]; exact hg0
      · simp only [hgi, if_false] at hn
        subst hn; exact hg0
  · have := hp.length_eq
    simp only [List.length_cons] at this
    show t.count - 1 = _
    rw [hI.core.count]; omega
  · intro hu g' rest' hgr
    show t.cap ≤ _
    unfold removePos at hgr
    simp only at hgr
    cases hgs : t.gens with
    | nil => rw [hgs] at hgr; simp at hgr
    | cons g0 rest0 =>
      rw [hgs] at hgr
      have hcap := hI.core.capLe hu g0 rest0 hgs
      cases gi with
      | zero =>
        simp only [List.modify_zero_cons, List.cons.injEq] at hgr
        obtain ⟨rfl, _⟩ := hgr; exact hcap
      | succ n =>
        simp only [List.modify_succ_cons, List.cons.injEq] at hgr
        obtain ⟨rfl, _⟩ := hgr; exact hcap
  · intro h
    unfold removePos at h
    simp only [List.modify_eq_nil_iff] at h
    rw [h] at hgm; simp at hgm
  · intro hnr
    unfold removePos
    simp only [List.length_modify]
    exact hI.single hnr

/-! ### `Reserve` -/

theorem reserve_grow_ge (sp : Spec) (c : Nat) : ∀ fuel nl, nl ≤ reserve.grow sp c fuel nl := by
  intro fuel
  induction fuel with
  | zero => intro nl; simp [reserve.grow]
  | succ f ih =>
    intro nl
    simp only [reserve.grow]
    split
    · exact Nat.le_refl _
    · exact Nat.le_trans (Nat.le_succ _) (ih (nl + 1))

/-- **`Reserve` under every fault** (refused bucket array: unchanged; interrupted migration: any
    stopping point): invariant kept, contents unchanged -/
theorem reserve_spec (sp : Spec) (hf : Nat → Nat) (ok : SpecOK sp) (t : Table) (c : Nat) (f : Faults)
    (hI : TableInv sp hf t) (hF : FaultsOK sp f) :
    TableInv sp hf (reserve sp hf t c f).1 ∧ (traverse (reserve sp hf t c f).1).Perm (traverse t) ∧
    ((reserve sp hf t c f).2 ≠ .ok → (reserve sp hf t c f).1 = t) := by
  unfold reserve
  split
  · exact ⟨hI, List.Perm.refl _, fun _ => rfl⟩
  · simp only
    split
    · exact ⟨hI, List.Perm.refl _, fun _ => rfl⟩
    · generalize hnl : reserve.grow sp c 64 (newLog sp t) = nl
      have hnlge : newLog sp t ≤ nl := by rw [← hnl]; exact reserve_grow_ge sp c 64 _
      have htr : traverse { gens := emptyGen sp nl :: t.gens, count := t.count, cap := capacityOf sp nl }
          = traverse t := by
        rw [traverse_eq_gensItems, traverse_eq_gensItems]; simp
      have hC : TableCore sp hf { gens := emptyGen sp nl :: t.gens, count := t.count, cap := capacityOf sp nl } := by
        refine ⟨?_, ?_, ?_, ?_, ?_⟩
        · intro g' hg'
          rcases List.mem_cons.mp hg' with rfl | h
          · exact emptyGen_inv sp hf ok nl
          · exact hI.core.gens g' h
        · rw [htr]; exact hI.core.nodup
        · rw [htr]; exact hI.core.count
        · intro hu g' rest' hgr
          simp only [List.cons.injEq] at hgr
          obtain ⟨rfl, _⟩ := hgr
          exact ok.capLe hu nl
        · intro h; simp at h
      split
      · rename_i hlen
        obtain ⟨cc, p, l, _, _⟩ := relocate_core sp hf ok _ hC f.relocStop
        refine ⟨⟨cc, ?_⟩, by rw [← htr]; exact p, fun h => absurd rfl h⟩
        intro hnr
        show (relocate sp hf _ f.relocStop).gens.length ≤ 1
        have hs := hI.single hnr
        rw [hF hnr]
        have := relocate_complete sp hf ok _ hC (emptyGen sp nl) t.gens rfl (by
          cases hu : sp.unlimited with
          | true => exact Or.inl rfl
          | false =>
            right
            rw [htr]
            cases hgs : t.gens with
            | nil => rw [traverse_eq_gensItems, hgs]; simp
            | cons g rest =>
              have hrest : rest = [] := by
                rw [hgs] at hs
                cases rest with
                | nil => rfl
                | cons _ _ => simp at hs
              subst hrest
              have hGI := hI.core.gens g (by rw [hgs]; simp)
              have hnl' : g.L + 1 ≤ nl := by
                unfold newLog at hnlge; rw [hgs] at hnlge
                have := shiftOf_pos sp g.L; simp only at hnlge; omega
              have := room_of_bigger sp hf ok g hGI nl hnl' hu
              rw [traverse_eq_gensItems, hgs]
              simp only [gensItems_cons, gensItems_nil, List.append_nil, emptyGen_L]
              omega)
        omega
      · rename_i hlen
        simp only [List.length_cons] at hlen
        refine ⟨⟨hC, fun _ => ?_⟩, by rw [htr], fun h => absurd rfl h⟩
        show (emptyGen sp nl :: t.gens).length ≤ 1
        simp only [List.length_cons]; omega

/-! ### `Clear` -/

theorem clear_spec (sp : Spec) (hf : Nat → Nat) (ok : SpecOK sp) (t : Table) (shrink : Bool)
    (hI : TableInv sp hf t) :
    TableInv sp hf (clear sp t shrink) ∧ traverse (clear sp t shrink) = [] := by
  unfold clear
  cases hg : t.gens with
  | nil =>
    simp only
    exact ⟨hI, by rw [traverse_eq_gensItems, hg]; rfl⟩
  | cons g rest =>
    simp only
    cases shrink with
    | true => simp only [if_true]; exact ⟨emptyTable_inv sp hf, rfl⟩
    | false =>
      simp only [Bool.false_eq_true, if_false]
      have htr : traverse { gens := [emptyGen sp g.L], count := 0, cap := t.cap } = [] := by
        rw [traverse_eq_gensItems]; simp
      refine ⟨⟨⟨?_, ?_, ?_, ?_, ?_⟩, fun _ => by simp⟩, htr⟩
      · intro g' hg'
        simp only [List.mem_singleton] at hg'; subst hg'
        exact emptyGen_inv sp hf ok g.L
      · rw [htr]; simp
      · rw [htr]; rfl
      · intro hu g' rest' hgr
        simp only [List.cons.injEq] at hgr
        obtain ⟨rfl, _⟩ := hgr
        exact hI.core.capLe hu g rest hg
      · intro h; simp at h

/-- **later operations complete the migration**: an insertion whose migration is not interrupted
    leaves exactly one generation, as long as the table is not overloaded afterwards (count within
    capacity — overload only arises from refused growth) -/
theorem add_completes (sp : Spec) (hf : Nat → Nat) (ok : SpecOK sp) (t : Table) (it : Item) (f : Faults)
    (hI : TableInv sp hf t) (hk : ∀ x ∈ traverse t, x.key ≠ it.key) (hstop : f.relocStop = none)
    (hok : (add sp hf t it f).2 = .ok) (hcap : (add sp hf t it f).1.count ≤ (add sp hf t it f).1.cap) :
    (add sp hf t it f).1.gens.length = 1 := by
  rw [add_eq] at *
  unfold addFinish at *
  cases h2 : (addPhase1 sp hf t it f).2 with
  | full => rw [h2] at hok; simp at hok
  | badAlloc => rw [h2] at hok; simp at hok
  | invalid => rw [h2] at hok; simp at hok
  | ok =>
    obtain ⟨hC, hp, _⟩ := addPhase1_ok sp hf ok t it f hI.core hk h2
    rw [h2] at hcap
    simp only at hcap ⊢
    split
    · rename_i hlen
      rw [if_pos hlen] at hcap
      show (relocate sp hf (addPhase1 sp hf t it f).1 f.relocStop).gens.length = 1
      obtain ⟨_, _, _, hcnt, hcp⟩ := relocate_core sp hf ok _ hC f.relocStop
      have hcap' : (addPhase1 sp hf t it f).1.count ≤ (addPhase1 sp hf t it f).1.cap := by
        have : (relocate sp hf (addPhase1 sp hf t it f).1 f.relocStop).count
            ≤ (relocate sp hf (addPhase1 sp hf t it f).1 f.relocStop).cap := hcap
        rw [hcnt, hcp] at this; exact this
      rw [hstop]
      cases hg : (addPhase1 sp hf t it f).1.gens with
      | nil => rw [hg] at hlen; simp at hlen
      | cons head olds =>
        apply relocate_complete sp hf ok _ hC head olds hg
        cases hu : sp.unlimited with
        | true => exact Or.inl rfl
        | false =>
          right
          have := hC.capLe hu head olds hg
          rw [← hC.count]; omega
    · rename_i hlen
      show (addPhase1 sp hf t it f).1.gens.length = 1
      have hpos : 0 < (traverse (addPhase1 sp hf t it f).1).length := by
        rw [hp.length_eq]; simp
      cases hg : (addPhase1 sp hf t it f).1.gens with
      | nil => rw [traverse_eq_gensItems, hg] at hpos; simp at hpos
      | cons head olds => rw [hg] at hlen; simp at hlen ⊢; omega

/-! ### growth of an overloaded table (`pvAddGrow` after refused growths) -/

/-- no insertion ever fails the check of the sizing loop when the capacity rule grows with the bucket count -/
theorem add_never_invalid (sp : Spec) (hf : Nat → Nat) (ok : SpecOK sp) (t : Table) (it : Item) (f : Faults) :
    (add sp hf t it f).2 ≠ .invalid := by
  rw [add_eq, addFinish_out]
  have hH : (addHead sp t (hf it.key) it f).2 ≠ .invalid := by
    unfold addHead
    split
    · simp
    · split
      · simp
      · split <;> simp
  unfold addPhase1
  split
  · exact hH
  · obtain ⟨nl, hgl, _⟩ := growLog_spec sp ok t
    simp only [hgl]
    split
    · split
      · exact hH
      · simp
    · split
      · simp
      · split <;> simp

/-- an `invalid` answer comes from the sizing loop and nowhere else -/
theorem add_invalid_stalls (sp : Spec) (hf : Nat → Nat) (t : Table) (it : Item) (f : Faults)
    (h : (add sp hf t it f).2 = .invalid) :
    t.cap ≤ t.count ∧
    ∃ l, newLog sp t ≤ l ∧ capacityOf sp l ≤ t.count ∧ capacityOf sp (l + 1) ≤ capacityOf sp l := by
  rw [add_eq, addFinish_out] at h
  have hH : (addHead sp t (hf it.key) it f).2 ≠ .invalid := by
    unfold addHead
    split
    · simp
    · split
      · simp
      · split <;> simp
  unfold addPhase1 at h
  split at h
  · exact absurd h hH
  · rename_i hlt
    refine ⟨by omega, ?_⟩
    cases hgl : growLog sp t with
    | none => exact growLoop_none sp t.count _ _ hgl
    | some nl =>
      exfalso
      simp only [hgl] at h
      split at h
      · split at h
        · exact hH h
        · simp at h
      · split at h
        · simp at h
        · split at h <;> simp at h

/-- the state `pvAdd` leaves when it has to grow (count ≥ capacity: a full table, or one overloaded by any number of refused
    growths) and the bucket array is granted: one more item, and the capacity is that of the first size
    `≥ pvGetNewLogBucketCount()` that exceeds the old count — whatever the migration does afterwards -/
theorem add_grow_shape (sp : Spec) (hf : Nat → Nat) (ok : SpecOK sp) (t : Table) (it : Item) (f : Faults)
    (hI : TableCore sp hf t) (hk : ∀ x ∈ traverse t, x.key ≠ it.key) (hov : t.cap ≤ t.count)
    (hrg : f.refuseGrow = false) (hra : f.refuseAdd = false) :
    ∃ nl, growLog sp t = some nl ∧ newLog sp t ≤ nl ∧ t.count < capacityOf sp nl ∧
      (∀ l, newLog sp t ≤ l → l < nl → capacityOf sp l ≤ t.count) ∧
      (add sp hf t it f).2 = .ok ∧ (add sp hf t it f).1.count = t.count + 1 ∧
      (add sp hf t it f).1.cap = capacityOf sp nl ∧
      ∃ head olds, (add sp hf t it f).1.gens = head :: olds ∧ head.L = nl := by
  obtain ⟨nl, hgl, hge, hgt, hmin⟩ := growLog_spec sp ok t
  refine ⟨nl, hgl, hge, hgt, hmin, ?_⟩
  have hsome := addNogrowGen_emptyGen_isSome sp ok nl (hf it.key) it
  cases hadd : addNogrowGen sp (emptyGen sp nl) (hf it.key) it with
  | none => rw [hadd] at hsome; cases hsome
  | some r =>
    obtain ⟨g', idx⟩ := r
    have hL : g'.L = nl := by
      obtain ⟨_, _, hL⟩ := addNogrowGen_inv sp hf ok _ g' it idx (emptyGen_inv sp hf ok _) hadd
      simpa using hL
    have hp1 : addPhase1 sp hf t it f =
        ({ gens := g' :: t.gens, count := t.count + 1, cap := capacityOf sp nl }, .ok) := by
      unfold addPhase1
      rw [if_neg (by omega)]
      simp only [hgl, hrg, hra, Bool.false_eq_true, if_false, hadd]
    rw [add_eq, hp1]
    unfold addFinish
    simp only
    split
    · -- the migration keeps count, capacity and the newest bucket array
      have hC : TableCore sp hf { gens := g' :: t.gens, count := t.count + 1, cap := capacityOf sp nl } := by
        have h2 : (addPhase1 sp hf t it f).2 = .ok := by rw [hp1]
        have := (addPhase1_ok sp hf ok t it f hI hk h2).1
        rw [hp1] at this; exact this
      obtain ⟨_, _, _, hcnt, hcp⟩ := relocate_core sp hf ok _ hC f.relocStop
      obtain ⟨head', olds', hg', hL'⟩ := relocate_head sp hf ok _ hC f.relocStop g' t.gens rfl
      exact ⟨rfl, hcnt, hcp, head', olds', hg', by rw [hL', hL]⟩
    · exact ⟨rfl, rfl, rfl, g', t.gens, rfl, hL⟩

instance (sp : Spec) (f : Faults) : Decidable (FaultsOK sp f) :=
  inferInstanceAs (Decidable (sp.nothrowReloc = true → f.relocStop = none))

end Momo.HT
