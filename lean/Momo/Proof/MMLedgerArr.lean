import Momo.Model.MMLedger
import Momo.Proof.HTLedgerSys
/-!
  C03 / C04 for `momo::HashMultiMap`, part 1: the ledger follows the books of ONE value array through every transition of
  `ArrayBucket` (`AddBackCrt`: none -> fast -> bigger fast -> heap -> grown heap; `RemoveBack`: heap shrink, last value;
  `pvRemoveAll`; the copy), for every fault record.

  Shape of every lemma (as in `HTLedgerReloc`): if the monitor holds the array's heap block / value objects plus a frame
  (`FB` / `FE`: the key table, the other arrays, the pools, the other container), then after the model's function it holds the
  array's NEW block / objects plus the same frame; a failing step leaves exactly what was held.
-/
namespace Momo.MML
open Momo Momo.HT Momo.Ledger Momo.MMap Momo.HTL

/-- the manager block of one value array -/
def hbk (cfg : Cfg) (b : VB) : List Blk := (optL b.heap).map (blkOf cfg.h)

theorem relocAll_led (c : Obj.Cat) (B : List Blk) : ∀ (objs : List Nat) (w : W) (FE : List Nat),
    Led w B (objs ++ FE) → Led (relocAll c objs w).2 B ((relocAll c objs w).1 ++ FE) := by
  intro objs
  induction objs with
  | nil => intro w FE h; exact h
  | cons e r ih =>
    intro w FE h
    simp only [relocAll]
    obtain ⟨h1, h2⟩ := Led.reloc c (e := e) (E := r ++ FE) h
    have h3 : Led (w.relocE c e).2 B (r ++ ((w.relocE c e).1 :: FE)) := by
      rw [h2]; exact h1.perm (List.Perm.refl _) (by perm_count)
    have h4 := ih _ _ h3
    exact h4.perm (List.Perm.refl _) (by perm_count)

theorem relocAll_length (c : Obj.Cat) : ∀ (objs : List Nat) (w : W), (relocAll c objs w).1.length = objs.length := by
  intro objs
  induction objs with
  | nil => intro w; rfl
  | cons e r ih => intro w; simp [relocAll, ih]

theorem destroyObjs_led (B : List Blk) (FE : List Nat) : ∀ (objs : List Nat) (w : W),
    Led w B (objs ++ FE) → Led (destroyObjs objs w) B FE := by
  intro objs
  induction objs with
  | nil => intro w h; exact h
  | cons e r ih =>
    intro w h
    simp only [destroyObjs]
    exact ih _ (Led.dtor (e := e) h)

theorem copyObjs_led (B : List Blk) : ∀ (src : List Nat) (w : W) (FE : List Nat), (∀ e ∈ src, e ∈ FE) →
    Led w B FE → Led (copyObjs src w).2 B ((copyObjs src w).1 ++ FE) := by
  intro src
  induction src with
  | nil => intro w FE _ h; exact h
  | cons e r ih =>
    intro w FE hs h
    simp only [copyObjs]
    obtain ⟨h1, h2⟩ := Led.copy (src := e) h (hs e (by simp))
    have h3 := ih (w.copyE e).2 ((w.copyE e).1 :: FE) (fun x hx => List.mem_cons_of_mem _ (hs x (List.mem_cons_of_mem _ hx)))
      (by rw [h2]; exact h1)
    exact h3.perm (List.Perm.refl _) (by perm_count)

theorem copyObjs_length : ∀ (src : List Nat) (w : W), (copyObjs src w).1.length = src.length := by
  intro src
  induction src with
  | nil => intro w; rfl
  | cons e r ih => intro w; simp [copyObjs, ih]

theorem freeHeap_led (cfg : Cfg) (h : Option (Nat × Nat)) (w : W) (FB : List Blk) (E : List Nat)
    (hl : Led w ((optL h).map (blkOf cfg.h) ++ FB) E) : Led (freeHeap cfg h w) FB E := by
  cases h with
  | none => simpa [freeHeap, optL] using hl
  | some p =>
    simp only [freeHeap]
    exact Led.free (b := p.1) (m := cfg.h.mgr) (n := p.2) (by simpa [optL, blkOf] using hl)

/-- what a fallible value-array step does to the ledger: a failure leaves exactly what was held -/
def VPost (cfg : Cfg) (b : VB) (FB : List Blk) (FE : List Nat) : Option VB × W → Prop
  | (none, w1) => Led w1 (hbk cfg b ++ FB) (b.objs ++ FE)
  | (some b1, w1) => Led w1 (hbk cfg b1 ++ FB) (b1.objs ++ FE)

/-- allocate - create - relocate: the common part of the three growing transitions -/
theorem grow_led (cfg : Cfg) (objs : List Nat) (n : Nat) (w : W) (FB : List Blk) (FE : List Nat) (h : Led w FB (objs ++ FE)) :
    Led (relocAll cfg.vcat objs (w.allocB cfg.h.mgr n).2.ctorE.2).2 (((w.allocB cfg.h.mgr n).1, cfg.h.mgr, n) :: FB)
      (((relocAll cfg.vcat objs (w.allocB cfg.h.mgr n).2.ctorE.2).1 ++ [(w.allocB cfg.h.mgr n).2.ctorE.1]) ++ FE) := by
  obtain ⟨a1, a2⟩ := h.alloc cfg.h.mgr n
  obtain ⟨c1, c2⟩ := a1.ctor
  have h3 : Led (w.allocB cfg.h.mgr n).2.ctorE.2 ((w.nextB, cfg.h.mgr, n) :: FB)
      (objs ++ ((w.allocB cfg.h.mgr n).2.ctorE.1 :: FE)) := by
    rw [c2]; exact c1.perm (List.Perm.refl _) (by perm_count)
  have h4 := relocAll_led cfg.vcat _ objs _ _ h3
  rw [a2]
  exact h4.perm (List.Perm.refl _) (by perm_count)

theorem growTo_led (cfg : Cfg) (b : VB) (a' : VArr) (n : Nat) (w : W) (FB : List Blk) (FE : List Nat)
    (h : Led w (hbk cfg b ++ FB) (b.objs ++ FE)) :
    Led (growTo cfg b a' n w).2 (hbk cfg (growTo cfg b a' n w).1 ++ FB) ((growTo cfg b a' n w).1.objs ++ FE) := by
  have h1 := grow_led cfg b.objs n w _ FE h
  simp only [growTo, hbk, optL, List.map_cons, List.map_nil, blkOf, List.cons_append, List.nil_append]
  apply freeHeap_led
  exact h1.perm (by simp only [hbk]; perm_count) (List.Perm.refl _)

theorem growFail_led (cfg : Cfg) (n : Nat) (w : W) (B : List Blk) (E : List Nat) (h : Led w B E) :
    Led (growFail cfg n w) B E := by
  obtain ⟨a1, a2⟩ := h.alloc cfg.h.mgr n
  simp only [growFail]
  rw [a2]
  exact a1.free

theorem append_one_led {w : W} {B : List Blk} {objs FE : List Nat} (h : Led w B (objs ++ FE)) :
    Led w.ctorE.2 B ((objs ++ [w.ctorE.1]) ++ FE) := by
  obtain ⟨c1, c2⟩ := h.ctor
  rw [c2]
  exact c1.perm (List.Perm.refl _) (by perm_count)

theorem vbAdd_led (cfg : Cfg) (b : VB) (v : Nat) (f : VFlt) (w : W) (FB : List Blk) (FE : List Nat)
    (h : Led w (hbk cfg b ++ FB) (b.objs ++ FE)) : VPost cfg b FB FE (vbAdd cfg b v f w) := by
  unfold vbAdd
  split
  · split
    · exact h
    · exact append_one_led h
  · split
    · split
      · split
        · exact h
        · simp only [VPost, hbk]
          obtain ⟨c1, c2⟩ := h.ctor
          have h3 : Led w.ctorE.2 (hbk cfg b ++ FB) (b.objs ++ (w.ctorE.1 :: FE)) := by
            rw [c2]; exact c1.perm (List.Perm.refl _) (by perm_count)
          exact (relocAll_led cfg.vcat _ b.objs _ _ h3).perm (List.Perm.refl _) (by perm_count)
      · split
        · exact h
        · split
          · exact growFail_led cfg _ w _ _ h
          · exact growTo_led cfg b _ _ w FB FE h
    · split
      · exact h
      · exact append_one_led h
  · split
    · split
      · exact h
      · exact append_one_led h
    · split
      · exact h
      · split
        · exact growFail_led cfg _ w _ _ h
        · exact growTo_led cfg b _ _ w FB FE h

theorem vbRemoveAll_led (cfg : Cfg) (b : VB) (w : W) (FB : List Blk) (FE : List Nat)
    (h : Led w (hbk cfg b ++ FB) (b.objs ++ FE)) : Led (vbRemoveAll cfg b w) FB FE := by
  unfold vbRemoveAll
  exact freeHeap_led cfg _ _ _ _ (destroyObjs_led _ _ _ _ h)

theorem dropLast_perm {l : List Nat} {x : Nat} (h : l.getLast? = some x) : l.Perm (x :: l.dropLast) := by
  have h1 : l = l.dropLast ++ [x] := by
    have hne : l ≠ [] := by intro hc; rw [hc] at h; cases h
    rw [List.getLast?_eq_some_getLast hne] at h
    have := List.dropLast_append_getLast hne
    rw [Option.some.inj h] at this
    exact this.symm
  conv => lhs; rw [h1]
  perm_count

theorem vbRemoveBack_led (cfg : Cfg) (b : VB) (a' : VArr) (f : VFlt) (w : W) (FB : List Blk) (FE : List Nat)
    (h : Led w (hbk cfg b ++ FB) (b.objs ++ FE)) :
    Led (vbRemoveBack cfg b a' f w).2 (hbk cfg (vbRemoveBack cfg b a' f w).1 ++ FB) ((vbRemoveBack cfg b a' f w).1.objs ++ FE) := by
  unfold vbRemoveBack
  split
  · simpa [hbk, optL] using vbRemoveAll_led cfg b w FB FE h
  · split
    · exact h
    · rename_i l hl
      have hd : Led (w.dtorE l) (hbk cfg b ++ FB) (b.objs.dropLast ++ FE) :=
        Led.dtor (e := l) (h.perm (List.Perm.refl _) (by simpa using (dropLast_perm hl).append_right FE))
      split
      · exact hd
      · rename_i nc _
        obtain ⟨a1, a2⟩ := hd.alloc cfg.h.mgr (nc * cfg.isz)
        have h4 := relocAll_led cfg.vcat _ b.objs.dropLast _ _ a1
        simp only [hbk, optL, List.map_cons, List.map_nil, blkOf, List.cons_append, List.nil_append]
        apply freeHeap_led
        rw [a2]
        exact h4.perm (by simp only [hbk]; perm_count) (List.Perm.refl _)

theorem vbRemoveAt_led (cfg : Cfg) (b : VB) (i : Nat) (f : VFlt) (w : W) (FB : List Blk) (FE : List Nat)
    (h : Led w (hbk cfg b ++ FB) (b.objs ++ FE)) : VPost cfg b FB FE (vbRemoveAt cfg b i f w) := by
  unfold vbRemoveAt
  split
  · exact h
  · split
    · rename_i l d hl hd
      have hlm : l ∈ b.objs ++ FE := List.mem_append_left _ (List.mem_of_getLast? hl)
      have hdm : d ∈ b.objs ++ FE := List.mem_append_left _ (List.mem_of_getElem? hd)
      exact vbRemoveBack_led cfg b _ f _ FB FE ((h.use hlm).use hdm)
    · exact h

theorem vbCopy_led (cfg : Cfg) (src : VB) (f : VFlt) (w : W) (B : List Blk) (FE : List Nat)
    (hs : ∀ e ∈ src.objs, e ∈ FE) (h : Led w B FE) : VPost cfg {} B FE (vbCopy cfg src f w) := by
  have hs' : ∀ n, ∀ e ∈ src.objs.take n, e ∈ FE := fun n e he => hs e (List.mem_of_mem_take he)
  unfold vbCopy
  split
  · simpa [VPost, hbk, optL] using h
  · split
    · split
      · simpa [VPost, hbk, optL] using h
      · split
        · simp only [VPost, hbk, optL, List.map_nil, List.nil_append]
          exact destroyObjs_led _ _ _ _ (copyObjs_led B _ w FE (hs' _) h)
        · simp only [VPost, hbk, optL, List.map_nil, List.nil_append]
          exact copyObjs_led B _ w FE hs h
    · split
      · simpa [VPost, hbk, optL] using h
      · obtain ⟨a1, a2⟩ := h.alloc cfg.h.mgr (src.arr.bounds.length * cfg.isz)
        split
        · simp only [VPost, hbk, optL, List.map_nil, List.nil_append]
          rw [a2]
          exact Led.free (destroyObjs_led _ _ _ _ (copyObjs_led _ _ _ FE (hs' _) a1))
        · simp only [VPost, hbk, optL, List.map_cons, List.map_nil, blkOf, List.cons_append, List.nil_append]
          rw [a2]
          exact copyObjs_led _ _ _ FE hs a1

end Momo.MML
