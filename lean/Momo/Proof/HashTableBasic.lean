import Momo.Proof.HashTableEnc
/-!
  C01/C11, part 2: elementary facts about the hash-table model — the probe sequence in the form
  the loops use it, bucket access/update, `Bucket::Remove` (swap with last), `AddCrt`, the in-bucket
  key search, and the item list of a generation (`genItems`, what the iterator visits).
-/
namespace Momo.HT
open Momo Momo.Probe

/-! ### the probe sequence of a spec -/

/-- bucket examined at displacement `p` from `home` (linear or triangular, as the spec says) -/
def pseq (sp : Spec) (L home : Nat) (p : Nat) : Nat := seqOf sp.quad L home p

@[simp] theorem pseq_zero (sp : Spec) (L home : Nat) : pseq sp L home 0 = home := by
  unfold pseq seqOf; cases sp.quad <;> simp [seqQuad, seqLin]

/-- the stepping rule used by both `pvFind` and `pvAddNogrow` -/
theorem pseq_succ (sp : Spec) (L home p : Nat) :
    nextIdx sp L (pseq sp L home p) (p + 1) = pseq sp L home (p + 1) := by
  unfold pseq nextIdx; rw [seqOf_succ]

theorem pseq_lt (sp : Spec) (L home p : Nat) (hh : home < 2 ^ L) : pseq sp L home p < 2 ^ L := by
  cases p with
  | zero => simpa using hh
  | succ q =>
    rw [← pseq_succ]; unfold nextIdx nextQuad nextLin
    split <;> (rw [and_mask]; exact Nat.mod_lt _ (Nat.two_pow_pos L))

theorem pseq_surj (sp : Spec) (L home b : Nat) (hh : home < 2 ^ L) (hb : b < 2 ^ L) :
    ∃ p, p < 2 ^ L ∧ pseq sp L home p = b := seqOf_surj sp.quad L home b hh hb

/-! ### bucket access -/

theorem bkt_of_lt (sp : Spec) (bs : List Bucket) (i : Nat) (h : i < bs.length) : bkt sp bs i = bs[i] := by
  unfold bkt; simp [List.getD_eq_getElem?_getD, h]

theorem bkt_of_ge (sp : Spec) (bs : List Bucket) (i : Nat) (h : bs.length ≤ i) :
    bkt sp bs i = emptyBucket sp := by
  unfold bkt; simp [List.getD_eq_getElem?_getD, List.getElem?_eq_none h]

@[simp] theorem emptyBucket_items (sp : Spec) : (emptyBucket sp).items = [] := rfl

@[simp] theorem updBkt_length (sp : Spec) (bs : List Bucket) (i : Nat) (f : Bucket → Bucket) :
    (updBkt sp bs i f).length = bs.length := by simp [updBkt]

theorem bkt_updBkt (sp : Spec) (bs : List Bucket) (i j : Nat) (f : Bucket → Bucket) (hi : i < bs.length) :
    bkt sp (updBkt sp bs i f) j = if i = j then f (bkt sp bs j) else bkt sp bs j := by
  unfold updBkt bkt
  by_cases h : i = j
  · subst h; simp [hi]
  · simp [h, List.getD_eq_getElem?_getD, List.getElem?_set_ne h]

theorem mem_bs_iff (sp : Spec) (bs : List Bucket) (b : Bucket) :
    b ∈ bs ↔ ∃ i, i < bs.length ∧ bkt sp bs i = b := by
  constructor
  · intro hb
    obtain ⟨i, hi, rfl⟩ := List.getElem_of_mem hb
    exact ⟨i, hi, bkt_of_lt sp bs i hi⟩
  · rintro ⟨i, hi, rfl⟩
    rw [bkt_of_lt sp bs i hi]; exact List.getElem_mem hi

/-! ### `Bucket::Remove` -/

@[simp] theorem removeAt_wasFull (j : Nat) (b : Bucket) : (removeAt j b).wasFull = b.wasFull := rfl
@[simp] theorem removeAt_bst (j : Nat) (b : Bucket) : (removeAt j b).bst = b.bst := rfl

/-- the items before the hole stay where they are; the rest is a rearrangement of the items
    behind the hole -/
theorem removeAt_decomp (j : Nat) (b : Bucket) (hj : j < b.items.length) :
    ∃ R, (removeAt j b).items = b.items.take j ++ R ∧ R.Perm (b.items.drop (j + 1)) := by
  unfold removeAt
  have hne : b.items ≠ [] := by intro h; rw [h] at hj; simp at hj
  have hl : b.items.getLast? = some (b.items.getLast hne) := List.getLast?_eq_getLast_of_ne_nil hne
  simp only [hl]
  generalize b.items = l at *
  generalize hx : l.getLast hne = last
  have hset : l.set j last = l.take j ++ last :: l.drop (j + 1) := List.set_eq_take_append_cons_drop
    |>.trans (by simp [hj])
  rw [hset, List.dropLast_append_of_ne_nil (by simp)]
  refine ⟨(last :: l.drop (j + 1)).dropLast, rfl, ?_⟩
  cases hD : l.drop (j + 1) with
  | nil => simp
  | cons d D =>
    have hDne : l.drop (j + 1) ≠ [] := by rw [hD]; simp
    have hlast : (l.drop (j + 1)).getLast hDne = last := by
      rw [List.getLast_drop]; exact hx
    have e : l.drop (j + 1) = (l.drop (j + 1)).dropLast ++ [last] := by
      rw [← hlast]; exact (List.dropLast_append_getLast hDne).symm
    rw [← hD]
    have e2 : (last :: l.drop (j + 1)).dropLast = last :: (l.drop (j + 1)).dropLast := by
      rw [hD]; rfl
    rw [e2]
    conv => rhs; rw [e]
    exact (List.perm_append_singleton _ _).symm

theorem removeAt_perm (j : Nat) (b : Bucket) (hj : j < b.items.length) :
    (b.items[j] :: (removeAt j b).items).Perm b.items := by
  obtain ⟨R, e, hR⟩ := removeAt_decomp j b hj
  rw [e]
  have h1 : b.items = b.items.take j ++ b.items[j] :: b.items.drop (j + 1) := by
    conv => lhs; rw [← List.take_append_drop j b.items]
    rw [List.drop_eq_getElem_cons hj]
  conv => rhs; rw [h1]
  refine List.Perm.trans ?_ (List.perm_middle).symm
  exact List.Perm.cons _ (List.Perm.append_left _ hR)

theorem length_removeAt (j : Nat) (b : Bucket) : (removeAt j b).items.length = b.items.length - 1 := by
  unfold removeAt
  cases hl : b.items.getLast? with
  | none =>
    have : b.items = [] := by simpa using hl
    simp [this]
  | some l => simp

theorem mem_removeAt (j : Nat) (b : Bucket) (x : Item) (hx : x ∈ (removeAt j b).items) : x ∈ b.items := by
  unfold removeAt at hx
  simp only at hx
  cases hl : b.items.getLast? with
  | none => simp [hl] at hx
  | some l =>
    simp only [hl] at hx
    have h1 : x ∈ b.items.set j l := (List.dropLast_sublist _).subset hx
    rcases List.mem_or_eq_of_mem_set h1 with h2 | h2
    · exact h2
    · subst h2; exact List.mem_of_getLast? hl

/-! ### `AddCrt` -/

@[simp] theorem pushItem_items (sp : Spec) (it : Item) (b : Bucket) :
    (pushItem sp it b).items = b.items ++ [it] := rfl
@[simp] theorem pushItem_bst (sp : Spec) (it : Item) (b : Bucket) : (pushItem sp it b).bst = b.bst := rfl
theorem pushItem_wasFull (sp : Spec) (it : Item) (b : Bucket) :
    (pushItem sp it b).wasFull
      = (b.wasFull || (!sp.unlimited && decide (b.items.length + 1 ≥ sp.fullFrom))) := rfl

/-! ### the in-bucket key search -/

theorem keyIdx_some (items : List Item) (k j : Nat) (h : keyIdx items k = some j) :
    ∃ it, items[j]? = some it ∧ it.key = k := by
  unfold keyIdx at h
  simp only at h
  split at h
  · rename_i hlt
    simp only [Option.some.injEq] at h; subst h
    refine ⟨items[items.findIdx (fun it => it.key == k)], by simp [hlt], ?_⟩
    have := List.findIdx_getElem (w := hlt)
    simpa using this
  · simp at h

theorem keyIdx_none (items : List Item) (k : Nat) (h : keyIdx items k = none) :
    ∀ it ∈ items, it.key ≠ k := by
  unfold keyIdx at h
  simp only at h
  split at h
  · simp at h
  · rename_i hge
    intro it hit hk
    have : items.findIdx (fun it => it.key == k) < items.length :=
      List.findIdx_lt_length_of_exists ⟨it, hit, by simp [hk]⟩
    exact hge this

theorem keyIdx_isSome_iff (items : List Item) (k : Nat) :
    (keyIdx items k).isSome ↔ ∃ it ∈ items, it.key = k := by
  constructor
  · intro h
    cases hk : keyIdx items k with
    | none => simp [hk] at h
    | some j =>
      obtain ⟨it, hj, hkey⟩ := keyIdx_some items k j hk
      exact ⟨it, List.mem_of_getElem? hj, hkey⟩
  · rintro ⟨it, hit, hk⟩
    cases h : keyIdx items k with
    | none => exact absurd hk (keyIdx_none items k h it hit)
    | some j => rfl

/-! ### the items of a generation, in iterator order -/

/-- what `HashSetConstIterator` visits inside one bucket array -/
def genItems (g : Gen) : List Item := (g.bs.map (fun b => b.items.reverse)).flatten

theorem traverse_eq (t : Table) : traverse t = (t.gens.map genItems).flatten := rfl

theorem mem_genItems (sp : Spec) (g : Gen) (it : Item) :
    it ∈ genItems g ↔ ∃ i, it ∈ (bkt sp g.bs i).items := by
  unfold genItems
  simp only [List.mem_flatten, List.mem_map]
  constructor
  · rintro ⟨l, ⟨b, hb, rfl⟩, hk⟩
    obtain ⟨i, hi, rfl⟩ := (mem_bs_iff sp g.bs b).mp hb
    exact ⟨i, by simpa using hk⟩
  · rintro ⟨i, hk⟩
    by_cases hi : i < g.bs.length
    · exact ⟨_, ⟨bkt sp g.bs i, (mem_bs_iff sp g.bs _).mpr ⟨i, hi, rfl⟩, rfl⟩, by simpa using hk⟩
    · rw [bkt_of_ge sp g.bs i (by omega)] at hk; simp at hk

theorem flatten_map_set_perm {α β : Type} (F : α → List β) (l : List α) (i : Nat) (a : α)
    (h : i < l.length) :
    (((l.set i a).map F).flatten ++ F l[i]).Perm ((l.map F).flatten ++ F a) := by
  induction l generalizing i with
  | nil => simp at h
  | cons x xs ih =>
    cases i with
    | zero =>
      simp only [List.set_cons_zero, List.map_cons, List.flatten_cons, List.getElem_cons_zero]
      -- F a ++ rest ++ F x  ~  F x ++ rest ++ F a
      refine List.Perm.trans List.perm_append_comm ?_
      rw [List.append_assoc]
      exact List.Perm.append_left _ List.perm_append_comm
    | succ j =>
      simp only [List.set_cons_succ, List.map_cons, List.flatten_cons, List.getElem_cons_succ,
        List.append_assoc]
      exact List.Perm.append_left _ (ih j (by simpa using h))

/-- replacing bucket `i`: the old contents on one side balance the new contents on the other -/
theorem genItems_upd (sp : Spec) (g : Gen) (i : Nat) (f : Bucket → Bucket) (hi : i < g.bs.length) :
    (genItems { g with bs := updBkt sp g.bs i f } ++ (bkt sp g.bs i).items.reverse).Perm
      (genItems g ++ (f (bkt sp g.bs i)).items.reverse) := by
  unfold genItems updBkt
  have := flatten_map_set_perm (fun b : Bucket => b.items.reverse) g.bs i (f (bkt sp g.bs i)) hi
  rw [bkt_of_lt sp g.bs i hi] at *
  exact this

/-- an update that adds exactly `x` to bucket `i` -/
theorem genItems_upd_add (sp : Spec) (g : Gen) (i : Nat) (f : Bucket → Bucket) (x : Item)
    (hi : i < g.bs.length) (hf : (f (bkt sp g.bs i)).items.Perm (x :: (bkt sp g.bs i).items)) :
    (genItems { g with bs := updBkt sp g.bs i f }).Perm (x :: genItems g) := by
  have h := genItems_upd sp g i f hi
  have h2 : (genItems g ++ (f (bkt sp g.bs i)).items.reverse).Perm
      ((x :: genItems g) ++ (bkt sp g.bs i).items.reverse) := by
    refine List.Perm.trans (List.Perm.append_left _ ((List.reverse_perm _).trans
      (hf.trans (List.Perm.cons _ (List.reverse_perm _).symm)))) ?_
    simp only [List.cons_append]
    exact List.perm_middle
  exact (List.perm_append_right_iff _).mp (h.trans h2)

/-- an update that removes exactly `x` from bucket `i` -/
theorem genItems_upd_remove (sp : Spec) (g : Gen) (i : Nat) (f : Bucket → Bucket) (x : Item)
    (hi : i < g.bs.length) (hf : (x :: (f (bkt sp g.bs i)).items).Perm (bkt sp g.bs i).items) :
    (x :: genItems { g with bs := updBkt sp g.bs i f }).Perm (genItems g) := by
  have h := genItems_upd sp g i f hi
  have h2 : ((x :: genItems { g with bs := updBkt sp g.bs i f }) ++ (f (bkt sp g.bs i)).items.reverse).Perm
      (genItems { g with bs := updBkt sp g.bs i f } ++ (bkt sp g.bs i).items.reverse) := by
    simp only [List.cons_append]
    refine List.Perm.trans List.perm_middle.symm (List.Perm.append_left _ ?_)
    exact (List.Perm.cons _ (List.reverse_perm _)).trans (hf.trans (List.reverse_perm _).symm)
  exact (List.perm_append_right_iff _).mp (h2.trans h)

/-- an update that leaves the items of bucket `i` alone -/
theorem genItems_upd_same (sp : Spec) (g : Gen) (i : Nat) (f : Bucket → Bucket)
    (hf : (f (bkt sp g.bs i)).items = (bkt sp g.bs i).items) :
    genItems { g with bs := updBkt sp g.bs i f } = genItems g := by
  by_cases hi : i < g.bs.length
  · unfold genItems updBkt
    rw [List.map_set, hf, bkt_of_lt sp g.bs i hi]
    congr 1
    apply List.ext_getElem (by simp)
    intro n h1 h2
    by_cases hn : i = n
    · subst hn; simp
    · simp [List.getElem_set_ne hn]
  · unfold genItems updBkt
    rw [List.set_eq_of_length_le (by omega)]

theorem genCount_eq (g : Gen) : genCount g = (genItems g).length := by
  unfold genCount genItems
  rw [List.length_flatten, List.map_map]
  congr 1
  apply List.map_congr_left
  intro b _; simp

end Momo.HT
