import Momo.Model.StdWrap
import Batteries.Data.List.Perm
/-!
  Lemmas for C06, part 2: `unordered_multimap::operator==` decides equality of the stored pairs as multisets.
-/
namespace Momo.StdWrap
open List

def valuesOf (a : MM) (k : Nat) : List Nat := (a.lookup k).getD []

theorem length_pairs (a : MM) : a.pairs.length = a.count := by
  induction a with
  | nil => rfl
  | cons e t ih =>
    simp only [MM.pairs, MM.count, flatMap_cons, length_append, length_map, map_cons, sum_cons] at ih ⊢
    omega

theorem count_pairs_notin (t : MM) (k v : Nat) (h : k ∉ t.map (·.1)) : count (k, v) t.pairs = 0 := by
  rw [count_eq_zero]
  intro hm
  simp only [MM.pairs, mem_flatMap, mem_map] at hm
  obtain ⟨e, he, w, _, hw⟩ := hm
  apply h
  simp only [mem_map]
  exact ⟨e, he, by cases hw; rfl⟩

theorem count_map_pair (k' k v : Nat) (vs : List Nat) :
    count (k, v) (vs.map (fun w => (k', w))) = if k' = k then count v vs else 0 := by
  induction vs with
  | nil => simp
  | cons w t ih =>
    simp only [map_cons, count_cons, ih]
    by_cases hk : k' = k
    · subst hk; simp
    · simp [hk]

theorem count_pairs (a : MM) (ha : (a.map (·.1)).Nodup) (k v : Nat) :
    count (k, v) a.pairs = count v (valuesOf a k) := by
  induction a with
  | nil => simp [MM.pairs, valuesOf]
  | cons e t ih =>
    simp only [map_cons, nodup_cons] at ha
    have e1 : MM.pairs (e :: t) = e.2.map (fun w => (e.1, w)) ++ MM.pairs t := by
      simp [MM.pairs]
    rw [e1, count_append, count_map_pair]
    unfold valuesOf
    by_cases hk : e.1 = k
    · subst hk
      have : lookup e.1 (e :: t) = some e.2 := by
        obtain ⟨a, b⟩ := e; simp [lookup]
      rw [if_pos rfl, this, count_pairs_notin t e.1 v ha.1]; simp
    · have : lookup k (e :: t) = lookup k t := by
        obtain ⟨a, b⟩ := e
        have : (k == a) = false := by simp; exact fun h => hk h.symm
        simp [lookup, this]
      rw [if_neg hk, this, ih ha.2]; simp [valuesOf]

theorem lookup_of_mem (a : MM) (ha : (a.map (·.1)).Nodup) (e : Nat × List Nat) (he : e ∈ a) :
    a.lookup e.1 = some e.2 := by
  induction a with
  | nil => cases he
  | cons x t ih =>
    simp only [map_cons, nodup_cons] at ha
    rcases mem_cons.mp he with rfl | h
    · obtain ⟨a, b⟩ := e; simp [lookup]
    · have hne : x.1 ≠ e.1 := by
        intro heq; apply ha.1; rw [heq]; exact mem_map.mpr ⟨e, h, rfl⟩
      obtain ⟨a, b⟩ := x
      have : (e.1 == a) = false := by simp; exact fun h => hne h.symm
      simp only [lookup, this]
      exact ih ha.2 h

/-- `mmEq` spelled out -/
theorem mmEq_iff (a b : MM) : mmEq a b = true ↔
    a.count = b.count ∧ ∀ e ∈ a, e.2 = [] ∨ ∃ ws, b.lookup e.1 = some ws ∧ e.2.length = ws.length ∧ e.2 ~ ws := by
  unfold mmEq
  by_cases hc : a.count = b.count
  · simp only [hc, ne_eq, not_true_eq_false, if_false, all_eq_true, Bool.or_eq_true, isEmpty_iff, true_and]
    constructor
    · intro h e he
      rcases h e he with h | h
      · exact Or.inl h
      · right
        cases hl : lookup e.1 b with
        | none => rw [hl] at h; cases h
        | some ws =>
          rw [hl] at h
          simp only [Bool.and_eq_true, beq_iff_eq, isPerm_iff] at h
          exact ⟨ws, rfl, h.1, h.2⟩
    · intro h e he
      rcases h e he with h | ⟨ws, hl, h1, h2⟩
      · exact Or.inl h
      · right; rw [hl]; simp [h1, isPerm_iff, h2]
  · simp [hc]

theorem mm_eq_iff' (a b : MM) (ha : (a.map (·.1)).Nodup) (hb : (b.map (·.1)).Nodup) :
    mmEq a b = true ↔ a.pairs ~ b.pairs := by
  rw [mmEq_iff]
  constructor
  · intro ⟨hc, hall⟩
    apply Subperm.perm_of_length_le
    · rw [subperm_ext_iff]
      intro x hx
      obtain ⟨k, v⟩ := x
      simp only [MM.pairs, mem_flatMap, mem_map] at hx
      obtain ⟨e, he, w, hw, hkv⟩ := hx
      have hk : e.1 = k := by cases hkv; rfl
      have hv : w = v := by cases hkv; rfl
      subst hk hv
      rw [count_pairs a ha, count_pairs b hb]
      have hla := lookup_of_mem a ha e he
      rcases hall e he with h | ⟨ws, hl, _, hp⟩
      · rw [h] at hw; cases hw
      · simp only [valuesOf, hla, hl, Option.getD_some]
        exact Nat.le_of_eq (hp.count_eq w)
    · rw [length_pairs, length_pairs, hc]; exact Nat.le_refl _
  · intro hp
    refine ⟨by rw [← length_pairs, ← length_pairs]; exact hp.length_eq, ?_⟩
    intro e he
    by_cases hemp : e.2 = []
    · exact Or.inl hemp
    · right
      have hla := lookup_of_mem a ha e he
      have hcnt : ∀ v, count v e.2 = count v (valuesOf b e.1) := by
        intro v
        have := hp.count_eq (e.1, v)
        rw [count_pairs a ha, count_pairs b hb] at this
        simpa [valuesOf, hla] using this
      have hperm : e.2 ~ valuesOf b e.1 := perm_iff_count.mpr hcnt
      cases hl : b.lookup e.1 with
      | none =>
        exfalso
        have : valuesOf b e.1 = [] := by simp [valuesOf, hl]
        rw [this] at hperm
        exact hemp hperm.eq_nil
      | some ws =>
        have : valuesOf b e.1 = ws := by simp [valuesOf, hl]
        rw [this] at hperm
        exact ⟨ws, rfl, hperm.length_eq, hperm⟩

/-! ### unordered_set / unordered_map equality -/

theorem key_inj (b : List Item) (hb : (b.map (·.1)).Nodup) (x y : Item) (hx : x ∈ b) (hy : y ∈ b) (h : x.1 = y.1) : x = y := by
  induction b with
  | nil => cases hx
  | cons e t ih =>
    simp only [map_cons, nodup_cons, mem_map, not_exists, not_and] at hb
    rcases mem_cons.mp hx with rfl | hx' <;> rcases mem_cons.mp hy with rfl | hy'
    · rfl
    · exact absurd h.symm (hb.1 y hy')
    · exact absurd h (hb.1 x hx')
    · exact ih hb.2 hx' hy'

theorem nodup_of_keys (a : List Item) (ha : (a.map (·.1)).Nodup) : a.Nodup :=
  Pairwise.of_map (·.1) (fun _ _ h hab => h (hab ▸ rfl)) ha

theorem usetEq_iff' (a b : List Item) (ha : (a.map (·.1)).Nodup) (hb : (b.map (·.1)).Nodup) :
    usetEq a b = true ↔ a.Perm b := by
  unfold usetEq
  simp only [Bool.and_eq_true, beq_iff_eq, all_eq_true]
  constructor
  · intro ⟨hlen, hall⟩
    apply Subperm.perm_of_length_le
    · apply subperm_of_subset (nodup_of_keys a ha)
      intro e he
      have := hall e he
      cases hf : b.find? (fun x => x.1 == e.1) with
      | none => rw [hf] at this; cases this
      | some x =>
        rw [hf] at this
        have hx : x = e := by simpa using this
        rw [← hx]; exact mem_of_find?_eq_some hf
    · omega
  · intro hp
    refine ⟨hp.length_eq, ?_⟩
    intro e he
    have heb : e ∈ b := hp.subset he
    cases hf : b.find? (fun x => x.1 == e.1) with
    | none =>
      have := find?_eq_none.mp hf e heb
      simp at this
    | some x =>
      have hxb := mem_of_find?_eq_some hf
      have hk := find?_some hf
      have : x = e := key_inj b hb x e hxb heb (by simpa using hk)
      simp [this]

end Momo.StdWrap
