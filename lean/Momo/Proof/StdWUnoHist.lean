import Momo.Proof.StdWUnoOps
/-!
  The C06 history theorem for `unordered_set` / `unordered_map`: the wrapper model keeps each table in a traversal
  order that an oracle re-arranges after every call; the specification keeps the elements in some other order. The
  abstraction relation `RelU` says the two are permutations of each other (and the keys are distinct). Every legal
  call gives the same observation and keeps the relation, for every oracle.
-/
namespace Momo.StdW
open Momo.StdWrap List
open Momo.StdSpec hiding Item

structure RelU (w s : St) : Prop where
  a : w.a.Perm s.a
  b : w.b.Perm s.b
  node : w.node = s.node
  na : NodupKeys s.a
  nb : NodupKeys s.b

theorem RelU.get {w s : St} (h : RelU w s) (c : Side) : (w.get c).Perm (s.get c) := by
  cases c <;> simp [St.get, h.a, h.b]

theorem RelU.nodup {w s : St} (h : RelU w s) (c : Side) : NodupKeys (s.get c) := by
  cases c <;> simp [St.get, h.na, h.nb]

theorem RelU.put {w s : St} (h : RelU w s) (c : Side) (xs ys : List Item) (hp : xs.Perm ys) (hn : NodupKeys ys) :
    RelU (w.put c xs) (s.put c ys) := by
  cases c
  · exact ⟨hp, h.b, h.node, hn, h.nb⟩
  · exact ⟨h.a, hp, h.node, h.na, hn⟩

theorem RelU.setNode {w s : St} (h : RelU w s) (n : Option Item) : RelU { w with node := n } { s with node := n } :=
  ⟨h.a, h.b, rfl, h.na, h.nb⟩

theorem RelU.put2 {w s : St} (h : RelU w s) (c : Side) (x1 y1 x2 y2 : List Item) (hp1 : x1.Perm y1) (hn1 : NodupKeys y1)
    (hp2 : x2.Perm y2) (hn2 : NodupKeys y2) : RelU ((w.put c x1).put c.other x2) ((s.put c y1).put c.other y2) := by
  cases c
  · exact ⟨hp1, hp2, h.node, hn1, hn2⟩
  · exact ⟨hp2, hp1, h.node, hn2, hn1⟩

theorem St.put_get' (s : St) (c : Side) : s.put c (s.get c) = s := by cases c <;> rfl

/-- **one call, before the oracle acts**: equal observation, related states -/
theorem wrapUCore_refines (isMap : Bool) (w s : St) (hr : RelU w s) (c : UCall) (hl : c.legal isMap s = true) :
    (wrapUCore w c).2 = (c.spec s).2 ∧ RelU (wrapUCore w c).1 (c.spec s).1 := by
  cases c with
  | insert c x =>
    obtain ⟨h1, h2, h3⟩ := hInsert_rel _ _ (hr.get c) (hr.nodup c) x
    simp only [wrapUCore, UCall.spec, h2]
    exact ⟨trivial, hr.put c _ _ h1 h3⟩
  | emplace c x =>
    obtain ⟨h1, h2, h3⟩ := hInsert_rel _ _ (hr.get c) (hr.nodup c) x
    simp only [wrapUCore, UCall.spec, h2]
    exact ⟨trivial, hr.put c _ _ h1 h3⟩
  | insertHint c x =>
    obtain ⟨h1, h2, h3⟩ := hInsert_rel _ _ (hr.get c) (hr.nodup c) x
    simp only [wrapUCore, UCall.spec, h2]
    exact ⟨trivial, hr.put c _ _ h1 h3⟩
  | emplaceHint c x =>
    obtain ⟨h1, h2, h3⟩ := hInsert_rel _ _ (hr.get c) (hr.nodup c) x
    simp only [wrapUCore, UCall.spec, h2]
    exact ⟨trivial, hr.put c _ _ h1 h3⟩
  | insertRange c ys =>
    obtain ⟨h1, h3⟩ := insertMany_rel ys _ _ (hr.get c) (hr.nodup c)
    simp only [wrapUCore, UCall.spec]
    exact ⟨trivial, hr.put c _ _ h1 h3⟩
  | insertList c ys =>
    obtain ⟨h1, h3⟩ := insertMany_rel ys _ _ (hr.get c) (hr.nodup c)
    simp only [wrapUCore, UCall.spec]
    exact ⟨trivial, hr.put c _ _ h1 h3⟩
  | tryEmplace c hinted x =>
    obtain ⟨h1, h2, h3⟩ := hInsert_rel _ _ (hr.get c) (hr.nodup c) x
    simp only [wrapUCore, UCall.spec, h2]
    exact ⟨trivial, hr.put c _ _ h1 h3⟩
  | insertOrAssign c hinted x =>
    obtain ⟨h1, h2, h3⟩ := wuInsertOrAssign_rel _ _ (hr.get c) (hr.nodup c) x
    simp only [wrapUCore, UCall.spec, h2]
    exact ⟨trivial, hr.put c _ _ h1 h3⟩
  | index c k =>
    obtain ⟨h1, h2⟩ := wuIndex_rel _ _ (hr.get c) (hr.nodup c) k
    obtain ⟨_, _, h3⟩ := hInsert_rel _ _ (hr.get c) (hr.nodup c) (k, 0)
    simp only [wrapUCore, UCall.spec, h2]
    exact ⟨trivial, hr.put c _ _ h1 h3⟩
  | indexAssign c k v =>
    have h1 := wuIndexAssign_rel _ _ (hr.get c) (hr.nodup c) k v
    obtain ⟨_, _, h3⟩ := wuInsertOrAssign_rel _ _ (hr.get c) (hr.nodup c) (k, v)
    simp only [wrapUCore, UCall.spec]
    exact ⟨trivial, hr.put c _ _ h1 h3⟩
  | «at» c k =>
    simp only [wrapUCore, UCall.spec, hFind_eq_uFind, uFind_perm (hr.get c) (hr.nodup c) k]
    refine ⟨?_, hr⟩
    cases uFind k (s.get c) <;> simp [atObs]
  | find c k =>
    simp only [wrapUCore, UCall.spec, hFind_eq_uFind, uFind_perm (hr.get c) (hr.nodup c) k]
    exact ⟨trivial, hr⟩
  | count c k =>
    simp only [wrapUCore, UCall.spec, hFind_eq_uFind, uFind_perm (hr.get c) (hr.nodup c) k, uFind_isSome,
      countKey_unique _ (hr.nodup c) k]
    exact ⟨trivial, hr⟩
  | contains c k =>
    simp only [wrapUCore, UCall.spec, hFind_eq_uFind, uFind_perm (hr.get c) (hr.nodup c) k, uFind_isSome]
    exact ⟨trivial, hr⟩
  | equalRange c k =>
    simp only [wrapUCore, UCall.spec, hFind_eq_uFind, uFind_perm (hr.get c) (hr.nodup c) k,
      filter_key_unique _ (hr.nodup c) k]
    refine ⟨?_, hr⟩
    cases uFind k (s.get c) <;> simp [canon, canonIns]
  | eraseKey c k =>
    simp only [wrapUCore, UCall.spec, hRemoveKey, hFind_eq_uFind, uFind_perm (hr.get c) (hr.nodup c) k, uFind_isSome,
      countKey_unique _ (hr.nodup c) k]
    exact ⟨trivial, hr.put c _ _ ((hr.get c).filter _) ((hr.nodup c).filter _)⟩
  | eraseElem c k =>
    simp only [wrapUCore, UCall.spec, eraseIdx_hPos _ ((hr.nodup c).perm (hr.get c)) k]
    exact ⟨trivial, hr.put c _ _ ((hr.get c).filter _) ((hr.nodup c).filter _)⟩
  | eraseRange c r =>
    cases r with
    | empty =>
      simp only [wrapUCore, UCall.spec, wuEraseRange_empty, St.put_get']
      exact ⟨trivial, hr⟩
    | single k mv =>
      have hk : hasKey k (w.get c) = true := by
        rw [hasKey_perm (hr.get c)]; simpa [UCall.legal] using hl
      simp only [wrapUCore, UCall.spec, wuEraseRange_single _ ((hr.nodup c).perm (hr.get c)) k mv hk]
      exact ⟨trivial, hr.put c _ _ ((hr.get c).filter _) ((hr.nodup c).filter _)⟩
    | whole =>
      simp only [wrapUCore, UCall.spec, wuEraseRange_whole]
      exact ⟨trivial, hr.put c _ _ (Perm.refl _) nodupKeys_nil⟩
  | eraseIf c m r =>
    have e : ((w.get c).filter fun e => !(e.1 % m == r)) = (w.get c).filter fun e => e.1 % m != r := rfl
    have hlen := ((hr.get c).filter (fun e => e.1 % m != r)).length_eq
    simp only [wrapUCore, UCall.spec, e, hlen, (hr.get c).length_eq]
    exact ⟨trivial, hr.put c _ _ ((hr.get c).filter _) ((hr.nodup c).filter _)⟩
  | extractKey c k =>
    have hu := uFind_perm (hr.get c) (hr.nodup c) k
    simp only [wrapUCore, UCall.spec, hFind_eq_uFind, hu]
    cases hf : uFind k (s.get c) with
    | some e =>
      simp only [eraseIdx_hPos _ ((hr.nodup c).perm (hr.get c)) k]
      exact ⟨trivial, (hr.put c _ _ ((hr.get c).filter _) ((hr.nodup c).filter _)).setNode _⟩
    | none =>
      simp only [filter_ne_of_absent _ k ((uFind_none_iff _ k).mp hf), St.put_get']
      exact ⟨trivial, hr.setNode _⟩
  | extractElem c k =>
    have hu := uFind_perm (hr.get c) (hr.nodup c) k
    simp only [wrapUCore, UCall.spec, getElem?_hPos, hu, eraseIdx_hPos _ ((hr.nodup c).perm (hr.get c)) k]
    exact ⟨trivial, (hr.put c _ _ ((hr.get c).filter _) ((hr.nodup c).filter _)).setNode _⟩
  | insertNode c =>
    simp only [wrapUCore, UCall.spec, hr.node]
    cases hn : s.node with
    | none => exact ⟨rfl, hr⟩
    | some x =>
      obtain ⟨h1, h2, h3⟩ := hInsert_rel _ _ (hr.get c) (hr.nodup c) x
      simp only [h2]
      exact ⟨by first | trivial | rfl, (hr.put c _ _ h1 h3).setNode _⟩
  | insertNodeHint c =>
    simp only [wrapUCore, UCall.spec, hr.node]
    cases hn : s.node with
    | none => exact ⟨rfl, hr⟩
    | some x =>
      obtain ⟨h1, h2, h3⟩ := hInsert_rel _ _ (hr.get c) (hr.nodup c) x
      simp only [h2]
      exact ⟨by first | trivial | rfl, (hr.put c _ _ h1 h3).setNode _⟩
  | dropNode => simp only [wrapUCore, UCall.spec]; exact ⟨trivial, hr.setNode _⟩
  | merge c =>
    obtain ⟨h1, h2, h3, h4⟩ := suMerge_rel _ _ _ _ (hr.get c) (hr.get c.other) (hr.nodup c) (hr.nodup c.other)
    simp only [wrapUCore, UCall.spec, hMergeFrom_eq _ _ ((hr.nodup c.other).perm (hr.get c.other))]
    exact ⟨trivial, hr.put2 c _ _ _ _ h1 h3 h2 h4⟩
  | clear c => simp only [wrapUCore, UCall.spec]; exact ⟨trivial, hr.put c _ _ (Perm.refl _) nodupKeys_nil⟩
  | size c => simp only [wrapUCore, UCall.spec, (hr.get c).length_eq]; exact ⟨trivial, hr⟩
  | empty c =>
    refine ⟨?_, hr⟩
    simp only [wrapUCore, UCall.spec, Obs.flag.injEq]
    have := (hr.get c).length_eq
    cases h1 : w.get c <;> cases h2 : s.get c <;> simp_all
  | swap => simp only [wrapUCore, UCall.spec]; exact ⟨trivial, hr.b, hr.a, hr.node, hr.nb, hr.na⟩
  | assignCopy c => simp only [wrapUCore, UCall.spec]; exact ⟨trivial, hr.put c _ _ (hr.get c.other) (hr.nodup c.other)⟩
  | constructCopy c => simp only [wrapUCore, UCall.spec]; exact ⟨trivial, hr.put c _ _ (hr.get c.other) (hr.nodup c.other)⟩
  | assignMove c =>
    simp only [wrapUCore, UCall.spec]
    exact ⟨trivial, hr.put2 c _ _ _ _ (hr.get c.other) (hr.nodup c.other) (Perm.refl _) nodupKeys_nil⟩
  | constructMove c =>
    simp only [wrapUCore, UCall.spec]
    exact ⟨trivial, hr.put2 c _ _ _ _ (hr.get c.other) (hr.nodup c.other) (Perm.refl _) nodupKeys_nil⟩
  | assignList c ys =>
    obtain ⟨h1, h3⟩ := insertMany_rel ys [] [] (Perm.refl _) nodupKeys_nil
    simp only [wrapUCore, UCall.spec]
    exact ⟨trivial, hr.put c _ _ h1 h3⟩
  | compare =>
    simp only [wrapUCore, UCall.spec, usetEq_rel _ _ _ _ hr.a hr.b hr.na hr.nb]
    exact ⟨trivial, hr⟩
  | contents c =>
    simp only [wrapUCore, UCall.spec, canon_perm (hr.get c)]
    exact ⟨trivial, hr⟩
  | constructRange c ys =>
    obtain ⟨h1, h3⟩ := insertMany_rel ys [] [] (Perm.refl _) nodupKeys_nil
    simp only [wrapUCore, UCall.spec]
    exact ⟨trivial, hr.put c _ _ h1 h3⟩
  | constructList c ys =>
    obtain ⟨h1, h3⟩ := insertMany_rel ys [] [] (Perm.refl _) nodupKeys_nil
    simp only [wrapUCore, UCall.spec]
    exact ⟨trivial, hr.put c _ _ h1 h3⟩
  | reserve c n => simp only [wrapUCore, UCall.spec]; exact ⟨trivial, hr⟩
  | rehash c n => simp only [wrapUCore, UCall.spec]; exact ⟨trivial, hr⟩
  | maxLoadFactor c =>
    -- the rebuilt table is the old table: its keys are distinct
    simp only [wrapUCore, UCall.spec, rebuild_eq _ ((hr.nodup c).perm (hr.get c)), St.put_get']
    exact ⟨trivial, hr⟩

/-- an oracle may only re-arrange a table -/
def Rearranges (ρ : Nat → List Item → List Item) : Prop := ∀ n xs, (ρ n xs).Perm xs

/-- **one call**, for every oracle -/
theorem wrapU_refines (ρ : Nat → List Item → List Item) (hρ : Rearranges ρ) (isMap : Bool) (n : Nat) (w s : St)
    (hr : RelU w s) (c : UCall) (hl : c.legal isMap s = true) :
    (wrapU ρ n w c).2 = (c.spec s).2 ∧ RelU (wrapU ρ n w c).1 (c.spec s).1 := by
  obtain ⟨h1, h2⟩ := wrapUCore_refines isMap w s hr c hl
  exact ⟨h1, ⟨(hρ _ _).trans h2.a, (hρ _ _).trans h2.b, h2.node, h2.na, h2.nb⟩⟩

theorem runWrapU_eq (ρ : Nat → List Item → List Item) (hρ : Rearranges ρ) (isMap : Bool) (cs : List UCall) :
    ∀ (n : Nat) (w s : St), RelU w s → UCall.legalFrom isMap s cs = true →
    runWrapUFrom ρ n w cs = UCall.runSpecFrom s cs := by
  induction cs with
  | nil => intro n w s _ _; rfl
  | cons c t ih =>
    intro n w s hr hl
    simp only [UCall.legalFrom, Bool.and_eq_true] at hl
    obtain ⟨e, hr'⟩ := wrapU_refines ρ hρ isMap n w s hr c hl.1
    simp only [runWrapUFrom, UCall.runSpecFrom, e]
    rw [ih _ _ _ hr' hl.2]

theorem relU_init : RelU {} {} := ⟨Perm.refl _, Perm.refl _, rfl, nodupKeys_nil, nodupKeys_nil⟩

end Momo.StdW
