import Momo.Proof.PoolAllocFaultCont
/-!
  C20: the decision logic of `allocate` / `deallocate` for value types of every size and alignment
  (`pvGetMemPoolParams`, `pvIsEqual`, the re-parameterisation of line 119 and the `pvCheckParams` it runs
  into), the propagation traits as extracted, and what the standard prescribes under exactly these traits.
-/
namespace Momo.PoolAlloc

/-! ### `pvGetMemPoolParams` for every value type -/

theorem objAlignment_eq_min (M a : Nat) : objAlignment M a = min a M := by
  unfold objAlignment
  by_cases h : a < M
  · rw [if_pos h]; omega
  · rw [if_neg h]; omega

theorem paramsOf_snd (N M s a : Nat) : (paramsOf N M s a).2 = min a M := by
  simp [paramsOf, objAlignment_eq_min]

/-- **the pool object created by the re-parameterisation passes `pvCheckParams`** for value types of every size and
    alignment (over-aligned ones included): block alignment in `1..1024`, block size positive and, for `N > 1`, a
    multiple of the alignment and at least twice the alignment -/
theorem paramsOf_checks {N M : Nat} (hN : 0 < N) (hN2 : N < Extracted.poolBlockCountLimit) (hM : 0 < M)
    (hM2 : M ≤ Extracted.poolMaxBlockAlignment) (s : Nat) {a : Nat} (ha : 0 < a) : checkParams N (paramsOf N M s a) := by
  have hA : objAlignment M a = min a M := objAlignment_eq_min M a
  have hApos : 0 < min a M := by omega
  refine ⟨hN, hN2, ?_, ?_, ?_, ?_, ?_⟩
  · rw [paramsOf_snd]; exact hApos
  · rw [paramsOf_snd]; omega
  · simp only [paramsOf, hA, correctBlockSize]
    by_cases h1 : N = 1
    · rw [if_pos h1]; split <;> omega
    · rw [if_neg h1]
      by_cases h2 : s ≤ min a M
      · rw [if_pos h2]; simp only [Extracted.poolCorrectSmallMul]; omega
      · rw [if_neg h2]
        have : 1 ≤ (s + min a M - 1) / min a M := (Nat.le_div_iff_mul_le hApos).mpr (by omega)
        exact Nat.mul_pos (by omega) hApos
  · by_cases h1 : N = 1
    · exact Or.inl h1
    · right
      simp only [paramsOf, hA, correctBlockSize, if_neg h1]
      by_cases h2 : s ≤ min a M
      · rw [if_pos h2]; exact Nat.mul_mod_left _ _
      · rw [if_neg h2]; exact Nat.mul_mod_left _ _
  · by_cases h1 : N = 1
    · exact Or.inl h1
    · right
      simp only [paramsOf, hA, correctBlockSize, if_neg h1]
      by_cases h2 : s ≤ min a M
      · rw [if_pos h2, Nat.mul_div_cancel _ hApos]
        simp only [Extracted.poolCorrectSmallMul, Extracted.poolMinSizeRatio]; omega
      · rw [if_neg h2, Nat.mul_div_cancel _ hApos]
        simp only [Extracted.poolMinSizeRatio]
        exact (Nat.le_div_iff_mul_le hApos).mpr (by omega)

/-- what C++ guarantees about `sizeof(T)` and `alignof(T)` relative to `UIntConst::maxAlignment = M`: the size is a
    positive multiple of the alignment; alignments are powers of two, so of two alignments one divides the other -/
structure CppType (M size align : Nat) : Prop where
  apos : 0 < align
  dvd : align ∣ size
  spos : 0 < size
  pow : align ∣ M ∨ M ∣ align

theorem CppType.min_dvd {M s a : Nat} (hM : 0 < M) (h : CppType M s a) : min a M ∣ s := by
  by_cases hle : a ≤ M
  · rw [Nat.min_eq_left hle]; exact h.dvd
  · rw [Nat.min_eq_right (by omega)]
    rcases h.pow with hp | hp
    · exact absurd (Nat.le_of_dvd hM hp) hle
    · exact Nat.dvd_trans hp h.dvd

/-- **closed form of `pvGetMemPoolParams()` for every C++ value type**: the block alignment is
    `min(alignof(T), maxAlignment)`, the block size is `sizeof(T)`, except that for `N > 1` a type whose size equals
    that alignment gets two alignments -/
theorem paramsOf_cpp {N M s a : Nat} (hM : 0 < M) (h : CppType M s a) :
    paramsOf N M s a = (if N ≠ 1 ∧ s = min a M then Extracted.poolCorrectSmallMul * s else s, min a M) := by
  have hApos : 0 < min a M := by have := h.apos; omega
  have hdvd := h.min_dvd hM
  have hle : min a M ≤ s := Nat.le_of_dvd h.spos hdvd
  simp only [paramsOf, objAlignment_eq_min, correctBlockSize]
  congr 1
  by_cases h1 : N = 1
  · have : ¬ (N ≠ 1 ∧ s = min a M) := fun hh => hh.1 h1
    rw [if_pos h1, if_neg this, if_pos h.spos]
  · rw [if_neg h1]
    by_cases h2 : s ≤ min a M
    · have hs : s = min a M := by omega
      rw [if_pos h2, if_pos ⟨h1, hs⟩, ← hs]
    · have hs : ¬ (N ≠ 1 ∧ s = min a M) := fun hh => h2 (by omega)
      rw [if_neg h2, if_neg hs]
      obtain ⟨k, hk⟩ := hdvd
      have : (s + min a M - 1) / min a M = k := by
        rw [hk, show min a M * k + min a M - 1 = min a M * k + (min a M - 1) by omega, Nat.mul_add_div hApos,
          Nat.div_eq_of_lt (by omega)]
        rfl
      rw [this, hk, Nat.mul_comm]

/-- over-aligned value types (`alignof(T) > maxAlignment`): the pool is parameterised with `(sizeof(T), maxAlignment)` —
    the alignment the pool (and the raw path, whose memory manager knows no alignment at all) works with is
    `maxAlignment`, smaller than what the type asks for -/
theorem paramsOf_overaligned {N M s a : Nat} (hM : 0 < M) (h : CppType M s a) (ho : M < a) : paramsOf N M s a = (s, M) := by
  rw [paramsOf_cpp hM h]
  have hle : a ≤ s := Nat.le_of_dvd h.spos h.dvd
  have hne : ¬ (N ≠ 1 ∧ s = min a M) := by intro hh; omega
  rw [if_neg hne, Nat.min_eq_right (by omega)]

/-- **when two value types have equal pool parameters (`pvIsEqual`), `N > 1`**: the clamped alignments are equal and
    the sizes are equal, or one size is that alignment and the other twice it -/
theorem same_class_iff {N M s1 a1 s2 a2 : Nat} (hM : 0 < M) (hN : N ≠ 1) (h1 : CppType M s1 a1) (h2 : CppType M s2 a2) :
    paramsOf N M s1 a1 = paramsOf N M s2 a2 ↔
      min a1 M = min a2 M ∧ (s1 = s2 ∨ (s1 = min a1 M ∧ s2 = 2 * s1) ∨ (s2 = min a2 M ∧ s1 = 2 * s2)) := by
  rw [paramsOf_cpp hM h1, paramsOf_cpp hM h2, Prod.mk.injEq]
  have p1 : 0 < min a1 M := by have := h1.apos; omega
  have p2 : 0 < min a2 M := by have := h2.apos; omega
  simp only [Extracted.poolCorrectSmallMul]
  generalize min a1 M = A1 at *
  generalize min a2 M = A2 at *
  constructor
  · rintro ⟨hb, ha⟩
    refine ⟨ha, ?_⟩
    split at hb <;> split at hb <;> omega
  · rintro ⟨ha, hs⟩
    refine ⟨?_, ha⟩
    split <;> split <;> omega

/-- `N = 1` (every block its own buffer): equal parameters iff equal sizes and equal clamped alignments -/
theorem same_class_iff_one {M s1 a1 s2 a2 : Nat} (hM : 0 < M) (h1 : CppType M s1 a1) (h2 : CppType M s2 a2) :
    paramsOf 1 M s1 a1 = paramsOf 1 M s2 a2 ↔ min a1 M = min a2 M ∧ s1 = s2 := by
  rw [paramsOf_cpp hM h1, paramsOf_cpp hM h2, Prod.mk.injEq]
  simp only [ne_eq, not_true_eq_false, false_and, if_false]
  constructor <;> intro h <;> exact ⟨h.2, h.1⟩

/-! ### which way `allocate` and `deallocate` go -/

theorem find_of_mem {s : Sys} (hnd : (s.blocks.map (·.id)).Nodup) {b : Block} (hb : b ∈ s.blocks) :
    s.blocks.find? (fun x => x.id == b.id) = some b := by
  cases hf : s.blocks.find? (fun x => x.id == b.id) with
  | none =>
    rw [List.find?_eq_none] at hf
    exact absurd (by simp) (hf b hb)
  | some b' =>
    obtain ⟨hm, hid⟩ := find_id_mem hf
    rw [nodup_id_inj hnd hm hb hid]

/-- **`allocate(n)`, exact condition**: a legal call (live pool, `n ≠ 0`) always succeeds; the block comes from the pool
    iff `n = 1` and (the parameters of the value type equal the pool's, or the pool is idle), from the memory manager
    otherwise; on the pool path the pool afterwards has the parameters of the value type -/
theorem alloc_route {s : Sys} {p : Nat} {st : PoolSt} (h0 : s.err = none) (hl : livePool s p = some st)
    (cls : Cls) {n : Nat} (hn : n ≠ 0) {id : Nat} (hfresh : ∀ b ∈ s.blocks, b.id ≠ id) (ms : List Nat) :
    (step s (.alloc p cls n id ms)).err = none ∧
    (step s (.alloc p cls n id ms)).blocks =
      ⟨id, p, cls, n, if n = 1 ∧ (cls = st.params ∨ st.allocCount = 0) then .pool cls else .raw⟩ :: s.blocks ∧
    (n = 1 ∧ (cls = st.params ∨ st.allocCount = 0) →
      (step s (.alloc p cls n id ms)).pools[p]? = some { st with params := cls, allocCount := st.allocCount + 1 }) ∧
    (¬ (n = 1 ∧ (cls = st.params ∨ st.allocCount = 0)) → (step s (.alloc p cls n id ms)).pools = s.pools) := by
  obtain ⟨hst, _⟩ := livePool_eq_some.mp hl
  have hill : ¬ (n = 0 ∨ (s.blocks.any fun b => b.id == id) = true) := by
    rintro (h | h)
    · exact hn h
    · simp only [List.any_eq_true, beq_iff_eq] at h
      obtain ⟨b, hb, hbid⟩ := h
      exact hfresh b hb hbid
  rw [step_eq_of_ok h0]
  simp only [doAlloc, hl, if_neg hill]
  by_cases hpath : n = 1 ∧ (cls = st.params ∨ st.allocCount = 0)
  · refine ⟨?_, ?_, ?_, ?_⟩
    · simp only [if_pos hpath]; exact h0
    · simp only [if_pos hpath]; rw [hpath.1]
    · intro _; simp only [if_pos hpath]; exact getElem?_set_same hst
    · intro h; exact absurd hpath h
  · refine ⟨?_, ?_, ?_, ?_⟩
    · simp only [if_neg hpath]; exact h0
    · simp only [if_neg hpath]
    · intro h; exact absurd h hpath
    · intro _; simp only [if_neg hpath]

/-- **`deallocate(ptr, n)`, exact condition**: for a legal call (the block is live, was allocated through an allocator
    attached to the same pool, for a value type with the same parameters and the same count) the block is handed to
    `MemPool::Deallocate` iff `n = 1` and the parameters of the value type equal the pool's *current* parameters, to the
    memory manager otherwise.  It is an error exactly when that is not where the block came from. -/
theorem dealloc_route {s : Sys} (hi : Inv s) {p : Nat} {st : PoolSt} (h0 : s.err = none) (hl : livePool s p = some st)
    {b : Block} (hb : b ∈ s.blocks) (hp : b.pid = p) (frees : List Nat) :
    (b.n = 1 ∧ b.cls = st.params →
      (b.prov = .raw → (step s (.dealloc p b.cls b.n b.id frees)).err = some (.rawIntoPool b.id)) ∧
      (b.prov ≠ .raw →
        (step s (.dealloc p b.cls b.n b.id frees)).err = none ∧
        (step s (.dealloc p b.cls b.n b.id frees)).pools[p]? = some { st with allocCount := st.allocCount - 1 } ∧
        (step s (.dealloc p b.cls b.n b.id frees)).blocks = s.blocks.filter (fun x => x.id != b.id) ∧
        (∀ x ∈ s.base, x.kind ≠ .buf → x ∈ (step s (.dealloc p b.cls b.n b.id frees)).base))) ∧
    (¬ (b.n = 1 ∧ b.cls = st.params) →
      (b.prov ≠ .raw → (step s (.dealloc p b.cls b.n b.id frees)).err = some (.poolIntoRaw b.id)) ∧
      (b.prov = .raw →
        (step s (.dealloc p b.cls b.n b.id frees)).err = none ∧
        (step s (.dealloc p b.cls b.n b.id frees)).pools = s.pools ∧
        (step s (.dealloc p b.cls b.n b.id frees)).blocks = s.blocks.filter (fun x => x.id != b.id) ∧
        (step s (.dealloc p b.cls b.n b.id frees)).base =
          s.base.filter (fun e => !(e.pid == p && e.kind == .raw && e.id == b.id)))) := by
  obtain ⟨hst, _⟩ := livePool_eq_some.mp hl
  have hfind := find_of_mem hi.nodup hb
  have hill : ¬ (b.pid ≠ p ∨ b.cls ≠ b.cls ∨ b.n ≠ b.n) := by simp [hp]
  rw [step_eq_of_ok h0]
  simp only [doDealloc, hl, hfind, if_neg hill]
  constructor
  · intro hpath
    rw [if_pos hpath]
    constructor
    · intro hpr; rw [hpr]; rfl
    · intro hpr
      cases hq : b.prov with
      | raw => exact absurd hq hpr
      | pool q =>
        refine ⟨h0, getElem?_set_same hst, rfl, ?_⟩
        intro x hx hk
        refine List.mem_filter.mpr ⟨hx, ?_⟩
        cases hkk : x.kind <;> simp_all
  · intro hpath
    rw [if_neg hpath]
    constructor
    · intro hpr
      cases hq : b.prov with
      | raw => exact absurd hq hpr
      | pool q => rfl
    · intro hpr; rw [hpr]; exact ⟨h0, rfl, rfl, rfl⟩

/-! ### the propagation traits, as extracted from the header -/

/-- `propagate_on_container_copy_assignment = false_type`, `propagate_on_container_move_assignment = true_type`,
    `propagate_on_container_swap = true_type`, `is_always_equal = false_type` (T1: regenerated from pool_allocator.h on
    every run; another value of any of the four makes this theorem — and the build of C20 — fail) -/
theorem traits_as_extracted : pocca = false ∧ pocma = true ∧ pocs = true ∧ alwaysEqual = false := by decide

theorem findEnt_of_mem {cs : CSys} (hnd : (cs.ents.map (·.eid)).Nodup) {en : Ent} (hen : en ∈ cs.ents) :
    findEnt cs en.eid = some en := by
  unfold findEnt
  cases hf : cs.ents.find? (fun x => x.eid == en.eid) with
  | none =>
    rw [List.find?_eq_none] at hf
    exact absurd (by simp) (hf en hen)
  | some x =>
    have hm := List.mem_of_find?_eq_some hf
    have hx : x.eid = en.eid := by simpa using List.find?_some hf
    rw [key_inj (·.eid) hnd hm hen hx]

/-- **copy assignment, POCCA = false**: `d = c` keeps the allocator of `d` (and of `c`): no entity changes its pool, and
    whatever `d` frees / reuses / allocates touches only the pool `d`'s allocator pointed to before -/
theorem copyAssign_spec {cs : CSys} (hc : CInv cs) (h0 : cs.sys.err = none) (d c : Nat) (acts : List Act)
    (hok : (cstep cs (.copyAssign d c acts)).sys.err = none) :
    ∃ de ∈ cs.ents, de.eid = d ∧ (∃ ce ∈ cs.ents, ce.eid = c) ∧
      (cstep cs (.copyAssign d c acts)).ents = cs.ents ∧
      Frame d de.pid cs (cstep cs (.copyAssign d c acts)) := by
  unfold cstep at hok ⊢
  have he : ¬ cs.sys.err.isSome = true := by simp [h0]
  rw [if_neg he] at hok ⊢
  simp only at hok ⊢
  cases hs : findEnt cs d with
  | none => simp only [hs] at hok; rw [cfail_err _ h0] at hok; cases hok
  | some de =>
    cases hs2 : findEnt cs c with
    | none => simp only [hs, hs2] at hok; rw [cfail_err _ h0] at hok; cases hok
    | some ce =>
      simp only [hs, hs2] at hok ⊢
      by_cases hp : pocca = true
      · rw [if_pos hp] at hok; rw [cfail_err _ h0] at hok; cases hok
      · rw [if_neg hp] at hok ⊢
        exact ⟨de, (findEnt_some hs).1, (findEnt_some hs).2, ⟨ce, (findEnt_some hs2).1, (findEnt_some hs2).2⟩,
          acts_ents _ _ _ _, acts_frame hc (findEnt_some hs).1 (findEnt_some hs).2 rfl acts h0 hok⟩

/-- **swap, POCS = true**: `d.swap(c)` is defined for any two live containers, whether their allocators are equal or not
    (`is_always_equal` is false: with POCS = false unequal allocators would be undefined behaviour) -/
theorem swap_any_pools_ok {cs : CSys} (hc : CInv cs) (h0 : cs.sys.err = none) {de ce : Ent} (hde : de ∈ cs.ents)
    (hce : ce ∈ cs.ents) : (cstep cs (.swap de.eid ce.eid)).sys.err = none := by
  have he : ¬ cs.sys.err.isSome = true := by simp [h0]
  have hp : ¬ ((!pocs) = true) := by decide
  unfold cstep
  rw [if_neg he]
  simp only [findEnt_of_mem hc.nodupE hde, findEnt_of_mem hc.nodupE hce, if_neg hp]
  exact h0

theorem eid_le_sum (l : List Ent) (x : Ent) (hx : x ∈ l) : x.eid ≤ (l.map (·.eid)).sum := by
  induction l with
  | nil => cases hx
  | cons a t ih =>
    simp only [List.map_cons, List.sum_cons]
    rcases List.mem_cons.mp hx with rfl | h
    · omega
    · have := ih h; omega

/-- **move assignment, POCMA = true**: `d = std::move(c)` needs no equal allocators and allocates nothing: for any two
    different live containers, once `d` holds nothing any more, taking over `c`'s allocator (the new pool gains an owner,
    the old one loses one and dies if `d` was its last owner) succeeds -/
theorem moveAssign_any_pools_ok {cs : CSys} (hc : CInv cs) (h0 : cs.sys.err = none) {de ce : Ent} (hde : de ∈ cs.ents)
    (hce : ce ∈ cs.ents) (hne : de.eid ≠ ce.eid) (hnone : ownsNone cs de.eid = true) :
    (cstep cs (.moveAssign de.eid ce.eid [])).sys.err = none := by
  have he : ¬ cs.sys.err.isSome = true := by simp [h0]
  have hdc : ¬ (de.eid = ce.eid ∨ (!pocma) = true) := by
    rintro (h | h)
    · exact hne h
    · revert h; decide
  unfold cstep
  rw [if_neg he]
  simp only [findEnt_of_mem hc.nodupE hde, findEnt_of_mem hc.nodupE hce, if_neg hdc, List.foldl_nil, if_neg he, hnone,
    Bool.not_true, Bool.false_eq_true, if_false]
  -- the allocator object of `d` is copy-assigned: think of the copy as a fresh entity `e'`, then `d` drops its old pool
  obtain ⟨stc, hlc, _⟩ := ent_pool_live hc hce
  have hcopy : (step cs.sys (.acopy ce.pid)).err = none := by
    rw [step_eq_of_ok h0]; simp only [doCopy, hlc]; exact h0
  let e' := (cs.ents.map (·.eid)).sum + 1
  have hfresh : ∀ x ∈ cs.ents, x.eid ≠ e' := by
    intro x hx h
    have := eid_le_sum cs.ents x hx
    simp only [e'] at h; omega
  have hc1 := newFrom_cinv hc h0 e' hce hfresh cs.own (fun b _ => Or.inl rfl) hcopy
  have hblocks : (step cs.sys (.acopy ce.pid)).blocks = cs.sys.blocks := by
    rw [step_eq_of_ok h0]; simp only [doCopy, hlc]
  have hnone1 : ownsNone { sys := step cs.sys (.acopy ce.pid), ents := ⟨e', ce.pid⟩ :: cs.ents, own := cs.own } de.eid = true := by
    simp only [ownsNone, hblocks]; exact hnone
  exact drop_succeeds hc1 hcopy (en := de) (List.mem_cons_of_mem _ hde) hnone1

/-! ### containers that share a pool: splice -/

/-- **splice / merge between two containers whose allocators are equal** (they share a pool through copies of one
    allocator object): legal, the allocator-level state does not change, the nodes named change hands, and their new holder
    can free each of them through its own allocator — back to where it came from -/
theorem splice_spec {cs : CSys} (hc : CInv cs) (h0 : cs.sys.err = none) (hrs : cs.sys.rawSingle = false) {de ce : Ent}
    (hde : de ∈ cs.ents) (hce : ce ∈ cs.ents) (hp : de.pid = ce.pid) (ids : List Nat) :
    (cstep cs (.splice de.eid ce.eid ids)).sys = cs.sys ∧
    (cstep cs (.splice de.eid ce.eid ids)).ents = cs.ents ∧
    (∀ b ∈ cs.sys.blocks, b.id ∈ ids → cs.own b.id = ce.eid →
      (cstep cs (.splice de.eid ce.eid ids)).own b.id = de.eid ∧
      ∀ frees, (actStep de.eid de.pid (cstep cs (.splice de.eid ce.eid ids)) (.free b.id frees)).sys.err = none) ∧
    (∀ i, ¬ (i ∈ ids ∧ cs.own i = ce.eid) → (cstep cs (.splice de.eid ce.eid ids)).own i = cs.own i) := by
  have he : ¬ cs.sys.err.isSome = true := by simp [h0]
  have hpp : ¬ (de.pid ≠ ce.pid) := fun h => h hp
  have heq : cstep cs (.splice de.eid ce.eid ids) =
      { cs with own := fun i => if ids.contains i && cs.own i == ce.eid then de.eid else cs.own i } := by
    unfold cstep
    rw [if_neg he]
    simp only [findEnt_of_mem hc.nodupE hde, findEnt_of_mem hc.nodupE hce, if_neg hpp]
  have hc' := splice_cinv hc hde rfl hce rfl hp ids
  rw [heq]
  refine ⟨rfl, rfl, ?_, ?_⟩
  · intro b hb hin ho
    have hown : (if ids.contains b.id && cs.own b.id == ce.eid then de.eid else cs.own b.id) = de.eid := by
      have : (ids.contains b.id && cs.own b.id == ce.eid) = true := by simp [hin, ho]
      rw [if_pos this]
    refine ⟨hown, fun frees => ?_⟩
    exact owner_free_succeeds hc' h0 hrs (en := de) hde hb hown frees
  · intro i hi
    have : ¬ ((ids.contains i && cs.own i == ce.eid) = true) := by
      intro h
      simp only [Bool.and_eq_true, List.contains_iff_mem, beq_iff_eq] at h
      exact hi h
    simp only [if_neg this]

end Momo.PoolAlloc
