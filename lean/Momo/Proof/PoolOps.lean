import Mathlib.Data.List.Nodup
import Mathlib.Data.List.Perm.Subperm
import Mathlib.Data.List.Perm.Basic
import Momo.Proof.PoolState
/-!
  State machine of `MemPool` (C09): the pool invariant and its preservation by `pvNewBlock`,
  `pvDeleteBlock`, `Allocate`, `Deallocate`.
-/
namespace Momo.Pool

/-- buffer pointers of a store -/
def bufs (st : List Buffer) : List Int := st.map (·.buf)

theorem BufWF.ok {P : Params} {k : Int} (hM : Multi P k) {b : Buffer} (h : BufWF P b) :
    BufOK P b.buf ∧ -P.N < b.first ∧ b.first ≤ 0 := by
  obtain ⟨_, h1, h2, h3, _⟩ := hM.firstBlock_ok b.base
  rw [h.layout.1, h.layout.2.1]
  exact ⟨h3, h1, h2⟩

/-- blocks of different buffers are different addresses (`pvGetBlockIndex` tells the buffer) -/
theorem block_buffer_unique {P : Params} {k : Int} (hM : Multi P k) {b c : Buffer} (hb : BufWF P b) (hc : BufWF P c)
    (i j : Int) (hi : b.first ≤ i ∧ i < b.first + P.N) (hj : c.first ≤ j ∧ j < c.first + P.N)
    (he : getBlock P b.buf i = getBlock P c.buf j) : b.buf = c.buf ∧ i = j := by
  obtain ⟨okb, fb1, fb2⟩ := hb.ok hM
  obtain ⟨okc, fc1, fc2⟩ := hc.ok hM
  have rb : blockIdx P (getBlock P b.buf i) = i ∧ blockBuf P (getBlock P b.buf i) = b.buf := by
    by_cases h0 : 0 ≤ i
    · exact hM.recover_nonneg b.buf i okb h0 (by omega)
    · exact hM.recover_neg b.buf i okb (by omega) (by omega)
  have rc : blockIdx P (getBlock P c.buf j) = j ∧ blockBuf P (getBlock P c.buf j) = c.buf := by
    by_cases h0 : 0 ≤ j
    · exact hM.recover_nonneg c.buf j okc h0 (by omega)
    · exact hM.recover_neg c.buf j okc (by omega) (by omega)
  rw [he] at rb
  exact ⟨rb.2.symm.trans rc.2, rb.1.symm.trans rc.1⟩

theorem mem_taken {P : Params} {b : Buffer} (hN : 0 ≤ P.N) (x : Int) :
    x ∈ b.taken P ↔ ∃ i, (b.first ≤ i ∧ i < b.first + P.N) ∧ b.link i = none ∧ getBlock P b.buf i = x := by
  unfold Buffer.taken
  simp only [List.mem_map, List.mem_filter, mem_indexes P b _ hN, Option.isNone_iff_eq_none]
  constructor
  · rintro ⟨i, ⟨h1, h2⟩, h3⟩; exact ⟨i, h1, h2, h3⟩
  · rintro ⟨i, h1, h2, h3⟩; exact ⟨i, ⟨h1, h2⟩, h3⟩

theorem buffer_taken_nodup {P : Params} {k : Int} (hM : Multi P k) (b : Buffer) : (b.taken P).Nodup := by
  unfold Buffer.taken
  apply List.Nodup.map_on
  · intro x _ y _ hxy; exact getBlock_inj hM _ _ _ hxy
  · exact (indexes_nodup P b).filter _

theorem getBuf_some {st : List Buffer} {a : Int} {b : Buffer} (h : getBuf st a = some b) : b ∈ st ∧ b.buf = a := by
  unfold getBuf at h
  have h1 := List.mem_of_find?_eq_some h
  have h2 := List.find?_some h
  exact ⟨h1, by simpa using h2⟩

/-- a store with distinct buffer pointers splits around any of its buffers -/
theorem store_split {st : List Buffer} {b : Buffer} (hb : b ∈ st) (hnd : (bufs st).Nodup) :
    ∃ s1 s2, st = s1 ++ b :: s2 ∧ (∀ x ∈ s1, x.buf ≠ b.buf) ∧ (∀ x ∈ s2, x.buf ≠ b.buf) := by
  obtain ⟨s1, s2, rfl⟩ := List.append_of_mem hb
  refine ⟨s1, s2, rfl, ?_, ?_⟩
  · intro x hx e
    simp only [bufs, List.map_append, List.map_cons] at hnd
    have := (List.nodup_append.mp hnd).2.2
    exact this x.buf (List.mem_map_of_mem hx) b.buf (by simp) e
  · intro x hx e
    simp only [bufs, List.map_append, List.map_cons] at hnd
    have := (List.nodup_cons.mp (List.nodup_append.mp hnd).2.1).1
    exact this (e ▸ List.mem_map_of_mem hx)

theorem getBuf_split {s1 s2 : List Buffer} {b : Buffer} (h1 : ∀ x ∈ s1, x.buf ≠ b.buf) :
    getBuf (s1 ++ b :: s2) b.buf = some b := by
  unfold getBuf
  rw [List.find?_append]
  have : s1.find? (fun x => x.buf == b.buf) = none := by
    rw [List.find?_eq_none]; intro x hx; simpa using h1 x hx
  simp [this]

theorem setBuf_split {s1 s2 : List Buffer} {b b' : Buffer} (hb : b'.buf = b.buf)
    (h1 : ∀ x ∈ s1, x.buf ≠ b.buf) (h2 : ∀ x ∈ s2, x.buf ≠ b.buf) :
    setBuf (s1 ++ b :: s2) b' = s1 ++ b' :: s2 := by
  unfold setBuf
  rw [List.map_append, List.map_cons]
  have e1 : s1.map (fun x => if x.buf = b'.buf then b' else x) = s1 := by
    rw [List.map_congr_left (g := id)]; · simp
    intro x hx; simp [hb, h1 x hx]
  have e2 : s2.map (fun x => if x.buf = b'.buf then b' else x) = s2 := by
    rw [List.map_congr_left (g := id)]; · simp
    intro x hx; simp [hb, h2 x hx]
  rw [e1, e2]; simp [hb]

theorem dropBuf_split {s1 s2 : List Buffer} {b : Buffer}
    (h1 : ∀ x ∈ s1, x.buf ≠ b.buf) (h2 : ∀ x ∈ s2, x.buf ≠ b.buf) :
    dropBuf (s1 ++ b :: s2) b.buf = s1 ++ s2 := by
  unfold dropBuf
  rw [List.filter_append, List.filter_cons]
  have e1 : s1.filter (fun x => x.buf != b.buf) = s1 := by
    rw [List.filter_eq_self]; intro x hx; simpa using h1 x hx
  have e2 : s2.filter (fun x => x.buf != b.buf) = s2 := by
    rw [List.filter_eq_self]; intro x hx; simpa using h2 x hx
  rw [e1, e2]; simp

/-- the store/list part of the pool invariant (`blockCount > 1`) -/
structure CoreWF (P : Params) (p : Pool) : Prop where
  bufwf : ∀ b ∈ p.store, BufWF P b
  nodup : (bufs p.store).Nodup
  lists : (p.pre ++ p.post).Perm (bufs p.store)
  preFull : ∀ b ∈ p.store, b.buf ∈ p.pre → b.freeCount = 0
  postFree : ∀ b ∈ p.store, b.buf ∈ p.post → 1 ≤ b.freeCount
  headNull : p.post = [] → p.pre = []

theorem CoreWF.lists_nodup {P : Params} {p : Pool} (h : CoreWF P p) : (p.pre ++ p.post).Nodup :=
  h.lists.nodup_iff.mpr h.nodup

theorem CoreWF.getBuf_of_mem_lists {P : Params} {p : Pool} (h : CoreWF P p) {a : Int} (ha : a ∈ p.pre ++ p.post) :
    ∃ b, getBuf p.store a = some b ∧ b ∈ p.store ∧ b.buf = a := by
  have := h.lists.subset ha
  obtain ⟨b, hb, rfl⟩ := List.mem_map.mp this
  obtain ⟨s1, s2, hs, h1, _⟩ := store_split hb h.nodup
  refine ⟨b, ?_, hb, rfl⟩
  rw [hs]; exact getBuf_split h1

theorem CoreWF.getBuf_of_mem {P : Params} {p : Pool} (h : CoreWF P p) {b : Buffer} (hb : b ∈ p.store) :
    getBuf p.store b.buf = some b := by
  obtain ⟨s1, s2, hs, h1, _⟩ := store_split hb h.nodup
  rw [hs]; exact getBuf_split h1

/-- replace one buffer by an updated copy (same pointer) and rearrange the two lists -/
theorem CoreWF.update {P : Params} {p : Pool} (h : CoreWF P p) {b b' : Buffer} (hb : b ∈ p.store)
    (hbuf : b'.buf = b.buf) (hwf : BufWF P b') (pre' post' : List Int)
    (hperm : (pre' ++ post').Perm (p.pre ++ p.post))
    (hpre : b.buf ∈ pre' → b'.freeCount = 0) (hpost : b.buf ∈ post' → 1 ≤ b'.freeCount)
    (hother : ∀ a, a ≠ b.buf → (a ∈ pre' → a ∈ p.pre) ∧ (a ∈ post' → a ∈ p.post))
    (hnull : post' = [] → pre' = []) :
    CoreWF P { p with store := setBuf p.store b', pre := pre', post := post' } := by
  obtain ⟨s1, s2, hs, h1, h2⟩ := store_split hb h.nodup
  have hset : setBuf p.store b' = s1 ++ b' :: s2 := by rw [hs]; exact setBuf_split hbuf h1 h2
  have hbufs : bufs (setBuf p.store b') = bufs p.store := by
    rw [hset, hs]; simp [bufs, hbuf]
  refine ⟨?_, ?_, ?_, ?_, ?_, hnull⟩
  · intro x hx
    simp only [hset, List.mem_append, List.mem_cons] at hx
    rcases hx with hx | rfl | hx
    · exact h.bufwf x (by rw [hs]; simp [hx])
    · exact hwf
    · exact h.bufwf x (by rw [hs]; simp [hx])
  · simp only [hbufs]; exact h.nodup
  · simp only [hbufs]; exact hperm.trans h.lists
  · intro x hx hxp
    simp only [hset, List.mem_append, List.mem_cons] at hx
    rcases hx with hx | rfl | hx
    · exact h.preFull x (by rw [hs]; simp [hx]) ((hother x.buf (h1 x hx)).1 hxp)
    · exact hpre (hbuf ▸ hxp)
    · exact h.preFull x (by rw [hs]; simp [hx]) ((hother x.buf (h2 x hx)).1 hxp)
  · intro x hx hxp
    simp only [hset, List.mem_append, List.mem_cons] at hx
    rcases hx with hx | rfl | hx
    · exact h.postFree x (by rw [hs]; simp [hx]) ((hother x.buf (h1 x hx)).2 hxp)
    · exact hpost (hbuf ▸ hxp)
    · exact h.postFree x (by rw [hs]; simp [hx]) ((hother x.buf (h2 x hx)).2 hxp)

/-- remove one buffer from the store and from the lists -/
theorem CoreWF.remove {P : Params} {p : Pool} (h : CoreWF P p) {b : Buffer} (hb : b ∈ p.store) (pre' post' : List Int)
    (hperm : (b.buf :: (pre' ++ post')).Perm (p.pre ++ p.post))
    (hother : ∀ a, (a ∈ pre' → a ∈ p.pre) ∧ (a ∈ post' → a ∈ p.post))
    (hnull : post' = [] → pre' = []) :
    CoreWF P { p with store := dropBuf p.store b.buf, pre := pre', post := post' } := by
  obtain ⟨s1, s2, hs, h1, h2⟩ := store_split hb h.nodup
  have hdrop : dropBuf p.store b.buf = s1 ++ s2 := by rw [hs]; exact dropBuf_split h1 h2
  have hmid : (bufs p.store).Perm (b.buf :: bufs (s1 ++ s2)) := by
    rw [hs]; simp only [bufs, List.map_append, List.map_cons]; exact List.perm_middle
  refine ⟨?_, ?_, ?_, ?_, ?_, hnull⟩
  · intro x hx
    simp only [hdrop, List.mem_append] at hx
    exact h.bufwf x (by rw [hs]; rcases hx with hx | hx <;> simp [hx])
  · simp only [hdrop]
    exact (List.nodup_cons.mp (hmid.nodup_iff.mp h.nodup)).2
  · simp only [hdrop]
    exact (List.perm_cons _).mp ((hperm.trans h.lists).trans hmid)
  · intro x hx hxp
    simp only [hdrop, List.mem_append] at hx
    exact h.preFull x (by rw [hs]; rcases hx with hx | hx <;> simp [hx]) ((hother x.buf).1 hxp)
  · intro x hx hxp
    simp only [hdrop, List.mem_append] at hx
    exact h.postFree x (by rw [hs]; rcases hx with hx | hx <;> simp [hx]) ((hother x.buf).2 hxp)

/-- add a new buffer with free blocks at the end of the list -/
theorem CoreWF.add {P : Params} {p : Pool} (h : CoreWF P p) {nb : Buffer} (hwf : BufWF P nb)
    (hnew : nb.buf ∉ bufs p.store) (hfree : 1 ≤ nb.freeCount) :
    CoreWF P { p with store := p.store ++ [nb], post := p.post ++ [nb.buf] } := by
  have hnl : nb.buf ∉ p.pre ++ p.post := fun hm => hnew (h.lists.subset hm)
  refine ⟨?_, ?_, ?_, ?_, ?_, fun e => by simp at e⟩
  · intro x hx
    rcases List.mem_append.mp hx with hx | hx
    · exact h.bufwf x hx
    · simp at hx; subst hx; exact hwf
  · simp only [bufs, List.map_append, List.map_cons, List.map_nil]
    rw [List.nodup_append]
    refine ⟨h.nodup, by simp, ?_⟩
    intro a ha c hc e; simp at hc; subst hc; subst e; exact hnew ha
  · simp only [bufs, List.map_append, List.map_cons, List.map_nil, ← List.append_assoc]
    exact List.Perm.append h.lists (List.Perm.refl _)
  · intro x hx hxp
    rcases List.mem_append.mp hx with hx | hx
    · exact h.preFull x hx hxp
    · simp at hx; subst hx; exact absurd (List.mem_append_left _ hxp) hnl
  · intro x hx hxp
    rcases List.mem_append.mp hx with hx | hx
    · rcases List.mem_append.mp hxp with hxp | hxp
      · exact h.postFree x hx hxp
      · simp at hxp; exact absurd (hxp ▸ List.mem_map_of_mem hx) hnew
    · simp at hx; subst hx; exact hfree

/-- blocks handed out by the buffers of a store -/
def takenOf (P : Params) (st : List Buffer) : List Int := st.flatMap (Buffer.taken P)

theorem Pool.taken_eq (P : Params) (p : Pool) : p.taken P = takenOf P p.store := rfl

theorem takenOf_split (P : Params) (s1 s2 : List Buffer) (b : Buffer) :
    (takenOf P (s1 ++ b :: s2)).Perm (b.taken P ++ takenOf P (s1 ++ s2)) := by
  simp only [takenOf, List.flatMap_append, List.flatMap_cons]
  rw [← List.append_assoc, ← List.append_assoc]
  exact List.Perm.append_right _ List.perm_append_comm

/-- a block of a well-formed store belongs to exactly one buffer, with a unique index -/
theorem mem_takenOf {P : Params} (st : List Buffer) (x : Int) :
    x ∈ takenOf P st ↔ ∃ b ∈ st, x ∈ b.taken P := by
  simp [takenOf, List.mem_flatMap]

theorem takenOf_nodup {P : Params} {k : Int} (hM : Multi P k) (st : List Buffer) (hwf : ∀ b ∈ st, BufWF P b)
    (hnd : (bufs st).Nodup) : (takenOf P st).Nodup := by
  have hN : 0 ≤ P.N := by have := hM.hN; omega
  induction st with
  | nil => simp [takenOf]
  | cons b t ih =>
    simp only [takenOf, List.flatMap_cons]
    rw [List.nodup_append]
    simp only [bufs, List.map_cons, List.nodup_cons] at hnd
    refine ⟨buffer_taken_nodup hM b, ih (fun x hx => hwf x (by simp [hx])) hnd.2, ?_⟩
    intro x hx y hy e
    subst e
    obtain ⟨c, hc, hxc⟩ := (mem_takenOf t x).mp hy
    obtain ⟨i, hi, _, hie⟩ := (mem_taken hN x).mp hx
    obtain ⟨j, hj, _, hje⟩ := (mem_taken hN x).mp hxc
    have := (block_buffer_unique hM (hwf b (by simp)) (hwf c (by simp [hc])) i j hi hj (hie.trans hje.symm)).1
    exact hnd.1 (this ▸ List.mem_map_of_mem hc)

/-- a block taken from buffer `b` is not handed out by any buffer of the store -/
theorem not_mem_takenOf {P : Params} {k : Int} (hM : Multi P k) {st : List Buffer} (hwf : ∀ b ∈ st, BufWF P b)
    (hnd : (bufs st).Nodup) {b : Buffer} (hb : b ∈ st) (i : Int) (hi : b.first ≤ i ∧ i < b.first + P.N)
    (hnot : getBlock P b.buf i ∉ b.taken P) : getBlock P b.buf i ∉ takenOf P st := by
  have hN : 0 ≤ P.N := by have := hM.hN; omega
  intro hm
  obtain ⟨c, hc, hxc⟩ := (mem_takenOf st _).mp hm
  obtain ⟨j, hj, _, hje⟩ := (mem_taken hN _).mp hxc
  have hbc := (block_buffer_unique hM (hwf b hb) (hwf c hc) i j hi hj hje.symm).1
  -- same pointer, so the same buffer
  obtain ⟨s1, s2, hs, h1, h2⟩ := store_split hb hnd
  rw [hs] at hc
  rcases List.mem_append.mp hc with hc | hc
  · exact h1 c hc hbc.symm
  · rcases List.mem_cons.mp hc with rfl | hc
    · exact hnot hxc
    · exact h2 c hc hbc.symm

/-- memory the pool holds from the memory manager -/
def owned (P : Params) (st : List Buffer) : List (Int × Int) := st.map (fun b => (b.base, P.bufferSize))

theorem takenOf_setBuf_add {P : Params} {st : List Buffer} {b b' : Buffer} {x : Int} (hb : b ∈ st)
    (hnd : (bufs st).Nodup) (hbuf : b'.buf = b.buf) (hp : (b'.taken P).Perm (x :: b.taken P)) :
    (takenOf P (setBuf st b')).Perm (x :: takenOf P st) := by
  obtain ⟨s1, s2, hs, h1, h2⟩ := store_split hb hnd
  rw [hs, setBuf_split hbuf h1 h2]
  refine (takenOf_split P s1 s2 b').trans ?_
  refine (List.Perm.append_right _ hp).trans ?_
  exact List.Perm.cons x (takenOf_split P s1 s2 b).symm

theorem takenOf_setBuf_sub {P : Params} {st : List Buffer} {b b' : Buffer} {x : Int} (hb : b ∈ st)
    (hnd : (bufs st).Nodup) (hbuf : b'.buf = b.buf) (hp : (b.taken P).Perm (x :: b'.taken P)) :
    (takenOf P st).Perm (x :: takenOf P (setBuf st b')) := by
  obtain ⟨s1, s2, hs, h1, h2⟩ := store_split hb hnd
  rw [hs, setBuf_split hbuf h1 h2]
  refine (takenOf_split P s1 s2 b).trans ?_
  refine (List.Perm.append_right _ hp).trans ?_
  exact List.Perm.cons x (takenOf_split P s1 s2 b').symm

theorem takenOf_dropBuf {P : Params} {st : List Buffer} {b : Buffer} (hb : b ∈ st)
    (hnd : (bufs st).Nodup) (he : b.taken P = []) :
    (takenOf P (dropBuf st b.buf)).Perm (takenOf P st) := by
  obtain ⟨s1, s2, hs, h1, h2⟩ := store_split hb hnd
  rw [hs, dropBuf_split h1 h2]
  refine List.Perm.trans ?_ (takenOf_split P s1 s2 b).symm
  rw [he]; simp

theorem owned_setBuf {P : Params} {st : List Buffer} {b b' : Buffer} (hb : b ∈ st)
    (hnd : (bufs st).Nodup) (hbuf : b'.buf = b.buf) (hbase : b'.base = b.base) :
    owned P (setBuf st b') = owned P st := by
  obtain ⟨s1, s2, hs, h1, h2⟩ := store_split hb hnd
  rw [hs, setBuf_split hbuf h1 h2]
  simp [owned, hbase]

theorem owned_dropBuf {P : Params} {st : List Buffer} {b : Buffer} (hb : b ∈ st) (hnd : (bufs st).Nodup) :
    (owned P st).Perm ((b.base, P.bufferSize) :: owned P (dropBuf st b.buf)) := by
  obtain ⟨s1, s2, hs, h1, h2⟩ := store_split hb hnd
  rw [hs, dropBuf_split h1 h2]
  simp only [owned, List.map_append, List.map_cons]
  exact List.perm_middle

theorem mem_setBuf {st : List Buffer} {b b' : Buffer} (hb : b ∈ st) (hnd : (bufs st).Nodup) (hbuf : b'.buf = b.buf) :
    b' ∈ setBuf st b' := by
  obtain ⟨s1, s2, hs, h1, h2⟩ := store_split hb hnd
  rw [hs, setBuf_split hbuf h1 h2]; simp

/-- what a successful `pvNewBlock` does -/
structure AllocSpec (P : Params) (p p' : Pool) (blk : Int) (evs : List Ev) : Prop where
  wf : CoreWF P p'
  perm : (p'.taken P).Perm (blk :: p.taken P)
  fresh : blk ∉ p.taken P
  same : p'.cache = p.cache ∧ p'.allocCount = p.allocCount ∧ p'.singles = p.singles
  block : ∃ b ∈ p'.store, ∃ i, (b.first ≤ i ∧ i < b.first + P.N) ∧ blk = getBlock P b.buf i
  events : (evs = [] ∧ owned P p'.store = owned P p.store) ∨
           (∃ base, evs = [.malloc base P.bufferSize] ∧ owned P p'.store = owned P p.store ++ [(base, P.bufferSize)])

/-- `pvNewBlock` 531-537 -/
theorem takeFromHead_ok {P : Params} {k : Int} (hM : Multi P k) {p : Pool} (h : CoreWF P p)
    (hd : Int) (rest : List Int) (hpost : p.post = hd :: rest)
    (hrest : ∀ hb, getBuf p.store hd = some hb → hb.freeCount = 1 → rest ≠ []) (evs : List Ev) :
    ∃ blk p', takeFromHead P p evs = .ok blk p' evs ∧ AllocSpec P p p' blk [] := by
  obtain ⟨hb, hget, hmem, hbuf⟩ := h.getBuf_of_mem_lists (a := hd) (by rw [hpost]; simp)
  have hfc : 1 ≤ hb.freeCount := h.postFree hb hmem (by rw [hbuf, hpost]; simp)
  obtain ⟨hb', htake, hwf', hfc', hbuf', hbase', hfirst', _, hrange, hperm, hnot⟩ := (h.bufwf hb hmem).take_ok hM hfc
  have hlnd := h.lists_nodup
  rw [hpost] at hlnd
  have hnotrest : hd ∉ rest := by
    have := (List.nodup_append.mp hlnd).2.1; exact (List.nodup_cons.mp this).1
  have hnotpre : hd ∉ p.pre := by
    intro hm; exact (List.nodup_append.mp hlnd).2.2 hd hm hd (by simp) rfl
  have hfresh : getBlock P hb.buf hb.firstFree ∉ p.taken P :=
    not_mem_takenOf hM h.bufwf h.nodup hmem _ hrange hnot
  have hpermT : (takenOf P (setBuf p.store hb')).Perm (getBlock P hb.buf hb.firstFree :: takenOf P p.store) :=
    takenOf_setBuf_add hmem h.nodup hbuf' hperm
  have hblock : ∃ b ∈ setBuf p.store hb', ∃ i, (b.first ≤ i ∧ i < b.first + P.N) ∧
      getBlock P hb.buf hb.firstFree = getBlock P b.buf i :=
    ⟨hb', mem_setBuf hmem h.nodup hbuf', hb.firstFree, by rw [hfirst']; exact hrange, by rw [hbuf']⟩
  unfold takeFromHead
  rw [hpost]; simp only [hget, htake]
  by_cases h0 : hb'.freeCount = 0
  · rw [if_pos h0]
    refine ⟨_, _, rfl, ?_, hpermT, hfresh, ⟨rfl, rfl, rfl⟩, hblock, Or.inl ⟨rfl, owned_setBuf hmem h.nodup hbuf' hbase'⟩⟩
    have hr : rest ≠ [] := hrest hb hget (by omega)
    apply h.update hmem hbuf' hwf' (hd :: p.pre) rest
    · rw [hpost]; exact List.perm_middle.symm
    · intro _; exact h0
    · intro hm; rw [hbuf] at hm; exact absurd hm hnotrest
    · intro a ha
      refine ⟨fun hm => ?_, fun hm => by rw [hpost]; simp [hm]⟩
      rcases List.mem_cons.mp hm with e | hm
      · rw [hbuf] at ha; exact absurd e ha
      · exact hm
    · intro e; exact absurd e hr
  · rw [if_neg h0]
    refine ⟨_, _, rfl, ?_, hpermT, hfresh, ⟨rfl, rfl, rfl⟩, hblock, Or.inl ⟨rfl, owned_setBuf hmem h.nodup hbuf' hbase'⟩⟩
    have := h.update hmem hbuf' hwf' p.pre p.post (List.Perm.refl _)
      (fun hm => by rw [hbuf] at hm; exact absurd hm hnotpre) (fun _ => by omega)
      (fun a _ => ⟨id, id⟩) h.headNull
    rw [hpost] at this
    exact this

/-- contract of the memory manager for the answers of one operation: aligned as the pool assumes
    (`allocAlign`), and the new memory is not memory the pool already holds (stated on the buffer pointer
    that `pvNewBuffer` computes inside it; `fresh_buf_not_owned` derives this from disjoint ranges) -/
def OrcOK (P : Params) (p : Pool) (orc : Oracle) : Prop :=
  ∀ k base, orc k = some base → P.allocAlign ∣ base ∧ (Buffer.fresh P base).buf ∉ bufs p.store

theorem AllocSpec.trans_add {P : Params} {p p1 p' : Pool} {blk : Int} {base : Int}
    (hs : AllocSpec P p1 p' blk [])
    (h1 : p1.store = p.store ++ [Buffer.fresh P base]) (ht : (Buffer.fresh P base).taken P = [])
    (hc : p1.cache = p.cache ∧ p1.allocCount = p.allocCount ∧ p1.singles = p.singles) :
    AllocSpec P p p' blk [.malloc base P.bufferSize] := by
  have e : p1.taken P = p.taken P := by
    simp only [Pool.taken, h1, List.flatMap_append, List.flatMap_cons, List.flatMap_nil, ht, List.append_nil]
  refine ⟨hs.wf, by rw [← e]; exact hs.perm, by rw [← e]; exact hs.fresh,
    ⟨hs.same.1.trans hc.1, hs.same.2.1.trans hc.2.1, hs.same.2.2.trans hc.2.2⟩, hs.block, Or.inr ⟨base, rfl, ?_⟩⟩
  rcases hs.events with ⟨_, ho⟩ | ⟨b2, hb2, _⟩
  · rw [ho, h1]; simp [owned, Buffer.fresh]
  · simp at hb2

/-- **`pvNewBlock` (519-538)**: succeeds with a block that was not handed out, or - only when it needs new
    memory and the manager refuses - leaves the pool unchanged; it never hits an assertion. -/
theorem newBlock_ok {P : Params} {k : Int} (hM : Multi P k) (hN2 : 2 ≤ P.N) {p : Pool} (h : CoreWF P p)
    {orc : Oracle} (horc : OrcOK P p orc) :
    match newBlock P p orc with
    | .ok blk p' evs => AllocSpec P p p' blk evs
    | .badAlloc p' evs => p' = p ∧ evs = [] ∧ orc 0 = none
    | .stuck _ => False := by
  unfold newBlock
  cases hpost : p.post with
  | nil =>
    simp only
    cases horc0 : orc 0 with
    | none => simp
    | some base =>
      simp only
      obtain ⟨hal, hnew⟩ := horc 0 base horc0
      obtain ⟨hwf, hfc, htk⟩ := fresh_wf hM base hal
      have hadd := h.add hwf hnew (by rw [hfc]; omega)
      rw [hpost] at hadd
      simp only [List.nil_append] at hadd
      unfold newBlockHead
      simp only
      have hg : getBuf (p.store ++ [Buffer.fresh P base]) (Buffer.fresh P base).buf = some (Buffer.fresh P base) := by
        exact hadd.getBuf_of_mem (b := Buffer.fresh P base) (by simp)
      rw [hg]; simp only
      have hne : ¬ ((Buffer.fresh P base).freeCount = 1 ∧ True) := by rw [hfc]; omega
      rw [if_neg hne]
      obtain ⟨blk, p', htf, hspec⟩ := takeFromHead_ok hM hadd (Buffer.fresh P base).buf [] rfl
        (by intro hb hgb h1; rw [hg] at hgb; cases hgb; rw [hfc] at h1; omega) [.malloc base P.bufferSize]
      rw [htf]
      exact AllocSpec.trans_add hspec rfl htk ⟨rfl, rfl, rfl⟩
  | cons hd rest =>
    simp only
    unfold newBlockHead
    rw [hpost]; simp only
    obtain ⟨hb, hget, hmem, hbuf⟩ := h.getBuf_of_mem_lists (a := hd) (by rw [hpost]; simp)
    rw [hget]; simp only
    by_cases hc : hb.freeCount = 1 ∧ rest = []
    · rw [if_pos hc]
      cases horc0 : orc 0 with
      | none => simp
      | some base =>
        simp only
        obtain ⟨hal, hnew⟩ := horc 0 base horc0
        obtain ⟨hwf, hfc, htk⟩ := fresh_wf hM base hal
        have hadd := h.add hwf hnew (by rw [hfc]; omega)
        rw [hpost, hc.2] at hadd
        simp only [List.cons_append, List.nil_append] at hadd
        obtain ⟨blk, p', htf, hspec⟩ := takeFromHead_ok hM hadd hd [(Buffer.fresh P base).buf] rfl
          (by intro _ _ _; simp) ([] ++ [.malloc base P.bufferSize])
        rw [htf]
        exact AllocSpec.trans_add hspec rfl htk ⟨rfl, rfl, rfl⟩
    · rw [if_neg hc]
      obtain ⟨blk, p', htf, hspec⟩ := takeFromHead_ok hM h hd rest hpost
        (by intro hb2 hg2 h1; rw [hget] at hg2; cases hg2; intro e; exact hc ⟨h1, e⟩) []
      rw [htf]
      exact hspec

theorem BufWF.freeCount_nonneg {P : Params} {b : Buffer} (h : BufWF P b) : 0 ≤ b.freeCount := by
  obtain ⟨ch, _, hlen, _⟩ := h.chain; omega

/-- a buffer whose free chain has `blockCount` entries hands out nothing -/
theorem BufWF.full_chain {P : Params} {b : Buffer} (h : BufWF P b) (hN : 0 ≤ P.N) (hfc : b.freeCount = P.N) :
    b.taken P = [] := by
  obtain ⟨ch, _, hlen, hnd, hrange, hnone⟩ := h.chain
  have hsub : ch ⊆ b.indexes P := fun i hi => (mem_indexes P b i hN).mpr (hrange i hi)
  have hlenI : (b.indexes P).length = ch.length := by
    simp only [Buffer.indexes, List.length_map, List.length_range]; omega
  have hperm : ch.Perm (b.indexes P) :=
    (List.subperm_of_subset hnd hsub).perm_of_length_le (by omega)
  unfold Buffer.taken
  rw [List.map_eq_nil_iff, List.filter_eq_nil_iff]
  intro i hi
  have hr := (mem_indexes P b i hN).mp hi
  have : i ∈ ch := hperm.symm.subset hi
  have hne : b.link i ≠ none := fun e => ((hnone i hr.1 hr.2).mp e) this
  simp [Option.isNone_iff_eq_none, hne]

/-- what a successful `pvDeleteBlock` does -/
structure FreeSpec (P : Params) (p p' : Pool) (blk : Int) (evs : List Ev) : Prop where
  wf : CoreWF P p'
  perm : (p.taken P).Perm (blk :: p'.taken P)
  same : p'.cache = p.cache ∧ p'.allocCount = p.allocCount ∧ p'.singles = p.singles
  events : (evs = [] ∧ owned P p'.store = owned P p.store) ∨
           (∃ base, evs = [.free base P.bufferSize] ∧
              (owned P p.store).Perm ((base, P.bufferSize) :: owned P p'.store))
  sub : ∀ x ∈ bufs p'.store, x ∈ bufs p.store

theorem BufWF.begin_eq {P : Params} {k : Int} (hM : Multi P k) (hA2 : P.A ≤ 1024) {b : Buffer} (h : BufWF P b) :
    getBlock P b.buf b.first - b.beginOffset = b.base := by
  have := (hM.newBuffer_inside b.base hA2 h.aligned).2.2.2.2
  rw [h.layout.1, h.layout.2.1, h.layout.2.2]; exact this

theorem mem_setBuf_other {st : List Buffer} {b' c : Buffer} (hc : c.buf ≠ b'.buf) :
    c ∈ setBuf st b' ↔ c ∈ st := by
  unfold setBuf
  simp only [List.mem_map]
  constructor
  · rintro ⟨x, hx, hxe⟩
    by_cases h : x.buf = b'.buf
    · rw [if_pos h] at hxe; exact absurd (hxe ▸ rfl) hc
    · rw [if_neg h] at hxe; exact hxe ▸ hx
  · intro hm
    exact ⟨c, hm, by rw [if_neg hc]⟩

theorem mem_dropBuf_other {st : List Buffer} {a : Int} {c : Buffer} (hc : c.buf ≠ a) :
    c ∈ dropBuf st a ↔ c ∈ st := by
  unfold dropBuf
  simp [List.mem_filter, hc]

theorem not_mem_bufs_dropBuf (st : List Buffer) (a : Int) : a ∉ bufs (dropBuf st a) := by
  unfold bufs dropBuf
  simp only [List.mem_map, List.mem_filter]
  rintro ⟨x, ⟨_, hx⟩, hxe⟩
  simp [hxe] at hx

/-- how `pvDeleteBlock(block, buffer, index)` changes the lists and the store, apart from the buffer itself -/
structure FreeShape (P : Params) (p p' : Pool) (b : Buffer) (idx : Int) : Prop where
  lists : (p'.pre = p.pre ∧ p'.post = p.post) ∨
          (b.buf ∈ p.pre ∧ p'.pre = p.pre.erase b.buf ∧ p'.post = b.buf :: p.post) ∨
          (b.buf ∈ p.post ∧ p'.pre = p.pre ∧ p'.post = p.post.erase b.buf)
  after : getBuf p'.store b.buf = some (b.put idx) ∨ (b.buf ∉ bufs p'.store ∧ (b.put idx).freeCount = P.N)
  others : ∀ c : Buffer, c.buf ≠ b.buf → (c ∈ p'.store ↔ c ∈ p.store)
  postNE : p'.post ≠ []

/-- **`pvDeleteBlock(block, buffer, index)` (547-570)** on a handed-out block of a buffer of the pool: it
    always succeeds, exactly this block stops being handed out, and a buffer that becomes entirely free is
    given back to the manager with the address and size it was obtained with (unless it is the last head). -/
theorem deleteBlockAt_ok {P : Params} {k : Int} (hM : Multi P k) (hN2 : 2 ≤ P.N) (hA2 : P.A ≤ 1024)
    {p : Pool} (h : CoreWF P p) {b : Buffer} (hb : b ∈ p.store) (idx : Int)
    (hr : b.first ≤ idx ∧ idx < b.first + P.N) (hl : b.link idx = none) :
    ∃ p' evs, deleteBlockAt P p b.buf idx = .ok () p' evs ∧ FreeSpec P p p' (getBlock P b.buf idx) evs ∧
      FreeShape P p p' b idx := by
  have hN : 0 ≤ P.N := by omega
  have hget := h.getBuf_of_mem hb
  obtain ⟨hwf', hperm, _⟩ := (h.bufwf b hb).put_ok hM idx hr hl
  have hfc0 := (h.bufwf b hb).freeCount_nonneg
  have hfc' : (b.put idx).freeCount = b.freeCount + 1 := rfl
  have hbuf' : (b.put idx).buf = b.buf := rfl
  have hbase' : (b.put idx).base = b.base := rfl
  have hlnd := h.lists_nodup
  have hmemL : b.buf ∈ p.pre ++ p.post := h.lists.symm.subset (List.mem_map_of_mem hb)
  have hpermT := takenOf_setBuf_sub (P := P) hb h.nodup hbuf' hperm
  have hown := owned_setBuf (P := P) hb h.nodup hbuf' hbase'
  have hmem' : b.put idx ∈ setBuf p.store (b.put idx) := mem_setBuf hb h.nodup hbuf'
  have hgetS0 : getBuf (setBuf p.store (b.put idx)) b.buf = some (b.put idx) := by
    obtain ⟨s1, s2, hs, h1, h2⟩ := store_split hb h.nodup
    rw [hs, setBuf_split hbuf' h1 h2]; exact getBuf_split (b := b.put idx) h1
  have hoth : ∀ c : Buffer, c.buf ≠ b.buf → (c ∈ setBuf p.store (b.put idx) ↔ c ∈ p.store) :=
    fun c hc => mem_setBuf_other (b' := b.put idx) hc
  have hothD : ∀ c : Buffer, c.buf ≠ b.buf → (c ∈ dropBuf (setBuf p.store (b.put idx)) b.buf ↔ c ∈ p.store) :=
    fun c hc => (mem_dropBuf_other hc).trans (hoth c hc)
  have hgone := not_mem_bufs_dropBuf (setBuf p.store (b.put idx)) b.buf
  have hsubS : ∀ x ∈ bufs (setBuf p.store (b.put idx)), x ∈ bufs p.store := by
    obtain ⟨s1, s2, hs, h1, h2⟩ := store_split hb h.nodup
    rw [hs, setBuf_split hbuf' h1 h2]; intro x hx; simpa [bufs, hbuf'] using hx
  have hsubD : ∀ x ∈ bufs (dropBuf (setBuf p.store (b.put idx)) b.buf), x ∈ bufs p.store := by
    intro x hx
    apply hsubS
    simp only [bufs, dropBuf, List.mem_map, List.mem_filter] at hx ⊢
    obtain ⟨y, ⟨hy, _⟩, rfl⟩ := hx
    exact ⟨y, hy, rfl⟩
  -- the state after the buffer bytes were rewritten, lists unchanged (valid when the buffer had a free block)
  have hkeep : 1 ≤ b.freeCount → CoreWF P { p with store := setBuf p.store (b.put idx) } := by
    intro h1
    have hnpre : b.buf ∉ p.pre := fun hm => by have := h.preFull b hb hm; omega
    exact h.update hb hbuf' hwf' p.pre p.post (List.Perm.refl _) (fun hm => absurd hm hnpre)
      (fun _ => by omega) (fun a _ => ⟨id, id⟩) h.headNull
  unfold deleteBlockAt
  rw [hget]; simp only
  by_cases h1 : (b.put idx).freeCount = 1
  · -- the buffer was full: it stands before the head and moves to the head
    rw [if_pos h1]
    have hb0 : b.freeCount = 0 := by omega
    have hpre : b.buf ∈ p.pre := by
      rcases List.mem_append.mp hmemL with hm | hm
      · exact hm
      · have := h.postFree b hb hm; omega
    have hndpre : p.pre.Nodup := (List.nodup_append.mp hlnd).1
    simp only [moveToHead, hpre, if_true]
    have hneN : ¬ (b.put idx).freeCount = P.N := by omega
    rw [if_neg hneN]
    refine ⟨_, _, rfl, ⟨?_, hpermT, ⟨rfl, rfl, rfl⟩, Or.inl ⟨rfl, hown⟩, hsubS⟩,
      ⟨Or.inr (Or.inl ⟨hpre, rfl, rfl⟩), Or.inl hgetS0, hoth, by simp⟩⟩
    apply h.update hb hbuf' hwf' (p.pre.erase b.buf) (b.buf :: p.post)
    · refine List.perm_middle.trans ?_
      rw [← List.cons_append]
      exact List.Perm.append_right _ (List.perm_cons_erase hpre).symm
    · intro hm; exact absurd ((List.Nodup.mem_erase_iff hndpre).mp hm).1 (by simp)
    · intro _; omega
    · intro a ha
      refine ⟨fun hm => List.mem_of_mem_erase hm, fun hm => ?_⟩
      rcases List.mem_cons.mp hm with e | hm
      · exact absurd e ha
      · exact hm
    · intro e; simp at e
  · rw [if_neg h1]; simp only
    have hb1 : 1 ≤ b.freeCount := by omega
    have hwf1 := hkeep hb1
    have hpost : b.buf ∈ p.post := by
      rcases List.mem_append.mp hmemL with hm | hm
      · have := h.preFull b hb hm; omega
      · exact hm
    have hnpre : b.buf ∉ p.pre := fun hm => by have := h.preFull b hb hm; omega
    by_cases hfull : (b.put idx).freeCount = P.N
    · rw [if_pos hfull]
      have hempty : (b.put idx).taken P = [] := hwf'.full_chain hN hfull
      have hbegin := hwf'.begin_eq hM hA2
      have hgetS : getBuf (setBuf p.store (b.put idx)) b.buf = some (b.put idx) := hwf1.getBuf_of_mem hmem'
      have hpermD : (takenOf P (dropBuf (setBuf p.store (b.put idx)) b.buf)).Perm (takenOf P (setBuf p.store (b.put idx))) :=
        takenOf_dropBuf (b := b.put idx) hmem' hwf1.nodup hempty
      have hownD := owned_dropBuf (P := P) (b := b.put idx) hmem' hwf1.nodup
      rw [hown] at hownD
      cases hpl : p.post with
      | nil => rw [hpl] at hpost; simp at hpost
      | cons hd rest =>
        simp only
        have hndpost : (hd :: rest).Nodup := by rw [← hpl]; exact (List.nodup_append.mp hlnd).2.1
        by_cases hhd : hd = b.buf
        · rw [if_pos hhd]
          cases hrest : rest with
          | nil =>
            simp only
            refine ⟨_, _, rfl, ⟨?_, hpermT, ⟨rfl, rfl, rfl⟩, Or.inl ⟨rfl, hown⟩, hsubS⟩,
              ⟨Or.inl ⟨rfl, by show _ = p.post; rw [hpl, hrest]⟩, Or.inl hgetS0, hoth, by simp⟩⟩
            have := hwf1; rw [hpl, hrest] at this; exact this
          | cons r rs =>
            simp only
            have hnr : b.buf ∉ rest := by rw [← hhd]; exact (List.nodup_cons.mp hndpost).1
            unfold deleteBuffer
            simp only [hgetS]
            have hhead : ¬ ((r :: rs).head? = some b.buf) := by
              intro e; simp at e; rw [hrest] at hnr; exact hnr (by simp [e])
            rw [if_neg hhead]
            have e2' : (r :: rs).erase b.buf = r :: rs := by
              rw [← hrest]; exact List.erase_of_not_mem hnr
            refine ⟨_, _, rfl, ⟨?_, ?_, ⟨rfl, rfl, rfl⟩, Or.inr ⟨b.base, ?_, hownD⟩, hsubD⟩,
              ⟨Or.inr (Or.inr ⟨hpost, by show (b.buf :: p.pre).erase b.buf = p.pre; simp,
                 by show (r :: rs).erase b.buf = p.post.erase b.buf
                    rw [e2', hpl, hrest, hhd]; simp⟩),
               Or.inr ⟨hgone, hfull⟩, hothD, by show (r :: rs).erase b.buf ≠ []; rw [e2']; simp⟩⟩
            · have e1 : (b.buf :: p.pre).erase b.buf = p.pre := by simp
              have e2 : (r :: rs).erase b.buf = r :: rs := by
                rw [← hrest]; exact List.erase_of_not_mem hnr
              rw [e1, e2]
              have := hwf1.remove hmem' p.pre (r :: rs)
                (by show (b.buf :: (p.pre ++ r :: rs)).Perm (p.pre ++ p.post)
                    rw [hpl, hhd, hrest]; exact List.perm_middle.symm)
                (fun a => ⟨id, fun hm => by show a ∈ p.post; rw [hpl, hrest]; simp [List.mem_cons.mp hm]⟩)
                (fun e => by simp at e)
              exact this
            · exact hpermT.trans (List.Perm.cons _ hpermD.symm)
            · show [Ev.free (getBlock P (b.put idx).buf (b.put idx).first - (b.put idx).beginOffset) P.bufferSize] = _
              rw [hbegin]; rfl
        · rw [if_neg hhd]
          unfold deleteBuffer
          simp only [hgetS]
          have hhead : ¬ ((hd :: rest).head? = some b.buf) := by simp [hhd]
          rw [if_neg hhead]
          refine ⟨_, _, rfl, ⟨?_, ?_, ⟨rfl, rfl, rfl⟩, Or.inr ⟨b.base, ?_, hownD⟩, hsubD⟩,
            ⟨Or.inr (Or.inr ⟨hpost, by show p.pre.erase b.buf = p.pre; exact List.erase_of_not_mem hnpre,
              by show _ = p.post.erase b.buf; rw [hpl]⟩), Or.inr ⟨hgone, hfull⟩, hothD,
              by show (hd :: rest).erase b.buf ≠ []
                 intro e
                 have : hd ∈ (hd :: rest).erase b.buf := (List.mem_erase_of_ne hhd).mpr (by simp)
                 rw [e] at this; simp at this⟩⟩
          · have e1 : p.pre.erase b.buf = p.pre := List.erase_of_not_mem hnpre
            rw [e1]
            have hpost' : b.buf ∈ hd :: rest := by rw [← hpl]; exact hpost
            have := hwf1.remove hmem' p.pre ((hd :: rest).erase b.buf)
              (by show (b.buf :: (p.pre ++ (hd :: rest).erase b.buf)).Perm (p.pre ++ p.post)
                  rw [hpl]
                  exact List.perm_middle.symm.trans (List.Perm.append_left _ (List.perm_cons_erase hpost').symm))
              (fun a => ⟨id, fun hm => by show a ∈ p.post; rw [hpl]; exact List.mem_of_mem_erase hm⟩)
              (fun e => by
                have : hd ∈ (hd :: rest).erase b.buf := (List.mem_erase_of_ne hhd).mpr (by simp)
                rw [e] at this; simp at this)
            exact this
          · exact hpermT.trans (List.Perm.cons _ hpermD.symm)
          · show [Ev.free (getBlock P (b.put idx).buf (b.put idx).first - (b.put idx).beginOffset) P.bufferSize] = _
            rw [hbegin]; rfl
    · rw [if_neg hfull]
      exact ⟨_, _, rfl, ⟨hwf1, hpermT, ⟨rfl, rfl, rfl⟩, Or.inl ⟨rfl, hown⟩, hsubS⟩,
        ⟨Or.inl ⟨rfl, rfl⟩, Or.inl hgetS0, hoth, by show p.post ≠ []; intro e; rw [e] at hpost; simp at hpost⟩⟩

theorem ledger_append (L : List (Int × Int)) (e1 e2 : List Ev) :
    ledger L (e1 ++ e2) = (ledger L e1).bind (fun L1 => ledger L1 e2) := by
  induction e1 generalizing L with
  | nil => simp [ledger]
  | cons e es ih =>
    cases e with
    | malloc b s => simp [ledger, ih]
    | free a s =>
      simp only [List.cons_append, ledger]
      split
      · exact ih _
      · simp

theorem ledger_perm {L M : List (Int × Int)} (evs : List Ev) (hp : L.Perm M) :
    ∀ L', ledger L evs = some L' → ∃ M', ledger M evs = some M' ∧ L'.Perm M' := by
  induction evs generalizing L M with
  | nil => intro L' h; simp [ledger] at h ⊢; subst h; exact hp
  | cons e es ih =>
    intro L' h
    cases e with
    | malloc b s =>
      simp only [ledger] at h ⊢
      exact ih (List.Perm.cons _ hp) L' h
    | free a s =>
      simp only [ledger] at h ⊢
      by_cases hm : (a, s) ∈ L
      · rw [if_pos hm] at h
        rw [if_pos (hp.subset hm)]
        exact ih (hp.erase _) L' h
      · rw [if_neg hm] at h; simp at h

/-- the events turn the allocations outstanding for store `st` into those outstanding for `st'`:
    every `free` gives back a block that is outstanding, with the size it was obtained with -/
def LedgerOK (P : Params) (st : List Buffer) (evs : List Ev) (st' : List Buffer) : Prop :=
  ∃ L', ledger (owned P st) evs = some L' ∧ L'.Perm (owned P st')

theorem LedgerOK.nil {P : Params} {st st' : List Buffer} (h : owned P st' = owned P st) : LedgerOK P st [] st' :=
  ⟨owned P st, rfl, by rw [h]⟩

theorem LedgerOK.trans {P : Params} {s1 s2 s3 : List Buffer} {e1 e2 : List Ev}
    (h1 : LedgerOK P s1 e1 s2) (h2 : LedgerOK P s2 e2 s3) : LedgerOK P s1 (e1 ++ e2) s3 := by
  obtain ⟨L1, hl1, hp1⟩ := h1
  obtain ⟨L2, hl2, hp2⟩ := h2
  obtain ⟨M, hm, hpm⟩ := ledger_perm e2 hp1.symm L2 hl2
  exact ⟨M, by rw [ledger_append, hl1]; exact hm, hpm.symm.trans hp2⟩

theorem AllocSpec.ledgerOK {P : Params} {p p' : Pool} {blk : Int} {evs : List Ev} (h : AllocSpec P p p' blk evs) :
    LedgerOK P p.store evs p'.store := by
  rcases h.events with ⟨rfl, ho⟩ | ⟨base, rfl, ho⟩
  · exact LedgerOK.nil ho
  · refine ⟨(base, P.bufferSize) :: owned P p.store, rfl, ?_⟩
    rw [ho]; exact (List.perm_append_singleton _ _).symm

theorem FreeSpec.ledgerOK {P : Params} {p p' : Pool} {blk : Int} {evs : List Ev} (h : FreeSpec P p p' blk evs) :
    LedgerOK P p.store evs p'.store := by
  rcases h.events with ⟨rfl, ho⟩ | ⟨base, rfl, ho⟩
  · exact LedgerOK.nil ho
  · have hm : (base, P.bufferSize) ∈ owned P p.store := ho.symm.subset (by simp)
    refine ⟨(owned P p.store).erase (base, P.bufferSize), by simp [ledger, hm], ?_⟩
    have := ho.erase (base, P.bufferSize)
    simpa using this

end Momo.Pool
