import Momo.Model.Rows
/-!
  Lemmas for the row hand-off model (C19), part 1: linked chains, the thread list, table removal,
  and the step function as a relation (`Step`, `step_sound`). Core Lean only.
-/
namespace Momo.Rows


/-! ### Linked chains -/

theorem Linked_tail {next : Row → Option Row} {l : List Row} (h : Linked next l) : Linked next l.tail := by
  match l, h with
  | [], _ => trivial
  | [_], _ => trivial
  | _ :: b :: rest, h => exact h.2

theorem Linked_congr {n1 n2 : Row → Option Row} {l : List Row} (h : Linked n1 l)
    (hag : ∀ x, x ∈ l → n1 x = n2 x) : Linked n2 l := by
  induction l with
  | nil => trivial
  | cons a t ih =>
    cases t with
    | nil => simp [Linked] at h ⊢; rw [← hag a (by simp)]; exact h
    | cons b rest =>
      simp only [Linked] at h ⊢
      refine ⟨?_, ih h.2 (fun x hx => hag x (List.mem_cons_of_mem _ hx))⟩
      rw [← hag a (by simp)]; exact h.1

theorem Linked_head_next {next : Row → Option Row} {a : Row} {l : List Row} (h : Linked next (a :: l)) :
    next a = l.head? := by
  cases l with
  | nil => simpa [Linked] using h
  | cons b rest => simpa [Linked] using h.1

theorem Linked_cons {next : Row → Option Row} {a : Row} {l : List Row} (h : Linked next l)
    (ha : next a = l.head?) : Linked next (a :: l) := by
  cases l with
  | nil => simpa [Linked] using ha
  | cons b rest => exact ⟨by simpa using ha, h⟩

theorem Linked_setNext {next : Row → Option Row} {l : List Row} {r : Row} {v : Option Row}
    (h : Linked next l) (hr : r ∉ l) : Linked (setNext next r v) l :=
  Linked_congr h (fun x hx => by
    have : x ≠ r := fun e => hr (e ▸ hx)
    simp [setNext, this])

/-- following the pointers from the head of a linked chain yields exactly the chain -/
theorem chainFrom_linked {next : Row → Option Row} : ∀ (l : List Row) (fuel : Nat),
    Linked next l → l.length ≤ fuel → chainFrom next fuel l.head? = l
  | [], fuel, _, _ => by cases fuel <;> simp [chainFrom]
  | a :: t, 0, _, hf => by simp at hf
  | a :: t, f+1, hl, hf => by
    have hn := Linked_head_next hl
    have := chainFrom_linked t f (Linked_tail hl) (by simpa using hf)
    simp [chainFrom, hn, this]

/-! ### thread list -/

theorem set_self_of_getElem? {α : Type} {l : List α} {i : Nat} {x : α} (h : l[i]? = some x) : l.set i x = l := by
  apply List.ext_getElem?
  intro j
  by_cases hj : i = j
  · subst hj; rw [h]
    have : i < l.length := by
      apply Decidable.byContradiction; intro hn; simp [List.getElem?_eq_none (Nat.le_of_not_lt hn)] at h
    simp [this]
  · simp [List.getElem?_set_ne hj]

theorem lt_length_of_getElem? {α : Type} {l : List α} {i : Nat} {x : α} (h : l[i]? = some x) : i < l.length := by
  apply Decidable.byContradiction; intro hn; simp [List.getElem?_eq_none (Nat.le_of_not_lt hn)] at h

theorem filterMap_set_same (thr : List PC) (i : Nat) (pc pc' : PC)
    (h : thr[i]? = some pc) (hr : pc'.row = pc.row) :
    (thr.set i pc').filterMap PC.row = thr.filterMap PC.row := by
  induction thr generalizing i with
  | nil => simp at h
  | cons a t ih =>
    cases i with
    | zero => simp at h; subst h; simp [List.filterMap_cons, hr]
    | succ j => simp at h; simp [List.filterMap_cons, ih j h]

/-- replacing thread i (which holds row r) by a thread holding no row removes exactly r from `inflight` -/
theorem filterMap_set_perm (thr : List PC) (i : Nat) (pc pc' : PC) (r : Row)
    (h : thr[i]? = some pc) (hr : pc.row = some r) (hr' : pc'.row = none) :
    (thr.filterMap PC.row).Perm (r :: (thr.set i pc').filterMap PC.row) := by
  induction thr generalizing i with
  | nil => simp at h
  | cons a t ih =>
    cases i with
    | zero =>
      simp at h; subst h
      rw [List.set_cons_zero, List.filterMap_cons, hr, List.filterMap_cons]
      simp [hr']
    | succ j =>
      simp at h
      have := ih j h
      simp only [List.set_cons_succ, List.filterMap_cons]
      cases ha : a.row with
      | none => simpa using this
      | some x =>
        simp only []
        exact (List.Perm.cons x this).trans (List.Perm.swap r x _)

theorem filterMap_set_perm' (thr : List PC) (i : Nat) (pc pc' : PC) (r : Row)
    (h : thr[i]? = some pc) (hr : pc.row = none) (hr' : pc'.row = some r) :
    ((thr.set i pc').filterMap PC.row).Perm (r :: thr.filterMap PC.row) := by
  have hi : i < thr.length := lt_length_of_getElem? h
  have h2 : (thr.set i pc')[i]? = some pc' := by simp [hi]
  have := filterMap_set_perm (thr.set i pc') i pc' pc r h2 hr' hr
  have e : (thr.set i pc').set i pc = thr := by
    rw [List.set_set]; exact set_self_of_getElem? h
  rw [e] at this
  exact this

theorem mem_inflight {s : St} {t : Tid} {pc : PC} {r : Row} (h : s.thr[t]? = some pc) (hr : pc.row = some r) :
    r ∈ inflight s := by
  unfold inflight
  exact List.mem_filterMap.mpr ⟨pc, List.mem_of_getElem? h, hr⟩

theorem inflight_index_unique (thr : List PC) (hn : (thr.filterMap PC.row).Nodup) {i j : Nat} {p q : PC} {r : Row}
    (hi : thr[i]? = some p) (hj : thr[j]? = some q) (hp : p.row = some r) (hq : q.row = some r) : i = j := by
  induction thr generalizing i j with
  | nil => simp at hi
  | cons a t ih =>
    cases i with
    | zero =>
      cases j with
      | zero => rfl
      | succ j' =>
        simp at hi hj; subst hi
        simp only [List.filterMap_cons, hp] at hn
        have : r ∈ t.filterMap PC.row := List.mem_filterMap.mpr ⟨q, List.mem_of_getElem? hj, hq⟩
        exact absurd this (List.nodup_cons.mp hn).1
    | succ i' =>
      cases j with
      | zero =>
        simp at hi hj; subst hj
        simp only [List.filterMap_cons, hq] at hn
        have : r ∈ t.filterMap PC.row := List.mem_filterMap.mpr ⟨p, List.mem_of_getElem? hi, hp⟩
        exact absurd this (List.nodup_cons.mp hn).1
      | succ j' =>
        simp at hi hj
        have hn' : (t.filterMap PC.row).Nodup := by
          simp only [List.filterMap_cons] at hn
          cases ha : a.row with
          | none => simpa [ha] using hn
          | some x => simp only [ha] at hn; exact (List.nodup_cons.mp hn).2
        rw [ih hn' hi hj]


/-! ### table removal -/


theorem eraseIdx_perm : ∀ (l : List Row) (i : Nat) (r : Row), l[i]? = some r → l.Perm (r :: l.eraseIdx i)
  | [], i, r, h => by simp at h
  | a :: t, 0, r, h => by simp at h; subst h; simp
  | a :: t, i+1, r, h => by
    simp at h
    have := eraseIdx_perm t i r h
    simp only [List.eraseIdx_cons_succ]
    exact (List.Perm.cons a this).trans (List.Perm.swap r a _)

theorem set_perm : ∀ (l : List Row) (i : Nat) (r x : Row), l[i]? = some r → (x :: l).Perm (r :: l.set i x)
  | [], i, r, x, h => by simp at h
  | a :: t, 0, r, x, h => by simp at h; subst h; simp; exact List.Perm.swap _ _ _
  | a :: t, i+1, r, x, h => by
    simp at h
    have := set_perm t i r x h
    simp only [List.set_cons_succ]
    -- x :: a :: t ~ a :: x :: t ~ a :: r :: set ~ r :: a :: set
    exact (List.Perm.swap a x t).trans ((List.Perm.cons a this).trans (List.Perm.swap r a _))

theorem swapRemove_perm (l : List Row) (i : Nat) (r : Row) (h : l[i]? = some r) :
    l.Perm (r :: swapRemove l i) := by
  unfold swapRemove
  rcases List.eq_nil_or_concat l with rfl | ⟨ini, z, rfl⟩
  · simp at h
  · rw [List.concat_eq_append] at h ⊢
    have hl : (ini ++ [z]).getLast?.getD 0 = z := by simp
    rw [hl]
    by_cases hi : i < ini.length
    · have hr : ini[i]? = some r := by simpa [List.getElem?_append_left hi] using h
      have e : (ini ++ [z]).set i z = ini.set i z ++ [z] := by
        simp [hi]
      rw [e, List.dropLast_concat]
      -- ini ++ [z] ~ z :: ini ~ r :: ini.set i z
      exact (List.perm_append_comm (l₁ := ini) (l₂ := [z])).trans (by simpa using set_perm ini i r z hr)
    · have hlen : i < (ini ++ [z]).length := by
        apply Decidable.byContradiction; intro hn; simp [List.getElem?_eq_none (Nat.le_of_not_lt hn)] at h
      have hie : i = ini.length := by simp at hlen; omega
      subst hie
      have hr : r = z := by simpa using h.symm
      subst hr
      have e : (ini ++ [r]).set ini.length r = ini ++ [r] := by simp
      rw [e, List.dropLast_concat]
      exact List.perm_append_comm (l₁ := ini) (l₂ := [r])


/-! ### the step relation -/


/-- the step function as a relation with its enabling conditions spelled out (sequencing conditions of the
owner thread that no invariant needs are dropped, so the relation is a superset of `step`) -/
inductive Step : St → Act → St → Prop where
  | newBegin (s : St) (hm : s.mpc = .idle) :
      Step s .newBegin { s with mpc := if s.head = none then .needAlloc else .needTake true }
  | takeBegin (s : St) (hm : s.mpc = .idle) : Step s .takeBegin { s with mpc := .needTake false }
  | exchange (s : St) (b : Bool) (hm : s.mpc = .needTake b) :
      Step s .exchange { s with mpc := .walking b, cur := s.head, head := none, W := s.L, L := [],
                                log := s.L.map Ev.taken ++ s.log }
  | walk (s : St) (b : Bool) (c : Row) (g : Option Row) (hm : s.mpc = .walking b) (hc : s.cur = some c) :
      Step s (.walk g) { s with cur := s.next c, next := setNext s.next c g, pool := c :: s.pool, W := s.W.tail,
                                log := Ev.reclaimed c :: s.log }
  | walkEnd (s : St) (b : Bool) (hm : s.mpc = .walking b) (hc : s.cur = none) :
      Step s .walkEnd { s with mpc := if b then .needAlloc else .idle }
  | grow (s : St) (r : Row) (g : Option Row) (hm : s.mpc = .needAlloc) (hr : r ∉ places s) :
      Step s (.grow r g) { s with pool := r :: s.pool, next := setNext s.next r g }
  | alloc (s : St) (r : Row) (g : Option Row) (hm : s.mpc = .needAlloc) (hr : r ∈ s.pool) :
      Step s (.alloc r g) { s with mpc := .idle, pool := s.pool.erase r, det := (r, 0) :: s.det,
                                   next := setNext s.next r g, log := Ev.created r :: s.log }
  | add (s : St) (r : Row) (hm : s.mpc = .idle) (hd : (r, 0) ∈ s.det) :
      Step s (.add r) { s with det := s.det.erase (r, 0), table := s.table ++ [r] }
  | extract (s : St) (i : Nat) (keep : Bool) (r : Row) (hm : s.mpc = .idle) (hi : s.table[i]? = some r) :
      Step s (.extract i keep) { s with table := removeAt s.table i keep, det := (r, 0) :: s.det }
  | remove (s : St) (i : Nat) (keep : Bool) (g : Option Row) (r : Row) (hm : s.mpc = .idle)
      (hi : s.table[i]? = some r) :
      Step s (.remove i keep g) { s with table := removeAt s.table i keep, pool := r :: s.pool,
                                         next := setNext s.next r g, log := Ev.reclaimed r :: s.log }
  | handoff (s : St) (r : Row) (t u : Tid) (hd : (r, t) ∈ s.det) (hu : u < s.thr.length) :
      Step s (.handoff r t u) { s with det := (r, u) :: s.det.erase (r, t) }
  | dBegin (s : St) (t : Tid) (r : Row) (hpc : s.thr[t]? = some .idle) (hd : (r, t) ∈ s.det) :
      Step s (.dBegin t r) { s with thr := setPC s t (.start r), det := s.det.erase (r, t) }
  | dLoad (s : St) (t : Tid) (r : Row) (hpc : s.thr[t]? = some (.start r)) :
      Step s (.dLoad t) { s with thr := setPC s t (.loaded r s.head) }
  | dWrite (s : St) (t : Tid) (r : Row) (h : Option Row) (hpc : s.thr[t]? = some (.loaded r h)) :
      Step s (.dWrite t) { s with thr := setPC s t (.wrote r h), next := setNext s.next r h }
  | dCasOk (s : St) (t : Tid) (r : Row) (h : Option Row) (hpc : s.thr[t]? = some (.wrote r h)) (hh : s.head = h) :
      Step s (.dCas t false) { s with thr := setPC s t .idle, head := some r, L := r :: s.L,
                                      log := Ev.pushed r :: s.log }
  | dCasFail (s : St) (t : Tid) (r : Row) (h : Option Row) (sp : Bool) (hpc : s.thr[t]? = some (.wrote r h)) :
      Step s (.dCas t sp) { s with thr := setPC s t (.start r) }

theorem step_sound {s s' : St} {a : Act} (h : step s a = some s') : Step s a s' := by
  cases a with
  | newBegin =>
    simp only [step] at h
    split at h
    · rename_i hc; cases h; exact Step.newBegin s hc.1
    · cases h
  | takeBegin =>
    simp only [step] at h
    split at h
    · rename_i hc; cases h; exact Step.takeBegin s hc.1
    · cases h
  | exchange =>
    simp only [step] at h
    split at h
    · rename_i b hb; cases h; exact Step.exchange s b hb
    · cases h
  | walk g =>
    simp only [step] at h
    split at h
    · rename_i b c hb hc; cases h; exact Step.walk s b c g hb hc
    · cases h
  | walkEnd =>
    simp only [step] at h
    split at h
    · rename_i b hb hc; cases h; exact Step.walkEnd s b hb hc
    · cases h
  | grow r g =>
    simp only [step] at h
    split at h
    · rename_i hc; cases h; exact Step.grow s r g hc.1 hc.2
    · cases h
  | alloc r g =>
    simp only [step] at h
    split at h
    · rename_i hc; cases h; exact Step.alloc s r g hc.1 hc.2
    · cases h
  | add r =>
    simp only [step] at h
    split at h
    · rename_i hc; cases h; exact Step.add s r hc.1 hc.2.2
    · cases h
  | extract i keep =>
    simp only [step] at h
    split at h
    · rename_i hc
      split at h
      · rename_i r hr; cases h; exact Step.extract s i keep r hc.1 hr
      · cases h
    · cases h
  | remove i keep g =>
    simp only [step] at h
    split at h
    · rename_i hc
      split at h
      · rename_i r hr; cases h; exact Step.remove s i keep g r hc.1 hr
      · cases h
    · cases h
  | handoff r t u =>
    simp only [step] at h
    split at h
    · rename_i hc; cases h; exact Step.handoff s r t u hc.1 hc.2
    · cases h
  | dBegin t r =>
    simp only [step] at h
    split at h
    · rename_i hc; cases h; exact Step.dBegin s t r hc.1 hc.2.2
    · cases h
  | dLoad t =>
    simp only [step] at h
    split at h
    · rename_i r hr; cases h; exact Step.dLoad s t r hr
    · cases h
  | dWrite t =>
    simp only [step] at h
    split at h
    · rename_i r hd hr; cases h; exact Step.dWrite s t r hd hr
    · cases h
  | dCas t sp =>
    simp only [step] at h
    split at h
    · rename_i r hd hr
      split at h
      · rename_i hc; cases h
        have : sp = false := hc.2
        subst this
        exact Step.dCasOk s t r hd hr hc.1
      · cases h; exact Step.dCasFail s t r hd sp hr
    · cases h


end Momo.Rows
