import Momo.Proof.SortBucket
/-!
  C17 lemmas, part 9: `RadixSorter::pvRadixSort` / `pvSort` / `Sort` (RadixSorter.h:71-182) sort their range,
  for every radix size `R ≥ 1`, every code width and every `groupFunc` meeting its contract - given a
  partition step meeting `PartSpec` (shown for the real in-place partition in `SortPartition.lean`).
-/
namespace Momo.Sort
variable {σ α : Type}

/-- contract of the partition step `pvRadixSort(begin, codeGetter, iterSwapper, shift, endIndexes)`: given the
cumulative radix counts it permutes the range into non-decreasing radix order -/
def PartSpec (abs : σ → List (α × Nat)) (ok : σ → Prop) (R : Nat) (Pt : PartFn σ) : Prop :=
  ∀ s pre seg post shift (E : Array Nat), Holds abs ok s (pre ++ seg ++ post) → E.size = 2 ^ R →
    (∀ q, q < 2 ^ R → cnt E q = seg.countP (fun x => decide (rad R shift x ≤ q))) →
    ∃ s' seg', Pt s pre.length seg.length shift E = some s' ∧ Holds abs ok s' (pre ++ seg' ++ post) ∧ seg'.Perm seg ∧
      seg'.Pairwise (fun x y => rad R shift x ≤ rad R shift y)

/-- all codes of the range agree above bit `k` -/
def HighEq (seg : List (α × Nat)) (k : Nat) : Prop := ∀ x ∈ seg, ∀ y ∈ seg, x.2 / 2 ^ k = y.2 / 2 ^ k

theorem HighEq.mono {seg : List (α × Nat)} {k k' : Nat} (h : HighEq seg k) (hk : k ≤ k') : HighEq seg k' := by
  intro x hx y hy
  have e : ∀ c : Nat, c / 2 ^ k' = c / 2 ^ k / 2 ^ (k' - k) := by
    intro c
    rw [Nat.div_div_eq_div_mul, ← Nat.pow_add, show k + (k' - k) = k' by omega]
  rw [e, e, h x hx y hy]

theorem HighEq.sub {seg seg' : List (α × Nat)} {k : Nat} (h : HighEq seg k) (hs : ∀ x ∈ seg', x ∈ seg) : HighEq seg' k :=
  fun x hx y hy => h x (hs x hx) y (hs y hy)

theorem HighEq.lower {seg : List (α × Nat)} {R shift : Nat} (h : HighEq seg (shift + R))
    (hr : ∀ x ∈ seg, ∀ y ∈ seg, rad R shift x = rad R shift y) : HighEq seg shift := by
  intro x hx y hy
  rw [shift_split R x.2 shift, shift_split R y.2 shift, h x hx y hy]
  have := hr x hx y hy
  unfold rad at this
  rw [this]

theorem nextShift_add (R shift : Nat) : shift ≤ nextShift R shift + R := by
  unfold nextShift; split <;> omega

theorem nextShift_lt (R shift : Nat) (hR : 0 < R) (hs : 0 < shift) : nextShift R shift < shift := by
  unfold nextShift; split <;> omega

theorem code_lt_of_rad_lt {R shift : Nat} {x y : α × Nat} (hhi : x.2 / 2 ^ (shift + R) = y.2 / 2 ^ (shift + R))
    (hr : rad R shift x < rad R shift y) : x.2 < y.2 := by
  apply Decidable.byContradiction
  intro hge
  have h1 : y.2 / 2 ^ shift ≤ x.2 / 2 ^ shift := Nat.div_le_div_right (by omega)
  rw [shift_split R x.2 shift, shift_split R y.2 shift, hhi] at h1
  unfold rad at hr
  omega

theorem sortedL_of_const {l : List (α × Nat)} (h : ∀ x ∈ l, ∀ y ∈ l, x.2 = y.2) : SortedL l := by
  unfold SortedL
  induction l with
  | nil => exact List.Pairwise.nil
  | cons a t ih =>
    rw [List.pairwise_cons]
    refine ⟨fun y hy => Nat.le_of_eq (h a (by simp) y (by simp [hy])), ih ?_⟩
    intro x hx y hy
    exact h x (by simp [hx]) y (by simp [hy])

section
variable {M : Mem σ α} {abs : σ → List (α × Nat)} {ok : σ → Prop} (L : Lawful M abs ok)
  {Q : α × Nat → Prop} {P : List (α × Nat) → Prop} {G : GroupFn σ} {Pt : PartFn σ} {R : Nat}
  (hG : GroupSpec abs ok Q P G) (hP : GoodP Q P) (hPt : PartSpec abs ok R Pt) (hR : 0 < R)
include L hG hP hPt hR

theorem radixSortF_spec :
    ∀ (fuel : Nat) (s : σ) (pre seg post : List (α × Nat)) (shift : Nat), shift < fuel →
      Holds abs ok s (pre ++ seg ++ post) → (∀ x ∈ seg, Q x) → 0 < seg.length → HighEq seg (shift + R) →
      ∃ s' seg', radixSortF M R G Pt fuel s pre.length seg.length shift = some s' ∧
        Holds abs ok s' (pre ++ seg' ++ post) ∧ SortPost P seg seg' := by
  intro fuel
  induction fuel with
  | zero => intro s pre seg post shift h; omega
  | succ f ih =>
    intro s pre seg post shift hf hh hQ hlen hhigh
    unfold radixSortF
    have h0 : ¬ seg.length = 0 := by omega
    simp only [h0, if_false]
    obtain ⟨x0, t, rfl⟩ : ∃ x0 t, seg = x0 :: t := by
      cases seg with
      | nil => simp at hlen
      | cons a t => exact ⟨a, t, rfl⟩
    have hc0 := L.code_at hh 0 (by simp)
    simp only [Nat.add_zero, List.getElem_cons_zero] at hc0
    rw [hc0]
    simp only [Option.bind_some]
    obtain ⟨E0, hE0, hsz0, hget0⟩ := incr_spec (Array.replicate (2 ^ R) 0) (getRadix R x0.2 shift)
      (by simp; exact getRadix_lt _ _ _)
    rw [hE0]
    simp only [Option.bind_some]
    obtain ⟨E, sc, sr, hcl, hEsz, hEcnt, hsc, hsr⟩ := countLoop_spec L pre post R shift x0.2 (getRadix R x0.2 shift) s (x0 :: t) hh
      ((x0 :: t).length - 1) 1 E0 true true (by simp only [List.length_cons, Nat.add_sub_cancel]; omega) (by simpa using hsz0)
      (by
        intro q
        rw [hget0, cnt_replicate, cnt_replicate]
        simp only [List.take_succ_cons, List.take_zero, List.countP_cons, List.countP_nil, rad]
        by_cases hq : q = getRadix R x0.2 shift
        · simp [hq]
        · have : ¬ getRadix R x0.2 shift = q := fun h => hq h.symm
          simp [hq, this])
      (by simp) (by simp [rad])
    rw [hcl]
    simp only [Option.bind_some]
    by_cases hscv : sc = true
    · -- singleCode: groupFunc on the whole range
      simp only [hscv, if_true]
      have hconst : ∀ x ∈ x0 :: t, ∀ y ∈ x0 :: t, x.2 = y.2 := by
        intro x hx y hy
        rw [hsc.1 hscv x hx, hsc.1 hscv y hy]
      obtain ⟨s', seg', g1, g2, g3, g4⟩ := hG s pre (x0 :: t) post hh hQ hconst
      refine ⟨s', seg', g1, g2, g3, ?_, g4⟩
      apply sortedL_of_const
      intro x hx y hy
      exact hconst x (g3.mem_iff.1 hx) y (g3.mem_iff.1 hy)
    · simp only [hscv, Bool.false_eq_true, if_false]
      by_cases hsrv : sr = true
      · -- singleRadix: same range, next digit
        simp only [hsrv, if_true]
        have hrad : ∀ x ∈ x0 :: t, ∀ y ∈ x0 :: t, rad R shift x = rad R shift y := by
          intro x hx y hy
          rw [hsr.1 hsrv x hx, hsr.1 hsrv y hy]
        have hlow : HighEq (x0 :: t) shift := hhigh.lower hrad
        have hs0 : ¬ shift = 0 := by
          intro h0'
          apply hscv
          apply hsc.2
          intro x hx
          have := hlow x hx x0 (by simp)
          rw [h0'] at this
          simpa using this
        simp only [hs0, if_false]
        exact ih s pre (x0 :: t) post (nextShift R shift) (by have := nextShift_lt R shift hR (by omega); omega)
          hh hQ hlen (hlow.mono (nextShift_add R shift))
      · simp only [hsrv, Bool.false_eq_true, if_false]
        obtain ⟨E', hE', hE'sz, hE'cnt⟩ := prefixSums_spec (x0 :: t) (rad R shift) (2 ^ R) (2 ^ R - 1) 1 E (by omega)
          (by have : 0 < 2 ^ R := Nat.pos_of_ne_zero (by simp)
              omega) hEsz
          (by
            intro q hq
            have : q = 0 := by omega
            subst this
            rw [hEcnt 0, countP_le_zero])
          (fun q _ => hEcnt q)
        rw [hE']
        simp only [Option.bind_some]
        obtain ⟨s1, seg1, hp1, hh1, hperm1, hpw1⟩ := hPt s pre (x0 :: t) post shift E' hh hE'sz hE'cnt
        rw [hp1]
        simp only [Option.bind_some]
        have hmem1 : ∀ x ∈ seg1, x ∈ x0 :: t := fun x hx => hperm1.mem_iff.1 hx
        have hflat : (classes (rad R shift) seg1 (2 ^ R)).flatten = seg1 :=
          flatten_classes (rad R shift) (2 ^ R) seg1 hpw1 (fun x _ => getRadix_lt _ _ _)
        have hends : E'.toList = ends ([] : List (α × Nat)).length (classes (rad R shift) seg1 (2 ^ R)) := by
          apply toList_eq_ends (rad R shift) seg1 (2 ^ R) E' hE'sz
          intro q hq
          rw [hE'cnt q hq]
          exact (hperm1.countP_eq _).symm
        have hh1' : Holds abs ok s1 (pre ++ ([] ++ (classes (rad R shift) seg1 (2 ^ R)).flatten) ++ post) := by
          rw [hflat]; simpa using hh1
        have hbucket : ∀ b ∈ classes (rad R shift) seg1 (2 ^ R),
            (∀ x ∈ b, x ∈ x0 :: t) ∧ (∀ x ∈ b, ∀ y ∈ b, rad R shift x = rad R shift y) := by
          intro b hb
          unfold classes at hb
          obtain ⟨q, _, rfl⟩ := List.mem_map.1 hb
          refine ⟨fun x hx => hmem1 x (List.mem_filter.1 hx).1, ?_⟩
          intro x hx y hy
          have h1 := (List.mem_filter.1 hx).2
          have h2 := (List.mem_filter.1 hy).2
          simp only [beq_iff_eq] at h1 h2
          rw [h1, h2]
        have hstrict : (classes (rad R shift) seg1 (2 ^ R)).Pairwise (fun b1 b2 => ∀ x ∈ b1, ∀ y ∈ b2, x.2 < y.2) := by
          unfold classes
          rw [List.pairwise_map]
          apply List.Pairwise.imp _ (List.pairwise_lt_range (n := 2 ^ R))
          intro q q' hqq x hx y hy
          have h1 := List.mem_filter.1 hx
          have h2 := List.mem_filter.1 hy
          simp only [beq_iff_eq] at h1 h2
          exact code_lt_of_rad_lt (hhigh x (hmem1 x h1.1) y (hmem1 y h2.1)) (by rw [h1.2, h2.2]; exact hqq)
        have hQb : ∀ b ∈ classes (rad R shift) seg1 (2 ^ R), ∀ x ∈ b, Q x :=
          fun b hb x hx => hQ x ((hbucket b hb).1 x hx)
        have finish : ∀ (fn : σ → Nat → Nat → Option σ),
            (∀ b ∈ classes (rad R shift) seg1 (2 ^ R), ∀ (s : σ) (pre' post' : List (α × Nat)), Holds abs ok s (pre' ++ b ++ post') →
              ∃ s' b', fn s pre'.length b.length = some s' ∧ Holds abs ok s' (pre' ++ b' ++ post') ∧ SortPost P b b') →
            ∃ s' seg', bucketLoop fn pre.length E'.toList s1 0 = some s' ∧
              Holds abs ok s' (pre ++ seg' ++ post) ∧ SortPost P (x0 :: t) seg' := by
          intro fn hfn
          obtain ⟨s2, bs', g1, g2, g3⟩ := bucketLoop_spec pre post fn (SortPost P) (fun b b' h => h.1.length_eq)
            (classes (rad R shift) seg1 (2 ^ R)) s1 [] hh1' hfn
          rw [← hends] at g1
          obtain ⟨p1, p2, p3⟩ := sortPost_flatten hP _ _ g3 hstrict hQb
          rw [hflat] at p1
          exact ⟨s2, bs'.flatten, g1, by simpa using g2, p1.trans hperm1, p2, p3⟩
        by_cases hsp : shift > 0
        · simp only [hsp, if_true]
          apply finish
          intro b hb s' pre' post' hhb
          obtain ⟨hbm, hbr⟩ := hbucket b hb
          apply pvSortWith_spec L hG hP pre' post' R _ s' b hhb (hQb b hb)
          intro h2 _
          exact ih s' pre' b post' (nextShift R shift) (by have := nextShift_lt R shift hR hsp; omega) hhb (hQb b hb) (by omega)
            (((hhigh.sub hbm).lower hbr).mono (nextShift_add R shift))
        · simp only [hsp, if_false]
          apply finish
          intro b hb s' pre' post' hhb
          obtain ⟨hbm, hbr⟩ := hbucket b hb
          have hconst : ∀ x ∈ b, ∀ y ∈ b, x.2 = y.2 := by
            intro x hx y hy
            have := ((hhigh.sub hbm).lower hbr) x hx y hy
            rw [show shift = 0 by omega] at this
            simpa using this
          obtain ⟨s'', b', g1, g2, g3, g4⟩ := hG s' pre' b post' hhb (hQb b hb) hconst
          refine ⟨s'', b', g1, g2, g3, ?_, g4⟩
          apply sortedL_of_const
          intro x hx y hy
          exact hconst x (g3.mem_iff.1 hx) y (g3.mem_iff.1 hy)

/-- **`RadixSorter<R>::Sort`** with a partition step meeting its contract: the whole sequence becomes a
sorted permutation of itself on which `groupFunc` has established `P`; no access leaves the sequence. -/
theorem radixSorterSortWith_spec (W : Nat) (s : σ) (l : List (α × Nat)) (hh : Holds abs ok s l)
    (hQ : ∀ x ∈ l, Q x) (hW : ∀ x ∈ l, x.2 < 2 ^ W) :
    ∃ s' l', radixSorterSortWith M R W G Pt s l.length = some s' ∧ Holds abs ok s' l' ∧ SortPost P l l' := by
  unfold radixSorterSortWith
  have hh' : Holds abs ok s ([] ++ l ++ []) := by simpa using hh
  obtain ⟨s', l', g1, g2, g3⟩ := pvSortWith_spec L hG hP [] [] R
    (fun s b n => radixSortF M R G Pt ((if W > R then W - R else 0) + 1) s b n (if W > R then W - R else 0)) s l hh' hQ
    (by
      intro h2 _
      apply radixSortF_spec L hG hP hPt hR _ s [] l [] _ (by omega) hh' hQ (by omega)
      intro x hx y hy
      have hk : W ≤ (if W > R then W - R else 0) + R := by split <;> omega
      have e : ∀ c : Nat, c < 2 ^ W → c / 2 ^ ((if W > R then W - R else 0) + R) = 0 := by
        intro c hc
        apply Nat.div_eq_of_lt
        exact Nat.lt_of_lt_of_le hc (Nat.pow_le_pow_right (by omega) hk)
      rw [e _ (hW x hx), e _ (hW y hy)])
  exact ⟨s', l', by simpa using g1, by simpa using g2, g3⟩

end

end Momo.Sort
