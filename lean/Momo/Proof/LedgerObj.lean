import Momo.Proof.LedgerOnce
import Momo.Proof.ObjMain
/-!
  The construction / destruction traces of the object life-cycle model (`Momo.Obj`, ObjectManager.h) read as ledger
  events: `Obj.replay` (the well-formedness check used by C04's theorems) and the C03 monitor agree on every trace,
  so every trace proved `TraceOK` is accepted by the ledger and leaves exactly the objects of the final memory alive.
-/
namespace Momo.Ledger

/-- an `Obj` event as a ledger event; element identity = cell address -/
def ofObj : Obj.Ev → Ev Nat
  | .ctor a => .construct a
  | .dtor a => .destroy a
  | .reloc s d => .relocate s d
  | .use a => .use a

/-- the ledger state `s` has exactly the occupied cells of `occ` alive -/
def Represents (s : St Nat) (occ : Nat → Bool) : Prop := ∀ a, memE a s.elems = occ a

/-- `Obj.replay` and the monitor agree, event by event, on every trace and every start occupancy -/
theorem replay_agrees (evs : List Obj.Ev) : ∀ (occ : Nat → Bool) (s : St Nat), Represents s occ →
    match Obj.replay occ evs with
    | some occ' => ∃ s', run s (evs.map ofObj) = some s' ∧ s'.blocks = s.blocks ∧ Represents s' occ'
    | none => run s (evs.map ofObj) = none := by
  induction evs with
  | nil => intro occ s h; exact ⟨s, rfl, rfl, h⟩
  | cons ev r ih =>
    intro occ s h
    cases ev with
    | ctor a =>
      simp only [Obj.replay, List.map, ofObj, run, step]
      have ha := h a
      cases hocc : occ a
      · rw [hocc] at ha
        simp only [ha, Bool.false_eq_true, if_false]
        exact ih _ _ (fun x => by
          by_cases hx : x = a
          · subst hx; simp [memE]
          · have hx' : ¬ a = x := fun h => hx h.symm
            simp [memE, hx, hx', h x])
      · rw [hocc] at ha; simp [ha]
    | dtor a =>
      simp only [Obj.replay, List.map, ofObj, run, step]
      have ha := h a
      cases hocc : occ a
      · rw [hocc] at ha; simp [ha]
      · rw [hocc] at ha
        simp only [ha, if_true]
        exact ih _ _ (fun x => by
          by_cases hx : x = a
          · subst hx; simp [memE_eraseE]
          · have hx' : ¬ a = x := fun h => hx h.symm
            simp [memE_eraseE, hx, hx', h x])
    | reloc a d =>
      simp only [Obj.replay, List.map, ofObj, run, step]
      have ha := h a
      have hd := h d
      by_cases had : a = d
      · subst had; simp
      · cases hoa : occ a
        · rw [hoa] at ha; simp [had, ha]
        · rw [hoa] at ha
          cases hod : occ d
          · rw [hod] at hd
            simp only [had, ha, hd, if_false, Bool.not_true, Bool.false_eq_true, Bool.true_and, Bool.not_false,
              bne_iff_ne, ne_eq, not_false_eq_true, Bool.and_self, if_true]
            have := ih (fun x => if x = d then true else if x = a then false else occ x)
              { s with elems := d :: eraseE a s.elems }
              (fun x => by
                by_cases hx : x = d
                · subst hx; simp [memE]
                · have hx' : ¬ d = x := fun h => hx h.symm
                  by_cases hx2 : x = a
                  · subst hx2; simp [memE, memE_eraseE, hx, hx']
                  · have hx2' : ¬ a = x := fun h => hx2 h.symm
                    simp [memE, memE_eraseE, hx, hx', hx2, hx2', h x])
            simpa [bne_iff_ne, had] using this
          · rw [hod] at hd; simp [had, ha, hd]
    | use a =>
      simp only [Obj.replay, List.map, ofObj, run, step]
      have ha := h a
      cases hocc : occ a
      · rw [hocc] at ha; simp [ha]
      · rw [hocc] at ha
        simp only [ha, if_true]
        exact ih _ _ h

/-- a trace that `Obj` proves well-formed (`TraceOK`) is accepted by the ledger monitor and leaves exactly the
    objects of the final memory alive -/
theorem traceOK_accepted {occ0 : Nat → Bool} {st : Obj.St} (ht : Obj.TraceOK occ0 st) {s : St Nat}
    (hs : Represents s occ0) :
    ∃ s', run s (st.evs.map ofObj) = some s' ∧ s'.blocks = s.blocks ∧ Represents s' (Obj.occOf st.mem) := by
  have := replay_agrees st.evs occ0 s hs
  unfold Obj.TraceOK at ht
  rw [ht] at this
  exact this

end Momo.Ledger
