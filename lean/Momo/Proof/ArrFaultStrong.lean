import Momo.Proof.ArrFault
/-!
  C04, lemmas part 2: the operations of `momo::Array` documented as strongly exception-safe (AddBack*, SetCount,
  Reserve, Shrink, copy construction, copy assignment) under every fault schedule: success with the state of the
  fault-free model `Momo.Arr`, or an exception with array and ledger exactly as before.
-/
namespace Momo.ArrF
set_option linter.unusedSimpArgs false
set_option linter.unusedVariables false
open Momo Momo.Arr
open FM (throw tryCatch)
variable {α β γ : Type}

/-- the ledger is exactly what the array owns, plus `k` other objects and the blocks `rest` -/
structure Owns (cfg : Cfg) (rest : List Nat) (k : Nat) (x : Sys α) : Prop where
  frame : Frame cfg rest x
  objs : x.objs = x.arr.cells.length + k
  good : x.bad = false

@[simp] theorem ownBlocks_cells (cfg : Cfg) (s : State α) (cs : Cells α) :
    ownBlocks cfg { s with cells := cs } = ownBlocks cfg s := rfl

theorem taken_length (keeps mv : Bool) (a : Cells α) (r : Ref α) : (r.taken keeps mv a).length = a.length := by
  unfold Ref.taken Ref.moveFrom
  split
  · cases r <;> simp
  · rfl

theorem moveFrom_length (keeps : Bool) (a : Cells α) (r : Ref α) : (r.moveFrom keeps a).length = a.length := by
  unfold Ref.moveFrom
  cases r <;> simp

/-- outcome of an operation with the strong guarantee -/
def Strong (cfg : Cfg) (rest : List Nat) (k : Nat) (m : FM α Unit) (x : Sys α) (s' : State α) : Prop :=
  Post m x (fun _ y => y.arr = s' ∧ Frame cfg rest y ∧ y.objs = s'.cells.length + k ∧ y.bad = false)
    (fun y => y.core = x.core)

theorem addBackNogrowF_strong (cfg : Cfg) (rest : List Nat) (k : Nat) (b : Bool) (f : Cells α → Cells α) (x : Sys α)
    (o : Owns cfg rest k x) (hf : (f x.arr.cells).length = x.arr.cells.length + 1) :
    Strong cfg rest k (addBackNogrowF b f) x { x.arr with cells := f x.arr.cells } := by
  unfold Strong addBackNogrowF
  apply Post.bind' _ _ (construct_spec b x) (fun _ h => h)
  intro _ y hy
  simp only [core_eq_mk, core_arr, core_blocks, core_bad] at hy
  obtain ⟨ya, yb, yo, ybad⟩ := hy
  simp only [post_modifyCells, ya, true_and]
  refine ⟨?_, ?_, ybad.trans o.good⟩
  · have := o.frame
    unfold Frame at *
    simp only [ownBlocks_cells, ya]
    exact yb.trans this
  · simp only [hf, yo, o.objs]; omega

/-- `RelocateCreate` as the items creator of `pvAddBackGrow` -/
theorem relocateCreate_creator (cfg : Cfg) (thr : Thr) (mv : Bool) (item : Ref α) (x : Sys α) :
    ∀ z : Sys α, z.arr = x.arr → z.objs = x.objs → z.bad = x.bad →
      Post (relocateCreateF cfg thr mv item) z
        (fun cs z' => cs = (if cfg.nothrowReloc then (item.taken cfg.keeps mv x.arr.cells) ++ [item.read x.arr.cells]
            else x.arr.cells ++ [item.read x.arr.cells]) ∧
          z'.arr = z.arr ∧ z'.blocks = z.blocks ∧ z'.objs = z.objs + 1 ∧ z'.bad = z.bad)
        (fun z' => z'.core = z.core) := by
  intro z ha _ _
  unfold relocateCreateF
  simp only [post_getArr_bind]
  split
  · rename_i hnr
    apply Post.bind' _ _ (construct_spec _ z) (fun _ h => h)
    intro _ y hy
    simp only [core_eq_mk, core_arr, core_blocks, core_bad] at hy
    simp only [post_pure, ha, true_and]
    exact ⟨hy.1.trans ha, hy.2⟩
  · rename_i hnr
    apply Post.bind _ (Post.mono (ctorLoop_spec0 thr.copy z.arr.cells.length z) (fun _ _ h => h) (fun _ h => h.elim))
    rintro ⟨n, f⟩ y ⟨h2, h3, ya, yb, yo, ybad⟩
    simp only at h2 h3 yo
    cases f
    · have hn : n = z.arr.cells.length := h3 rfl
      subst hn
      simp only [Bool.false_eq_true, ↓reduceIte]
      apply Post.bind (fun _ u => u.core = { y.core with objs := y.objs + 1 })
      · apply Post.tryCatch _ (construct_spec _ y)
        intro u hu
        simp only [core_eq_iff] at hu
        obtain ⟨ua, ub, uo, ubad⟩ := hu
        simp only [post_undo, core_eq_iff, ua, ub, uo, ubad, ya, yb, yo, ybad, true_and]
        exact ⟨by ledger, by ledger⟩
      · intro _ u hu
        simp only [core_eq_mk, core_arr, core_blocks, core_bad] at hu
        obtain ⟨ua, ub, uo, ubad⟩ := hu
        simp only [post_destroyObjs_bind, post_pure, ua, ub, uo, ubad, ya, yb, yo, ybad, true_and, ha]
        exact ⟨by ledger, by ledger⟩
    · simp only [↓reduceIte, post_undo, core_eq_iff, ya, yb, yo, ybad, true_and]
      exact ⟨by ledger, by ledger⟩

theorem frame_of_eq {cfg : Cfg} {rest : List Nat} {x y : Sys α} (h : Frame cfg rest x) (ha : y.arr = x.arr)
    (hb : y.blocks = x.blocks) : Frame cfg rest y := by
  unfold Frame at *; rw [ha, hb, h]

theorem addBackGrowCrtF_strong (cfg : Cfg) (thr : Thr) (rest : List Nat) (k : Nat) (mv : Bool) (item : Ref α) (x : Sys α)
    (w : WF cfg x.arr) (o : Owns cfg rest k x) (hfull : ¬ x.arr.cells.length < capacity cfg x.arr) :
    Strong cfg rest k (addBackGrowCrtF cfg thr mv item) x (addBackGrowCrt cfg x.arr mv item).1 := by
  unfold Strong addBackGrowCrtF addBackGrowCrt
  simp only [post_getArr_bind]
  have hge := growCapacity_ge cfg.growOnReserve (capacity cfg x.arr) (x.arr.cells.length + 1) false false
  have hcap := w.cap_ge
  have := resetF_spec cfg (growCapacity cfg.growOnReserve (capacity cfg x.arr) (x.arr.cells.length + 1) false false)
    (relocateCreateF cfg thr mv item) x rest _ 1 w o.frame (fun h _ => by omega) (fun h _ => by omega)
    (relocateCreate_creator cfg thr mv item x)
  apply Post.mono this _ (fun _ h => h)
  rintro _ y ⟨ya, yf, yo, ybad⟩
  refine ⟨ya, yf, ?_, ybad.trans o.good⟩
  rw [yo, o.objs, reset_cells]
  · split <;> simp [taken_length] <;> omega
  · intro h; omega

theorem addBackCrtF_strong (cfg : Cfg) (thr : Thr) (rest : List Nat) (k : Nat) (mv : Bool) (item : Ref α) (x : Sys α)
    (w : WF cfg x.arr) (o : Owns cfg rest k x) :
    Strong cfg rest k (addBackCrtF cfg thr mv item) x (addBackCrt cfg x.arr mv item).1 := by
  unfold addBackCrtF addBackCrt
  unfold Strong
  simp only [post_getArr_bind]
  split
  · exact addBackNogrowF_strong cfg rest k _ _ x o (by simp [taken_length])
  · rename_i h
    exact addBackGrowCrtF_strong cfg thr rest k mv item x w o h

theorem addBackCopyF_strong (cfg : Cfg) (thr : Thr) (rest : List Nat) (k : Nat) (item : Ref α) (x : Sys α)
    (w : WF cfg x.arr) (o : Owns cfg rest k x) :
    Strong cfg rest k (addBackCopyF cfg thr item) x (addBackCopy cfg x.arr item).1 := by
  unfold addBackCopyF addBackCopy
  unfold Strong
  simp only [post_getArr_bind]
  split
  · exact addBackNogrowF_strong cfg rest k _ _ x o (by simp)
  · rename_i hfull
    split
    · apply Post.bind' _ _ (construct_spec thr.copy x) (fun _ h => h)
      intro _ y hy
      simp only [core_eq_mk, core_arr, core_blocks, core_bad] at hy
      obtain ⟨ya, yb, yo, ybad⟩ := hy
      have hg := growF_spec cfg thr (x.arr.cells.length + 1) false y rest (ya ▸ w) (frame_of_eq o.frame ya yb)
        (by rw [ya]; omega)
      apply Post.bind (fun _ z => z.arr = (grow cfg x.arr (x.arr.cells.length + 1) false).1 ∧ Frame cfg rest z ∧
        z.objs = x.objs + 1 ∧ z.bad = x.bad)
      · apply Post.tryCatch (fun z => z.core = y.core) (Post.mono hg _ (fun _ h => h))
        · intro z hz
          simp only [core_eq_iff] at hz
          obtain ⟨za, zb, zo, zbad⟩ := hz
          simp only [post_undo, core_eq_iff, za, zb, zo, zbad, ya, yb, yo, ybad, true_and]
          exact ⟨by ledger, by ledger⟩
        · rintro _ z ⟨za, zf, zo, zbad⟩
          rw [ya] at za
          exact ⟨za, zf, by omega, zbad.trans ybad⟩
      · rintro _ z ⟨za, zf, zo, zbad⟩
        simp only [post_modifyCells, withCells, za, true_and]
        refine ⟨?_, ?_, zbad.trans o.good⟩
        · unfold Frame at *; simp only [ownBlocks_cells]; rw [zf, za]
        · have := grow_cells cfg x.arr (x.arr.cells.length + 1) false (by omega)
          simp only [List.length_append, this, List.length_cons, List.length_nil, zo, o.objs]; omega
    · exact addBackGrowCrtF_strong cfg thr rest k false item x w o hfull

theorem addBackMoveF_strong (cfg : Cfg) (thr : Thr) (rest : List Nat) (k : Nat) (item : Ref α) (x : Sys α)
    (w : WF cfg x.arr) (o : Owns cfg rest k x) :
    Strong cfg rest k (addBackMoveF cfg thr item) x (addBackMoveOp cfg x.arr item).1 := by
  unfold addBackMoveF addBackMoveOp
  unfold Strong
  simp only [post_getArr_bind]
  split
  · exact addBackNogrowF_strong cfg rest k _ _ x o (by simp [moveFrom_length])
  · rename_i hfull
    split
    · rename_i hnm
      have hg := growF_spec cfg thr (x.arr.cells.length + 1) false x rest w o.frame (by omega)
      apply Post.bind' _ _ hg (fun _ h => h)
      rintro _ y ⟨ya, yf, yo, ybad⟩
      have hmv : mvThrows cfg thr = false := by simp [mvThrows, hnm]
      rw [hmv]
      apply Post.bind' _ _ (construct_false_spec y) (fun _ h => h.elim)
      · intro _ z hz
        simp only [core_eq_mk, core_arr, core_blocks, core_bad] at hz
        obtain ⟨za, zb, zo, zbad⟩ := hz
        simp only [post_modifyCells, withCells, za, ya, true_and]
        refine ⟨?_, ?_, (zbad.trans ybad).trans o.good⟩
        · unfold Frame at *; simp only [ownBlocks_cells]; rw [zb, yf, ya]
        · have := grow_cells cfg x.arr (x.arr.cells.length + 1) false (by omega)
          simp only [List.length_append, moveFrom_length, this, List.length_cons, List.length_nil, zo, yo, o.objs]; omega
    · exact addBackGrowCrtF_strong cfg thr rest k true item x w o hfull

/-- the items creator of `SetCountCrt` (growing with reallocation) -/
theorem setCount_creator (cfg : Cfg) (thr : Thr) (extra : Nat) (c : Cell α) (x : Sys α) :
    ∀ z : Sys α, z.arr = x.arr → z.objs = x.objs → z.bad = x.bad →
      Post (setCountCreatorF cfg thr extra c) z
        (fun cs z' => cs = x.arr.cells ++ List.replicate extra c ∧
          z'.arr = z.arr ∧ z'.blocks = z.blocks ∧ z'.objs = z.objs + extra ∧ z'.bad = z.bad)
        (fun z' => z'.core = z.core) := by
  intro z ha _ _
  unfold setCountCreatorF
  apply Post.bind _ (Post.mono (ctorLoop_spec0 thr.copy extra z) (fun _ _ h => h) (fun _ h => h.elim))
  rintro ⟨n, f⟩ y ⟨h2, h3, ya, yb, yo, ybad⟩
  simp only at h2 h3 yo
  cases f
  · have hn : n = extra := h3 rfl
    subst hn
    simp only [Bool.false_eq_true, ↓reduceIte]
    apply Post.bind (fun cs u => cs = x.arr.cells ∧ u.core = y.core)
    · apply Post.tryCatch (fun u => u.core = y.core) (Post.mono (relocateF_spec cfg thr y) _ (fun _ h => h))
      · intro u hu
        simp only [core_eq_iff] at hu
        obtain ⟨ua, ub, uo, ubad⟩ := hu
        simp only [post_undo, core_eq_iff, ua, ub, uo, ubad, ya, yb, yo, ybad, true_and]
        exact ⟨by ledger, by ledger⟩
      · rintro cs u ⟨h1, h2⟩
        exact ⟨by rw [h1, ya, ha], h2⟩
    · rintro cs u ⟨rfl, hu⟩
      simp only [core_eq_iff] at hu
      obtain ⟨ua, ub, uo, ubad⟩ := hu
      simp only [post_pure, true_and]
      exact ⟨ua.trans ya, ub.trans yb, uo.trans yo, ubad.trans ybad⟩
  · simp only [↓reduceIte, post_undo, core_eq_iff, ya, yb, yo, ybad, true_and]
    exact ⟨by ledger, by ledger⟩

theorem setCountF_strong (cfg : Cfg) (thr : Thr) (rest : List Nat) (k : Nat) (count : Nat) (item : Ref α) (x : Sys α)
    (w : WF cfg x.arr) (o : Owns cfg rest k x) :
    Strong cfg rest k (setCountF cfg thr count item) x (setCount cfg x.arr count item).1 := by
  unfold setCountF setCount
  unfold Strong
  simp only [post_getArr_bind]
  split
  · rename_i hle
    simp only [post_destroyObjs_bind, post_setArr, removeBack, true_and]
    refine ⟨?_, ?_, ?_⟩
    · have := o.frame; unfold Frame at *; simpa using this
    · simp only [List.length_take, o.objs]; omega
    · have h1 := o.good; have h2 := o.objs
      simp only [h1, Bool.false_or, decide_eq_false_iff_not]; omega
  · rename_i hgt
    split
    · rename_i hcap
      apply Post.bind _ (Post.mono (ctorLoop_spec0 thr.copy (count - x.arr.cells.length) x) (fun _ _ h => h) (fun _ h => h.elim))
      rintro ⟨n, f⟩ y ⟨h2, h3, ya, yb, yo, ybad⟩
      simp only at h2 h3 yo
      cases f
      · have hn : n = count - x.arr.cells.length := h3 rfl
        subst hn
        simp only [Bool.false_eq_true, ↓reduceIte, post_modifyCells, ya, true_and]
        refine ⟨?_, ?_, ybad.trans o.good⟩
        · have := o.frame; unfold Frame at *; simp only [ownBlocks_cells]; rw [yb, this]
        · simp only [List.length_append, List.length_replicate, yo, o.objs]; omega
      · simp only [↓reduceIte, post_undo, core_eq_iff, ya, yb, yo, ybad, true_and]
        exact ⟨by ledger, by ledger⟩
    · rename_i hcap
      have hge := growCapacity_ge cfg.growOnReserve (capacity cfg x.arr) count true false
      have hcg := w.cap_ge
      have := resetF_spec cfg (growCapacity cfg.growOnReserve (capacity cfg x.arr) count true false)
        (setCountCreatorF cfg thr (count - x.arr.cells.length) (item.read x.arr.cells)) x rest _ (count - x.arr.cells.length)
        w o.frame (fun h _ => by omega) (fun h _ => by omega) (setCount_creator cfg thr _ _ x)
      apply Post.mono this _ (fun _ h => h)
      rintro _ y ⟨ya, yf, yo, ybad⟩
      refine ⟨ya, yf, ?_, ybad.trans o.good⟩
      rw [yo, o.objs, reset_cells]
      · simp only [List.length_append, List.length_replicate]; omega
      · intro h; omega

theorem reserveF_strong (cfg : Cfg) (thr : Thr) (rest : List Nat) (k : Nat) (n : Nat) (x : Sys α)
    (w : WF cfg x.arr) (o : Owns cfg rest k x) :
    Strong cfg rest k (reserveF cfg thr n) x (reserve cfg x.arr n).1 := by
  unfold reserveF reserve
  unfold Strong
  simp only [post_getArr_bind]
  split
  · rename_i h
    apply Post.mono (growF_spec cfg thr n true x rest w o.frame h) _ (fun _ h => h)
    rintro _ y ⟨ya, yf, yo, ybad⟩
    refine ⟨ya, yf, ?_, ybad.trans o.good⟩
    rw [yo, o.objs, grow_cells]
    have := w.count_le; omega
  · simp only [post_pure, true_and]
    exact ⟨o.frame, o.objs, o.good⟩

theorem shrinkF_strong (cfg : Cfg) (thr : Thr) (rest : List Nat) (k : Nat) (n : Nat) (x : Sys α)
    (w : WF cfg x.arr) (o : Owns cfg rest k x) :
    Strong cfg rest k (shrinkF cfg thr n) x (shrink cfg x.arr n).1 := by
  unfold shrinkF shrink
  unfold Strong
  simp only [post_getArr_bind]
  split
  · simp only [post_pure, true_and]
    exact ⟨o.frame, o.objs, o.good⟩
  · rename_i h
    simp only [Bool.or_eq_true, decide_eq_true_eq, not_or] at h
    have hcg := w.cap_ge
    apply Post.mono (moveToF_spec cfg thr _ _ x rest w o.frame (fun _ _ => by omega)) _ (fun _ h => h)
    rintro _ y ⟨ya, yf, yo, ybad⟩
    refine ⟨ya, yf, ?_, ybad.trans o.good⟩
    rw [yo, o.objs, moveTo_cells]
    intro h0
    have : x.arr.cells.length ≤ Nat.max n x.arr.cells.length := Nat.le_max_right _ _
    have : x.arr.cells.length = 0 := by omega
    exact List.eq_nil_of_length_eq_zero this

/-! ### constructors and copy assignment -/

theorem own_newCap (cfg : Cfg) (n : Nat) : ownBlocks cfg (newCap cfg n : State α × List Ev).1 = if n > cfg.intCap then [n] else [] := by
  unfold newCap
  split
  · rename_i h; apply own_of_gt; simp [capacity]; exact h
  · apply own_of_le
    simp only [State.init, capacity]
    by_cases h : cfg.intCap > 0 <;> simp [h]

theorem newCapF_spec (cfg : Cfg) (n : Nat) (x : Sys α) :
    Post (newCapF cfg n) x
      (fun _ y => y.arr = (newCap cfg n).1 ∧ y.blocks = ownBlocks cfg y.arr ++ x.blocks ∧ y.objs = x.objs ∧ y.bad = x.bad)
      (fun y => y.blocks = x.blocks ∧ y.objs = x.objs ∧ y.bad = x.bad) := by
  unfold newCapF
  split
  · rename_i h
    apply Post.bind' _ _ (allocB_spec n x)
    · intro y hy
      simp only [core_eq_iff] at hy
      exact hy.2
    · intro _ y hy
      simp only [core_eq_mk, core_arr, core_blocks, core_bad] at hy
      obtain ⟨ya, yb, yo, ybad⟩ := hy
      have h1 : (newCap cfg n : State α × List Ev).1 = { cells := [], cap := n, internal := false } := by simp [newCap, h]
      have h2 := own_newCap (α := α) cfg n
      rw [h1] at h2
      simp only [post_setArr, h1, h2, h, ↓reduceIte, true_and]
      exact ⟨by simp [yb], yo, ybad⟩
  · rename_i h
    have h1 : (newCap cfg n : State α × List Ev).1 = State.init cfg := by simp [newCap, h]
    have h2 := own_newCap (α := α) cfg n
    rw [h1] at h2
    simp only [post_setArr, h1, h2, h, ↓reduceIte, true_and]
    simp

/-- the loop of `AddBackNogrow` in a constructor body: storage and ledger move together -/
theorem copyAllF_spec (thr : Thr) : ∀ (cs : List (Cell α)) (x : Sys α),
    Post (copyAllF thr cs) x
      (fun _ y => y.arr = { x.arr with cells := x.arr.cells ++ cs } ∧ y.blocks = x.blocks ∧
        y.objs = x.objs + cs.length ∧ y.bad = x.bad)
      (fun y => y.arr.cap = x.arr.cap ∧ y.arr.internal = x.arr.internal ∧ y.blocks = x.blocks ∧
        y.objs + x.arr.cells.length = x.objs + y.arr.cells.length ∧ y.bad = x.bad)
  | [], x => by simp [copyAllF]
  | c :: cs, x => by
    unfold copyAllF addBackNogrowF
    simp only [post_bind_assoc]
    apply Post.bind' _ _ (construct_spec thr.copy x)
    · intro y hy
      simp only [core_eq_iff] at hy
      obtain ⟨ya, yb, yo, ybad⟩ := hy
      rw [ya]
      exact ⟨rfl, rfl, yb, by omega, ybad⟩
    · intro _ y hy
      simp only [core_eq_mk, core_arr, core_blocks, core_bad] at hy
      obtain ⟨ya, yb, yo, ybad⟩ := hy
      simp only [post_modifyCells_bind]
      apply Post.mono (copyAllF_spec thr cs _)
      · rintro _ z ⟨za, zb, zo, zbad⟩
        simp only [ya] at za zb zo zbad
        refine ⟨?_, zb.trans yb, ?_, zbad.trans ybad⟩
        · rw [za]; simp
        · rw [zo, yo]; simp; omega
      · rintro z ⟨z1, z2, zb, zo, zbad⟩
        simp only [ya, List.length_append, List.length_cons, List.length_nil] at z1 z2 zb zo zbad
        exact ⟨z1, z2, zb.trans yb, by omega, zbad.trans ybad⟩

/-- outcome of a constructor: the new object with exactly its storage and items added to the ledger, or nothing -/
theorem newFromF_spec (cfg : Cfg) (thr : Thr) (cap0 : Nat) (xs : List (Cell α)) (x : Sys α) :
    Post (newFromF cfg thr cap0 xs) x
      (fun _ y => y.arr = (withCells (newCap cfg cap0) (fun _ => xs)).1 ∧ y.blocks = ownBlocks cfg y.arr ++ x.blocks ∧
        y.objs = x.objs + xs.length ∧ y.bad = x.bad)
      (fun y => y.blocks = x.blocks ∧ y.objs = x.objs ∧ y.bad = x.bad) := by
  unfold newFromF
  apply Post.bind' _ _ (newCapF_spec cfg cap0 x) (fun _ h => h)
  rintro _ y ⟨ya, yb, yo, ybad⟩
  have hc0 : y.arr.cells = [] := by
    rw [ya]; unfold newCap; split <;> rfl
  apply Post.tryCatch _ (Post.mono (copyAllF_spec thr xs y) _ (fun _ h => h))
  · rintro z ⟨z1, z2, zb, zo, zbad⟩
    unfold destroyDataF
    simp only [post_bind_assoc, post_getArr_bind, post_destroyObjs_bind]
    have hown : ownBlocks cfg z.arr = ownBlocks cfg y.arr := by
      unfold ownBlocks capacity; rw [z1, z2]
    rw [hc0] at zo
    simp only [List.length_nil, Nat.add_zero] at zo
    split
    · rename_i hgt
      have hz : ownBlocks cfg z.arr = [z.arr.cap] := own_of_gt hgt
      simp only [post_bind_assoc, post_deallocB_bind, post_setArr_bind, post_throw]
      rw [zb, yb, ← hown, hz]
      refine ⟨by simp, by omega, ?_⟩
      rw [zbad, ybad]; simp; omega
    · rename_i hle
      have hz : ownBlocks cfg z.arr = [] := own_of_le (by omega)
      simp only [post_setArr_bind, post_throw]
      rw [zb, yb, ← hown, hz]
      refine ⟨by simp, by omega, ?_⟩
      rw [zbad, ybad]; simp; omega
  · rintro _ z ⟨za, zb, zo, zbad⟩
    have hz : z.arr = (withCells (newCap cfg cap0) (fun _ => xs)).1 := by
      rw [za, hc0]; simp only [withCells, List.nil_append, ya]
    refine ⟨hz, ?_, by omega, zbad.trans ybad⟩
    rw [zb, yb, hz, ya]; rfl

theorem onTemp_spec (m : FM α Unit) (x : Sys α) (Q' : Unit → Sys α → Prop) (E' : Sys α → Prop)
    (h : Post m { x with arr := {} } Q' E') :
    Post (onTemp m) x (fun t y => ∃ y', Q' () y' ∧ t = y'.arr ∧ y = { y' with arr := x.arr })
      (fun y => ∃ y', E' y' ∧ y = { y' with arr := x.arr }) := by
  unfold Post at *
  dsimp only [onTemp] at *
  generalize m.run { x with arr := {} } = r at *
  obtain ⟨r, y⟩ := r
  cases r
  · exact ⟨y, h, rfl, rfl⟩
  · exact ⟨y, h, rfl⟩

theorem copyAssignF_strong (cfg : Cfg) (thr : Thr) (rest : List Nat) (k : Nat) (src : State α) (x : Sys α)
    (o : Owns cfg rest k x) :
    Strong cfg rest k (copyAssignF cfg thr src) x (copyAssign cfg x.arr src).1 := by
  unfold copyAssignF Strong
  have hn := newFromF_spec cfg thr src.cells.length src.cells { x with arr := {} }
  have ht := onTemp_spec (copyCtorF cfg thr src true) x _ _ (by unfold copyCtorF; simpa using hn)
  apply Post.bind' _ _ ht
  · rintro y ⟨y', ⟨hb, ho, hbad⟩, rfl⟩
    simp only [core_eq_iff]
    exact ⟨trivial, hb, ho, hbad⟩
  · rintro t y ⟨y', ⟨ha, hb, ho, hbad⟩, rfl, rfl⟩
    have hfr := o.frame
    unfold Frame at hfr
    have hgood := o.good
    have hobjs := o.objs
    simp only [post_getArr_bind, post_destroyObjs_bind]
    have hres : (copyAssign cfg x.arr src).1 = { cells := y'.arr.cells, cap := y'.arr.cap, internal := y'.arr.internal, oracle := x.arr.oracle } := by
      unfold copyAssign copyCtor
      simp only [↓reduceIte]
      rw [← ha]
    have hown : ownBlocks cfg ({ cells := y'.arr.cells, cap := y'.arr.cap, internal := y'.arr.internal, oracle := x.arr.oracle } : State α)
        = ownBlocks cfg y'.arr := rfl
    have hlen : y'.arr.cells.length = src.cells.length := by rw [ha]; rfl
    split
    · rename_i hgt
      have hx : ownBlocks cfg x.arr = [x.arr.cap] := own_of_gt hgt
      simp only [post_deallocB_bind, post_setArr, hres, true_and]
      unfold Frame
      rw [hown, hb, hfr, hx]
      refine ⟨?_, by simp only [ho, hobjs, hlen]; omega, ?_⟩
      · unfold ownBlocks
        split
        · by_cases h : y'.arr.cap = x.arr.cap <;> simp [h]
        · simp
      · simp only [hbad, hgood, hobjs, ho]
        simp
        omega
    · rename_i hle
      have hx : ownBlocks cfg x.arr = [] := own_of_le (by omega)
      simp only [post_pure_bind, post_setArr, hres, true_and]
      unfold Frame
      rw [hown, hb, hfr, hx]
      refine ⟨by simp, by simp only [ho, hobjs, hlen]; omega, ?_⟩
      simp only [hbad, hgood, hobjs, ho]
      simp
      omega

end Momo.ArrF
