import Momo.Proof.HashMeta
/-!
  Table level (C12): an element re-inserted with the code from `GetHashCodePart` is placed like one re-inserted with its
  true hash code, at every step of any chain of growths. The invariant carried along the chain: the code `c` used for
  the insertion at size `2^L` agrees with the true hash on the bits of the group of `L` (and on the top seven bits).
-/
namespace Momo.HashMeta

/-- what the code `c` used at size `2^L` has to share with the true hash code `h` -/
def AgreeK (k : Kind) (L c h : Nat) : Prop :=
  match k with
  | .one8 => c % 2 ^ 63 = h % 2 ^ 63
  | _ => Agree (gbits L) c h

theorem AgreeK.refl (k : Kind) (L h : Nat) : AgreeK k L h h := by
  cases k <;> simp [AgreeK, Agree.refl]

/-- displacement (in buckets) of probe number `p` -/
def disp (k : Kind) (p : Nat) : Nat := if k.quad then Probe.tri p else p

/-- a placement that was made by `pvAddNogrow` with some code `c` that agrees with `h` -/
def Good (k : Kind) (h : Nat) (st : Placed) : Prop :=
  ∃ c, c < 2 ^ 64 ∧ AgreeK k st.L c h ∧ st.L ≤ 57 ∧ st.start = c % 2 ^ st.L ∧
    st.idx = (c % 2 ^ st.L + disp k st.probe) % 2 ^ st.L ∧ st.short = k.short c ∧ st.byte = k.enc c st.L st.probe

theorem start_eq (L c : Nat) : Probe.start L c = c % 2 ^ L := Probe.and_mask c L

theorem seqOf_closed (k : Kind) (L home p : Nat) (hh : home < 2 ^ L) :
    Probe.seqOf k.quad L home p = (home + disp k p) % 2 ^ L := by
  unfold Probe.seqOf disp
  cases hq : k.quad
  · simp [Probe.seqLin_closed L home p hh]
  · simp [Probe.seqQuad_closed L home p hh]

/-- `pvAddNogrow` with code `c` yields a `Good` placement -/
theorem place_good (k : Kind) (h L c : Nat) (isFull : Nat → Bool) (st : Placed) (hc : c < 2 ^ 64) (hL : L ≤ 57)
    (ha : AgreeK k L c h) (hpl : place k L isFull c = some st) : Good k h st ∧ st.L = L := by
  unfold place at hpl
  have hspec := Probe.addProbe_spec k.quad L isFull (Probe.start L c)
  cases hadd : Probe.addProbe k.quad L isFull (Probe.start L c) with
  | none => rw [hadd] at hpl; cases hpl
  | some pi =>
    obtain ⟨p, idx⟩ := pi
    rw [hadd] at hpl hspec
    simp only [Option.some.injEq] at hpl
    subst hpl
    refine ⟨⟨c, hc, ha, hL, start_eq L c, ?_, rfl, rfl⟩, rfl⟩
    simp only
    rw [hspec.2.1, seqOf_closed k L _ p (Probe.start_lt L c), start_eq]

/-- the code handed to the re-insertion agrees with the true hash on the bits of the new group — whether the full
    getter was called or the stored bits were used -/
theorem code_agree (k : Kind) (h : Nat) (st : Placed) (L' : Nat) (hh : h < 2 ^ 64) (hg : Good k h st)
    (hlt : st.L < L') :
    AgreeK k L' (codeOf k st L' h) h ∧ codeOf k st L' h < 2 ^ 64 := by
  obtain ⟨c, hc, ha, hL, hstart, hidx, hshort, hbyte⟩ := hg
  cases k with
  | limp4 =>
    simp only [codeOf, AgreeK, P4.getHashCodePart]
    by_cases hu : P4.useFull st.byte st.L L' = true
    · simp only [hu, if_true]; exact ⟨Agree.refl _ _, hh⟩
    · simp only [hu]
      simp only [P4.useFull, Bool.or_eq_true, decide_eq_true_eq, bne_iff_ne, ne_eq, not_or, Decidable.not_not] at hu
      obtain ⟨hu1, hgrp⟩ := hu
      simp only [Kind.enc, Kind.short, disp, Kind.quad] at hbyte hshort hidx
      rw [hbyte] at hu1 ⊢
      have hp := P4.usable_inrange c st.L st.probe hu1
      rw [hshort, hidx]
      simp only [Bool.false_eq_true, if_false]
      rw [P4.decode_enc c st.L st.probe hc hL hp, P4.knownBits_eq]
      have hb := gbits_le st.L hL
      refine ⟨?_, partOf_lt _ _ hb hc⟩
      rw [← P4.gbits_of_group hgrp]
      exact (partOf_agree _ c hb).trans ha
  | open2 =>
    simp only [codeOf, AgreeK, O2.getHashCodePart]
    by_cases hu : O2.useFull st.byte st.L L' = true
    · simp only [hu, if_true]; exact ⟨Agree.refl _ _, hh⟩
    · simp only [hu]
      simp only [O2.useFull, Bool.or_eq_true, beq_iff_eq, bne_iff_ne, ne_eq, not_or, Decidable.not_not] at hu
      obtain ⟨hu1, hgrp⟩ := hu
      simp only [Kind.enc, Kind.short, disp, Kind.quad] at hbyte hshort hidx
      rw [hbyte] at hu1 ⊢
      have hp := O2.usable_inrange c st.L st.probe hu1
      have hs0 := O2.probeShift_pos hlt hgrp
      rw [hshort, hidx]
      simp only [if_true]
      rw [O2.decode_enc c st.L st.probe hc hL hs0 hp, O2.knownBits_eq _ hs0]
      have hb := gbits_le st.L hL
      refine ⟨?_, partOf_lt _ _ hb hc⟩
      rw [← O2.gbits_of_group hgrp]
      exact (partOf_agree _ c hb).trans ha
  | one8 =>
    simp only [codeOf, AgreeK, Kind.short] at *
    rw [hshort, One.part8]
    constructor
    · rw [Nat.mod_mod]; exact ha
    · have : c % 2 ^ 63 < 2 ^ 63 := Nat.mod_lt _ (by decide)
      omega

theorem agreeK_start (k : Kind) (L c h : Nat) (hL : L ≤ 57) (ha : AgreeK k L c h) :
    Probe.start L c = Probe.start L h := by
  rw [start_eq, start_eq]
  cases k with
  | one8 =>
    have d : 2 ^ L ∣ 2 ^ 63 := Nat.pow_dvd_pow 2 (by omega)
    simp only [AgreeK] at ha
    rw [← Nat.mod_mod_of_dvd c d, ← Nat.mod_mod_of_dvd h d, ha]
  | limp4 => exact Agree.low ha L (le_gbits L)
  | open2 => exact Agree.low ha L (le_gbits L)

theorem agreeK_short (k : Kind) (L c h : Nat) (ha : AgreeK k L c h) : k.short c = k.short h := by
  cases k with
  | one8 => exact One.state8_congr ha
  | limp4 => exact P4.agree_short ha
  | open2 => exact O2.agree_short ha

/-- re-insertion with an agreeing code = re-insertion with the true hash code, for every occupancy of the new table -/
theorem place_same (k : Kind) (L c h : Nat) (isFull : Nat → Bool) (hL : L ≤ 57) (ha : AgreeK k L c h) :
    sameAsOpt k (place k L isFull c) (place k L isFull h) := by
  unfold place
  rw [agreeK_start k L c h hL ha]
  cases hadd : Probe.addProbe k.quad L isFull (Probe.start L h) with
  | none => simp [sameAsOpt]
  | some pi =>
    obtain ⟨p, idx⟩ := pi
    simp only [sameAsOpt, Placed.sameAs, true_and]
    refine ⟨agreeK_short k L c h ha, ?_⟩
    cases k with
    | one8 => left; rfl
    | limp4 => left; exact P4.agree_enc L p ha
    | open2 =>
      by_cases hs0 : 0 < O2.probeShift L
      · left; exact O2.agree_enc L p hs0 ha
      · right; exact ⟨rfl, by omega⟩

/-- relation kept along a chain: both runs failed, or both hold placements that agree, the reconstructing one `Good` -/
def Rel (k : Kind) (h L : Nat) (o oF : Option Placed) : Prop :=
  (o = none ∧ oF = none) ∨ ∃ a b, o = some a ∧ oF = some b ∧ Good k h a ∧ a.L = L ∧ a.sameAs k b

theorem rel_of_place (k : Kind) (h L c : Nat) (isFull : Nat → Bool) (hc : c < 2 ^ 64) (hL : L ≤ 57)
    (ha : AgreeK k L c h) : Rel k h L (place k L isFull c) (place k L isFull h) := by
  have hs := place_same k L c h isFull hL ha
  cases h1 : place k L isFull c with
  | none =>
    cases h2 : place k L isFull h with
    | none => left; exact ⟨rfl, rfl⟩
    | some b => rw [h1, h2] at hs; simp [sameAsOpt] at hs
  | some a =>
    cases h2 : place k L isFull h with
    | none => rw [h1, h2] at hs; simp [sameAsOpt] at hs
    | some b =>
      rw [h1, h2] at hs
      obtain ⟨hg, hl⟩ := place_good k h L c isFull a hc hL ha h1
      right; exact ⟨a, b, rfl, rfl, hg, hl, hs⟩

theorem chain_same (k : Kind) (h : Nat) (hh : h < 2 ^ 64) (steps : List (Nat × (Nat → Bool))) :
    ∀ (L : Nat) (o oF : Option Placed), Rel k h L o oF → GrowthChain 57 L steps →
      sameAsOpt k (chainPart k h o steps) (chainFull k h oF steps) := by
  induction steps with
  | nil =>
    intro L o oF hr _
    rcases hr with ⟨rfl, rfl⟩ | ⟨a, b, rfl, rfl, _, _, hs⟩
    · simp [chainPart, chainFull, sameAsOpt]
    · simpa [chainPart, chainFull, sameAsOpt] using hs
  | cons s rest ih =>
    intro L o oF hr hch
    obtain ⟨L', f⟩ := s
    obtain ⟨hlt, hL', hrest⟩ := hch
    rcases hr with ⟨rfl, rfl⟩ | ⟨a, b, rfl, rfl, hg, hl, _⟩
    · simp [chainPart, chainFull, sameAsOpt]
    · simp only [chainPart, chainFull, relocate, rehash]
      have hca := code_agree k h a L' hh hg (by omega)
      exact ih L' _ _ (rel_of_place k h L' _ f hca.2 hL' hca.1) hrest

/-- the full-rehash chain ends in a direct placement with the true hash code -/
theorem chainFull_some (k : Kind) (h : Nat) (steps : List (Nat × (Nat → Bool))) :
    ∀ (o : Option Placed) (b : Placed), (∀ x, o = some x → ∃ L f, place k L f h = some x) →
      chainFull k h o steps = some b → ∃ L f, place k L f h = some b := by
  induction steps with
  | nil => intro o b ho hb; simp only [chainFull] at hb; exact ho b hb
  | cons s rest ih =>
    intro o b _ hb
    obtain ⟨L', f⟩ := s
    cases o with
    | none => simp [chainFull] at hb
    | some x =>
      simp only [chainFull, rehash] at hb
      exact ih _ b (fun y hy => ⟨L', f, hy⟩) hb

end Momo.HashMeta
