import Momo.Proof.MMapTrav
/-!
  C08, part 6: histories.  Operations of the value array and of the multimap as data, the concrete
  and the abstract step functions, and the step lemmas the history theorems of `Props/C08.lean`
  are proved from by induction over the operation list.
-/
namespace Momo.MMap
open Momo

/-! ### value array histories -/

inductive VOp
  | add (v : Nat)
  | removeAt (i : Nat) (shrinkFails : Bool)
  | removeAll
  | copy
  | removeIf (p : Nat → Bool)

def VArr.step (mf : Nat) (a : VArr) : VOp → VArr
  | .add v => a.addBack mf v
  | .removeAt i sf => a.removeAt i sf
  | .removeAll => VArr.empty
  | .copy => a.copy mf
  | .removeIf p => VArr.removeIf p a.count a 0

/-- the same operations on a plain list -/
def listStep (l : List Nat) : VOp → List Nat
  | .add v => l ++ [v]
  | .removeAt i _ => swapRemove l i
  | .removeAll => []
  | .copy => l
  | .removeIf p => swapFilter p l.length l 0

theorem VArr.step_spec {mf : Nat} (h1 : 1 ≤ mf) (hmf : mf < Extracted.abMaxFastLimit) (a : VArr) (h : a.WF mf)
    (op : VOp) : (a.step mf op).WF mf ∧ (a.step mf op).bounds = listStep a.bounds op := by
  cases op with
  | add v => exact ⟨VArr.addBack_wf h1 hmf h v, VArr.addBack_bounds h1 hmf h v⟩
  | removeAt i sf => exact VArr.removeAt_spec hmf h i sf
  | removeAll => exact ⟨VArr.empty_wf mf, rfl⟩
  | copy => exact VArr.copy_spec hmf h
  | removeIf p =>
    have hc : a.count = a.bounds.length := by rw [h.bounds_eq hmf, h.count_eq hmf]
    have := VArr.removeIf_spec p hmf a.count a 0 h
    simp only [VArr.step, listStep]
    rw [← hc]; exact this

/-! ### multimap histories (two objects: the subject `a` and the partner `b` of copy / move / swap) -/

inductive Op
  | add (k tg v : Nat) (f : HT.Faults) (valueAllocFails : Bool)
  | insertKey (k tg : Nat) (f : HT.Faults)
  | removeValue (k i : Nat) (shrinkFails : Bool)
  | removeValues (k : Nat)
  | removeKey (k : Nat)
  | removeIf (p : Nat → Nat → Bool)
  | resetKey (k tg : Nat)
  | clear

inductive Op2
  | onA (op : Op)
  | copyTo      -- b = a
  | moveTo      -- b = std::move(a); a = fresh
  | swap

section
variable {σ : Type} (K : KeyMap σ) (mf : Nat)

/-- concrete step; the Boolean says whether the operation succeeded (no exception) -/
def MM.step (m : MM σ) : Op → MM σ × Bool
  | .add k tg v f fv => ((MM.add K mf m k tg v f fv).1, (MM.add K mf m k tg v f fv).2 = .ok)
  | .insertKey k tg f => ((MM.insertKey K m k tg f).1, (MM.insertKey K m k tg f).2.1 = .ok)
  | .removeValue k i sf => (MM.removeValue K m k i sf, true)
  | .removeValues k => (MM.removeValues K m k, true)
  | .removeKey k => ((MM.removeKey K m k).1, true)
  | .removeIf p => ((MM.removeIf K m p).1, true)
  | .resetKey k tg => (MM.resetKey K m k tg, true)
  | .clear => (MM.clear K m, true)

def MM.step2 (s : MM σ × MM σ) : Op2 → (MM σ × MM σ) × Bool
  | .onA op => (((MM.step K mf s.1 op).1, s.2), (MM.step K mf s.1 op).2)
  | .copyTo => ((s.1, (MM.copy K mf s.1).getD s.2), (MM.copy K mf s.1).isSome)
  | .moveTo => ((MM.empty K, s.1), true)
  | .swap => ((s.2, s.1), true)

end

/-- abstract step on `Key → Option (List Value)`, given whether the concrete operation succeeded -/
def AMap.step (A : AMap) (ok : Bool) : Op → AMap
  | .add k _ v _ _ => if ok then A.add k v else A
  | .insertKey k _ _ => if ok then A.insertKey k else A
  | .removeValue k i _ => if i < ((A k).getD []).length then A.removeValue k i else A
  | .removeValues k => A.removeValues k
  | .removeKey k => A.removeKey k
  | .removeIf p => A.removeIf p
  | .resetKey _ _ => A
  | .clear => fun _ => none

def AMap.step2 (S : AMap × AMap) (ok : Bool) : Op2 → AMap × AMap
  | .onA op => (AMap.step S.1 ok op, S.2)
  | .copyTo => if ok then (S.1, S.1) else S
  | .moveTo => (fun _ => none, S.1)
  | .swap => (S.2, S.1)

section
variable {σ : Type} (K : KeyMap σ) (L : K.Lawful) (mf : Nat)

/-- the faults an operation carries are among those the key-map contract covers -/
def Op.FOK : Op → Prop
  | .add _ _ _ f _ => L.FOK f
  | .insertKey _ _ f => L.FOK f
  | _ => True

def Op2.FOK : Op2 → Prop
  | .onA op => Op.FOK K L op
  | _ => True

theorem MM.step_spec (h1 : 1 ≤ mf) (hmf : mf < Extracted.abMaxFastLimit) (m : MM σ) (hI : MM.Inv K L mf m)
    (op : Op) (hF : Op.FOK K L op) :
    MM.Inv K L mf (MM.step K mf m op).1 ∧
    MM.abs K (MM.step K mf m op).1 = AMap.step (MM.abs K m) (MM.step K mf m op).2 op := by
  cases op with
  | add k tg v f fv =>
    obtain ⟨i1, i2⟩ := MM.add_spec K L mf h1 hmf m hI k tg v f hF fv
    refine ⟨i1, ?_⟩
    simp only [MM.step, AMap.step]
    rw [i2]
    by_cases hok : (MM.add K mf m k tg v f fv).2 = .ok <;> simp [hok]
  | insertKey k tg f =>
    obtain ⟨i1, i2, _⟩ := MM.insertKey_spec K L mf m hI k tg f hF
    refine ⟨i1, ?_⟩
    simp only [MM.step, AMap.step]
    rw [i2]
    by_cases hok : (MM.insertKey K m k tg f).2.1 = .ok <;> simp [hok]
  | removeValue k i sf =>
    simp only [MM.step, AMap.step]
    by_cases hk : k ∈ K.keys m.km
    · rw [MM.abs_of_mem K hk, Option.getD_some]
      by_cases hi : i < (getArr m.arrs k).bounds.length
      · obtain ⟨i1, i2, _⟩ := MM.removeValue_spec K L mf hmf m hI k i sf hk hi
        simp only [hi, if_true]; exact ⟨i1, i2⟩
      · have hcnt : (getArr m.arrs k).count = (getArr m.arrs k).bounds.length := by
          rw [(hI.wf k).bounds_eq hmf, (hI.wf k).count_eq hmf]
        have : MM.removeValue K m k i sf = m := by
          unfold MM.removeValue; rw [if_neg]; rw [hcnt]; exact fun h => hi h.2
        simp only [hi, if_false, this]; exact ⟨hI, trivial⟩
    · have hh : K.has m.km k = false := (has_false_iff K L mf hI k).mpr hk
      have : MM.removeValue K m k i sf = m := by
        unfold MM.removeValue; rw [if_neg]; simp [hh]
      rw [MM.abs_of_not_mem K hk]
      simp only [Option.getD_none, List.length_nil, Nat.not_lt_zero, if_false, this]
      exact ⟨hI, trivial⟩
  | removeValues k => exact MM.removeValues_spec K L mf hmf m hI k
  | removeKey k =>
    obtain ⟨i1, i2, _⟩ := MM.removeKey_spec K L mf hmf m hI k
    exact ⟨i1, i2⟩
  | removeIf p =>
    obtain ⟨i1, i2, _⟩ := MM.removeIf_spec K L mf hmf m hI p
    exact ⟨i1, i2⟩
  | resetKey k tg => exact MM.resetKey_spec K L mf m hI k tg
  | clear => exact MM.clear_spec K L mf m hI

theorem MM.step2_spec (h1 : 1 ≤ mf) (hmf : mf < Extracted.abMaxFastLimit) (s : MM σ × MM σ)
    (hA : MM.Inv K L mf s.1) (hB : MM.Inv K L mf s.2) (op : Op2) (hF : Op2.FOK K L op) :
    MM.Inv K L mf (MM.step2 K mf s op).1.1 ∧ MM.Inv K L mf (MM.step2 K mf s op).1.2 ∧
    (MM.abs K (MM.step2 K mf s op).1.1, MM.abs K (MM.step2 K mf s op).1.2)
      = AMap.step2 (MM.abs K s.1, MM.abs K s.2) (MM.step2 K mf s op).2 op := by
  cases op with
  | onA op =>
    obtain ⟨i1, i2⟩ := MM.step_spec K L mf h1 hmf s.1 hA op hF
    exact ⟨i1, hB, by simp only [MM.step2, AMap.step2]; rw [i2]⟩
  | copyTo =>
    cases hc : MM.copy K mf s.1 with
    | none => simp only [MM.step2, AMap.step2, hc]; exact ⟨hA, hB, by simp⟩
    | some c =>
      obtain ⟨c1, c2, _⟩ := MM.copy_spec K L mf hmf s.1 c hA hc
      simp only [MM.step2, AMap.step2, hc]
      exact ⟨hA, c1, by simp [c2]⟩
  | moveTo =>
    exact ⟨MM.empty_inv K L mf, hA, by simp only [MM.step2, AMap.step2]; rw [MM.empty_abs K L]⟩
  | swap => exact ⟨hB, hA, rfl⟩

/-- run a history on the concrete pair and, in lock-step, on the abstract pair -/
def runBoth : List Op2 → (MM σ × MM σ) × (AMap × AMap) → (MM σ × MM σ) × (AMap × AMap)
  | [], s => s
  | op :: ops, s => runBoth ops ((MM.step2 K mf s.1 op).1, AMap.step2 s.2 (MM.step2 K mf s.1 op).2 op)

theorem runBoth_spec (h1 : 1 ≤ mf) (hmf : mf < Extracted.abMaxFastLimit) :
    ∀ (ops : List Op2) (s : (MM σ × MM σ) × (AMap × AMap)), (∀ op ∈ ops, Op2.FOK K L op) →
      MM.Inv K L mf s.1.1 → MM.Inv K L mf s.1.2 → (MM.abs K s.1.1, MM.abs K s.1.2) = s.2 →
      MM.Inv K L mf (runBoth K mf ops s).1.1 ∧ MM.Inv K L mf (runBoth K mf ops s).1.2 ∧
      (MM.abs K (runBoth K mf ops s).1.1, MM.abs K (runBoth K mf ops s).1.2) = (runBoth K mf ops s).2 := by
  intro ops
  induction ops with
  | nil => intro s _ hA hB he; exact ⟨hA, hB, he⟩
  | cons op ops ih =>
    intro s hF hA hB he
    obtain ⟨i1, i2, i3⟩ := MM.step2_spec K L mf h1 hmf s.1 hA hB op (hF op (by simp))
    simp only [runBoth]
    exact ih _ (fun o ho => hF o (by simp [ho])) i1 i2 (by rw [i3, he])

end

end Momo.MMap
