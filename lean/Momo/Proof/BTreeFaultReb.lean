import Momo.Proof.BTreeFaultBasic
import Momo.Proof.BTreeRebalance
/-!
  C04 / C10 for the B-tree family: `pvRebalance` under faults. A node merge whose item relocation throws (items that are not
  nothrow relocatable) is swallowed by the `catch (...)` of `pvRebalance` and ends the loop; whatever prefix of the loop ran,
  the in-order list, the balance, the capacities and the saved leaf are kept exactly as by the fault-free loop, and the item
  ledger is back where it was. Without construction faults the loop is the fault-free loop.
  Core Lean only.
-/
namespace Momo.BTreeF
open Momo Momo.BTree Momo.BTree.Node
variable {α : Type}

local macro "triv" : tactic => `(tactic| first | rfl | trivial | simp)

theorem copyLoop_led (S : Sched) (n : Nat) (w : W) :
    (copyLoop S n w).2.2.led = { w.led with items := w.led.items + (copyLoop S n w).1 } ∧
    (S.NoCtor → (copyLoop S n w).2.1 = false) := by
  induction n generalizing w with
  | zero => simp [copyLoop]
  | succ n ih =>
    simp only [copyLoop]
    by_cases hf : S.ctor w.ctorN = true
    · simp only [hf, if_true]
      exact ⟨(by simp), fun hn => (by rw [hn] at hf; cases hf)⟩
    · simp only [hf, Bool.false_eq_true, if_false]
      obtain ⟨a, c⟩ := ih (w.tickCtor.addItems 1)
      cases hc : copyLoop S n (w.tickCtor.addItems 1) with
      | mk d rest =>
        obtain ⟨t, w'⟩ := rest
        rw [hc] at a c
        simp only at a c ⊢
        refine ⟨?_, c⟩
        rw [a]; apply Ledger.ext' <;> simp <;> omega

/-- the node merge under faults: the ledger is untouched whatever happens; it merges only what the fault-free step merges;
    without construction faults it is the fault-free step -/
theorem tryMergeF_spec (S : Sched) (ic : ICfg α) (cfg : Cfg) (items : List α) (cs : List (Node α)) (i : Nat)
    (saved : Option (List Nat)) (w : W) :
    (tryMergeF S ic cfg items cs i saved w).2.led = w.led ∧
    (∀ n' s', (tryMergeF S ic cfg items cs i saved w).1 = .merged n' s' → tryMerge cfg items cs i saved = some (n', s')) ∧
    ((tryMergeF S ic cfg items cs i saved w).1 = .noMerge → tryMerge cfg items cs i saved = none) ∧
    (S.NoCtor → (tryMergeF S ic cfg items cs i saved w).1 = (match tryMerge cfg items cs i saved with
        | some (n', s') => .merged n' s'
        | none => .noMerge)) := by
  unfold tryMergeF
  cases htm : tryMerge cfg items cs i saved with
  | none => simp
  | some r =>
    obtain ⟨n', saved'⟩ := r
    simp only
    by_cases hr : ic.reloc = true
    · simp [hr]
    · simp only [hr, Bool.false_eq_true, if_false]
      obtain ⟨a, c⟩ := copyLoop_led S (match cs[i + 1]? with | some n2 => n2.count | none => 0) w
      cases hcl : copyLoop S (match cs[i + 1]? with | some n2 => n2.count | none => 0) w with
      | mk d rest =>
        obtain ⟨t, w1⟩ := rest
        rw [hcl] at a c
        simp only at a c
        cases t with
        | true =>
          simp only
          refine ⟨?_, fun _ _ hh => (by cases hh), fun hh => (by cases hh), fun hn => (by have := c hn; cases this)⟩
          rw [addItems_led, a]; apply Ledger.ext' <;> simp <;> omega
        | false =>
          simp only
          by_cases hf : S.ctor w1.ctorN = true
          · simp only [hf, if_true]
            refine ⟨?_, fun _ _ hh => (by cases hh), fun hh => (by cases hh), fun hn => (by rw [hn] at hf; cases hf)⟩
            rw [addItems_led, tickCtor_led, a]; apply Ledger.ext' <;> simp <;> omega
          · simp only [hf, Bool.false_eq_true, if_false]
            refine ⟨?_, fun n'' s'' hh => (by cases hh; rfl), fun hh => (by cases hh), fun _ => (by triv)⟩
            rw [addItems_led, tickCtor_led, a]; apply Ledger.ext' <;> simp <;> omega

/-- one round of the loop under faults: what `rebStep_spec` says, for every schedule -/
theorem rebStepF_spec (S : Sched) (ic : ICfg α) (cfg : Cfg) (fast : Bool) {d : Nat} (items : List α) (cs : List (Node α))
    (c : Nat) (saved : Option (List Nat)) (w : W) (hb : Bal (d+1) (inner items cs)) :
    toList (rebStepF S ic cfg fast items cs c saved w).1.1 = inter cs items ∧
    Bal (d+1) (rebStepF S ic cfg fast items cs c saved w).1.1 ∧
    SavedOk (inner items cs) saved (rebStepF S ic cfg fast items cs c saved w).1.1 (rebStepF S ic cfg fast items cs c saved w).1.2.1 ∧
    (Caps cfg.maxCap (inner items cs) → Caps cfg.maxCap (rebStepF S ic cfg fast items cs c saved w).1.1) ∧
    (rebStepF S ic cfg fast items cs c saved w).2.led = w.led ∧
    (S.NoCtor → (rebStepF S ic cfg fast items cs c saved w).1 = rebStep cfg fast items cs c saved) := by
  have same : toList (inner items cs) = inter cs items ∧ Bal (d+1) (inner items cs) ∧
      SavedOk (inner items cs) saved (inner items cs) saved ∧
      (Caps cfg.maxCap (inner items cs) → Caps cfg.maxCap (inner items cs)) :=
    ⟨by simp, hb, SavedOk.refl _ _, fun h => h⟩
  obtain ⟨a1, a2, a3, a4⟩ := tryMergeF_spec S ic cfg items cs c saved w
  unfold rebStepF rebStep
  cases h1 : tryMergeF S ic cfg items cs c saved w with
  | mk res w1 =>
    rw [h1] at a1 a2 a3 a4
    simp only at a1 a2 a3 a4
    cases res with
    | merged n' saved' =>
      have htm := a2 n' saved' rfl
      obtain ⟨x, y, z⟩ := tryMerge_spec cfg items cs c saved n' saved' hb htm
      simp only [htm]
      exact ⟨x, y, z, fun hc => tryMerge_caps cfg items cs c saved n' saved' hc htm, a1, fun _ => (by triv)⟩
    | aborted =>
      simp only
      refine ⟨same.1, same.2.1, same.2.2.1, same.2.2.2, a1, fun hn => ?_⟩
      have := a4 hn
      cases htm : tryMerge cfg items cs c saved with
      | none => rw [htm] at this; cases this
      | some r => obtain ⟨n', s'⟩ := r; rw [htm] at this; cases this
    | noMerge =>
      have htm := a3 rfl
      simp only [htm]
      by_cases hc0 : c > 0
      · simp only [hc0, if_true]
        obtain ⟨b1, b2, b3, b4⟩ := tryMergeF_spec S ic cfg items cs (c - 1) saved w1
        cases h2 : tryMergeF S ic cfg items cs (c - 1) saved w1 with
        | mk res2 w2 =>
          rw [h2] at b1 b2 b3 b4
          simp only at b1 b2 b3 b4
          cases res2 with
          | merged n' saved' =>
            have htm2 := b2 n' saved' rfl
            obtain ⟨x, y, z⟩ := tryMerge_spec cfg items cs (c - 1) saved n' saved' hb htm2
            simp only [htm2]
            exact ⟨x, y, z, fun hc => tryMerge_caps cfg items cs (c - 1) saved n' saved' hc htm2, by rw [b1, a1], fun _ => (by triv)⟩
          | aborted =>
            simp only
            refine ⟨same.1, same.2.1, same.2.2.1, same.2.2.2, by rw [b1, a1], fun hn => ?_⟩
            have := b4 hn
            cases htm2 : tryMerge cfg items cs (c - 1) saved with
            | none => rw [htm2] at this; cases this
            | some r => obtain ⟨n', s'⟩ := r; rw [htm2] at this; cases this
          | noMerge =>
            have htm2 := b3 rfl
            simp only [htm2]
            exact ⟨same.1, same.2.1, same.2.2.1, same.2.2.2, by rw [b1, a1], fun _ => (by triv)⟩
      · simp only [hc0, if_false]
        exact ⟨same.1, same.2.1, same.2.2.1, same.2.2.2, a1, fun _ => (by triv)⟩

/-- the loop of `pvRebalance(node, savedNode, fast)` below a node, under faults -/
theorem rebAuxF_spec (S : Sched) (ic : ICfg α) (cfg : Cfg) (fast : Bool) {d : Nat} {n : Node α} (hb : Bal d n) (p : List Nat)
    (saved : Option (List Nat)) (w : W) :
    toList (rebAuxF S ic cfg fast n p saved w).1.1 = toList n ∧ Bal d (rebAuxF S ic cfg fast n p saved w).1.1 ∧
    SavedOk n saved (rebAuxF S ic cfg fast n p saved w).1.1 (rebAuxF S ic cfg fast n p saved w).1.2.1 ∧
    (Caps cfg.maxCap n → Caps cfg.maxCap (rebAuxF S ic cfg fast n p saved w).1.1) ∧
    (rebAuxF S ic cfg fast n p saved w).2.led = w.led ∧
    (S.NoCtor → (rebAuxF S ic cfg fast n p saved w).1 = rebAux cfg fast n p saved) := by
  induction p generalizing n d saved w with
  | nil => simp only [rebAuxF, rebAux]; exact ⟨trivial, hb, SavedOk.refl _ _, fun h => h, (by triv), fun _ => (by triv)⟩
  | cons c p ih =>
    cases n with
    | leaf cap is => simp only [rebAuxF, rebAux]; exact ⟨trivial, hb, SavedOk.refl _ _, fun h => h, (by triv), fun _ => (by triv)⟩
    | inner items cs =>
      obtain ⟨d', rfl, hall⟩ := hb.inner_depth
      have hlen := hb.inner_len
      simp only [rebAuxF, rebAux]
      cases hc : cs[c]? with
      | none => exact ⟨rfl, hb, SavedOk.refl _ _, fun h => h, (by triv), fun _ => (by triv)⟩
      | some ch =>
        simp only
        have hcl := lt_of_getElem? hc
        obtain ⟨i1, i2, i3, i4, i5, i6⟩ := ih (hall ch (List.mem_of_getElem? hc)) (savedBelow saved c) w
        cases hR : rebAuxF S ic cfg fast ch p (savedBelow saved c) w with
        | mk R w1 =>
          obtain ⟨ch', savedC, goOn⟩ := R
          rw [hR] at i1 i2 i3 i4 i5 i6
          simp only at i1 i2 i3 i4 i5 i6
          have hsize : size ch' = size ch := by simp [size, i1]
          have hb1 : Bal (d'+1) (inner items (cs.set c ch')) := Bal.inner d' _ _ (by simpa using hlen) (fun y hy => by
            rcases List.mem_or_eq_of_mem_set hy with h | rfl
            · exact hall y h
            · exact i2)
          have ht1 : inter (cs.set c ch') items = inter cs items := by
            rw [inter_set cs items c ch ch' hc hlen, inter_split cs items c ch hc hlen, i1]
          have hs1 := savedOk_set_child items cs c ch ch' saved savedC hc hsize i3
          have hc1 : Caps cfg.maxCap (inner items cs) → Caps cfg.maxCap (inner items (cs.set c ch')) := by
            intro hcaps
            cases hcaps with
            | inner _ _ h1 h2 =>
              exact Caps.inner _ _ h1 (fun y hy => by
                rcases List.mem_or_eq_of_mem_set hy with h | rfl
                · exact h2 y h
                · exact i4 (h2 ch (List.mem_of_getElem? hc)))
          cases goOn with
          | true =>
            simp only
            obtain ⟨a, b, e, f, g, k⟩ := rebStepF_spec S ic cfg fast items (cs.set c ch') c (savedLift saved c savedC) w1 hb1
            refine ⟨by rw [a, toList_inner, ht1], b, hs1.trans e, fun h => f (hc1 h), by rw [g, i5], fun hn => ?_⟩
            have e6 := i6 hn
            rw [← e6]
            simp only [if_true]
            exact k hn
          | false =>
            simp only
            refine ⟨by simp [ht1], hb1, hs1, hc1, i5, fun hn => ?_⟩
            have e6 := i6 hn
            rw [← e6]
            simp

/-- **`pvRebalance(node, savedNode, fast)` under every fault schedule**: list, balance, capacities and the saved leaf are kept
    as by the fault-free loop, the ledger is untouched; without construction faults it *is* the fault-free loop -/
theorem rebalanceF_spec (S : Sched) (ic : ICfg α) (cfg : Cfg) (fast : Bool) {d : Nat} {r : Node α} (hb : Bal d r)
    (path saved : List Nat) (w : W) :
    toList (rebalanceF S ic cfg fast r path saved w).1.1 = toList r ∧
    (∃ d', Bal d' (rebalanceF S ic cfg fast r path saved w).1.1) ∧
    (∀ cap its, nodeAt? r saved = some (leaf cap its) →
      ∃ cap' its', nodeAt? (rebalanceF S ic cfg fast r path saved w).1.1 (rebalanceF S ic cfg fast r path saved w).1.2 =
          some (leaf cap' its') ∧ its.length ≤ its'.length ∧
        offsetOf (rebalanceF S ic cfg fast r path saved w).1.1 (rebalanceF S ic cfg fast r path saved w).1.2 = offsetOf r saved) ∧
    (Caps cfg.maxCap r → Caps cfg.maxCap (rebalanceF S ic cfg fast r path saved w).1.1) ∧
    (rebalanceF S ic cfg fast r path saved w).2.led = w.led ∧
    (S.NoCtor → (rebalanceF S ic cfg fast r path saved w).1 = rebalance cfg fast r path saved) := by
  obtain ⟨a, ⟨d1, b⟩, e, f⟩ := collapseRoot_spec hb saved path
  unfold rebalanceF rebalance
  generalize collapseRoot r saved path = C at a b e f
  obtain ⟨r1, saved1, path1⟩ := C
  simp only at a b e f ⊢
  obtain ⟨a2, b2, e2, f2, g2, k2⟩ := rebAuxF_spec S ic cfg fast b path1 (some saved1) w
  cases hR : rebAuxF S ic cfg fast r1 path1 (some saved1) w with
  | mk R w' =>
    obtain ⟨r2, saved2, g⟩ := R
    rw [hR] at a2 b2 e2 f2 g2 k2
    simp only at a2 b2 e2 f2 g2 k2 ⊢
    refine ⟨by rw [a2, a], ⟨d1, b2⟩, ?_, fun h => f2 (f _ h), g2, fun hn => ?_⟩
    · intro cap its hnode
      obtain ⟨e1a, e1b⟩ := e cap its hnode
      obtain ⟨sp', cap', its', g1, g2', g3, g4⟩ := e2 saved1 cap its rfl e1a
      subst g1
      exact ⟨cap', its', by simpa using g2', g3, by simp only [Option.getD_some]; omega⟩
    · rw [← k2 hn]

end Momo.BTreeF
