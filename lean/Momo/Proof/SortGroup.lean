import Momo.Proof.SortMem
import Momo.Proof.SortSearch
/-!
  C17 lemmas, part 5: `HashSorter::pvGroup` (HashSorter.h:208-225) permutes its range so that equal
  items become contiguous, for every equivalence `equalFunc`; it touches nothing outside the range.
-/
namespace Momo.Sort
variable {σ α : Type}

/-- cells `a` and `c` of `l` exist and hold equal items -/
def EqAt (eq : α → α → Bool) (l : List (α × Nat)) (a c : Nat) : Prop :=
  ∃ x z, l[a]? = some x ∧ l[c]? = some z ∧ eq x.1 z.1 = true

/-- equal items are contiguous (list form) -/
def ContigL (eq : α → α → Bool) (l : List (α × Nat)) : Prop :=
  ∀ a b c, a < b → b < c → EqAt eq l a c → EqAt eq l a b

/-- loop invariant of `pvGroup`: contiguity for every middle index below `i` -/
def ContigUpTo (eq : α → α → Bool) (l : List (α × Nat)) (i : Nat) : Prop :=
  ∀ a b c, a < b → b < c → b < i → EqAt eq l a c → EqAt eq l a b

theorem EqAt.symm {eq : α → α → Bool} (he : IsEqv eq) {l : List (α × Nat)} {a c : Nat} (h : EqAt eq l a c) : EqAt eq l c a := by
  obtain ⟨x, z, h1, h2, h3⟩ := h
  exact ⟨z, x, h2, h1, he.symm _ _ h3⟩

theorem EqAt.trans {eq : α → α → Bool} (he : IsEqv eq) {l : List (α × Nat)} {a b c : Nat}
    (h1 : EqAt eq l a b) (h2 : EqAt eq l b c) : EqAt eq l a c := by
  obtain ⟨x, y, hx, hy, hxy⟩ := h1
  obtain ⟨y', z, hy', hz, hyz⟩ := h2
  rw [hy] at hy'; cases hy'
  exact ⟨x, z, hx, hz, he.trans _ _ _ hxy hyz⟩

theorem EqAt.lt_right {eq : α → α → Bool} {l : List (α × Nat)} {a c : Nat} (h : EqAt eq l a c) : c < l.length := by
  obtain ⟨_, z, _, hz, _⟩ := h
  exact (List.getElem?_eq_some_iff.1 hz).1

theorem eqAt_of_getElem {eq : α → α → Bool} {l : List (α × Nat)} {a c : Nat} (ha : a < l.length) (hc : c < l.length)
    (h : eq (l[a]'ha).1 (l[c]'hc).1 = true) : EqAt eq l a c :=
  ⟨_, _, List.getElem?_eq_getElem ha, List.getElem?_eq_getElem hc, h⟩

theorem not_eqAt_of_getElem {eq : α → α → Bool} {l : List (α × Nat)} {a c : Nat} (ha : a < l.length) (hc : c < l.length)
    (h : ¬ eq (l[a]'ha).1 (l[c]'hc).1 = true) : ¬ EqAt eq l a c := by
  intro ⟨x, z, hx, hz, hxz⟩
  rw [List.getElem?_eq_getElem ha] at hx
  rw [List.getElem?_eq_getElem hc] at hz
  cases hx; cases hz
  exact h hxz

/-- the transposition `(i j)` -/
def tr (i j k : Nat) : Nat := if k = j then i else if k = i then j else k

theorem eqAt_swapL {eq : α → α → Bool} {l : List (α × Nat)} {i j : Nat} (hi : i < l.length) (hj : j < l.length) (a c : Nat) :
    EqAt eq (swapL l i j) a c ↔ EqAt eq l (tr i j a) (tr i j c) := by
  have key : ∀ k, (swapL l i j)[k]? = l[tr i j k]? := by
    intro k
    rw [swapL_getElem? _ _ _ _ hi hj]
    unfold tr
    split
    · rfl
    · split <;> rfl
  unfold EqAt
  simp only [key]

section
variable {M : Mem σ α} {abs : σ → List (α × Nat)} {ok : σ → Prop} (L : Lawful M abs ok)
  {eq : α → α → Bool} (he : IsEqv eq) (pre post : List (α × Nat))
include L he

theorem groupInner_spec :
    ∀ (fuel : Nat) (s : σ) (seg : List (α × Nat)) (i j : Nat), 0 < fuel → seg.length < fuel + j →
      Holds abs ok s (pre ++ seg ++ post) → 1 ≤ i → i < j → j ≤ seg.length →
      ContigUpTo eq seg i → EqAt eq seg (i - 1) (i - 1) → (∀ k, i ≤ k → k < j → ¬ EqAt eq seg (i - 1) k) →
      ∃ s' seg' i', groupInner M eq pre.length seg.length fuel s i j = some (s', i') ∧
        Holds abs ok s' (pre ++ seg' ++ post) ∧ seg'.Perm seg ∧ i ≤ i' ∧
        ContigUpTo eq seg' i' ∧ (∀ k, i' ≤ k → ¬ EqAt eq seg' (i' - 1) k) := by
  intro fuel
  induction fuel with
  | zero => intro s seg i j h; omega
  | succ f ih =>
    intro s seg i j _ hf hh hi1 hij hjn hcu hrefl hne
    unfold groupInner
    by_cases hj : j < seg.length
    · have hi' : i - 1 < seg.length := by omega
      simp only [hj, if_true, L.item_at hh (i - 1) hi', L.item_at hh j hj, Option.bind_some]
      by_cases hxy : eq (seg[i - 1]'hi').1 (seg[j]'hj).1 = true
      · -- swap cells i and j; both indices advance
        simp only [hxy, if_true]
        have hil : i < seg.length := by omega
        obtain ⟨s', hs', hh'⟩ := L.swap_at hh i j hil hj
        rw [hs']
        simp only [Option.bind_some]
        have hEq : EqAt eq seg (i - 1) j := eqAt_of_getElem hi' hj hxy
        have hlen : (swapL seg i j).length = seg.length := swapL_length _ _ _
        have hcu' : ContigUpTo eq (swapL seg i j) (i + 1) := by
          intro a b c hab hbc hbi hac
          rw [eqAt_swapL hil hj] at hac ⊢
          have hta : tr i j a = a := by unfold tr; simp [show ¬ a = j by omega, show ¬ a = i by omega]
          rw [hta] at hac ⊢
          by_cases hb : b < i
          · have htb : tr i j b = b := by unfold tr; simp [show ¬ b = j by omega, show ¬ b = i by omega]
            rw [htb]
            have htc : b < tr i j c := by unfold tr; split <;> [omega; (split <;> omega)]
            exact hcu a b _ hab htc hb hac
          · have hbe : b = i := by omega
            subst hbe
            have htb : tr b j b = j := by unfold tr; simp [show ¬ b = j by omega]
            rw [htb]
            by_cases ha : a = b - 1
            · subst ha; exact hEq
            · have htc : b - 1 < tr b j c := by unfold tr; split <;> [omega; (split <;> omega)]
              have := hcu a (b - 1) _ (by omega) htc (by omega) hac
              exact this.trans he hEq
        have hne' : ∀ k, i + 1 ≤ k → k < j + 1 → ¬ EqAt eq (swapL seg i j) (i + 1 - 1) k := by
          intro k hk1 hk2 hcontra
          rw [Nat.add_sub_cancel, eqAt_swapL hil hj] at hcontra
          have hti : tr i j i = j := by unfold tr; simp [show ¬ i = j by omega]
          rw [hti] at hcontra
          have htk : i ≤ tr i j k ∧ tr i j k < j := by unfold tr; split <;> [omega; (split <;> omega)]
          exact hne _ htk.1 htk.2 (hEq.trans he hcontra)
        have hrefl' : EqAt eq (swapL seg i j) (i + 1 - 1) (i + 1 - 1) := by
          rw [Nat.add_sub_cancel, eqAt_swapL hil hj]
          have hti : tr i j i = j := by unfold tr; simp [show ¬ i = j by omega]
          rw [hti]
          exact (hEq.symm he).trans he hEq
        obtain ⟨s'', seg'', i'', h1, h2, h3, h4, h5, h6⟩ := ih s' (swapL seg i j) (i + 1) (j + 1) (by omega) (by rw [hlen]; omega)
          hh' (by omega) (by omega) (by rw [hlen]; omega) hcu' hrefl' hne'
        rw [hlen] at h1
        exact ⟨s'', seg'', i'', h1, h2, h3.trans (swapL_perm _ _ _), by omega, h5, h6⟩
      · simp only [hxy]
        have hne' : ∀ k, i ≤ k → k < j + 1 → ¬ EqAt eq seg (i - 1) k := by
          intro k hk1 hk2
          by_cases hkj : k < j
          · exact hne k hk1 hkj
          · have : k = j := by omega
            subst this
            exact not_eqAt_of_getElem hi' hj hxy
        exact ih s seg i (j + 1) (by omega) (by omega) hh hi1 (by omega) (by omega) hcu hrefl hne'
    · simp only [hj, if_false]
      refine ⟨s, seg, i, rfl, hh, List.Perm.refl _, Nat.le_refl _, hcu, ?_⟩
      intro k hk hcontra
      have := hcontra.lt_right
      exact hne k hk (by omega) hcontra

omit L in
theorem contigUpTo_succ_of_eq {seg : List (α × Nat)} {i : Nat} (hi1 : 1 ≤ i) (hcu : ContigUpTo eq seg i)
    (hEq : EqAt eq seg (i - 1) i) : ContigUpTo eq seg (i + 1) := by
  intro a b c hab hbc hbi hac
  by_cases hb : b < i
  · exact hcu a b c hab hbc hb hac
  · have hbe : b = i := by omega
    subst hbe
    by_cases ha : a = b - 1
    · subst ha; exact hEq
    · exact (hcu a (b - 1) c (by omega) (by omega) (by omega) hac).trans he hEq

omit L in
theorem contigUpTo_succ_of_tail {seg : List (α × Nat)} {i : Nat} (hi1 : 1 ≤ i) (hcu : ContigUpTo eq seg i)
    (htail : ∀ k, i ≤ k → ¬ EqAt eq seg (i - 1) k) : ContigUpTo eq seg (i + 1) := by
  intro a b c hab hbc hbi hac
  by_cases hb : b < i
  · exact hcu a b c hab hbc hb hac
  · have hbe : b = i := by omega
    subst hbe
    exfalso
    by_cases ha : a = b - 1
    · subst ha; exact htail c (by omega) hac
    · have h1 := hcu a (b - 1) c (by omega) (by omega) (by omega) hac
      exact htail c (by omega) ((h1.symm he).trans he hac)

theorem groupOuter_spec :
    ∀ (fuel : Nat) (s : σ) (seg : List (α × Nat)) (i : Nat), 0 < fuel → seg.length < fuel + i →
      Holds abs ok s (pre ++ seg ++ post) → 1 ≤ i → ContigUpTo eq seg i →
      ∃ s' seg', groupOuter M eq pre.length seg.length fuel s i = some s' ∧
        Holds abs ok s' (pre ++ seg' ++ post) ∧ seg'.Perm seg ∧ ContigL eq seg' := by
  intro fuel
  induction fuel with
  | zero => intro s seg i h; omega
  | succ f ih =>
    intro s seg i _ hf hh hi1 hcu
    unfold groupOuter
    by_cases hi : i < seg.length
    · have hi' : i - 1 < seg.length := by omega
      simp only [hi, if_true, L.item_at hh (i - 1) hi', L.item_at hh i hi, Option.bind_some]
      by_cases hxy : eq (seg[i - 1]'hi').1 (seg[i]'hi).1 = true
      · simp only [hxy, if_true]
        exact ih s seg (i + 1) (by omega) (by omega) hh (by omega)
          (contigUpTo_succ_of_eq he hi1 hcu (eqAt_of_getElem hi' hi hxy))
      · simp only [hxy]
        have hne : ∀ k, i ≤ k → k < i + 1 → ¬ EqAt eq seg (i - 1) k := by
          intro k hk1 hk2
          have : k = i := by omega
          subst this
          exact not_eqAt_of_getElem hi' hi hxy
        obtain ⟨s', seg', i', h1, h2, h3, h4, h5, h6⟩ := groupInner_spec L he pre post (seg.length + 1) s seg i (i + 1)
          (by omega) (by omega) hh hi1 (by omega) (by omega) hcu (eqAt_of_getElem hi' hi' (he.refl _)) hne
        rw [h1]
        simp only [Option.bind_some]
        have hlen : seg'.length = seg.length := h3.length_eq
        obtain ⟨s'', seg'', g1, g2, g3, g4⟩ := ih s' seg' (i' + 1) (by omega) (by rw [hlen]; omega) h2 (by omega)
          (contigUpTo_succ_of_tail he (by omega) h5 h6)
        rw [hlen] at g1
        exact ⟨s'', seg'', g1, g2, g3.trans h3, g4⟩
    · simp only [hi, if_false]
      refine ⟨s, seg, rfl, hh, List.Perm.refl _, ?_⟩
      intro a b c hab hbc hac
      have := hac.lt_right
      exact hcu a b c hab hbc (by omega) hac

/-- **`pvGroup`**: the range becomes a permutation of itself whose equal items are contiguous; cells
outside the range keep their contents; no access leaves the range. -/
theorem group_spec (s : σ) (seg : List (α × Nat)) (hh : Holds abs ok s (pre ++ seg ++ post)) :
    ∃ s' seg', group M eq s pre.length seg.length = some s' ∧
      Holds abs ok s' (pre ++ seg' ++ post) ∧ seg'.Perm seg ∧ ContigL eq seg' := by
  unfold group
  apply groupOuter_spec L he pre post (seg.length + 1) s seg 1 (by omega) (by omega) hh (by omega)
  intro a b c hab hbc hb
  omega

end

end Momo.Sort
