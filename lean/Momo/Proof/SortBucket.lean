import Momo.Proof.SortCount
/-!
  C17 lemmas, part 8: after the partition step the range is the concatenation of its radix buckets, the
  `endIndexes` array lists the bucket ends, and the loop `for (size_t e : endIndexes)` (RadixSorter.h:164-181)
  treats every bucket in place.
-/
namespace Momo.Sort
variable {σ α : Type}

/-! ### a list sorted by a key is the concatenation of its key classes -/

theorem sorted_split (f : α × Nat → Nat) (n : Nat) :
    ∀ l : List (α × Nat), l.Pairwise (fun x y => f x ≤ f y) →
      l = l.filter (fun x => decide (f x < n)) ++ l.filter (fun x => !decide (f x < n)) := by
  intro l
  induction l with
  | nil => intro _; rfl
  | cons a t ih =>
    intro hp
    rw [List.pairwise_cons] at hp
    by_cases ha : f a < n
    · simp only [List.filter_cons, ha, decide_true, if_true, Bool.not_true, Bool.false_eq_true, if_false, List.cons_append]
      rw [← ih hp.2]
    · have hall : ∀ y ∈ t, ¬ f y < n := fun y hy => by have := hp.1 y hy; omega
      have e1 : t.filter (fun x => decide (f x < n)) = [] := by
        apply List.filter_eq_nil_iff.2
        intro y hy; simp [hall y hy]
      have e2 : t.filter (fun x => !decide (f x < n)) = t := by
        apply List.filter_eq_self.2
        intro y hy; simp [hall y hy]
      simp [ha, e1, e2]

/-- the radix classes `0 … n-1` of a list -/
def classes (f : α × Nat → Nat) (l : List (α × Nat)) (n : Nat) : List (List (α × Nat)) :=
  (List.range n).map fun q => l.filter fun x => f x == q

theorem flatten_classes (f : α × Nat → Nat) :
    ∀ (n : Nat) (l : List (α × Nat)), l.Pairwise (fun x y => f x ≤ f y) → (∀ x ∈ l, f x < n) →
      (classes f l n).flatten = l := by
  intro n
  induction n with
  | zero =>
    intro l _ hlt
    cases l with
    | nil => rfl
    | cons a t => exact absurd (hlt a (by simp)) (by omega)
  | succ n ih =>
    intro l hp hlt
    unfold classes at *
    rw [List.range_succ, List.map_append, List.flatten_append]
    simp only [List.map_cons, List.map_nil, List.flatten_cons, List.flatten_nil, List.append_nil]
    have hsplit := sorted_split f n l hp
    have hlow := ih (l.filter (fun x => decide (f x < n))) (hp.sublist List.filter_sublist)
      (fun x hx => by simpa using (List.mem_filter.1 hx).2)
    have e1 : (List.range n).map (fun q => (l.filter (fun x => decide (f x < n))).filter fun x => f x == q)
        = (List.range n).map (fun q => l.filter fun x => f x == q) := by
      apply List.map_congr_left
      intro q hq
      rw [List.filter_filter]
      congr 1
      funext x
      have := List.mem_range.1 hq
      by_cases h : f x = q
      · simp [h, this]
      · simp [h]
    rw [e1] at hlow
    rw [hlow]
    have e2 : l.filter (fun x => f x == n) = l.filter (fun x => !decide (f x < n)) := by
      apply List.filter_congr
      intro x hx
      have := hlt x hx
      by_cases h : f x = n
      · simp [h]
      · have : f x < n := by omega
        simp [h, this]
    rw [e2]
    exact hsplit.symm

/-- running ends of consecutive blocks starting at offset `bi` -/
def ends (bi : Nat) : List (List (α × Nat)) → List Nat
  | [] => []
  | b :: bs => (bi + b.length) :: ends (bi + b.length) bs

theorem countP_lt_succ (l : List (α × Nat)) (f : α × Nat → Nat) (a : Nat) :
    l.countP (fun x => decide (f x < a + 1)) = l.countP (fun x => decide (f x ≤ a)) := by
  congr 1
  funext x
  by_cases h : f x ≤ a
  · have : f x < a + 1 := by omega
    simp [h, this]
  · have : ¬ f x < a + 1 := by omega
    simp [h, this]

theorem countP_le_eq (l : List (α × Nat)) (f : α × Nat → Nat) (a : Nat) :
    l.countP (fun x => decide (f x ≤ a)) = l.countP (fun x => decide (f x < a)) + (l.filter fun x => f x == a).length := by
  rw [← List.countP_eq_length_filter]
  induction l with
  | nil => simp
  | cons x t ih =>
    simp only [List.countP_cons, ih]
    by_cases h1 : f x < a
    · have h2 : f x ≤ a := by omega
      have h3 : ¬ f x = a := by omega
      simp [h1, h2, h3]; omega
    · by_cases h3 : f x = a
      · simp [h3]; omega
      · have h2 : ¬ f x ≤ a := by omega
        simp [h1, h2, h3]

theorem ends_classes (f : α × Nat → Nat) (l : List (α × Nat)) :
    ∀ (m a : Nat), ends (l.countP fun x => decide (f x < a)) ((List.range' a m).map fun q => l.filter fun x => f x == q)
      = (List.range' a m).map fun q => l.countP fun x => decide (f x ≤ q) := by
  intro m
  induction m with
  | zero => intro a; rfl
  | succ m ih =>
    intro a
    simp only [List.range'_succ, List.map_cons, ends]
    rw [← countP_le_eq, ← countP_lt_succ l f a, ih (a + 1), countP_lt_succ]

theorem ends_classes_zero (f : α × Nat → Nat) (l : List (α × Nat)) (n : Nat) :
    ends 0 (classes f l n) = (List.range n).map fun q => l.countP fun x => decide (f x ≤ q) := by
  have := ends_classes f l n 0
  have e : (l.countP fun x => decide (f x < 0)) = 0 := by simp
  rw [e] at this
  unfold classes
  rw [List.range_eq_range']
  exact this

/-- an `endIndexes` array holding the cumulative counts lists the ends of the radix classes -/
theorem toList_eq_ends (f : α × Nat → Nat) (l : List (α × Nat)) (n : Nat) (E : Array Nat) (hE : E.size = n)
    (hcnt : ∀ q, q < n → cnt E q = l.countP fun x => decide (f x ≤ q)) :
    E.toList = ends 0 (classes f l n) := by
  rw [ends_classes_zero]
  apply List.ext_getElem?
  intro k
  simp only [Array.getElem?_toList, List.getElem?_map]
  by_cases hk : k < n
  · rw [List.getElem?_range hk]
    have := hcnt k hk
    unfold cnt at this
    rw [Array.getElem?_eq_getElem (by omega)] at this ⊢
    simp at this ⊢
    exact this
  · rw [Array.getElem?_eq_none (by omega), List.getElem?_eq_none (by simp; omega)]
    rfl

/-! ### the bucket loop -/

/-- two lists of blocks of the same length whose blocks are related pairwise -/
inductive AllRel (Rel : List (α × Nat) → List (α × Nat) → Prop) : List (List (α × Nat)) → List (List (α × Nat)) → Prop
  | nil : AllRel Rel [] []
  | cons {b b' : List (α × Nat)} {bs bs' : List (List (α × Nat))} : Rel b b' → AllRel Rel bs bs' → AllRel Rel (b :: bs) (b' :: bs')

section
variable {abs : σ → List (α × Nat)} {ok : σ → Prop} (pre post : List (α × Nat))

/-- the loop body `fn` is applied to every block in turn; `Rel` relates a block to its result -/
theorem bucketLoop_spec (fn : σ → Nat → Nat → Option σ) (Rel : List (α × Nat) → List (α × Nat) → Prop)
    (hlen : ∀ b b', Rel b b' → b'.length = b.length) :
    ∀ (bs : List (List (α × Nat))) (s : σ) (done : List (α × Nat)),
      Holds abs ok s (pre ++ (done ++ bs.flatten) ++ post) →
      (∀ b ∈ bs, ∀ (s : σ) (pre' post' : List (α × Nat)), Holds abs ok s (pre' ++ b ++ post') →
        ∃ s' b', fn s pre'.length b.length = some s' ∧ Holds abs ok s' (pre' ++ b' ++ post') ∧ Rel b b') →
      ∃ s' bs', bucketLoop fn pre.length (ends done.length bs) s done.length = some s' ∧
        Holds abs ok s' (pre ++ (done ++ bs'.flatten) ++ post) ∧ AllRel Rel bs bs' := by
  intro bs
  induction bs with
  | nil =>
    intro s done hh _
    exact ⟨s, [], rfl, hh, AllRel.nil⟩
  | cons b bs ih =>
    intro s done hh hfn
    simp only [ends, bucketLoop]
    have hsub : done.length ≤ done.length + b.length := by omega
    simp only [csub, hsub, if_true, Option.bind_some, Nat.add_sub_cancel_left]
    have hh' : Holds abs ok s ((pre ++ done) ++ b ++ (bs.flatten ++ post)) := by
      simpa [List.append_assoc] using hh
    obtain ⟨s', b', h1, h2, h3⟩ := hfn b (by simp) s (pre ++ done) (bs.flatten ++ post) hh'
    have e : (pre ++ done).length = pre.length + done.length := by simp
    rw [← e, h1]
    simp only [Option.bind_some]
    have hl := hlen b b' h3
    have hh'' : Holds abs ok s' (pre ++ ((done ++ b') ++ bs.flatten) ++ post) := by
      simpa [List.append_assoc] using h2
    obtain ⟨s'', bs', g1, g2, g3⟩ := ih s' (done ++ b') hh'' (fun c hc => hfn c (by simp [hc]))
    have e2 : (done ++ b').length = done.length + b.length := by simp [hl]
    rw [e2] at g1
    refine ⟨s'', b' :: bs', g1, ?_, AllRel.cons h3 g3⟩
    simpa [List.append_assoc] using g2

end

/-! ### gluing the treated buckets together -/

theorem sortPost_flatten {Q : α × Nat → Prop} {P : List (α × Nat) → Prop} (hP : GoodP Q P) :
    ∀ (bs bs' : List (List (α × Nat))), AllRel (SortPost P) bs bs' →
      bs.Pairwise (fun b1 b2 => ∀ x ∈ b1, ∀ y ∈ b2, x.2 < y.2) → (∀ b ∈ bs, ∀ x ∈ b, Q x) →
      SortPost P bs.flatten bs'.flatten := by
  intro bs bs' h
  induction h with
  | nil => intro _ _; exact ⟨List.Perm.refl _, List.Pairwise.nil, hP.small [] (by simp)⟩
  | @cons b b' bs bs' h1 _ ih =>
    intro hpw hQ
    rw [List.pairwise_cons] at hpw
    obtain ⟨p1, p2, p3⟩ := ih hpw.2 (fun c hc => hQ c (by simp [hc]))
    obtain ⟨q1, q2, q3⟩ := h1
    have hcross : ∀ x ∈ b', ∀ y ∈ bs'.flatten, x.2 < y.2 := by
      intro x hx y hy
      have hy' := p1.mem_iff.1 hy
      obtain ⟨c, hc, hyc⟩ := List.mem_flatten.1 hy'
      exact hpw.1 c hc x (q1.mem_iff.1 hx) y hyc
    simp only [List.flatten_cons]
    refine ⟨q1.append p1, ?_, ?_⟩
    · unfold SortedL
      rw [List.pairwise_append]
      exact ⟨q2, p2, fun x hx y hy => Nat.le_of_lt (hcross x hx y hy)⟩
    · apply hP.append b' bs'.flatten _ _ q3 p3 hcross
      · intro x hx; exact hQ b (by simp) x (q1.mem_iff.1 hx)
      · intro y hy
        obtain ⟨c, hc, hyc⟩ := List.mem_flatten.1 (p1.mem_iff.1 hy)
        exact hQ c (by simp [hc]) y hyc

end Momo.Sort
