import Momo.Proof.PoolIf
/-!
  State machine of `MemPool` (C09), `blockCount > 1`: every legal history keeps the invariant and an exact
  ledger of the memory manager.
-/
namespace Momo.Pool

/-- the memory manager's contract for the answers `orc` to pool `p`: aligned as the pool assumes, and not
    overlapping memory the pool holds -/
def Contract (P : Params) (p : Pool) (orc : Oracle) : Prop :=
  ∀ j base, orc j = some base → P.allocAlign ∣ base ∧
    ∀ b ∈ p.store, base + P.bufferSize ≤ b.base ∨ b.base + P.bufferSize ≤ base

/-- legal histories of a pool with `blockCount > 1`, with all calls made to the memory manager so far.
    `Deallocate` is applied to live blocks only; the manager honours `Contract`; two pools are merged only
    if they hold different memory (they share one manager). -/
inductive Reach (P : Params) : Pool → List Ev → Prop
  | init : Reach P Pool.empty []
  | alloc {p es orc blk p' evs} : Reach P p es → Contract P p orc →
      allocate P p orc = .ok blk p' evs → Reach P p' (es ++ evs)
  | allocFail {p es orc p' evs} : Reach P p es → Contract P p orc →
      allocate P p orc = .badAlloc p' evs → Reach P p' (es ++ evs)
  | dealloc {p es blk p' evs} : Reach P p es → blk ∈ p.live P →
      deallocate P p blk = .ok () p' evs → Reach P p' (es ++ evs)
  | deallocIf {p es f tr p' evs} : Reach P p es →
      deallocateIf P p f = .ok tr p' evs → Reach P p' (es ++ evs)
  | deallocAll {p es p' evs} : Reach P p es →
      deallocateAll P p = .ok () p' evs → Reach P p' (es ++ evs)
  | merge {a ea b eb b' a' evs} : Reach P a ea → Reach P b eb → (∀ x ∈ bufs a.store, x ∉ bufs b.store) →
      mergeFrom P a b = .ok b' a' evs → Reach P a' (ea ++ eb ++ evs)

/-- the ledger of all events so far is exactly the memory the pool holds -/
def LedgerIs (P : Params) (es : List Ev) (st : List Buffer) : Prop :=
  ∃ L, ledger [] es = some L ∧ L.Perm (owned P st)

theorem LedgerIs.step {P : Params} {es evs : List Ev} {st st' : List Buffer} (h : LedgerIs P es st)
    (hl : LedgerOK P st evs st') : LedgerIs P (es ++ evs) st' := by
  obtain ⟨L, h1, h2⟩ := h
  obtain ⟨L', h3, h4⟩ := hl
  obtain ⟨M, h5, h6⟩ := ledger_perm evs h2.symm L' h3
  exact ⟨M, by rw [ledger_append, h1]; exact h5, h6.symm.trans h4⟩

theorem Reach.inv {P : Params} {k : Int} (hM : Multi P k) (hN2 : 2 ≤ P.N) (hA2 : P.A ≤ 1024) {p : Pool} {es : List Ev}
    (h : Reach P p es) : PoolWF P p ∧ LedgerIs P es p.store := by
  induction h with
  | init => exact ⟨PoolWF.empty P, [], rfl, by simp [owned, Pool.empty]⟩
  | @alloc p es orc blk p' evs _ hc he ih =>
    have := allocate_ok hM hN2 ih.1 (orcOK_of_disjoint hM hA2 ih.1.core orc hc)
    rw [he] at this
    exact ⟨this.wf, ih.2.step this.ledger⟩
  | @allocFail p es orc p' evs _ hc he ih =>
    have := allocate_ok hM hN2 ih.1 (orcOK_of_disjoint hM hA2 ih.1.core orc hc)
    rw [he] at this
    obtain ⟨rfl, rfl, _⟩ := this
    exact ⟨ih.1, by simpa using ih.2⟩
  | @dealloc p es blk p' evs _ hb he ih =>
    obtain ⟨p2, e2, h2, hs⟩ := deallocate_ok hM hN2 hA2 ih.1 blk hb
    rw [he] at h2; cases h2
    exact ⟨hs.wf, ih.2.step hs.ledger⟩
  | @deallocIf p es f tr p' evs _ he ih =>
    obtain ⟨tr2, p2, e2, h2, hwf, _, _, hl⟩ := deallocateIf_ok hM hN2 hA2 ih.1 f
    rw [he] at h2; cases h2
    exact ⟨hwf, ih.2.step hl⟩
  | @deallocAll p es p' evs _ he ih =>
    obtain ⟨p2, e2, h2, hemp, hl⟩ := deallocateAll_ok hM hN2 hA2 ih.1
    rw [he] at h2; cases h2
    rw [hemp]
    exact ⟨PoolWF.empty P, by simpa [Pool.empty] using ih.2.step hl⟩
  | @merge a ea b eb b' a' evs _ _ hdis he iha ihb =>
    obtain ⟨a2, e2, h2, hwf, _, _, hl⟩ := mergeFrom_ok hM hN2 hA2 iha.1 ihb.1 hdis
    rw [he] at h2; cases h2
    refine ⟨hwf, ?_⟩
    have hboth : LedgerIs P (ea ++ eb) (a.store ++ b.store) := by
      obtain ⟨La, ha1, ha2⟩ := iha.2
      obtain ⟨Lb, hb1, hb2⟩ := ihb.2
      have := ledger_frame La eb [] Lb hb1
      refine ⟨Lb ++ La, by rw [ledger_append, ha1]; simpa using this, ?_⟩
      simp only [owned, List.map_append]
      exact List.perm_append_comm.trans (List.Perm.append ha2 hb2)
    exact hboth.step hl

end Momo.Pool
