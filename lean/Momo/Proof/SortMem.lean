import Momo.Model.Sort
/-!
  C17 lemmas, part 4: memory states as lists.  A memory `M` is *lawful* for an abstraction
  `abs : σ → List (α × Nat)` (cells = (item, code)) on the states satisfying `ok` when reads return the
  abstract cells and an in-range swap succeeds, keeps `ok`, and swaps the two abstract cells.
  `plainMem` (Sort) and `preMem` (SortPrehashed: items and the parallel hash array are swapped together)
  are lawful; all sorting lemmas are proved for an arbitrary lawful memory.
-/
namespace Momo.Sort
variable {σ α β : Type}

/-- exchange cells `i` and `j` of a list (nothing happens when an index is out of range) -/
def swapL (l : List β) (i j : Nat) : List β :=
  match l[i]?, l[j]? with
  | some x, some y => (l.set i y).set j x
  | _, _ => l

theorem swapL_length (l : List β) (i j : Nat) : (swapL l i j).length = l.length := by
  unfold swapL; split <;> simp

theorem swapL_perm (l : List β) (i j : Nat) : (swapL l i j).Perm l := by
  unfold swapL
  split
  · rename_i x y hx hy
    obtain ⟨hi, rfl⟩ := List.getElem?_eq_some_iff.1 hx
    obtain ⟨hj, rfl⟩ := List.getElem?_eq_some_iff.1 hy
    exact List.set_set_perm hi hj
  · exact List.Perm.refl _

theorem swapL_getElem? (l : List β) (i j k : Nat) (hi : i < l.length) (hj : j < l.length) :
    (swapL l i j)[k]? = if k = j then l[i]? else if k = i then l[j]? else l[k]? := by
  unfold swapL
  rw [List.getElem?_eq_getElem hi, List.getElem?_eq_getElem hj]
  simp only [List.getElem?_set, List.length_set]
  by_cases h1 : k = j
  · subst h1; simp [hj]
  · by_cases h2 : k = i
    · subst h2
      simp [h1, hi, Ne.symm h1]
    · simp [h1, h2, Ne.symm h1, Ne.symm h2]

theorem swapL_append_mid (pre seg post : List β) (i j : Nat) (hi : i < seg.length) (hj : j < seg.length) :
    swapL (pre ++ seg ++ post) (pre.length + i) (pre.length + j) = pre ++ swapL seg i j ++ post := by
  apply List.ext_getElem?
  intro k
  rw [swapL_getElem? _ _ _ _ (by simp; omega) (by simp; omega)]
  simp only [List.append_assoc, List.getElem?_append, swapL_length]
  by_cases hk : k < pre.length
  · have h1 : ¬ k = pre.length + j := by omega
    have h2 : ¬ k = pre.length + i := by omega
    simp [h1, h2, hk]
  · simp only [hk, if_false, show ¬ pre.length + i < pre.length by omega, show ¬ pre.length + j < pre.length by omega,
      Nat.add_sub_cancel_left, hi, hj, if_true]
    by_cases hks : k - pre.length < seg.length
    · simp only [hks, if_true]
      rw [swapL_getElem? _ _ _ _ hi hj]
      by_cases h1 : k = pre.length + j
      · simp [h1]
      · by_cases h2 : k = pre.length + i
        · have : ¬ i = j := by omega
          simp [h2, this]
        · have h3 : ¬ k - pre.length = j := by omega
          have h4 : ¬ k - pre.length = i := by omega
          simp [h1, h2, h3, h4, hks]
    · have h1 : ¬ k = pre.length + j := by omega
      have h2 : ¬ k = pre.length + i := by omega
      simp [h1, h2, hks]

/-- `M` behaves like the list `abs s` on the states satisfying `ok` -/
structure Lawful (M : Mem σ α) (abs : σ → List (α × Nat)) (ok : σ → Prop) : Prop where
  item : ∀ s, ok s → ∀ i, M.item s i = (abs s)[i]?.map Prod.fst
  code : ∀ s, ok s → ∀ i, M.code s i = (abs s)[i]?.map Prod.snd
  swap : ∀ s, ok s → ∀ i j, i < (abs s).length → j < (abs s).length →
    ∃ s', M.swap s i j = some s' ∧ ok s' ∧ abs s' = swapL (abs s) i j

/-- state `s` is well-formed and holds the list `l` -/
def Holds (abs : σ → List (α × Nat)) (ok : σ → Prop) (s : σ) (l : List (α × Nat)) : Prop := ok s ∧ abs s = l

section
variable {M : Mem σ α} {abs : σ → List (α × Nat)} {ok : σ → Prop}

theorem Lawful.item_at (L : Lawful M abs ok) {s : σ} {pre seg post : List (α × Nat)}
    (h : Holds abs ok s (pre ++ seg ++ post)) (i : Nat) (hi : i < seg.length) :
    M.item s (pre.length + i) = some (seg[i]'hi).1 := by
  rw [L.item s h.1, h.2]
  simp [List.getElem?_append, hi]

theorem Lawful.code_at (L : Lawful M abs ok) {s : σ} {pre seg post : List (α × Nat)}
    (h : Holds abs ok s (pre ++ seg ++ post)) (i : Nat) (hi : i < seg.length) :
    M.code s (pre.length + i) = some (seg[i]'hi).2 := by
  rw [L.code s h.1, h.2]
  simp [List.getElem?_append, hi]

theorem Lawful.swap_at (L : Lawful M abs ok) {s : σ} {pre seg post : List (α × Nat)}
    (h : Holds abs ok s (pre ++ seg ++ post)) (i j : Nat) (hi : i < seg.length) (hj : j < seg.length) :
    ∃ s', M.swap s (pre.length + i) (pre.length + j) = some s' ∧ Holds abs ok s' (pre ++ swapL seg i j ++ post) := by
  obtain ⟨s', h1, h2, h3⟩ := L.swap s h.1 (pre.length + i) (pre.length + j) (by rw [h.2]; simp; omega) (by rw [h.2]; simp; omega)
  refine ⟨s', h1, h2, ?_⟩
  rw [h3, h.2, swapL_append_mid _ _ _ _ _ hi hj]

end

/-! ### the two concrete memories -/

theorem plainMem_lawful (hash : α → Nat) :
    Lawful (plainMem hash) (fun a => a.toList.map fun x => (x, hash x)) (fun _ => True) where
  item := by
    intro a _ i
    simp [plainMem, List.getElem?_map]
    cases a[i]? <;> rfl
  code := by
    intro a _ i
    simp [plainMem, List.getElem?_map]
    cases a[i]? <;> rfl
  swap := by
    intro a _ i j hi hj
    simp only [List.length_map, Array.length_toList] at hi hj
    refine ⟨a.swap i j hi hj, by simp [plainMem, hi, hj], trivial, ?_⟩
    apply List.ext_getElem?
    intro k
    rw [swapL_getElem? _ _ _ _ (by simpa using hi) (by simpa using hj)]
    simp only [List.getElem?_map, Array.getElem?_toList, Array.getElem?_swap]
    by_cases h1 : j = k
    · subst h1; simp [Array.getElem?_eq_getElem hi]
    · by_cases h2 : i = k
      · subst h2; simp [h1, Ne.symm h1, Array.getElem?_eq_getElem hj]
      · simp [h1, h2, Ne.symm h1, Ne.symm h2]

theorem getElem?_zip' {γ : Type} (a : List α) (b : List γ) (k : Nat) :
    (a.zip b)[k]? = match a[k]?, b[k]? with
      | some x, some y => some (x, y)
      | _, _ => none := by
  rw [List.zip_eq_zipWith, List.getElem?_zipWith]
  cases a[k]? <;> cases b[k]? <;> rfl

theorem preMem_lawful :
    Lawful (preMem (α := α)) (fun s => s.1.toList.zip s.2.toList) (fun s => s.1.size = s.2.size) where
  item := by
    intro s hs i
    simp only [preMem]
    by_cases hi : i < s.1.size
    · have hi2 : i < s.2.size := by omega
      rw [List.getElem?_eq_getElem (by simp; omega)]
      simp [Array.getElem?_eq_getElem hi]
    · rw [List.getElem?_eq_none (by simp; omega)]
      simp [Array.getElem?_eq_none (Nat.le_of_not_lt hi)]
  code := by
    intro s hs i
    simp only [preMem]
    by_cases hi : i < s.2.size
    · rw [List.getElem?_eq_getElem (by simp; omega)]
      simp [Array.getElem?_eq_getElem hi]
    · rw [List.getElem?_eq_none (by simp; omega)]
      simp [Array.getElem?_eq_none (Nat.le_of_not_lt hi)]
  swap := by
    intro s hs i j hi hj
    simp only [List.length_zip, Array.length_toList] at hi hj
    have hi1 : i < s.1.size := by omega
    have hj1 : j < s.1.size := by omega
    have hi2 : i < s.2.size := by omega
    have hj2 : j < s.2.size := by omega
    refine ⟨(s.1.swap i j hi1 hj1, s.2.swap i j hi2 hj2), by simp [preMem, hi1, hj1, hi2, hj2], by simpa using hs, ?_⟩
    apply List.ext_getElem?
    intro k
    rw [swapL_getElem? _ _ _ _ (by simp; omega) (by simp; omega)]
    simp only [getElem?_zip', Array.getElem?_toList, Array.getElem?_swap]
    by_cases h1 : j = k
    · subst h1; simp [Array.getElem?_eq_getElem hi1, Array.getElem?_eq_getElem hi2]
    · by_cases h2 : i = k
      · subst h2; simp [h1, Ne.symm h1, Array.getElem?_eq_getElem hj1, Array.getElem?_eq_getElem hj2]
      · simp [h1, h2, Ne.symm h1, Ne.symm h2]

/-- logging the swaps does not change what the memory holds -/
theorem tracedMem_lawful {M : Mem σ α} {abs : σ → List (α × Nat)} {ok : σ → Prop} (L : Lawful M abs ok) :
    Lawful (tracedMem M) (fun s => abs s.1) (fun s => ok s.1) where
  item := fun s hs i => L.item s.1 hs i
  code := fun s hs i => L.code s.1 hs i
  swap := by
    intro s hs i j hi hj
    obtain ⟨a, n, chk⟩ := s
    obtain ⟨a', h1, h2, h3⟩ := L.swap a hs i j hi hj
    exact ⟨(a', n + 1, (chk * 1000003 + i * 65537 + j + 1) % 2 ^ 64), by simp [tracedMem, h1], h2, h3⟩

end Momo.Sort
