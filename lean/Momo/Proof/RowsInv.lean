import Momo.Proof.RowsCount
/-!
  Lemmas for the row hand-off model (C19), part 3: the protocol invariant `RInv`, holds initially and is
  preserved by every step of every thread (`RInv_step`), hence in every state reached by any schedule (`RInv_run`).
-/
namespace Momo.Rows

/-- the invariant of the hand-off protocol -/
structure RInv (s : St) : Prop where
  /-- `head` points to the newest published block -/
  headL : s.head = s.L.head?
  /-- the owner's walk pointer is the front of the chain it took -/
  curW  : s.cur = s.W.head?
  linkL : Linked s.next s.L
  linkW : Linked s.next s.W
  /-- every block is in at most one place -/
  nodup : ∀ r : Row, (places s).count r ≤ 1
  /-- a thread that has written the link still finds it unchanged at its CAS -/
  wroteOk : ∀ (t : Tid) (r : Row) (h : Option Row), s.thr[t]? = some (PC.wrote r h) → s.next r = h
  /-- the owner holds a taken chain only while it walks it -/
  walkW : (∀ b, s.mpc ≠ MPC.walking b) → s.W = []
  /-- per block: allocations = reclamations + (1 if currently handed out) -/
  cnt1 : ∀ r : Row, s.log.count (Ev.created r) = s.log.count (Ev.reclaimed r) + (live s).count r
  /-- per block: pushes = takes + (1 if currently on the free list) -/
  cnt2 : ∀ r : Row, s.log.count (Ev.pushed r) = s.log.count (Ev.taken r) + s.L.count r

theorem RInv_init (n : Nat) : RInv (init n) := by
  have hI : inflight (init n) = [] := by
    simp [inflight, init, List.filterMap_eq_nil_iff, PC.row]
  refine ⟨rfl, rfl, trivial, trivial, ?_, ?_, fun _ => rfl, ?_, ?_⟩
  · intro r; rw [places, hI]; simp [detRows, init]
  · intro t r h ht
    simp only [init] at ht
    have := List.mem_of_getElem? ht
    simp at this
  · intro r; rw [live, hI]; simp [detRows, init]
  · intro r; simp [init]

theorem not_mem_of_count {l : List Row} {x : Row} (h : l.count x = 0) : x ∉ l := List.count_eq_zero.mp h
theorem count_pos_of_mem {l : List Row} {x : Row} (h : x ∈ l) : 0 < l.count x := List.count_pos_iff.mpr h

theorem W_of_cur {s : St} {c : Row} (hI : RInv s) (hc : s.cur = some c) : s.W = c :: s.W.tail := by
  have := hI.curW; rw [hc] at this
  cases hw : s.W with
  | nil => simp [hw] at this
  | cons a t => simp [hw] at this; simp [this]

theorem getElem?_setPC {s : St} {t t' : Tid} {pc q : PC} (h : (setPC s t pc)[t']? = some q) :
    (t' = t ∧ q = pc) ∨ (t' ≠ t ∧ s.thr[t']? = some q) := by
  unfold setPC at h
  by_cases ht : t = t'
  · subst ht
    rw [List.getElem?_set_self'] at h
    left; refine ⟨rfl, ?_⟩
    cases hq : s.thr[t]? with
    | none => simp [hq] at h
    | some v => simp [hq] at h; exact h.symm
  · rw [List.getElem?_set_ne ht] at h
    right; exact ⟨fun e => ht e.symm, h⟩

theorem inflight_nodup {s : St} (hI : RInv s) : (inflight s).Nodup := by
  rw [List.nodup_iff_count]
  intro a; have := hI.nodup a
  simp only [places, List.count_append] at this; omega

theorem RInv_step {s s' : St} {a : Act} (hs : Step s a s') (hI : RInv s) : RInv s' := by
  cases hs with
  | newBegin hm =>
    refine ⟨hI.headL, hI.curW, hI.linkL, hI.linkW, hI.nodup, hI.wroteOk, ?_, hI.cnt1, hI.cnt2⟩
    intro _; exact hI.walkW (by intro b; rw [hm]; simp)
  | takeBegin hm =>
    refine ⟨hI.headL, hI.curW, hI.linkL, hI.linkW, hI.nodup, hI.wroteOk, ?_, hI.cnt1, hI.cnt2⟩
    intro _; exact hI.walkW (by intro b; rw [hm]; simp)
  | exchange b hm =>
    have hW : s.W = [] := hI.walkW (by intro b'; rw [hm]; simp)
    refine ⟨rfl, hI.headL, trivial, hI.linkL, ?_, hI.wroteOk, ?_, ?_, ?_⟩
    · intro r; have := hI.nodup r
      simp only [places, inflight, detRows, List.count_append, hW, List.count_nil] at this ⊢
      omega
    · intro h; exact absurd rfl (h b)
    · intro r; have := hI.cnt1 r
      simp only [live, inflight, detRows, List.count_append, hW, List.count_nil] at this ⊢
      simp only [count_map_taken_created, count_map_taken_reclaimed]
      omega
    · intro r; have := hI.cnt2 r
      simp only [List.count_nil, List.count_append, count_map_taken_pushed, count_map_taken]
      omega
  | walk b c g hm hc =>
    have hW := W_of_cur hI hc
    have hlW := hI.linkW
    rw [hW] at hlW
    have hn := hI.nodup c
    simp only [places, List.count_append] at hn
    rw [hW, List.count_cons_self] at hn
    have hcL : c ∉ s.L := not_mem_of_count (by omega)
    have hcWt : c ∉ s.W.tail := not_mem_of_count (by omega)
    have hcI : c ∉ inflight s := not_mem_of_count (by omega)
    refine ⟨hI.headL, ?_, ?_, ?_, ?_, ?_, ?_, ?_, ?_⟩
    · exact Linked_head_next hlW
    · exact Linked_setNext hI.linkL hcL
    · exact Linked_setNext (Linked_tail hI.linkW) hcWt
    · intro r; have := hI.nodup r
      simp only [places, inflight, detRows, List.count_append] at this ⊢
      rw [hW] at this
      simp only [List.count_cons] at this ⊢
      omega
    · intro t r h ht
      have hr : r ≠ c := fun e => hcI (e ▸ mem_inflight ht rfl)
      simp only [setNext, hr, if_false]
      exact hI.wroteOk t r h ht
    · intro h; exact absurd hm (h b)
    · intro r; have := hI.cnt1 r
      simp only [live, inflight, detRows, List.count_append] at this ⊢
      rw [hW] at this
      simp only [List.count_cons, beq_iff_eq, Ev.reclaimed.injEq, reduceCtorEq, if_false] at this ⊢
      omega
    · intro r; have := hI.cnt2 r
      simp only [List.count_cons, beq_iff_eq, reduceCtorEq, if_false] at this ⊢
      omega
  | walkEnd b hm hc =>
    have hW : s.W = [] := by
      have := hI.curW; rw [hc] at this
      cases hw : s.W with
      | nil => rfl
      | cons a t => simp [hw] at this
    refine ⟨hI.headL, hI.curW, hI.linkL, hI.linkW, hI.nodup, hI.wroteOk, fun _ => hW, hI.cnt1, hI.cnt2⟩
  | grow r g hm hr =>
    have hr0 : (places s).count r = 0 := List.count_eq_zero.mpr hr
    have hr0' := hr0
    simp only [places, List.count_append] at hr0'
    have hrL : r ∉ s.L := not_mem_of_count (by omega)
    have hrW : r ∉ s.W := not_mem_of_count (by omega)
    have hrI : r ∉ inflight s := not_mem_of_count (by omega)
    refine ⟨hI.headL, hI.curW, Linked_setNext hI.linkL hrL, Linked_setNext hI.linkW hrW, ?_, ?_, hI.walkW, hI.cnt1, hI.cnt2⟩
    · intro x; have := hI.nodup x
      show (inflight s ++ detRows s ++ s.table ++ (r :: s.pool) ++ s.L ++ s.W).count x ≤ 1
      simp only [places, List.count_append, List.count_cons, beq_iff_eq] at this hr0 ⊢
      by_cases hx : r = x
      · subst hx; simp only [if_true]; omega
      · simp only [hx, if_false]; omega
    · intro t r' h ht
      have hr' : r' ≠ r := fun e => hrI (e ▸ mem_inflight ht rfl)
      simp only [setNext, hr', if_false]
      exact hI.wroteOk t r' h ht
  | alloc r g hm hr =>
    have hW : s.W = [] := hI.walkW (by intro b; rw [hm]; simp)
    have hc := count_pool_erase hr
    have hnr := hI.nodup r
    have hrP := count_pos_of_mem hr
    simp only [places, List.count_append] at hnr
    have hrL : r ∉ s.L := not_mem_of_count (by omega)
    have hrI : r ∉ inflight s := not_mem_of_count (by omega)
    refine ⟨hI.headL, hI.curW, Linked_setNext hI.linkL hrL, ?_, ?_, ?_, fun _ => hW, ?_, ?_⟩
    · rw [hW]; trivial
    · intro x; have := hI.nodup x; have := hc x
      show (inflight s ++ ((r, 0) :: s.det).map Prod.fst ++ s.table ++ s.pool.erase r ++ s.L ++ s.W).count x ≤ 1
      simp only [places, detRows, List.count_append, List.map_cons, List.count_cons, beq_iff_eq] at *
      omega
    · intro t r' h ht
      have hr' : r' ≠ r := fun e => hrI (e ▸ mem_inflight ht rfl)
      simp only [setNext, hr', if_false]
      exact hI.wroteOk t r' h ht
    · intro x; have := hI.cnt1 x
      show (Ev.created r :: s.log).count (Ev.created x) = (Ev.created r :: s.log).count (Ev.reclaimed x)
        + (inflight s ++ ((r, 0) :: s.det).map Prod.fst ++ s.table ++ s.L ++ s.W).count x
      simp only [live, detRows, List.count_append, List.map_cons, List.count_cons, beq_iff_eq, Ev.created.injEq,
        reduceCtorEq, if_false] at this ⊢
      omega
    · intro x; have := hI.cnt2 x
      show (Ev.created r :: s.log).count (Ev.pushed x) = (Ev.created r :: s.log).count (Ev.taken x) + s.L.count x
      simp only [List.count_cons, beq_iff_eq, reduceCtorEq, if_false] at this ⊢
      omega
  | add r hm hd =>
    have hc := count_det_erase hd
    refine ⟨hI.headL, hI.curW, hI.linkL, hI.linkW, ?_, hI.wroteOk, hI.walkW, ?_, hI.cnt2⟩
    · intro x; have := hI.nodup x; have := hc x
      show (inflight s ++ (s.det.erase (r, 0)).map Prod.fst ++ (s.table ++ [r]) ++ s.pool ++ s.L ++ s.W).count x ≤ 1
      simp only [places, detRows, List.count_append, List.count_cons, List.count_nil, beq_iff_eq] at *
      omega
    · intro x; have := hI.cnt1 x; have := hc x
      show s.log.count (Ev.created x) = s.log.count (Ev.reclaimed x)
        + (inflight s ++ (s.det.erase (r, 0)).map Prod.fst ++ (s.table ++ [r]) ++ s.L ++ s.W).count x
      simp only [live, detRows, List.count_append, List.count_cons, List.count_nil, beq_iff_eq] at *
      omega
  | extract i keep r hm hi =>
    have hc := count_removeAt keep hi
    refine ⟨hI.headL, hI.curW, hI.linkL, hI.linkW, ?_, hI.wroteOk, hI.walkW, ?_, hI.cnt2⟩
    · intro x; have := hI.nodup x; have := hc x
      show (inflight s ++ ((r, 0) :: s.det).map Prod.fst ++ removeAt s.table i keep ++ s.pool ++ s.L ++ s.W).count x ≤ 1
      simp only [places, detRows, List.count_append, List.map_cons, List.count_cons, beq_iff_eq] at *
      omega
    · intro x; have := hI.cnt1 x; have := hc x
      show s.log.count (Ev.created x) = s.log.count (Ev.reclaimed x)
        + (inflight s ++ ((r, 0) :: s.det).map Prod.fst ++ removeAt s.table i keep ++ s.L ++ s.W).count x
      simp only [live, detRows, List.count_append, List.map_cons, List.count_cons, beq_iff_eq] at *
      omega
  | remove i keep g r hm hi =>
    have hc := count_removeAt keep hi
    have hn := hI.nodup r
    have hrT : 0 < s.table.count r := count_pos_of_mem (List.mem_of_getElem? hi)
    simp only [places, List.count_append] at hn
    have hrL : r ∉ s.L := not_mem_of_count (by omega)
    have hrW : r ∉ s.W := not_mem_of_count (by omega)
    have hrI : r ∉ inflight s := not_mem_of_count (by omega)
    refine ⟨hI.headL, hI.curW, Linked_setNext hI.linkL hrL, Linked_setNext hI.linkW hrW, ?_, ?_, hI.walkW, ?_, ?_⟩
    · intro x; have := hI.nodup x; have := hc x
      show (inflight s ++ detRows s ++ removeAt s.table i keep ++ (r :: s.pool) ++ s.L ++ s.W).count x ≤ 1
      simp only [places, List.count_append, List.count_cons, beq_iff_eq] at *
      omega
    · intro t r' h ht
      have hr' : r' ≠ r := fun e => hrI (e ▸ mem_inflight ht rfl)
      simp only [setNext, hr', if_false]
      exact hI.wroteOk t r' h ht
    · intro x; have := hI.cnt1 x; have := hc x
      show (Ev.reclaimed r :: s.log).count (Ev.created x) = (Ev.reclaimed r :: s.log).count (Ev.reclaimed x)
        + (inflight s ++ detRows s ++ removeAt s.table i keep ++ s.L ++ s.W).count x
      simp only [live, List.count_append, List.count_cons, beq_iff_eq, Ev.reclaimed.injEq, reduceCtorEq, if_false] at *
      omega
    · intro x; have := hI.cnt2 x
      show (Ev.reclaimed r :: s.log).count (Ev.pushed x) = (Ev.reclaimed r :: s.log).count (Ev.taken x) + s.L.count x
      simp only [List.count_cons, beq_iff_eq, reduceCtorEq, if_false] at this ⊢
      omega
  | handoff r t u hd hu =>
    have hc := count_det_erase hd
    refine ⟨hI.headL, hI.curW, hI.linkL, hI.linkW, ?_, hI.wroteOk, hI.walkW, ?_, hI.cnt2⟩
    · intro x; have := hI.nodup x; have := hc x
      show (inflight s ++ ((r, u) :: s.det.erase (r, t)).map Prod.fst ++ s.table ++ s.pool ++ s.L ++ s.W).count x ≤ 1
      simp only [places, detRows, List.count_append, List.map_cons, List.count_cons, beq_iff_eq] at *
      omega
    · intro x; have := hI.cnt1 x; have := hc x
      show s.log.count (Ev.created x) = s.log.count (Ev.reclaimed x)
        + (inflight s ++ ((r, u) :: s.det.erase (r, t)).map Prod.fst ++ s.table ++ s.L ++ s.W).count x
      simp only [live, detRows, List.count_append, List.map_cons, List.count_cons, beq_iff_eq] at *
      omega
  | dBegin t r hpc hd =>
    have hcD := count_det_erase hd
    have hcI := count_inflight_add (pc' := PC.start r) hpc rfl rfl
    refine ⟨hI.headL, hI.curW, hI.linkL, hI.linkW, ?_, ?_, hI.walkW, ?_, hI.cnt2⟩
    · intro x; have := hI.nodup x; have := hcD x; have := hcI x
      show (List.filterMap PC.row (setPC s t (PC.start r)) ++ (s.det.erase (r, t)).map Prod.fst ++ s.table ++ s.pool
        ++ s.L ++ s.W).count x ≤ 1
      simp only [places, detRows, List.count_append] at *
      omega
    · intro t' r' h ht
      rcases getElem?_setPC ht with ⟨_, hq⟩ | ⟨_, hq⟩
      · cases hq
      · exact hI.wroteOk t' r' h hq
    · intro x; have := hI.cnt1 x; have := hcD x; have := hcI x
      show s.log.count (Ev.created x) = s.log.count (Ev.reclaimed x)
        + (List.filterMap PC.row (setPC s t (PC.start r)) ++ (s.det.erase (r, t)).map Prod.fst ++ s.table
        ++ s.L ++ s.W).count x
      simp only [live, detRows, List.count_append] at *
      omega
  | dLoad t r hpc =>
    have hcI := count_inflight_same (pc' := PC.loaded r s.head) hpc rfl
    refine ⟨hI.headL, hI.curW, hI.linkL, hI.linkW, ?_, ?_, hI.walkW, ?_, hI.cnt2⟩
    · intro x; have := hI.nodup x; have := hcI x
      show (List.filterMap PC.row (setPC s t (PC.loaded r s.head)) ++ detRows s ++ s.table ++ s.pool
        ++ s.L ++ s.W).count x ≤ 1
      simp only [places, List.count_append] at *
      omega
    · intro t' r' h ht
      rcases getElem?_setPC ht with ⟨_, hq⟩ | ⟨_, hq⟩
      · cases hq
      · exact hI.wroteOk t' r' h hq
    · intro x; have := hI.cnt1 x; have := hcI x
      show s.log.count (Ev.created x) = s.log.count (Ev.reclaimed x)
        + (List.filterMap PC.row (setPC s t (PC.loaded r s.head)) ++ detRows s ++ s.table ++ s.L ++ s.W).count x
      simp only [live, List.count_append] at *
      omega
  | dWrite t r h hpc =>
    have hcI := count_inflight_same (pc' := PC.wrote r h) hpc rfl
    have hn := hI.nodup r
    have hrI : 0 < (inflight s).count r := count_pos_of_mem (mem_inflight hpc rfl)
    simp only [places, List.count_append] at hn
    have hrL : r ∉ s.L := not_mem_of_count (by omega)
    have hrW : r ∉ s.W := not_mem_of_count (by omega)
    refine ⟨hI.headL, hI.curW, Linked_setNext hI.linkL hrL, Linked_setNext hI.linkW hrW, ?_, ?_, hI.walkW, ?_, hI.cnt2⟩
    · intro x; have := hI.nodup x; have := hcI x
      show (List.filterMap PC.row (setPC s t (PC.wrote r h)) ++ detRows s ++ s.table ++ s.pool
        ++ s.L ++ s.W).count x ≤ 1
      simp only [places, List.count_append] at *
      omega
    · intro t' r' h' ht
      rcases getElem?_setPC ht with ⟨_, hq⟩ | ⟨hne, hq⟩
      · cases hq; simp [setNext]
      · have hr' : r' ≠ r := by
          intro e; subst e
          exact hne (inflight_index_unique s.thr (inflight_nodup hI) hq hpc rfl rfl)
        simp only [setNext, hr', if_false]
        exact hI.wroteOk t' r' h' hq
    · intro x; have := hI.cnt1 x; have := hcI x
      show s.log.count (Ev.created x) = s.log.count (Ev.reclaimed x)
        + (List.filterMap PC.row (setPC s t (PC.wrote r h)) ++ detRows s ++ s.table ++ s.L ++ s.W).count x
      simp only [live, List.count_append] at *
      omega
  | dCasOk t r h hpc hh =>
    have hcI := count_inflight_del (pc' := PC.idle) hpc rfl rfl
    have hnext : s.next r = s.L.head? := by rw [hI.wroteOk t r h hpc, ← hh, hI.headL]
    refine ⟨rfl, hI.curW, Linked_cons hI.linkL hnext, hI.linkW, ?_, ?_, hI.walkW, ?_, ?_⟩
    · intro x; have := hI.nodup x; have := hcI x
      show (List.filterMap PC.row (setPC s t PC.idle) ++ detRows s ++ s.table ++ s.pool
        ++ (r :: s.L) ++ s.W).count x ≤ 1
      simp only [places, List.count_append, List.count_cons, beq_iff_eq] at *
      omega
    · intro t' r' h' ht
      rcases getElem?_setPC ht with ⟨_, hq⟩ | ⟨_, hq⟩
      · cases hq
      · exact hI.wroteOk t' r' h' hq
    · intro x; have := hI.cnt1 x; have := hcI x
      show (Ev.pushed r :: s.log).count (Ev.created x) = (Ev.pushed r :: s.log).count (Ev.reclaimed x)
        + (List.filterMap PC.row (setPC s t PC.idle) ++ detRows s ++ s.table ++ (r :: s.L) ++ s.W).count x
      simp only [live, List.count_append, List.count_cons, beq_iff_eq, reduceCtorEq, if_false] at *
      omega
    · intro x; have := hI.cnt2 x
      show (Ev.pushed r :: s.log).count (Ev.pushed x) = (Ev.pushed r :: s.log).count (Ev.taken x) + (r :: s.L).count x
      simp only [List.count_cons, beq_iff_eq, Ev.pushed.injEq, reduceCtorEq, if_false] at this ⊢
      omega
  | dCasFail t r h sp hpc =>
    have hcI := count_inflight_same (pc' := PC.start r) hpc rfl
    refine ⟨hI.headL, hI.curW, hI.linkL, hI.linkW, ?_, ?_, hI.walkW, ?_, hI.cnt2⟩
    · intro x; have := hI.nodup x; have := hcI x
      show (List.filterMap PC.row (setPC s t (PC.start r)) ++ detRows s ++ s.table ++ s.pool
        ++ s.L ++ s.W).count x ≤ 1
      simp only [places, List.count_append] at *
      omega
    · intro t' r' h' ht
      rcases getElem?_setPC ht with ⟨_, hq⟩ | ⟨_, hq⟩
      · cases hq
      · exact hI.wroteOk t' r' h' hq
    · intro x; have := hI.cnt1 x; have := hcI x
      show s.log.count (Ev.created x) = s.log.count (Ev.reclaimed x)
        + (List.filterMap PC.row (setPC s t (PC.start r)) ++ detRows s ++ s.table ++ s.L ++ s.W).count x
      simp only [live, List.count_append] at *
      omega

/-- the invariant holds after every schedule, from every state that satisfies it -/
theorem RInv_run_from : ∀ (acts : List Act) (s s' : St), RInv s → run s acts = some s' → RInv s'
  | [], s, s', hI, h => by simp [run] at h; subst h; exact hI
  | a :: as, s, s', hI, h => by
    simp only [run] at h
    cases hs : step s a with
    | none => simp [hs] at h
    | some s1 =>
      simp only [hs] at h
      exact RInv_run_from as s1 s' (RInv_step (step_sound hs) hI) h

theorem RInv_run (n : Nat) (acts : List Act) (s : St) (h : run (init n) acts = some s) : RInv s :=
  RInv_run_from acts (init n) s (RInv_init n) h

end Momo.Rows
