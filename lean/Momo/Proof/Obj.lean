import Momo.Model.Obj
/-! Lemmas about the object life-cycle model (core Lean only). -/
namespace Momo.Obj

@[simp] theorem Mem.set_same (m : Mem) (a : Nat) (s : Slot) : (m.set a s) a = s := by simp [Mem.set]
theorem Mem.set_ne (m : Mem) (a b : Nat) (s : Slot) (h : b ≠ a) : (m.set a s) b = m b := by simp [Mem.set, h]

theorem replay_append (occ : Nat → Bool) (xs ys : List Ev) :
    replay occ (xs ++ ys) = (replay occ xs).bind (fun o => replay o ys) := by
  induction xs generalizing occ with
  | nil => simp [replay]
  | cons e es ih =>
    cases e <;> simp only [List.cons_append, replay] <;> split <;> simp [ih]

/-- the trace recorded so far is well-formed and ends in the occupancy of the current memory -/
def TraceOK (occ0 : Nat → Bool) (s : St) : Prop := replay occ0 s.evs = some (occOf s.mem)

theorem occOf_set_live (m : Mem) (a v : Nat) :
    occOf (m.set a (.live v)) = fun x => if x = a then true else occOf m x := by
  funext x; by_cases h : x = a <;> simp [occOf, Mem.set, h]

theorem occOf_set_moved (m : Mem) (a v : Nat) :
    occOf (m.set a (.moved v)) = fun x => if x = a then true else occOf m x := by
  funext x; by_cases h : x = a <;> simp [occOf, Mem.set, h]

theorem occOf_set_raw (m : Mem) (a : Nat) :
    occOf (m.set a .raw) = fun x => if x = a then false else occOf m x := by
  funext x; by_cases h : x = a <;> simp [occOf, Mem.set, h]

theorem occ_true {m : Mem} {a : Nat} (h : m a ≠ .raw) : occOf m a = true := by simp [occOf, h]
theorem occ_false {m : Mem} {a : Nat} (h : m a = .raw) : occOf m a = false := by simp [occOf, h]

/-! ### primitives -/

theorem nextFault_mem (s : St) : (s.nextFault).2.mem = s.mem ∧ (s.nextFault).2.evs = s.evs := by
  unfold St.nextFault; cases s.faults <;> simp

theorem copy_threw {s s' : St} {src dst : Nat} (h : copy s src dst = (s', .threw)) :
    s'.mem = s.mem ∧ s'.evs = s.evs := by
  unfold copy at h
  have hm := nextFault_mem s
  generalize s.nextFault = p at h hm
  obtain ⟨f, t⟩ := p
  simp only at h hm
  split at h
  · simp only [Prod.mk.injEq, and_true] at h; subst h; exact hm
  · simp at h

theorem copy_ok {occ0 : Nat → Bool} {s s' : St} {src dst : Nat} (h : copy s src dst = (s', .ok))
    (ht : TraceOK occ0 s) (hs : s.mem src ≠ .raw) (hd : s.mem dst = .raw) :
    TraceOK occ0 s' ∧ s'.mem = s.mem.set dst (.live (valOf (s.mem src))) := by
  unfold copy at h
  have hm := nextFault_mem s
  generalize s.nextFault = p at h hm
  obtain ⟨f, t⟩ := p
  simp only at h hm
  split at h
  · simp at h
  · simp only [Prod.mk.injEq, and_true] at h; subst h
    refine ⟨?_, by simp [hm.1]⟩
    unfold TraceOK at *
    simp only [hm.1, hm.2, replay_append, ht, Option.bind_some, replay]
    rw [occ_true hs, occ_false hd]
    simp [occOf_set_live]

theorem destroy_ok {occ0 : Nat → Bool} {s : St} {a : Nat} (ht : TraceOK occ0 s) (ha : s.mem a ≠ .raw) :
    TraceOK occ0 (destroy s a) := by
  unfold TraceOK destroy at *
  simp only [replay_append, ht, Option.bind_some, replay, occ_true ha, if_true, occOf_set_raw]

theorem execCreate_threw {s s' : St} {a v : Nat} (h : execCreate s a v = (s', .threw)) :
    s'.mem = s.mem ∧ s'.evs = s.evs := by
  unfold execCreate at h
  have hm := nextFault_mem s
  generalize s.nextFault = p at h hm
  obtain ⟨f, t⟩ := p
  simp only at h hm
  split at h
  · simp only [Prod.mk.injEq, and_true] at h; subst h; exact hm
  · simp at h

theorem execCreate_ok {occ0 : Nat → Bool} {s s' : St} {a v : Nat} (h : execCreate s a v = (s', .ok))
    (ht : TraceOK occ0 s) (ha : s.mem a = .raw) :
    TraceOK occ0 s' ∧ s'.mem = s.mem.set a (.live v) := by
  unfold execCreate at h
  have hm := nextFault_mem s
  generalize s.nextFault = p at h hm
  obtain ⟨f, t⟩ := p
  simp only at h hm
  split at h
  · simp at h
  · simp only [Prod.mk.injEq, and_true] at h; subst h
    refine ⟨?_, by simp [hm.1]⟩
    unfold TraceOK at *
    simp only [hm.1, hm.2, replay_append, ht, Option.bind_some, replay, occ_false ha]
    simp [occOf_set_live]

theorem relocate1_ok {occ0 : Nat → Bool} (c : Cat) {s : St} {src dst : Nat} (ht : TraceOK occ0 s)
    (hs : s.mem src ≠ .raw) (hd : s.mem dst = .raw) (hne : src ≠ dst) :
    TraceOK occ0 (relocate1 c s src dst) ∧
    (relocate1 c s src dst).mem = (s.mem.set dst (.live (valOf (s.mem src)))).set src .raw ∧
    (relocate1 c s src dst).faults = s.faults := by
  have hne' : dst ≠ src := fun h => hne h.symm
  have hocc : (fun x => if x = dst then true else if x = src then false else occOf s.mem x)
      = occOf ((s.mem.set dst (.live (valOf (s.mem src)))).set src .raw) := by
    funext x
    by_cases h1 : x = src
    · subst h1; simp [occOf, Mem.set, hne]
    · by_cases h2 : x = dst
      · subst h2; simp [occOf, Mem.set, h1]
      · simp [occOf, Mem.set, h1, h2]
  cases c
  · -- trivial relocation
    refine ⟨?_, rfl, rfl⟩
    unfold TraceOK relocate1 at *
    simp only [replay_append, ht, Option.bind_some, replay, occ_true hs, occ_false hd]
    have : (src != dst) = true := by simp [hne]
    simp only [this, Bool.and_self, Bool.not_false, if_true]
    rw [hocc]
  ·
    have hmem : (relocate1 Cat.nmove s src dst).mem = (s.mem.set dst (.live (valOf (s.mem src)))).set src .raw := by
      unfold relocate1 destroy
      funext x
      by_cases h1 : x = src <;> simp [Mem.set, h1]
    refine ⟨?_, hmem, rfl⟩
    unfold relocate1
    apply destroy_ok
    · unfold TraceOK at *
      simp only [replay_append, ht, Option.bind_some, replay, occ_true hs, occ_false hd, if_true]
      simp only [Bool.false_eq_true, if_false]
      congr 1; funext x
      by_cases h1 : x = src
      · subst h1
        have : (s.mem x != Slot.raw) = true := by simp [hs]
        simp [occOf, Mem.set, this]
      · by_cases h2 : x = dst
        · subst h2; simp [occOf, Mem.set, h1]
        · simp [occOf, Mem.set, h1, h2]
    · simp [Mem.set]
  ·
    have hmem : (relocate1 Cat.copyOnly s src dst).mem = (s.mem.set dst (.live (valOf (s.mem src)))).set src .raw := by
      unfold relocate1 destroy
      funext x
      by_cases h1 : x = src <;> simp [Mem.set, h1]
    refine ⟨?_, hmem, rfl⟩
    unfold relocate1
    apply destroy_ok
    · unfold TraceOK at *
      simp only [replay_append, ht, Option.bind_some, replay, occ_true hs, occ_false hd, if_true]
      simp only [Bool.false_eq_true, if_false]
      congr 1; funext x
      by_cases h1 : x = src
      · subst h1
        have : (s.mem x != Slot.raw) = true := by simp [hs]
        simp [occOf, Mem.set, this]
      · by_cases h2 : x = dst
        · subst h2; simp [occOf, Mem.set, h1]
        · simp [occOf, Mem.set, h1, h2]
    · simp [Mem.set]

/-! ### loops -/

theorem destroyRange_spec {occ0 : Nat → Bool} (n : Nat) : ∀ (s : St) (a : Nat), TraceOK occ0 s →
    (∀ i, i < n → s.mem (a + i) ≠ .raw) →
    TraceOK occ0 (destroyRange s a n) ∧ (destroyRange s a n).faults = s.faults ∧
    ∀ x, (destroyRange s a n).mem x = if a ≤ x ∧ x < a + n then .raw else s.mem x := by
  induction n with
  | zero =>
    intro s a ht _; refine ⟨ht, rfl, fun x => ?_⟩
    have : ¬ (a ≤ x ∧ x < a + 0) := by omega
    simp only [destroyRange]; rw [if_neg this]
  | succ n ih =>
    intro s a ht hl
    have h0 : s.mem a ≠ .raw := by simpa using hl 0 (by omega)
    have ht1 := destroy_ok ht h0
    have hl1 : ∀ i, i < n → (destroy s a).mem (a + 1 + i) ≠ .raw := by
      intro i hi
      have := hl (i + 1) (by omega)
      simp only [destroy]
      rw [Mem.set_ne _ _ _ _ (by omega)]
      have e : a + 1 + i = a + (i + 1) := by omega
      rw [e]; exact this
    obtain ⟨t, f, m⟩ := ih (destroy s a) (a + 1) ht1 hl1
    refine ⟨t, by rw [destroyRange, f]; rfl, fun x => ?_⟩
    simp only [destroyRange]
    rw [m x]
    by_cases hx : x = a
    · subst hx
      have : ¬ (x + 1 ≤ x ∧ x < x + 1 + n) := by omega
      simp [this, destroy]
    · simp only [destroy, Mem.set_ne _ _ _ _ hx]
      by_cases h1 : a + 1 ≤ x ∧ x < a + 1 + n
      · have : a ≤ x ∧ x < a + (n + 1) := by omega
        simp [h1, this]
      · have : ¬ (a ≤ x ∧ x < a + (n + 1)) := by omega
        simp [h1, this]

theorem copyLoop_spec {occ0 : Nat → Bool} (n : Nat) : ∀ (s : St) (src dst done : Nat), TraceOK occ0 s →
    (∀ i, i < n → s.mem (src + i) ≠ .raw) → (∀ i, i < n → s.mem (dst + i) = .raw) →
    (src + n ≤ dst ∨ dst + n ≤ src) →
    TraceOK occ0 (copyLoop s src dst n done).1 ∧
    done ≤ (copyLoop s src dst n done).2.2 ∧ (copyLoop s src dst n done).2.2 ≤ done + n ∧
    ((copyLoop s src dst n done).2.1 = .ok → (copyLoop s src dst n done).2.2 = done + n) ∧
    ∀ x, (copyLoop s src dst n done).1.mem x =
      if dst ≤ x ∧ x < dst + ((copyLoop s src dst n done).2.2 - done) then .live (valOf (s.mem (src + (x - dst))))
      else s.mem x := by
  induction n with
  | zero =>
    intro s src dst done ht _ _ _
    refine ⟨ht, Nat.le_refl _, by simp [copyLoop], fun _ => by simp [copyLoop], fun x => ?_⟩
    have : ¬ (dst ≤ x ∧ x < dst + (done - done)) := by omega
    show s.mem x = if dst ≤ x ∧ x < dst + (done - done) then _ else s.mem x
    split
    · contradiction
    · rfl
  | succ n ih =>
    intro s src dst done ht hl hr hd
    have hs0 : s.mem src ≠ .raw := by simpa using hl 0 (by omega)
    have hd0 : s.mem dst = .raw := by simpa using hr 0 (by omega)
    unfold copyLoop
    cases hc : copy s src dst with
    | mk s' r =>
      cases r with
      | threw =>
        obtain ⟨hm, he⟩ := copy_threw hc
        refine ⟨by unfold TraceOK at *; simp only; rw [he, hm]; exact ht, Nat.le_refl _, by simp, by simp, fun x => ?_⟩
        have : ¬ (dst ≤ x ∧ x < dst + (done - done)) := by omega
        simp only; rw [if_neg this, hm]
      | ok =>
        obtain ⟨ht', hm⟩ := copy_ok hc ht hs0 hd0
        simp only
        have hl' : ∀ i, i < n → s'.mem (src + 1 + i) ≠ .raw := by
          intro i hi
          rw [hm, Mem.set_ne _ _ _ _ (by omega)]
          have e : src + 1 + i = src + (i + 1) := by omega
          rw [e]; exact hl (i + 1) (by omega)
        have hr' : ∀ i, i < n → s'.mem (dst + 1 + i) = .raw := by
          intro i hi
          rw [hm, Mem.set_ne _ _ _ _ (by omega)]
          have e : dst + 1 + i = dst + (i + 1) := by omega
          rw [e]; exact hr (i + 1) (by omega)
        obtain ⟨t, a, b, c, m⟩ := ih s' (src + 1) (dst + 1) (done + 1) ht' hl' hr' (by omega)
        refine ⟨t, by omega, by omega, fun h => by have := c h; omega, fun x => ?_⟩
        rw [m x]
        generalize (copyLoop s' (src + 1) (dst + 1) n (done + 1)).2.2 = d at *
        by_cases hx : x = dst
        · subst hx
          have h1 : ¬ (x + 1 ≤ x ∧ x < x + 1 + (d - (done + 1))) := by omega
          have h2 : x ≤ x ∧ x < x + (d - done) := by omega
          simp [h1, h2, hm]
        · by_cases h1 : dst + 1 ≤ x ∧ x < dst + 1 + (d - (done + 1))
          · have h2 : dst ≤ x ∧ x < dst + (d - done) := by omega
            simp only [h1, h2, and_self, if_true]
            have e : src + 1 + (x - (dst + 1)) = src + (x - dst) := by omega
            rw [e, hm, Mem.set_ne _ _ _ _ (by omega)]
          · have h2 : ¬ (dst ≤ x ∧ x < dst + (d - done)) := by omega
            simp only [h1, h2, if_false]
            rw [hm, Mem.set_ne _ _ _ _ hx]

theorem copyLoop_faults_mono (n : Nat) : ∀ (s : St) (src dst done : Nat),
    (copyLoop s src dst n done).1.faults.length ≤ s.faults.length := by
  induction n with
  | zero => intro s _ _ _; simp [copyLoop]
  | succ n ih =>
    intro s src dst done
    unfold copyLoop
    have hf : ∀ s' r, copy s src dst = (s', r) → s'.faults.length ≤ s.faults.length := by
      intro s' r h
      unfold copy St.nextFault at h
      cases hfl : s.faults with
      | nil => simp only [hfl] at h; simp at h; obtain ⟨rfl, _⟩ := h; simp [hfl]
      | cons f fs =>
        simp only [hfl] at h
        by_cases hf : f <;> simp [hf] at h <;> obtain ⟨rfl, _⟩ := h <;> simp
    cases hc : copy s src dst with
    | mk s' r =>
      cases r with
      | threw => simpa using hf _ _ hc
      | ok => simp only; exact Nat.le_trans (ih s' _ _ _) (hf _ _ hc)

theorem relocateRange_spec {occ0 : Nat → Bool} (c : Cat) (n : Nat) : ∀ (s : St) (src dst : Nat), TraceOK occ0 s →
    (∀ i, i < n → s.mem (src + i) ≠ .raw) → (∀ i, i < n → s.mem (dst + i) = .raw) →
    (src + n ≤ dst ∨ dst + n ≤ src) →
    TraceOK occ0 (relocateRange c s src dst n) ∧ (relocateRange c s src dst n).faults = s.faults ∧
    ∀ x, (relocateRange c s src dst n).mem x =
      if dst ≤ x ∧ x < dst + n then .live (valOf (s.mem (src + (x - dst))))
      else if src ≤ x ∧ x < src + n then .raw else s.mem x := by
  induction n with
  | zero =>
    intro s src dst ht _ _ _; refine ⟨ht, rfl, fun x => ?_⟩
    have h1 : ¬ (dst ≤ x ∧ x < dst + 0) := by omega
    have h2 : ¬ (src ≤ x ∧ x < src + 0) := by omega
    simp only [relocateRange]; rw [if_neg h1, if_neg h2]
  | succ n ih =>
    intro s src dst ht hl hr hd
    have hs0 : s.mem src ≠ .raw := by simpa using hl 0 (by omega)
    have hd0 : s.mem dst = .raw := by simpa using hr 0 (by omega)
    obtain ⟨ht', hm, hf⟩ := relocate1_ok c ht hs0 hd0 (by omega)
    have hl' : ∀ i, i < n → (relocate1 c s src dst).mem (src + 1 + i) ≠ .raw := by
      intro i hi
      rw [hm, Mem.set_ne _ _ _ _ (by omega), Mem.set_ne _ _ _ _ (by omega)]
      have e : src + 1 + i = src + (i + 1) := by omega
      rw [e]; exact hl (i + 1) (by omega)
    have hr' : ∀ i, i < n → (relocate1 c s src dst).mem (dst + 1 + i) = .raw := by
      intro i hi
      rw [hm, Mem.set_ne _ _ _ _ (by omega), Mem.set_ne _ _ _ _ (by omega)]
      have e : dst + 1 + i = dst + (i + 1) := by omega
      rw [e]; exact hr (i + 1) (by omega)
    obtain ⟨t, f, m⟩ := ih (relocate1 c s src dst) (src + 1) (dst + 1) ht' hl' hr' (by omega)
    refine ⟨t, by rw [relocateRange, f, hf], fun x => ?_⟩
    simp only [relocateRange]
    rw [m x]
    by_cases hx : x = dst
    · subst hx
      have h1 : ¬ (x + 1 ≤ x ∧ x < x + 1 + n) := by omega
      have h2 : x ≤ x ∧ x < x + (n + 1) := by omega
      have h3 : ¬ (src + 1 ≤ x ∧ x < src + 1 + n) := by omega
      simp only [h1, h2, h3, and_self, if_true, if_false, Nat.sub_self, Nat.add_zero]
      rw [hm, Mem.set_ne _ _ _ _ (by omega), Mem.set_same]
    · by_cases hy : x = src
      · subst hy
        have h1 : ¬ (dst + 1 ≤ x ∧ x < dst + 1 + n) := by omega
        have h2 : ¬ (dst ≤ x ∧ x < dst + (n + 1)) := by omega
        have h3 : ¬ (x + 1 ≤ x ∧ x < x + 1 + n) := by omega
        have h4 : x ≤ x ∧ x < x + (n + 1) := by omega
        simp only [h1, h2, h3, h4, and_self, if_true, if_false]
        rw [hm, Mem.set_same]
      · by_cases h1 : dst + 1 ≤ x ∧ x < dst + 1 + n
        · have h2 : dst ≤ x ∧ x < dst + (n + 1) := by omega
          simp only [h1, h2, and_self, if_true]
          have e : src + 1 + (x - (dst + 1)) = src + (x - dst) := by omega
          rw [e, hm, Mem.set_ne _ _ _ _ (by omega), Mem.set_ne _ _ _ _ (by omega)]
        · have h2 : ¬ (dst ≤ x ∧ x < dst + (n + 1)) := by omega
          simp only [h1, h2, if_false]
          by_cases h3 : src + 1 ≤ x ∧ x < src + 1 + n
          · have h4 : src ≤ x ∧ x < src + (n + 1) := by omega
            simp [h3, h4]
          · have h4 : ¬ (src ≤ x ∧ x < src + (n + 1)) := by omega
            simp only [h3, h4, if_false]
            rw [hm, Mem.set_ne _ _ _ _ hy, Mem.set_ne _ _ _ _ hx]

end Momo.Obj
