import Momo.Proof.PoolU32
/-!
  `MemPoolUInt32` (C09): invariant of the state machine (free chain stored in the free blocks, buffers that do not overlap,
  count) and its preservation by `Allocate` / `pvNewBuffer` / `Deallocate` / `pvClear` / `DeallocateAll` / destructor;
  exact ledger of the memory manager over every legal history.
-/
namespace Momo.PoolU32
open Momo
open Momo.Pool (Ev ledger Disj Inside ledger_append ledger_perm ledger_frame filter_flip)

/-- the link word of block `i` as the pool sees it -/
def lk (C : Cfg) (st : State) (i : Nat) : Option Nat := st.mem (rp C st i)

/-- following the link words from `s` visits exactly `ch` and ends at `nullPtr` -/
def Chain (l : Nat → Option Nat) : Nat → List Nat → Prop
  | s, [] => s = nullPtr
  | s, x :: xs => s = x ∧ ∃ v, l x = some v ∧ Chain l v xs

theorem Chain_congr {l l' : Nat → Option Nat} {ch : List Nat} (h : ∀ x ∈ ch, l' x = l x) (s : Nat) :
    Chain l s ch → Chain l' s ch := by
  induction ch generalizing s with
  | nil => intro h0; exact h0
  | cons x xs ih =>
    intro ⟨h1, v, h2, h3⟩
    exact ⟨h1, v, by rw [h x (by simp)]; exact h2, ih (fun y hy => h y (by simp [hy])) v h3⟩

/-- invariant of a `MemPoolUInt32` -/
structure WF (C : Cfg) (st : State) : Prop where
  lenMax : st.bufs.length ≤ C.maxBuf
  lenCap : st.bufs.length ≤ st.arrCap
  disj : st.bufs.Pairwise (fun a b => Disj a C.bufferSize b C.bufferSize)
  chain : ∃ ch : List Nat, Chain (lk C st) st.head ch ∧ ch.Nodup ∧ (∀ i ∈ ch, i < st.bufs.length * C.N) ∧
            (∀ i, i < st.bufs.length * C.N → (lk C st i = none ↔ i ∉ ch)) ∧
            st.allocCount + ch.length = st.bufs.length * C.N

theorem WF.empty (C : Cfg) : WF C State.empty := by
  refine ⟨by simp [State.empty], by simp [State.empty], by simp [State.empty], [], ?_, by simp, by simp, ?_, by simp [State.empty]⟩
  · show State.empty.head = nullPtr; rfl
  · intro i hi; simp [State.empty] at hi

theorem mem_live (C : Cfg) (st : State) (i : Nat) :
    i ∈ live C st ↔ i < st.bufs.length * C.N ∧ lk C st i = none := by
  unfold live lk
  simp [List.mem_filter, List.mem_range, Option.isNone_iff_eq_none]

theorem live_nodup (C : Cfg) (st : State) : (live C st).Nodup := List.nodup_range.filter _

theorem length_filter_not_mem_nat {l : List Nat} (hl : l.Nodup) : ∀ (cs : List Nat), cs.Nodup → (∀ c ∈ cs, c ∈ l) →
    (l.filter (fun x => !cs.contains x)).length + cs.length = l.length := by
  intro cs
  induction cs with
  | nil => intro _ _; simp
  | cons c cs ih =>
    intro hnd hsub
    have h1 := (filter_flip l c (fun x => !(c :: cs).contains x) (fun x => !cs.contains x) hl (hsub c (by simp))
      (by simp) (by simpa using (List.nodup_cons.mp hnd).1) (by intro x hx; simp [hx])).length_eq
    have h2 := ih (List.nodup_cons.mp hnd).2 (fun x hx => hsub x (by simp [hx]))
    simp only [List.length_cons] at h1 ⊢
    omega

/-- **the reported count is the number of live blocks** -/
theorem WF.count_exact {C : Cfg} {st : State} (h : WF C st) : st.allocCount = (live C st).length := by
  obtain ⟨ch, _, hnd, hlt, hnone, hcnt⟩ := h.chain
  have e : live C st = (List.range (st.bufs.length * C.N)).filter (fun x => !ch.contains x) := by
    unfold live
    apply List.filter_congr
    intro i hi
    have hi' := List.mem_range.mp hi
    have := hnone i hi'
    unfold lk at this
    by_cases hc : i ∈ ch
    · have hne : st.mem (rp C st i) ≠ none := fun e => (this.mp e) hc
      cases hm : st.mem (rp C st i) with
      | none => exact absurd hm hne
      | some v => simp [hc]
    · simp [hc, this.mpr hc]
  have := length_filter_not_mem_nat (List.nodup_range (n := st.bufs.length * C.N)) ch hnd
    (fun c hc => List.mem_range.mpr (hlt c hc))
  rw [e]; simp only [List.length_range] at this; omega

/-! ### the loop of `pvNewBuffer` -/

theorem initLinks_out (C : Cfg) (n : Nat) (base : Int) : ∀ (is : List Nat) (m : Int → Option Nat) (a : Int),
    (∀ i ∈ is, a ≠ base + ((C.S * i : Nat) : Int)) → initLinks C n base is m a = m a := by
  intro is
  induction is with
  | nil => intro m a _; rfl
  | cons j js ih =>
    intro m a h
    simp only [initLinks]
    rw [ih _ a (fun i hi => h i (by simp [hi]))]
    unfold setW
    rw [if_neg (h j (by simp))]

theorem initLinks_in (C : Cfg) (n : Nat) (base : Int) (hS : 0 < C.S) : ∀ (is : List Nat) (m : Int → Option Nat) (i : Nat),
    is.Nodup → i ∈ is →
    initLinks C n base is m (base + ((C.S * i : Nat) : Int)) =
      some (if i + 1 < C.N then w32 (n * C.N + i + 1) else nullPtr) := by
  intro is
  induction is with
  | nil => intro m i _ hi; simp at hi
  | cons j js ih =>
    intro m i hnd hi
    simp only [initLinks]
    by_cases hij : i = j
    · subst hij
      rw [initLinks_out C n base js _ _ ?_]
      · simp [setW]
      · intro i' hi' e
        have hne : i' ≠ i := fun e' => (List.nodup_cons.mp hnd).1 (e' ▸ hi')
        have : C.S * i = C.S * i' := by omega
        exact hne (Nat.eq_of_mul_eq_mul_left hS this).symm
    · exact ih _ i (List.nodup_cons.mp hnd).2 (by simpa [hij] using hi)


def consecN (s : Nat) : Nat → List Nat
  | 0 => []
  | n+1 => s :: consecN (s + 1) n

theorem mem_consecN (i : Nat) : ∀ (n s : Nat), i ∈ consecN s n ↔ s ≤ i ∧ i < s + n := by
  intro n
  induction n with
  | zero => intro s; simp [consecN]
  | succ n ih => intro s; simp only [consecN, List.mem_cons, ih]; omega

theorem consecN_nodup : ∀ (n s : Nat), (consecN s n).Nodup := by
  intro n
  induction n with
  | zero => intro s; simp [consecN]
  | succ n ih =>
    intro s
    simp only [consecN, List.nodup_cons, mem_consecN]
    exact ⟨by omega, ih (s + 1)⟩

theorem consecN_length : ∀ (n s : Nat), (consecN s n).length = n := by
  intro n
  induction n with
  | zero => intro s; rfl
  | succ n ih => intro s; simp [consecN, ih]

/-- the events turn the memory held in state `st` into the memory held in `st'`: every `free` gives back an
    outstanding allocation with the size it was obtained with -/
def LedgerOKU (C : Cfg) (st : State) (evs : List Ev) (st' : State) : Prop :=
  ∃ L', ledger (owned C st) evs = some L' ∧ L'.Perm (owned C st')

theorem LedgerOKU.nil {C : Cfg} {st st' : State} (h : owned C st' = owned C st) : LedgerOKU C st [] st' :=
  ⟨owned C st, rfl, by rw [h]⟩

theorem LedgerOKU.trans {C : Cfg} {s1 s2 s3 : State} {e1 e2 : List Ev}
    (h1 : LedgerOKU C s1 e1 s2) (h2 : LedgerOKU C s2 e2 s3) : LedgerOKU C s1 (e1 ++ e2) s3 := by
  obtain ⟨L1, hl1, hp1⟩ := h1
  obtain ⟨L2, hl2, hp2⟩ := h2
  obtain ⟨M, hm, hpm⟩ := ledger_perm e2 hp1.symm L2 hl2
  exact ⟨M, by rw [ledger_append, hl1]; exact hm, hpm.symm.trans hp2⟩

theorem Disj.symm' {a la b lb : Int} (h : Disj a la b lb) : Disj b lb a la := by
  unfold Disj at h ⊢; omega

/-- an empty free chain: every block of the buffers is live -/
theorem WF.chain_nil {C : Cfg} (hC : C.Legal) {st : State} (h : WF C st) (hh : st.head = nullPtr) :
    (∀ i, i < st.bufs.length * C.N → lk C st i = none) ∧ st.allocCount = st.bufs.length * C.N := by
  obtain ⟨ch, hch, _, hlt, hnone, hcnt⟩ := h.chain
  cases ch with
  | nil => exact ⟨fun i hi => (hnone i hi).mpr (by simp), by simpa using hcnt⟩
  | cons x xs =>
    have hx := hlt x (by simp)
    have : st.head = x := hch.1
    have h1 : st.bufs.length * C.N ≤ C.maxBuf * C.N := Nat.mul_le_mul_right _ h.lenMax
    have h2 := hC.hMax
    omega

theorem old_rp_eq (C : Cfg) (st : State) (base : Int) (st' : State) (hb : st'.bufs = st.bufs ++ [base])
    (i : Nat) (hi : i < st.bufs.length * C.N) : rp C st' i = rp C st i := by
  have hk := bufferOf_lt C _ i hi
  unfold rp realPtr
  rw [hb, List.getElem?_append_left hk]

theorem new_rp_eq (C : Cfg) (hN : 0 < C.N) (st : State) (base : Int) (st' : State) (hb : st'.bufs = st.bufs ++ [base])
    (o : Nat) (ho : o < C.N) : rp C st' (st.bufs.length * C.N + o) = base + ((C.S * o : Nat) : Int) := by
  obtain ⟨e1, e2⟩ := (index_roundtrip C hN).2 st.bufs.length o ho
  unfold rp realPtr
  rw [e1, e2, hb]
  simp [Nat.mul_comm]

theorem mul_succ_le (S o N : Nat) (ho : o < N) : S * o + S ≤ N * S := by
  have : (o + 1) * S ≤ N * S := Nat.mul_le_mul_right _ ho
  have e : (o + 1) * S = S * o + S := by rw [Nat.add_mul, Nat.one_mul, Nat.mul_comm]
  omega

/-- the state `addBuffer` leaves -/
def addedState (C : Cfg) (st : State) (base : Int) : State :=
  { st with bufs := st.bufs ++ [base], head := w32 (st.bufs.length * C.N),
            mem := initLinks C st.bufs.length base (List.range C.N) st.mem }

/-- **the buffer part of `pvNewBuffer`** (906-915), called when the free chain is empty: the new buffer's blocks form the
    new free chain, no live block changes, nothing outside the new buffer is written -/
theorem addBuffer_ok {C : Cfg} (hC : C.Legal) {st : State} (h : WF C st) (hhead : st.head = nullPtr)
    (hlen : st.bufs.length < C.maxBuf) (hcap : st.bufs.length + 1 ≤ st.arrCap) (base : Int)
    (hdis : ∀ b ∈ st.bufs, Disj base C.bufferSize b C.bufferSize) (evs : List Ev) :
    ∃ st', addBuffer C st (some base) evs = .ok () st' (evs ++ [.malloc base C.bufferSize]) ∧ WF C st' ∧
      st'.head = st.bufs.length * C.N ∧ st'.head ≠ nullPtr ∧
      (∀ i, i ∈ live C st' ↔ i ∈ live C st) ∧ st'.allocCount = st.allocCount ∧
      st'.bufs = st.bufs ++ [base] ∧ st'.arrCap = st.arrCap ∧ st'.arrAddr = st.arrAddr := by
  have hN := hC.hN
  have hS : 0 < C.S := by have := hC.hS; simp only [sizeofU32] at this; omega
  obtain ⟨hall, hcnt⟩ := h.chain_nil hC hhead
  have hmaxN : (st.bufs.length + 1) * C.N ≤ C.maxBuf * C.N := Nat.mul_le_mul_right _ hlen
  have hsucc : (st.bufs.length + 1) * C.N = st.bufs.length * C.N + C.N := by rw [Nat.add_mul, Nat.one_mul]
  have hnull := hC.hMax
  simp only [nullPtr] at hnull
  have hw : w32 (st.bufs.length * C.N) = st.bufs.length * C.N := by unfold w32; omega
  have hb : (addedState C st base).bufs = st.bufs ++ [base] := rfl
  have hmem : (addedState C st base).mem = initLinks C st.bufs.length base (List.range C.N) st.mem := rfl
  have hlen' : (addedState C st base).bufs.length = st.bufs.length + 1 := by rw [hb]; simp
  have hhd : (addedState C st base).head = st.bufs.length * C.N := hw
  have hac : (addedState C st base).allocCount = st.allocCount := rfl
  have hcp : (addedState C st base).arrCap = st.arrCap := rfl
  -- old blocks: same address, same word
  have hold : ∀ i, i < st.bufs.length * C.N → lk C (addedState C st base) i = none := by
    intro i hi
    unfold lk
    rw [old_rp_eq C st base _ hb i hi, hmem, initLinks_out]
    · exact hall i hi
    · intro j hj e
      have hj' := List.mem_range.mp hj
      obtain ⟨b, hbm, _, hin⟩ := rp_inside C hN st i hi
      have := hdis b hbm
      have hm := mul_succ_le C.S j C.N hj'
      unfold Inside at hin; unfold Disj at this; unfold Cfg.bufferSize at *
      omega
  have hnew : ∀ o, o < C.N → lk C (addedState C st base) (st.bufs.length * C.N + o) =
      some (if o + 1 < C.N then st.bufs.length * C.N + o + 1 else nullPtr) := by
    intro o ho
    unfold lk
    rw [new_rp_eq C hN st base _ hb o ho, hmem, initLinks_in C _ base hS _ _ o List.nodup_range (List.mem_range.mpr ho)]
    congr 1
    split
    · unfold w32; omega
    · rfl
  refine ⟨addedState C st base, rfl, ?_, hw, by rw [hhd]; simp only [nullPtr]; omega, ?_, rfl, rfl, rfl, rfl⟩
  generalize addedState C st base = st' at *
  · -- the invariant
    refine ⟨by rw [hlen']; omega, by rw [hlen', hcp]; omega, ?_, consecN (st.bufs.length * C.N) C.N, ?_, consecN_nodup _ _, ?_, ?_, ?_⟩
    · rw [hb]
      refine List.pairwise_append.mpr ⟨h.disj, by simp, ?_⟩
      intro a ha b hbb
      simp only [List.mem_singleton] at hbb; subst hbb
      exact Disj.symm' (hdis a ha)
    · rw [hhd]
      have key : ∀ (k s : Nat), st.bufs.length * C.N ≤ s → s + k = st.bufs.length * C.N + C.N →
          Chain (lk C st') (if k = 0 then nullPtr else s) (consecN s k) := by
        intro k
        induction k with
        | zero => intro s _ _; rfl
        | succ k ih =>
          intro s h1 h2
          simp only [Nat.succ_ne_zero, if_false, consecN]
          refine ⟨rfl, (if k = 0 then nullPtr else s + 1), ?_, ih (s + 1) (by omega) (by omega)⟩
          have := hnew (s - st.bufs.length * C.N) (by omega)
          rw [show st.bufs.length * C.N + (s - st.bufs.length * C.N) = s by omega] at this
          rw [this]
          congr 1
          by_cases hk : k = 0
          · rw [if_pos hk, if_neg (by omega)]
          · rw [if_neg hk, if_pos (by omega)]
      have := key C.N (st.bufs.length * C.N) (Nat.le_refl _) rfl
      rwa [if_neg (by omega)] at this
    · intro i hi
      have := (mem_consecN i _ _).mp hi
      rw [hlen', hsucc]; omega
    · intro i hi
      rw [hlen', hsucc] at hi
      rw [mem_consecN]
      by_cases hlt : i < st.bufs.length * C.N
      · rw [hold i hlt]; simp; omega
      · have := hnew (i - st.bufs.length * C.N) (by omega)
        rw [show st.bufs.length * C.N + (i - st.bufs.length * C.N) = i by omega] at this
        rw [this]; simp; omega
    · rw [consecN_length, hlen', hsucc, hac]
      omega
  · -- live blocks
    intro i
    rw [mem_live, mem_live, hlen', hsucc]
    constructor
    · intro ⟨h1, h2⟩
      by_cases hlt : i < st.bufs.length * C.N
      · exact ⟨hlt, hall i hlt⟩
      · have := hnew (i - st.bufs.length * C.N) (by omega)
        rw [show st.bufs.length * C.N + (i - st.bufs.length * C.N) = i by omega] at this
        rw [this] at h2; simp at h2
    · intro ⟨h1, _⟩
      exact ⟨by omega, hold i h1⟩


/-- the pool-visible part of the state is unchanged (the storage of `mBuffers` may have grown) -/
def SameU (st st' : State) : Prop :=
  st'.bufs = st.bufs ∧ st'.head = st.head ∧ st'.mem = st.mem ∧ st'.allocCount = st.allocCount

theorem lk_congr (C : Cfg) {st st' : State} (hb : st'.bufs = st.bufs) (i : Nat) :
    rp C st' i = rp C st i := by
  unfold rp realPtr; rw [hb]

theorem WF.sameU {C : Cfg} {st st' : State} (h : WF C st) (hs : SameU st st') (hcap : st.bufs.length ≤ st'.arrCap) :
    WF C st' ∧ ∀ i, i ∈ live C st' ↔ i ∈ live C st := by
  obtain ⟨hb, hh, hm, ha⟩ := hs
  have hl : ∀ i, lk C st' i = lk C st i := by intro i; unfold lk; rw [lk_congr C hb, hm]
  have hlk : lk C st' = lk C st := funext hl
  constructor
  · refine ⟨by rw [hb]; exact h.lenMax, by rw [hb]; exact hcap, by rw [hb]; exact h.disj, ?_⟩
    rw [hlk, hh, hb, ha]; exact h.chain
  · intro i; rw [mem_live, mem_live, hl, hb]

/-- growth of the storage of `mBuffers`: new storage first, then the old one goes back -/
theorem grow_ledger (C : Cfg) (st : State) (a : Int) (c' : Nat) (hc : st.arrCap < c') :
    LedgerOKU C st ([Ev.malloc a ((c' * sizeofPtr : Nat) : Int)] ++
        (if st.arrCap > 0 then [Ev.free st.arrAddr ((st.arrCap * sizeofPtr : Nat) : Int)] else []))
      { st with arrCap := c', arrAddr := a } := by
  unfold LedgerOKU owned
  have hc' : c' > 0 := by omega
  simp only [hc', if_true]
  by_cases h0 : st.arrCap > 0
  · simp only [h0, if_true, List.singleton_append, ledger]
    have hm : (st.arrAddr, ((st.arrCap * sizeofPtr : Nat) : Int)) ∈
        (a, ((c' * sizeofPtr : Nat) : Int)) :: (st.bufs.map (fun b => (b, (C.bufferSize : Int))) ++
          [(st.arrAddr, ((st.arrCap * sizeofPtr : Nat) : Int))]) := by simp
    rw [if_pos hm]
    refine ⟨_, rfl, ?_⟩
    have h1 := List.perm_cons_erase hm
    have h2 : ((a, ((c' * sizeofPtr : Nat) : Int)) :: (st.bufs.map (fun b => (b, (C.bufferSize : Int))) ++
          [(st.arrAddr, ((st.arrCap * sizeofPtr : Nat) : Int))])).Perm
        ((st.arrAddr, ((st.arrCap * sizeofPtr : Nat) : Int)) ::
          (st.bufs.map (fun b => (b, (C.bufferSize : Int))) ++ [(a, ((c' * sizeofPtr : Nat) : Int))])) := by
      refine (List.Perm.cons _ (List.perm_append_singleton _ _)).trans ?_
      refine (List.Perm.swap _ _ _).trans (List.Perm.cons _ ?_)
      exact (List.perm_append_singleton _ _).symm
    exact (h1.symm.trans h2).cons_inv
  · simp only [h0, if_false, List.append_nil, ledger]
    exact ⟨_, rfl, (List.perm_append_singleton _ _).symm⟩

theorem growCapacity_ge (cap n : Nat) : n ≤ Arr.growCapacity true cap n true false := by
  unfold Arr.growCapacity
  simp only [Bool.not_true, Bool.and_false]
  exact Nat.le_max_right _ _

/-- the answer of the manager that becomes the new buffer -/
def bufAnswer (st : State) (orc : Oracle) : Option Int :=
  if st.bufs.length + 1 > st.arrCap then orc 1 else orc 0

/-- contract of the memory manager for one `Allocate`: the new buffer overlaps no buffer the pool holds -/
def ContractU (C : Cfg) (st : State) (orc : Oracle) : Prop :=
  ∀ base, bufAnswer st orc = some base → ∀ b ∈ st.bufs, Disj base C.bufferSize b C.bufferSize

theorem addBuffer_ledger (C : Cfg) (st st' : State) (base : Int) (hb : st'.bufs = st.bufs ++ [base])
    (hc : st'.arrCap = st.arrCap) (ha : st'.arrAddr = st.arrAddr) :
    LedgerOKU C st [Ev.malloc base C.bufferSize] st' := by
  unfold LedgerOKU owned
  rw [hb, hc, ha]
  refine ⟨_, rfl, ?_⟩
  simp only [List.map_append, List.map_cons, List.map_nil, List.append_assoc]
  exact (List.perm_middle).symm

/-- **`pvNewBuffer` (900-916)**, called with an empty free chain -/
theorem newBuffer_ok {C : Cfg} (hC : C.Legal) {st : State} (h : WF C st) (hhead : st.head = nullPtr) {orc : Oracle}
    (hc : ContractU C st orc) :
    match newBuffer C st orc with
    | .ok _ st' evs => WF C st' ∧ st'.head ≠ nullPtr ∧ (∀ i, i ∈ live C st' ↔ i ∈ live C st) ∧
        st'.allocCount = st.allocCount ∧ LedgerOKU C st evs st'
    | .badAlloc st' evs => SameU st st' ∧ WF C st' ∧ LedgerOKU C st evs st'
    | .lengthError st' => st' = st
    | .stuck _ => False := by
  unfold newBuffer
  by_cases hmax : st.bufs.length ≥ C.maxBuf
  · rw [if_pos hmax]
  · rw [if_neg hmax]
    by_cases hg : st.bufs.length + 1 > st.arrCap
    · rw [if_pos hg]
      cases h0 : orc 0 with
      | none => exact ⟨⟨rfl, rfl, rfl, rfl⟩, h, LedgerOKU.nil rfl⟩
      | some a =>
        simp only
        have hge := growCapacity_ge st.arrCap (st.bufs.length + 1)
        generalize Arr.growCapacity true st.arrCap (st.bufs.length + 1) true false = c' at *
        have hl1 := grow_ledger C st a c' (by omega)
        have hs1 : SameU st { st with arrCap := c', arrAddr := a } := ⟨rfl, rfl, rfl, rfl⟩
        obtain ⟨hwf1, hlive1⟩ := h.sameU hs1 (by show st.bufs.length ≤ c'; omega)
        cases h1 : orc 1 with
        | none => exact ⟨hs1, hwf1, hl1⟩
        | some base =>
          have hdis := hc base (by unfold bufAnswer; rw [if_pos hg]; exact h1)
          obtain ⟨st', he, hwf, _, hnn, hlive, hac, hb, hcp, had⟩ :=
            addBuffer_ok hC hwf1 hhead (by show st.bufs.length < C.maxBuf; omega) (by show st.bufs.length + 1 ≤ c'; omega)
              base hdis ([Ev.malloc a ((c' * sizeofPtr : Nat) : Int)] ++
                (if st.arrCap > 0 then [Ev.free st.arrAddr ((st.arrCap * sizeofPtr : Nat) : Int)] else []))
          rw [he]
          exact ⟨hwf, hnn, fun i => (hlive i).trans (hlive1 i), hac, hl1.trans (addBuffer_ledger C _ st' base hb hcp had)⟩
    · rw [if_neg hg]
      cases h0 : orc 0 with
      | none => exact ⟨⟨rfl, rfl, rfl, rfl⟩, h, LedgerOKU.nil rfl⟩
      | some base =>
        have hdis := hc base (by unfold bufAnswer; rw [if_neg hg]; exact h0)
        obtain ⟨st', he, hwf, _, hnn, hlive, hac, hb, hcp, had⟩ :=
          addBuffer_ok hC h hhead (by omega) (by omega) base hdis []
        rw [he]
        exact ⟨hwf, hnn, hlive, hac, by simpa using addBuffer_ledger C st st' base hb hcp had⟩

theorem rp_ne {C : Cfg} (hC : C.Legal) {st : State} (h : WF C st) (i j : Nat) (hi : i < st.bufs.length * C.N)
    (hj : j < st.bufs.length * C.N) (hij : i ≠ j) : rp C st i ≠ rp C st j := by
  have := rp_disj C hC.hN st h.disj i j hi hj hij
  have hS := hC.hS
  simp only [sizeofU32] at hS
  unfold Disj at this; omega

/-- **the second half of `Allocate` (866-869)**: the head of the free chain is handed out -/
theorem takeHead_ok {C : Cfg} (hC : C.Legal) {st : State} (h : WF C st) (hh : st.head ≠ nullPtr) (evs : List Ev) :
    ∃ st', takeHead C st evs = .ok st.head st' evs ∧ WF C st' ∧ st.head ∉ live C st ∧
      (∀ i, i ∈ live C st' ↔ i = st.head ∨ i ∈ live C st) ∧ st'.allocCount = st.allocCount + 1 ∧
      st.head < st.bufs.length * C.N ∧ st'.bufs = st.bufs ∧ owned C st' = owned C st := by
  obtain ⟨ch, hch, hnd, hlt, hnone, hcnt⟩ := h.chain
  cases ch with
  | nil => exact absurd hch hh
  | cons x xs =>
    obtain ⟨hx, v, hv, hrest⟩ := hch
    have hxl := hlt x (by simp)
    rw [← hx] at hxl hv
    obtain ⟨b, _, _, hrp, hrpe⟩ := rp_eq C st st.head hxl
    have hrp' : realPtr C st st.head = some (rp C st st.head) := by rw [hrp, hrpe]
    have hv' : st.mem (rp C st st.head) = some v := hv
    have hxn : st.head ∉ xs := by rw [hx]; exact (List.nodup_cons.mp hnd).1
    refine ⟨{ st with head := v, mem := setW st.mem (rp C st st.head) none, allocCount := st.allocCount + 1 }, ?_, ?_, ?_, ?_,
      rfl, hxl, rfl, rfl⟩
    · unfold takeHead
      rw [if_neg hh, hrp']; simp only [hv']
    all_goals
      have hlk : ∀ i, i < st.bufs.length * C.N →
          lk C { st with head := v, mem := setW st.mem (rp C st st.head) none, allocCount := st.allocCount + 1 } i =
            if i = st.head then none else lk C st i := by
        intro i hi
        unfold lk
        rw [lk_congr C (st' := { st with head := v, mem := setW st.mem (rp C st st.head) none, allocCount := st.allocCount + 1 })
          (st := st) rfl i]
        show setW st.mem (rp C st st.head) none (rp C st i) = _
        unfold setW
        by_cases hi' : i = st.head
        · rw [hi']; simp
        · rw [if_neg (rp_ne hC h i st.head hi hxl hi'), if_neg hi']
    · refine ⟨h.lenMax, h.lenCap, h.disj, xs, ?_, (List.nodup_cons.mp hnd).2, fun i hi => hlt i (by simp [hi]), ?_, ?_⟩
      · apply Chain_congr _ v hrest
        intro y hy
        have hyl := hlt y (by simp [hy])
        have hyl' : y < st.bufs.length * C.N := hyl
        have hne : y ≠ st.head := fun e => hxn (e ▸ hy)
        rw [hlk y hyl', if_neg hne]
      · intro i hi
        have hi' : i < st.bufs.length * C.N := hi
        rw [hlk i hi']
        by_cases he : i = st.head
        · rw [if_pos he, he]; simp [hxn]
        · rw [if_neg he, hnone i hi', ← hx]; simp [he]
      · show st.allocCount + 1 + xs.length = st.bufs.length * C.N
        simp only [List.length_cons] at hcnt; omega
    · rw [mem_live]
      intro ⟨_, hl⟩
      have : lk C st st.head = some v := hv
      rw [this] at hl; cases hl
    · intro i
      rw [mem_live, mem_live]
      show i < st.bufs.length * C.N ∧ _ ↔ _
      constructor
      · intro ⟨h1, h2⟩
        rw [hlk i h1] at h2
        by_cases he : i = st.head
        · exact Or.inl he
        · rw [if_neg he] at h2; exact Or.inr ⟨h1, h2⟩
      · rintro (he | ⟨h1, h2⟩)
        · rw [he]; exact ⟨hxl, by rw [hlk _ hxl, if_pos rfl]⟩
        · refine ⟨h1, ?_⟩
          rw [hlk i h1]
          split
          · rfl
          · exact h2

/-- what a successful `Allocate` promises -/
structure AllocSpecU (C : Cfg) (st st' : State) (blk : Nat) (evs : List Ev) : Prop where
  wf : WF C st'
  fresh : blk ∉ live C st
  liveIff : ∀ i, i ∈ live C st' ↔ i = blk ∨ i ∈ live C st
  count : st'.allocCount = st.allocCount + 1
  inside : blk < st'.bufs.length * C.N
  ledger : LedgerOKU C st evs st'

/-- **`Allocate` (862-870)**: returns an index that was not live (and lies in the buffers), or fails - `std::bad_alloc` of
    the manager, `std::length_error` at the buffer limit - leaving buffers, free chain, memory words and count unchanged;
    it never hits an assertion or reads a word of a live block -/
theorem allocate_ok {C : Cfg} (hC : C.Legal) {st : State} (h : WF C st) {orc : Oracle} (hc : ContractU C st orc) :
    match allocate C st orc with
    | .ok blk st' evs => AllocSpecU C st st' blk evs
    | .badAlloc st' evs => SameU st st' ∧ WF C st' ∧ LedgerOKU C st evs st'
    | .lengthError st' => st' = st
    | .stuck _ => False := by
  unfold allocate
  by_cases hh : st.head = nullPtr
  · rw [if_pos hh]
    have hnb := newBuffer_ok hC h hh hc
    cases hres : newBuffer C st orc with
    | stuck w => rw [hres] at hnb; exact hnb.elim
    | lengthError st1 => rw [hres] at hnb; exact hnb
    | badAlloc st1 evs => rw [hres] at hnb; exact hnb
    | ok u st1 evs =>
      rw [hres] at hnb
      obtain ⟨hwf1, hnn, hlive1, hac1, hl1⟩ := hnb
      obtain ⟨st', he, hwf, hfr, hlive, hac, hin, hb, hown⟩ := takeHead_ok hC hwf1 hnn evs
      simp only [he]
      refine ⟨hwf, fun hm => hfr ((hlive1 _).mpr hm), fun i => ?_, by rw [hac, hac1], by rw [hb]; exact hin, ?_⟩
      · rw [hlive i, hlive1 i]
      · obtain ⟨L, e1, e2⟩ := hl1
        exact ⟨L, e1, by rw [hown]; exact e2⟩
  · rw [if_neg hh]
    obtain ⟨st', he, hwf, hfr, hlive, hac, hin, hb, hown⟩ := takeHead_ok hC h hh []
    rw [he]
    exact ⟨hwf, hfr, hlive, hac, by rw [hb]; exact hin, LedgerOKU.nil hown⟩


/-- giving the buffers back one by one -/
theorem ledger_free_all (sz : Int) : ∀ (bs : List Int) (X : List (Int × Int)) (E : List Ev),
    ledger (bs.map (fun b => (b, sz)) ++ X) (bs.map (fun b => Ev.free b sz) ++ E) = ledger X E := by
  intro bs
  induction bs with
  | nil => intro X E; rfl
  | cons b bs ih =>
    intro X E
    simp only [List.map_cons, List.cons_append, ledger]
    rw [if_pos (by simp)]
    simp only [List.erase_cons_head]
    exact ih X E

/-- **`pvClear` (918-926)** on a pool without live blocks: every buffer and the storage of `mBuffers` go back to the
    manager, each with the address and size it was obtained with; nothing stays outstanding -/
theorem clear_ok (C : Cfg) (st : State) (h0 : st.allocCount = 0) :
    WF C (clear C st).1 ∧ ledger (owned C st) (clear C st).2 = some [] ∧ owned C (clear C st).1 = [] ∧
    live C (clear C st).1 = [] ∧ (clear C st).1.allocCount = 0 := by
  refine ⟨?_, ?_, ?_, ?_, h0⟩
  · refine ⟨by simp [clear], by simp [clear], by simp [clear], [], ?_, by simp, by simp, ?_, ?_⟩
    · show (clear C st).1.head = nullPtr; rfl
    · intro i hi; simp [clear] at hi
    · show st.allocCount + 0 = 0 * C.N; rw [h0]; simp
  · unfold owned clear
    simp only
    rw [ledger_free_all]
    by_cases hc : st.arrCap > 0
    · simp [hc, ledger]
    · simp [hc, ledger]
  · simp [owned, clear]
  · simp [live, clear]

/-- what `Deallocate` promises -/
structure DeallocSpecU (C : Cfg) (st st' : State) (blk : Nat) (evs : List Ev) : Prop where
  wf : WF C st'
  liveIff : ∀ i, i ∈ live C st ↔ i = blk ∨ i ∈ live C st'
  notLive : blk ∉ live C st'
  count : st'.allocCount + 1 = st.allocCount
  ledger : LedgerOKU C st evs st'

/-- **`Deallocate` (872-881)** of a live index: it always succeeds, exactly this block stops being live (it becomes the
    head of the free chain), and when the last block of a pool with more than two buffers goes, everything is given back -/
theorem deallocate_ok {C : Cfg} (hC : C.Legal) {st : State} (h : WF C st) (blk : Nat) (hb : blk ∈ live C st) :
    ∃ st' evs, deallocate C st blk = .ok () st' evs ∧ DeallocSpecU C st st' blk evs := by
  obtain ⟨hbl, hbn⟩ := (mem_live C st blk).mp hb
  have hcnt := h.count_exact
  have hpos : st.allocCount ≠ 0 := by
    have : 0 < (live C st).length := List.length_pos_of_mem hb
    omega
  have hnull : blk ≠ nullPtr := by
    have h1 : st.bufs.length * C.N ≤ C.maxBuf * C.N := Nat.mul_le_mul_right _ h.lenMax
    have := hC.hMax; omega
  obtain ⟨b, _, _, hrp, hrpe⟩ := rp_eq C st blk hbl
  have hrp' : realPtr C st blk = some (rp C st blk) := by rw [hrp, hrpe]
  obtain ⟨ch, hch, hnd, hlt, hnone, hc⟩ := h.chain
  have hbch : blk ∉ ch := (hnone blk hbl).mp hbn
  -- the state after the link write
  generalize hs1 : ({ st with mem := setW st.mem (rp C st blk) (some st.head), head := blk,
                              allocCount := st.allocCount - 1 } : State) = st1
  have hb1 : st1.bufs = st.bufs := by rw [← hs1]
  have hh1 : st1.head = blk := by rw [← hs1]
  have ha1 : st1.allocCount = st.allocCount - 1 := by rw [← hs1]
  have hm1 : st1.mem = setW st.mem (rp C st blk) (some st.head) := by rw [← hs1]
  have hcap1 : st1.arrCap = st.arrCap := by rw [← hs1]
  have hadr1 : st1.arrAddr = st.arrAddr := by rw [← hs1]
  have hlk : ∀ i, i < st.bufs.length * C.N → lk C st1 i = if i = blk then some st.head else lk C st i := by
    intro i hi
    unfold lk
    rw [lk_congr C hb1 i, hm1]
    unfold setW
    by_cases hi' : i = blk
    · rw [hi']; simp
    · rw [if_neg (rp_ne hC h i blk hi hbl hi'), if_neg hi']
  have hwf1 : WF C st1 := by
    refine ⟨by rw [hb1]; exact h.lenMax, by rw [hb1, hcap1]; exact h.lenCap, by rw [hb1]; exact h.disj, blk :: ch, ?_,
      List.nodup_cons.mpr ⟨hbch, hnd⟩, ?_, ?_, ?_⟩
    · rw [hh1]
      refine ⟨rfl, st.head, by rw [hlk blk hbl, if_pos rfl], ?_⟩
      apply Chain_congr _ _ hch
      intro y hy
      have hne : y ≠ blk := fun e => hbch (e ▸ hy)
      have hyl : y < st.bufs.length * C.N := hlt y hy
      rw [hlk y hyl, if_neg hne]
    · intro i hi
      rw [hb1]
      rcases List.mem_cons.mp hi with rfl | hi
      · exact hbl
      · exact hlt i hi
    · intro i hi
      rw [hb1] at hi
      rw [hlk i hi]
      by_cases he : i = blk
      · rw [if_pos he]; simp [he]
      · rw [if_neg he, hnone i hi]; simp [he]
    · rw [hb1, ha1]; simp only [List.length_cons]; omega
  have hlive1 : ∀ i, i ∈ live C st ↔ i = blk ∨ i ∈ live C st1 := by
    intro i
    rw [mem_live, mem_live, hb1]
    constructor
    · intro ⟨h1, h2⟩
      by_cases he : i = blk
      · exact Or.inl he
      · exact Or.inr ⟨h1, by rw [hlk i h1, if_neg he]; exact h2⟩
    · rintro (he | ⟨h1, h2⟩)
      · rw [he]; exact ⟨hbl, hbn⟩
      · refine ⟨h1, ?_⟩
        rw [hlk i h1] at h2
        by_cases he : i = blk
        · rw [if_pos he] at h2; cases h2
        · rw [if_neg he] at h2; exact h2
  have hnl1 : blk ∉ live C st1 := by
    rw [mem_live]; intro ⟨h1, h2⟩
    rw [hb1] at h1
    rw [hlk blk h1, if_pos rfl] at h2; cases h2
  have hown1 : owned C st1 = owned C st := by unfold owned; rw [hb1, hcap1, hadr1]
  unfold deallocate
  rw [if_neg hnull, if_neg hpos, hrp']
  simp only [hs1]
  by_cases hcl : st.allocCount - 1 = 0 ∧ st.bufs.length > 2
  · rw [if_pos hcl]
    obtain ⟨c1, c2, c3, c4, c5⟩ := clear_ok C st1 (by rw [ha1]; exact hcl.1)
    refine ⟨_, _, rfl, c1, ?_, by rw [c4]; simp, by rw [c5]; omega, ⟨[], by rw [← hown1]; exact c2, by rw [c3]⟩⟩
    intro i
    rw [c4]
    constructor
    · intro hi
      -- the only live block is `blk`
      left
      have hlen : (live C st).length = 1 := by omega
      match hl : live C st, hlen with
      | [a], _ =>
        rw [hl] at hi hb
        simp only [List.mem_singleton] at hi hb
        rw [hi, hb]
    · rintro (he | hf)
      · rw [he]; exact hb
      · simp at hf
  · rw [if_neg hcl]
    exact ⟨st1, [], rfl, hwf1, hlive1, hnl1, by rw [ha1]; omega, LedgerOKU.nil hown1⟩

/-- **`DeallocateAll` (883-887)** at any time, and the destructor (835-839) of a pool without live blocks: all memory
    goes back, nothing stays outstanding -/
theorem deallocateAll_ok (C : Cfg) (st : State) :
    ∃ st' evs, deallocateAll C st = .ok () st' evs ∧ WF C st' ∧ ledger (owned C st) evs = some [] ∧ owned C st' = [] ∧
      live C st' = [] ∧ st'.allocCount = 0 := by
  obtain ⟨c1, c2, c3, c4, _⟩ := clear_ok C { st with allocCount := 0 } rfl
  refine ⟨_, _, rfl, ?_, ?_, ?_, ?_, rfl⟩
  · exact c1
  · exact c2
  · exact c3
  · exact c4

theorem destroy_ok (C : Cfg) (st : State) (h0 : st.allocCount = 0) :
    ∃ st' evs, destroy C st = .ok () st' evs ∧ ledger (owned C st) evs = some [] ∧ owned C st' = [] := by
  obtain ⟨_, c2, c3, _, _⟩ := clear_ok C st h0
  refine ⟨_, _, ?_, c2, c3⟩
  unfold destroy
  rw [if_neg (by simpa using h0)]

/-- legal histories of a `MemPoolUInt32` with all calls made to the memory manager so far: `Allocate` (succeeding,
    refused by the manager, or stopped by the buffer limit) with a manager that honours `ContractU`, `Deallocate` of live
    indices, `DeallocateAll` -/
inductive ReachU (C : Cfg) : State → List Ev → Prop
  | init : ReachU C State.empty []
  | alloc {st es orc blk st' evs} : ReachU C st es → ContractU C st orc →
      allocate C st orc = .ok blk st' evs → ReachU C st' (es ++ evs)
  | allocFail {st es orc st' evs} : ReachU C st es → ContractU C st orc →
      allocate C st orc = .badAlloc st' evs → ReachU C st' (es ++ evs)
  | allocLimit {st es orc st'} : ReachU C st es → ContractU C st orc →
      allocate C st orc = .lengthError st' → ReachU C st' es
  | dealloc {st es blk st' evs} : ReachU C st es → blk ∈ live C st →
      deallocate C st blk = .ok () st' evs → ReachU C st' (es ++ evs)
  | deallocAll {st es st' evs} : ReachU C st es →
      deallocateAll C st = .ok () st' evs → ReachU C st' (es ++ evs)

/-- the ledger of all events so far is exactly the memory the pool holds -/
def LedgerIsU (C : Cfg) (es : List Ev) (st : State) : Prop :=
  ∃ L, ledger [] es = some L ∧ L.Perm (owned C st)

theorem LedgerIsU.step {C : Cfg} {es evs : List Ev} {st st' : State} (h : LedgerIsU C es st)
    (hl : LedgerOKU C st evs st') : LedgerIsU C (es ++ evs) st' := by
  obtain ⟨L, h1, h2⟩ := h
  obtain ⟨L', h3, h4⟩ := hl
  obtain ⟨M, h5, h6⟩ := ledger_perm evs h2.symm L' h3
  exact ⟨M, by rw [ledger_append, h1]; exact h5, h6.symm.trans h4⟩

theorem ReachU.inv {C : Cfg} (hC : C.Legal) {st : State} {es : List Ev} (h : ReachU C st es) :
    WF C st ∧ LedgerIsU C es st := by
  induction h with
  | init => exact ⟨WF.empty C, [], rfl, by simp [owned, State.empty]⟩
  | @alloc st es orc blk st' evs _ hc he ih =>
    have := allocate_ok hC ih.1 hc
    rw [he] at this
    exact ⟨this.wf, ih.2.step this.ledger⟩
  | @allocFail st es orc st' evs _ hc he ih =>
    have := allocate_ok hC ih.1 hc
    rw [he] at this
    exact ⟨this.2.1, ih.2.step this.2.2⟩
  | @allocLimit st es orc st' _ hc he ih =>
    have := allocate_ok hC ih.1 hc
    rw [he] at this
    rw [this]; exact ih
  | @dealloc st es blk st' evs _ hb he ih =>
    obtain ⟨s2, e2, h2, hs⟩ := deallocate_ok hC ih.1 blk hb
    rw [he] at h2; cases h2
    exact ⟨hs.wf, ih.2.step hs.ledger⟩
  | @deallocAll st es st' evs _ he ih =>
    obtain ⟨s2, e2, h2, hwf, hl, hown, _⟩ := deallocateAll_ok C st
    rw [he] at h2; cases h2
    exact ⟨hwf, ih.2.step ⟨[], hl, by rw [hown]⟩⟩

theorem freeChain_succ (C : Cfg) (st : State) (f i : Nat) :
    freeChain C st (f + 1) i =
      if i = nullPtr then some []
      else match realPtr C st i with
        | none => none
        | some a => match st.mem a with
          | none => none
          | some nxt => (freeChain C st f nxt).map (i :: ·) := rfl

/-- the executable walk of the free chain (what successive `Allocate` calls would follow) yields the chain of the invariant -/
theorem freeChain_of_Chain (C : Cfg) (st : State) : ∀ (ch : List Nat) (s : Nat), Chain (lk C st) s ch →
    (∀ i ∈ ch, i < st.bufs.length * C.N ∧ i ≠ nullPtr) → freeChain C st (ch.length + 1) s = some ch := by
  intro ch
  induction ch with
  | nil => intro s h _; have : s = nullPtr := h; simp [freeChain, this]
  | cons x xs ih =>
    intro s ⟨h1, v, h2, h3⟩ hlt
    subst h1
    obtain ⟨hx, hxn⟩ := hlt s (by simp)
    obtain ⟨b, _, _, hrp, hrpe⟩ := rp_eq C st s hx
    have hrp' : realPtr C st s = some (rp C st s) := by rw [hrp, hrpe]
    have h2' : st.mem (rp C st s) = some v := h2
    rw [List.length_cons, freeChain_succ, if_neg hxn, hrp']
    simp only [h2']
    rw [ih v h3 (fun i hi => hlt i (by simp [hi]))]
    rfl

/-- **the free chain never contains a live block**, and every block of the buffers is either on it or live -/
theorem WF.chain_live {C : Cfg} (hC : C.Legal) {st : State} (h : WF C st) :
    ∃ ch, freeChain C st (ch.length + 1) st.head = some ch ∧ ch.Nodup ∧ (∀ i ∈ ch, i ∉ live C st) ∧
      (∀ i, i < st.bufs.length * C.N → (i ∈ ch ∨ i ∈ live C st)) := by
  obtain ⟨ch, hch, hnd, hlt, hnone, _⟩ := h.chain
  have hb : ∀ i ∈ ch, i < st.bufs.length * C.N ∧ i ≠ nullPtr := by
    intro i hi
    have h1 : st.bufs.length * C.N ≤ C.maxBuf * C.N := Nat.mul_le_mul_right _ h.lenMax
    have := hC.hMax
    have := hlt i hi
    exact ⟨this, by omega⟩
  refine ⟨ch, freeChain_of_Chain C st ch st.head hch hb, hnd, ?_, ?_⟩
  · intro i hi hl
    obtain ⟨h1, h2⟩ := (mem_live C st i).mp hl
    exact ((hnone i h1).mp h2) hi
  · intro i hi
    by_cases hc : i ∈ ch
    · exact Or.inl hc
    · exact Or.inr ((mem_live C st i).mpr ⟨hi, (hnone i hi).mpr hc⟩)

end Momo.PoolU32
