import Momo.Proof.PoolAllocFrame
/-!
  C20, layer C: the invariant that ties containers (entities), their allocator objects and their blocks
  to the allocator-level machine, and its preservation by every container operation.
-/
namespace Momo.PoolAlloc

structure CInv (cs : CSys) : Prop where
  inv : Inv cs.sys
  /-- entity names are distinct -/
  nodupE : (cs.ents.map (·.eid)).Nodup
  /-- every live block is held by a live entity whose allocator points to the pool the block came from -/
  owned : ∀ b ∈ cs.sys.blocks, ∃ e ∈ cs.ents, e.eid = cs.own b.id ∧ e.pid = b.pid
  /-- the allocator of a live entity points to an existing pool -/
  entPool : ∀ e ∈ cs.ents, ∃ st, cs.sys.pools[e.pid]? = some st
  /-- `use_count()` of a pool = number of live entities whose allocator points to it -/
  refs : ∀ (p : Nat) (st : PoolSt), cs.sys.pools[p]? = some st → st.refs = cs.ents.countP (fun e => e.pid == p)

theorem cinv_init : CInv CSys.init := by
  refine ⟨inv_init, ?_, ?_, ?_, ?_⟩ <;> simp [CSys.init, Sys.init]

/-! ### generic list facts -/

theorem countP_filter_key {α : Type} (key : α → Nat) {l : List α} (hnd : (l.map key).Nodup) {b : α} (hb : b ∈ l)
    (q : α → Bool) :
    (l.filter (fun x => key x != key b)).countP q + (if q b then 1 else 0) = l.countP q := by
  induction l with
  | nil => cases hb
  | cons a t ih =>
    simp only [List.map_cons, List.nodup_cons] at hnd
    rcases List.mem_cons.mp hb with rfl | hb'
    · have : t.filter (fun x => key x != key b) = t := by
        apply List.filter_eq_self.mpr
        intro x hx
        have : key x ≠ key b := fun h => hnd.1 (h ▸ List.mem_map_of_mem hx)
        simpa using this
      simp [this, List.countP_cons]
    · have hne : key a ≠ key b := fun h => hnd.1 (h ▸ List.mem_map_of_mem hb')
      have := ih hnd.2 hb'
      simp [hne, List.countP_cons]
      omega

theorem key_inj {α : Type} (key : α → Nat) {l : List α} (hnd : (l.map key).Nodup) {a b : α} (ha : a ∈ l) (hb : b ∈ l)
    (h : key a = key b) : a = b := by
  induction l with
  | nil => cases ha
  | cons x t ih =>
    simp only [List.map_cons, List.nodup_cons] at hnd
    rcases List.mem_cons.mp ha with rfl | ha' <;> rcases List.mem_cons.mp hb with rfl | hb'
    · rfl
    · exact absurd (h ▸ List.mem_map_of_mem hb') hnd.1
    · exact absurd (h ▸ List.mem_map_of_mem ha') hnd.1
    · exact ih hnd.2 ha' hb'

theorem findEnt_some {cs : CSys} {e : Nat} {en : Ent} (h : findEnt cs e = some en) : en ∈ cs.ents ∧ en.eid = e := by
  unfold findEnt at h
  exact ⟨List.mem_of_find?_eq_some h, by simpa using List.find?_some h⟩

theorem findEnt_none {cs : CSys} {e : Nat} (h : (findEnt cs e).isSome = false) : ∀ x ∈ cs.ents, x.eid ≠ e := by
  unfold findEnt at h
  rw [Option.isSome_eq_false_iff, Option.isNone_iff_eq_none, List.find?_eq_none] at h
  intro x hx; simpa using h x hx

/-! ### the error state is final -/

theorem cfail_err (cs : CSys) (h0 : cs.sys.err = none) : (cs.cfail).sys.err = some .illegal := by
  simp [CSys.cfail, step, h0, Sys.fail]

theorem actStep_of_err {e p : Nat} {cs : CSys} {er : Err} (h : cs.sys.err = some er) (a : Act) :
    (actStep e p cs a).sys = cs.sys := by
  cases a with
  | alloc cls n id mallocs => simp [actStep, step_of_err h]
  | free id frees =>
    simp only [actStep]
    split
    · simp [CSys.cfail, step_of_err h]
    · split <;> simp [CSys.cfail, step_of_err h]

theorem acts_of_err {e p : Nat} {cs : CSys} {er : Err} (h : cs.sys.err = some er) (acts : List Act) :
    (acts.foldl (actStep e p) cs).sys = cs.sys := by
  induction acts generalizing cs with
  | nil => rfl
  | cons a acts ih =>
    rw [List.foldl_cons, ih (by rw [actStep_of_err h]; exact h), actStep_of_err h]

theorem actStep_ents (e p : Nat) (cs : CSys) (a : Act) : (actStep e p cs a).ents = cs.ents := by
  cases a with
  | alloc cls n id mallocs => rfl
  | free id frees =>
    simp only [actStep]
    split
    · rfl
    · split <;> rfl

theorem acts_ents (e p : Nat) (cs : CSys) (acts : List Act) : (acts.foldl (actStep e p) cs).ents = cs.ents := by
  induction acts generalizing cs with
  | nil => rfl
  | cons a acts ih => rw [List.foldl_cons, ih, actStep_ents]

/-! ### every change of the allocator-level state is a sequence of allocator-level operations -/

theorem actStep_lowers (e p : Nat) (cs : CSys) (a : Act) : ∃ op, (actStep e p cs a).sys = step cs.sys op := by
  cases a with
  | alloc cls n id mallocs => exact ⟨.alloc p cls n id mallocs, rfl⟩
  | free id frees =>
    simp only [actStep]
    cases hf : cs.sys.blocks.find? (fun b => b.id == id) with
    | none => exact ⟨.bad, rfl⟩
    | some b =>
      simp only
      split
      · exact ⟨.dealloc p b.cls b.n id frees, rfl⟩
      · exact ⟨.bad, rfl⟩

theorem acts_lower (e p : Nat) (cs : CSys) (acts : List Act) :
    ∃ ops, (acts.foldl (actStep e p) cs).sys = run cs.sys ops := by
  induction acts generalizing cs with
  | nil => exact ⟨[], rfl⟩
  | cons a acts ih =>
    obtain ⟨op, hop⟩ := actStep_lowers e p cs a
    obtain ⟨ops, hops⟩ := ih (actStep e p cs a)
    exact ⟨op :: ops, by rw [List.foldl_cons, hops, hop]; rfl⟩

theorem cstep_lowers (cs : CSys) (op : COp) : ∃ ops, (cstep cs op).sys = run cs.sys ops := by
  unfold cstep
  split
  · exact ⟨[], rfl⟩
  · cases op with
    | newAlloc e cls cb =>
      simp only; split
      · exact ⟨[.bad], rfl⟩
      · exact ⟨[.anew cls cb], rfl⟩
    | newFrom e src =>
      simp only; split
      · exact ⟨[.bad], rfl⟩
      · rename_i se _
        split
        · exact ⟨[.bad], rfl⟩
        · exact ⟨[.acopy se.pid], rfl⟩
    | mutate e acts =>
      simp only; split
      · exact ⟨[.bad], rfl⟩
      · exact acts_lower _ _ _ _
    | copyAssign d c acts =>
      simp only; split
      · split
        · exact ⟨[.bad], rfl⟩
        · exact acts_lower _ _ _ _
      · exact ⟨[.bad], rfl⟩
    | copyConstruct d c cls cb acts =>
      simp only; split
      · exact ⟨[.bad], rfl⟩
      · split
        · exact ⟨[.bad], rfl⟩
        · obtain ⟨ops, h⟩ := acts_lower d cs.sys.pools.length
            { cs with sys := step cs.sys (.anew cls cb), ents := ⟨d, cs.sys.pools.length⟩ :: cs.ents } acts
          exact ⟨.anew cls cb :: ops, by rw [h]; rfl⟩
    | moveConstruct d c =>
      simp only; split
      · exact ⟨[.bad], rfl⟩
      · rename_i ce _
        split
        · exact ⟨[.bad], rfl⟩
        · exact ⟨[.acopy ce.pid], rfl⟩
    | moveAssign d c acts =>
      simp only; split
      · rename_i de ce _ _
        obtain ⟨ops, h⟩ := acts_lower d de.pid cs acts
        split
        · exact ⟨[.bad], rfl⟩
        · split
          · exact ⟨ops, h⟩
          · split
            · exact ⟨ops ++ [.bad], by rw [run_append, ← h]; rfl⟩
            · exact ⟨ops ++ [.acopy ce.pid, .adrop de.pid], by rw [run_append, ← h]; rfl⟩
      · exact ⟨[.bad], rfl⟩
    | swap d c =>
      simp only; split
      · split
        · exact ⟨[.bad], rfl⟩
        · exact ⟨[], rfl⟩
      · exact ⟨[.bad], rfl⟩
    | splice d c ids =>
      simp only; split
      · split
        · exact ⟨[.bad], rfl⟩
        · exact ⟨[], rfl⟩
      · exact ⟨[.bad], rfl⟩
    | destroy e acts =>
      simp only; split
      · exact ⟨[.bad], rfl⟩
      · rename_i en _
        obtain ⟨ops, h⟩ := acts_lower e en.pid cs acts
        split
        · exact ⟨ops, h⟩
        · split
          · exact ⟨ops ++ [.bad], by rw [run_append, ← h]; rfl⟩
          · exact ⟨ops ++ [.adrop en.pid], by rw [run_append, ← h]; rfl⟩

theorem crun_lowers (cs : CSys) (ops : List COp) : ∃ l, (crun cs ops).sys = run cs.sys l := by
  induction ops generalizing cs with
  | nil => exact ⟨[], rfl⟩
  | cons op ops ih =>
    obtain ⟨l1, h1⟩ := cstep_lowers cs op
    obtain ⟨l2, h2⟩ := ih (cstep cs op)
    exact ⟨l1 ++ l2, by rw [run_append, ← h1]; exact h2⟩

/-! ### one allocation / deallocation by an entity -/

/-- pools keep their owner counts: transfer of `entPool` and `refs` -/
theorem pools_same_refs {cs : CSys} (hc : CInv cs) {p : Nat} {st : PoolSt} (hst : cs.sys.pools[p]? = some st)
    {pools' : List PoolSt} (hother : ∀ j, j ≠ p → pools'[j]? = cs.sys.pools[j]?)
    (hp : ∃ st', pools'[p]? = some st' ∧ st'.refs = st.refs) :
    (∀ e ∈ cs.ents, ∃ st, pools'[e.pid]? = some st) ∧
    (∀ (j : Nat) (st : PoolSt), pools'[j]? = some st → st.refs = cs.ents.countP (fun e => e.pid == j)) := by
  obtain ⟨st', hst', hr⟩ := hp
  constructor
  · intro e he
    by_cases hj : e.pid = p
    · exact ⟨st', hj ▸ hst'⟩
    · obtain ⟨a, ha⟩ := hc.entPool e he
      exact ⟨a, by rw [hother _ hj]; exact ha⟩
  · intro j a ha
    by_cases hj : j = p
    · subst hj
      rw [hst'] at ha
      have : a = st' := (Option.some.inj ha).symm
      rw [this, hr]; exact hc.refs _ st hst
    · rw [hother _ hj] at ha; exact hc.refs j a ha

theorem actStep_cinv {cs : CSys} (hc : CInv cs) {e p : Nat} {en : Ent} (hen : en ∈ cs.ents) (he : en.eid = e)
    (hp : en.pid = p) (a : Act) (h0 : cs.sys.err = none) (hok : (actStep e p cs a).sys.err = none) :
    CInv (actStep e p cs a) := by
  cases a with
  | alloc cls n id mallocs =>
    simp only [actStep] at hok ⊢
    have hinv := step_inv hc.inv (.alloc p cls n id mallocs) hok
    rw [step_eq_of_ok h0] at hok hinv ⊢
    simp only at hok hinv ⊢
    obtain ⟨st, prov, hl, hfresh, hblocks, hother, st', hst', hr, _⟩ := doAlloc_ok hok
    obtain ⟨hst, _⟩ := livePool_eq_some.mp hl
    obtain ⟨h1, h2⟩ := pools_same_refs hc hst hother ⟨st', hst', hr⟩
    refine ⟨hinv, hc.nodupE, ?_, h1, h2⟩
    intro b hb
    rw [hblocks] at hb
    rcases List.mem_cons.mp hb with rfl | hb
    · exact ⟨en, hen, by simp [he], hp⟩
    · obtain ⟨x, hx, hx1, hx2⟩ := hc.owned b hb
      refine ⟨x, hx, ?_, hx2⟩
      simp only [hfresh b hb, if_false]; exact hx1
  | free id frees =>
    simp only [actStep] at hok ⊢
    cases hf : cs.sys.blocks.find? (fun b => b.id == id) with
    | none => simp only [hf] at hok; rw [cfail_err cs h0] at hok; cases hok
    | some b =>
      simp only [hf] at hok ⊢
      by_cases ho : cs.own id = e
      · rw [if_pos ho] at hok ⊢
        simp only at hok ⊢
        have hinv := step_inv hc.inv (.dealloc p b.cls b.n id frees) hok
        rw [step_eq_of_ok h0] at hok hinv ⊢
        simp only at hok hinv ⊢
        obtain ⟨st, b', hl, _, _, _, hblocks, hother, st', hst', hr, _⟩ := doDealloc_ok hok
        obtain ⟨hst, _⟩ := livePool_eq_some.mp hl
        obtain ⟨h1, h2⟩ := pools_same_refs hc hst hother ⟨st', hst', hr⟩
        refine ⟨hinv, hc.nodupE, ?_, h1, h2⟩
        intro x hx
        rw [hblocks] at hx
        exact hc.owned x (List.mem_filter.mp hx).1
      · rw [if_neg ho] at hok; rw [cfail_err cs h0] at hok; cases hok

theorem acts_cinv {cs : CSys} (hc : CInv cs) {e p : Nat} {en : Ent} (hen : en ∈ cs.ents) (he : en.eid = e)
    (hp : en.pid = p) (acts : List Act) (h0 : cs.sys.err = none)
    (hok : (acts.foldl (actStep e p) cs).sys.err = none) : CInv (acts.foldl (actStep e p) cs) := by
  induction acts generalizing cs with
  | nil => exact hc
  | cons a acts ih =>
    rw [List.foldl_cons] at hok ⊢
    cases h1 : (actStep e p cs a).sys.err with
    | some er => rw [acts_of_err h1, h1] at hok; cases hok
    | none => exact ih (actStep_cinv hc hen he hp a h0 h1) (by rw [actStep_ents]; exact hen) h1 hok

/-! ### construction -/

theorem ent_pid_lt {cs : CSys} (hc : CInv cs) {x : Ent} (hx : x ∈ cs.ents) : x.pid < cs.sys.pools.length := by
  obtain ⟨st, hst⟩ := hc.entPool x hx
  exact (List.getElem?_eq_some_iff.mp hst).1

theorem newAlloc_cinv {cs : CSys} (hc : CInv cs) (h0 : cs.sys.err = none) (e : Nat) (cls : Cls) (cb : Nat)
    (hfresh : ∀ x ∈ cs.ents, x.eid ≠ e) :
    CInv { cs with sys := step cs.sys (.anew cls cb), ents := ⟨e, cs.sys.pools.length⟩ :: cs.ents } := by
  rw [step_eq_of_ok h0]
  simp only
  refine ⟨doNew_inv hc.inv cls cb, ?_, ?_, ?_, ?_⟩
  · simp only [List.map_cons, List.nodup_cons]
    refine ⟨?_, hc.nodupE⟩
    intro hm
    obtain ⟨x, hx, hxe⟩ := List.mem_map.mp hm
    exact hfresh x hx hxe
  · intro b hb
    obtain ⟨x, hx, h1, h2⟩ := hc.owned b hb
    exact ⟨x, List.mem_cons_of_mem _ hx, h1, h2⟩
  · intro x hx
    rcases List.mem_cons.mp hx with rfl | hx
    · exact ⟨⟨cls, 0, 1, false⟩, by simp [doNew]⟩
    · obtain ⟨st, hst⟩ := hc.entPool x hx
      exact ⟨st, getElem?_append_some hst⟩
  · intro j st hst
    rcases getElem?_snoc hst with h | ⟨rfl, rfl⟩
    · have hj : j < cs.sys.pools.length := (List.getElem?_eq_some_iff.mp h).1
      have hne : ¬ (cs.sys.pools.length = j) := by omega
      simp [List.countP_cons, hne, hc.refs j st h]
    · have : cs.ents.countP (fun x => x.pid == cs.sys.pools.length) = 0 := by
        apply List.countP_eq_zero.mpr
        intro x hx
        have := ent_pid_lt hc hx
        simp; omega
      simp [List.countP_cons, this]

theorem newFrom_cinv {cs : CSys} (hc : CInv cs) (h0 : cs.sys.err = none) (e : Nat) {se : Ent} (hse : se ∈ cs.ents)
    (hfresh : ∀ x ∈ cs.ents, x.eid ≠ e) (own' : Nat → Nat)
    (hown : ∀ b ∈ cs.sys.blocks, own' b.id = cs.own b.id ∨ (own' b.id = e ∧ ∃ x ∈ cs.ents, x.eid = cs.own b.id ∧ x.pid = se.pid))
    (hok : (step cs.sys (.acopy se.pid)).err = none) :
    CInv { sys := step cs.sys (.acopy se.pid), ents := ⟨e, se.pid⟩ :: cs.ents, own := own' } := by
  have hinv := step_inv hc.inv (.acopy se.pid) hok
  rw [step_eq_of_ok h0] at hok hinv ⊢
  simp only at hok hinv ⊢
  obtain ⟨st, hl, hblocks, _, hother, hp⟩ := doCopy_ok hok
  obtain ⟨hst, _⟩ := livePool_eq_some.mp hl
  refine ⟨hinv, ?_, ?_, ?_, ?_⟩
  · simp only [List.map_cons, List.nodup_cons]
    refine ⟨?_, hc.nodupE⟩
    intro hm
    obtain ⟨x, hx, hxe⟩ := List.mem_map.mp hm
    exact hfresh x hx hxe
  · intro b hb
    rw [hblocks] at hb
    obtain ⟨x, hx, h1, h2⟩ := hc.owned b hb
    rcases hown b hb with h | ⟨h, y, hy, hy1, hy2⟩
    · exact ⟨x, List.mem_cons_of_mem _ hx, by show x.eid = own' b.id; rw [h]; exact h1, h2⟩
    · refine ⟨⟨e, se.pid⟩, List.mem_cons_self, h.symm, ?_⟩
      have : x = y := key_inj (·.eid) hc.nodupE hx hy (h1.trans hy1.symm)
      rw [← h2, this]; exact hy2.symm
  · intro x hx
    have hex : ∀ y ∈ cs.ents, ∃ st, (doCopy cs.sys se.pid).pools[y.pid]? = some st := by
      intro y hy
      by_cases hj : y.pid = se.pid
      · exact ⟨_, by rw [hj]; exact hp⟩
      · obtain ⟨a, ha⟩ := hc.entPool y hy
        exact ⟨a, by rw [hother _ hj]; exact ha⟩
    rcases List.mem_cons.mp hx with rfl | hx
    · exact hex se hse
    · exact hex x hx
  · intro j a ha
    by_cases hj : j = se.pid
    · subst hj
      rw [hp] at ha
      have : a = { st with refs := st.refs + 1 } := (Option.some.inj ha).symm
      rw [this]
      simp [List.countP_cons, hc.refs _ st hst]
    · rw [hother _ hj] at ha
      have hne : ¬ (se.pid = j) := fun h => hj h.symm
      simp [List.countP_cons, hne, hc.refs j a ha]

/-! ### destruction, move assignment, swap, splice -/

theorem ownsNone_iff {cs : CSys} {e : Nat} : ownsNone cs e = true ↔ ∀ b ∈ cs.sys.blocks, cs.own b.id ≠ e := by
  simp [ownsNone]

theorem nodup_filter_eids (l : List Ent) (f : Ent → Bool) (hnd : (l.map (·.eid)).Nodup) :
    ((l.filter f).map (·.eid)).Nodup :=
  List.Nodup.sublist (List.Sublist.map _ List.filter_sublist) hnd

theorem drop_cinv {cs : CSys} (hc : CInv cs) (h0 : cs.sys.err = none) {en : Ent} (hen : en ∈ cs.ents)
    (hnone : ownsNone cs en.eid = true) (hok : (step cs.sys (.adrop en.pid)).err = none) :
    CInv { cs with sys := step cs.sys (.adrop en.pid), ents := cs.ents.filter (fun x => x.eid != en.eid) } := by
  have hinv := step_inv hc.inv (.adrop en.pid) hok
  rw [step_eq_of_ok h0] at hok hinv ⊢
  simp only at hok hinv ⊢
  obtain ⟨st, hl, hblocks, hother, ⟨st', hst', hr, _, _⟩, _⟩ := doDrop_ok hc.inv hok
  obtain ⟨hst, _⟩ := livePool_eq_some.mp hl
  have hno := ownsNone_iff.mp hnone
  refine ⟨hinv, nodup_filter_eids _ _ hc.nodupE, ?_, ?_, ?_⟩
  · intro b hb
    rw [hblocks] at hb
    obtain ⟨x, hx, h1, h2⟩ := hc.owned b hb
    refine ⟨x, List.mem_filter.mpr ⟨hx, ?_⟩, h1, h2⟩
    have := hno b hb
    simp [h1]; exact this
  · intro x hx
    have hx' := (List.mem_filter.mp hx).1
    by_cases hj : x.pid = en.pid
    · exact ⟨st', by rw [hj]; exact hst'⟩
    · obtain ⟨a, ha⟩ := hc.entPool x hx'
      exact ⟨a, by rw [hother _ hj]; exact ha⟩
  · intro j a ha
    have hcf := countP_filter_key (·.eid) hc.nodupE hen (fun x => x.pid == j)
    by_cases hj : j = en.pid
    · subst hj
      rw [hst'] at ha
      have : a = st' := (Option.some.inj ha).symm
      rw [this, hr, hc.refs _ st hst]
      simp at hcf
      show _ = List.countP (fun x => x.pid == en.pid) (List.filter (fun x => x.eid != en.eid) cs.ents)
      omega
    · rw [hother _ hj] at ha
      have hne : ¬ (en.pid = j) := fun h => hj h.symm
      simp [hne] at hcf
      rw [hc.refs j a ha]
      show _ = List.countP (fun x => x.pid == j) (List.filter (fun x => x.eid != en.eid) cs.ents)
      omega

theorem swapName_invol (d c x : Nat) : swapName d c (swapName d c x) = x := by
  unfold swapName
  by_cases h1 : x = d
  · by_cases h2 : c = d <;> simp [h1, h2]
  · by_cases h2 : x = c
    · simp [h1, h2]
    · simp [h1, h2]

theorem swap_cinv {cs : CSys} (hc : CInv cs) (d c : Nat) :
    CInv { cs with ents := cs.ents.map (fun x => ⟨swapName d c x.eid, x.pid⟩), own := fun i => swapName d c (cs.own i) } := by
  refine ⟨hc.inv, ?_, ?_, ?_, ?_⟩
  · simp only [List.map_map]
    have : ((fun x : Ent => x.eid) ∘ fun x : Ent => (⟨swapName d c x.eid, x.pid⟩ : Ent)) = (swapName d c) ∘ (fun x : Ent => x.eid) := rfl
    rw [this, ← List.map_map]
    refine List.Pairwise.map (swapName d c) ?_ hc.nodupE
    intro a b hne hab
    apply hne
    have := congrArg (swapName d c) hab
    simpa [swapName_invol] using this
  · intro b hb
    obtain ⟨x, hx, h1, h2⟩ := hc.owned b hb
    exact ⟨⟨swapName d c x.eid, x.pid⟩, List.mem_map.mpr ⟨x, hx, rfl⟩, by simp [h1], h2⟩
  · intro x hx
    obtain ⟨y, hy, rfl⟩ := List.mem_map.mp hx
    exact hc.entPool y hy
  · intro j a ha
    rw [hc.refs j a ha, List.countP_map]
    rfl

theorem splice_cinv {cs : CSys} (hc : CInv cs) {d c : Nat} {de ce : Ent} (hde : de ∈ cs.ents) (hded : de.eid = d)
    (hce : ce ∈ cs.ents) (hcec : ce.eid = c) (hp : de.pid = ce.pid) (ids : List Nat) :
    CInv { cs with own := fun i => if ids.contains i && cs.own i == c then d else cs.own i } := by
  refine ⟨hc.inv, hc.nodupE, ?_, hc.entPool, hc.refs⟩
  intro b hb
  obtain ⟨x, hx, h1, h2⟩ := hc.owned b hb
  by_cases hm : (ids.contains b.id && cs.own b.id == c) = true
  · refine ⟨de, hde, by simp only [hm, if_true]; exact hded, ?_⟩
    simp only [Bool.and_eq_true, beq_iff_eq] at hm
    have : x = ce := key_inj (·.eid) hc.nodupE hx hce (by rw [h1, hm.2, hcec])
    rw [hp, ← this]; exact h2
  · refine ⟨x, hx, ?_, h2⟩
    simp only [hm]; exact h1

theorem moveAssign_cinv {cs : CSys} (hc : CInv cs) (h0 : cs.sys.err = none) {d c : Nat} {de ce : Ent}
    (hde : de ∈ cs.ents) (hded : de.eid = d) (hce : ce ∈ cs.ents) (hcec : ce.eid = c) (hdc : d ≠ c)
    (hnone : ownsNone cs d = true)
    (hok : (step (step cs.sys (.acopy ce.pid)) (.adrop de.pid)).err = none) :
    CInv { sys := step (step cs.sys (.acopy ce.pid)) (.adrop de.pid),
           ents := ⟨d, ce.pid⟩ :: cs.ents.filter (fun x => x.eid != d),
           own := fun i => if cs.own i = c then d else cs.own i } := by
  -- the intermediate state has no error either
  have hokA : (step cs.sys (.acopy ce.pid)).err = none := by
    cases h : (step cs.sys (.acopy ce.pid)).err with
    | none => rfl
    | some er => rw [step_of_err h, h] at hok; cases hok
  have hinvA := step_inv hc.inv (.acopy ce.pid) hokA
  have hinvB := step_inv hinvA (.adrop de.pid) hok
  rw [step_eq_of_ok hokA] at hok hinvB ⊢
  rw [step_eq_of_ok h0] at hok hokA hinvA hinvB ⊢
  simp only at hok hokA hinvA hinvB ⊢
  obtain ⟨st, hlA, hblocksA, _, hotherA, hpA⟩ := doCopy_ok hokA
  obtain ⟨hst, _⟩ := livePool_eq_some.mp hlA
  obtain ⟨stA, hlB, hblocksB, hotherB, ⟨stB, hstB, hrB, _, _⟩, _⟩ := doDrop_ok hinvA hok
  obtain ⟨hstA, _⟩ := livePool_eq_some.mp hlB
  have hno := ownsNone_iff.mp hnone
  have hexists : ∀ (j : Nat) (a : PoolSt), cs.sys.pools[j]? = some a → ∃ a', (doDrop (doCopy cs.sys ce.pid) de.pid).pools[j]? = some a' := by
    intro j a ha
    by_cases hj : j = de.pid
    · exact ⟨stB, by rw [hj]; exact hstB⟩
    · rw [hotherB _ hj]
      by_cases hj2 : j = ce.pid
      · exact ⟨_, by rw [hj2]; exact hpA⟩
      · exact ⟨a, by rw [hotherA _ hj2]; exact ha⟩
  refine ⟨hinvB, ?_, ?_, ?_, ?_⟩
  · simp only [List.map_cons, List.nodup_cons]
    refine ⟨?_, nodup_filter_eids _ _ hc.nodupE⟩
    intro hm
    obtain ⟨x, hx, hxe⟩ := List.mem_map.mp hm
    have := (List.mem_filter.mp hx).2
    simp [hxe] at this
  · intro b hb
    rw [hblocksB, hblocksA] at hb
    obtain ⟨x, hx, h1, h2⟩ := hc.owned b hb
    by_cases hoc : cs.own b.id = c
    · refine ⟨⟨d, ce.pid⟩, List.mem_cons_self, by simp [hoc], ?_⟩
      have : x = ce := key_inj (·.eid) hc.nodupE hx hce (by rw [h1, hoc, hcec])
      rw [← this]; exact h2
    · refine ⟨x, List.mem_cons_of_mem _ (List.mem_filter.mpr ⟨hx, ?_⟩), by simp [hoc]; exact h1, h2⟩
      have := hno b hb
      simp [h1]; exact this
  · intro x hx
    rcases List.mem_cons.mp hx with rfl | hx
    · obtain ⟨a, ha⟩ := hc.entPool ce hce
      exact hexists _ a ha
    · obtain ⟨a, ha⟩ := hc.entPool x (List.mem_filter.mp hx).1
      exact hexists _ a ha
  · intro j a ha
    have hcf := countP_filter_key (·.eid) hc.nodupE hde (fun x => x.pid == j)
    simp only [hded] at hcf
    show a.refs = List.countP (fun x => x.pid == j) (⟨d, ce.pid⟩ :: List.filter (fun x => x.eid != d) cs.ents)
    rw [List.countP_cons]
    by_cases hj : j = de.pid
    · subst hj
      rw [hstB] at ha
      have : a = stB := (Option.some.inj ha).symm
      rw [this, hrB]
      by_cases hj2 : de.pid = ce.pid
      · -- the same pool gains and loses an owner
        rw [hj2, hpA] at hstA
        have e1 : stA = { st with refs := st.refs + 1 } := (Option.some.inj hstA).symm
        have hr := hc.refs _ st hst
        rw [← hj2] at hr
        have e2 : ((⟨d, ce.pid⟩ : Ent).pid == de.pid) = true := by simp [hj2]
        simp only [beq_self_eq_true, if_true] at hcf
        rw [e2, e1]
        simp only [if_true]
        omega
      · rw [hotherA _ hj2] at hstA
        have hr := hc.refs _ stA hstA
        have hne : ¬ (ce.pid = de.pid) := fun h => hj2 h.symm
        simp [hne] at hcf ⊢
        omega
    · rw [hotherB _ hj] at ha
      have hne : ¬ (de.pid = j) := fun h => hj h.symm
      by_cases hj2 : j = ce.pid
      · subst hj2
        rw [hpA] at ha
        have : a = { st with refs := st.refs + 1 } := (Option.some.inj ha).symm
        rw [this]
        have hr := hc.refs _ st hst
        simp [hne] at hcf ⊢
        omega
      · rw [hotherA _ hj2] at ha
        have hr := hc.refs j a ha
        have hne2 : ¬ (ce.pid = j) := fun h => hj2 h.symm
        simp [hne, hne2] at hcf ⊢
        omega

/-! ### every container operation preserves the invariant -/

theorem cstep_cinv {cs : CSys} (hc : CInv cs) (op : COp) (hok : (cstep cs op).sys.err = none) :
    CInv (cstep cs op) := by
  unfold cstep at hok ⊢
  by_cases he : cs.sys.err.isSome = true
  · rw [if_pos he]; exact hc
  · rw [if_neg he] at hok ⊢
    have h0 : cs.sys.err = none := by
      cases h : cs.sys.err with
      | none => rfl
      | some _ => simp [h] at he
    have hbad : ∀ {P : Prop}, (cs.cfail).sys.err = none → P := by
      intro P h; rw [cfail_err cs h0] at h; cases h
    cases op with
    | newAlloc e cls cb =>
      simp only at hok ⊢
      by_cases hf : (findEnt cs e).isSome = true
      · rw [if_pos hf] at hok; exact hbad hok
      · rw [if_neg hf]
        exact newAlloc_cinv hc h0 e cls cb (findEnt_none (by simpa using hf))
    | newFrom e src =>
      simp only at hok ⊢
      cases hs : findEnt cs src with
      | none => simp only [hs] at hok; exact hbad hok
      | some se =>
        simp only [hs] at hok ⊢
        by_cases hf : (findEnt cs e).isSome = true
        · rw [if_pos hf] at hok; exact hbad hok
        · rw [if_neg hf] at hok ⊢
          exact newFrom_cinv hc h0 e (findEnt_some hs).1 (findEnt_none (by simpa using hf)) cs.own
            (fun b _ => Or.inl rfl) hok
    | mutate e acts =>
      simp only at hok ⊢
      cases hs : findEnt cs e with
      | none => simp only [hs] at hok; exact hbad hok
      | some en =>
        simp only [hs] at hok ⊢
        exact acts_cinv hc (findEnt_some hs).1 (findEnt_some hs).2 rfl acts h0 hok
    | copyAssign d c acts =>
      simp only at hok ⊢
      cases hs : findEnt cs d with
      | none => simp only [hs] at hok; exact hbad hok
      | some de =>
        cases hs2 : findEnt cs c with
        | none => simp only [hs, hs2] at hok; exact hbad hok
        | some ce =>
          simp only [hs, hs2] at hok ⊢
          by_cases hp : pocca = true
          · rw [if_pos hp] at hok; exact hbad hok
          · rw [if_neg hp] at hok ⊢
            exact acts_cinv hc (findEnt_some hs).1 (findEnt_some hs).2 rfl acts h0 hok
    | copyConstruct d c cls cb acts =>
      simp only at hok ⊢
      cases hs : findEnt cs c with
      | none => simp only [hs] at hok; exact hbad hok
      | some ce =>
        simp only [hs] at hok ⊢
        by_cases hf : (findEnt cs d).isSome = true
        · rw [if_pos hf] at hok; exact hbad hok
        · rw [if_neg hf] at hok ⊢
          have hc1 := newAlloc_cinv hc h0 d cls cb (findEnt_none (by simpa using hf))
          have h01 : (step cs.sys (.anew cls cb)).err = none := by
            rw [step_eq_of_ok h0]; exact h0
          exact acts_cinv hc1 (en := ⟨d, cs.sys.pools.length⟩) List.mem_cons_self rfl rfl acts h01 hok
    | moveConstruct d c =>
      simp only at hok ⊢
      cases hs : findEnt cs c with
      | none => simp only [hs] at hok; exact hbad hok
      | some ce =>
        simp only [hs] at hok ⊢
        by_cases hf : (findEnt cs d).isSome = true
        · rw [if_pos hf] at hok; exact hbad hok
        · rw [if_neg hf] at hok ⊢
          refine newFrom_cinv hc h0 d (findEnt_some hs).1 (findEnt_none (by simpa using hf)) _ ?_ hok
          intro b hb
          by_cases hoc : cs.own b.id = c
          · right
            refine ⟨by simp [hoc], ce, (findEnt_some hs).1, ?_, rfl⟩
            rw [hoc]; exact (findEnt_some hs).2
          · left; simp [hoc]
    | moveAssign d c acts =>
      simp only at hok ⊢
      cases hs : findEnt cs d with
      | none => simp only [hs] at hok; exact hbad hok
      | some de =>
        cases hs2 : findEnt cs c with
        | none => simp only [hs, hs2] at hok; exact hbad hok
        | some ce =>
          simp only [hs, hs2] at hok ⊢
          by_cases hdc : d = c ∨ (!pocma) = true
          · rw [if_pos hdc] at hok; exact hbad hok
          · rw [if_neg hdc] at hok ⊢
            by_cases he1 : (acts.foldl (actStep d de.pid) cs).sys.err.isSome = true
            · rw [if_pos he1] at hok
              rw [hok] at he1; simp at he1
            · rw [if_neg he1] at hok ⊢
              have h01 : (acts.foldl (actStep d de.pid) cs).sys.err = none := by
                cases h : (acts.foldl (actStep d de.pid) cs).sys.err with
                | none => rfl
                | some _ => simp [h] at he1
              have hc1 := acts_cinv hc (findEnt_some hs).1 (findEnt_some hs).2 rfl acts h0 h01
              by_cases hn : (!ownsNone (acts.foldl (actStep d de.pid) cs) d) = true
              · rw [if_pos hn] at hok
                rw [cfail_err _ h01] at hok; cases hok
              · rw [if_neg hn] at hok ⊢
                have hents := acts_ents d de.pid cs acts
                have := moveAssign_cinv hc1 h01 (d := d) (c := c) (de := de) (ce := ce)
                  (by rw [hents]; exact (findEnt_some hs).1) (findEnt_some hs).2
                  (by rw [hents]; exact (findEnt_some hs2).1) (findEnt_some hs2).2
                  (fun h => hdc (Or.inl h)) (by simpa using hn) hok
                rw [hents] at this
                exact this
    | swap d c =>
      simp only at hok ⊢
      cases hs : findEnt cs d with
      | none => simp only [hs] at hok; exact hbad hok
      | some de =>
        cases hs2 : findEnt cs c with
        | none => simp only [hs, hs2] at hok; exact hbad hok
        | some ce =>
          simp only [hs, hs2] at hok ⊢
          by_cases hp : (!pocs) = true
          · rw [if_pos hp] at hok; exact hbad hok
          · rw [if_neg hp]
            exact swap_cinv hc d c
    | splice d c ids =>
      simp only at hok ⊢
      cases hs : findEnt cs d with
      | none => simp only [hs] at hok; exact hbad hok
      | some de =>
        cases hs2 : findEnt cs c with
        | none => simp only [hs, hs2] at hok; exact hbad hok
        | some ce =>
          simp only [hs, hs2] at hok ⊢
          by_cases hp : de.pid ≠ ce.pid
          · rw [if_pos hp] at hok; exact hbad hok
          · rw [if_neg hp]
            exact splice_cinv hc (findEnt_some hs).1 (findEnt_some hs).2 (findEnt_some hs2).1 (findEnt_some hs2).2
              (Decidable.byContradiction hp) ids
    | destroy e acts =>
      simp only at hok ⊢
      cases hs : findEnt cs e with
      | none => simp only [hs] at hok; exact hbad hok
      | some en =>
        simp only [hs] at hok ⊢
        by_cases he1 : (acts.foldl (actStep e en.pid) cs).sys.err.isSome = true
        · rw [if_pos he1] at hok
          rw [hok] at he1; simp at he1
        · rw [if_neg he1] at hok ⊢
          have h01 : (acts.foldl (actStep e en.pid) cs).sys.err = none := by
            cases h : (acts.foldl (actStep e en.pid) cs).sys.err with
            | none => rfl
            | some _ => simp [h] at he1
          have hc1 := acts_cinv hc (findEnt_some hs).1 (findEnt_some hs).2 rfl acts h0 h01
          by_cases hn : (!ownsNone (acts.foldl (actStep e en.pid) cs) e) = true
          · rw [if_pos hn] at hok
            rw [cfail_err _ h01] at hok; cases hok
          · rw [if_neg hn] at hok ⊢
            have hents := acts_ents e en.pid cs acts
            have hee := (findEnt_some hs).2
            have := drop_cinv hc1 h01 (en := en) (by rw [hents]; exact (findEnt_some hs).1)
              (by rw [hee]; simpa using hn) hok
            rw [hents, hee] at this
            exact this

theorem crun_cons (cs : CSys) (op : COp) (ops : List COp) : crun cs (op :: ops) = crun (cstep cs op) ops := rfl

theorem cstep_of_err {cs : CSys} {e : Err} (h : cs.sys.err = some e) (op : COp) : cstep cs op = cs := by
  simp [cstep, h]

theorem crun_of_err {cs : CSys} {e : Err} (h : cs.sys.err = some e) (ops : List COp) : crun cs ops = cs := by
  induction ops with
  | nil => rfl
  | cons op ops ih => rw [crun_cons, cstep_of_err h]; exact ih

/-- the invariant holds after every container history that ends without an error -/
theorem crun_cinv {cs : CSys} (hc : CInv cs) (ops : List COp) (hok : (crun cs ops).sys.err = none) :
    CInv (crun cs ops) := by
  induction ops generalizing cs with
  | nil => exact hc
  | cons op ops ih =>
    rw [crun_cons] at hok ⊢
    cases h : (cstep cs op).sys.err with
    | none => exact ih (cstep_cinv hc op h) hok
    | some e => rw [crun_of_err h, h] at hok; cases hok

end Momo.PoolAlloc
