import Momo.Proof.RowsInv
/-!
  Lemmas for the row hand-off model (C19), part 4: exclusiveness of `Holds`, published blocks are held by nobody,
  every non-atomic access is made by the holder.
-/
namespace Momo.Rows

/-! ### consequences of the invariant: who may touch a block -/

theorem count_le_places {s : St} (hI : RInv s) (r : Row) :
    (inflight s).count r + (detRows s).count r + s.table.count r + s.pool.count r + s.L.count r + s.W.count r ≤ 1 := by
  have := hI.nodup r
  simp only [places, List.count_append] at this; omega

theorem mem_places_iff {s : St} {r : Row} : r ∈ places s ↔
    r ∈ inflight s ∨ r ∈ detRows s ∨ r ∈ s.table ∨ r ∈ s.pool ∨ r ∈ s.L ∨ r ∈ s.W := by
  simp [places, List.mem_append]

theorem det_pair_unique {det : List (Row × Tid)} {r : Row} {t u : Tid} (ht : (r, t) ∈ det) (hu : (r, u) ∈ det)
    (hn : (det.map Prod.fst).count r ≤ 1) : t = u := by
  induction det with
  | nil => simp at ht
  | cons a rest ih =>
    simp only [List.map_cons, List.count_cons, beq_iff_eq] at hn
    rcases List.mem_cons.mp ht with h1 | h1 <;> rcases List.mem_cons.mp hu with h2 | h2
    · rw [← h1] at h2; exact ((Prod.mk.inj h2).2).symm
    · subst h1
      have : 0 < (rest.map Prod.fst).count r := List.count_pos_iff.mpr (List.mem_map.mpr ⟨(r, u), h2, rfl⟩)
      simp at hn; omega
    · subst h2
      have : 0 < (rest.map Prod.fst).count r := List.count_pos_iff.mpr (List.mem_map.mpr ⟨(r, t), h1, rfl⟩)
      simp at hn; omega
    · exact ih h1 h2 (by omega)

theorem mem_detRows {s : St} {r : Row} {t : Tid} (h : (r, t) ∈ s.det) : r ∈ detRows s :=
  List.mem_map.mpr ⟨(r, t), h, rfl⟩

/-- in which place a block held by somebody is (counting form) -/
theorem Holds_count {s : St} {t : Tid} {r : Row} (h : Holds s t r) :
    (t = 0 ∧ 0 < s.pool.count r + s.table.count r + s.W.count r) ∨ (r, t) ∈ s.det ∨
      (∃ pc, s.thr[t]? = some pc ∧ pc.row = some r) := by
  rcases h with ⟨h0, hp | hp | hp⟩ | h | h
  · exact Or.inl ⟨h0, by have := count_pos_of_mem hp; omega⟩
  · exact Or.inl ⟨h0, by have := count_pos_of_mem hp; omega⟩
  · exact Or.inl ⟨h0, by have := count_pos_of_mem hp; omega⟩
  · exact Or.inr (Or.inl h)
  · exact Or.inr (Or.inr h)

/-- at most one thread may touch a block -/
theorem Holds_exclusive {s : St} (hI : RInv s) {t u : Tid} {r : Row} (h1 : Holds s t r) (h2 : Holds s u r) : t = u := by
  have hc := count_le_places hI r
  have pos := fun {l : List Row} (h : r ∈ l) => count_pos_of_mem h
  rcases Holds_count h1 with ⟨ht, a1⟩ | a1 | ⟨p, hp, hpr⟩ <;> rcases Holds_count h2 with ⟨hu, a2⟩ | a2 | ⟨q, hq, hqr⟩
  · rw [ht, hu]
  · have hd := pos (mem_detRows a2); omega
  · have hd := pos (mem_inflight hq hqr); omega
  · have hd := pos (mem_detRows a1); omega
  · exact det_pair_unique a1 a2 (by have := count_le_places hI r; unfold detRows at this; omega)
  · have hd := pos (mem_detRows a1); have hi := pos (mem_inflight hq hqr); omega
  · have hd := pos (mem_inflight hp hpr); omega
  · have hd := pos (mem_detRows a2); have hi := pos (mem_inflight hp hpr); omega
  · exact inflight_index_unique s.thr (inflight_nodup hI) hp hq hpr hqr

/-- a published block (on the free list) may be touched by nobody -/
theorem Holds_not_published {s : St} (hI : RInv s) {t : Tid} {r : Row} (h : Holds s t r) : r ∉ s.L := by
  have hc := count_le_places hI r
  intro hL
  have hl := count_pos_of_mem hL
  rcases Holds_count h with ⟨_, hp⟩ | h | ⟨p, hp, hpr⟩
  · omega
  · have := count_pos_of_mem (mem_detRows h); omega
  · have := count_pos_of_mem (mem_inflight hp hpr); omega

/-- a block known to the model and held by nobody is on the free list -/
theorem published_of_not_held {s : St} {r : Row} (hp : r ∈ places s) (h : ∀ t, ¬ Holds s t r) : r ∈ s.L := by
  rcases mem_places_iff.mp hp with h1 | h1 | h1 | h1 | h1 | h1
  · obtain ⟨pc, hpc, hr⟩ := List.mem_filterMap.mp h1
    obtain ⟨t, ht⟩ := List.getElem?_of_mem hpc
    exact absurd (Or.inr (Or.inr ⟨pc, ht, hr⟩)) (h t)
  · obtain ⟨⟨r', t⟩, hm, rfl⟩ := List.mem_map.mp h1
    exact absurd (Or.inr (Or.inl hm)) (h t)
  · exact absurd (Or.inl ⟨rfl, Or.inr (Or.inl h1)⟩) (h 0)
  · exact absurd (Or.inl ⟨rfl, Or.inl h1⟩) (h 0)
  · exact h1
  · exact absurd (Or.inl ⟨rfl, Or.inr (Or.inr h1)⟩) (h 0)

/-- every non-atomic access of an enabled action is made by the thread that holds the block -/
theorem access_holds {s s' : St} {a : Act} (hs : step s a = some s') (hI : RInv s) {t : Tid} {r : Row}
    (ha : (t, r) ∈ accesses s a) : Holds s t r := by
  have hS := step_sound hs
  cases hS with
  | walk b c g hm hc =>
    simp [accesses, hc] at ha
    obtain ⟨rfl, rfl⟩ := ha
    have hW := W_of_cur hI hc
    exact Or.inl ⟨rfl, Or.inr (Or.inr (by rw [hW]; simp))⟩
  | alloc r' g hm hr =>
    simp [accesses] at ha
    obtain ⟨rfl, rfl⟩ := ha
    exact Or.inl ⟨rfl, Or.inl hr⟩
  | add r' hm hd =>
    simp [accesses] at ha
    obtain ⟨rfl, rfl⟩ := ha
    exact Or.inr (Or.inl hd)
  | extract i keep r' hm hi =>
    simp [accesses, hi] at ha
    obtain ⟨rfl, rfl⟩ := ha
    exact Or.inl ⟨rfl, Or.inr (Or.inl (List.mem_of_getElem? hi))⟩
  | remove i keep g r' hm hi =>
    simp [accesses, hi] at ha
    obtain ⟨rfl, rfl⟩ := ha
    exact Or.inl ⟨rfl, Or.inr (Or.inl (List.mem_of_getElem? hi))⟩
  | dBegin t' r' hpc hd =>
    simp [accesses] at ha
    obtain ⟨rfl, rfl⟩ := ha
    exact Or.inr (Or.inl hd)
  | dWrite t' r' h hpc =>
    simp [accesses, hpc] at ha
    obtain ⟨rfl, rfl⟩ := ha
    exact Or.inr (Or.inr ⟨_, hpc, rfl⟩)
  | _ => simp [accesses] at ha

end Momo.Rows
