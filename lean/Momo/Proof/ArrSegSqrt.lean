import Momo.Proof.ArrSegStep
import Momo.Proof.SegIdeal
/-!
  C05, part 6 of the lemmas: the sizing laws `Layout.Ok` hold for both sizings and every `logInitialItemCount`.
  Derived from the laws of the index arithmetic proved for C16 (`Momo/Proof/SegIdeal.lean`: round trip, affine
  offsets, segment bases) — the formulas of `Layout` are literally those of `Momo.Seg.getSeg / getIndex / itemCount`.
-/
namespace Momo.Arr.Seg
open Momo.Arr

/-- the sizing of C16's model that corresponds to a `Layout` -/
def Layout.func (lay : Layout) : Momo.Seg.Func := if lay.sqrt then .sqrt else .cnst

theorem segItem_eq (lay : Layout) (n : Nat) : lay.segItem n = Momo.Seg.getSeg lay.func lay.L n := by
  unfold Layout.segItem Layout.func
  cases lay.sqrt <;> rfl

theorem index_eq (lay : Layout) (s o : Nat) : lay.index s o = Momo.Seg.getIndex lay.func lay.L s o := by
  unfold Layout.index Layout.func
  cases lay.sqrt <;> rfl

theorem itemCount_eq (lay : Layout) (s : Nat) : lay.itemCount s = Momo.Seg.itemCount lay.func lay.L s := by
  unfold Layout.itemCount Layout.func
  cases lay.sqrt <;> rfl

/-- **both sizings of `SegmentedArraySettings`, every `logInitialItemCount`, satisfy the laws the container
    needs** (derived from the index-arithmetic laws proved for C16) -/
theorem layout_ok (lay : Layout) : lay.Ok := by
  have h := Momo.Seg.sizing_lawful lay.func lay.L
  have base : ∀ s, lay.index (s + 1) 0 = lay.index s 0 + lay.itemCount s := by
    intro s; rw [index_eq, index_eq, itemCount_eq]; exact h.base_succ s
  have mono : ∀ a b, a ≤ b → lay.index a 0 ≤ lay.index b 0 := by
    intro a b hab
    induction b with
    | zero => have : a = 0 := by omega
              subst this; exact Nat.le_refl _
    | succ b ih =>
      by_cases hb : a = b + 1
      · subst hb; exact Nat.le_refl _
      · have := ih (by omega)
        rw [base b]; omega
  refine ⟨?_, mono, ?_, ?_, ?_⟩
  · intro n
    have rt : lay.index (lay.segItem n).1 (lay.segItem n).2 = n := by
      rw [index_eq, segItem_eq]; exact h.roundtrip n
    have af : lay.index (lay.segItem n).1 (lay.segItem n).2 = lay.index (lay.segItem n).1 0 + (lay.segItem n).2 := by
      rw [index_eq, index_eq]; exact h.affine _ _
    have il : (lay.segItem n).2 < lay.itemCount (lay.segItem n).1 := by
      rw [itemCount_eq, segItem_eq]; exact h.item_lt n
    unfold Layout.segsFor
    split
    · rw [base]; omega
    · omega
  · intro n k hk
    have rt : lay.index (lay.segItem n).1 (lay.segItem n).2 = n := by
      rw [index_eq, segItem_eq]; exact h.roundtrip n
    have af : lay.index (lay.segItem n).1 (lay.segItem n).2 = lay.index (lay.segItem n).1 0 + (lay.segItem n).2 := by
      rw [index_eq, index_eq]; exact h.affine _ _
    apply Decidable.byContradiction
    intro hge
    have := mono k (lay.segItem n).1 (by omega)
    omega
  · intro n k hk
    have rt : lay.index (lay.segItem n).1 (lay.segItem n).2 = n := by
      rw [index_eq, segItem_eq]; exact h.roundtrip n
    have af : lay.index (lay.segItem n).1 (lay.segItem n).2 = lay.index (lay.segItem n).1 0 + (lay.segItem n).2 := by
      rw [index_eq, index_eq]; exact h.affine _ _
    have il : (lay.segItem n).2 < lay.itemCount (lay.segItem n).1 := by
      rw [itemCount_eq, segItem_eq]; exact h.item_lt n
    have := mono ((lay.segItem n).1 + 1) k (by omega)
    rw [base] at this
    omega
  · intro k
    rw [base]
    have : 0 < lay.itemCount k := by rw [itemCount_eq]; exact h.count_pos k
    omega

end Momo.Arr.Seg
