import Momo.Proof.BTreeFaultAdd
/-!
  C04 for the B-tree family, container level: `pvAdd` with `pvAddFirst`, and `pvInsert`, under every fault schedule.
  Core Lean only.
-/
namespace Momo.BTreeF
open Momo Momo.BTree Momo.BTree.Node
variable {α : Type}

local macro "triv" : tactic => `(tactic| first | rfl | trivial | simp)

/-- the invariant of a container: the tree's invariant, and a root exists only together with its node params -/
structure FTree.WF (cfg : Cfg) (ft : FTree α) : Prop where
  tree : ft.tree.WF cfg
  params : ft.tree.root ≠ none → ft.params = true

theorem FTree.wf_empty (cfg : Cfg) (p : Bool) : FTree.WF cfg ({ tree := {}, params := p } : FTree α) :=
  ⟨Tree.wf_empty cfg, fun h => absurd rfl h⟩

/-- a fresh leaf has room for one item -/
theorem leafCap_pos (cfg : Cfg) (hmax : 0 < cfg.maxCap) (ia : Nat) : 0 < leafCap cfg ia 0 := by
  unfold leafCap
  split
  · exact hmax
  · have : cfg.step * min ((cfg.maxCap - 0) / cfg.step) (lastLeafPool cfg) ≤ cfg.maxCap / 2 := by
      simp only [lastLeafPool, Extracted.treeLeafPoolDivisor, Nat.sub_zero]
      calc cfg.step * min (cfg.maxCap / cfg.step) (cfg.maxCap / (2 * cfg.step))
          ≤ cfg.step * (cfg.maxCap / (2 * cfg.step)) := Nat.mul_le_mul_left _ (Nat.min_le_right _ _)
        _ = cfg.step * (cfg.maxCap / 2 / cfg.step) := by rw [Nat.div_div_eq_div_mul]
        _ ≤ cfg.maxCap / 2 := Nat.mul_div_le _ _
    omega

theorem ensureParams_spec (S : Sched) (ft : FTree α) (w : W) :
    (ensureParams S ft w).2.1.tree = ft.tree ∧
    (ensureParams S ft w).2.2.led = w.led + ((ensureParams S ft w).2.1.nodeLed - ft.nodeLed) ∧
    ((ensureParams S ft w).1 = false → (ensureParams S ft w).2.1.params = true) ∧
    ((ensureParams S ft w).1 = true → (ensureParams S ft w).2.1 = ft) ∧
    (S.NoAlloc → (ensureParams S ft w).1 = false) := by
  unfold ensureParams
  by_cases hp : ft.params = true
  · simp only [hp, if_true]
    refine ⟨by triv, ?_, fun _ => (by first | exact hp | triv), fun _ => (by triv), fun _ => (by triv)⟩
    apply Ledger.ext' <;> simp
  · simp only [hp, Bool.false_eq_true, if_false]
    by_cases hf : S.alloc w.allocN = true
    · simp only [hf, if_true]
      refine ⟨by triv, ?_, fun hh => (by cases hh), fun _ => (by triv), fun hn => (by rw [hn] at hf; cases hf)⟩
      apply Ledger.ext' <;> simp
    · simp only [hf, Bool.false_eq_true, if_false]
      refine ⟨by triv, ?_, fun _ => (by triv), fun hh => (by cases hh), fun _ => (by triv)⟩
      apply Ledger.ext' <;> simp [FTree.leaves, FTree.inners, hp]

/-- the fault-free first insertion is what `pvAdd` does on the fresh empty root -/
theorem addRoot_fresh (cfg : Cfg) (hmax : 0 < cfg.maxCap) (x : α) :
    addRoot cfg x (leaf (leafCap cfg 0 0) ([] : List α)) ⟨[], 0⟩ = (leaf (leafCap cfg 0 0) [x], ⟨[], 0⟩) := by
  have hp := leafCap_pos cfg hmax 0
  simp [addRoot, normLeaf, addAt, addLeaf, hp]

/-- **`pvAdd(iter, creator)` under every fault schedule.** Thrown: the tree is the old tree and the ledger moved only by the
    node-params block a first insertion may have created. Returned: tree and iterator of the fault-free model, the ledger moved
    by the node difference and by what the creator did. -/
theorem addF_spec {σ : Type} (S : Sched) (ic : ICfg α) (cfg : Cfg) (hmax : 0 < cfg.maxCap) (ft : FTree α) (hw : ft.WF cfg)
    (pos : Pos) (hv : ft.tree.ValidPos pos) (x : α) (creator : W → Bool × σ × W) (s0 : σ) (f : σ → Ledger)
    (hc : CreatorSpec creator f) (w : W) {t : Bool} {s : σ} {ft' : FTree α} {p : Pos} {w' : W}
    (h : addF S ic cfg ft pos x creator s0 w = (t, s, ft', p, w')) :
    (t = true → ft'.tree = ft.tree ∧ w'.led = w.led + (ft'.nodeLed - ft.nodeLed)) ∧
    (t = false → ft'.tree = (ft.tree.add cfg pos x).1 ∧ p = (ft.tree.add cfg pos x).2 ∧
        w'.led = w.led + f s + (ft'.nodeLed - ft.nodeLed)) ∧
    ft'.WF cfg := by
  have hadd := tree_add_spec cfg hmax ft.tree hw.tree pos hv x
  unfold addF at h
  unfold Tree.ValidPos at hv
  cases hr : ft.tree.root with
  | some r =>
    simp only [hr] at h hv
    obtain ⟨d, hb⟩ := hw.tree.bal r hr
    obtain ⟨m, hm, hi⟩ := validPos_slot hv
    obtain ⟨a1, a2⟩ := addNode_spec S ic cfg hmax hb pos hm hi x creator s0 f hc w
    cases hn : addNode S ic cfg r pos x creator s0 w with
    | mk t1 rest =>
      obtain ⟨s1, r1, p1, w1⟩ := rest
      rw [hn] at h a1 a2
      simp only at a1 a2
      cases t1 with
      | true =>
        simp only [Prod.mk.injEq] at h
        obtain ⟨rfl, rfl, rfl, rfl, rfl⟩ := h
        refine ⟨fun _ => ⟨rfl, ?_⟩, fun hh => (by cases hh), hw⟩
        rw [(a1 rfl).2]; apply Ledger.ext' <;> simp
      | false =>
        simp only [Prod.mk.injEq] at h
        obtain ⟨rfl, rfl, rfl, rfl, rfl⟩ := h
        obtain ⟨e1, e2, e3⟩ := a2 rfl
        subst e1 e2
        have htree : ({ root := some (addRoot cfg x r pos).1, count := ft.tree.count + 1 } : Tree α) = (ft.tree.add cfg pos x).1 := by
          simp [Tree.add, hr]
        refine ⟨fun hh => (by cases hh), fun _ => ⟨htree, (by simp [Tree.add, hr]), ?_⟩, ⟨?_, fun _ => hw.params (by simp [hr])⟩⟩
        · rw [e3]
          apply Ledger.ext' <;> simp [nodeDelta, FTree.leaves, FTree.inners, hr]
        · show Tree.WF cfg ({ root := some (addRoot cfg x r pos).1, count := ft.tree.count + 1 } : Tree α)
          rw [htree]; exact hadd.2.1
  | none =>
    simp only [hr] at h hv
    have hcount : ft.tree.count = 0 := by simpa [Tree.toList, hr] using hw.tree.count
    obtain ⟨q1, q2, q3, q4, _⟩ := ensureParams_spec S ft w
    cases he : ensureParams S ft w with
    | mk t0 rest0 =>
      obtain ⟨ft1, w1⟩ := rest0
      rw [he] at h q1 q2 q3 q4
      simp only at h q1 q2 q3 q4
      cases t0 with
      | true =>
        simp only [Prod.mk.injEq] at h
        obtain ⟨rfl, rfl, rfl, rfl, rfl⟩ := h
        have := q4 rfl; subst this
        refine ⟨fun _ => ⟨rfl, ?_⟩, fun hh => (by cases hh), hw⟩
        rw [q2]
      | false =>
        simp only at h
        have hp1 := q3 rfl
        have hwf1 : ft1.WF cfg := ⟨by rw [q1]; exact hw.tree, fun _ => hp1⟩
        by_cases hf : S.alloc w1.allocN = true
        · simp only [hf, if_true, Prod.mk.injEq] at h
          obtain ⟨rfl, rfl, rfl, rfl, rfl⟩ := h
          exact ⟨fun _ => ⟨q1, by simpa using q2⟩, fun hh => (by cases hh), hwf1⟩
        · simp only [hf, Bool.false_eq_true, if_false] at h
          have hbl : Bal 0 (leaf (leafCap cfg 0 0) ([] : List α)) := Bal.leaf _ _
          obtain ⟨a1, a2⟩ := addNode_spec S ic cfg hmax hbl ⟨[], 0⟩ (nodeAt?_nil _) (Nat.zero_le _) x creator s0 f hc
            (w1.tickAlloc.addLeaves 1)
          cases hn : addNode S ic cfg (leaf (leafCap cfg 0 0) []) ⟨[], 0⟩ x creator s0 (w1.tickAlloc.addLeaves 1) with
          | mk t1 rest =>
            obtain ⟨s1, r1, p1, w2⟩ := rest
            rw [hn] at h a1 a2
            simp only at a1 a2
            cases t1 with
            | true =>
              simp only [Prod.mk.injEq] at h
              obtain ⟨rfl, rfl, rfl, rfl, rfl⟩ := h
              refine ⟨fun _ => ⟨q1, ?_⟩, fun hh => (by cases hh), hwf1⟩
              rw [show (w2.addLeaves (-1)).led = { w2.led with leaves := w2.led.leaves + (-1) } from rfl, (a1 rfl).2]
              apply Ledger.ext' <;> simp [q2] <;> omega
            | false =>
              simp only [Prod.mk.injEq] at h
              obtain ⟨rfl, rfl, rfl, rfl, rfl⟩ := h
              obtain ⟨e1, e2, e3⟩ := a2 rfl
              subst e1 e2
              rw [addRoot_fresh cfg hmax x] at e3 ⊢
              have htree : ({ root := some (leaf (leafCap cfg 0 0) [x]), count := ft.tree.count + 1 } : Tree α) = (ft.tree.add cfg pos x).1 := by
                simp [Tree.add, hr]
              refine ⟨fun hh => (by cases hh), fun _ => ⟨htree, (by simp [Tree.add, hr]), ?_⟩, ⟨?_, fun _ => hp1⟩⟩
              · rw [e3]
                have hl0 : ft.leaves = 0 := by simp [FTree.leaves, hr]
                have hi0 : ft.inners = 0 := by simp [FTree.inners, hr]
                have hl1 : ft1.leaves = 0 := by simp [FTree.leaves, q1, hr]
                have hi1 : ft1.inners = 0 := by simp [FTree.inners, q1, hr]
                have hl2 : ∀ b, ({ tree := { root := some (leaf (leafCap cfg 0 0) [x]), count := ft.tree.count + 1 }, params := b } : FTree α).leaves = 1 :=
                  fun b => by simp [FTree.leaves]
                have hi2 : ∀ b, ({ tree := { root := some (leaf (leafCap cfg 0 0) [x]), count := ft.tree.count + 1 }, params := b } : FTree α).inners = 0 :=
                  fun b => by simp [FTree.inners]
                apply Ledger.ext' <;> simp [nodeDelta, q2, hl0, hi0, hl1, hi1, hl2, hi2, hp1] <;> omega
              · show Tree.WF cfg ({ root := some (leaf (leafCap cfg 0 0) [x]), count := ft.tree.count + 1 } : Tree α)
                rw [htree]; exact hadd.2.1

/-- without allocation and construction faults and with a creator that cannot throw, `pvAdd` returns -/
theorem addF_ok {σ : Type} (S : Sched) (hn : S.NoAlloc) (hct : S.NoCtor) (ic : ICfg α) (cfg : Cfg) (ft : FTree α) (pos : Pos) (x : α)
    (creator : W → Bool × σ × W) (s0 : σ) (hok : CreatorOk creator) (w : W) :
    (addF S ic cfg ft pos x creator s0 w).1 = false := by
  unfold addF
  cases hr : ft.tree.root with
  | some r =>
    simp only
    have := addNode_ok S hn hct ic cfg r pos x creator s0 hok w
    cases hnn : addNode S ic cfg r pos x creator s0 w with
    | mk t1 rest =>
      obtain ⟨s1, r1, p1, w1⟩ := rest
      rw [hnn] at this; simp only at this; subst this; rfl
  | none =>
    simp only
    obtain ⟨_, _, _, _, q5⟩ := ensureParams_spec S ft w
    cases he : ensureParams S ft w with
    | mk t0 rest0 =>
      obtain ⟨ft1, w1⟩ := rest0
      rw [he] at q5
      have : t0 = false := by simpa using q5 hn
      subst this
      simp only [hn w1.allocN, Bool.false_eq_true, if_false]
      have := addNode_ok S hn hct ic cfg (leaf (leafCap cfg 0 0) []) ⟨[], 0⟩ x creator s0 hok (w1.tickAlloc.addLeaves 1)
      cases hnn : addNode S ic cfg (leaf (leafCap cfg 0 0) []) ⟨[], 0⟩ x creator s0 (w1.tickAlloc.addLeaves 1) with
      | mk t1 rest =>
        obtain ⟨s1, r1, p1, w2⟩ := rest
        rw [hnn] at this; simp only at this; subst this; rfl

/-- **`pvInsert(key, creator)` under every fault schedule.** -/
theorem insertF_spec {σ : Type} (S : Sched) (ic : ICfg α) (cfg : Cfg) (hmax : 0 < cfg.maxCap) (lt : α → α → Bool)
    (ho : Order lt) (ft : FTree α) (hw : ft.WF cfg) (hs : SortedBy lt cfg.multi ft.tree.toList) (x : α)
    (creator : W → Bool × σ × W) (s0 : σ) (f : σ → Ledger) (hc : CreatorSpec creator f) (w : W)
    {t : Bool} {s : σ} {ft' : FTree α} {p : Pos} {ins : Bool} {w' : W}
    (h : insertF S ic cfg lt ft x creator s0 w = (t, s, ft', p, ins, w')) :
    (t = true → ft'.tree = ft.tree ∧ w'.led = w.led + (ft'.nodeLed - ft.nodeLed)) ∧
    (t = false → ft'.tree = (Tree.insert lt cfg ft.tree x).1 ∧ p = (Tree.insert lt cfg ft.tree x).2.1 ∧
        ins = (Tree.insert lt cfg ft.tree x).2.2 ∧ (ins = false → s = s0 ∧ ft' = ft ∧ w'.led = w.led) ∧
        (ins = true → w'.led = w.led + f s + (ft'.nodeLed - ft.nodeLed))) ∧
    ft'.WF cfg := by
  have hsw := hs.weak ho
  obtain ⟨u1, u2⟩ := upperBound_spec lt ho cfg ft.tree hw.tree x hsw
  obtain ⟨k1, k2, _⟩ := findPosF_spec S cfg.linear (fun y => lt x y) cfg ft.tree hw.tree w
  have k2' : ∀ q, (findPosF S cfg.linear (fun y => lt x y) ft.tree w).1 = some q → q = Tree.upperBound lt cfg ft.tree x := by
    intro q hq
    rw [k2 q hq]; unfold Tree.upperBound; cases ft.tree.root <;> rfl
  unfold insertF at h
  cases hfp : findPosF S cfg.linear (fun y => lt x y) ft.tree w with
  | mk o w1 =>
    rw [hfp] at h k1 k2'
    simp only at k1 k2'
    cases o with
    | none =>
      simp only [Prod.mk.injEq] at h
      obtain ⟨rfl, rfl, rfl, rfl, rfl, rfl⟩ := h
      refine ⟨fun _ => ⟨rfl, ?_⟩, fun hh => (by cases hh), hw⟩
      rw [k1]; apply Ledger.ext' <;> simp
    | some ub =>
      have hube := k2' ub rfl
      subst hube
      simp only at h
      -- the common tail: `pvAdd` at the upper bound
      have tail : ∀ (w2 : W), w2.led = w.led →
          ∀ {t : Bool} {s : σ} {ft' : FTree α} {p : Pos} {ins : Bool} {w' : W},
          (match addF S ic cfg ft (Tree.upperBound lt cfg ft.tree x) x creator s0 w2 with
            | (t, s, ft', p, w2') => (t, s, ft', p, !t, w2')) = (t, s, ft', p, ins, w') →
          (t = true → ft'.tree = ft.tree ∧ w'.led = w.led + (ft'.nodeLed - ft.nodeLed)) ∧
          (t = false → ft'.tree = (ft.tree.add cfg (Tree.upperBound lt cfg ft.tree x) x).1 ∧
              p = (ft.tree.add cfg (Tree.upperBound lt cfg ft.tree x) x).2 ∧ ins = true ∧
              w'.led = w.led + f s + (ft'.nodeLed - ft.nodeLed)) ∧ ft'.WF cfg := by
        intro w2 hw2 t s ft' p ins w' h2
        cases ha : addF S ic cfg ft (Tree.upperBound lt cfg ft.tree x) x creator s0 w2 with
        | mk t1 rest =>
          obtain ⟨s1, ft1, p1, w3⟩ := rest
          rw [ha] at h2
          simp only [Prod.mk.injEq] at h2
          obtain ⟨rfl, rfl, rfl, rfl, rfl, rfl⟩ := h2
          obtain ⟨b1, b2, b3⟩ := addF_spec S ic cfg hmax ft hw _ u2 x creator s0 f hc w2 ha
          refine ⟨fun hh => ?_, fun hh => ?_, b3⟩
          · obtain ⟨c1, c2⟩ := b1 hh; exact ⟨c1, by rw [c2, hw2]⟩
          · obtain ⟨c1, c2, c3⟩ := b2 hh; exact ⟨c1, c2, by simp [hh], by rw [c3, hw2]⟩
      by_cases hcond : (!cfg.multi && decide (Tree.upperBound lt cfg ft.tree x ≠ ft.tree.beginPos)) = true
      · simp only [hcond, if_true] at h
        cases hel : ft.tree.elemAt? (ft.tree.prev (Tree.upperBound lt cfg ft.tree x)) with
        | none =>
          simp only [hel] at h
          obtain ⟨c1, c2, c3⟩ := tail w1 k1 h
          have hins : Tree.insert lt cfg ft.tree x =
              ((ft.tree.add cfg (Tree.upperBound lt cfg ft.tree x) x).1, (ft.tree.add cfg (Tree.upperBound lt cfg ft.tree x) x).2, true) := by
            unfold Tree.insert
            simp [Tree.prevNotLess, hel]
          rw [hins]
          refine ⟨c1, fun hh => ?_, c3⟩
          obtain ⟨d1, d2, d3, d4⟩ := c2 hh
          exact ⟨d1, d2, d3, fun hf => (by rw [d3] at hf; cases hf), fun _ => d4⟩
        | some y =>
          simp only [hel] at h
          by_cases hf : S.cmp w1.cmpN = true
          · simp only [hf, if_true, Prod.mk.injEq] at h
            obtain ⟨rfl, rfl, rfl, rfl, rfl, rfl⟩ := h
            refine ⟨fun _ => ⟨rfl, ?_⟩, fun hh => (by cases hh), hw⟩
            rw [tickCmp_led, k1]; apply Ledger.ext' <;> simp
          · simp only [hf, Bool.false_eq_true, if_false] at h
            by_cases hnl : (!lt y x) = true
            · simp only [hnl, if_true, Prod.mk.injEq] at h
              obtain ⟨rfl, rfl, rfl, rfl, rfl, rfl⟩ := h
              have hins : Tree.insert lt cfg ft.tree x = (ft.tree, ft.tree.prev (Tree.upperBound lt cfg ft.tree x), false) := by
                unfold Tree.insert
                simp only [Tree.prevNotLess, hel]
                rw [if_pos (by rw [Bool.and_eq_true]; exact ⟨hcond, hnl⟩)]
              rw [hins]
              refine ⟨fun hh => (by cases hh), fun _ => ⟨rfl, rfl, rfl, fun _ => ⟨rfl, rfl, ?_⟩, fun hh => (by cases hh)⟩, hw⟩
              rw [tickCmp_led, k1]
            · simp only [hnl, Bool.false_eq_true, if_false] at h
              obtain ⟨c1, c2, c3⟩ := tail w1.tickCmp (by rw [tickCmp_led, k1]) h
              have hins : Tree.insert lt cfg ft.tree x =
                  ((ft.tree.add cfg (Tree.upperBound lt cfg ft.tree x) x).1, (ft.tree.add cfg (Tree.upperBound lt cfg ft.tree x) x).2, true) := by
                unfold Tree.insert
                simp only [Tree.prevNotLess, hel]
                rw [if_neg (by rw [Bool.and_eq_true]; intro hh; exact hnl hh.2)]
              rw [hins]
              refine ⟨c1, fun hh => ?_, c3⟩
              obtain ⟨d1, d2, d3, d4⟩ := c2 hh
              exact ⟨d1, d2, d3, fun hf => (by rw [d3] at hf; cases hf), fun _ => d4⟩
      · simp only [hcond, Bool.false_eq_true, if_false] at h
        obtain ⟨c1, c2, c3⟩ := tail w1 k1 h
        have hins : Tree.insert lt cfg ft.tree x =
            ((ft.tree.add cfg (Tree.upperBound lt cfg ft.tree x) x).1, (ft.tree.add cfg (Tree.upperBound lt cfg ft.tree x) x).2, true) := by
          unfold Tree.insert
          rw [if_neg (by rw [Bool.and_eq_true]; intro hh; exact hcond hh.1)]
        rw [hins]
        refine ⟨c1, fun hh => ?_, c3⟩
        obtain ⟨d1, d2, d3, d4⟩ := c2 hh
        exact ⟨d1, d2, d3, fun hf => (by rw [d3] at hf; cases hf), fun _ => d4⟩

/-- a schedule without comparison, allocation and construction faults: `pvInsert` returns -/
theorem insertF_ok {σ : Type} (S : Sched) (hcm : S.NoCmp) (hn : S.NoAlloc) (hct : S.NoCtor) (ic : ICfg α) (cfg : Cfg)
    (lt : α → α → Bool) (ft : FTree α) (hw : ft.WF cfg) (x : α) (creator : W → Bool × σ × W) (s0 : σ)
    (hok : CreatorOk creator) (w : W) : (insertF S ic cfg lt ft x creator s0 w).1 = false := by
  obtain ⟨_, _, k3⟩ := findPosF_spec S cfg.linear (fun y => lt x y) cfg ft.tree hw.tree w
  unfold insertF
  cases hfp : findPosF S cfg.linear (fun y => lt x y) ft.tree w with
  | mk o w1 =>
    rw [hfp] at k3
    have := k3 hcm
    simp only at this
    obtain ⟨ub, rfl⟩ : ∃ ub, o = some ub := ⟨_, this⟩
    simp only
    have tail : ∀ ub w2, (match addF S ic cfg ft ub x creator s0 w2 with
        | (t, s, ft', p, w2') => ((t, s, ft', p, !t, w2') : Bool × σ × FTree α × Pos × Bool × W)).1 = false := by
      intro ub w2
      have := addF_ok S hn hct ic cfg ft ub x creator s0 hok w2
      cases ha : addF S ic cfg ft ub x creator s0 w2 with
      | mk t1 rest => obtain ⟨s1, ft1, p1, w3⟩ := rest; rw [ha] at this; simpa using this
    by_cases hcond : (!cfg.multi && decide (ub ≠ ft.tree.beginPos)) = true
    · simp only [hcond, if_true]
      cases hel : ft.tree.elemAt? (ft.tree.prev ub) with
      | none => exact tail _ _
      | some y =>
        simp only [hcm w1.cmpN, Bool.false_eq_true, if_false]
        by_cases hnl : (!lt y x) = true
        · simp [hnl]
        · simp only [hnl, Bool.false_eq_true, if_false]; exact tail _ _
    · simp only [hcond, Bool.false_eq_true, if_false]; exact tail _ _

end Momo.BTreeF
