import Momo.Proof.OpenBytes
namespace Momo.OpenB

/-- searching the candidates of a scan order: the slots of `order` whose byte equals `sh`, tested with `pred` in that order -/
def scan (order : List Nat) (d : Nat → Nat) (sh : Nat) (pred : Nat → Bool) : Option Nat :=
  (order.filter (fun i => d i == sh)).find? pred

theorem findLoopN1_eq (d : Nat → Nat) (sh : Nat) (pred : Nat → Bool) :
    ∀ fuel i, findLoopN1 d sh pred fuel i = scan (List.range' i fuel) d sh pred := by
  intro fuel
  induction fuel with
  | zero => intro i; rfl
  | succ n ih =>
    intro i
    unfold scan
    rw [findLoopN1, List.range'_succ, List.filter_cons]
    by_cases h1 : (d i == sh) = true
    · rw [if_pos h1, List.find?_cons]
      by_cases h2 : pred i = true
      · simp [h1, h2]
      · have h2' : pred i = false := by simpa using h2
        simp only [h1, h2', Bool.and_false, Bool.false_eq_true, if_false]
        exact ih (i + 1)
    · have h1' : (d i == sh) = false := by simpa using h1
      simp only [h1', Bool.false_and, Bool.false_eq_true, if_false]
      exact ih (i + 1)

/-- `BucketOpenN1::Find` = first candidate (in ascending physical order) that satisfies the predicate -/
theorem findN1_eq (b : Bucket) (h : Nat) (pred : Nat → Bool) :
    b.findN1 h pred = (candsN1 b.data (calcShortHash h) b.maxCount).find? pred := by
  unfold Bucket.findN1 candsN1
  rw [findLoopN1_eq, List.range_eq_range']
  rfl

/-- a slot is a candidate iff it holds an item whose short hash equals the searched one: in particular a slot without an
    item (empty marker 248, count byte 248 .. 254) never is, because every short hash is below 248 -/
theorem cand_iff {b : Bucket} {hs : List Nat} (hI : b.Inv hs) (h : Nat) (hh : h < 2 ^ 64) (j : Nat) (hj : j < b.maxCount) :
    (b.data j == calcShortHash h) = true ↔
      phys b.maxCount b.reverse j < hs.length ∧
      calcShortHash (hs.getD (phys b.maxCount b.reverse j) 0) = calcShortHash h := by
  have hlt := calcShortHash_lt h hh
  rw [hI.2.2.2.2 j hj]
  unfold expByte
  simp only [emptyShortHash, Extracted.openN1EmptyShortHash] at hlt ⊢
  by_cases c1 : phys b.maxCount b.reverse j < hs.length
  · simp [c1]
  · simp only [c1, if_false, false_and, iff_false]
    split <;> simp <;> omega

section scanThm
variable {b : Bucket} {hs : List Nat}

/-- the item (hash code) a slot holds -/
def itemAt (b : Bucket) (hs : List Nat) (p : Nat) : Nat := hs.getD (phys b.maxCount b.reverse p) 0

/-- slot `p` holds an item whose short hash is that of `h` and the predicate accepts it -/
def Hit (b : Bucket) (hs : List Nat) (h : Nat) (pred : Nat → Bool) (p : Nat) : Prop :=
  p < b.maxCount ∧ phys b.maxCount b.reverse p < hs.length ∧ calcShortHash (itemAt b hs p) = calcShortHash h ∧ pred p = true

/-- every candidate of every scan order is an occupied slot with the searched short hash -/
theorem scan_cands_occupied (hI : b.Inv hs) (h : Nat) (hh : h < 2 ^ 64) (order : List Nat) (ho : ∀ p ∈ order, p < b.maxCount)
    (p : Nat) (hp : p ∈ order.filter (fun i => b.data i == calcShortHash h)) :
    phys b.maxCount b.reverse p < hs.length ∧ calcShortHash (itemAt b hs p) = calcShortHash h := by
  rw [List.mem_filter] at hp
  exact (cand_iff hI h hh p (ho p hp.1)).mp hp.2

/-- soundness for every scan order -/
theorem scan_sound (hI : b.Inv hs) (h : Nat) (hh : h < 2 ^ 64) (pred : Nat → Bool) (order : List Nat)
    (ho : ∀ p ∈ order, p < b.maxCount) (p : Nat)
    (hf : scan order b.data (calcShortHash h) pred = some p) : p ∈ order ∧ Hit b hs h pred p := by
  unfold scan at hf
  have hm := List.mem_of_find?_eq_some hf
  have hp := List.find?_some hf
  have hc := scan_cands_occupied hI h hh order ho p hm
  rw [List.mem_filter] at hm
  exact ⟨hm.1, ho p hm.1, hc.1, hc.2, hp⟩

/-- completeness for every scan order -/
theorem scan_complete (hI : b.Inv hs) (h : Nat) (hh : h < 2 ^ 64) (pred : Nat → Bool) (order : List Nat)
    (p : Nat) (hp : p ∈ order) (hit : Hit b hs h pred p) :
    (scan order b.data (calcShortHash h) pred).isSome = true := by
  unfold scan
  rw [List.find?_isSome]
  refine ⟨p, ?_, hit.2.2.2⟩
  rw [List.mem_filter]
  exact ⟨hp, (cand_iff hI h hh p hit.1).mpr ⟨hit.2.1, hit.2.2.1⟩⟩

/-- when at most one slot is a hit (distinct keys), every scan order returns that slot -/
theorem scan_unique (hI : b.Inv hs) (h : Nat) (hh : h < 2 ^ 64) (pred : Nat → Bool) (order : List Nat)
    (ho : ∀ p ∈ order, p < b.maxCount) (p : Nat) (hp : p ∈ order) (hit : Hit b hs h pred p)
    (huniq : ∀ q, Hit b hs h pred q → q = p) :
    scan order b.data (calcShortHash h) pred = some p := by
  have hs' := scan_complete hI h hh pred order p hp hit
  cases hr : scan order b.data (calcShortHash h) pred with
  | none => rw [hr] at hs'; cases hs'
  | some q => rw [huniq q (scan_sound hI h hh pred order ho q hr).2]

/-- no hit ⇒ not found, for every scan order -/
theorem scan_none (hI : b.Inv hs) (h : Nat) (hh : h < 2 ^ 64) (pred : Nat → Bool) (order : List Nat)
    (ho : ∀ p ∈ order, p < b.maxCount) (hno : ∀ q, ¬ Hit b hs h pred q) :
    scan order b.data (calcShortHash h) pred = none := by
  cases hr : scan order b.data (calcShortHash h) pred with
  | none => rfl
  | some q => exact absurd (scan_sound hI h hh pred order ho q hr).2 (hno q)

end scanThm

/-- the slots on which the predicate is evaluated are candidates -/
theorem visited_subset (cands : List Nat) (pred : Nat → Bool) : ∀ p ∈ visited cands pred, p ∈ cands := by
  induction cands with
  | nil => intro p hp; cases hp
  | cons c rest ih =>
    intro p hp
    unfold visited at hp
    split at hp
    · simp at hp; subst hp; simp
    · rcases List.mem_cons.mp hp with rfl | hp
      · simp
      · exact List.mem_cons_of_mem _ (ih p hp)

end Momo.OpenB
