import Momo.Model.OpenBytes
/-!
  Byte-level buckets BucketOpenN1 / BucketOpen8 (model `Momo.OpenB`, Momo/Model/OpenBytes.lean):
  the invariant `Bucket.Inv` (every occupied slot holds the short hash of its item, every other slot the empty marker,
  the slot of the last logical index doubles as the count) is established by the constructor and preserved by every legal
  `AddCrt` / `Remove`, hence by every history. Core Lean only.
-/
namespace Momo.OpenB

theorem calcShortHash_lt (h : Nat) (hh : h < 2 ^ 64) : calcShortHash h < emptyShortHash := by
  have ht : h >>> 40 < 16777216 := by
    rw [Nat.shiftRight_eq_div_pow]
    exact Nat.div_lt_of_lt_mul (by omega)
  simp only [calcShortHash, u8, emptyShortHash, Extracted.openN1ShortHashBits, Extracted.openN1ShortHashShift,
    Extracted.openN1EmptyShortHash]
  rw [Nat.shiftRight_eq_div_pow]
  generalize h >>> (64 - 24) = t at *
  have h1 : t % 2 ^ 32 = t := Nat.mod_eq_of_lt (by omega)
  rw [h1]
  have h2 : t * 248 % 2 ^ 32 = t * 248 := Nat.mod_eq_of_lt (by omega)
  rw [h2]
  have h3 : t * 248 / 2 ^ 24 < 248 := Nat.div_lt_of_lt_mul (by omega)
  rw [Nat.mod_eq_of_lt (Nat.lt_trans h3 (by decide))]; exact h3

theorem getD_snoc (hs : List Nat) (h i : Nat) :
    (hs ++ [h]).getD i 0 = if i < hs.length then hs.getD i 0 else if i = hs.length then h else 0 := by
  simp only [List.getD_eq_getElem?_getD]
  split
  · rename_i hi; rw [List.getElem?_append_left hi]
  · rename_i hi
    rw [List.getElem?_append_right (by omega)]
    split
    · rename_i he; subst he; simp
    · rename_i he
      cases hk : i - hs.length with
      | zero => omega
      | succ k => simp

theorem getD_removeAt (hs : List Nat) (index l i : Nat) (hi : i < hs.length - 1) :
    ((hs.set index l).dropLast).getD i 0 = if i = index then l else hs.getD i 0 := by
  simp only [List.getD_eq_getElem?_getD]
  rw [List.getElem?_dropLast]
  simp only [List.length_set]
  rw [if_pos hi]
  rw [List.getElem?_set]
  split
  · rename_i he; subst he
    rw [if_pos (by omega)]; simp
  · rename_i he
    rw [if_neg (fun e => he e.symm)]

theorem getLast?_eq_getD (hs : List Nat) (hne : 0 < hs.length) : hs.getLast? = some (hs.getD (hs.length - 1) 0) := by
  rw [List.getLast?_eq_getElem?, List.getD_eq_getElem?_getD]
  have : hs.length - 1 < hs.length := by omega
  rw [List.getElem?_eq_getElem this]; rfl

/-- the abstract removal, spelled out for a non-empty list -/
theorem absStep_rem (hs : List Nat) (index : Nat) (hne : 0 < hs.length) :
    absStep hs (.rem index) = (hs.set index (hs.getD (hs.length - 1) 0)).dropLast := by
  simp only [absStep, getLast?_eq_getD hs hne]

theorem phys_lt (mc : Nat) (rev : Bool) (i : Nat) (hi : i < mc) : phys mc rev i < mc := by
  unfold phys; split <;> omega

theorem phys_phys (mc : Nat) (rev : Bool) (i : Nat) (hi : i < mc) : phys mc rev (phys mc rev i) = i := by
  unfold phys; split <;> omega

section inv
variable {b : Bucket} {hs : List Nat}

theorem inv_state_eq (hI : b.Inv hs) :
    b.state = if hs.length = b.maxCount then calcShortHash (hs.getD (b.maxCount - 1) 0) else emptyShortHash + hs.length := by
  obtain ⟨h0, h8, hl, _, hd⟩ := hI
  have hs1 : b.stateIdx < b.maxCount := by unfold Bucket.stateIdx; split <;> omega
  unfold Bucket.state
  rw [hd _ hs1]
  unfold expByte Bucket.stateIdx phys
  cases b.reverse <;> simp <;> split <;> split <;> first | rfl | omega | (simp_all; try omega)

theorem inv_count_eq (hI : b.Inv hs) : b.count = hs.length := by
  have hst := inv_state_eq hI
  obtain ⟨h0, h8, hl, hh, hd⟩ := hI
  unfold Bucket.count
  rw [hst]
  split
  · rename_i he
    have : hs.getD (b.maxCount - 1) 0 < 2 ^ 64 := by
      rw [List.getD_eq_getElem?_getD]
      have hlt : b.maxCount - 1 < hs.length := by omega
      rw [List.getElem?_eq_getElem hlt]
      exact hh _ (List.getElem_mem hlt)
    have := calcShortHash_lt _ this
    rw [if_neg (by omega)]; omega
  · rw [if_pos (by omega)]; omega

theorem inv_isFull_eq (hI : b.Inv hs) : b.isFull = decide (hs.length = b.maxCount) := by
  have hst := inv_state_eq hI
  obtain ⟨h0, h8, hl, hh, hd⟩ := hI
  unfold Bucket.isFull
  rw [hst]
  split
  · rename_i he
    have : hs.getD (b.maxCount - 1) 0 < 2 ^ 64 := by
      rw [List.getD_eq_getElem?_getD]
      have hlt : b.maxCount - 1 < hs.length := by omega
      rw [List.getElem?_eq_getElem hlt]
      exact hh _ (List.getElem_mem hlt)
    have := calcShortHash_lt _ this
    simp [he]; exact this
  · rename_i he; simp [he]

end inv


/-- the expected byte in LOGICAL coordinates (independent of `reverse`) -/
def expL (mc : Nat) (hs : List Nat) (i : Nat) : Nat :=
  if i < hs.length then calcShortHash (hs.getD i 0)
  else if i = mc - 1 then emptyShortHash + hs.length else emptyShortHash

theorem expByte_eq (mc : Nat) (rev : Bool) (hs : List Nat) (j : Nat) :
    expByte mc rev hs j = expL mc hs (phys mc rev j) := rfl

theorem upd_phys (d : Nat → Nat) (mc : Nat) (rev : Bool) (a v i : Nat) (hi : i < mc) (ha : a < mc) :
    upd d (phys mc rev a) v (phys mc rev i) = if i = a then v else d (phys mc rev i) := by
  unfold upd
  by_cases h : i = a
  · subst h; simp
  · rw [if_neg h, if_neg]
    intro e
    have := congrArg (phys mc rev) e
    rw [phys_phys _ _ _ hi, phys_phys _ _ _ ha] at this
    exact h this

theorem stateIdx_eq (b : Bucket) (h0 : 0 < b.maxCount) : b.stateIdx = phys b.maxCount b.reverse (b.maxCount - 1) := by
  unfold Bucket.stateIdx phys; split <;> omega

theorem inv_logical {b : Bucket} {hs : List Nat} (hI : b.Inv hs) (i : Nat) (hi : i < b.maxCount) :
    b.data (phys b.maxCount b.reverse i) = expL b.maxCount hs i := by
  rw [hI.2.2.2.2 _ (phys_lt _ _ _ hi), expByte_eq, phys_phys _ _ _ hi]

theorem inv_of_logical (b : Bucket) (hs : List Nat) (h0 : 0 < b.maxCount) (h8 : b.maxCount < Extracted.openN1MaxCountLimit)
    (hl : hs.length ≤ b.maxCount) (hh : ∀ h ∈ hs, h < 2 ^ 64)
    (hd : ∀ i, i < b.maxCount → b.data (phys b.maxCount b.reverse i) = expL b.maxCount hs i) : b.Inv hs := by
  refine ⟨h0, h8, hl, hh, fun j hj => ?_⟩
  have := hd (phys b.maxCount b.reverse j) (phys_lt _ _ _ hj)
  rw [phys_phys _ _ _ hj] at this
  rw [this, expByte_eq]

theorem new_inv (mc : Nat) (rev : Bool) (h0 : 0 < mc) (h8 : mc < Extracted.openN1MaxCountLimit) :
    (Bucket.new mc rev).Inv [] := by
  refine ⟨h0, h8, Nat.zero_le _, (fun h hh => by cases hh), fun j hj => ?_⟩
  have hj' : j < mc := hj
  show (if j < mc then emptyShortHash else 0) = expL mc [] (phys mc rev j)
  rw [if_pos hj']
  unfold expL
  simp

theorem addCrt_inv (b : Bucket) (hs : List Nat) (h : Nat) (hI : b.Inv hs) (hlen : hs.length < b.maxCount)
    (hh : h < 2 ^ 64) : (b.addCrt h).Inv (hs ++ [h]) := by
  have hc := inv_count_eq hI
  have hL := inv_logical hI
  obtain ⟨h0, h8, hl, hh', hd⟩ := hI
  refine inv_of_logical (b.addCrt h) (hs ++ [h]) h0 h8 (by simp only [List.length_append, List.length_singleton]; exact hlen) ?_ (fun i hi => ?_)
  · intro x hx
    rcases List.mem_append.mp hx with hx | hx
    · exact hh' x hx
    · simp at hx; subst hx; exact hh
  · show b.addBytes h (phys b.maxCount b.reverse i) = expL b.maxCount (hs ++ [h]) i
    have hi' : i < b.maxCount := hi
    have hm1 : b.maxCount - 1 < b.maxCount := by omega
    unfold Bucket.addBytes Bucket.pos
    rw [hc, stateIdx_eq b h0]
    have e1 : ∀ d v, upd d (phys b.maxCount b.reverse (b.maxCount - 1)) v (phys b.maxCount b.reverse i)
        = if i = b.maxCount - 1 then v else d (phys b.maxCount b.reverse i) := fun d v => upd_phys d _ _ _ v _ hi' hm1
    have e2 : ∀ d v, upd d (phys b.maxCount b.reverse hs.length) v (phys b.maxCount b.reverse i)
        = if i = hs.length then v else d (phys b.maxCount b.reverse i) := fun d v => upd_phys d _ _ _ v _ hi' hlen
    have e3 : ∀ d v, upd d (phys b.maxCount b.reverse hs.length) v (phys b.maxCount b.reverse (b.maxCount - 1))
        = if b.maxCount - 1 = hs.length then v else d (phys b.maxCount b.reverse (b.maxCount - 1)) := fun d v => upd_phys d _ _ _ v _ hm1 hlen
    simp only [Extracted.openN1MaxCountLimit] at h8
    by_cases c4 : hs.length + 1 < b.maxCount
    · rw [if_pos c4]
      simp only [e1, e2, e3, hL _ hi', hL _ hm1]
      simp only [expL, getD_snoc, List.length_append, List.length_singleton, u8, emptyShortHash, Extracted.openN1EmptyShortHash]
      have c5 : b.maxCount - 1 ≠ hs.length := by omega
      have c6 : ¬ b.maxCount - 1 < hs.length := by omega
      simp only [c5, c6, if_false, if_true]
      by_cases c1 : i < hs.length
      · have c2 : i ≠ hs.length := by omega
        have c3 : i ≠ b.maxCount - 1 := by omega
        simp only [c1, c2, c3, if_true, if_false, (by omega : i < hs.length + 1)]
      · by_cases c2 : i = hs.length
        · subst c2
          simp only [Nat.lt_irrefl, if_false, if_true, (by omega : hs.length < hs.length + 1), c5.symm]
        · have c3 : ¬ i < hs.length + 1 := by omega
          simp only [c1, c2, c3, if_false]
          split
          · omega
          · rfl
    · rw [if_neg c4]
      simp only [e2, hL _ hi']
      simp only [expL, getD_snoc, List.length_append, List.length_singleton, emptyShortHash, Extracted.openN1EmptyShortHash]
      by_cases c1 : i < hs.length
      · have c2 : i ≠ hs.length := by omega
        simp only [c1, c2, if_true, if_false, (by omega : i < hs.length + 1)]
      · have c2 : i = hs.length := by omega
        subst c2
        simp only [Nat.lt_irrefl, if_false, if_true, (by omega : hs.length < hs.length + 1)]

theorem remove_inv (b : Bucket) (hs : List Nat) (index : Nat) (hI : b.Inv hs) (hidx : index < hs.length) :
    (b.remove index).Inv ((hs.set index (hs.getD (hs.length - 1) 0)).dropLast) := by
  have hc := inv_count_eq hI
  have hL := inv_logical hI
  obtain ⟨h0, h8, hl, hh', hd⟩ := hI
  have hlm : hs.length - 1 < b.maxCount := by omega
  have hix : index < b.maxCount := by omega
  have hm1 : b.maxCount - 1 < b.maxCount := by omega
  have hlast : hs.getD (hs.length - 1) 0 < 2 ^ 64 := by
    rw [List.getD_eq_getElem?_getD]
    have hlt : hs.length - 1 < hs.length := by omega
    rw [List.getElem?_eq_getElem hlt]
    exact hh' _ (List.getElem_mem hlt)
  refine inv_of_logical (b.remove index) _ h0 h8 (by show _ ≤ b.maxCount; simp only [List.length_dropLast, List.length_set]; omega) ?_ (fun i hi => ?_)
  · intro x hx
    have hx' := (List.dropLast_sublist _).subset hx
    rcases List.mem_or_eq_of_mem_set hx' with hx' | hx'
    · exact hh' x hx'
    · subst hx'; exact hlast
  · show b.removeBytes index (phys b.maxCount b.reverse i) = expL b.maxCount _ i
    have hi' : i < b.maxCount := hi
    unfold Bucket.removeBytes Bucket.compact Bucket.pos
    rw [hc, stateIdx_eq b h0]
    have e1 : ∀ d v, upd d (phys b.maxCount b.reverse (b.maxCount - 1)) v (phys b.maxCount b.reverse i)
        = if i = b.maxCount - 1 then v else d (phys b.maxCount b.reverse i) := fun d v => upd_phys d _ _ _ v _ hi' hm1
    have e2 : ∀ d v, upd d (phys b.maxCount b.reverse (hs.length - 1)) v (phys b.maxCount b.reverse i)
        = if i = hs.length - 1 then v else d (phys b.maxCount b.reverse i) := fun d v => upd_phys d _ _ _ v _ hi' hlm
    have e3 : ∀ d v, upd d (phys b.maxCount b.reverse index) v (phys b.maxCount b.reverse i)
        = if i = index then v else d (phys b.maxCount b.reverse i) := fun d v => upd_phys d _ _ _ v _ hi' hix
    have e4 : ∀ d v, upd d (phys b.maxCount b.reverse (hs.length - 1)) v (phys b.maxCount b.reverse (b.maxCount - 1))
        = if b.maxCount - 1 = hs.length - 1 then v else d (phys b.maxCount b.reverse (b.maxCount - 1)) :=
      fun d v => upd_phys d _ _ _ v _ hm1 hlm
    have e5 : ∀ d v, upd d (phys b.maxCount b.reverse index) v (phys b.maxCount b.reverse (b.maxCount - 1))
        = if b.maxCount - 1 = index then v else d (phys b.maxCount b.reverse (b.maxCount - 1)) :=
      fun d v => upd_phys d _ _ _ v _ hm1 hix
    simp only [Extracted.openN1MaxCountLimit] at h8
    have hlen' : ((hs.set index (hs.getD (hs.length - 1) 0)).dropLast).length = hs.length - 1 := by
      simp only [List.length_dropLast, List.length_set]
    by_cases c4 : hs.length < b.maxCount
    · rw [if_pos c4]
      simp only [e1, e2, e3, e4, e5, hL _ hi', hL _ hm1, hL _ hlm]
      unfold expL
      rw [hlen']
      have c5 : b.maxCount - 1 ≠ hs.length - 1 := by omega
      have c6 : b.maxCount - 1 ≠ index := by omega
      have c7 : ¬ b.maxCount - 1 < hs.length := by omega
      simp only [c5, c6, c7, if_false, if_true, u8, emptyShortHash, Extracted.openN1EmptyShortHash]
      by_cases c1 : i < hs.length - 1
      · rw [if_pos c1, getD_removeAt hs index _ i c1]
        have c2 : i ≠ b.maxCount - 1 := by omega
        have c3 : i ≠ hs.length - 1 := by omega
        have c8 : i < hs.length := by omega
        have c9 : hs.length - 1 < hs.length := by omega
        simp only [c2, c3, c8, c9, if_false, if_true]
        split <;> rfl
      · rw [if_neg c1]
        by_cases c2 : i = b.maxCount - 1
        · subst c2
          simp only [if_true]
          omega
        · simp only [c2, if_false]
          by_cases c3 : i = hs.length - 1
          · simp only [c3, if_true]
          · have c8 : i ≠ index := by omega
            have c9 : ¬ i < hs.length := by omega
            simp only [c3, c8, c9, if_false]
    · rw [if_neg c4]
      have hfull : hs.length = b.maxCount := by omega
      simp only [e1, e2, e3, hL _ hi', hL _ hlm]
      unfold expL
      rw [hlen']
      simp only [u8, emptyShortHash, Extracted.openN1EmptyShortHash]
      by_cases c1 : i < hs.length - 1
      · rw [if_pos c1, getD_removeAt hs index _ i c1]
        have c2 : i ≠ b.maxCount - 1 := by omega
        have c3 : i ≠ hs.length - 1 := by omega
        have c8 : i < hs.length := by omega
        have c9 : hs.length - 1 < hs.length := by omega
        simp only [c2, c3, c8, c9, if_false, if_true]
        split <;> rfl
      · rw [if_neg c1]
        have c2 : i = b.maxCount - 1 := by omega
        subst c2
        simp only [if_true]
        omega

/-- **the byte-level invariant is preserved by every legal operation** -/
theorem step_inv (b : Bucket) (hs : List Nat) (op : Op) (hI : b.Inv hs) (hop : op.legal b.maxCount hs) :
    (b.step op).Inv (absStep hs op) := by
  cases op with
  | add h => exact addCrt_inv b hs h hI hop.1 hop.2
  | rem index =>
    have hne : 0 < hs.length := by have : index < hs.length := hop; omega
    rw [absStep_rem hs index hne]
    exact remove_inv b hs index hI hop

theorem step_maxCount (b : Bucket) (op : Op) : (b.step op).maxCount = b.maxCount := by cases op <;> rfl
theorem step_reverse (b : Bucket) (op : Op) : (b.step op).reverse = b.reverse := by cases op <;> rfl

/-- … hence by every legal history, from any state that satisfies it -/
theorem run_inv (ops : List Op) : ∀ (b : Bucket) (hs : List Nat), b.Inv hs → legalHist b.maxCount hs ops →
    (ops.foldl Bucket.step b).Inv (ops.foldl absStep hs) := by
  induction ops with
  | nil => intro b hs hI _; exact hI
  | cons op rest ih =>
    intro b hs hI hl
    simp only [List.foldl_cons]
    refine ih _ _ (step_inv b hs op hI hl.1) ?_
    rw [step_maxCount]; exact hl.2

theorem run_maxCount (ops : List Op) : ∀ (b : Bucket), (ops.foldl Bucket.step b).maxCount = b.maxCount := by
  induction ops with
  | nil => intro b; rfl
  | cons op rest ih => intro b; rw [List.foldl_cons, ih, step_maxCount]

theorem run_reverse (ops : List Op) : ∀ (b : Bucket), (ops.foldl Bucket.step b).reverse = b.reverse := by
  induction ops with
  | nil => intro b; rfl
  | cons op rest ih => intro b; rw [List.foldl_cons, ih, step_reverse]

instance decOpLegal (mc : Nat) (hs : List Nat) : (op : Op) → Decidable (op.legal mc hs)
  | .add _ => inferInstanceAs (Decidable (_ ∧ _))
  | .rem _ => inferInstanceAs (Decidable (_ < _))

instance decLegalHist (mc : Nat) : (hs : List Nat) → (ops : List Op) → Decidable (legalHist mc hs ops)
  | _, [] => isTrue trivial
  | hs, op :: rest => @instDecidableAnd _ _ (decOpLegal mc hs op) (decLegalHist mc (absStep hs op) rest)

end Momo.OpenB
