import Momo.Model.MMap
/-!
  C08, part 2: the contract of the key map (what HashMultiMap relies on of its HashMap — this is
  property C01 for the hash-table model) and the reference instance.
-/
namespace Momo.MMap
open Momo

/-- what the multimap layer needs of the key map: lookup = membership in the traversal, keys unique,
    a successful addition adds exactly the key, a failed one changes nothing, removal removes exactly
    the key, `Clear` empties, `Reserve` and `ResetKey` keep the keys. -/
structure KeyMap.Lawful {σ : Type} (K : KeyMap σ) where
  Inv : σ → Prop
  /-- the fault combinations the contract covers -/
  FOK : HT.Faults → Prop
  fok_default : FOK {}
  inv_empty : Inv K.empty
  keys_empty : K.keys K.empty = []
  has_iff : ∀ s k, Inv s → (K.has s k = true ↔ k ∈ K.keys s)
  nodup : ∀ s, Inv s → (K.keys s).Nodup
  add_ok : ∀ s k tg f, Inv s → FOK f → K.has s k = false → (K.add s k tg f).2 = .ok →
    Inv (K.add s k tg f).1 ∧ (K.keys (K.add s k tg f).1).Perm (k :: K.keys s)
  add_fail : ∀ s k tg f, (K.add s k tg f).2 ≠ .ok → (K.add s k tg f).1 = s
  del_ok : ∀ s k, Inv s → K.has s k = true → Inv (K.del s k) ∧ (k :: K.keys (K.del s k)).Perm (K.keys s)
  clear_ok : ∀ s, Inv s → Inv (K.clear s) ∧ K.keys (K.clear s) = []
  reserve_ok : ∀ s n, Inv s → Inv (K.reserve s n) ∧ (K.keys (K.reserve s n)).Perm (K.keys s)
  setTag_ok : ∀ s k tg, Inv s → Inv (K.setTag s k tg) ∧ K.keys (K.setTag s k tg) = K.keys s

/-! ### the reference key map is lawful -/

theorem list_any_key (l : List (Nat × Nat)) (k : Nat) :
    l.any (fun e => e.1 == k) = true ↔ k ∈ l.map (·.1) := by
  simp [List.any_eq_true, List.mem_map]

theorem list_filter_ne_keys (l : List (Nat × Nat)) (k : Nat) (hn : (l.map (·.1)).Nodup) (hk : k ∈ l.map (·.1)) :
    (k :: (l.filter (fun e => e.1 != k)).map (·.1)).Perm (l.map (·.1)) := by
  induction l with
  | nil => simp at hk
  | cons e l ih =>
    simp only [List.map_cons, List.nodup_cons] at hn
    by_cases he : e.1 = k
    · subst he
      have hnot : ∀ x ∈ l, (x.1 != e.1) = true := by
        intro x hx
        have : x.1 ≠ e.1 := fun h => hn.1 (h ▸ List.mem_map_of_mem (f := (·.1)) hx)
        simpa using this
      simp only [List.filter_cons, bne_self_eq_false, Bool.false_eq_true, if_false, List.map_cons]
      rw [List.filter_eq_self.mpr hnot]
    · have hk' : k ∈ l.map (·.1) := by
        simp only [List.map_cons, List.mem_cons] at hk
        rcases hk with hk | hk
        · exact absurd hk.symm he
        · exact hk
      have hne : (e.1 != k) = true := by simpa using he
      simp only [List.filter_cons, hne, if_true, List.map_cons]
      exact (List.Perm.swap _ _ _).trans ((ih hn.2 hk').cons _)

def listLawful : KeyMap.Lawful listKeyMap where
  Inv l := (l.map (fun e => e.1)).Nodup
  FOK _ := True
  fok_default := trivial
  inv_empty := by simp [listKeyMap]
  keys_empty := rfl
  has_iff l k _ := list_any_key l k
  nodup l h := by simpa [listKeyMap] using h
  add_ok l k tg f hI _ hh hok := by
    have hnk : k ∉ l.map (·.1) := by
      intro hm; have := (list_any_key l k).mpr hm
      simp only [listKeyMap] at hh; rw [hh] at this; cases this
    simp only [listKeyMap] at hok ⊢
    by_cases hf : f.refuseAdd = true
    · simp [hf] at hok
    · simp only [hf, Bool.false_eq_true, if_false, List.map_append, List.map_cons, List.map_nil]
      refine ⟨?_, List.perm_append_singleton _ _⟩
      exact (List.perm_append_singleton k _).nodup_iff.mpr (List.nodup_cons.mpr ⟨hnk, hI⟩)
  add_fail l k tg f hne := by
    simp only [listKeyMap] at hne ⊢
    by_cases hf : f.refuseAdd = true
    · simp [hf]
    · simp [hf] at hne
  del_ok l k hI hh := by
    have hk := (list_any_key l k).mp hh
    have hp := list_filter_ne_keys l k hI hk
    refine ⟨?_, hp⟩
    exact (List.nodup_cons.mp (hp.nodup_iff.mpr hI)).2
  clear_ok _ _ := ⟨by simp [listKeyMap], rfl⟩
  reserve_ok l _ h := ⟨h, List.Perm.refl _⟩
  setTag_ok l k tg hI := by
    have hk : (listKeyMap.setTag l k tg).map (·.1) = l.map (·.1) := by
      simp only [listKeyMap, List.map_map]
      apply List.map_congr_left
      intro e _
      by_cases he : e.1 = k
      · simp [he]
      · simp [he]
    exact ⟨by show ((listKeyMap.setTag l k tg).map (·.1)).Nodup; rw [hk]; exact hI, hk⟩

end Momo.MMap
