import Momo.Proof.BTreeFaultRemove
import Momo.Proof.BTreeFaultInsert
import Momo.Proof.BTreeMore
/-!
  C04 / C10 for the B-tree family, container level: `Remove(iter)` / extraction, the frame rule ("the ledger moves exactly
  with what the containers own"), `Remove(filter)` and `Insert(range)` under every fault schedule.
  Core Lean only.
-/
namespace Momo.BTreeF
open Momo Momo.BTree Momo.BTree.Node
variable {α : Type}

local macro "triv" : tactic => `(tactic| first | rfl | trivial | simp)

/-! ### the frame rule -/

/-- from `(w, ft)` to `(w', ft')` the ledger moved exactly by what the container owns -/
def Frame (w : W) (ft : FTree α) (w' : W) (ft' : FTree α) : Prop := w'.led + ft.own = w.led + ft'.own

theorem Frame.refl (w : W) (ft : FTree α) : Frame w ft w ft := rfl

theorem Ledger.add_right_cancel' {a b c : Ledger} (h : a + c = b + c) : a = b := by
  have h1 := congrArg Ledger.leaves h; have h2 := congrArg Ledger.inners h; have h3 := congrArg Ledger.items h
  have h4 := congrArg Ledger.aux h; have h5 := congrArg Ledger.params h; have h6 := congrArg Ledger.crews h
  simp only [Ledger.add_leaves, Ledger.add_inners, Ledger.add_items, Ledger.add_aux, Ledger.add_params, Ledger.add_crews] at *
  apply Ledger.ext' <;> omega

theorem Frame.trans {w w1 w2 : W} {ft ft1 ft2 : FTree α} (h1 : Frame w ft w1 ft1) (h2 : Frame w1 ft1 w2 ft2) :
    Frame w ft w2 ft2 := by
  unfold Frame at *
  have a1 := congrArg Ledger.leaves h1; have a2 := congrArg Ledger.inners h1; have a3 := congrArg Ledger.items h1
  have a4 := congrArg Ledger.aux h1; have a5 := congrArg Ledger.params h1; have a6 := congrArg Ledger.crews h1
  have b1 := congrArg Ledger.leaves h2; have b2 := congrArg Ledger.inners h2; have b3 := congrArg Ledger.items h2
  have b4 := congrArg Ledger.aux h2; have b5 := congrArg Ledger.params h2; have b6 := congrArg Ledger.crews h2
  simp only [Ledger.add_leaves, Ledger.add_inners, Ledger.add_items, Ledger.add_aux, Ledger.add_params, Ledger.add_crews] at *
  apply Ledger.ext' <;> simp only [Ledger.add_leaves, Ledger.add_inners, Ledger.add_items, Ledger.add_aux, Ledger.add_params,
    Ledger.add_crews] <;> omega

@[simp] theorem own_leaves (ft : FTree α) : ft.own.leaves = ft.leaves := rfl
@[simp] theorem own_inners (ft : FTree α) : ft.own.inners = ft.inners := rfl
@[simp] theorem own_items (ft : FTree α) : ft.own.items = ft.tree.toList.length := rfl
@[simp] theorem own_aux (ft : FTree α) : ft.own.aux = 0 := rfl
@[simp] theorem own_params (ft : FTree α) : ft.own.params = if ft.params then 1 else 0 := rfl
@[simp] theorem own_crews (ft : FTree α) : ft.own.crews = 0 := rfl

/-- the usual way a frame arises: the ledger moved by the node difference and by `k` items, and the list length moved by `k` -/
theorem Frame.of_delta {w w' : W} {ft ft' : FTree α} (k : Int)
    (hl : w'.led = w.led + (ft'.nodeLed - ft.nodeLed) + Ledger.ofItems k)
    (hn : (ft'.tree.toList.length : Int) = ft.tree.toList.length + k) : Frame w ft w' ft' := by
  unfold Frame
  rw [hl]
  apply Ledger.ext' <;> simp <;> omega

/-! ### `Remove(iter)` / `Remove(iter, extItem)` -/

theorem removeF_spec (S : Sched) (ic : ICfg α) (cfg : Cfg) (mode : RemMode) (ft : FTree α) (hw : ft.WF cfg) (pos : Pos)
    (hv : ft.tree.ValidElem pos) (w : W) {t : Bool} {ft' : FTree α} {p : Pos} {w' : W}
    (h : removeF S ic cfg mode ft pos w = (t, ft', p, w')) :
    (t = true → w'.led = w.led ∧ (ic.unsafeRepl = false → ft' = ft)) ∧
    (t = false →
      ft'.tree.toList = ft.tree.toList.eraseIdx (ft.tree.idxOf pos) ∧ ft'.WF cfg ∧
      ft'.tree.idxOf p = ft.tree.idxOf pos ∧ ft'.tree.ValidPos p ∧
      w'.led = w.led + (ft'.nodeLed - ft.nodeLed) + Ledger.ofItems (itemsDelta mode)) ∧
    (S.NoCtor → S.NoRepl → t = false ∧ ft'.tree = (ft.tree.remove cfg pos).1 ∧ p = (ft.tree.remove cfg pos).2) := by
  unfold Tree.ValidElem at hv
  unfold removeF at h
  cases hr : ft.tree.root with
  | none => simp [hr] at hv
  | some r =>
    obtain ⟨d, hb⟩ := hw.tree.bal r hr
    simp only [hr] at hv h
    cases hra : removeAtF S ic cfg mode r pos w with
    | mk t1 rest =>
      obtain ⟨r1, p1, w1⟩ := rest
      obtain ⟨a1, a2, a3⟩ := removeAtF_spec S ic cfg mode hb pos hv w hra
      rw [hra] at h
      cases t1 with
      | true =>
        simp only [Prod.mk.injEq] at h
        obtain ⟨rfl, rfl, rfl, rfl⟩ := h
        refine ⟨fun _ => ⟨(a1 rfl).1, fun hu => ?_⟩, fun hh => (by cases hh), fun hn hn2 => (by have := (a3 hn hn2).1; cases this)⟩
        rw [(a1 rfl).2 hu]
        cases ft with
        | mk tree params => cases tree with
          | mk root count => simp only at hr; subst hr; rfl
      | false =>
        simp only [Prod.mk.injEq] at h
        obtain ⟨rfl, rfl, rfl, rfl⟩ := h
        obtain ⟨b1, b2, b3, b4, b5, b6⟩ := a2 rfl
        have hk := idxOf_lt_size hb _ _ hv
        have hcnt := hw.tree.count
        simp only [Tree.toList, hr] at hcnt
        refine ⟨fun hh => (by cases hh), fun _ => ⟨?_, ⟨⟨?_, fun r' hh => (by cases hh; exact b2), fun r' hh => (by cases hh; exact b5 (hw.tree.caps r hr))⟩,
          fun _ => hw.params (by simp [hr])⟩, ?_, ?_, ?_⟩, fun hn hn2 => ⟨rfl, ?_, ?_⟩⟩
        · simp only [Tree.toList, hr, b1, Tree.idxOf]
        · simp only [Tree.toList, b1]
          rw [List.length_eraseIdx_of_lt (by simpa [size] using hk)]; omega
        · simp only [Tree.idxOf, hr, b3]
        · simp only [Tree.ValidPos]; exact b4
        · rw [b6]; apply Ledger.ext' <;> simp [nodeDelta, FTree.leaves, FTree.inners, hr]
        · have := (a3 hn hn2).2
          simp only [Tree.remove, hr]
          rw [← this]
        · have := (a3 hn hn2).2
          simp only [Tree.remove, hr]
          rw [← this]

/-- `Remove(iter)` under every fault schedule keeps the frame; thrown (outside the documented exception): nothing changed -/
theorem removeF_frame (S : Sched) (ic : ICfg α) (hu : ic.unsafeRepl = false) (cfg : Cfg) (ft : FTree α) (hw : ft.WF cfg)
    (pos : Pos) (hv : ft.tree.ValidElem pos) (w : W) {t : Bool} {ft' : FTree α} {p : Pos} {w' : W}
    (h : removeF S ic cfg .destroy ft pos w = (t, ft', p, w')) : Frame w ft w' ft' := by
  obtain ⟨a1, a2, _⟩ := removeF_spec S ic cfg .destroy ft hw pos hv w h
  cases t with
  | true =>
    obtain ⟨e1, e2⟩ := a1 rfl
    have := e2 hu; subst this
    unfold Frame; rw [e1]
  | false =>
    obtain ⟨b1, _, _, _, b5⟩ := a2 rfl
    have hlt := validElem_idx_lt cfg ft.tree hw.tree pos hv
    refine Frame.of_delta (-1) (by simpa [itemsDelta] using b5) ?_
    rw [b1, List.length_eraseIdx_of_lt hlt]; omega

/-- `pvInsert` with the copying creator keeps the frame under every fault schedule -/
theorem insertF_frame (S : Sched) (ic : ICfg α) (cfg : Cfg) (hmax : 0 < cfg.maxCap) (lt : α → α → Bool) (ho : Order lt)
    (ft : FTree α) (hw : ft.WF cfg) (hs : SortedBy lt cfg.multi ft.tree.toList) (x : α) (w : W)
    {t : Bool} {s : Unit} {ft' : FTree α} {p : Pos} {ins : Bool} {w' : W}
    (h : insertF S ic cfg lt ft x (copyCreator S) () w = (t, s, ft', p, ins, w')) : Frame w ft w' ft' := by
  obtain ⟨a1, a2, _⟩ := insertF_spec S ic cfg hmax lt ho ft hw hs x (copyCreator S) () _ (copyCreator_spec S) w h
  cases t with
  | true =>
    obtain ⟨e1, e2⟩ := a1 rfl
    refine Frame.of_delta 0 ?_ (by rw [e1]; simp)
    rw [e2]; apply Ledger.ext' <;> simp
  | false =>
    obtain ⟨b1, b2, b3, b4, b5⟩ := a2 rfl
    cases ins with
    | false => obtain ⟨_, e2, e3⟩ := b4 rfl; subst e2; unfold Frame; rw [e3]
    | true =>
      refine Frame.of_delta 1 (by rw [b5 rfl]; apply Ledger.ext' <;> simp <;> omega) ?_
      obtain ⟨c1, _⟩ := tree_insert_spec lt ho cfg hmax ft.tree hw.tree hs x
      rw [b1]
      by_cases hc : cfg.multi = false ∧ ∃ y ∈ ft.tree.toList, equiv lt y x = true
      · rw [if_pos hc] at c1; rw [← b3] at c1; cases c1.2.1
      · rw [if_neg hc] at c1
        have f1 := (upperIdx_facts lt ho ft.tree.toList x (hs.weak ho)).1
        rw [c1.1, List.length_insertIdx_of_le_length f1]; omega

/-- `pvAdd` with the copying creator keeps the frame under every fault schedule -/
theorem addF_frame (S : Sched) (ic : ICfg α) (cfg : Cfg) (hmax : 0 < cfg.maxCap) (ft : FTree α) (hw : ft.WF cfg) (pos : Pos)
    (hv : ft.tree.ValidPos pos) (x : α) (w : W) {t : Bool} {s : Unit} {ft' : FTree α} {p : Pos} {w' : W}
    (h : addF S ic cfg ft pos x (copyCreator S) () w = (t, s, ft', p, w')) : Frame w ft w' ft' := by
  obtain ⟨a1, a2, _⟩ := addF_spec S ic cfg hmax ft hw pos hv x (copyCreator S) () _ (copyCreator_spec S) w h
  cases t with
  | true =>
    obtain ⟨e1, e2⟩ := a1 rfl
    refine Frame.of_delta 0 ?_ (by rw [e1]; simp)
    rw [e2]; apply Ledger.ext' <;> simp
  | false =>
    obtain ⟨b1, _, b3⟩ := a2 rfl
    refine Frame.of_delta 1 (by rw [b3]; apply Ledger.ext' <;> simp <;> omega) ?_
    obtain ⟨c1, _⟩ := tree_add_spec cfg hmax ft.tree hw.tree pos hv x
    have hle := validPos_idx_le_len cfg ft.tree hw.tree pos hv
    rw [b1, c1, List.length_insertIdx_of_le_length hle]; omega

/-! ### `Remove(filter)` -/

theorem removeIfF_go_spec (S : Sched) (ic : ICfg α) (hu : ic.unsafeRepl = false) (cfg : Cfg) (f : α → Bool) (fuel : Nat)
    (ft : FTree α) (hw : ft.WF cfg) (pos : Pos) (hv : ft.tree.ValidPos pos)
    (hf : ft.tree.toList.length ≤ ft.tree.idxOf pos + fuel) (w : W) {t : Bool} {ft' : FTree α} {w' : W}
    (h : removeIfF.go S ic cfg f fuel ft pos w = (t, ft', w')) :
    ft'.WF cfg ∧ Frame w ft w' ft' ∧ ft'.tree.toList.Sublist ft.tree.toList ∧
    (ft.tree.toList.take (ft.tree.idxOf pos) ++ (ft.tree.toList.drop (ft.tree.idxOf pos)).filter (fun y => !f y)).Sublist
      ft'.tree.toList ∧
    (t = false → ft'.tree.toList =
      ft.tree.toList.take (ft.tree.idxOf pos) ++ (ft.tree.toList.drop (ft.tree.idxOf pos)).filter (fun y => !f y)) := by
  have keep : (ft.tree.toList.take (ft.tree.idxOf pos) ++ (ft.tree.toList.drop (ft.tree.idxOf pos)).filter (fun y => !f y)).Sublist
      ft.tree.toList := by
    conv => rhs; rw [← List.take_append_drop (ft.tree.idxOf pos) ft.tree.toList]
    exact List.Sublist.append (List.Sublist.refl _) List.filter_sublist
  induction fuel generalizing ft pos w with
  | zero =>
    have hle := validPos_idx_le_len cfg ft.tree hw.tree pos hv
    have hidx : ft.tree.idxOf pos = ft.tree.toList.length := by omega
    simp only [removeIfF.go, Prod.mk.injEq] at h
    obtain ⟨rfl, rfl, rfl⟩ := h
    exact ⟨hw, Frame.refl _ _, List.Sublist.refl _, keep, fun _ => (by rw [hidx]; simp)⟩
  | succ n ih =>
    simp only [removeIfF.go] at h
    by_cases hend : pos = ft.tree.endPos
    · rw [if_pos hend] at h
      simp only [Prod.mk.injEq] at h
      obtain ⟨rfl, rfl, rfl⟩ := h
      have hidx := (tree_pos_eq_end_iff cfg ft.tree hw.tree pos hv).mp hend
      exact ⟨hw, Frame.refl _ _, List.Sublist.refl _, keep, fun _ => (by rw [hidx]; simp)⟩
    · rw [if_neg hend] at h
      have hlt : ft.tree.idxOf pos < ft.tree.toList.length := by
        have h1 := validPos_idx_le_len cfg ft.tree hw.tree pos hv
        have h2 := mt (tree_pos_eq_end_iff cfg ft.tree hw.tree pos hv).mpr hend
        omega
      have hve := validElem_of_idx_lt cfg ft.tree hw.tree pos hv hlt
      obtain ⟨x, hx1, hx2⟩ := tree_elemAt_spec cfg ft.tree hw.tree pos hve
      have hdrop : ft.tree.toList.drop (ft.tree.idxOf pos) = x :: ft.tree.toList.drop (ft.tree.idxOf pos + 1) := by
        rw [List.drop_eq_getElem_cons hlt]; congr 1
        rw [List.getElem?_eq_getElem hlt] at hx2; exact Option.some.inj hx2
      simp only [hx1] at h
      by_cases hflt : S.filt w.filtN = true
      · simp only [hflt, if_true, Prod.mk.injEq] at h
        obtain ⟨rfl, rfl, rfl⟩ := h
        exact ⟨hw, rfl, List.Sublist.refl _, keep, fun hh => (by cases hh)⟩
      · simp only [hflt, Bool.false_eq_true, if_false] at h
        by_cases hfx : f x = true
        · simp only [hfx, if_true] at h
          cases hrm : removeF S ic cfg .destroy ft pos w.tickFilt with
          | mk t1 rest =>
            obtain ⟨ft1, p1, w1⟩ := rest
            rw [hrm] at h
            obtain ⟨r1, r2, _⟩ := removeF_spec S ic cfg .destroy ft hw pos hve w.tickFilt hrm
            have hfr := removeF_frame S ic hu cfg ft hw pos hve w.tickFilt hrm
            have hfr0 : Frame w ft w1 ft1 := hfr
            cases t1 with
            | true =>
              simp only [Prod.mk.injEq] at h
              obtain ⟨rfl, rfl, rfl⟩ := h
              have := (r1 rfl).2 hu; subst this
              exact ⟨hw, hfr0, List.Sublist.refl _, keep, fun hh => (by cases hh)⟩
            | false =>
              simp only at h
              obtain ⟨b1, b2, b3, b4, _⟩ := r2 rfl
              obtain ⟨i1, i2, i3, i4, i5⟩ := ih ft1 b2 p1 b4 (by rw [b1, b3, List.length_eraseIdx_of_lt hlt]; omega) w1 h
                (by
                  conv => rhs; rw [← List.take_append_drop (ft1.tree.idxOf p1) ft1.tree.toList]
                  exact List.Sublist.append (List.Sublist.refl _) List.filter_sublist)
              have hrew : ft1.tree.toList.take (ft1.tree.idxOf p1) ++ (ft1.tree.toList.drop (ft1.tree.idxOf p1)).filter (fun y => !f y) =
                  ft.tree.toList.take (ft.tree.idxOf pos) ++ (ft.tree.toList.drop (ft.tree.idxOf pos)).filter (fun y => !f y) := by
                rw [b1, b3, hdrop]
                simp only [List.filter_cons, hfx, Bool.not_true, Bool.false_eq_true, if_false]
                rw [List.eraseIdx_eq_take_drop_succ]
                have h1 : (ft.tree.toList.take (ft.tree.idxOf pos)).length = ft.tree.idxOf pos := by simp; omega
                rw [List.take_append_of_le_length (by omega), List.take_of_length_le (by omega),
                  List.drop_append_of_le_length (by omega), List.drop_of_length_le (by omega)]
                simp
              rw [hrew] at i4 i5
              refine ⟨i1, hfr0.trans i2, i3.trans ?_, i4, i5⟩
              rw [b1]; exact List.eraseIdx_sublist _ _
        · simp only [hfx, Bool.false_eq_true, if_false] at h
          obtain ⟨n1, n2⟩ := tree_next_spec cfg ft.tree hw.tree pos hve
          obtain ⟨i1, i2, i3, i4, i5⟩ := ih ft hw (ft.tree.next pos) n2 (by omega) w.tickFilt h
            (by
              conv => rhs; rw [← List.take_append_drop (ft.tree.idxOf (ft.tree.next pos)) ft.tree.toList]
              exact List.Sublist.append (List.Sublist.refl _) List.filter_sublist)
          have hrew : ft.tree.toList.take (ft.tree.idxOf (ft.tree.next pos)) ++
              (ft.tree.toList.drop (ft.tree.idxOf (ft.tree.next pos))).filter (fun y => !f y) =
              ft.tree.toList.take (ft.tree.idxOf pos) ++ (ft.tree.toList.drop (ft.tree.idxOf pos)).filter (fun y => !f y) := by
            rw [n1, hdrop, List.take_add_one, hx2]
            simp [hfx]
          rw [hrew] at i4 i5
          exact ⟨i1, i2, i3, i4, i5⟩

/-- **`Remove(filter)` under every fault schedule** (basic guarantee): the container stays well-formed, the ledger moved
    exactly with what it owns, the elements are a sub-sequence of the old ones, every element not satisfying the filter is
    still there; without an exception exactly the elements satisfying the filter are gone -/
theorem removeIfF_spec (S : Sched) (ic : ICfg α) (hu : ic.unsafeRepl = false) (cfg : Cfg) (f : α → Bool) (ft : FTree α)
    (hw : ft.WF cfg) (w : W) {t : Bool} {ft' : FTree α} {w' : W} (h : removeIfF S ic cfg f ft w = (t, ft', w')) :
    ft'.WF cfg ∧ Frame w ft w' ft' ∧ ft'.tree.toList.Sublist ft.tree.toList ∧
    (ft.tree.toList.filter (fun y => !f y)).Sublist ft'.tree.toList ∧
    (t = false → ft'.tree.toList = ft.tree.toList.filter (fun y => !f y)) := by
  obtain ⟨b1, b2, _, _⟩ := tree_begin_end_spec cfg ft.tree hw.tree
  unfold removeIfF at h
  obtain ⟨a1, a2, a3, a4, a5⟩ := removeIfF_go_spec S ic hu cfg f ft.tree.count ft hw ft.tree.beginPos b2
    (by rw [b1, hw.tree.count]; omega) w h
  rw [b1] at a4 a5
  simp only [List.take_zero, List.nil_append, List.drop_zero] at a4 a5
  exact ⟨a1, a2, a3, a4, a5⟩

end Momo.BTreeF
