import Momo.Proof.BTreeFaultOps
/-!
  C04 for the B-tree family: the copy constructor (`pvCopy` with its `catch (...)`, node params and crew released by the
  destructor that runs after a delegating constructor's body throws) under every fault schedule: a failed construction
  leaves nothing allocated and nothing constructed; a completed one is the fault-free copy and the ledger holds exactly the
  new container. Core Lean only.
-/
namespace Momo.BTreeF
open Momo Momo.BTree Momo.BTree.Node
variable {α : Type}

local macro "triv" : tactic => `(tactic| first | rfl | trivial | simp)

/-- the ledger with a subtree's nodes and items added -/
def addTree (l : Ledger) (lv inn it : Nat) : Ledger :=
  { l with leaves := l.leaves + lv, inners := l.inners + inn, items := l.items + it }

/-- what the specification of `copyNodeF` says about one node -/
def CopyOK (S : Sched) (cfg : Cfg) (n : Node α) : Prop :=
  ∀ (ia : Nat) (w : W) (t : Bool) (n' : Node α) (ia' : Nat) (w' : W), copyNodeF S cfg n ia w = (t, n', ia', w') →
    (t = true → w'.led = w.led) ∧
    (t = false → (n', ia') = copyNode cfg n ia ∧ w'.led = addTree w.led (leafCount n') (innerCount n') (size n')) ∧
    (S.NoAlloc → S.NoCtor → t = false)

theorem copyListF_spec (S : Sched) (cfg : Cfg) (cs : List (Node α)) (hall : ∀ c ∈ cs, CopyOK S cfg c) (ia : Nat) (w : W)
    {t : Bool} {cs' : List (Node α)} {ia' : Nat} {w' : W} (h : copyListF S cfg cs ia w = (t, cs', ia', w')) :
    (t = true → w'.led = w.led) ∧
    (t = false → (cs', ia') = copyList cfg cs ia ∧
      w'.led = addTree w.led ((cs'.map leafCount).sum) ((cs'.map innerCount).sum) ((cs'.map (fun c => size c)).sum)) ∧
    (S.NoAlloc → S.NoCtor → t = false) := by
  induction cs generalizing ia w t cs' ia' w' with
  | nil =>
    simp only [copyListF, Prod.mk.injEq] at h
    obtain ⟨rfl, rfl, rfl, rfl⟩ := h
    refine ⟨fun hh => (by cases hh), fun _ => ⟨by simp [copyList], ?_⟩, fun _ _ => rfl⟩
    apply Ledger.ext' <;> simp [addTree]
  | cons c cs ih =>
    simp only [copyListF] at h
    cases hc : copyNodeF S cfg c ia w with
    | mk t1 rest =>
      obtain ⟨c', ia1, w1⟩ := rest
      obtain ⟨a1, a2, a3⟩ := hall c (by simp) ia w t1 c' ia1 w1 hc
      rw [hc] at h
      cases t1 with
      | true =>
        simp only [Prod.mk.injEq] at h
        obtain ⟨rfl, rfl, rfl, rfl⟩ := h
        exact ⟨fun _ => a1 rfl, fun hh => (by cases hh), fun hn hn2 => (by have := a3 hn hn2; cases this)⟩
      | false =>
        simp only at h
        obtain ⟨b1, b2⟩ := a2 rfl
        cases hl : copyListF S cfg cs ia1 w1 with
        | mk t2 rest2 =>
          obtain ⟨cs2, ia2, w2⟩ := rest2
          obtain ⟨i1, i2, i3⟩ := ih (fun c0 hc0 => hall c0 (by simp [hc0])) ia1 w1 hl
          rw [hl] at h
          cases t2 with
          | true =>
            simp only [Prod.mk.injEq] at h
            obtain ⟨rfl, rfl, rfl, rfl⟩ := h
            refine ⟨fun _ => ?_, fun hh => (by cases hh), fun hn hn2 => (by have := i3 hn hn2; cases this)⟩
            simp only [addInners_led, addLeaves_led, addItems_led, i1 rfl, b2]
            apply Ledger.ext' <;> simp [addTree] <;> omega
          | false =>
            simp only [Prod.mk.injEq] at h
            obtain ⟨rfl, rfl, rfl, rfl⟩ := h
            obtain ⟨j1, j2⟩ := i2 rfl
            refine ⟨fun hh => (by cases hh), fun _ => ⟨?_, ?_⟩, fun _ _ => rfl⟩
            · have e1 := congrArg Prod.fst b1; have e2 := congrArg Prod.snd b1
              have f1 := congrArg Prod.fst j1; have f2 := congrArg Prod.snd j1
              simp only at e1 e2 f1 f2
              simp only [copyList, ← e1, ← e2, ← f1, ← f2]
            · rw [j2, b2]
              apply Ledger.ext' <;> simp [addTree] <;> omega

theorem copyLoop_ok (S : Sched) (hn : S.NoCtor) (n : Nat) (w : W) : (copyLoop S n w).2.1 = false :=
  (copyLoop_spec S n w).2.2 hn

/-- `pvCopy` with its roll-back, for every node of a balanced tree -/
theorem copyNodeF_ok (S : Sched) (cfg : Cfg) {d : Nat} {n : Node α} (hb : Bal d n) : CopyOK S cfg n := by
  induction hb with
  | leaf cap items =>
    intro ia w t n' ia' w' h
    simp only [copyNodeF] at h
    by_cases hf : S.alloc w.allocN = true
    · simp only [hf, if_true, Prod.mk.injEq] at h
      obtain ⟨rfl, rfl, rfl, rfl⟩ := h
      exact ⟨fun _ => rfl, fun hh => (by cases hh), fun hn _ => (by rw [hn] at hf; cases hf)⟩
    · simp only [hf, Bool.false_eq_true, if_false] at h
      obtain ⟨k1, k2, k3⟩ := copyLoop_spec S items.length (w.tickAlloc.addLeaves 1)
      cases hcl : copyLoop S items.length (w.tickAlloc.addLeaves 1) with
      | mk dd rest =>
        obtain ⟨t1, w1⟩ := rest
        rw [hcl] at h k1 k2 k3
        simp only at k1 k2 k3
        cases t1 with
        | true =>
          simp only [Prod.mk.injEq] at h
          obtain ⟨rfl, rfl, rfl, rfl⟩ := h
          refine ⟨fun _ => ?_, fun hh => (by cases hh), fun _ hn => (by have := k3 hn; cases this)⟩
          simp only [addLeaves_led, addItems_led, k1]
          apply Ledger.ext' <;> simp <;> omega
        | false =>
          simp only [Prod.mk.injEq] at h
          obtain ⟨rfl, rfl, rfl, rfl⟩ := h
          refine ⟨fun hh => (by cases hh), fun _ => ⟨by simp [copyNode], ?_⟩, fun _ _ => rfl⟩
          rw [k1, k2 rfl]
          apply Ledger.ext' <;> simp [addTree, size]
  | inner d items cs hlen hall ih =>
    intro ia w t n' ia' w' h
    simp only [copyNodeF] at h
    by_cases hf : S.alloc w.allocN = true
    · simp only [hf, if_true, Prod.mk.injEq] at h
      obtain ⟨rfl, rfl, rfl, rfl⟩ := h
      exact ⟨fun _ => rfl, fun hh => (by cases hh), fun hn _ => (by rw [hn] at hf; cases hf)⟩
    · simp only [hf, Bool.false_eq_true, if_false] at h
      obtain ⟨k1, k2, k3⟩ := copyLoop_spec S items.length (w.tickAlloc.addInners 1)
      cases hcl : copyLoop S items.length (w.tickAlloc.addInners 1) with
      | mk dd rest =>
        obtain ⟨t1, w1⟩ := rest
        rw [hcl] at h k1 k2 k3
        simp only at k1 k2 k3
        cases t1 with
        | true =>
          simp only [Prod.mk.injEq] at h
          obtain ⟨rfl, rfl, rfl, rfl⟩ := h
          refine ⟨fun _ => ?_, fun hh => (by cases hh), fun _ hn => (by have := k3 hn; cases this)⟩
          simp only [addInners_led, addItems_led, k1]
          apply Ledger.ext' <;> simp <;> omega
        | false =>
          simp only at h
          have hd := k2 rfl
          cases hl : copyListF S cfg cs (ia + 1) w1 with
          | mk t2 rest2 =>
            obtain ⟨cs2, ia2, w2⟩ := rest2
            obtain ⟨i1, i2, i3⟩ := copyListF_spec S cfg cs (fun c hc => ih c hc) (ia + 1) w1 hl
            rw [hl] at h
            cases t2 with
            | true =>
              simp only [Prod.mk.injEq] at h
              obtain ⟨rfl, rfl, rfl, rfl⟩ := h
              refine ⟨fun _ => ?_, fun hh => (by cases hh), fun hn hn2 => (by have := i3 hn hn2; cases this)⟩
              simp only [addInners_led, addItems_led, i1 rfl, k1, hd]
              apply Ledger.ext' <;> simp <;> omega
            | false =>
              simp only [Prod.mk.injEq] at h
              obtain ⟨rfl, rfl, rfl, rfl⟩ := h
              obtain ⟨j1, j2⟩ := i2 rfl
              have f1 := congrArg Prod.fst j1; have f2 := congrArg Prod.snd j1
              simp only at f1 f2
              have hlen2 : cs2.length = items.length + 1 := by rw [f1, copyList_length]; exact hlen
              refine ⟨fun hh => (by cases hh), fun _ => ⟨by simp only [copyNode, ← f1, ← f2], ?_⟩, fun _ _ => rfl⟩
              rw [j2, k1, hd, size_inner items cs2 hlen2]
              apply Ledger.ext' <;> simp [addTree] <;> omega

/-- **the copy constructor under every fault schedule** -/
theorem copyF_spec (S : Sched) (ic : ICfg α) (cfg : Cfg) (src : FTree α) (hw : src.WF cfg) (w : W)
    {t : Bool} {ft' : FTree α} {w' : W} (h : copyF S ic cfg src w = (t, ft', w')) :
    (t = true → w'.led = w.led) ∧
    (t = false → ft'.tree = Tree.copy cfg src.tree ∧ ft'.WF cfg ∧
      w'.led = w.led + ft'.own + ({ crews := if ic.crewAlloc then 1 else 0 } : Ledger)) ∧
    (S.NoAlloc → S.NoCtor → t = false) := by
  obtain ⟨ct, cw⟩ := tree_copy_spec cfg src.tree hw.tree
  unfold copyF at h
  -- the crew
  by_cases hc1 : (ic.crewAlloc && S.alloc w.allocN) = true
  · simp only [hc1, if_true, Prod.mk.injEq] at h
    obtain ⟨rfl, rfl, rfl⟩ := h
    refine ⟨fun _ => rfl, fun hh => (by cases hh), fun hn _ => ?_⟩
    simp only [Bool.and_eq_true] at hc1; rw [hn] at hc1; cases hc1.2
  · simp only [hc1, Bool.false_eq_true, if_false] at h
    have hw0 : (if ic.crewAlloc = true then w.tickAlloc.addCrews 1 else w).led =
        w.led + ({ crews := if ic.crewAlloc then 1 else 0 } : Ledger) := by
      cases ic.crewAlloc <;> (apply Ledger.ext' <;> simp)
    by_cases h0 : src.tree.count = 0
    · simp only [h0, if_true, Prod.mk.injEq] at h
      obtain ⟨rfl, rfl, rfl⟩ := h
      refine ⟨fun hh => (by cases hh), fun _ => ⟨by simp [Tree.copy, h0], FTree.wf_empty cfg false, ?_⟩, fun _ _ => rfl⟩
      rw [hw0]; apply Ledger.ext' <;> simp [FTree.own, FTree.leaves, FTree.inners, Tree.toList]
    · simp only [h0, if_false] at h
      by_cases hf : S.alloc (if ic.crewAlloc = true then w.tickAlloc.addCrews 1 else w).allocN = true
      · simp only [hf, if_true, Prod.mk.injEq] at h
        obtain ⟨rfl, rfl, rfl⟩ := h
        refine ⟨fun _ => (by cases ic.crewAlloc <;> rfl), fun hh => (by cases hh), fun hn _ => (by rw [hn] at hf; cases hf)⟩
      · simp only [hf, Bool.false_eq_true, if_false] at h
        cases hr : src.tree.root with
        | none =>
          exfalso
          have := hw.tree.count
          simp only [Tree.toList, hr, List.length_nil] at this
          exact h0 this
        | some r =>
          obtain ⟨d, hb⟩ := hw.tree.bal r hr
          simp only [hr] at h
          cases hcn : copyNodeF S cfg r 0 ((if ic.crewAlloc = true then w.tickAlloc.addCrews 1 else w).tickAlloc.addParams 1) with
          | mk t1 rest =>
            obtain ⟨r', ia', w1⟩ := rest
            obtain ⟨a1, a2, a3⟩ := copyNodeF_ok S cfg hb 0 _ t1 r' ia' w1 hcn
            rw [hcn] at h
            cases t1 with
            | true =>
              simp only [Prod.mk.injEq] at h
              obtain ⟨rfl, rfl, rfl⟩ := h
              refine ⟨fun _ => ?_, fun hh => (by cases hh), fun hn hn2 => (by have := a3 hn hn2; cases this)⟩
              simp only [addCrews_led, addParams_led, a1 rfl, tickAlloc_led, hw0]
              cases ic.crewAlloc <;> (apply Ledger.ext' <;> simp <;> omega)
            | false =>
              simp only [Prod.mk.injEq] at h
              obtain ⟨rfl, rfl, rfl⟩ := h
              obtain ⟨b1, b2⟩ := a2 rfl
              have e1 := congrArg Prod.fst b1
              simp only at e1
              have htree : ({ root := some r', count := src.tree.count } : Tree α) = Tree.copy cfg src.tree := by
                simp [Tree.copy, h0, hr, e1]
              refine ⟨fun hh => (by cases hh), fun _ => ⟨htree, ⟨by show Tree.WF cfg _; rw [htree]; exact cw, fun _ => rfl⟩, ?_⟩,
                fun _ _ => rfl⟩
              rw [b2]
              simp only [addParams_led, tickAlloc_led, hw0]
              apply Ledger.ext' <;> simp [addTree, FTree.own, FTree.leaves, FTree.inners, Tree.toList, size] <;> omega

end Momo.BTreeF
