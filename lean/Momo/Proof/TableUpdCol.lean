import Momo.Proof.TableUpdate
/-!
  C07, table level, part 5: the single-column update (`DataIndexes::UpdateRaw(raw, offset, item, assigner)`,
  `pvTryUpdate(rowRef, column, item)`). Every index over the column first adds the raw under its new key
  (`HashMixedKey`) and then looks the raw up by its *old* key to remove it. That lookup can return the entry just added
  (same raw, whose values still read as the old key): finding F9. Under the hypothesis `NoF9` (it does not) the
  invariant is kept, refused / failed updates leave the table unchanged.
-/
namespace Momo.Table
open List

/-! ### the store after `row[col] = v` -/

theorem item_mixVals_same (vals : List Nat) (col v : Nat) (h : col < vals.length) : item (mixVals vals col v) col = v := by
  unfold item mixVals
  rw [getD_eq_getElem?_getD, getElem?_set_self h]; rfl

theorem item_mixVals_other (vals : List Nat) (col v c : Nat) (h : c ≠ col) : item (mixVals vals col v) c = item vals c := by
  unfold item mixVals
  rw [getD_eq_getElem?_getD, getD_eq_getElem?_getD, getElem?_set_ne (Ne.symm h)]

theorem keyEq_mixVals_left (cols : List Nat) (vals : List Nat) (col v : Nat) (h : col ∉ cols) (w : List Nat) :
    keyEq cols (mixVals vals col v) w = keyEq cols vals w := by
  apply Bool.eq_iff_iff.mpr
  rw [keyEq_iff, keyEq_iff]
  constructor
  · intro hh c hc; rw [← hh c hc, item_mixVals_other _ _ _ _ (fun e : c = col => h (e ▸ hc))]
  · intro hh c hc; rw [← hh c hc, item_mixVals_other _ _ _ _ (fun e : c = col => h (e ▸ hc))]

theorem keyEq_mixVals_self (cols : List Nat) (vals : List Nat) (col v : Nat) (h : col ∉ cols) :
    keyEq cols (mixVals vals col v) vals = true := by
  rw [keyEq_mixVals_left cols vals col v h]; exact keyEq_refl _ _

/-- the same raws, the values of `raw` possibly changed -/
abbrev RelX (raw : Nat) (a b : Row) : Prop := b.id = a.id ∧ b.addr = a.addr ∧ b.num = a.num ∧ (a.id ≠ raw → b.vals = a.vals)

theorem ids_of_relX {raw : Nat} {st st' : Store} (h : Forall₂ (RelX raw) st st') : ids st' = ids st := by
  unfold ids
  induction h with
  | nil => rfl
  | cons hab _ ih => simp only [map_cons]; rw [hab.1, ih]

theorem addrs_of_relX {raw : Nat} {st st' : Store} (h : Forall₂ (RelX raw) st st') : st'.map (·.addr) = st.map (·.addr) := by
  induction h with
  | nil => rfl
  | cons hab _ ih => simp only [map_cons]; rw [hab.2.1, ih]

theorem rowOf_of_relX {raw : Nat} {st st' : Store} (h : Forall₂ (RelX raw) st st') {x : Nat} (hx : x ≠ raw) :
    (rowOf st' x).map (fun y => (y.vals, y.addr)) = (rowOf st x).map (fun y => (y.vals, y.addr)) := by
  unfold rowOf
  induction h with
  | nil => rfl
  | @cons a b l1 l2 hab _ ih =>
    rw [find?_cons, find?_cons, hab.1]
    by_cases hax : a.id = x
    · have : (a.id == x) = true := by simp [hax]
      rw [this]
      simp [hab.2.1, hab.2.2.2 (by rw [hax]; exact hx)]
    · have : (a.id == x) = false := by simp [hax]
      rw [this]; exact ih

/-- the rows with the values of row `n` replaced -/
def setVals (st : Store) (n : Nat) (vals : List Nat) : Store :=
  match st[n]? with
  | some r => st.set n { r with vals := vals }
  | none => st

section setVals
variable {st : Store} (hnd : (ids st).Nodup) {n : Nat} {r : Row} (hr : st[n]? = some r) (w : List Nat)
include hr

theorem setVals_eq : setVals st n w = st.set n { r with vals := w } := by unfold setVals; rw [hr]

theorem setVals_rel : Forall₂ (RelX r.id) st (setVals st n w) := by
  obtain ⟨hn, hrn⟩ := List.getElem?_eq_some_iff.mp hr
  rw [setVals_eq hr, set_eq_take_append_cons_drop, if_pos hn]
  conv_lhs => rw [← take_append_drop n st, List.drop_eq_getElem_cons hn, hrn]
  refine rel_append (forall₂_same.mpr (fun _ _ => ⟨rfl, rfl, rfl, fun _ => rfl⟩)) (Forall₂.cons ?_ (forall₂_same.mpr (fun _ _ => ⟨rfl, rfl, rfl, fun _ => rfl⟩)))
  exact ⟨rfl, rfl, rfl, fun h => absurd rfl h⟩

theorem ids_setVals : ids (setVals st n w) = ids st := ids_of_relX (setVals_rel hr w)

theorem addrs_setVals : (setVals st n w).map (·.addr) = st.map (·.addr) := addrs_of_relX (setVals_rel hr w)

theorem rowOf_setVals_other {x : Nat} (hx : x ≠ r.id) :
    (rowOf (setVals st n w) x).map (fun y => (y.vals, y.addr)) = (rowOf st x).map (fun y => (y.vals, y.addr)) :=
  rowOf_of_relX (setVals_rel hr w) hx

theorem valsOf_setVals_other {x : Nat} (hx : x ≠ r.id) : valsOf (setVals st n w) x = valsOf st x := by
  have := rowOf_setVals_other hr w hx
  unfold valsOf
  cases h1 : rowOf (setVals st n w) x <;> cases h2 : rowOf st x <;> rw [h1, h2] at this <;> simp at this ⊢
  exact this.1

theorem addrOf_setVals_other {x : Nat} (hx : x ≠ r.id) : addrOf (setVals st n w) x = addrOf st x := by
  have := rowOf_setVals_other hr w hx
  unfold addrOf
  cases h1 : rowOf (setVals st n w) x <;> cases h2 : rowOf st x <;> rw [h1, h2] at this <;> simp at this ⊢
  exact this.2

include hnd

theorem rowOf_setVals_self : rowOf (setVals st n w) r.id = some { r with vals := w } := by
  obtain ⟨hn, hrn⟩ := List.getElem?_eq_some_iff.mp hr
  have hnd' : (ids (setVals st n w)).Nodup := by rw [ids_setVals hr]; exact hnd
  have hmem : ({ r with vals := w } : Row) ∈ setVals st n w := by
    rw [setVals_eq hr]; exact mem_set hn _
  exact rowOf_mem hnd' hmem

theorem valsOf_setVals_self : valsOf (setVals st n w) r.id = w := by
  unfold valsOf; rw [rowOf_setVals_self hnd hr]

theorem addrOf_setVals (x : Nat) : addrOf (setVals st n w) x = addrOf st x := by
  by_cases hx : x = r.id
  · subst hx
    obtain ⟨hn, hrn⟩ := List.getElem?_eq_some_iff.mp hr
    unfold addrOf
    rw [rowOf_setVals_self hnd hr, rowOf_mem hnd (hrn ▸ getElem_mem hn)]
  · exact addrOf_setVals_other hr w hx

end setVals

/-! ### an index over columns that do not change -/

theorem UInv_cols_congr {acc : Acc} {st st' : Store} {u : UIdx} (hu : UInv acc st u) (hids : ids st' = ids st)
    (hv : ∀ x, keyEq u.cols (valsOf st' x) (valsOf st x) = true) : UInv acc st' u := by
  refine ⟨hu.colsNodup, hu.noPos, by rw [hids]; exact hu.perm, ?_, ?_⟩
  · intro e he; rw [hu.hash e he]; exact (hashVals_congr acc u.cols _ _ (hv e.id)).symm
  · intro x hx y hy hk
    rw [hids] at hx hy
    apply hu.uniq x hx y hy
    exact keyEq_trans _ _ _ _ (keyEq_trans _ _ _ _ (by rw [keyEq_symm]; exact hv x) hk) (hv y)

theorem MInv_cols_congr {acc : Acc} {st st' : Store} {m : MIdx} (hm : MInv acc st m) (hids : ids st' = ids st)
    (hv : ∀ x, keyEq m.cols (valsOf st' x) (valsOf st x) = true) (ha : ∀ x, addrOf st' x = addrOf st x) : MInv acc st' m := by
  have tr : ∀ x y, keyEq m.cols (valsOf st' x) (valsOf st' y) = keyEq m.cols (valsOf st x) (valsOf st y) := by
    intro x y
    rw [keyEq_congr_left m.cols _ _ _ (hv x), keyEq_symm, keyEq_congr_left m.cols _ _ _ (hv y), keyEq_symm]
  refine ⟨hm.colsNodup, hm.noPos, by rw [hids]; exact hm.perm, ?_, ?_, ?_, ?_⟩
  · intro g hg; rw [hm.hash g hg]; exact (hashVals_congr acc m.cols _ _ (hv g.key)).symm
  · intro g hg x hx; rw [tr]; exact hm.same g hg x hx
  · refine hm.distinct.imp ?_
    intro a b hab; rw [tr]; exact hab
  · intro g hg
    exact (SegSorted_congr (fun x _ => ha x)).mpr (hm.sorted g hg)


/-! ### one unique index under the single-column `UpdateRaw` -/

theorem UIdx.noPos_accept (u : UIdx) (h : u.posAdd = none ∧ u.posRem = none) : u.acceptAdd.acceptRemove = u := by
  unfold UIdx.acceptAdd UIdx.acceptRemove
  cases u with
  | mk c e pa pr => simp only at h; obtain ⟨h1, h2⟩ := h; subst h1 h2; rfl

theorem UIdx.noPos_reject (u : UIdx) (h : u.posAdd = none ∧ u.posRem = none) : u.rejectAdd.rejectRemove = u := by
  unfold UIdx.rejectAdd UIdx.rejectRemove
  cases u with
  | mk c e pa pr => simp only at h; obtain ⟨h1, h2⟩ := h; subst h1 h2; rfl

theorem eraseIdx_perm_set {α : Type} (l : List α) (n : Nat) (x : α) (hn : n < l.length) : (l.eraseIdx n ++ [x]).Perm (l.set n x) := by
  rw [eraseIdx_eq_take_drop_succ, set_eq_take_append_cons_drop, if_pos hn, append_assoc]
  exact Perm.append_left _ (perm_append_singleton _ _)

section colU
variable {vis : Vis} (hc : Complete vis) (acc : Acc) {st : Store} (hnd : (ids st).Nodup) {n : Nat} {r : Row}
  (hrn : st[n]? = some r) (col v : Nat) (hcol : col < r.vals.length) (hv : item r.vals col ≠ v)
include hc hnd hrn hcol hv

theorem UIdx.addMixed_cases (u : UIdx) (hu : UInv acc st u) (hcc : col ∈ u.cols) (fail : Bool) :
    (∃ x ∈ st, x.id ≠ r.id ∧ keyEq u.cols (mixVals r.vals col v) x.vals = true ∧
        u.addMixed vis acc st r.id col v fail = some (u, x.id)) ∨
    ((∀ x ∈ st, keyEq u.cols (mixVals r.vals col v) x.vals = false) ∧ u.findMixed vis acc st r.id col v = none ∧
        u.addMixed vis acc st r.id col v fail = if fail then none else some (uAdded acc u r.id (mixVals r.vals col v), r.id)) := by
  obtain ⟨hn, hrn'⟩ := List.getElem?_eq_some_iff.mp hrn
  have hrmem : r ∈ st := hrn' ▸ getElem_mem hn
  have hvr : valsOf st r.id = r.vals := valsOf_mem hnd hrmem
  unfold UIdx.addMixed UIdx.findMixed
  rw [hvr]
  cases hf : u.find vis (hashVals acc u.cols (mixVals r.vals col v)) (fun id => keyEq u.cols (mixVals r.vals col v) (valsOf st id)) with
  | some p =>
    left
    obtain ⟨hp, hk⟩ := u.find_some (mixVals r.vals col v) (valsOf st) _ hf
    have hin : u.idAt p ∈ ids st := hu.perm.mem_iff.mp (u.idAt_mem hp)
    obtain ⟨x, hx, hxid⟩ := mem_ids_iff.mp hin
    rw [← hxid, valsOf_mem hnd hx] at hk
    refine ⟨x, hx, ?_, hk, by simp [hxid]⟩
    intro e
    have hxr : x = r := by
      have h1 := rowOf_mem hnd hx
      have h2 := rowOf_mem hnd hrmem
      rw [e, h2] at h1; exact (Option.some.inj h1).symm
    rw [hxr, keyEq_iff] at hk
    have := hk col hcc
    rw [item_mixVals_same _ _ _ hcol] at this
    exact hv this.symm
  | none =>
    right
    have hn' := UIdx.find_none hc acc u (mixVals r.vals col v) (valsOf st) hu.hash hf
    refine ⟨?_, rfl, by simp [uAdded]⟩
    intro x hx
    have hxin : x.id ∈ u.ents.map (·.id) := hu.perm.mem_iff.mpr (mem_ids_iff.mpr ⟨x, hx, rfl⟩)
    obtain ⟨e, he, hex⟩ := mem_map.mp hxin
    have := hn' e he
    rw [hex, valsOf_mem hnd hx] at this
    exact this

omit hcol hv in
/-- no row has the new key, and the lookup of the old key does not return the entry just added: the new entry stays,
    the old one goes -/
theorem UIdx.updCol_new (u : UIdx) (hu : UInv acc st u) (hno : ∀ x ∈ st, keyEq u.cols (mixVals r.vals col v) x.vals = false)
    (hF9 : (uAdded acc u r.id (mixVals r.vals col v)).findRaw vis acc st r.id ≠ some u.ents.length) :
    UInv acc (setVals st n (mixVals r.vals col v))
      ((uAdded acc u r.id (mixVals r.vals col v)).prepareRemove vis acc st r.id).acceptAdd.acceptRemove ∧
    ((uAdded acc u r.id (mixVals r.vals col v)).prepareRemove vis acc st r.id).rejectAdd.rejectRemove = u := by
  obtain ⟨hn, hrn'⟩ := List.getElem?_eq_some_iff.mp hrn
  have hrmem : r ∈ st := hrn' ▸ getElem_mem hn
  have hvr : valsOf st r.id = r.vals := valsOf_mem hnd hrmem
  have hrin : r.id ∈ ids st := mem_ids_iff.mpr ⟨r, hrmem, rfl⟩
  have hnde : (u.ents.map (·.id)).Nodup := hu.perm.nodup_iff.mpr hnd
  have hustruct : u = ⟨u.cols, u.ents, none, none⟩ := by
    have h1 := hu.noPos.1
    have h2 := hu.noPos.2
    cases u with
    | mk c e pa pr => simp only at h1 h2; subst h1 h2; rfl
  have hadded : uAdded acc u r.id (mixVals r.vals col v) =
      ⟨u.cols, u.ents ++ [⟨r.id, hashVals acc u.cols (mixVals r.vals col v)⟩], some u.ents.length, none⟩ := by
    unfold uAdded; rw [hu.noPos.2]
  -- the lookup of the old key finds the old entry
  obtain ⟨q, hq, hqid, hfind⟩ : ∃ q, ∃ (hq : q < u.ents.length), u.ents[q].id = r.id ∧
      (uAdded acc u r.id (mixVals r.vals col v)).findRaw vis acc st r.id = some q := by
    have hlenE : (uAdded acc u r.id (mixVals r.vals col v)).ents.length = u.ents.length + 1 := by
      unfold uAdded; simp
    cases hf : (uAdded acc u r.id (mixVals r.vals col v)).findRaw vis acc st r.id with
    | none =>
      exfalso
      obtain ⟨e, he, heid⟩ := mem_map.mp (hu.perm.mem_iff.mpr hrin)
      obtain ⟨i, hi, rfl⟩ := getElem_of_mem he
      unfold UIdx.findRaw UIdx.find at hf
      have hi' : i < (uAdded acc u r.id (mixVals r.vals col v)).ents.length := by rw [hlenE]; omega
      have hget : (uAdded acc u r.id (mixVals r.vals col v)).ents[i] = u.ents[i] := by
        unfold uAdded; simp only; exact getElem_append_left hi
      have := findPos_none hc hf i (by
        rw [getElem?_map, getElem?_eq_getElem hi', hget]
        show some u.ents[i].h0 = some _
        rw [hu.hash _ (getElem_mem hi), heid]; rfl)
      rw [UIdx.idAt_lt _ hi', hget, heid] at this
      have this' : keyEq u.cols (valsOf st r.id) (valsOf st r.id) = false := this
      rw [keyEq_refl] at this'
      exact absurd this' (by simp)
    | some q =>
      have hq' := UIdx.find_some' _ _ _ hf
      rw [hlenE] at hq'
      have hqne : q ≠ u.ents.length := fun e => hF9 (by rw [hf, e])
      have hq : q < u.ents.length := by omega
      have hget : (uAdded acc u r.id (mixVals r.vals col v)).idAt q = u.ents[q].id := by
        rw [UIdx.idAt_lt _ (by rw [hlenE]; omega)]
        unfold uAdded; simp only; rw [getElem_append_left hq]
      refine ⟨q, hq, ?_, rfl⟩
      have hk := hq'.2
      rw [hget] at hk
      exact (hu.uniq r.id hrin _ (hu.perm.mem_iff.mp (mem_map_of_mem (getElem_mem hq))) hk).symm
  constructor
  · have e : ((uAdded acc u r.id (mixVals r.vals col v)).prepareRemove vis acc st r.id).acceptAdd.acceptRemove =
        ⟨u.cols, u.ents.eraseIdx q ++ [⟨r.id, hashVals acc u.cols (mixVals r.vals col v)⟩], none, none⟩ := by
      unfold UIdx.prepareRemove
      rw [hfind, hadded]
      simp only [UIdx.acceptAdd, UIdx.acceptRemove]
      rw [eraseIdx_append_of_lt_length hq]
    rw [e]
    -- the index without the old entry, then with the new one
    have hrem : UInv acc (keepRows st (fun x => x != r.id)) ⟨u.cols, u.ents.eraseIdx q, none, none⟩ := by
      refine UInv_filter acc hu (u' := ⟨u.cols, u.ents.eraseIdx q, none, none⟩) (fun x => x != r.id) rfl ⟨rfl, rfl⟩ ?_
      show (u.ents.eraseIdx q).Perm _
      rw [eraseIdx_eq_filter_of_nodup_map (·.id) u.ents q hq hnde, hqid]
    have hst0 : keepRows st (fun x => x != r.id) = st.eraseIdx n := by
      rw [← hrn']; exact keepRows_ne_eq_eraseIdx hnd hn
    have hnd0 := keepRows_nodup hnd (fun x => x != r.id)
    have hr0 : ({ r with vals := mixVals r.vals col v } : Row).id ∉ ids (keepRows st (fun x => x != r.id)) := by
      rw [ids_keepRows]; simp
    have hadd := UInv_add acc hnd0 hr0 _ hrem (fun x hx => hno x (mem_filter.mp hx).1)
    have hsim : StoreSim (keepRows st (fun x => x != r.id) ++ [{ r with vals := mixVals r.vals col v }])
        (setVals st n (mixVals r.vals col v)) := by
      apply storeSim_of_perm
      · rw [setVals_eq hrn, hst0]; exact eraseIdx_perm_set st n _ hn
      · rw [ids_append]
        exact nodup_append.mpr ⟨hnd0, by simp, by intro a ha b hb; simp at hb; subst hb; exact fun e => hr0 (e ▸ ha)⟩
    exact UInv_sim hsim hadd
  · unfold UIdx.prepareRemove
    rw [hfind, hadded]
    simp only [UIdx.rejectAdd, UIdx.rejectRemove]
    rw [eraseIdx_append_of_length_le (Nat.le_refl _)]
    simp only [Nat.sub_self, eraseIdx_cons_zero, append_nil]
    exact hustruct.symm

end colU

/-! ### one multi index under the single-column `UpdateRaw` -/

theorem MIdx.keyAt_eq_map (m : MIdx) (i : Nat) : m.keyAt i = (m.groups.map (·.key)).getD i 0 := by
  unfold MIdx.keyAt
  rw [getD_eq_getElem?_getD, getD_eq_getElem?_getD, getElem?_map]
  cases m.groups[i]? <;> rfl

theorem MIdx.find_congr_keys (vis : Vis) (m m' : MIdx) (h : Nat) (pred : Nat → Bool)
    (hk : m'.groups.map (·.key) = m.groups.map (·.key)) (hh : m'.groups.map (·.h0) = m.groups.map (·.h0)) :
    m'.find vis h pred = m.find vis h pred := by
  unfold MIdx.find
  rw [hh]
  congr 1
  funext i
  rw [m'.keyAt_eq_map, m.keyAt_eq_map, hk]

theorem MIdx.findRaw_congr_keys (vis : Vis) (acc : Acc) (st : Store) (m m' : MIdx) (raw : Nat) (hc : m'.cols = m.cols)
    (hk : m'.groups.map (·.key) = m.groups.map (·.key)) (hh : m'.groups.map (·.h0) = m.groups.map (·.h0)) :
    m'.findRaw vis acc st raw = m.findRaw vis acc st raw := by
  unfold MIdx.findRaw
  rw [hc]; exact MIdx.find_congr_keys vis m m' _ _ hk hh

theorem MIdx.noPos_accept (st : Store) (raw : Nat) (m : MIdx) (h : m.kAdd = none ∧ m.kRem = none) :
    m.acceptAdd.acceptRemove st raw = m := by
  unfold MIdx.acceptAdd MIdx.acceptRemove
  cases m with
  | mk c g a k => simp only at h; obtain ⟨h1, h2⟩ := h; subst h1 h2; rfl

section colM
variable {vis : Vis} (hc : Complete vis) (acc : Acc) {st : Store} (hnd : (ids st).Nodup) (hai : AddrInj st) {n : Nat} {r : Row}
  (hrn : st[n]? = some r) (col v : Nat) (hcol : col < r.vals.length) (hv : item r.vals col ≠ v)
include hc hnd hrn hcol hv

theorem MIdx.addMixed_cases (m : MIdx) (hm : MInv acc st m) (hcc : col ∈ m.cols) :
    (∃ A g B, m.groups = A ++ g :: B ∧ keyEq m.cols (mixVals r.vals col v) (valsOf st g.key) = true ∧ r.id ∉ g.members ∧
        ∀ fail, m.addMixed vis acc st r.id col v fail =
          if fail then ({ m with groups := A ++ { g with raws := pvAddSort (addrOf st) g.raws } :: B }, false)
          else ({ m with groups := A ++ { g with raws := pvAddSort (addrOf st) g.raws ++ [r.id] } :: B,
                         kAdd := some A.length }, true)) ∨
    ((∀ g ∈ m.groups, keyEq m.cols (mixVals r.vals col v) (valsOf st g.key) = false) ∧
        m.findMixed vis acc st r.id col v = none ∧
        ∀ fail, m.addMixed vis acc st r.id col v fail =
          if fail then (m, false) else (mAddedNew acc m r.id (mixVals r.vals col v), true)) := by
  obtain ⟨hn, hrn'⟩ := List.getElem?_eq_some_iff.mp hrn
  have hrmem : r ∈ st := hrn' ▸ getElem_mem hn
  have hvr : valsOf st r.id = r.vals := valsOf_mem hnd hrmem
  have hrin : r.id ∈ ids st := mem_ids_iff.mpr ⟨r, hrmem, rfl⟩
  unfold MIdx.addMixed MIdx.findMixed
  rw [hvr]
  cases hf : m.find vis (hashVals acc m.cols (mixVals r.vals col v)) (fun id => keyEq m.cols (mixVals r.vals col v) (valsOf st id)) with
  | some p =>
    left
    obtain ⟨hp, hk⟩ := m.find_some (mixVals r.vals col v) (valsOf st) _ hf
    obtain ⟨A, B, hsplit, hA⟩ := split_at m.groups p hp
    subst hA
    have hkey : m.keyAt A.length = m.groups[A.length].key := m.keyAt_lt hp
    have hgm : m.groups[A.length] ∈ m.groups := getElem_mem hp
    refine ⟨A, _, B, hsplit, by rw [← hkey]; exact hk, ?_, ?_⟩
    · intro hmem
      have h1 := hm.member_key hgm hmem
      rw [hkey] at hk
      have := keyEq_trans _ _ _ _ hk h1
      rw [hvr, keyEq_iff] at this
      have := this col hcc
      rw [item_mixVals_same _ _ _ hcol] at this
      exact hv this.symm
    · intro fail
      unfold MIdx.pvAdd
      cases fail <;> simp <;> exact modify_split m.groups A B _ _ hsplit
  | none =>
    right
    have hn' := MIdx.find_none hc acc m (mixVals r.vals col v) (valsOf st) hm.hash hf
    exact ⟨hn', rfl, fun fail => by cases fail <;> simp [mAddedNew]⟩

omit hcol hv in
include hai in
/-- no group has the new key, and the lookup of the old key does not return the group just added -/
theorem MIdx.updCol_newgroup (m : MIdx) (hm : MInv acc st m)
    (hno : ∀ g ∈ m.groups, keyEq m.cols (mixVals r.vals col v) (valsOf st g.key) = false)
    (hF9 : (mAddedNew acc m r.id (mixVals r.vals col v)).findRaw vis acc st r.id ≠ some m.groups.length) :
    MInv acc (setVals st n (mixVals r.vals col v))
      (((mAddedNew acc m r.id (mixVals r.vals col v)).prepareRemove vis acc st r.id).acceptAdd.acceptRemove st r.id) ∧
    ((mAddedNew acc m r.id (mixVals r.vals col v)).prepareRemove vis acc st r.id).rejUpd = m := by
  obtain ⟨hn, hrn'⟩ := List.getElem?_eq_some_iff.mp hrn
  have hrmem : r ∈ st := hrn' ▸ getElem_mem hn
  have hvr : valsOf st r.id = r.vals := valsOf_mem hnd hrmem
  have hrin : r.id ∈ ids st := mem_ids_iff.mpr ⟨r, hrmem, rfl⟩
  have hlenE : (mAddedNew acc m r.id (mixVals r.vals col v)).groups.length = m.groups.length + 1 := by
    unfold mAddedNew; simp
  have hgetE : ∀ i (hi : i < m.groups.length), (mAddedNew acc m r.id (mixVals r.vals col v)).groups[i]'(by rw [hlenE]; omega) = m.groups[i] := by
    intro i hi; unfold mAddedNew; simp only; exact getElem_append_left hi
  -- the lookup of the old key finds the old group
  obtain ⟨q, hq, hqmem, hfind⟩ : ∃ q, ∃ (hq : q < m.groups.length), r.id ∈ m.groups[q].members ∧
      (mAddedNew acc m r.id (mixVals r.vals col v)).findRaw vis acc st r.id = some q := by
    cases hf : (mAddedNew acc m r.id (mixVals r.vals col v)).findRaw vis acc st r.id with
    | none =>
      exfalso
      obtain ⟨g, hg, hxg⟩ := hm.group_of hrin
      obtain ⟨i, hi, rfl⟩ := getElem_of_mem hg
      unfold MIdx.findRaw MIdx.find at hf
      have hi' : i < (mAddedNew acc m r.id (mixVals r.vals col v)).groups.length := by rw [hlenE]; omega
      have hkk := hm.member_key (getElem_mem hi) hxg
      have := findPos_none hc hf i (by
        rw [getElem?_map, getElem?_eq_getElem hi', hgetE i hi]
        show some m.groups[i].h0 = some _
        rw [hm.hash _ (getElem_mem hi), hashVals_congr acc m.cols _ _ hkk]; rfl)
      rw [MIdx.keyAt_lt _ hi', hgetE i hi] at this
      have this' : keyEq m.cols (valsOf st r.id) (valsOf st m.groups[i].key) = false := this
      rw [keyEq_symm, hkk] at this'
      exact absurd this' (by simp)
    | some q =>
      have hq' := MIdx.find_some' _ _ _ hf
      rw [hlenE] at hq'
      have hqne : q ≠ m.groups.length := fun e => hF9 (by rw [hf, e])
      have hq : q < m.groups.length := by omega
      refine ⟨q, hq, ?_, rfl⟩
      have hk := hq'.2
      rw [MIdx.keyAt_lt _ (by rw [hlenE]; omega), hgetE q hq] at hk
      have hk' : keyEq m.cols (valsOf st r.id) (valsOf st m.groups[q].key) = true := hk
      rw [← m.keyAt_lt hq] at hk'
      exact hm.group_at acc hrin hq hk'
  obtain ⟨A, B, hsplit, hA⟩ := split_at m.groups q hq
  subst hA
  have hgm : m.groups[A.length] ∈ m.groups := getElem_mem hq
  have hmstruct : m = ⟨m.cols, m.groups, none, none⟩ := by
    have h1 := hm.noPos.1
    have h2 := hm.noPos.2
    cases m with
    | mk c g a k => simp only at h1 h2; subst h1 h2; rfl
  constructor
  · -- the final state
    have hex := acceptRemoveGroup_exact (addrOf st) m.groups[A.length] r.id (hm.members_addr_nodup hnd hai hgm)
      (hm.sorted _ hgm) hqmem
    have e : ((mAddedNew acc m r.id (mixVals r.vals col v)).prepareRemove vis acc st r.id).acceptAdd.acceptRemove st r.id =
        ⟨m.cols, (A.map some ++ acceptRemoveGroup (addrOf st) m.groups[A.length] r.id :: B.map some).filterMap id ++
          [⟨r.id, hashVals acc m.cols (mixVals r.vals col v), []⟩], none, none⟩ := by
      unfold MIdx.prepareRemove
      rw [hfind]
      unfold mAddedNew MIdx.acceptAdd MIdx.acceptRemove
      simp only
      have hgd : (m.groups ++ [Group.mk r.id (hashVals acc m.cols (mixVals r.vals col v)) []]).getD A.length default = m.groups[A.length] := by
        rw [getD_eq_getElem?_getD, getElem?_append_left hq, getElem?_eq_getElem hq]; rfl
      rw [hgd]
      cases ho : acceptRemoveGroup (addrOf st) m.groups[A.length] r.id with
      | none =>
        simp only [filterMap_append, filterMap_id_map_some, filterMap_cons_none (f := id) rfl]
        rw [eraseIdx_append_of_lt_length hq]
        conv_lhs => rw [hsplit]
        rw [eraseIdx_append_of_length_le (Nat.le_refl _)]
        simp
      | some g' =>
        simp only [filterMap_append, filterMap_id_map_some, filterMap_cons_some (f := id) rfl]
        rw [set_append_left _ _ hq]
        conv_lhs => rw [hsplit]
        rw [set_append_right _ _ (Nat.le_refl _)]
        simp
    rw [e]
    have hgnd := hm.members_nodup hnd hgm
    have hdis : ∀ x ∈ A ++ B, ∀ y ∈ x.members, y ∉ m.groups[A.length].members := by
      apply other_groups_disjoint
      rw [← hsplit]; exact hm.perm.nodup_iff.mpr hnd
    have haddr : ∀ l : List Nat, SegSorted (addrOf st) l → SegSorted (addrOf (setVals st n (mixVals r.vals col v))) l :=
      fun l h => (SegSorted_congr (fun x _ => (addrOf_setVals hnd hrn _ x).symm)).mp h
    have hsame : ∀ x ∈ A ++ B, GroupStep (addrOf (setVals st n (mixVals r.vals col v))) (fun x => x != r.id) (fun _ => []) x (some x) := by
      intro x hx
      have hxm : x ∈ m.groups := by
        rw [hsplit]; rcases mem_append.mp hx with h | h
        · exact mem_append_left _ h
        · exact mem_append_right _ (mem_cons_of_mem _ h)
      refine ⟨?_, haddr _ (hm.sorted x hxm), rfl⟩
      rw [append_nil, filter_eq_self.mpr]
      intro y hy
      have : y ≠ r.id := fun e => hdis x hx y hy (e ▸ hqmem)
      simpa using this
    have hR : Forall₂ (GroupStep (addrOf (setVals st n (mixVals r.vals col v))) (fun x => x != r.id) (fun _ => [])) m.groups
        (A.map some ++ acceptRemoveGroup (addrOf st) m.groups[A.length] r.id :: B.map some) := by
      conv => arg 2; rw [hsplit]
      apply rel_append
      · rw [forall₂_map_right_iff]
        exact forall₂_same.mpr (fun x hx => hsame x (mem_append_left _ hx))
      · refine Forall₂.cons ?_ ?_
        · cases ho : acceptRemoveGroup (addrOf st) m.groups[A.length] r.id with
          | none =>
            rw [ho] at hex
            exact ⟨by rw [hex]; simp, rfl⟩
          | some g' =>
            rw [ho] at hex
            exact ⟨by rw [append_nil, ← hgnd.erase_eq_filter]; exact hex.1, haddr _ hex.2.1, hex.2.2⟩
        · rw [forall₂_map_right_iff]
          exact forall₂_same.mpr (fun x hx => hsame x (mem_append_right _ hx))
    have hvself : valsOf (setVals st n (mixVals r.vals col v)) r.id = mixVals r.vals col v := valsOf_setVals_self hnd hrn _
    refine MInv_transform acc hm (fun x => x != r.id) (fun _ => []) [⟨r.id, hashVals acc m.cols (mixVals r.vals col v), []⟩] _
      ?_ hR (by simp) ?_ ?_ (by simp) ?_
    · intro x _ hk
      exact valsOf_setVals_other hrn _ (by simpa using hk)
    · intro e he; simp at he; subst he; exact ⟨rfl, by rw [hvself]⟩
    · intro g hg e he
      simp at he; subst he
      simp only
      rw [hvself, keyEq_symm]; exact hno g hg
    · rw [ids_setVals hrn]
      simp only [append_nil, map_cons, map_nil]
      rw [← filter_flatMap]
      have h1 : (ids st).Perm (r.id :: (ids st).erase r.id) := perm_cons_erase hrin
      rw [hnd.erase_eq_filter] at h1
      refine h1.trans ?_
      refine (perm_append_singleton _ _).symm.trans (Perm.append_right _ ?_)
      exact (hm.perm.filter _).symm
  · rw [MIdx.rejUpd_prepare, MIdx.rejUpd_of_kRem _ (by unfold mAddedNew; exact hm.noPos.2)]
    exact rejectAdd_mAddedNew acc m r.id _ hm.noPos.1

end colM

section colM2
variable {vis : Vis} (hc : Complete vis) (acc : Acc) {st : Store} (hnd : (ids st).Nodup) (hai : AddrInj st) {n : Nat} {r : Row}
  (hrn : st[n]? = some r) (col v : Nat)
include hc hnd hai hrn

/-- a group with the new key exists: the raw joins it and leaves its old group -/
theorem MIdx.updCol_found (m : MIdx) (hm : MInv acc st m) (A B : List Group) (g : Group) (hsplit : m.groups = A ++ g :: B)
    (hk : keyEq m.cols (mixVals r.vals col v) (valsOf st g.key) = true) (hnot : r.id ∉ g.members) :
    MInv acc (setVals st n (mixVals r.vals col v))
      ((({ m with groups := A ++ { g with raws := pvAddSort (addrOf st) g.raws ++ [r.id] } :: B, kAdd := some A.length } : MIdx).prepareRemove
          vis acc st r.id).acceptAdd.acceptRemove st r.id) ∧
    (({ m with groups := A ++ { g with raws := pvAddSort (addrOf st) g.raws ++ [r.id] } :: B, kAdd := some A.length } : MIdx).prepareRemove
          vis acc st r.id).rejUpd = { m with groups := A ++ { g with raws := pvAddSort (addrOf st) g.raws } :: B } ∧
    MIdx.rejUpd { m with groups := A ++ { g with raws := pvAddSort (addrOf st) g.raws } :: B } =
      { m with groups := A ++ { g with raws := pvAddSort (addrOf st) g.raws } :: B } ∧
    MEquiv m { m with groups := A ++ { g with raws := pvAddSort (addrOf st) g.raws } :: B } ∧
    MInv acc st { m with groups := A ++ { g with raws := pvAddSort (addrOf st) g.raws } :: B } := by
  obtain ⟨hn, hrn'⟩ := List.getElem?_eq_some_iff.mp hrn
  have hrmem : r ∈ st := hrn' ▸ getElem_mem hn
  have hvr : valsOf st r.id = r.vals := valsOf_mem hnd hrmem
  have hrin : r.id ∈ ids st := mem_ids_iff.mpr ⟨r, hrmem, rfl⟩
  have hgm : g ∈ m.groups := by rw [hsplit]; simp
  have hS := pvAddSort_perm (addrOf st) g.raws
  have hndA : (g.raws.map (addrOf st)).Nodup := by
    have := hm.members_addr_nodup hnd hai hgm
    unfold Group.members at this
    rw [map_cons, nodup_cons] at this
    exact this.2
  have hsA : SegSorted (addrOf st) g.raws := hm.sorted g hgm
  have hmstruct : m = ⟨m.cols, m.groups, none, none⟩ := by
    have h1 := hm.noPos.1
    have h2 := hm.noPos.2
    cases m with
    | mk c g a k => simp only at h1 h2; subst h1 h2; rfl
  -- the reject / failure state
  have hrej : MEquiv m { m with groups := A ++ { g with raws := pvAddSort (addrOf st) g.raws } :: B } ∧
      MInv acc st { m with groups := A ++ { g with raws := pvAddSort (addrOf st) g.raws } :: B } := by
    refine ⟨⟨rfl, rfl, rfl, ?_⟩, ?_⟩
    · show Forall₂ _ m.groups (A ++ _ :: B)
      rw [hsplit]
      exact forall₂_split _ A B g _ (fun x => ⟨rfl, rfl, Perm.refl _⟩) ⟨rfl, rfl, hS⟩
    · exact MInv_replace_raws acc hm (fun x _ => rfl) (fun x _ => rfl) A B g hsplit _ [] (by simp) (by simpa using hS)
        (by simp) (segSorted_pvAddSort _ _ hndA hsA)
  refine ⟨?_, ?_, MIdx.rejUpd_noPos _ hm.noPos, hrej.1, hrej.2⟩
  · -- accepted
    have hfr : MIdx.findRaw vis acc st ({ m with groups := A ++ { g with raws := pvAddSort (addrOf st) g.raws ++ [r.id] } :: B, kAdd := some A.length } : MIdx) r.id = m.findRaw vis acc st r.id := by
      refine MIdx.findRaw_congr_keys vis acc st m _ r.id rfl ?_ ?_
      · simp only; rw [hsplit]; simp
      · simp only; rw [hsplit]; simp
    obtain ⟨A', gq, B', hsplit', hf, hqmem⟩ := m.findRaw_pos hc acc hm hrin
    have hgqm : gq ∈ m.groups := by rw [hsplit']; simp
    have hex := acceptRemoveGroup_exact (addrOf st) gq r.id (hm.members_addr_nodup hnd hai hgqm) (hm.sorted _ hgqm) hqmem
    have hgqnd := hm.members_nodup hnd hgqm
    have hdisg : ∀ x ∈ A ++ B, ∀ y ∈ x.members, y ∉ g.members := by
      apply other_groups_disjoint; rw [← hsplit]; exact hm.perm.nodup_iff.mpr hnd
    have hdisq : ∀ x ∈ A' ++ B', ∀ y ∈ x.members, y ∉ gq.members := by
      apply other_groups_disjoint; rw [← hsplit']; exact hm.perm.nodup_iff.mpr hnd
    have hkeyg : ∀ x ∈ A ++ B, x.key ≠ g.key := fun x hx e =>
      hdisg x hx x.key (by simp [Group.members]) (by rw [e]; simp [Group.members])
    have hrawq : ∀ x ∈ A' ++ B', r.id ∉ x.members := fun x hx h => hdisq x hx r.id h hqmem
    have haddr : ∀ l : List Nat, SegSorted (addrOf st) l → SegSorted (addrOf (setVals st n (mixVals r.vals col v))) l :=
      fun l h => (SegSorted_congr (fun x _ => (addrOf_setVals hnd hrn _ x).symm)).mp h
    have hvself : valsOf (setVals st n (mixVals r.vals col v)) r.id = mixVals r.vals col v := valsOf_setVals_self hnd hrn _
    -- pointwise: what happens to each group
    have hG : GroupStep (addrOf (setVals st n (mixVals r.vals col v))) (fun x => x != r.id)
        (fun x => if x.key = g.key then [r.id] else []) g (some { g with raws := pvAddSort (addrOf st) g.raws ++ [r.id] }) := by
      refine ⟨?_, haddr _ (segSorted_pvAdd _ _ _ hndA hsA), rfl⟩
      beta_reduce
      rw [if_pos rfl, filter_eq_self.mpr (fun y hy => by have : y ≠ r.id := fun e => hnot (e ▸ hy); simpa using this)]
      unfold Group.members
      simp only [cons_append]
      exact Perm.cons _ (Perm.append_right _ hS)
    have hQ : gq.key ≠ g.key → GroupStep (addrOf (setVals st n (mixVals r.vals col v))) (fun x => x != r.id)
        (fun x => if x.key = g.key then [r.id] else []) gq (acceptRemoveGroup (addrOf st) gq r.id) := by
      intro hne
      cases ho : acceptRemoveGroup (addrOf st) gq r.id with
      | none => rw [ho] at hex; exact ⟨by rw [hex]; simp, by beta_reduce; rw [if_neg hne]⟩
      | some g' =>
        rw [ho] at hex
        exact ⟨by beta_reduce; rw [if_neg hne, append_nil, ← hgqnd.erase_eq_filter]; exact hex.1, haddr _ hex.2.1, hex.2.2⟩
    have hO : ∀ x ∈ m.groups, x.key ≠ g.key → r.id ∉ x.members →
        GroupStep (addrOf (setVals st n (mixVals r.vals col v))) (fun x => x != r.id)
          (fun x => if x.key = g.key then [r.id] else []) x (some x) := by
      intro x hx hne hnr
      refine ⟨?_, haddr _ (hm.sorted x hx), rfl⟩
      beta_reduce
      rw [if_neg hne, append_nil, filter_eq_self.mpr (fun y hy => by have : y ≠ r.id := fun e => hnr (e ▸ hy); simpa using this)]
    -- the remaining hypotheses of the general step
    have finish : ∀ opts, Forall₂ (GroupStep (addrOf (setVals st n (mixVals r.vals col v))) (fun x => x != r.id)
        (fun x => if x.key = g.key then [r.id] else [])) m.groups opts →
        MInv acc (setVals st n (mixVals r.vals col v)) ⟨m.cols, opts.filterMap id, none, none⟩ := by
      intro opts hR
      have := MInv_transform acc hm (fun x => x != r.id) (fun x => if x.key = g.key then [r.id] else []) [] opts
        (fun x _ hkp => valsOf_setVals_other hrn _ (by simpa using hkp)) hR ?_ (by simp) (by simp) (by simp) ?_
      · simpa using this
      · intro x hx y hy
        beta_reduce at hy
        split at hy
        · rename_i hxk
          simp at hy; subst hy
          rw [hxk, hvself, keyEq_symm]; exact hk
        · simp at hy
      · rw [ids_setVals hrn]
        simp only [map_nil, append_nil]
        refine Perm.trans ?_ (flatMap_append_perm m.groups _ _)
        have hadd1 : m.groups.flatMap (fun x => if x.key = g.key then [r.id] else []) = [r.id] := by
          rw [hsplit, flatMap_append, flatMap_cons]
          have hA : A.flatMap (fun x => if x.key = g.key then [r.id] else []) = [] := by
            rw [flatMap_eq_nil_iff]; intro x hx; rw [if_neg (hkeyg x (mem_append_left _ hx))]
          have hB : B.flatMap (fun x => if x.key = g.key then [r.id] else []) = [] := by
            rw [flatMap_eq_nil_iff]; intro x hx; rw [if_neg (hkeyg x (mem_append_right _ hx))]
          rw [hA, hB]; simp
        rw [hadd1, ← filter_flatMap]
        have h1 : (ids st).Perm (r.id :: (ids st).erase r.id) := perm_cons_erase hrin
        rw [hnd.erase_eq_filter] at h1
        refine h1.trans ?_
        refine (perm_append_singleton _ _).symm.trans (Perm.append_right _ ?_)
        exact (hm.perm.filter _).symm
    -- the two orders of the two groups
    have hsp := hsplit.symm.trans hsplit'
    rcases append_eq_append_iff.mp hsp with ⟨a', hA', hrest⟩ | ⟨c', hA, hrest⟩
    · -- the new group comes first
      cases a' with
      | nil =>
        simp only [nil_append, cons.injEq] at hrest
        exact absurd (hrest.1 ▸ hqmem) hnot
      | cons a0 M =>
        simp only [cons_append, cons.injEq] at hrest
        obtain ⟨ha0, hB⟩ := hrest
        subst ha0 hA' hB
        have hlen : (A ++ ({ g with raws := pvAddSort (addrOf st) g.raws ++ [r.id] } : Group) :: M).length = (A ++ g :: M).length := by simp
        have e : (({ m with groups := A ++ { g with raws := pvAddSort (addrOf st) g.raws ++ [r.id] } :: (M ++ gq :: B'), kAdd := some A.length } : MIdx).prepareRemove vis acc st r.id).acceptAdd.acceptRemove st r.id =
            ⟨m.cols, ((A.map some ++ some { g with raws := pvAddSort (addrOf st) g.raws ++ [r.id] } :: M.map some) ++
              acceptRemoveGroup (addrOf st) gq r.id :: B'.map some).filterMap id, none, none⟩ := by
          unfold MIdx.prepareRemove
          rw [hfr, hf]
          unfold MIdx.acceptAdd MIdx.acceptRemove
          simp only
          have hre : A ++ ({ g with raws := pvAddSort (addrOf st) g.raws ++ [r.id] } : Group) :: (M ++ gq :: B') =
              (A ++ { g with raws := pvAddSort (addrOf st) g.raws ++ [r.id] } :: M) ++ gq :: B' := by simp
          rw [hre, ← hlen, getD_split]
          cases ho : acceptRemoveGroup (addrOf st) gq r.id with
          | none =>
            simp only [filterMap_append, filterMap_id_map_some, filterMap_cons_none (f := id) rfl, filterMap_cons_some (f := id) rfl]
            rw [eraseIdx_append_of_length_le (Nat.le_refl _)]
            simp
          | some g' =>
            simp only [filterMap_append, filterMap_id_map_some, filterMap_cons_some (f := id) rfl]
            rw [set_append_right _ _ (Nat.le_refl _)]
            simp
        have hsplit2 : m.groups = A ++ g :: (M ++ gq :: B') := hsplit
        rw [e]
        apply finish
        rw [hsplit2, show A ++ g :: (M ++ gq :: B') = (A ++ g :: M) ++ gq :: B' by simp]
        have hmemA : ∀ x ∈ A, x ∈ m.groups := fun x hx => by rw [hsplit2]; simp [hx]
        have hmemM : ∀ x ∈ M, x ∈ m.groups := fun x hx => by rw [hsplit2]; simp [hx]
        have hmemB : ∀ x ∈ B', x ∈ m.groups := fun x hx => by rw [hsplit2]; simp [hx]
        apply rel_append
        · apply rel_append
          · rw [forall₂_map_right_iff]
            exact forall₂_same.mpr (fun x hx => hO x (hmemA x hx) (hkeyg x (by simp [hx])) (hrawq x (by simp [hx])))
          · refine Forall₂.cons hG ?_
            rw [forall₂_map_right_iff]
            exact forall₂_same.mpr (fun x hx => hO x (hmemM x hx) (hkeyg x (by simp [hx])) (hrawq x (by simp [hx])))
        · refine Forall₂.cons (hQ (hkeyg gq (by simp))) ?_
          rw [forall₂_map_right_iff]
          exact forall₂_same.mpr (fun x hx => hO x (hmemB x hx) (hkeyg x (by simp [hx])) (hrawq x (by simp [hx])))
    · -- the old group comes first
      cases c' with
      | nil =>
        simp only [nil_append, cons.injEq] at hrest
        exact absurd (hrest.1 ▸ hqmem) hnot
      | cons c0 M =>
        simp only [cons_append, cons.injEq] at hrest
        obtain ⟨hc0, hB'⟩ := hrest
        subst hc0 hA hB'
        have e : (({ m with groups := (A' ++ gq :: M) ++ { g with raws := pvAddSort (addrOf st) g.raws ++ [r.id] } :: B, kAdd := some (A' ++ gq :: M).length } : MIdx).prepareRemove vis acc st r.id).acceptAdd.acceptRemove st r.id =
            ⟨m.cols, (A'.map some ++ acceptRemoveGroup (addrOf st) gq r.id ::
              (M.map some ++ some { g with raws := pvAddSort (addrOf st) g.raws ++ [r.id] } :: B.map some)).filterMap id, none, none⟩ := by
          unfold MIdx.prepareRemove
          rw [hfr, hf]
          unfold MIdx.acceptAdd MIdx.acceptRemove
          simp only
          have hre : (A' ++ gq :: M) ++ ({ g with raws := pvAddSort (addrOf st) g.raws ++ [r.id] } : Group) :: B =
              A' ++ gq :: (M ++ { g with raws := pvAddSort (addrOf st) g.raws ++ [r.id] } :: B) := by simp
          rw [hre, getD_split]
          cases ho : acceptRemoveGroup (addrOf st) gq r.id with
          | none =>
            simp only [filterMap_append, filterMap_id_map_some, filterMap_cons_none (f := id) rfl, filterMap_cons_some (f := id) rfl]
            rw [eraseIdx_append_of_length_le (Nat.le_refl _)]
            simp
          | some g' =>
            simp only [filterMap_append, filterMap_id_map_some, filterMap_cons_some (f := id) rfl]
            rw [set_append_right _ _ (Nat.le_refl _)]
            simp
        have hsplit2 : m.groups = A' ++ gq :: (M ++ g :: B) := hsplit'
        rw [e]
        apply finish
        rw [hsplit2]
        have hmemA : ∀ x ∈ A', x ∈ m.groups := fun x hx => by rw [hsplit2]; simp [hx]
        have hmemM : ∀ x ∈ M, x ∈ m.groups := fun x hx => by rw [hsplit2]; simp [hx]
        have hmemB : ∀ x ∈ B, x ∈ m.groups := fun x hx => by rw [hsplit2]; simp [hx]
        apply rel_append
        · rw [forall₂_map_right_iff]
          exact forall₂_same.mpr (fun x hx => hO x (hmemA x hx) (hkeyg x (by simp [hx])) (hrawq x (by simp [hx])))
        · refine Forall₂.cons (hQ (hkeyg gq (by simp))) ?_
          apply rel_append
          · rw [forall₂_map_right_iff]
            exact forall₂_same.mpr (fun x hx => hO x (hmemM x hx) (hkeyg x (by simp [hx])) (hrawq x (by simp [hx])))
          · refine Forall₂.cons hG ?_
            rw [forall₂_map_right_iff]
            exact forall₂_same.mpr (fun x hx => hO x (hmemB x hx) (hkeyg x (by simp [hx])) (hrawq x (by simp [hx])))
  · -- rejected
    rw [MIdx.rejUpd_prepare, MIdx.rejUpd_of_kRem _ (by exact hm.noPos.2)]
    unfold MIdx.rejectAdd
    simp only [getD_split, length_append, length_cons, length_nil]
    rw [if_pos (by omega), modify_split _ A B _ _ rfl]
    simp only [dropLast_concat]
    rw [hm.noPos.1]

end colM2

/-! ### the passes of the single-column `UpdateRaw`, `pvTryUpdate(rowRef, column, item)` -/

/-- **the hypothesis the proof forces** (its failure is finding F9): in every index over the column in which the update
    has to add an entry (no row / no group has the new key), the lookup of the *old* key of the raw that follows
    (`PrepareRemove(raw)`) does not return the entry just added -/
def NoF9 (vis : Vis) (acc : Acc) (t : Table) (raw col v : Nat) : Prop :=
  (∀ u ∈ t.uidx, col ∈ u.cols → u.findMixed vis acc t.rows raw col v = none →
      (uAdded acc u raw (mixVals (valsOf t.rows raw) col v)).findRaw vis acc t.rows raw ≠ some u.ents.length) ∧
  (∀ m ∈ t.midx, col ∈ m.cols → m.findMixed vis acc t.rows raw col v = none →
      (mAddedNew acc m raw (mixVals (valsOf t.rows raw) col v)).findRaw vis acc t.rows raw ≠ some m.groups.length)

section colPass
variable {vis : Vis} (hc : Complete vis) (acc : Acc) {st : Store} (hnd : (ids st).Nodup) (hai : AddrInj st) {n : Nat} {r : Row}
  (hrn : st[n]? = some r) (col v : Nat) (hcol : col < r.vals.length) (hv : item r.vals col ≠ v)
include hc hnd hrn hcol hv

theorem uUpdColAll_spec (f : Fault) : ∀ (us : List UIdx) (j : Nat), (∀ u ∈ us, UInv acc st u) →
    (∀ u ∈ us, col ∈ u.cols → u.findMixed vis acc st r.id col v = none →
      (uAdded acc u r.id (mixVals r.vals col v)).findRaw vis acc st r.id ≠ some u.ents.length) →
    ((uUpdColAll vis acc st r.id col v f j us).1.map (fun u => u.rejectAdd.rejectRemove) = us) ∧
    (match (uUpdColAll vis acc st r.id col v f j us).2 with
     | .none => (∀ u' ∈ (uUpdColAll vis acc st r.id col v f j us).1.map (fun u => u.acceptAdd.acceptRemove),
                    UInv acc (setVals st n (mixVals r.vals col v)) u') ∧
                ∀ u ∈ us, col ∈ u.cols → ∀ y ∈ st, keyEq u.cols (mixVals r.vals col v) y.vals = false
     | .dup x jj => ∃ i u row, jj = j + i ∧ us[i]? = some u ∧ col ∈ u.cols ∧ row ∈ st ∧ row.id = x ∧ x ≠ r.id ∧
                keyEq u.cols (mixVals r.vals col v) row.vals = true
     | .fault => f ≠ .none) := by
  intro us
  induction us with
  | nil => intro j _ _; simp [uUpdColAll]
  | cons u us ih =>
    intro j hus hF
    have hu := hus u mem_cons_self
    have hrest := ih (j + 1) (fun u' hu' => hus u' (mem_cons_of_mem _ hu')) (fun u' hu' => hF u' (mem_cons_of_mem _ hu'))
    have hidrest : us.map (fun u => u.rejectAdd.rejectRemove) = us := by
      rw [map_congr_left (fun u' hu' => UIdx.noPos_reject u' (hus u' (mem_cons_of_mem _ hu')).noPos)]; simp
    have cont : ∀ (u1 : UIdx), u1.rejectAdd.rejectRemove = u → UInv acc (setVals st n (mixVals r.vals col v)) u1.acceptAdd.acceptRemove →
        (col ∈ u.cols → ∀ y ∈ st, keyEq u.cols (mixVals r.vals col v) y.vals = false) →
        ((Prod.map (u1 :: ·) id (uUpdColAll vis acc st r.id col v f (j + 1) us)).1.map (fun u => u.rejectAdd.rejectRemove) = u :: us) ∧
        (match (Prod.map (u1 :: ·) id (uUpdColAll vis acc st r.id col v f (j + 1) us)).2 with
         | .none => (∀ u' ∈ (Prod.map (u1 :: ·) id (uUpdColAll vis acc st r.id col v f (j + 1) us)).1.map (fun u => u.acceptAdd.acceptRemove),
                        UInv acc (setVals st n (mixVals r.vals col v)) u') ∧
                    ∀ u' ∈ u :: us, col ∈ u'.cols → ∀ y ∈ st, keyEq u'.cols (mixVals r.vals col v) y.vals = false
         | .dup x jj => ∃ i u' row, jj = j + i ∧ (u :: us)[i]? = some u' ∧ col ∈ u'.cols ∧ row ∈ st ∧ row.id = x ∧ x ≠ r.id ∧
                    keyEq u'.cols (mixVals r.vals col v) row.vals = true
         | .fault => f ≠ .none) := by
      intro u1 hrej hacc hno
      simp only [Prod.map_fst, Prod.map_snd, id_eq, map_cons]
      refine ⟨by rw [hrej, hrest.1], ?_⟩
      have h2 := hrest.2
      cases hs : (uUpdColAll vis acc st r.id col v f (j + 1) us).2 with
      | none =>
        rw [hs] at h2
        simp only at h2 ⊢
        refine ⟨?_, ?_⟩
        · intro u' hu'
          rcases mem_cons.mp hu' with h | h
          · rw [h]; exact hacc
          · exact h2.1 u' h
        · intro u' hu' hcc y hy
          rcases mem_cons.mp hu' with h | h
          · rw [h] at hcc ⊢; exact hno hcc y hy
          · exact h2.2 u' h hcc y hy
      | dup x jj =>
        rw [hs] at h2
        simp only at h2 ⊢
        obtain ⟨i, u', row, hjj, hget, hcc, hrow, hid, hxo, hk⟩ := h2
        exact ⟨i + 1, u', row, by omega, by simpa using hget, hcc, hrow, hid, hxo, hk⟩
      | fault =>
        rw [hs] at h2
        exact h2
    unfold uUpdColAll
    by_cases hcc : u.cols.contains col = true
    · rw [if_pos hcc]
      have hcc' : col ∈ u.cols := by simpa using hcc
      rcases UIdx.addMixed_cases hc acc hnd hrn col v hcol hv u hu hcc' (f.hits j) with ⟨x, hx, hxr, hk, he⟩ | ⟨hno, hfm, he⟩
      · rw [he]
        simp only
        have hc1 : (x.id != r.id) = true := by simpa using hxr
        rw [if_pos hc1]
        simp only [map_cons]
        refine ⟨by rw [UIdx.noPos_reject u hu.noPos, hidrest], ?_⟩
        exact ⟨0, u, x, by simp, by simp, hcc', hx, rfl, hxr, hk⟩
      · rw [he]
        by_cases hf : f.hits j = true
        · rw [if_pos hf]
          simp only [map_cons]
          refine ⟨by rw [UIdx.noPos_reject u hu.noPos, hidrest], ?_⟩
          intro e; subst e; simp [Fault.hits] at hf
        · rw [if_neg hf]
          simp only [bne_self_eq_false, Bool.false_eq_true, if_false]
          obtain ⟨h1, h2⟩ := UIdx.updCol_new hc acc hnd hrn col v u hu hno (hF u mem_cons_self hcc' hfm)
          exact cont _ h2 h1 (fun _ => hno)
    · rw [if_neg hcc]
      have hcc' : col ∉ u.cols := by simpa using hcc
      refine cont u (UIdx.noPos_reject u hu.noPos) ?_ (fun h => absurd h hcc')
      rw [UIdx.noPos_accept u hu.noPos]
      apply UInv_cols_congr hu (ids_setVals hrn _)
      intro x
      by_cases hx : x = r.id
      · obtain ⟨hn, hrn'⟩ := List.getElem?_eq_some_iff.mp hrn
        rw [hx, valsOf_setVals_self hnd hrn, valsOf_mem hnd (hrn' ▸ getElem_mem hn)]
        exact keyEq_mixVals_self _ _ _ _ hcc'
      · rw [valsOf_setVals_other hrn _ hx]; exact keyEq_refl _ _

include hai

theorem mUpdColAll_spec (f : Fault) : ∀ (ms : List MIdx) (j : Nat), (∀ m ∈ ms, MInv acc st m) →
    (∀ m ∈ ms, col ∈ m.cols → m.findMixed vis acc st r.id col v = none →
      (mAddedNew acc m r.id (mixVals r.vals col v)).findRaw vis acc st r.id ≠ some m.groups.length) →
    Forall₂ MEquiv ms ((mUpdColAll vis acc st r.id col v f j ms).1.map MIdx.rejUpd) ∧
    (∀ m' ∈ (mUpdColAll vis acc st r.id col v f j ms).1.map MIdx.rejUpd, MInv acc st m') ∧
    (match (mUpdColAll vis acc st r.id col v f j ms).2 with
     | .none => ∀ m' ∈ (mUpdColAll vis acc st r.id col v f j ms).1.map (fun m => m.acceptAdd.acceptRemove st r.id),
                  MInv acc (setVals st n (mixVals r.vals col v)) m'
     | .dup _ _ => False
     | .fault => f ≠ .none) := by
  intro ms
  induction ms with
  | nil => intro j _ _; simp [mUpdColAll]
  | cons m ms ih =>
    intro j hms hF
    have hm := hms m mem_cons_self
    have hrest := ih (j + 1) (fun m' hm' => hms m' (mem_cons_of_mem _ hm')) (fun m' hm' => hF m' (mem_cons_of_mem _ hm'))
    have hid : ms.map MIdx.rejUpd = ms := by
      rw [map_congr_left (fun m' hm' => MIdx.rejUpd_noPos m' (hms m' (mem_cons_of_mem _ hm')).noPos)]; simp
    -- this index stops the pass with a failure, leaving `m1`
    have stop : ∀ (m1 : MIdx), m1.rejUpd = m1 → MEquiv m m1 → MInv acc st m1 → f.hits j = true →
        Forall₂ MEquiv (m :: ms) ((m1 :: ms).map MIdx.rejUpd) ∧ (∀ m' ∈ (m1 :: ms).map MIdx.rejUpd, MInv acc st m') ∧ f ≠ .none := by
      intro m1 h1 h2 h3 hf
      simp only [map_cons]
      rw [hid, h1]
      refine ⟨Forall₂.cons h2 (forall₂_same.mpr (fun x _ => MEquiv.refl x)), ?_, ?_⟩
      · intro m' hm'
        rcases mem_cons.mp hm' with h | h
        · rw [h]; exact h3
        · exact hms m' (mem_cons_of_mem _ h)
      · intro e; subst e; simp [Fault.hits] at hf
    -- this index went through with `m1`
    have cont : ∀ (m1 m1r : MIdx), m1.rejUpd = m1r → MEquiv m m1r → MInv acc st m1r →
        MInv acc (setVals st n (mixVals r.vals col v)) (m1.acceptAdd.acceptRemove st r.id) →
        Forall₂ MEquiv (m :: ms) ((Prod.map (m1 :: ·) id (mUpdColAll vis acc st r.id col v f (j + 1) ms)).1.map MIdx.rejUpd) ∧
        (∀ m' ∈ (Prod.map (m1 :: ·) id (mUpdColAll vis acc st r.id col v f (j + 1) ms)).1.map MIdx.rejUpd, MInv acc st m') ∧
        (match (Prod.map (m1 :: ·) id (mUpdColAll vis acc st r.id col v f (j + 1) ms)).2 with
         | .none => ∀ m' ∈ (Prod.map (m1 :: ·) id (mUpdColAll vis acc st r.id col v f (j + 1) ms)).1.map (fun m => m.acceptAdd.acceptRemove st r.id),
                      MInv acc (setVals st n (mixVals r.vals col v)) m'
         | .dup _ _ => False
         | .fault => f ≠ .none) := by
      intro m1 m1r h1 h2 h3 h4
      simp only [Prod.map_fst, Prod.map_snd, id_eq, map_cons]
      rw [h1]
      refine ⟨Forall₂.cons h2 hrest.1, ?_, ?_⟩
      · intro m' hm'
        rcases mem_cons.mp hm' with h | h
        · rw [h]; exact h3
        · exact hrest.2.1 m' h
      · have h5 := hrest.2.2
        cases hs : (mUpdColAll vis acc st r.id col v f (j + 1) ms).2 with
        | none =>
          rw [hs] at h5
          simp only at h5 ⊢
          intro m' hm'
          rcases mem_cons.mp hm' with h | h
          · rw [h]; exact h4
          · exact h5 m' h
        | dup x jj => rw [hs] at h5; exact h5
        | fault => rw [hs] at h5; exact h5
    unfold mUpdColAll
    by_cases hcc : m.cols.contains col = true
    · rw [if_pos hcc]
      have hcc' : col ∈ m.cols := by simpa using hcc
      rcases MIdx.addMixed_cases hc acc hnd hrn col v hcol hv m hm hcc' with ⟨A, g, B, hsplit, hk, hnot, he⟩ | ⟨hno, hfm, he⟩
      · obtain ⟨h1, h2, h3, h4, h5⟩ := MIdx.updCol_found hc acc hnd hai hrn col v m hm A B g hsplit hk hnot
        rw [he (f.hits j)]
        by_cases hf : f.hits j = true
        · simp only [hf, if_true, Bool.false_eq_true, if_false]
          exact stop _ h3 h4 h5 hf
        · have hff : f.hits j = false := by simpa using hf
          simp only [hff, Bool.false_eq_true, if_false, if_true]
          exact cont _ _ h2 h4 h5 h1
      · rw [he (f.hits j)]
        by_cases hf : f.hits j = true
        · simp only [hf, if_true, Bool.false_eq_true, if_false]
          exact stop m (MIdx.rejUpd_noPos m hm.noPos) (MEquiv.refl m) hm hf
        · have hff : f.hits j = false := by simpa using hf
          simp only [hff, Bool.false_eq_true, if_false, if_true]
          obtain ⟨h1, h2⟩ := MIdx.updCol_newgroup hc acc hnd hai hrn col v m hm hno (hF m mem_cons_self hcc' hfm)
          exact cont _ m h2 (MEquiv.refl m) hm h1
    · rw [if_neg hcc]
      have hcc' : col ∉ m.cols := by simpa using hcc
      refine cont m m (MIdx.rejUpd_noPos m hm.noPos) (MEquiv.refl m) hm ?_
      rw [MIdx.noPos_accept st r.id m hm.noPos]
      apply MInv_cols_congr hm (ids_setVals hrn _) ?_ (addrOf_setVals hnd hrn _)
      intro x
      by_cases hx : x = r.id
      · obtain ⟨hn, hrn'⟩ := List.getElem?_eq_some_iff.mp hrn
        rw [hx, valsOf_setVals_self hnd hrn, valsOf_mem hnd (hrn' ▸ getElem_mem hn)]
        exact keyEq_mixVals_self _ _ _ _ hcc'
      · rw [valsOf_setVals_other hrn _ hx]; exact keyEq_refl _ _

end colPass

section tryUpdateCol
variable {vis : Vis} (hc : Complete vis) (acc : Acc) (keep : Bool)
include hc

theorem updateRawCol_spec (t : Table) (hinv : Inv acc keep t) (n : Nat) (r : Row) (hrn : t.rows[n]? = some r) (col v : Nat)
    (hcol : col < r.vals.length) (hv : item r.vals col ≠ v) (hF : NoF9 vis acc t r.id col v) (f : Fault) :
    match (updateRawCol vis acc t t.rows r.id col v f).2 with
    | .none => (∀ u ∈ (updateRawCol vis acc t t.rows r.id col v f).1.uidx, UInv acc (setVals t.rows n (mixVals r.vals col v)) u) ∧
               (∀ m ∈ (updateRawCol vis acc t t.rows r.id col v f).1.midx, MInv acc (setVals t.rows n (mixVals r.vals col v)) m) ∧
               (∀ u ∈ t.uidx, col ∈ u.cols → ∀ y ∈ t.rows, keyEq u.cols (mixVals r.vals col v) y.vals = false)
    | .dup x j => TEquiv t (updateRawCol vis acc t t.rows r.id col v f).1 ∧
               Inv acc keep (updateRawCol vis acc t t.rows r.id col v f).1 ∧
               ∃ u row, t.uidx[j]? = some u ∧ col ∈ u.cols ∧ row ∈ t.rows ∧ row.id = x ∧ x ≠ r.id ∧
                 keyEq u.cols (mixVals r.vals col v) row.vals = true
    | .fault => TEquiv t (updateRawCol vis acc t t.rows r.id col v f).1 ∧
               Inv acc keep (updateRawCol vis acc t t.rows r.id col v f).1 ∧ f ≠ .none := by
  obtain ⟨hn, hrn'⟩ := List.getElem?_eq_some_iff.mp hrn
  have hvr : valsOf t.rows r.id = r.vals := valsOf_mem hinv.idsNodup (hrn' ▸ getElem_mem hn)
  obtain ⟨hF1, hF2⟩ := hF
  rw [hvr] at hF1 hF2
  have hU := uUpdColAll_spec hc acc hinv.idsNodup hrn col v hcol hv f t.uidx 0 hinv.uinv hF1
  have hM := mUpdColAll_spec hc acc hinv.idsNodup hinv.addrInj hrn col v hcol hv f t.midx t.uidx.length hinv.minv hF2
  have hidm : t.midx.map MIdx.rejUpd = t.midx := by
    rw [map_congr_left (fun m' hm' => MIdx.rejUpd_noPos m' (hinv.minv m' hm').noPos)]; simp
  have hdef : updateRawCol vis acc t t.rows r.id col v f =
      match uUpdColAll vis acc t.rows r.id col v f 0 t.uidx with
      | (us, .none) =>
        match mUpdColAll vis acc t.rows r.id col v f t.uidx.length t.midx with
        | (ms, .none) => ({ t with uidx := us.map (fun u => u.acceptAdd.acceptRemove), midx := ms.map (fun m => m.acceptAdd.acceptRemove t.rows r.id) }, .none)
        | (ms, s) => ({ t with uidx := us.map (fun u => u.rejectAdd.rejectRemove), midx := ms.map MIdx.rejUpd }, s)
      | (us, s) => ({ t with uidx := us.map (fun u => u.rejectAdd.rejectRemove), midx := t.midx.map MIdx.rejUpd }, s) := rfl
  rw [hdef]
  cases hs : (uUpdColAll vis acc t.rows r.id col v f 0 t.uidx).2 with
  | none =>
    rw [hs] at hU
    obtain ⟨hU1, hU2, hU3⟩ := hU
    have e : uUpdColAll vis acc t.rows r.id col v f 0 t.uidx = ((uUpdColAll vis acc t.rows r.id col v f 0 t.uidx).1, Stop.none) := by
      rw [← hs]
    rw [e]
    simp only
    cases hs2 : (mUpdColAll vis acc t.rows r.id col v f t.uidx.length t.midx).2 with
    | none =>
      rw [hs2] at hM
      obtain ⟨_, _, hM3⟩ := hM
      have e2 : mUpdColAll vis acc t.rows r.id col v f t.uidx.length t.midx =
          ((mUpdColAll vis acc t.rows r.id col v f t.uidx.length t.midx).1, Stop.none) := by rw [← hs2]
      rw [e2]
      exact ⟨hU2, hM3, hU3⟩
    | dup x jj => rw [hs2] at hM; exact absurd hM.2.2 (by simp)
    | fault =>
      rw [hs2] at hM
      obtain ⟨hM1, hM2, hM3⟩ := hM
      have e2 : mUpdColAll vis acc t.rows r.id col v f t.uidx.length t.midx =
          ((mUpdColAll vis acc t.rows r.id col v f t.uidx.length t.midx).1, Stop.fault) := by rw [← hs2]
      rw [e2]
      simp only
      rw [hU1]
      exact ⟨⟨rfl, rfl, hM1⟩, ⟨hinv.idsNodup, hinv.addrInj, hinv.nums, hinv.uinv, hM2⟩, hM3⟩
  | dup x jj =>
    rw [hs] at hU
    obtain ⟨hU1, i, u, row, hjj, hget, hcc, hrow, hid, hxo, hk⟩ := hU
    have e : uUpdColAll vis acc t.rows r.id col v f 0 t.uidx = ((uUpdColAll vis acc t.rows r.id col v f 0 t.uidx).1, Stop.dup x jj) := by
      rw [← hs]
    rw [e]
    simp only
    rw [hU1, hidm]
    exact ⟨TEquiv.refl t, hinv, u, row, by rw [hjj]; simpa using hget, hcc, hrow, hid, hxo, hk⟩
  | fault =>
    rw [hs] at hU
    obtain ⟨hU1, hU2⟩ := hU
    have e : uUpdColAll vis acc t.rows r.id col v f 0 t.uidx = ((uUpdColAll vis acc t.rows r.id col v f 0 t.uidx).1, Stop.fault) := by
      rw [← hs]
    rw [e]
    simp only
    rw [hU1, hidm]
    exact ⟨TEquiv.refl t, hinv, hU2⟩

/-- **`TryUpdate(row, column, item)`, under the hypothesis `NoF9`** (`col` a column of the table): the invariant is kept;
    `ok`: the row shows the new item, and no row has the new key in a unique index over the column; `dup x j`: table
    unchanged, `x` is another row with the new key in unique index `j`; `bad_alloc` only under a fault, table unchanged -/
theorem tryUpdateCol_partial (t : Table) (hinv : Inv acc keep t) (n col v : Nat) (f : Fault)
    (hcol : ∀ r, t.rows[n]? = some r → col < r.vals.length)
    (hF : ∀ r, t.rows[n]? = some r → NoF9 vis acc t r.id col v) :
    Inv acc keep (tryUpdateCol vis acc t n col v f).1 ∧
    match t.rows[n]? with
    | none => tryUpdateCol vis acc t n col v f = (t, .outOfRange)
    | some r =>
      match (tryUpdateCol vis acc t n col v f).2 with
      | .ok => (tryUpdateCol vis acc t n col v f).1.rows = setVals t.rows n (mixVals r.vals col v) ∧
               (item r.vals col ≠ v → ∀ u ∈ t.uidx, col ∈ u.cols → ∀ y ∈ t.rows, keyEq u.cols (mixVals r.vals col v) y.vals = false)
      | .dup x j => TEquiv t (tryUpdateCol vis acc t n col v f).1 ∧
               ∃ u row, t.uidx[j]? = some u ∧ col ∈ u.cols ∧ row ∈ t.rows ∧ row.id = x ∧ x ≠ r.id ∧
                 keyEq u.cols (mixVals r.vals col v) row.vals = true
      | .badAlloc => TEquiv t (tryUpdateCol vis acc t n col v f).1 ∧ f ≠ .none
      | .outOfRange => False := by
  unfold tryUpdateCol
  cases hrn : t.rows[n]? with
  | none => exact ⟨hinv, rfl⟩
  | some r =>
    simp only
    obtain ⟨hn, hrn'⟩ := List.getElem?_eq_some_iff.mp hrn
    have hcol' := hcol r hrn
    by_cases hv : item r.vals col = v
    · have hb : (item r.vals col == v) = true := by simpa using hv
      rw [if_pos hb]
      refine ⟨hinv, ?_, fun h => absurd hv h⟩
      -- nothing changes: the item has this value already
      have : mixVals r.vals col v = r.vals := by
        unfold mixVals
        unfold item at hv
        rw [getD_eq_getElem?_getD, getElem?_eq_getElem hcol'] at hv
        simp only [Option.getD_some] at hv
        rw [← hv, set_getElem_self]
      rw [this, setVals_eq hrn, ← hrn', set_getElem_self]
    · have hb : ¬ (item r.vals col == v) = true := by simpa using hv
      rw [if_neg hb]
      have h := updateRawCol_spec hc acc keep t hinv n r hrn col v hcol' hv (hF r hrn) f
      cases hs : (updateRawCol vis acc t t.rows r.id col v f).2 with
      | none =>
        rw [hs] at h
        obtain ⟨hu, hm, hno⟩ := h
        have e : updateRawCol vis acc t t.rows r.id col v f = ((updateRawCol vis acc t t.rows r.id col v f).1, Stop.none) := by
          rw [← hs]
        rw [e]
        simp only
        refine ⟨?_, by rw [setVals_eq hrn], fun _ => hno⟩
        refine ⟨?_, ?_, ?_, ?_, ?_⟩
        · show (ids (t.rows.set n { r with vals := mixVals r.vals col v })).Nodup
          rw [← setVals_eq hrn, ids_setVals hrn]; exact hinv.idsNodup
        · show AddrInj (t.rows.set n { r with vals := mixVals r.vals col v })
          unfold AddrInj
          rw [← setVals_eq hrn, addrs_setVals hrn]; exact hinv.addrInj
        · intro hk i x hx
          have hx' : (t.rows.set n { r with vals := mixVals r.vals col v })[i]? = some x := hx
          rw [getElem?_set] at hx'
          split at hx'
          · rename_i hni
            simp only [Option.some.injEq] at hx'
            rw [← hx']
            exact hinv.nums hk i r (by rw [← hni]; exact hrn)
          · exact hinv.nums hk i x hx'
        · intro u hu'
          have := hu u hu'
          rw [setVals_eq hrn] at this; exact this
        · intro m hm'
          have := hm m hm'
          rw [setVals_eq hrn] at this; exact this
      | dup x j =>
        rw [hs] at h
        have e : updateRawCol vis acc t t.rows r.id col v f = ((updateRawCol vis acc t t.rows r.id col v f).1, Stop.dup x j) := by
          rw [← hs]
        rw [e]
        exact ⟨h.2.1, h.1, h.2.2⟩
      | fault =>
        rw [hs] at h
        have e : updateRawCol vis acc t t.rows r.id col v f = ((updateRawCol vis acc t t.rows r.id col v f).1, Stop.fault) := by
          rw [← hs]
        rw [e]
        exact ⟨h.2.1, h.1, h.2.2⟩

end tryUpdateCol
end Momo.Table
