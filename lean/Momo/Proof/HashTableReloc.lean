import Momo.Proof.HashTableAdd
/-!
  C01/C11, part 5: removal inside a bucket array and the migration `pvRelocateItems`
  (`drainGen`, `relocGens`, `relocate`): wherever the migration stops — any budget `stop`, a
  "table is full" inside the migration, any number of coexisting generations — every generation
  keeps its invariant and the items are conserved (the C11 statement).
-/
namespace Momo.HT
open Momo Momo.Probe

/-! ### removal from one bucket -/

/-- `Bucket::Remove` at any index keeps the generation invariant (nothing else moves, flags and
    bounds are sticky) — port of prototype A.5 `remove_placed` -/
theorem removeBkt_inv (sp : Spec) (hf : Nat → Nat) (g : Gen) (i j : Nat) (hI : GenInv sp hf g)
    (hi : i < g.bs.length) : GenInv sp hf { g with bs := updBkt sp g.bs i (removeAt j) } := by
  have B : ∀ t, bkt sp (updBkt sp g.bs i (removeAt j)) t
      = if i = t then removeAt j (bkt sp g.bs t) else bkt sp g.bs t :=
    fun t => bkt_updBkt sp _ _ _ _ hi
  have hw : ∀ t, (bkt sp (updBkt sp g.bs i (removeAt j)) t).wasFull = (bkt sp g.bs t).wasFull := by
    intro t; rw [B]; by_cases h : i = t <;> simp [h]
  have hb : ∀ t, (bkt sp (updBkt sp g.bs i (removeAt j)) t).bst = (bkt sp g.bs t).bst := by
    intro t; rw [B]; by_cases h : i = t <;> simp [h]
  have hm : ∀ t x, x ∈ (bkt sp (updBkt sp g.bs i (removeAt j)) t).items → x ∈ (bkt sp g.bs t).items := by
    intro t x hx; rw [B] at hx
    by_cases h : i = t
    · simp only [h, if_true] at hx; exact mem_removeAt _ _ _ hx
    · simpa [h] using hx
  have hlen : ∀ t, (bkt sp (updBkt sp g.bs i (removeAt j)) t).items.length ≤ (bkt sp g.bs t).items.length := by
    intro t; rw [B]
    by_cases h : i = t
    · simp only [h, if_true]; rw [length_removeAt]; omega
    · simp [h]
  refine ⟨?_, ?_, ?_, ?_, ?_⟩
  · show (updBkt sp g.bs i (removeAt j)).length = 2 ^ g.L
    rw [updBkt_length]; exact hI.len
  · intro hu t
    exact Nat.le_trans (hlen t) (hI.size hu t)
  · intro t ht
    show (bkt sp (updBkt sp g.bs i (removeAt j)) t).wasFull = true
    rw [hw]
    apply hI.full t
    have ht' : isFull sp (bkt sp (updBkt sp g.bs i (removeAt j)) t) = true := ht
    unfold isFull at ht' ⊢
    have := hlen t
    simp only [Bool.and_eq_true, Bool.not_eq_true', decide_eq_true_eq] at ht' ⊢
    exact ⟨ht'.1, by omega⟩
  · intro t x hx
    obtain ⟨p, e, hp, hq⟩ := hI.place t x (hm t x hx)
    refine ⟨p, e, ?_, fun q hlt => ?_⟩
    · show p ≤ maxProbe sp g.L (bkt sp (updBkt sp g.bs i (removeAt j)) _)
      rw [maxProbe_congr sp g.L _ _ (hb _)]; exact hp
    · show (bkt sp (updBkt sp g.bs i (removeAt j)) _).wasFull = true
      rw [hw]; exact hq q hlt
  · intro t
    exact BstOK_congr sp _ _ (hb t).symm (hI.enc t)

/-- removal at a valid position takes away exactly the item stored there -/
theorem removeBkt_items (sp : Spec) (g : Gen) (i j : Nat) (hi : i < g.bs.length)
    (hj : j < (bkt sp g.bs i).items.length) :
    ((bkt sp g.bs i).items[j] :: genItems { g with bs := updBkt sp g.bs i (removeAt j) }).Perm
      (genItems g) :=
  genItems_upd_remove sp g i (removeAt j) _ hi (removeAt_perm j _ hj)

/-! ### draining one generation into the head -/

theorem genItems_nil_of_findIdx (g : Gen)
    (h : g.bs.length ≤ g.bs.findIdx (fun b => !b.items.isEmpty)) : genItems g = [] := by
  have hall : ∀ b ∈ g.bs, (!b.items.isEmpty) = false := by
    have : g.bs.findIdx (fun b => !b.items.isEmpty) = g.bs.length :=
      Nat.le_antisymm List.findIdx_le_length h
    exact List.findIdx_eq_length.mp this
  unfold genItems
  rw [List.flatten_eq_nil_iff]
  intro l hl
  obtain ⟨b, hb, rfl⟩ := List.mem_map.mp hl
  have := hall b hb
  simp only [Bool.not_eq_false', List.isEmpty_iff] at this
  simp [this]

/-- counting form of "a rearrangement" -/
theorem perm_of_count {l l' : List Item} (h : ∀ a, l.count a = l'.count a) : l.Perm l' :=
  List.perm_iff_count.mpr h

/-- **one generation drained into the head, stopped anywhere**: both bucket arrays keep their
    invariant, no item is lost or duplicated; if the loop was not stopped the drained generation is
    empty; and without a stop request it is only stopped when the head is completely full -/
theorem drainGen_spec (sp : Spec) (hf : Nat → Nat) (ok : SpecOK sp) (stop : Option Nat) :
    ∀ (fuel : Nat) (head g : Gen) (moved : Nat), GenInv sp hf head → GenInv sp hf g →
      GenInv sp hf (drainGen sp hf fuel head g moved stop).1 ∧
      GenInv sp hf (drainGen sp hf fuel head g moved stop).2.1 ∧
      (genItems (drainGen sp hf fuel head g moved stop).1 ++
        genItems (drainGen sp hf fuel head g moved stop).2.1).Perm (genItems head ++ genItems g) ∧
      (drainGen sp hf fuel head g moved stop).1.L = head.L ∧
      (genCount g < fuel → (drainGen sp hf fuel head g moved stop).2.2.2 = false →
        genItems (drainGen sp hf fuel head g moved stop).2.1 = []) ∧
      (stop = none →
        (sp.unlimited = true ∨ (genItems head).length + (genItems g).length ≤ 2 ^ head.L * sp.maxCount) →
        (drainGen sp hf fuel head g moved stop).2.2.2 = false) := by
  intro fuel
  induction fuel with
  | zero =>
    intro head g moved hH hG
    simp only [drainGen]
    exact ⟨hH, hG, List.Perm.refl _, by simp, by simp, by simp⟩
  | succ f ih =>
    intro head g moved hH hG
    simp only [drainGen]
    split
    · rename_i hge
      have := genItems_nil_of_findIdx g hge
      exact ⟨hH, hG, List.Perm.refl _, by simp, fun _ _ => this, by simp⟩
    · rename_i hlt
      have hi : g.bs.findIdx (fun b => !b.items.isEmpty) < g.bs.length := by omega
      generalize hidef : g.bs.findIdx (fun b => !b.items.isEmpty) = i at *
      have hne : (bkt sp g.bs i).items ≠ [] := by
        have h1 := List.findIdx_getElem (w := hidef ▸ hi) (p := fun b : Bucket => !b.items.isEmpty)
        rw [bkt_of_lt sp g.bs i hi]
        simp only [hidef] at h1
        intro h0; rw [h0] at h1; simp at h1
      have hl : (bkt sp g.bs i).items.getLast? = some ((bkt sp g.bs i).items.getLast hne) :=
        List.getLast?_eq_getLast_of_ne_nil hne
      rw [hl]
      simp only
      generalize hit : (bkt sp g.bs i).items.getLast hne = it
      split
      · rename_i hst
        refine ⟨hH, hG, List.Perm.refl _, by simp, by simp, ?_⟩
        intro hs _; rw [hs] at hst; simp at hst
      · -- the item really is the one at the last index
        have hpos : 0 < (bkt sp g.bs i).items.length := List.length_pos_iff.mpr hne
        have hjlt : (bkt sp g.bs i).items.length - 1 < (bkt sp g.bs i).items.length := by omega
        have hget : (bkt sp g.bs i).items[(bkt sp g.bs i).items.length - 1] = it := by
          rw [← hit, List.getLast_eq_getElem]
        have hrem := removeBkt_items sp g i _ hi hjlt
        rw [hget] at hrem
        have hlenG : (genItems g).length =
            (genItems { g with bs := updBkt sp g.bs i (removeAt ((bkt sp g.bs i).items.length - 1)) }).length + 1 := by
          rw [← hrem.length_eq]; simp
        cases hadd : addNogrowGen sp head (hf it.key) it with
        | none =>
          simp only
          refine ⟨hH, hG, List.Perm.refl _, by simp, by simp, fun _ hroom => ?_⟩
          exfalso
          have := addNogrowGen_isSome sp head (hf it.key) it hH.len (by
            rcases hroom with h | h
            · exact Or.inl h
            · right; rw [genCount_eq]; omega)
          rw [hadd] at this; cases this
        | some r =>
          obtain ⟨head', idx⟩ := r
          simp only
          obtain ⟨hH', hperm, hL'⟩ := addNogrowGen_inv sp hf ok head head' it idx hH hadd
          have hG' := removeBkt_inv sp hf g i ((bkt sp g.bs i).items.length - 1) hG hi
          obtain ⟨a1, a2, a3, a4, a5, a6⟩ := ih head' _ (moved + 1) hH' hG'
          refine ⟨a1, a2, ?_, by rw [a4, hL'], ?_, ?_⟩
          · refine a3.trans (perm_of_count fun a => ?_)
            have c1 := hperm.count_eq a
            have c2 := hrem.count_eq a
            simp only [List.count_append, List.count_cons] at c1 c2 ⊢
            omega
          · intro hfuel
            apply a5
            rw [genCount_eq] at hfuel ⊢
            omega
          · intro hs hroom
            apply a6 hs
            rcases hroom with h | h
            · exact Or.inl h
            · right
              have := hperm.length_eq
              simp only [List.length_cons] at this
              rw [hL']; omega

/-! ### all old generations (`pvRelocateItems(Buckets*)`, oldest first) -/

/-- all items of a list of generations, newest generation first -/
def gensItems (gs : List Gen) : List Item := (gs.map genItems).flatten

@[simp] theorem gensItems_nil : gensItems [] = [] := rfl
@[simp] theorem gensItems_cons (g : Gen) (gs : List Gen) : gensItems (g :: gs) = genItems g ++ gensItems gs := rfl
theorem traverse_eq_gensItems (t : Table) : traverse t = gensItems t.gens := rfl

theorem relocGens_spec (sp : Spec) (hf : Nat → Nat) (ok : SpecOK sp) (stop : Option Nat) (head : Gen)
    (hH : GenInv sp hf head) :
    ∀ (olds : List Gen) (moved : Nat), (∀ g ∈ olds, GenInv sp hf g) →
      GenInv sp hf (relocGens sp hf head olds moved stop).1 ∧
      (∀ g ∈ (relocGens sp hf head olds moved stop).2.1, GenInv sp hf g) ∧
      (genItems (relocGens sp hf head olds moved stop).1 ++
        gensItems (relocGens sp hf head olds moved stop).2.1).Perm (genItems head ++ gensItems olds) ∧
      (relocGens sp hf head olds moved stop).1.L = head.L ∧
      (relocGens sp hf head olds moved stop).2.1.length ≤ olds.length ∧
      ((relocGens sp hf head olds moved stop).2.2.2 = false →
        (relocGens sp hf head olds moved stop).2.1 = []) ∧
      (stop = none →
        (sp.unlimited = true ∨ (genItems head).length + (gensItems olds).length ≤ 2 ^ head.L * sp.maxCount) →
        (relocGens sp hf head olds moved stop).2.2.2 = false) := by
  intro olds
  induction olds with
  | nil =>
    intro moved _
    simp only [relocGens]
    exact ⟨hH, (fun g hg => by simp at hg), List.Perm.refl _, by simp, by simp, by simp, by simp⟩
  | cons g rest ih =>
    intro moved hO
    obtain ⟨b1, b2, b3, b4, b5, b6, b7⟩ := ih moved (fun g' hg' => hO g' (by simp [hg']))
    have hG := hO g (by simp)
    simp only [relocGens]
    generalize hr1 : relocGens sp hf head rest moved stop = r1 at *
    obtain ⟨head1, rest1, moved1, stopped1⟩ := r1
    simp only at b1 b2 b3 b4 b5 b6 b7 ⊢
    cases hst : stopped1 with
    | true =>
      simp only [if_true]
      refine ⟨b1, ?_, ?_, b4, (by simp; omega), (by simp), ?_⟩
      · intro g' hg'
        rcases List.mem_cons.mp hg' with rfl | h
        · exact hG
        · exact b2 g' h
      · refine perm_of_count fun a => ?_
        have c := b3.count_eq a
        simp only [gensItems_cons, List.count_append] at c ⊢
        omega
      · intro hs hroom
        have := b7 hs (by
          rcases hroom with h | h
          · exact Or.inl h
          · right; simp only [gensItems_cons, List.length_append] at h; omega)
        rw [hst] at this; cases this
    | false =>
      simp only [Bool.false_eq_true, if_false]
      have hrest1 : rest1 = [] := b6 hst
      subst hrest1
      obtain ⟨a1, a2, a3, a4, a5, a6⟩ := drainGen_spec sp hf ok stop (genCount g + 1) head1 g moved1 b1 hG
      generalize hr2 : drainGen sp hf (genCount g + 1) head1 g moved1 stop = r2 at *
      obtain ⟨head2, g2, moved2, stopped2⟩ := r2
      simp only at a1 a2 a3 a4 a5 a6 ⊢
      have hcount : ∀ a, (genItems head2).count a + (genItems g2).count a
          = (genItems head).count a + ((genItems g).count a + (gensItems rest).count a) := by
        intro a
        have c1 := a3.count_eq a
        have c2 := b3.count_eq a
        simp only [gensItems_nil, List.append_nil, List.count_append] at c1 c2
        omega
      cases hst2 : stopped2 with
      | true =>
        simp only [if_true]
        refine ⟨a1, ?_, ?_, (by rw [a4, b4]), (by simp), (by simp), ?_⟩
        · intro g' hg'
          simp only [List.mem_singleton] at hg'; subst hg'; exact a2
        · refine perm_of_count fun a => ?_
          have := hcount a
          simp only [gensItems_cons, gensItems_nil, List.append_nil, List.count_append]
          omega
        · intro hs hroom
          have := a6 hs (by
            rcases hroom with h | h
            · exact Or.inl h
            · right
              have := b3.length_eq
              simp only [gensItems_cons, gensItems_nil, List.append_nil, List.length_append] at h this
              rw [b4]; omega)
          rw [hst2] at this; cases this
      | false =>
        simp only [Bool.false_eq_true, if_false]
        have hg2 : genItems g2 = [] := a5 (by omega) hst2
        refine ⟨a1, (fun g' hg' => by simp at hg'), ?_, (by rw [a4, b4]), (by simp), (by simp), (by simp)⟩
        refine perm_of_count fun a => ?_
        have := hcount a
        rw [hg2] at this
        simp only [gensItems_cons, gensItems_nil, List.append_nil, List.count_append, List.count_nil] at this ⊢
        omega

/-! ### `pvRelocateItems()` on the table -/

theorem nodup_keys_perm {l l' : List Item} (h : l.Perm l') (hn : (l'.map (·.key)).Nodup) :
    (l.map (·.key)).Nodup := ((h.map (·.key)).nodup_iff).mpr hn

/-- **C11: the migration may stop anywhere.** For every stopping point (`stop` = any number of
    items moved, or a full head table), with any number of coexisting generations, the table
    invariant holds afterwards and the traversal is a rearrangement of the old one. -/
theorem relocate_core (sp : Spec) (hf : Nat → Nat) (ok : SpecOK sp) (t : Table) (hI : TableCore sp hf t)
    (stop : Option Nat) :
    TableCore sp hf (relocate sp hf t stop) ∧ (traverse (relocate sp hf t stop)).Perm (traverse t) ∧
      (relocate sp hf t stop).gens.length ≤ t.gens.length ∧
      (relocate sp hf t stop).count = t.count ∧ (relocate sp hf t stop).cap = t.cap := by
  unfold relocate
  cases hg : t.gens with
  | nil => simp only; exact ⟨hI, List.Perm.refl _, (by rw [hg]; simp)⟩
  | cons head olds =>
    simp only
    have hH := hI.gens head (by rw [hg]; simp)
    obtain ⟨b1, b2, b3, b4, b5, b6, b7⟩ := relocGens_spec sp hf ok stop head hH olds 0
      (fun g h => hI.gens g (by rw [hg]; simp [h]))
    generalize relocGens sp hf head olds 0 stop = r at *
    obtain ⟨head', olds', moved', stopped'⟩ := r
    simp only at b1 b2 b3 b4 b5 b6 b7 ⊢
    have hperm : (traverse { t with gens := head' :: olds' }).Perm (traverse t) := by
      rw [traverse_eq_gensItems, traverse_eq_gensItems, hg]; exact b3
    refine ⟨⟨?_, ?_, ?_, ?_, ?_⟩, hperm, (by simp; omega), by simp, by simp⟩
    · intro g' hg'
      rcases List.mem_cons.mp hg' with rfl | h
      · exact b1
      · exact b2 g' h
    · exact nodup_keys_perm hperm hI.nodup
    · show t.count = _
      rw [hperm.length_eq]; exact hI.count
    · intro hu g' rest' hgr
      simp only [List.cons.injEq] at hgr
      obtain ⟨rfl, _⟩ := hgr
      show t.cap ≤ _
      rw [b4]; exact hI.capLe hu head olds hg
    · intro h; simp at h

theorem relocate_inv (sp : Spec) (hf : Nat → Nat) (ok : SpecOK sp) (t : Table) (hI : TableInv sp hf t)
    (stop : Option Nat) :
    TableInv sp hf (relocate sp hf t stop) ∧ (traverse (relocate sp hf t stop)).Perm (traverse t) := by
  obtain ⟨c, p, l, _, _⟩ := relocate_core sp hf ok t hI.core stop
  exact ⟨⟨c, fun h => Nat.le_trans l (hI.single h)⟩, p⟩

/-- **later operations complete the migration**: without a stop request, and as long as the head
    bucket array has a slot for every element, exactly one generation remains -/
theorem relocate_complete (sp : Spec) (hf : Nat → Nat) (ok : SpecOK sp) (t : Table)
    (hI : TableCore sp hf t) (head : Gen) (olds : List Gen) (hg : t.gens = head :: olds)
    (hroom : sp.unlimited = true ∨ (traverse t).length ≤ 2 ^ head.L * sp.maxCount) :
    (relocate sp hf t none).gens.length = 1 := by
  unfold relocate
  rw [hg]
  simp only
  have hH := hI.gens head (by rw [hg]; simp)
  obtain ⟨_, _, _, _, _, b6, b7⟩ := relocGens_spec sp hf ok none head hH olds 0
    (fun g h => hI.gens g (by rw [hg]; simp [h]))
  have hns := b7 rfl (by
    rcases hroom with h | h
    · exact Or.inl h
    · right; rw [traverse_eq_gensItems, hg] at h; simpa using h)
  have := b6 hns
  generalize relocGens sp hf head olds 0 none = r at *
  obtain ⟨head', olds', moved', stopped'⟩ := r
  simp only at this ⊢
  rw [this]; rfl

/-- the newest bucket array stays the newest and keeps its size during the migration -/
theorem relocate_head (sp : Spec) (hf : Nat → Nat) (ok : SpecOK sp) (t : Table) (hI : TableCore sp hf t)
    (stop : Option Nat) (head : Gen) (olds : List Gen) (hg : t.gens = head :: olds) :
    ∃ head' olds', (relocate sp hf t stop).gens = head' :: olds' ∧ head'.L = head.L := by
  unfold relocate
  rw [hg]
  simp only
  have hH := hI.gens head (by rw [hg]; simp)
  obtain ⟨_, _, _, b4, _⟩ := relocGens_spec sp hf ok stop head hH olds 0
    (fun g h => hI.gens g (by rw [hg]; simp [h]))
  generalize relocGens sp hf head olds 0 stop = r at *
  obtain ⟨head', olds', moved', stopped'⟩ := r
  exact ⟨head', olds', rfl, b4⟩

end Momo.HT
