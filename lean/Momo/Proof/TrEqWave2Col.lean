import Momo.Translated.Wave2
import Momo.Proof.TrEqMisc2Col
/-!
  C18: `DataColumnList::pvGetOffset` (DataColumn.h) as a whole — the two reads of `mAddends` at the vertices and the `size_t` sum —
  as translated from the header (area Wave2, lean/Momo/Translated/Wave2.lean), fed with the translated `GetVertices` of area Misc,
  is the model's `Col.getOffsetWith` (`Momo/Model/Columns.lean`).
  The generated definitions are rewritten by tools/translate.py from the current headers on every check; a changed
  function body makes the equalities below fail to elaborate.
-/
namespace Momo.TrEq
open Momo Momo.Seg

/-- `pvGetOffset(columnCode)`: `mAddends[vertices.first] + mAddends[vertices.second]` (wrapping `size_t` sum) with the vertices of
    the translated `GetVertices`, for `logVertexCount < 64` and any 64-bit column code; `mAddends i` is `a.getD i 0` -/
theorem tr_col_pvGetOffset (c : Col.Cfg) (param : Nat) (a : Array Nat) (code : Nat) (hL : c.L < 64) (hcode : code < 2 ^ 64) :
    Tr.col_pvGetOffset (fun i => a.getD i 0) (Tr.col_GetVertices c.L c.codeBytes code param).1
        (Tr.col_GetVertices c.L c.codeBytes code param).2 = Col.getOffsetWith c param a code := by
  rw [getOffsetWith_translated c param a code hL hcode]
  rfl

end Momo.TrEq
