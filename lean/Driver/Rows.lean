import Momo.Model.Rows
import Driver.Engine
/-!
  Line protocol of the row hand-off model (C19), engine name `rows`.
  Blocks are named by the harness (canonical id = order of first appearance of the address), detached
  `Row` objects by handles. Every line is answered by running the small steps of `Momo.Rows.step`.

    reset <threads>                 fresh table, thread 0 = owner
    new <h> <blk>                   NewRow() answered block <blk>        -> ok fresh|reuse took=<k>
    pnew <h> <blk>                  same while disposer threads run      -> ok fresh|reuse
    add <h> | extract <i> <keep> <h> | remove <i> <keep> | clear | takeall | ptakeall
    move <h> <t>                    row object moved to thread t
    swap <h1> <h2>                  DataRow::Swap of two detached row objects
    dispose <h>                     complete ~DataRow on the holder's thread
    dbegin|dload|dwrite|dcas <h>    ~DataRow in single steps (dcas answers ok|fail)
    give <h> <t>                    handed to a running disposer thread (destroyed at an unknown time)
    join                            all disposer threads have finished
    st | rows | chainset            print the canonical state / the table rows / the free list as a sorted set
-/
open Momo.Rows
namespace Driver.Rows

structure DSt where
  s : St := init 1
  handles : List (Nat × Row) := []
  pending : List Nat := []

def fmtL (xs : List Nat) : String := "[" ++ " ".intercalate (xs.map toString) ++ "]"

def fmtO : Option Nat → String
  | none => "-"
  | some x => toString x

def insertSorted (x : Nat) : List Nat → List Nat
  | [] => [x]
  | y :: ys => if x ≤ y then x :: y :: ys else y :: insertSorted x ys

def sortNat (xs : List Nat) : List Nat := xs.foldl (fun acc x => insertSorted x acc) []

def holderOf (s : St) (r : Row) : Option Tid := (s.det.find? (fun p => p.1 == r)).map Prod.snd

def thrOf (s : St) (r : Row) : Option Tid :=
  (List.range s.thr.length).find? (fun t => (s.thr[t]?.bind PC.row) == some r)

def stateLine (d : DSt) : String :=
  let s := d.s
  let chain := chainFrom s.next (s.L.length + 2) s.head
  let dets := (sortNat (d.handles.map Prod.fst)).filterMap (fun h =>
    match d.handles.lookup h with
    | some r => if (detRows s).contains r then some s!"{h}:{r}" else none
    | none => none)
  s!"head={fmtO s.head} chain={fmtL chain} rows={fmtL s.table} alloc={allocCount s} det=[{" ".intercalate dets}] inflight={fmtL (sortNat (inflight s))}"

def bad (d : DSt) (what : String) : DSt × String := (d, "BAD " ++ what)

/-- complete `~DataRow` of block `r` by the thread that holds the detached row -/
def disposeBlk (s : St) (r : Row) : Option St :=
  match holderOf s r with
  | some t => dispose s t r
  | none => none

def disposeHandle (d : DSt) (h : Nat) : Option DSt :=
  match d.handles.lookup h with
  | some r => (disposeBlk d.s r).map (fun s' =>
      { d with s := s', pending := d.pending.filter (· != h), handles := d.handles.filter (fun p => p.1 != h) })
  | none => none

def doNew (d : DSt) (h blk : Nat) (par : Bool) : DSt × String :=
  -- a block that a running disposer thread was given can only come back through that thread's push
  let d1 : DSt := match d.pending.find? (fun p => d.handles.lookup p == some blk) with
    | some p => (disposeHandle d p).getD d
    | none => d
  let took := if d1.s.head.isSome then d1.s.L.length else 0
  let known := (places d1.s).contains blk
  match newRow d1.s blk none with
  | some s' =>
      let d2 := { d1 with s := s', handles := (h, blk) :: d1.handles.filter (fun p => p.1 != h) }
      (d2, if par then s!"ok {if known then "reuse" else "fresh"}"
           else s!"ok {if known then "reuse" else "fresh"} took={took}")
  | none => bad d1 s!"new: block {blk} is in use"

def step (d : DSt) : List String → DSt × String
  | ["reset", n] => ({ s := init (nat! n) }, "ok")
  | ["new", h, blk] => doNew d (nat! h) (nat! blk) false
  | ["pnew", h, blk] => doNew d (nat! h) (nat! blk) true
  | ["add", h] =>
      match d.handles.lookup (nat! h) with
      | some r => match Momo.Rows.step d.s (.add r) with
        | some s' => ({ d with s := s', handles := d.handles.filter (fun p => p.1 != nat! h) }, "ok")
        | none => bad d "add"
      | none => bad d "add: unknown handle"
  | ["extract", i, keep, h] =>
      match d.s.table[nat! i]?, Momo.Rows.step d.s (.extract (nat! i) (keep == "1")) with
      | some r, some s' => ({ d with s := s', handles := (nat! h, r) :: d.handles.filter (fun p => p.1 != nat! h) }, s!"blk={r}")
      | _, _ => bad d "extract"
  | ["remove", i, keep] =>
      match Momo.Rows.step d.s (.remove (nat! i) (keep == "1") none) with
      | some s' => ({ d with s := s' }, "ok")
      | none => bad d "remove"
  | ["takeall"] =>
      match Momo.Rows.step d.s .takeBegin with
      | some s1 => let k := s1.L.length; ({ d with s := takeAllFrom s1 none }, s!"took={k}")
      | none => bad d "takeall"
  | ["ptakeall"] =>
      match Momo.Rows.step d.s .takeBegin with
      | some s1 => ({ d with s := takeAllFrom s1 none }, "ok")
      | none => bad d "ptakeall"
  | ["clear"] =>
      match Momo.Rows.step d.s .takeBegin with
      | some s1 =>
          let k := s1.L.length
          let s2 := takeAllFrom s1 none
          let s3 := (List.range s2.table.length).foldl (fun s _ => stepD s (.remove (s.table.length - 1) true none)) s2
          ({ d with s := s3 }, s!"took={k}")
      | none => bad d "clear"
  | ["move", h, t] =>
      match d.handles.lookup (nat! h) with
      | some r => match holderOf d.s r with
        | some t0 => match Momo.Rows.step d.s (.handoff r t0 (nat! t)) with
          | some s' => ({ d with s := s' }, "ok")
          | none => bad d "move"
        | none => bad d "move: not detached"
      | none => bad d "move: unknown handle"
  | ["swap", h1, h2] =>
      -- DataRow::Swap of two detached row objects: each object stays with its thread and gets the other's block
      match d.handles.lookup (nat! h1), d.handles.lookup (nat! h2) with
      | some r1, some r2 =>
          match holderOf d.s r1, holderOf d.s r2 with
          | some t1, some t2 =>
              match Momo.Rows.step d.s (.handoff r1 t1 t2) with
              | some s1 => match Momo.Rows.step s1 (.handoff r2 t2 t1) with
                | some s2 =>
                    let hs := d.handles.map (fun p => if p.1 == nat! h1 then (p.1, r2) else if p.1 == nat! h2 then (p.1, r1) else p)
                    ({ d with s := s2, handles := hs }, "ok")
                | none => bad d "swap"
              | none => bad d "swap"
          | _, _ => bad d "swap: not detached"
      | _, _ => bad d "swap: unknown handle"
  | ["give", h, t] =>
      match d.handles.lookup (nat! h) with
      | some r => match holderOf d.s r with
        | some t0 => match Momo.Rows.step d.s (.handoff r t0 (nat! t)) with
          | some s' => ({ d with s := s', pending := d.pending ++ [nat! h] }, "ok")
          | none => bad d "give"
        | none => bad d "give: not detached"
      | none => bad d "give: unknown handle"
  | ["join"] =>
      let d' := d.pending.foldl (fun acc h => (disposeHandle acc h).getD acc) d
      if d'.pending.isEmpty then (d', "ok") else bad d' "join: a pending row could not be destroyed"
  | ["dispose", h] =>
      match disposeHandle d (nat! h) with
      | some d' => (d', "ok")
      | none => bad d "dispose"
  | ["dbegin", h] =>
      match d.handles.lookup (nat! h) with
      | some r => match holderOf d.s r with
        | some t => match Momo.Rows.step d.s (.dBegin t r) with
          | some s' => ({ d with s := s' }, "ok")
          | none => bad d "dbegin"
        | none => bad d "dbegin: not detached"
      | none => bad d "dbegin: unknown handle"
  | [op, h] =>
      if op == "dload" || op == "dwrite" || op == "dcas" then
        match d.handles.lookup (nat! h) with
        | some r => match thrOf d.s r with
          | some t =>
              let act : Act := if op == "dload" then .dLoad t else if op == "dwrite" then .dWrite t else .dCas t false
              match Momo.Rows.step d.s act with
              | some s' =>
                  if op == "dcas" then
                    if (inflight s').contains r then ({ d with s := s' }, "fail")
                    else ({ d with s := s', handles := d.handles.filter (fun p => p.1 != nat! h) }, "ok")
                  else ({ d with s := s' }, "ok")
              | none => bad d op
          | none => bad d (op ++ ": not in a destructor")
        | none => bad d (op ++ ": unknown handle")
      else bad d "op"
  | ["st"] => (d, stateLine d)
  | ["rows"] => (d, s!"rows={fmtL d.s.table}")
  | ["chainset"] =>
      (d, s!"chainset={fmtL (sortNat (chainFrom d.s.next (d.s.L.length + 2) d.s.head))} alloc={allocCount d.s} rows={fmtL d.s.table}")
  | _ => bad d "op"

def engine : Engine := { σ := DSt, init := fun _ => {}, step := step }

end Driver.Rows
