import Momo.Model.ArrSegFault
import Driver.ArrFault
/-!
  Line protocol of the fault-parametric SegmentedArray model (C04, C10).  Engine `segfault`.

  header   model segfault sqrt=0|1 L=n keeps=0|1 realloc=0|1 inplace=0|1 isz=<sizeof(Item)> tc=0|1 tm=0|1 ta=0|1 lo=0|1
  objects  slots 0..2; value arguments `v<id>` / `e<j>`; last token of a fallible operation = fault position (`-` or k)
  answer   `<ok|threw> <count> <capacity> <segments> <capacity of the pointer array>|<cells>|<memory-manager calls>|<ledger>`
           calls in bytes (pointer array: 8-byte items), refused calls in capitals; ledger: live item objects of all
           slots (`-` when lo=0), outstanding blocks of all slots in bytes ascending, ` !` after a bad deallocation
-/
open Momo.Arr Momo.Arr.Seg Momo.ArrF Momo.ArrF.Seg
namespace Driver.SegFault
open Driver.ArrFault (parseRef showCells showEv boolArg faultList sortNat pred live)

def showSEv (isz : Nat) (refused : Bool) : SEv → String
  | .item e => showEv isz refused e
  | .ptr e => showEv 8 refused e

def showSMEv (isz : Nat) : SMEv → String
  | .did e => showSEv isz false e
  | .refused e => showSEv isz true e

structure St where
  cfg : SCfg
  thr : Thr
  isz : Nat
  lo : Bool
  slots : List (Option (SState Nat)) := [none, none, none]
  sblocks : List Nat := []
  pblocks : List Nat := []
  objs : Nat := 0
  bad : Bool := false

def init (args : List String) : St :=
  { cfg := { lay := { sqrt := boolArg args "sqrt" false, L := nat! (kv args "L" "5") }, keeps := boolArg args "keeps" false,
             ptrRealloc := boolArg args "realloc" false, ptrInplace := boolArg args "inplace" false },
    thr := { copy := boolArg args "tc" true, move := boolArg args "tm" false, assign := boolArg args "ta" false },
    isz := nat! (kv args "isz" "1"), lo := boolArg args "lo" true }

def St.ledger (st : St) : String :=
  let blocks := sortNat (st.sblocks.map (· * st.isz) ++ st.pblocks.map (· * 8))
  s!"{if st.lo then toString st.objs else "-"} {" ".intercalate (blocks.map toString)}{if st.bad then " !" else ""}"

def St.showState (st : St) (s : SState Nat) : String :=
  s!"{s.cells.length} {Seg.capacity st.cfg s} {segCount s} {Momo.Arr.capacity st.cfg.segs s.segs}|{showCells s.cells}"

def St.runOn (st : St) (o : Nat) (s0 : SState Nat) (keepOnThrow : Bool) (k : String) (m : SFM Nat Unit) : St × String :=
  let x0 : SSys Nat := { cells := s0.cells, segs := s0.segs, faults := faultList k, sblocks := st.sblocks,
                         pblocks := st.pblocks, objs := st.objs, bad := st.bad }
  let r := m.run x0
  let threw := match r.1 with | .ok _ => false | .threw => true
  let y := r.2
  let st' : St := { st with sblocks := y.sblocks, pblocks := y.pblocks, objs := y.objs, bad := y.bad,
                            slots := st.slots.set o (if threw && !keepOnThrow then none else some y.st) }
  let shown := if threw && !keepOnThrow then "-" else st.showState y.st
  (st', s!"{if threw then "threw" else "ok"} {shown}|{" ".intercalate (y.evs.map (showSMEv st.isz))}|{st'.ledger}")

def getSlot (st : St) (i : Nat) : Option (SState Nat) := st.slots.getD i none

def step (st : St) (toks : List String) : St × String :=
  let cfg := st.cfg
  let thr := st.thr
  match toks with
  | ["new", o] => st.runOn (nat! o) SState.init true "-" (pure ())
  | ["cctor", d, s, f, k] =>
    match getSlot st (nat! s) with
    | some t => st.runOn (nat! d) (SState.initO t.segs.oracle) false k (copyCtorF cfg thr t (f == "1"))
    | none => (st, "no-object")
  -- `SegmentedArray::CreateCap(capacity)`: a local empty object, `pvIncCapacity(0, capacity)`; when that throws the local
  -- object is destroyed.  `CreateCrt(count, creator)`: `CreateCap(count)`, then `pvIncCount(count, creator)` constructs the
  -- items in the reserved segments; when a creator call throws, `pvIncCount` destroys what it built and the local object is
  -- destroyed: the statements of the shrinking copy constructor with the creator's values as source
  | ["newcap", o, n, k] =>
    st.runOn (nat! o) SState.init false k (SFM.tryCatch (incCapacityF cfg 0 (nat! n)) (do destructorF cfg; SFM.throw))
  | "crt" :: o :: k :: xs =>
    st.runOn (nat! o) SState.init false k (copyCtorF cfg thr { (SState.init : SState Nat) with cells := live xs } true)
  | ["del", o] =>
    match getSlot st (nat! o) with
    | some s =>
      let r := st.runOn (nat! o) s true "-" (destructorF cfg)
      ({ r.1 with slots := r.1.slots.set (nat! o) none }, r.2)
    | none => (st, "no-object")
  | [op, o] =>
    match getSlot st (nat! o) with
    | none => (st, "no-object")
    | some s =>
      match op with
      | "get" => st.runOn (nat! o) s true "-" (pure ())
      | _ => (st, "bad-op")
  | "insr" :: o :: idx :: k :: xs =>
    match getSlot st (nat! o) with
    | some s => st.runOn (nat! o) s true k (insertRangeF cfg thr (nat! idx) (live xs))
    | none => (st, "no-object")
  | [op, a, b] =>
    match getSlot st (nat! a) with
    | none => (st, "no-object")
    | some s =>
      match op with
      | "oracle" => st.runOn (nat! a) { s with segs := { s.segs with oracle := b == "1" } } true "-" (pure ())
      | _ => (st, "bad-op")
  | [op, a, b, c] =>
    match getSlot st (nat! a) with
    | none => (st, "no-object")
    | some s =>
      let run := st.runOn (nat! a) s true
      match op with
      | "reserve" => run c (reserveOpF cfg (nat! b))
      | "shrinkto" => run c (shrinkOpF cfg (nat! b))
      | "set" => st.runOn (nat! a) (Seg.setItem s (nat! b) (.live (nat! c))) true "-" (pure ())
      | _ => (st, "bad-op")
  | [op, a, b, c, d] =>
    match getSlot st (nat! a) with
    | none => (st, "no-object")
    | some s =>
      let run := st.runOn (nat! a) s true
      match op with
      | "emplb" => run d (addBackCrtF cfg thr (b == "m") (parseRef c))
      | "setc" => run d (setCountF cfg thr (nat! b) (parseRef c))
      | "rem" => run d (removeF cfg thr (nat! b) (nat! c))
      | "remif" => run d (do let _ ← removeIfF cfg thr (liftPred (pred (nat! b) (nat! c))); pure ())
      | _ => (st, "bad-op")
  | [op, a, b, c, d, e] =>
    match getSlot st (nat! a) with
    | none => (st, "no-object")
    | some s =>
      let run := st.runOn (nat! a) s true
      match op with
      | "empl" => run e (insertCrtF cfg thr (nat! b) (c == "m") (parseRef d))
      | "insn" => run e (insertNF cfg thr (nat! b) (nat! c) (parseRef d))
      | _ => (st, "bad-op")
  | _ => (st, "bad-op")

def engine : Engine := { σ := St, init := init, step := step }

end Driver.SegFault
