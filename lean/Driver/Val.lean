import Momo.Model.Val
import Momo.Model.Seg
import Driver.Engine
/-!
  Line protocol of the value-semantics model (C14), engine `val`.

  header: `model val kind=<array|seg|hash|tree|one> icap=N crew=0|1 aux=N triv=0|1 mov=0|1 sel=N
           pocca=0|1 pocma=0|1 pocs=0|1 empty=0|1 ord=0|1 mv=0|1 seg=<cnst|sqrt> l0=N slots=N`
  lists: `1,2,3`, `-` = empty list; block lists: `1,2;_;3` (`_` = empty block), `-` = no block.

  ops (slots are numbers):
    reset | new i m | copy j i | copym j i m | move j i | swap i j | cas i j | mas i j | drop i |
    clear i keep | set i cap inl cells | wmovea j i a keep cap inl cells | wcas i j |
    wmas i j keep cap inl cells | path nma pocma pocca pocs
  answer: `ok|crash | <slot>:{m=.. cap=.. x=.. b=..} … | c=<copies> m=<moves|*> A=<mgrs> F=<mgrs|*> L=<mgrs> st=<0|1>`
-/
open Momo.Val
namespace Driver.Val

structure St where
  cfg : Cfg
  w : World := World.init
  ord : Bool := true      -- items inside a block are printed in storage order (otherwise sorted)
  mv : Bool := true       -- the number of element moves is predicted exactly
  cnt : Bool := true      -- element constructions are counted by the harness (instrumented element type)
  xf : Bool := true       -- the managers a copy construction frees through are predicted exactly
  slots : Nat := 6
  seqKind : Bool := false -- array / seg: Clear(false) frees nothing

def mkKind (args : List String) : Kind :=
  let kind := kv args "kind" "hash"
  let f : Momo.Seg.Func := if kv args "seg" "cnst" == "sqrt" then .sqrt else .cnst
  let l0 := nat! (kv args "l0" "2")
  { icap := nat! (kv args "icap" "0"),
    crewPtr := kv args "crew" "0" == "1",
    ctorAux := nat! (kv args "aux" "0"),
    trivial := kv args "triv" "0" == "1",
    movable := kv args "mov" "1" == "1",
    arrayStyle := kind == "array",
    rebuild := match kind with
      | "tree" => rebuildSame
      | "seg" => rebuildSeg (Momo.Seg.itemCount f l0)
      | _ => rebuildOne }

def init (args : List String) : St :=
  let selAdd := nat! (kv args "sel" "0")
  { cfg := { k := mkKind args, sel := fun m => m + selAdd,
             pocca := kv args "pocca" "0" == "1", pocma := kv args "pocma" "0" == "1",
             pocs := kv args "pocs" "0" == "1", isEmpty := kv args "empty" "0" == "1" },
    ord := kv args "ord" "1" == "1", mv := kv args "mv" "1" == "1", cnt := kv args "cnt" "1" == "1",
    xf := kv args "xf" "1" == "1", seqKind := (kv args "kind" "hash" == "array" || kv args "kind" "hash" == "seg"), slots := nat! (kv args "slots" "6") }

def parseList (s : String) : List Nat :=
  if s == "-" || s == "_" || s == "" then [] else (s.splitOn ",").map nat!

def parseCells (s : String) : List (List Nat) :=
  if s == "-" || s == "" then [] else (s.splitOn ";").map parseList

def sortNat (xs : List Nat) : List Nat := xs.mergeSort (fun a b => a ≤ b)

def dedupSorted : List Nat → List Nat
  | a :: b :: r => if a == b then dedupSorted (b :: r) else a :: dedupSorted (b :: r)
  | l => l

def showList (xs : List Nat) : String := if xs.isEmpty then "-" else ",".intercalate (xs.map toString)
def showSet (xs : List Nat) : String := showList (dedupSorted (sortNat xs))

def showCells (ord : Bool) (ls : List (List Nat)) : String :=
  if ls.isEmpty then "-" else
  ";".intercalate (ls.map (fun l => if l.isEmpty then "_" else ",".intercalate ((if ord then l else sortNat l).map toString)))

def showCont (s : St) (H : Heap) (c : Cont) : String :=
  let m := match c.mgr with
    | some m => toString m
    | none => "-"
  s!"m={m} cap={c.cap} x={showList (if s.ord then c.inl else sortNat c.inl)} b={showCells s.ord (layout H c)}"

def liveMgrs (s : St) : List Nat :=
  (List.range s.slots).flatMap (fun i =>
    match s.w.objs i with
    | some c => c.owned.filterMap (fun h => (s.w.heap.get h).map (·.mgr))
    | none => [])

def showWorld (s : St) : String :=
  " ".intercalate ((List.range s.slots).filterMap (fun i =>
    (s.w.objs i).map (fun c => s!"{i}:\{{showCont s s.w.heap c}}")))

def evSummary (s : St) (evs : List Ev) (exactFrees : Bool) (exactCopies : Bool := true) : String :=
  -- numbers ≥ 1000000 stand for multimap keys without values: no element object behind them
  let copies := (evs.filter (fun e => match e with | .copy x => x < 1000000 | _ => false)).length
  let moves := (evs.filter (fun e => match e with | .move x => x < 1000000 | _ => false)).length
  let al := evs.filterMap (fun e => match e with | .alloc m _ => some m | _ => none)
  let fr := evs.filterMap (fun e => match e with | .free m _ => some m | _ => none)
  s!"c={if s.cnt && exactCopies then toString copies else "*"} m={if s.mv && s.cnt then toString moves else "*"} A={showSet al} F={if exactFrees then showSet fr else "*"}"

/-- run one value operation; `srcTgt` = (source slot, target slot) for the "stolen" flag -/
def doOp (s : St) (op : Op) (srcTgt : Option (Nat × Nat)) (exactFrees : Bool := true) (events : Bool := true)
    (exactCopies : Bool := true) : St × String :=
  let before := match srcTgt with
    | some (src, _) => ((s.w.objs src).map Cont.body).getD []
    | none => []
  match step s.cfg s.w op with
  | none => (s, s!"crash | {showWorld s}")
  | some (w', evs) =>
    let s' := { s with w := w' }
    let st := match srcTgt with
      | some (_, tgt) =>
        let after := ((w'.objs tgt).map Cont.body).getD []
        if !before.isEmpty && before == after then " st=1" else " st=0"
      | none => ""
    let ev := if events then s!" | {evSummary s' evs exactFrees exactCopies}" else ""
    (s', s!"ok | {showWorld s'}{ev} L={showSet (liveMgrs s')}{st}")

def b! (t : String) : Bool := t == "1"

def step (s : St) (toks : List String) : St × String :=
  match toks with
  | ["reset"] => ({ s with w := World.init }, "ok")
  | ["new", i, m] => doOp s (.new (nat! i) (nat! m)) none
  | ["copy", j, i] => doOp s (.copyCtor (nat! j) (nat! i)) none (exactFrees := s.xf)
  | ["copym", j, i, m] => doOp s (.copyCtorM (nat! j) (nat! i) (nat! m)) none (exactFrees := s.xf)
  | ["move", j, i] => doOp s (.moveCtor (nat! j) (nat! i)) (some (nat! i, nat! j))
  | ["swap", i, j] => doOp s (.swap (nat! i) (nat! j)) (some (nat! j, nat! i))
  | ["cas", i, j] => doOp s (.copyAssign (nat! i) (nat! j)) none (exactFrees := s.xf)
  | ["mas", i, j] => doOp s (.moveAssign (nat! i) (nat! j)) (some (nat! j, nat! i))
  | ["drop", i] => doOp s (.destroy (nat! i)) none
  | ["clear", i, keep] =>
    -- Clear(false) of a hash table / data table gives pool blocks back: not predicted
    doOp s (.clear (nat! i) (nat! keep)) none (exactFrees := nat! keep == 0 || s.seqKind)
  | ["set", i, cap, inl, cells] =>
    doOp s (.mutate (nat! i) (parseList inl) (parseCells cells) (nat! cap)) none (events := false)
  | ["wmovea", j, i, a, keep, cap, inl, cells] =>
    doOp s (.wMoveCtorA (nat! j) (nat! i) (nat! a) ⟨parseList inl, parseCells cells, nat! cap⟩ (nat! keep))
      (some (nat! i, nat! j)) (exactFrees := false) (exactCopies := s.cfg.k.movable)
  | ["wcas", i, j] => doOp s (.wCopyAssign (nat! i) (nat! j)) none (exactFrees := s.xf)
  | ["wmas", i, j, keep, cap, inl, cells] =>
    doOp s (.wMoveAssign (nat! i) (nat! j) ⟨parseList inl, parseCells cells, nat! cap⟩ (nat! keep))
      (some (nat! j, nat! i)) (exactFrees := false) (exactCopies := s.cfg.k.movable)
  | ["path", nma, pocma, pocca, pocs] =>
    let p := assignPath (b! nma) (b! pocma) (b! pocca) (b! pocs)
    (s, match p with
      | .moveAssign => "move-assign"
      | .copyAssign => "copy-assign"
      | .swap => "swap"
      | .reconstruct => "reconstruct")
  | ["table", op, pocca, pocma, pocs, empty, dst, src] =>
    let t : Traits := ⟨b! pocca, b! pocma, b! pocs, b! empty⟩
    let o := match op with
      | "mas" => momoMoveAssign t (nat! dst) (nat! src)
      | "cas" => momoCopyAssign t (nat! dst) (nat! src)
      | _ => momoMoveCtorA (nat! src) (nat! dst)
    (s, s!"{o.alloc} {match o.how with | .steal => "steal" | .elementwise => "elementwise" | .copyAll => "copy"}")
  | _ => (s, "bad-op")

def engine : Engine := { σ := St, init := init, step := step }

end Driver.Val
