import Momo.Model.HashMeta
import Driver.Engine
/-! Line protocol of the hash-metadata model (C12). -/
open Momo.HashMeta
namespace Driver.HashMeta

structure St where
  b4 : P4.Bucket := P4.Bucket.new 4 4 1
  b2 : O2.Bucket := O2.Bucket.new 3
  acc : Nat := 0     -- full-getter calls of the older table generations of one relocation (`growacc`)

def b2i (b : Bool) : Nat := if b then 1 else 0

/-- a byte array as a function -/
def ofArray (arr : Array Nat) (dflt : Nat) : Nat → Nat := fun j => arr.getD j dflt

/-- flatten the closure chain of a byte array (keeps long histories fast); the array is computed by the caller -/
@[noinline] def snapshot (n : Nat) (f : Nat → Nat) : Array Nat := ((List.range n).map f).toArray

def showB4 (b : P4.Bucket) : String :=
  s!"c={b.count} m={b.mpi} f={b2i b.isFull} w={b2i b.wasFull} n={b2i b.nonnull} | {joinNat ((List.range b.hc).map b.sh)}"

def showB2 (b : O2.Bucket) : String :=
  let hp := (List.range b.maxCount).map (fun i => if b.maxCount - b.cnt ≤ i then toString (b.hp i) else "-")
  s!"c={b.cnt} f={b2i b.isFull} | {joinNat ((List.range b.maxCount).map b.sh)} | {" ".intercalate hp}"

/-- `mask dec`: bit `j` of mask = full getter used for `L' = Lmin + j`; dec = reconstructed code where it is not -/
def partSweep (useFull : Nat → Bool) (dec : Nat) (Lmin Lmax : Nat) : String := Id.run do
  let mut mask := 0
  let mut any := false
  for j in [0:Lmax + 1 - Lmin] do
    if useFull (Lmin + j) then mask := mask + 2 ^ j else any := true
  return s!"{mask} {if any then toString dec else "-"}"

def fullCount (kind : String) (L L' : Nat) (bytes : List String) : Nat :=
  (bytes.filter (fun b =>
    if kind == "p4" then P4.useFull (nat! b) L L'
    else if kind == "o2" then O2.useFull (nat! b) L L'
    else false)).length

def step (s : St) : List String → St × String
  | ["p4enc", h, L, p] => (s, s!"{P4.encByte (nat! h) (nat! L) (nat! p)} {P4.shortHash (nat! h)}")
  | ["p4part", byte, short, idx, L, Lmin, Lmax] =>
      (s, partSweep (fun L' => P4.useFull (nat! byte) (nat! L) L') (P4.decode (nat! byte) (nat! short) (nat! idx) (nat! L))
            (nat! Lmin) (nat! Lmax))
  | ["o2enc", h, L, p] => (s, s!"{O2.encByte (nat! h) (nat! L) (nat! p)} {O2.shortHash (nat! h)}")
  | ["o2part", byte, short, idx, L, Lmin, Lmax] =>
      (s, partSweep (fun L' => O2.useFull (nat! byte) (nat! L) L') (O2.decode (nat! byte) (nat! short) (nat! idx) (nat! L))
            (nat! Lmin) (nat! Lmax))
  | ["b4", "new", hc, mc, minMpi] =>
      let b := P4.Bucket.new (nat! hc) (nat! mc) (nat! minMpi)
      ({ s with b4 := b }, showB4 b)
  | ["b4", "add", h, L, p] =>
      let b := s.b4.addCrt (nat! h) (nat! L) (nat! p)
      let arr := snapshot b.hc b.sh
      let b := { b with sh := ofArray arr 255 }
      ({ s with b4 := b }, showB4 b)
  | ["b4", "rem", index] =>
      let b := s.b4.remove (nat! index)
      let arr := snapshot b.hc b.sh
      let b := { b with sh := ofArray arr 255 }
      ({ s with b4 := b }, showB4 b)
  | ["b4", "part", index, idx, L, L'] =>
      let byte := s.b4.sh (s.b4.hc - 1 - nat! index)
      (s, if P4.useFull byte (nat! L) (nat! L') then "F"
          else toString (s.b4.getHashCodePart (nat! index) (nat! idx) (nat! L) (nat! L') 0))
  | ["b2", "new", mc] =>
      let b := O2.Bucket.new (nat! mc)
      ({ s with b2 := b }, showB2 b)
  | ["b2", "add", h, L, p] =>
      let b := s.b2.addCrt (nat! h) (nat! L) (nat! p)
      let a1 := snapshot b.maxCount b.sh
      let a2 := snapshot b.maxCount b.hp
      let b := { b with sh := ofArray a1 128, hp := ofArray a2 0 }
      ({ s with b2 := b }, showB2 b)
  | ["b2", "rem", index] =>
      let b := s.b2.remove (nat! index)
      let a1 := snapshot b.maxCount b.sh
      let a2 := snapshot b.maxCount b.hp
      let b := { b with sh := ofArray a1 128, hp := ofArray a2 0 }
      ({ s with b2 := b }, showB2 b)
  | ["b2", "part", index, idx, L, L'] =>
      (s, if O2.useFull (s.b2.hp (nat! index)) (nat! L) (nat! L') then "F"
          else toString (s.b2.getHashCodePart (nat! index) (nat! idx) (nat! L) (nat! L') 0))
  | ["one", "state", sz, h] => (s, toString (One.hashState (nat! sz) (nat! h)))
  | ["one", "part", sz, state] =>
      (s, if nat! sz < 8 then "F" else toString (One.getHashCodePart (nat! sz) (nat! state) 0))
  -- table level: how many of the listed elements make `pvRelocateItems` evaluate the hash function;
  -- `growacc` lines (older generations of the same relocation) are summed into the following `grow` line
  | "growacc" :: kind :: L :: L' :: bytes =>
      ({ s with acc := s.acc + fullCount kind (nat! L) (nat! L') bytes }, "-")
  | "grow" :: kind :: L :: L' :: bytes =>
      ({ s with acc := 0 }, toString (s.acc + fullCount kind (nat! L) (nat! L') bytes))
  | _ => (s, "bad-op")

def engine : Engine := { σ := St, init := fun _ => {}, step := step }

end Driver.HashMeta
