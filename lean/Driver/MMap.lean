import Momo.Model.MMap
import Driver.HashTable
/-!
  Line protocol of the HashMultiMap / stdish::unordered_multimap model (C08).
  Header: `model mmap kind=<bucket> n=… isz=… ial=… part=… fast=… reloc=… logstart=… hash=<family> maxfast=<1..15>`
  (the key-map arguments are those of the `hashtable` engine).
  Every answer ends with ` | A <summary> | B <summary>`; summary = key count, value count, the key table's
  count / capacity / generations / layout checksum, and a checksum over every value array in key
  traversal order (key, tag, representation tag incl. the raw state byte or the heap capacity, values).
-/
open Momo Momo.MMap
namespace Driver.MMap

abbrev M := MM HT.Table

structure St where
  sp : HT.Spec
  fam : Nat
  mf : Nat
  a : M
  b : M

def K (s : St) : KeyMap HT.Table := htKeyMap s.sp (HT.hashFam s.fam)

def init (args : List String) : St :=
  let n := nat! (kv args "n" "4")
  let sp := Driver.HashTable.mkSpec (kv args "kind" "LimP4") n (nat! (kv args "isz" "16")) (nat! (kv args "ial" "8"))
            (kv args "part" "0" == "1") (kv args "fast" "1" == "1") (kv args "reloc" "1" == "1")
            (nat! (kv args "fullFrom" (toString n))) (nat! (kv args "logstart" "4"))
  let fam := nat! (kv args "hash" "3")
  let k := htKeyMap sp (HT.hashFam fam)
  { sp := sp, fam := fam, mf := nat! (kv args "maxfast" "7"), a := MM.empty k, b := MM.empty k }

def summary (s : St) (m : M) : String :=
  s!"kc={((K s).keys m.km).length} vc={m.count} {Driver.HashTable.summary s.sp m.km} as={arrSum (K s) m}"

def tail (s : St) : String := s!" | A {summary s s.a} | B {summary s s.b}"

def repStr (a : VArr) : String :=
  match a.rep with
  | .none => "n"
  | .fast st => s!"f{statePool st}.{stateCount st}s{st}"
  | .heap cap => s!"h{cap}"

def dump (s : St) (m : M) : String :=
  " ".intercalate (((K s).keys m.km).map (fun k =>
    s!"{k}:{(K s).tag m.km k}[{repStr (getArr m.arrs k)};{",".intercalate ((getArr m.arrs k).bounds.map toString)}]"))

def outStr : HT.Outcome → String
  | .ok => "1"
  | .full => "E:runtime"
  | .badAlloc => "E:bad_alloc"
  | .invalid => "E:invalid_argument"

def derefStr (m : M) (it : List Nat × Nat) : String :=
  match itDeref m.arrs it with
  | some (k, v) => s!"{k}:{v}"
  | none => "end"

def pairsStr (ps : List (Nat × Nat)) : String := " ".intercalate (ps.map (fun (k, v) => s!"{k}:{v}"))

def step (s : St) (toks : List String) : St × String :=
  let k := K s
  let (s', o) : St × String :=
    match toks with
    | "add" :: key :: tg :: v :: f =>
      let (fl, _) := Driver.HashTable.parseFaults f
      let (m, out) := MM.add k s.mf s.a (nat! key) (nat! tg) (nat! v) fl (f.contains "fv")
      ({ s with a := m }, outStr out)
    | "addp" :: key :: v :: f =>
      if k.has s.a.km (nat! key) then
        let (m, out) := MM.add k s.mf s.a (nat! key) 0 (nat! v) {} (f.contains "fv")
        ({ s with a := m }, outStr out)
      else (s, "nokey")
    | "inskey" :: key :: tg :: f =>
      let (fl, _) := Driver.HashTable.parseFaults f
      let (m, out, ins) := MM.insertKey k s.a (nat! key) (nat! tg) fl
      ({ s with a := m }, if out == .ok then s!"{if ins then 1 else 0} {(getArr m.arrs (nat! key)).count}" else outStr out)
    | "remv" :: key :: i :: f =>
      let m := MM.removeValue k s.a (nat! key) (nat! i) (f.contains "fs")
      -- returned iterator: pvMakeIterator(keyIter, valueIndex, move = true)
      let ks := MM.keyIter k s.a (nat! key) (f.contains "mv")
      ({ s with a := m }, derefStr m (itMove m.arrs ks (nat! i)))
    | "remvals" :: key :: f =>
      let m := MM.removeValues k s.a (nat! key)
      -- returned iterator: pvMakeIterator(std::next(hashMapIter)) = first pair of the keys that follow
      let ks := (MM.keyIter k s.a (nat! key) (f.contains "mv")).drop 1
      ({ s with a := m }, derefStr m (itMove m.arrs ks 0))
    | ["remkey", key] =>
      let has := k.has s.a.km (nat! key)
      let (m, n) := MM.removeKey k s.a (nat! key)
      ({ s with a := m }, s!"{if has then 1 else 0} {n}")
    | "remkeyi" :: key :: f =>
      if f.contains "fk" then (s, "E:user") else
      let ks := (MM.keyIter k s.a (nat! key) (f.contains "mv")).drop 1
      let (m, _) := MM.removeKey k s.a (nat! key)
      ({ s with a := m }, match ks with | [] => "end" | x :: _ => toString x)
    | ["rempred", md, r, kind] =>
      let p : Nat → Nat → Bool := fun key v => if kind == "1" then (key + v) % (nat! md) == nat! r else v % (nat! md) == nat! r
      let (m, n) := MM.removeIf k s.a p
      ({ s with a := m }, toString n)
    | ["reset", key, tg] => ({ s with a := MM.resetKey k s.a (nat! key) (nat! tg) }, "ok")
    | ["clear"] => ({ s with a := MM.clear k s.a }, "ok")
    | ["find", key] =>
      let a := getArr s.a.arrs (nat! key)
      if k.has s.a.km (nat! key) then (s, s!"1 {a.count} {k.tag s.a.km (nat! key)} {repStr a}") else (s, "0")
    | ["vals", key] => (s, joinNat (MM.wRange k s.a (nat! key)))
    | ["trav"] => (s, pairsStr (MM.iterAll k s.a))
    | ["keys"] => (s, " ".intercalate ((k.keys s.a.km).map (fun x => s!"{x}:{(getArr s.a.arrs x).count}")))
    | ["dump"] => (s, dump s s.a)
    | ["dumpb"] => (s, dump s s.b)
    | ["copyto"] =>
      match MM.copy k s.mf s.a with
      | some m => ({ s with b := m }, "ok")
      | none => (s, "E:throw")
    | ["moveto"] => ({ s with b := s.a, a := MM.empty k }, "ok")
    | ["swap"] => ({ s with a := s.b, b := s.a }, "ok")
    -- ---- stdish::unordered_multimap
    | ["wcount", key] => (s, toString (MM.wCount k s.a (nat! key)))
    | ["wrange", key] => (s, joinNat (MM.wRange k s.a (nat! key)))
    | ["wfind", key] =>
      (s, match MM.wRange k s.a (nat! key) with | [] => "0" | v :: _ => s!"1 {v}")
    | ["werasek", key] =>
      let (m, n) := MM.wEraseKey k s.a (nat! key)
      ({ s with a := m }, toString n)
    | ["werasei", key, i] =>
      -- iterator = equal_range(key).first + i (key iterator from Find: not movable)
      let one := (getArr s.a.arrs (nat! key)).count == 1
      let m := MM.wEraseAt k s.a (nat! key) (nat! i)
      ({ s with a := m }, if one then "end" else derefStr m (itMove m.arrs [nat! key] (nat! i)))
    | ["weraset", n] =>
      -- iterator = begin() + n (movable)
      match (MM.pairs k s.a)[nat! n]? with
      | none => (s, "bad-op")
      | some (key, _) =>
        let i := nat! n - groupStart (MM.pairs k s.a) key
        let ks := MM.keyIter k s.a key true
        let one := (getArr s.a.arrs key).count == 1
        let m := MM.wEraseAt k s.a key i
        ({ s with a := m }, if one then derefStr m (itMove m.arrs (ks.drop 1) 0) else derefStr m (itMove m.arrs ks i))
    | ["werange", i, j] =>
      match MM.wEraseRange k s.a (nat! i) (nat! j) with
      | some m => ({ s with a := m }, "ok")
      | none => (s, "E:invalid_argument")
    | ["werif", md, r, kind] =>
      let p : Nat → Nat → Bool := fun key v => if kind == "1" then (key + v) % (nat! md) == nat! r else v % (nat! md) == nat! r
      let (m, n) := MM.removeIf k s.a p
      ({ s with a := m }, toString n)
    | ["weq"] => (s, if MM.wEq k s.a s.b then "1" else "0")
    | _ => (s, "bad-op")
  (s', o ++ tail s')

def engine : Engine := { σ := St, init := init, step := step }

end Driver.MMap
