import Momo.Model.BTree
import Driver.Engine
/-!
  Line protocol of the B-tree model (C02). Header: `model btree cap=<n|default> step=<n> bg1=<0|1> lin=<0|1> multi=<0|1>`.
  Items are `key:id`; the order looks at the key only, so the ids show stability. Four container slots (for copy, move,
  swap, merge) and one holder for an extracted item. Positions are printed as in-order indexes (`idxOf`), traversals
  are produced with the modelled iterator (`next` from `GetBegin`, `prev` from `GetEnd`).
-/
open Momo.BTree
namespace Driver.BTree

abbrev Item := Nat × Nat

def lt (a b : Item) : Bool := a.1 < b.1

structure St where
  cfg : Cfg
  slots : Array (Tree Item) := #[{}, {}, {}, {}]
  ext : Option Item := none

def item! (s : String) : Item :=
  match s.splitOn ":" with
  | [k, i] => (nat! k, nat! i)
  | _ => (0, 0)

def showItem (x : Item) : String := s!"{x.1}:{x.2}"

def showItems (xs : List Item) : String :=
  if xs.isEmpty then "-" else " ".intercalate (xs.map showItem)

def showShape (cfg : Cfg) (t : Tree Item) : String :=
  match t.shape cfg with
  | none => "null"
  | some l => " ".intercalate (l.map (fun (b, c, k) => (if b then "L" else "I") ++ toString c ++ "/" ++ toString k))

def getSlot (s : St) (i : Nat) : Tree Item := s.slots.getD i {}

def setSlot (s : St) (i : Nat) (t : Tree Item) : St := { s with slots := s.slots.setIfInBounds i t }

def b2n (b : Bool) : Nat := if b then 1 else 0

def step (s : St) : List String → St × String
  | ["ins", sl, k, id] =>
      let t := getSlot s (nat! sl)
      let r := Tree.insert lt s.cfg t (nat! k, nat! id)
      (setSlot s (nat! sl) r.1, s!"pos={r.1.idxOf r.2.1} ins={b2n r.2.2} n={r.1.count}")
  | ["add", sl, h, k, id] =>
      let t := getSlot s (nat! sl)
      let r := Tree.add s.cfg t (t.posOfIdx (nat! h)) (nat! k, nat! id)
      (setSlot s (nat! sl) r.1, s!"pos={r.1.idxOf r.2} n={r.1.count}")
  | "insr" :: sl :: items =>
      let t := getSlot s (nat! sl)
      let t' := Tree.insertRange lt s.cfg t (items.map item!)
      (setSlot s (nat! sl) t', s!"added={t'.count - t.count} n={t'.count}")
  | ["remk", sl, k] =>
      let t := getSlot s (nat! sl)
      let r := Tree.removeKey lt s.cfg t (nat! k, 0)
      (setSlot s (nat! sl) r.1, s!"removed={r.2} n={r.1.count}")
  | ["remi", sl, i] =>
      let t := getSlot s (nat! sl)
      let r := Tree.remove s.cfg t (t.posOfIdx (nat! i))
      (setSlot s (nat! sl) r.1, s!"pos={r.1.idxOf r.2} n={r.1.count}")
  | ["remr", sl, i, j] =>
      let t := getSlot s (nat! sl)
      let b := t.posOfIdx (nat! i)
      let e := t.posOfIdx (nat! j)
      let r := Tree.removeRange s.cfg t b e (Tree.distance t b e)
      (setSlot s (nat! sl) r.1, s!"pos={r.1.idxOf r.2} n={r.1.count}")
  | ["remp", sl, m, r] =>
      let t := getSlot s (nat! sl)
      let t' := Tree.removeIf s.cfg (fun x => x.1 % (nat! m) == nat! r) t
      (setSlot s (nat! sl) t', s!"removed={t.count - t'.count} n={t'.count}")
  | ["ext", sl, i] =>
      let t := getSlot s (nat! sl)
      let p := t.posOfIdx (nat! i)
      let x := t.elemAt? p
      let r := Tree.remove s.cfg t p
      ({ setSlot s (nat! sl) r.1 with ext := x },
        s!"pos={r.1.idxOf r.2} item={(x.map showItem).getD "?"} n={r.1.count}")
  | ["reins", sl] =>
      match s.ext with
      | none => (s, "no-item")
      | some x =>
        let t := getSlot s (nat! sl)
        let r := Tree.insert lt s.cfg t x
        ({ setSlot s (nat! sl) r.1 with ext := if r.2.2 then none else some x },
          s!"pos={r.1.idxOf r.2.1} ins={b2n r.2.2} n={r.1.count}")
  | ["addext", sl, h] =>
      match s.ext with
      | none => (s, "no-item")
      | some x =>
        let t := getSlot s (nat! sl)
        let r := Tree.add s.cfg t (t.posOfIdx (nat! h)) x
        ({ setSlot s (nat! sl) r.1 with ext := none }, s!"pos={r.1.idxOf r.2} n={r.1.count}")
  | ["dropext"] => ({ s with ext := none }, "ok")
  | ["reset", sl, i, k] =>
      let t := getSlot s (nat! sl)
      let p := t.posOfIdx (nat! i)
      match t.elemAt? p with
      | some x => (setSlot s (nat! sl) (t.resetKey p (nat! k, x.2)), "ok")
      | none => (s, "bad-pos")
  | ["merge", a, b] =>
      if nat! a == nat! b then (s, s!"n={(getSlot s (nat! a)).count} {(getSlot s (nat! b)).count}") else
      let r := Tree.mergeTo lt s.cfg (getSlot s (nat! a)) (getSlot s (nat! b))
      (setSlot (setSlot s (nat! a) r.1) (nat! b) r.2, s!"n={r.1.count} {r.2.count}")
  | ["mergeg", a, b] =>
      let r := Tree.mergeGeneric lt s.cfg (getSlot s (nat! a)) (getSlot s (nat! b))
      (setSlot (setSlot s (nat! a) r.1) (nat! b) r.2, s!"n={r.1.count} {r.2.count}")
  | ["mergel", a, b] =>
      let r := Tree.mergeLinear lt s.cfg (getSlot s (nat! a)) (getSlot s (nat! b))
      (setSlot (setSlot s (nat! a) r.1) (nat! b) r.2, s!"n={r.1.count} {r.2.count}")
  | "mergeseq" :: sl :: items =>
      let t := getSlot s (nat! sl)
      let t' := (items.map item!).foldl (fun t x => (Tree.insert lt s.cfg t x).1) t
      (setSlot s (nat! sl) t', s!"n={t'.count}")
  | ["copy", a, b] =>
      let t := Tree.copy s.cfg (getSlot s (nat! a))
      (setSlot s (nat! b) t, s!"n={t.count}")
  | ["move", a, b] =>
      let t := getSlot s (nat! a)
      (setSlot (setSlot s (nat! a) {}) (nat! b) t, s!"n={t.count}")
  | ["swap", a, b] =>
      let ta := getSlot s (nat! a)
      let tb := getSlot s (nat! b)
      (setSlot (setSlot s (nat! a) tb) (nat! b) ta, "ok")
  | ["clear", sl] => (setSlot s (nat! sl) {}, "ok")
  | ["fwd", sl] => (s, showItems (getSlot s (nat! sl)).traverse)
  | ["bwd", sl] => (s, showItems (getSlot s (nat! sl)).traverseBack)
  | ["shape", sl] => (s, showShape s.cfg (getSlot s (nat! sl)))
  | ["q", sl, k] =>
      let t := getSlot s (nat! sl)
      let key : Item := (nat! k, 0)
      (s, s!"lb={t.idxOf (Tree.lowerBound lt s.cfg t key)} ub={t.idxOf (Tree.upperBound lt s.cfg t key)} find={t.idxOf (Tree.find lt s.cfg t key)} has={b2n (Tree.contains lt s.cfg t key)} kc={Tree.keyCount lt s.cfg t key}")
  | _ => (s, "bad-op")

def init (args : List String) : St :=
  let lin := kv args "lin" "1" == "1"
  let multi := kv args "multi" "0" == "1"
  if kv args "cap" "default" == "default" then { cfg := Cfg.default lin multi }
  else { cfg := { maxCap := nat! (kv args "cap" "32"), step := nat! (kv args "step" "4"),
                  blockGt1 := kv args "bg1" "1" == "1", linear := lin, multi := multi } }

def engine : Engine := { σ := St, init := init, step := step }

end Driver.BTree
