import Momo.Model.PoolU32
import Driver.Engine
open Momo.PoolU32
open Momo.Pool (Ev)
/-!
  Line protocol of the `MemPoolUInt32` model (C09).  Header: `model poolu32 arena=<absolute address of the arena>`.
  All addresses in op and answer lines are offsets from the arena start.

    consts | new N blockSize maxTotalBlockCount | alloc a0 a1 (answers of the manager to the 1st / 2nd request, -1 = bad_alloc)
    | free idx | dall | rp idx | dump | destroy | ctor N blockSize maxTotalBlockCount (the constructor's overflow test only)
-/
namespace Driver.PoolU32

structure St where
  arena : Int := 0
  C : Cfg := ⟨1, 4, 0⟩
  st : State := State.empty

def evStr (arena : Int) (evs : List Ev) : String :=
  if evs.isEmpty then "-" else
  " ".intercalate (evs.map fun e => match e with
    | .malloc b s => s!"M{b - arena}:{s}"
    | .free a s => s!"F{a - arena}:{s}")

def relList (arena : Int) (xs : List Int) : String := ",".intercalate (xs.map fun x => toString (x - arena))

def digest (arena : Int) (st : State) : String :=
  s!"n={st.allocCount} head={st.head} bufs=[{relList arena st.bufs}] cap={st.arrCap}"

def finish {α : Type} (s : St) (r : Res α) (show_ : α → String) : St × String :=
  match r with
  | .ok v st evs => ({ s with st := st }, s!"{show_ v} | {evStr s.arena evs} | {digest s.arena st}")
  | .badAlloc st evs => ({ s with st := st }, s!"E:bad_alloc | {evStr s.arena evs} | {digest s.arena st}")
  | .lengthError st => ({ s with st := st }, s!"E:length | - | {digest s.arena st}")
  | .stuck w => (s, s!"STUCK {w}")

def ans (arena : Int) (t : String) : Option Int := if t.startsWith "-" then none else some (arena + int! t)

def step (s : St) : List String → St × String
  | ["consts"] => (s, s!"{nullPtr} {sizeofU32} {sizeofPtr}")
  | ["new", n, bs, mt] =>
      let C := mkCfg (nat! n) (nat! bs) (nat! mt)
      ({ s with C := C, st := State.empty }, s!"S={C.S} maxBuf={C.maxBuf} bufSize={C.bufferSize}")
  -- the constructor alone (821-831): `if (mBlockSize > UIntConst::maxSize / blockCount) throw std::length_error`
  | ["ctor", n, bs, mt] =>
      let C := mkCfg (nat! n) (nat! bs) (nat! mt)
      if C.S > 18446744073709551615 / C.N then (s, "E:length")
      else (s, s!"ok S={C.S} maxBuf={C.maxBuf}")
  | "alloc" :: answers =>
      let orc : Oracle := fun k => (answers[k]?).bind (ans s.arena)
      finish s (allocate s.C s.st orc) toString
  | ["free", idx] => finish s (deallocate s.C s.st (nat! idx)) (fun _ => "ok")
  | ["dall"] => finish s (deallocateAll s.C s.st) (fun _ => "ok")
  | ["destroy"] => finish s (destroy s.C s.st) (fun _ => "ok")
  | ["rp", idx] =>
      match realPtr s.C s.st (nat! idx) with
      | some a => (s, s!"{a - s.arena} {bufferOf s.C (nat! idx)} {offsetOf s.C (nat! idx)}")
      | none => (s, "none")
  | ["dump"] =>
      let ch := match freeChain s.C s.st (s.st.bufs.length * s.C.N + 1) s.st.head with
        | some l => ",".intercalate (l.map toString)
        | none => "!"
      (s, s!"{digest s.arena s.st} chain=[{ch}] live=[{",".intercalate ((live s.C s.st).map toString)}]")
  | _ => (s, "bad-op")

def engine : Engine :=
  { σ := St, init := fun args => { arena := int! (kv args "arena" "0") }, step := step }

end Driver.PoolU32
