import Momo.Model.HashTable
import Driver.Engine
open Momo.HT
namespace Driver.HashTable

/-- `Spec` of a bucket kind as the headers define it; `n` = maxCount template argument,
    `isz`/`ial` = sizeof / alignment of the item, `part` = useHashCodePartGetter,
    `reloc` = ItemTraits::isNothrowRelocatable, `fast` = HashTraits::isFastNothrowHashable -/
def mkSpec (kind : String) (n isz ial : Nat) (part fast reloc : Bool) (fullFrom logStart : Nat) : Spec :=
  let base : Spec := { maxCount := n, quad := false, fullFrom := n, unlimited := false, bound := .none,
                       cap := .base, baseShift := true, logStart := logStart, nothrowReloc := false }
  match kind with
  | "LimP4" =>
    -- useHashCodePartGetter is only kept when sizeof(Item) >= 4; itemAlignment; minMemPoolIndex
    let part' := part && isz ≥ 4
    let itemAl := if !part' || ial > 4 then ial else 4
    let minIdx := if n > 1 && isz ≤ itemAl then 2 else 1
    { base with fullFrom := if minIdx ≥ n then 0 else n }
  | "LimP" | "LimP1" | "Lim4" => { base with fullFrom := fullFrom }
  | "UnlimP" => { base with maxCount := 18446744073709551615, unlimited := true, bound := .zero, fullFrom := 0 }
  | "One" => { base with maxCount := 1, fullFrom := 1, nothrowReloc := fast && reloc }
  | "Open2N2" => { base with quad := true, fullFrom := 0, bound := .mp2, cap := .ratio 11 12, baseShift := false,
                             nothrowReloc := fast && reloc }
  | "OpenN1" => { base with fullFrom := 0, bound := .mp3, cap := .ratio 5 6, baseShift := false,
                            nothrowReloc := fast && reloc }
  | "Open8" => { base with maxCount := 7, quad := true, fullFrom := 0, bound := .mp3, cap := .ratio 13 14,
                           baseShift := false, nothrowReloc := fast && reloc }
  | _ => base

structure St where
  sp : Spec
  fam : Nat
  /-- largest legal log2(bucket count): `HashSetBuckets::Create` throws `std::length_error("Invalid bucket count")` above it
      (HashSet.h:54-56, `maxBucketCount = maxSize / sizeof(Bucket)`; the harness reads it off the instantiated type) -/
  maxlog : Nat := 64
  a : Table := emptyTable
  b : Table := emptyTable
  handle : Option Item := none

def hf (s : St) : Nat → Nat := hashFam s.fam

def init (args : List String) : St :=
  let n := nat! (kv args "n" "4")
  { sp := mkSpec (kv args "kind" "LimP4") n (nat! (kv args "isz" "8")) (nat! (kv args "ial" "8"))
            (kv args "part" "0" == "1") (kv args "fast" "1" == "1") (kv args "reloc" "1" == "1")
            (nat! (kv args "fullFrom" (toString n))) (nat! (kv args "logstart" "4")),
    fam := nat! (kv args "hash" "3"),
    maxlog := nat! (kv args "maxlog" "64") }

def summary (sp : Spec) (t : Table) : String :=
  s!"c={t.count} cap={t.cap} g={",".intercalate (t.gens.map (fun g => toString g.L))} s={layoutSum sp t}"

def tail (s : St) : String := s!" | A {summary s.sp s.a} | B {summary s.sp s.b}"

def parseFaults (toks : List String) : Faults × Bool :=
  toks.foldl (fun (acc : Faults × Bool) t =>
    if t == "fg" then ({ acc.1 with refuseGrow := true }, acc.2)
    else if t == "fa" then ({ acc.1 with refuseAdd := true }, acc.2)
    else if t == "fh" then (acc.1, true)
    else if t.startsWith "rs=" then ({ acc.1 with relocStop := some (nat! (t.drop 3).toString) }, acc.2)
    else acc) ({}, false)

/-- the bucket-array size `Reserve(c)` asks `HashSetBuckets::Create` for (the loop of HashSet.h:696-705; the same loop as in
    `Momo.HT.reserve`, evaluated here without building the bucket array) -/
def reserveLog (sp : Spec) (t : Table) (c : Nat) : Nat :=
  let rec grow (fuel nl : Nat) : Nat :=
    match fuel with
    | 0 => nl
    | fuel+1 => if capacityOf sp nl ≥ c then nl else grow fuel (nl + 1)
  grow 64 (newLog sp t)

/-- `nl=<L>` on an insertion into a table without buckets: the hash traits answer `L` to `GetLogStartBucketCount`
    (an input of the operation, like the hash function) -/
def forcedLog (toks : List String) : Option Nat :=
  (toks.find? (fun t => t.startsWith "nl=")).map (fun t => nat! (t.drop 3).toString)

def outStr : Outcome → String
  | .ok => "1"
  | .full => "E:runtime"
  | .badAlloc => "E:throw"
  | .invalid => "E:invalid_argument"

def dumpTable (sp : Spec) (t : Table) : String :=
  " || ".intercalate (t.gens.map (fun g =>
    s!"L={g.L}" ++ String.join ((g.bs.zipIdx.filter (fun (b, _) =>
        !(b.items.isEmpty && b.wasFull == (emptyBucket sp).wasFull && b.bst == (0, 0)))).map (fun (b, i) =>
      s!" b{i}=[{",".intercalate (b.items.map (fun it => s!"{it.key}:{it.val}"))}]w{if b.wasFull then 1 else 0}p{maxProbe sp g.L b}"))))

def insertOp (s : St) (which : Bool) (k v : Nat) (ftoks : List String) : St × String :=
  let t := if which then s.b else s.a
  let (f, hashThrows) := parseFaults ftoks
  if hashThrows then (s, "E:user") else
  match findTable s.sp (hf s) t k with
  | some _ => (s, "0")
  | none =>
    -- pvAddGrow of a table without buckets: Buckets::Create(GetLogStartBucketCount()) before anything is changed
    if t.gens.isEmpty && (forcedLog ftoks).any (· > s.maxlog) then (s, "E:length") else
    let (t', out) := add s.sp (hf s) t ⟨k, v⟩ f
    ((if which then { s with b := t' } else { s with a := t' }), outStr out)

def step (s : St) (toks : List String) : St × String :=
  let (s', o) : St × String :=
    match toks with
    | "ins" :: k :: v :: f => insertOp s false (nat! k) (nat! v) f
    | "insb" :: k :: v :: f => insertOp s true (nat! k) (nat! v) f
    | ["find", k] =>
      match findTable s.sp (hf s) s.a (nat! k) with
      | some (gi, b, j) =>
        let g := s.a.gens.getD gi default
        (s, s!"1 {((bkt s.sp g.bs b).items.getD j default).val}")
      | none => (s, "0")
    | ["rem", k] =>
      match findTable s.sp (hf s) s.a (nat! k) with
      | some (gi, b, j) => ({ s with a := removePos s.sp s.a gi b j }, "1")
      | none => (s, "0")
    | ["rempred", m, r] =>
      let (t, n) := removePred s.a (fun it => it.key % (nat! m) == nat! r)
      ({ s with a := t }, toString n)
    | "reserve" :: c :: f =>
      -- Reserve: Buckets::Create is the first thing after the size loop; it throws before the table is touched
      if nat! c > s.a.cap && reserveLog s.sp s.a (nat! c) > s.maxlog then (s, "E:length") else
      let (t, out) := reserve s.sp (hf s) s.a (nat! c) (parseFaults f).1
      ({ s with a := t }, if out == .ok then "ok" else "E:throw")
    | ["clear", sh] => ({ s with a := clear s.sp s.a (sh == "1") }, "ok")
    | ["trav"] => (s, joinNat ((traverse s.a).map (·.key)))
    | ["dump"] => (s, dumpTable s.sp s.a)
    | ["dumpb"] => (s, dumpTable s.sp s.b)
    | ["copyto"] => ({ s with b := copyOf s.sp (hf s) s.a }, "ok")
    | ["moveto"] => ({ s with b := s.a, a := emptyTable }, "ok")
    | ["swap"] => ({ s with a := s.b, b := s.a }, "ok")
    | ["mergeto"] =>
      let (a', b') := mergeTo s.sp (hf s) s.a s.b
      ({ s with a := a', b := b' }, "ok")
    | ["ext", k] =>
      match findTable s.sp (hf s) s.a (nat! k) with
      | some (gi, b, j) =>
        let g := s.a.gens.getD gi default
        let it := (bkt s.sp g.bs b).items.getD j default
        ({ s with a := removePos s.sp s.a gi b j, handle := some it }, s!"1 {it.val}")
      | none => (s, "0")
    | "reins" :: f =>
      match s.handle with
      | none => (s, "none")
      | some it =>
        match findTable s.sp (hf s) s.a it.key with
        | some _ => (s, "0")
        | none =>
          let (t', out) := add s.sp (hf s) s.a it (parseFaults f).1
          if out == .ok then ({ s with a := t', handle := none }, "1") else (s, outStr out)
    | _ => (s, "bad-op")
  (s', o ++ tail s')

def engine : Engine := { σ := St, init := init, step := step }

end Driver.HashTable
