import Momo.Model.OpenBytes
import Driver.Engine
/-! Line protocol of the byte-level OpenN1 / Open8 bucket model (C13 / C01, harness/c13_openbytes.cpp). -/
open Momo.OpenB
namespace Driver.OpenBytes

structure St where
  b : Bucket := Bucket.new 3 true

def b2i (b : Bool) : Nat := if b then 1 else 0

/-- flatten the closure chain of the byte array (keeps long histories fast) -/
@[noinline] def snapshot (b : Bucket) : Bucket :=
  let arr := ((List.range (b.maxCount + 1)).map b.data).toArray
  { b with data := fun j => arr.getD j 0 }

def showB (b : Bucket) : String :=
  s!"c={b.count} f={b2i b.isFull} w={b2i b.wasFull} | {joinNat ((List.range (b.maxCount + 1)).map b.data)}"

def showFind (r : Option Nat) (vis : List Nat) : String :=
  let rs := match r with | some p => toString p | none => "-"
  s!"{rs} |{String.join (vis.map (fun v => " " ++ toString v))}"

def step (s : St) : List String → St × String
  | ["new", mc, rev] =>
      let b := Bucket.new (nat! mc) (nat! rev == 1)
      ({ b := b }, showB b)
  | ["clear"] =>
      let b := Bucket.new s.b.maxCount s.b.reverse
      ({ b := b }, showB b)
  | ["add", h] =>
      let b := snapshot (s.b.addCrt (nat! h))
      ({ b := b }, showB b)
  | ["rem", index] =>
      let b := snapshot (s.b.remove (nat! index))
      ({ b := b }, showB b)
  | ["ump", p] =>
      let b := snapshot (s.b.updateMaxProbe (nat! p))
      ({ b := b }, showB b ++ s!" | {b.getMaxProbe 20}")
  -- raw bytes written directly into mData (adversarial words, not only reachable states)
  | "raw" :: bytes =>
      let arr := (bytes.map nat!).toArray
      let b := { s.b with data := fun j => arr.getD j 0 }
      ({ b := b }, showB b)
  | ["short", h] => (s, toString (calcShortHash (nat! h)))
  -- find <variant> <hashCode> <predMask>: bit i of predMask = itemPred is true on physical slot i
  | ["find", kind, h, pm] =>
      let pred : Nat → Bool := fun i => (nat! pm).testBit i
      let sh := calcShortHash (nat! h)
      if kind == "n1" then
        (s, showFind (s.b.findN1 (nat! h) pred) (visited (candsN1 s.b.data sh s.b.maxCount) pred))
      else if kind == "sse" then
        (s, showFind (s.b.find8sse (nat! h) pred) (visited (ssePositions 32 (sseMask sh s.b.data)) pred))
      else if kind == "swar" then
        (s, showFind (s.b.find8swar (nat! h) pred) (visited (swarPositions 64 (swarMask sh (word8 s.b.data))) pred))
      else (s, "bad-op")
  | ["ctz15", m] => (s, s!"{ctz 32 (nat! m)} {ctzTab15 (nat! m)}")
  | _ => (s, "bad-op")

def engine : Engine := { σ := St, init := fun _ => {}, step := step }

end Driver.OpenBytes
