import Momo.Model.Ver
import Momo.Model.VerTableX
import Driver.Engine
/-!
  Line protocol of the model `Ver` (C15).  `model ver fam=hash|tree|mmap|arr|table [multi=1] [segA=0 segB=1]`.
  Container objects are named `A` / `B`; handles live in numbered slots of the driver.
  `new` starts a fresh scenario (empty objects, fresh crews, all slots forgotten).
  Every answer is `<result> | <contents of both objects>`; a rejected call answers `E:invalid_argument`.
-/
open Momo.Ver
namespace Driver.Ver

structure St where
  fam : String := "hash"
  multi : Bool := false
  segA : Bool := false
  segB : Bool := true
  hw : HWorld := ⟨fun _ => 0, ⟨0, [], 0⟩, ⟨1, [], 0⟩⟩
  tw : TWorld := ⟨fun _ => 0, ⟨0, [], false, false, false⟩, ⟨1, [], false, false, false⟩⟩
  mw : MWorld := ⟨fun _ => 0, ⟨0, 1, [], 0⟩, ⟨2, 3, [], 0⟩⟩
  arrA : Arr := ⟨0, [], false⟩
  arrB : Arr := ⟨1, [], true⟩
  bw : BWorld := ⟨fun _ => 0, ⟨0, 0, 1, [], 0⟩, ⟨1, 2, 3, [], 1000000⟩⟩
  hs : Array HPos := #[]
  ts : Array TIt := #[]
  vs : Array VIt := #[]
  ai : Array AIt := #[]
  rr : Array RowRef := #[]
  sl : Array Sel := #[]
  mb : Array MBounds := #[]

def fresh (s : St) : St :=
  { fam := s.fam, multi := s.multi, segA := s.segA, segB := s.segB,
    tw := ⟨fun _ => 0, ⟨0, [], false, false, s.multi⟩, ⟨1, [], false, false, s.multi⟩⟩,
    arrA := ⟨0, [], s.segA⟩, arrB := ⟨1, [], s.segB⟩ }

def init (args : List String) : St :=
  fresh { fam := kv args "fam" "hash", multi := kv args "multi" "0" == "1", segA := kv args "segA" "0" == "1",
          segB := kv args "segB" "1" == "1" }

def setAt {α} [Inhabited α] (a : Array α) (i : Nat) (x : α) : Array α :=
  if i < a.size then a.set! i x else (a ++ Array.replicate (i - a.size) default).push x

def ob (t : String) : Bool := t == "B"
def optNat (t : String) : Option Nat := if t == "-" then none else some (nat! t)
/-- `k:i` or `-` -/
def optPair (t : String) : Option (Nat × Nat) :=
  if t == "-" then none
  else match t.splitOn ":" with
    | [a, b] => some (nat! a, nat! b)
    | _ => none

def sorted (l : List Nat) : List Nat := (l.toArray.qsort (· < ·)).toList
def lst (l : List Nat) : String := "[" ++ joinNat l ++ "]"

def hposStr (h : HPos) : String :=
  match h.kp.cell, h.elem with
  | none, none => "null"
  | _, some k => s!"e{k}" ++ (if h.movable then "m" else "")
  | some _, none => "empty"
def titStr (h : TIt) : String :=
  match h.pos with
  | none => "null"
  | some i => s!"p{i}"
def vitStr (it : VIt) : String :=
  match it.vidx, it.kit.elem with
  | some i, some k => s!"v{k}:{i}"
  | some i, none => s!"v?:{i}"
  | none, _ => "end"

def hTail (w : HWorld) : String :=
  s!" | A={lst (sorted w.a.keys)} c{w.a.cap} B={lst (sorted w.b.keys)} c{w.b.cap}"
def b01 (b : Bool) : String := if b then "1" else "0"
def tTail (w : TWorld) : String :=
  s!" | A={lst w.a.keys} r{b01 w.a.root}p{b01 w.a.params} B={lst w.b.keys} r{b01 w.b.root}p{b01 w.b.params}"
def kvStr (m : MMap) : String :=
  let ks := sorted (m.kv.map (·.1))
  "{" ++ ";".intercalate (ks.map (fun k => s!"{k}:{lst ((m.vals k).getD [])}")) ++ "}" ++ s!"c{m.cap}"
def mTail (w : MWorld) : String := s!" | A={kvStr w.a} B={kvStr w.b}"
def aTail (s : St) : String := s!" | A={lst s.arrA.items} B={lst s.arrB.items}"
def rowsStr (t : Table) : String := "[" ++ " ".intercalate (t.rows.map (fun r => s!"{r.raw}:{r.a}:{r.b}")) ++ "]"
def tbTail (s : St) : String := s!" | A={rowsStr s.bw.a} B={rowsStr s.bw.b}"

def bad : String := "E:invalid_argument"

/-! ### hash -/

def hres : Option HRes → String
  | none => bad
  | some .unit => "ok"
  | some (.pos h) => s!"ok {hposStr h}"
  | some (.posFlag h b) => s!"ok {b01 b} {hposStr h}"
  | some (.key k) => s!"ok {k}"
  | some (.flag b) => s!"ok {b01 b}"
  | some (.num n) => s!"ok {n}"

def hStore (s : St) (slot : Option Nat) (r : Option HRes) : St :=
  match slot, r with
  | some d, some (.pos h) => { s with hs := setAt s.hs d h }
  | some d, some (.posFlag h _) => { s with hs := setAt s.hs d h }
  | _, _ => s

def hRun (s : St) (op : HOp) (slot : Option Nat) : St × String :=
  let r := s.hw.step op
  let s' := hStore { s with hw := r.1 } slot r.2
  (s', hres r.2 ++ hTail r.1)

def hStep (s : St) : List String → St × String
  | ["find", o, k, d] => hRun s (.find (ob o) (nat! k)) (some (nat! d))
  | ["begin", o, f, d] => hRun s (.begin_ (ob o) (nat! f)) (some (nat! d))
  | ["end", o, d] => hRun s (.end_ (ob o)) (some (nat! d))
  | ["mkpos", o, d] => hRun s (.makePos (ob o)) (some (nat! d))
  | ["deref", h] => hRun s (.deref (s.hs[nat! h]!)) none
  | ["inc", h, n, d] => hRun s (.inc (s.hs[nat! h]!) (optNat n)) (some (nat! d))
  | ["check", o, h, ae] => hRun s (.checkIt (ob o) (s.hs[nat! h]!) (ae == "1")) none
  | ["ins", o, k, nc, d] => hRun s (.insert (ob o) (nat! k) (nat! nc)) (some (nat! d))
  | ["insx", o, ef, k, nc, d] => hRun s (.insertExt (ob o) (ef == "1") (nat! k) (nat! nc)) (some (nat! d))
  | ["add", o, h, k, nc, d] => hRun s (.add (ob o) (s.hs[nat! h]!) (nat! k) (nat! nc)) (some (nat! d))
  | ["addx", o, h, ef, k, nc, d] => hRun s (.addExt (ob o) (s.hs[nat! h]!) (ef == "1") (nat! k) (nat! nc)) (some (nat! d))
  | ["rm", o, h, n, d] => hRun s (.remove (ob o) (s.hs[nat! h]!) (optNat n)) (some (nat! d))
  | ["rmx", o, h, ef, n, d] => hRun s (.removeExt (ob o) (s.hs[nat! h]!) (ef == "1") (optNat n)) (some (nat! d))
  | ["rmk", o, k] => hRun s (.removeKey (ob o) (nat! k)) none
  | ["rmif", o, m, r] => hRun s (.removeIf (ob o) (nat! m) (nat! r)) none
  | ["rk", o, h, k] => hRun s (.resetKey (ob o) (s.hs[nat! h]!) (nat! k)) none
  | ["clear", o, sh] => hRun s (.clear (ob o) (sh == "1")) none
  | ["reserve", o, n, nc] => hRun s (.reserve (ob o) (nat! n) (nat! nc)) none
  | "insr" :: o :: nc :: ks => hRun s (.insertRange (ob o) (ks.map nat!) (nat! nc)) none
  | ["swap"] => hRun s .swap none
  | ["merge", o, nc] => hRun s (.mergeTo (ob o) (nat! nc)) none
  | ["mergeself", o] => hRun s (.mergeSelf (ob o)) none
  | ["bb", o, i, bc] => hRun s (.bucketBounds (ob o) (nat! i) (nat! bc)) none
  | ["bi", o] => hRun s (.bucketIndex (ob o)) none
  | _ => (s, "bad-op")

/-! ### tree -/

def tres : Option TRes → String
  | none => bad
  | some .unit => "ok"
  | some (.it h) => s!"ok {titStr h}"
  | some (.itFlag h b) => s!"ok {b01 b} {titStr h}"
  | some (.key k) => s!"ok {k}"
  | some (.num n) => s!"ok {n}"

def tRun (s : St) (op : TOp) (slot : Option Nat) : St × String :=
  let r := s.tw.step op
  let s1 := { s with tw := r.1 }
  let s2 := match slot, r.2 with
    | some d, some (.it h) => { s1 with ts := setAt s1.ts d h }
    | some d, some (.itFlag h _) => { s1 with ts := setAt s1.ts d h }
    | _, _ => s1
  (s2, tres r.2 ++ tTail r.1)

def tStep (s : St) : List String → St × String
  | ["begin", o, d] => tRun s (.begin_ (ob o)) (some (nat! d))
  | ["end", o, d] => tRun s (.end_ (ob o)) (some (nat! d))
  | ["lower", o, k, d] => tRun s (.lower (ob o) (nat! k)) (some (nat! d))
  | ["upper", o, k, d] => tRun s (.upper (ob o) (nat! k)) (some (nat! d))
  | ["find", o, k, d] => tRun s (.find (ob o) (nat! k)) (some (nat! d))
  | ["deref", h] => tRun s (.deref (s.ts[nat! h]!)) none
  | ["inc", h, d] => tRun s (.inc (s.ts[nat! h]!)) (some (nat! d))
  | ["dec", h, d] => tRun s (.dec (s.ts[nat! h]!)) (some (nat! d))
  | ["check", o, h, ae] => tRun s (.checkIt (ob o) (s.ts[nat! h]!) (ae == "1")) none
  | ["ins", o, k, d] => tRun s (.insert (ob o) (nat! k)) (some (nat! d))
  | ["insx", o, ef, k, d] => tRun s (.insertExt (ob o) (ef == "1") (nat! k)) (some (nat! d))
  | ["add", o, h, k, d] => tRun s (.add (ob o) (s.ts[nat! h]!) (nat! k)) (some (nat! d))
  | ["addx", o, h, ef, k, d] => tRun s (.addExt (ob o) (s.ts[nat! h]!) (ef == "1") (nat! k)) (some (nat! d))
  | ["rm", o, h, d] => tRun s (.remove (ob o) (s.ts[nat! h]!)) (some (nat! d))
  | ["rmx", o, h, ef, d] => tRun s (.removeExt (ob o) (s.ts[nat! h]!) (ef == "1")) (some (nat! d))
  | ["rmr", o, b, e, d] => tRun s (.removeRange (ob o) (s.ts[nat! b]!) (s.ts[nat! e]!)) (some (nat! d))
  | ["rmk", o, k] => tRun s (.removeKey (ob o) (nat! k)) none
  | ["rmif", o, m, r] => tRun s (.removeIf (ob o) (nat! m) (nat! r)) none
  | ["rk", o, h, k] => tRun s (.resetKey (ob o) (s.ts[nat! h]!) (nat! k)) none
  | ["clear", o] => tRun s (.clear (ob o)) none
  | "insr" :: o :: ks => tRun s (.insertRange (ob o) (ks.map nat!)) none
  | ["swap"] => tRun s .swap none
  | ["merge", o] => tRun s (.mergeTo (ob o)) none
  | ["mergeself", o] => tRun s (.mergeSelf (ob o)) none
  | _ => (s, "bad-op")

/-! ### multimap (key iterators in `hs`, value iterators in `vs`) -/

def mres : Option MRes → String
  | none => bad
  | some .unit => "ok"
  | some (.kpos h) => s!"ok {hposStr h}"
  | some (.vit it) => s!"ok {vitStr it}"
  | some (.pair k v) => s!"ok {k} {v}"
  | some (.num n) => s!"ok {n}"

def mRun (s : St) (op : MOp) (slot : Option Nat) : St × String :=
  let r := s.mw.step op
  let s1 := { s with mw := r.1 }
  let s2 := match slot, r.2 with
    | some d, some (.kpos h) => { s1 with hs := setAt s1.hs d h }
    | some d, some (.vit it) => { s1 with vs := setAt s1.vs d it }
    | _, _ => s1
  (s2, mres r.2 ++ mTail r.1)

def mStep (s : St) : List String → St × String
  | ["fk", o, k, d] => mRun s (.findKey (ob o) (nat! k)) (some (nat! d))
  | ["kb", o, f, d] => mRun s (.keyBegin (ob o) (nat! f)) (some (nat! d))
  | ["begin", o, f, to, d] => mRun s (.begin_ (ob o) (nat! f) (optPair to)) (some (nat! d))
  | ["end", o, d] => mRun s (.end_ (ob o)) (some (nat! d))
  | ["kd", h] => mRun s (.kderef (s.hs[nat! h]!)) none
  | ["kinc", h, n, d] => mRun s (.kinc (s.hs[nat! h]!) (optNat n)) (some (nat! d))
  | ["vd", v] => mRun s (.vderef (s.vs[nat! v]!)) none
  | ["vinc", v, to, d] => mRun s (.vinc (s.vs[nat! v]!) (optPair to)) (some (nat! d))
  | ["add", o, k, v, nc, d] => mRun s (.add (ob o) (nat! k) (nat! v) (nat! nc)) (some (nat! d))
  | ["addat", o, h, v, d] => mRun s (.addAt (ob o) (s.hs[nat! h]!) (nat! v)) (some (nat! d))
  | ["insk", o, k, nc, d] => mRun s (.insertKey (ob o) (nat! k) (nat! nc)) (some (nat! d))
  | ["addk", o, h, k, nc, d] => mRun s (.addKey (ob o) (s.hs[nat! h]!) (nat! k) (nat! nc)) (some (nat! d))
  | ["rmat", o, h, i, to, d] => mRun s (.removeAt (ob o) (s.hs[nat! h]!) (nat! i) (optPair to)) (some (nat! d))
  | ["rm", o, v, to, d] => mRun s (.remove (ob o) (s.vs[nat! v]!) (optPair to)) (some (nat! d))
  | ["rmv", o, h, to, d] => mRun s (.removeValues (ob o) (s.hs[nat! h]!) (optPair to)) (some (nat! d))
  | ["rmkey", o, h, n, d] => mRun s (.removeKey (ob o) (s.hs[nat! h]!) (optNat n)) (some (nat! d))
  | ["rmkk", o, k] => mRun s (.removeKeyByKey (ob o) (nat! k)) none
  | ["rmif", o, mo, r] => mRun s (.removeIf (ob o) (nat! mo) (nat! r)) none
  | ["rk", o, h, k] => mRun s (.resetKey (ob o) (s.hs[nat! h]!) (nat! k)) none
  | ["mkit", o, h, i, to, d] => mRun s (.makeIt (ob o) (s.hs[nat! h]!) (nat! i) (optPair to)) (some (nat! d))
  | ["mkmut", o, v, d] => mRun s (.makeMutable (ob o) (s.vs[nat! v]!)) (some (nat! d))
  | ["chk", o, v, ae] => mRun s (.checkIt (ob o) (s.vs[nat! v]!) (ae == "1")) none
  | ["chkk", o, h, ae] => mRun s (.checkKey (ob o) (s.hs[nat! h]!) (ae == "1")) none
  | ["clear", o] => mRun s (.clear (ob o)) none
  | ["swap"] => mRun s .swap none
  | _ => (s, "bad-op")

/-! ### arrays -/

def arr (s : St) (o : Bool) : Arr := if o then s.arrB else s.arrA
def setArr (s : St) (o : Bool) (a : Arr) : St := if o then { s with arrB := a } else { s with arrA := a }
def arrOf (s : St) (it : AIt) : Arr := if it.arr == some 1 then s.arrB else s.arrA

def aOut (s : St) (r : String) : St × String := (s, r ++ aTail s)

def aStep (s : St) : List String → St × String
  | ["at", o, i] => aOut s (match (arr s (ob o)).at_ (nat! i) with | some v => s!"ok {v}" | none => bad)
  | ["back", o] => aOut s (match (arr s (ob o)).back with | some v => s!"ok {v}" | none => bad)
  | ["addb", o, v] =>
      let a := arr s (ob o)
      aOut (setArr s (ob o) { a with items := a.items ++ [nat! v] }) "ok"
  | ["addbn", o, v, cap] =>
      match (arr s (ob o)).addBackNogrow (nat! cap) (nat! v) with
      | some a => aOut (setArr s (ob o) a) "ok"
      | none => aOut s bad
  | ["ins", o, i, n, v] =>
      match (arr s (ob o)).insert (nat! i) (nat! n) (nat! v) with
      | some a => aOut (setArr s (ob o) a) "ok"
      | none => aOut s bad
  | ["rmb", o, n] =>
      match (arr s (ob o)).removeBack (nat! n) with
      | some a => aOut (setArr s (ob o) a) "ok"
      | none => aOut s bad
  | ["rm", o, i, n] =>
      match (arr s (ob o)).remove (nat! i) (nat! n) with
      | some a => aOut (setArr s (ob o) a) "ok"
      | none => aOut s bad
  | ["clear", o] => aOut (setArr s (ob o) { arr s (ob o) with items := [] }) "ok"
  | ["begin", o, d] => aOut { s with ai := setAt s.ai (nat! d) ⟨some (arr s (ob o)).id, 0⟩ } "ok i0"
  | ["end", o, d] =>
      let n := (arr s (ob o)).items.length
      aOut { s with ai := setAt s.ai (nat! d) ⟨some (arr s (ob o)).id, n⟩ } s!"ok i{n}"
  | ["nullit", d] => aOut { s with ai := setAt s.ai (nat! d) ⟨none, 0⟩ } "ok null"
  | ["itadd", h, dd, d] =>
      let it := s.ai[nat! h]!
      match it.add (arrOf s it).items.length (int! dd) with
      | some r => aOut { s with ai := setAt s.ai (nat! d) r } (if r.arr.isNone then "ok null" else s!"ok i{r.idx}")
      | none => aOut s bad
  | ["itsub", x, y] =>
      match (s.ai[nat! x]!).sameArray (s.ai[nat! y]!) with
      | some _ => aOut s s!"ok {Int.ofNat (s.ai[nat! x]!).idx - Int.ofNat (s.ai[nat! y]!).idx}"
      | none => aOut s bad
  | ["itlt", x, y] =>
      match (s.ai[nat! x]!).sameArray (s.ai[nat! y]!) with
      | some _ => aOut s s!"ok {b01 (decide ((s.ai[nat! x]!).idx < (s.ai[nat! y]!).idx))}"
      | none => aOut s bad
  | ["itd", h] =>
      let it := s.ai[nat! h]!
      match it.deref (arrOf s it) with
      | some _ => aOut s s!"ok i{it.idx}"
      | none => aOut s bad
  | _ => (s, "bad-op")

/-! ### table (row references in `rr`, selections and row pointers in `sl`, hash bounds in `mb`) -/

def refStr (r : RowRef) : String := s!"r{r.raw}"

/-- how the answer of a table entry point is printed; `quiet`: only `ok` (the row a bounds index denotes depends on the order
    inside the real multi-hash group, which is not modelled) -/
def bres (quiet : Bool) : Option BRes → String
  | none => bad
  | some .unit => "ok"
  | some (.ref r) => if quiet then "ok" else s!"ok {refStr r}"
  | some (.refFlag r b) => s!"ok {b01 b} {refStr r}"
  | some (.sel x) => s!"ok {lst x.raws}"
  | some (.bounds x) => s!"ok {lst (sorted x.raws)}"
  | some (.num n) => s!"ok {n}"

/-- runs one entry point of the model world; a returned handle is stored in slot `slot` of its kind -/
def bRun (s : St) (op : BOp) (slot : Option Nat) (quiet : Bool := false) : St × String :=
  let r := s.bw.step op
  let s1 := { s with bw := r.1 }
  let s2 := match slot, r.2 with
    | some d, some (.ref x) => { s1 with rr := setAt s1.rr d x }
    | some d, some (.refFlag x _) => { s1 with rr := setAt s1.rr d x }
    | some d, some (.sel x) => { s1 with sl := setAt s1.sl d x }
    | some d, some (.bounds x) => { s1 with mb := setAt s1.mb d x }
    | _, _ => s1
  (s2, bres quiet r.2 ++ tbTail s2)

/-- the same for the additional entry points of Model/VerTableX.lean -/
def bRunX (s : St) (op : BOpX) (slot : Option Nat) (quiet : Bool := false) : St × String :=
  let r := s.bw.stepX op
  let s1 := { s with bw := r.1 }
  let s2 := match slot, r.2 with
    | some d, some (.ref x) => { s1 with rr := setAt s1.rr d x }
    | some d, some (.refFlag x _) => { s1 with rr := setAt s1.rr d x }
    | _, _ => s1
  (s2, bres quiet r.2 ++ tbTail s2)

def bStep (s : St) : List String → St × String
  | ["updrowof", o, src, i, a, b, d] => bRunX s (.updRowOf (ob o) (ob src) (nat! i) (nat! a) (nat! b)) (some (nat! d))
  | ["mbadv", m, i] => bRunX s (.mbAdv (s.mb[nat! m]!) (nat! i)) none
  | ["mbit", m, i, d] => bRunX s (.mbIt (s.mb[nat! m]!) (nat! i)) (some (nat! d)) true
  | ["at", o, i, d] => bRun s (.at_ (ob o) (nat! i)) (some (nat! d))
  | ["get", r] => bRun s (.get (s.rr[nat! r]!)) none
  | ["add", o, a, b, d] => bRun s (.add (ob o) (nat! a) (nat! b)) (some (nat! d))
  | ["insrow", o, i, a, b, d] => bRun s (.insert (ob o) (nat! i) (nat! a) (nat! b)) (some (nat! d))
  | ["updrow", o, i, a, b, d] => bRun s (.updRow (ob o) (nat! i) (nat! a) (nat! b)) (some (nat! d))
  | ["updb", o, r, b] => bRun s (.updB (ob o) (s.rr[nat! r]!) (nat! b)) none
  | ["rmref", o, r] => bRun s (.rmRef (ob o) (s.rr[nat! r]!)) none
  | ["rmnum", o, i] => bRun s (.rmNum (ob o) (nat! i)) none
  | ["mkmut", o, r, d] => bRun s (.mkMut (ob o) (s.rr[nat! r]!)) (some (nat! d))
  | ["newrow", r] => bRun s (.newRow (s.rr[nat! r]!)) none
  | ["clear", o] => bRun s (.clear (ob o)) none
  | ["rmif", o, m, r] => bRun s (.rmIf (ob o) (nat! m) (nat! r)) none
  | "rmrefs" :: o :: keep :: rs => bRun s (.rmRefs (ob o) (rs.map (fun r => s.rr[nat! r]!)) (keep == "1")) none
  | ["select", o, m, r, d] => bRun s (.select (ob o) (nat! m) (nat! r)) (some (nat! d))
  | ["findu", o, v, d] => bRun s (.findU (ob o) (nat! v)) (some (nat! d))
  | ["selat", sl, i, d] => bRun s (.selAt (s.sl[nat! sl]!) (nat! i)) (some (nat! d))
  | ["selset", sl, i, r] => bRun s (.selSet (s.sl[nat! sl]!) (nat! i) (s.rr[nat! r]!)) (some (nat! sl))
  | ["seladd", sl, r] => bRun s (.selAdd (s.sl[nat! sl]!) (s.rr[nat! r]!)) (some (nat! sl))
  | ["selins", sl, i, r] => bRun s (.selIns (s.sl[nat! sl]!) (nat! i) (s.rr[nat! r]!)) (some (nat! sl))
  | ["selrm", sl, i, n] => bRun s (.selRm (s.sl[nat! sl]!) (nat! i) (nat! n)) (some (nat! sl))
  | ["selread", sl] => bRun s (.selRead (s.sl[nat! sl]!)) none
  | ["findm", o, v, d] => bRun s (.findM (ob o) (nat! v)) (some (nat! d))
  | ["mbat", m, i, d] => bRun s (.mbAt (s.mb[nat! m]!) (nat! i)) (some (nat! d)) true
  | _ => (s, "bad-op")

def step (s : St) (toks : List String) : St × String :=
  match toks with
  | ["new"] =>
      let s' := fresh s
      (s', "ok" ++ (match s.fam with
        | "hash" => hTail s'.hw | "tree" => tTail s'.tw | "mmap" => mTail s'.mw | "arr" => aTail s' | _ => tbTail s'))
  | _ =>
    match s.fam with
    | "hash" => hStep s toks
    | "tree" => tStep s toks
    | "mmap" => mStep s toks
    | "arr" => aStep s toks
    | "table" => bStep s toks
    | _ => (s, "bad-fam")

def engine : Engine := { σ := St, init := init, step := step }

end Driver.Ver
