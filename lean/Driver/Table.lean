import Momo.Model.Table
import Driver.Engine
/-!
  Line protocol of the DataTable model (C07).  Header: `model table keep=<0|1> maxeq=<n>`.

  The two parameters of the model that stand for hash-table behaviour are instantiated with
    acc h c v = h + f(c, v)            (a commutative AccumulateHashCode, as DataTraits requires)
    vis h hs  = the positions whose entry was inserted under exactly the hash code h, oldest first
  By the theorems of Props/C07 no answer printed here depends on this choice as long as the index invariant
  holds; the harness resynchronises (`copy`) when finding F9 breaks it in the implementation.
-/
open Momo.Table
namespace Driver.Table

def accD : Acc := fun h c v => (h + (v + 1) * (c * 7919 + 104729)) % 2147483647

def visD : Vis := fun h hs => ((hs.zipIdx).filter (fun p => p.1 == h)).map (·.2)

structure St where
  t : Table := {}
  keep : Bool := false
  maxEq : Nat := 6
  /-- the selection the harness currently holds: rows (values at selection time are the current ones) -/
  sel : List Nat := []
  keys : List (List Nat) := []

def P : Nat := 2147483647
def ck (h x : Nat) : Nat := (h * 1000003 + x + 1) % P
def ckList (h : Nat) (xs : List Nat) : Nat := xs.foldl ck h

def rowSum (keep : Bool) (rows : List Row) : Nat :=
  rows.foldl (fun h r => ckList (ck (ck h r.id) (if keep then r.num else 0)) r.vals) 0

def uSum (u : UIdx) : Nat := (u.ents.foldl (fun s e => s + ck (ck 0 17) e.id) 0) % P
def gSum (g : Group) : Nat := ckList (ck 0 g.key) g.raws
def mSum (m : MIdx) : Nat := (m.groups.foldl (fun s g => s + gSum g) 0) % P

def transient (t : Table) : Nat :=
  if t.uidx.any (fun u => u.posAdd.isSome || u.posRem.isSome) || t.midx.any (fun m => m.kAdd.isSome || m.kRem.isSome)
  then 1 else 0

def chkLine (s : St) : String :=
  let us := (s.t.uidx.zipIdx.map (fun (u, i) => s!" u{i}={u.ents.length}:{uSum u}"))
  let ms := (s.t.midx.zipIdx.map (fun (m, i) => s!" m{i}={m.groups.length}:{mSum m}"))
  s!"n={s.t.rows.length} r={rowSum s.keep s.t.rows} t={transient s.t}" ++ String.join us ++ String.join ms

def sortNat (l : List Nat) : List Nat := l.mergeSort (fun a b => a ≤ b)

def dumpLine (s : St) : String :=
  let rows := " ".intercalate (s.t.rows.map (fun r =>
    s!"{r.id}:{if s.keep then r.num else 0}:" ++ ",".intercalate (r.vals.map toString)))
  let us := s.t.uidx.map (fun u => " | u(" ++ ",".intercalate (u.cols.map toString) ++ ") " ++
    joinNat (sortNat (u.ents.map (·.id))))
  let ms := s.t.midx.map (fun m => " | m(" ++ ",".intercalate (m.cols.map toString) ++ ") " ++
    " ; ".intercalate ((m.groups.mergeSort (fun a b => a.key ≤ b.key)).map (fun g =>
      s!"{g.key}>" ++ ",".intercalate (g.raws.map toString))))
  rows ++ String.join us ++ String.join ms

/-- `c=v` tokens -/
def parseEqs (toks : List String) : List (Nat × Nat) :=
  toks.filterMap (fun tk => match tk.splitOn "=" with
    | [c, v] => some (nat! c, nat! v)
    | _ => none)

/-- predicate atoms (conjunction): `T` | `eq c v` | `mod c m r` | `lt c v` | `idmod m r` -/
def parsePred : List String → (Row → Bool)
  | "T" :: rest => parsePred rest
  | "eq" :: c :: v :: rest => fun r => item r.vals (nat! c) == nat! v && parsePred rest r
  | "mod" :: c :: m :: k :: rest => fun r => item r.vals (nat! c) % (nat! m) == nat! k && parsePred rest r
  | "lt" :: c :: v :: rest => fun r => decide (item r.vals (nat! c) < nat! v) && parsePred rest r
  | "idmod" :: m :: k :: rest => fun r => r.id % (nat! m) == nat! k && parsePred rest r
  | _ => fun _ => true

def splitBar (toks : List String) : List String × List String :=
  (toks.takeWhile (· != "|"), (toks.dropWhile (· != "|")).drop 1)

def resStr : Res → String
  | .ok => "ok"
  | .dup r i => s!"dup {r} {i}"
  | .badAlloc => "E:bad_alloc"
  | .outOfRange => "E:out_of_range"

/-- which multi indexes differ between two tables (bit i = index i) -/
def multiMask (a b : Table) : Nat :=
  ((a.midx.zip b.midx).zipIdx.foldl (fun s (p, i) => if p.1 == p.2 then s else s + 2 ^ i) 0)

/-- run a fallible row-level operation. Without a fault annotation: no fault. With `fault <mask>` the
    harness observed std::bad_alloc and which multi-hash groups changed their order: the fault position is the
    first one (pre, then index steps in order) for which the model throws and shows exactly this side effect. -/
def runFallible (s : St) (faultToks : List String) (op : Fault → Table × Res) : St × String :=
  match faultToks with
  | ["fault", mask] =>
    let cands := Fault.pre :: (List.range (s.t.uidx.length + s.t.midx.length)).map Fault.step
    match cands.find? (fun f => (op f).2 == .badAlloc && (op f).1.rows == s.t.rows && (op f).1.uidx == s.t.uidx
                                  && multiMask s.t (op f).1 == nat! mask) with
    | some f => ({ s with t := (op f).1 }, "E:bad_alloc")
    | none => (s, "bad-mask")
  | _ =>
    let (t', r) := op .none
    ({ s with t := t' }, resStr r)

def mkRow (id addr : String) (vals : List String) : Row := ⟨nat! id, nat! addr, 0, vals.map nat!⟩

def listSum (xs : List Nat) : String := s!"n={xs.length} h={ckList 0 xs}"

def optIdx (s : String) : Option Nat := if s == "-" then none else some (nat! s)

def keysOf (s : St) (cols : List Nat) : List (List Nat) :=
  s.sel.map (fun id => cols.map (item (valsOf s.t.rows id)))

def step (s : St) : List String → St × String
  | ["reset"] => ({ keep := s.keep, maxEq := s.maxEq }, "ok")
  | "uidx" :: cols =>
    match createUnique visD accD s.t (cols.map nat!) with
    | (t', .ok i) => ({ s with t := t' }, s!"ok {i}")
    | (_, .error raw) => (s, s!"E:user {raw}")
  | "midx" :: cols =>
    let (t', i) := createMulti visD accD s.t (cols.map nat!)
    ({ s with t := t' }, s!"ok {i}")
  | ["dropu"] => ({ s with t := dropUnique s.t }, "ok")
  | ["dropm"] => ({ s with t := dropMulti s.t }, "ok")
  | "add" :: id :: addr :: v0 :: v1 :: v2 :: v3 :: ft =>
    runFallible s ft (tryAdd visD accD s.keep s.t (mkRow id addr [v0, v1, v2, v3]))
  | "ins" :: n :: id :: addr :: v0 :: v1 :: v2 :: v3 :: ft =>
    runFallible s ft (tryInsert visD accD s.keep s.t (nat! n) (mkRow id addr [v0, v1, v2, v3]))
  | "updrow" :: n :: id :: addr :: v0 :: v1 :: v2 :: v3 :: ft =>
    runFallible s ft (tryUpdate visD accD s.keep s.t (nat! n) (mkRow id addr [v0, v1, v2, v3]))
  | "updcol" :: n :: col :: v :: ft =>
    runFallible s ft (tryUpdateCol visD accD s.t (nat! n) (nat! col) (nat! v))
  | ["rem", n, ko] =>
    match extract visD accD s.keep s.t (nat! n) (ko == "1") with
    | (t', some r) => ({ s with t := t' }, s!"ok {r.id}")
    | (_, none) => (s, "E:out_of_range")
  | ["remref", id] =>
    match extractRef visD accD s.keep s.t (nat! id) with
    | (t', some r) => ({ s with t := t' }, s!"ok {r.id}")
    | (_, none) => (s, "E:out_of_range")
  | "remrows" :: ids =>
    let t' := removeRows s.keep s.t (ids.map nat!)
    ({ s with t := t' }, s!"ok {t'.rows.length}")
  | "rempred" :: pred =>
    let t' := removePred s.keep s.t (parsePred pred)
    ({ s with t := t' }, s!"ok {s.t.rows.length - t'.rows.length}")
  | "assign" :: ids =>
    let t' := assign s.keep s.t (ids.map nat!)
    ({ s with t := t' }, s!"ok {t'.rows.length}")
  | ["clear"] => ({ s with t := clear s.t }, "ok")
  | "copy" :: rest =>
    let (pred, addrs) := splitBar rest
    let src := s.t.rows.filter (parsePred pred)
    let newRows := (src.zip (addrs.map nat!)).map (fun (r, a) => { r with addr := a })
    let t' := copyOf visD accD s.keep s.t newRows
    ({ s with t := t' }, s!"ok {t'.rows.length}")
  | ["chk"] => (s, chkLine s)
  | ["dump"] => (s, dumpLine s)
  | "sel" :: rest =>
    let (eqs, pred) := splitBar rest
    let r := select visD accD s.maxEq s.t (parseEqs eqs) (parsePred pred)
    ({ s with sel := r, keys := [] }, listSum r)
  | "cnt" :: rest =>
    let (eqs, pred) := splitBar rest
    (s, toString (selectCount visD accD s.maxEq s.t (parseEqs eqs) (parsePred pred)))
  | "fu" :: idx :: eqs =>
    match findByUnique visD accD s.t (optIdx idx) (parseEqs eqs) with
    | none => (s, "E:logic")
    | some [] => (s, "none")
    | some (x :: _) => (s, toString x)
  | "fm" :: idx :: eqs =>
    match findByMulti visD accD s.t (optIdx idx) (parseEqs eqs) with
    | none => (s, "E:logic")
    | some r => (s, listSum r)
  | "proj" :: d :: rest =>
    let (cols, pred) := splitBar rest
    let r := project visD accD s.t (cols.map nat!) (d == "1") (parsePred pred)
    (s, s!"n={r.length} h={r.foldl (fun h tup => ckList (ck h 7) tup) 0}")
  | "sort" :: cols =>
    let ks := sortKeys (keysOf s (cols.map nat!))
    ({ s with keys := ks }, s!"h={ks.foldl (fun h tup => ckList (ck h 7) tup) 0}")
  | "group" :: cols => (s, s!"g={(distinctKeys (keysOf s (cols.map nat!))).length}")
  | "lb" :: eqs => (s, toString (lowerBoundKeys s.keys ((parseEqs eqs).map (·.2))))
  | "ub" :: eqs => (s, toString (upperBoundKeys s.keys ((parseEqs eqs).map (·.2))))
  | _ => (s, "bad-op")

def init (args : List String) : St :=
  { keep := kv args "keep" "0" == "1", maxEq := nat! (kv args "maxeq" "6") }

def engine : Driver.Engine := { σ := St, init := init, step := step }

end Driver.Table
