import Momo.Model.ArrFault
import Driver.Engine
/-!
  Line protocol of the fault-parametric array model (C04, C10).  Engine `arrfault`.

  header   model arrfault intcap=N keeps=0|1 nr=0|1 nm=0|1 realloc=0|1 inplace=0|1 gor=0|1 isz=<sizeof(Item)>
                          tc=0|1 tm=0|1 ta=0|1 lo=0|1
           (tc / tm / ta: copy construction / construction from an rvalue / assignment can throw; lo: the
            element type counts its live objects)
  objects  live in slots 0..2; value arguments `v<id>` (outside the container) or `e<j>` (element j of the same
           container); the last token of every fallible operation is the fault position: `-` = no fault, `k` = the
           k-th (0-based) fallible step of the operation throws
  answer   `<ok|threw> <count> <capacity>|<cells>|<memory-manager calls>|<live objects> <blocks> <bad>`
           cells: item id, `~` = moved-from; calls: a<bytes> d<bytes> r<old>:<new> i<old>:<new>:<ok>, refused calls in
           capitals (A<bytes>, R<old>:<new>); live objects of all slots (`-` when lo=0); outstanding blocks of all
           slots in bytes, ascending; `bad` = `!` if the ledger saw a bad deallocation / destruction
-/
open Momo.Arr Momo.ArrF
namespace Driver.ArrFault

def parseRef (t : String) : Ref Nat :=
  if t.startsWith "e" then .elem (nat! (t.drop 1).toString) else .ext (.live (nat! (t.drop 1).toString))

def showCell : Cell Nat → String
  | .live v => toString v
  | .moved => "~"

def showCells (cs : Cells Nat) : String := " ".intercalate (cs.map showCell)

def showEv (unit : Nat) (refused : Bool) : Ev → String
  | .alloc n => s!"{if refused then "A" else "a"}{n * unit}"
  | .dealloc n => s!"d{n * unit}"
  | .realloc o n => s!"{if refused then "R" else "r"}{o * unit}:{n * unit}"
  | .inplace o n ok => s!"i{o * unit}:{n * unit}:{if ok then 1 else 0}"

def showMEv (unit : Nat) : MEv → String
  | .did e => showEv unit false e
  | .refused e => showEv unit true e

def boolArg (args : List String) (key : String) (dflt : Bool) : Bool :=
  kv args key (if dflt then "1" else "0") == "1"

structure St where
  cfg : Cfg
  thr : Thr
  isz : Nat
  lo : Bool
  slots : List (Option (State Nat)) := [none, none, none]
  blocks : List Nat := []
  objs : Nat := 0
  bad : Bool := false

def init (args : List String) : St :=
  { cfg := { intCap := nat! (kv args "intcap" "0"), keeps := boolArg args "keeps" false,
             nothrowReloc := boolArg args "nr" true, nothrowMove := boolArg args "nm" true,
             canRealloc := boolArg args "realloc" false, canInplace := boolArg args "inplace" false,
             growOnReserve := boolArg args "gor" true },
    thr := { copy := boolArg args "tc" true, move := boolArg args "tm" false, assign := boolArg args "ta" false },
    isz := nat! (kv args "isz" "1"), lo := boolArg args "lo" true }

def faultList (k : String) : List Bool := if k == "-" then [] else List.replicate (nat! k) false ++ [true]

def insertSorted (x : Nat) : List Nat → List Nat
  | [] => [x]
  | y :: ys => if x ≤ y then x :: y :: ys else y :: insertSorted x ys

def sortNat (xs : List Nat) : List Nat := xs.foldr insertSorted []

def St.ledger (st : St) : String :=
  s!"{if st.lo then toString st.objs else "-"} {" ".intercalate ((sortNat st.blocks).map (fun b => toString (b * st.isz)))}{if st.bad then " !" else ""}"

def St.showState (st : St) (s : State Nat) : String :=
  s!"{s.cells.length} {capacity st.cfg s}|{showCells s.cells}"

/-- run a fallible operation on slot `o` (object state `s0`; for constructors the state is overwritten) -/
def St.runOn (st : St) (o : Nat) (s0 : State Nat) (keepOnThrow : Bool) (k : String) (m : FM Nat Unit) : St × String :=
  let x0 : Sys Nat := { arr := s0, faults := faultList k, blocks := st.blocks, objs := st.objs, bad := st.bad }
  let r := m.run x0
  let threw := match r.1 with | .ok _ => false | .threw => true
  let y := r.2
  let st' : St := { st with blocks := y.blocks, objs := y.objs, bad := y.bad,
                            slots := st.slots.set o (if threw && !keepOnThrow then none else some y.arr) }
  let shown := if threw && !keepOnThrow then "-" else st.showState y.arr
  (st', s!"{if threw then "threw" else "ok"} {shown}|{" ".intercalate (y.evs.map (showMEv st.isz))}|{st'.ledger}")

def getSlot (st : St) (i : Nat) : Option (State Nat) := st.slots.getD i none

def pred (m r : Nat) : Nat → Bool := fun v => m != 0 && v % m == r

def live (xs : List String) : List (Cell Nat) := xs.map (fun t => Cell.live (nat! t))

def step (st : St) (toks : List String) : St × String :=
  let cfg := st.cfg
  let thr := st.thr
  match toks with
  | ["new", o] => st.runOn (nat! o) (State.init cfg) true "-" (pure ())
  | ["fill", o, n, r, k] => st.runOn (nat! o) {} false k (newFillF cfg thr (nat! n) ((parseRef r).read []))
  -- `Array::CreateCap(capacity)` = `Array(Data(capacity))`; `CreateCrt(count, creator)` = `CreateCap(count)` + `count` times
  -- `AddBackNogrowCrt(creator)` (each creator call one copy construction), the local array is destroyed when a call throws:
  -- the shape of `newFromF`
  | ["newcap", o, n, k] => st.runOn (nat! o) {} false k (newCapF cfg (nat! n))
  | "crt" :: o :: k :: xs => st.runOn (nat! o) {} false k (newFromF cfg thr xs.length (live xs))
  | ["cctor", d, s, f, k] =>
    match getSlot st (nat! s) with
    | some t => st.runOn (nat! d) {} false k (copyCtorF cfg thr t (f == "1"))
    | none => (st, "no-object")
  | ["casg", d, s, k] =>
    match getSlot st (nat! d), getSlot st (nat! s) with
    | some a, some t => st.runOn (nat! d) a true k (copyAssignF cfg thr t)
    | _, _ => (st, "no-object")
  | ["del", o] =>
    match getSlot st (nat! o) with
    | some s =>
      let r := st.runOn (nat! o) s true "-" (destroyDataF cfg)
      ({ r.1 with slots := r.1.slots.set (nat! o) none }, r.2)
    | none => (st, "no-object")
  | "insr" :: o :: idx :: k :: xs =>
    match getSlot st (nat! o) with
    | some s => st.runOn (nat! o) s true k (insertRangeF cfg thr (nat! idx) (live xs))
    | none => (st, "no-object")
  | [op, o] =>
    match getSlot st (nat! o) with
    | none => (st, "no-object")
    | some s =>
      match op with
      | "get" => st.runOn (nat! o) s true "-" (pure ())
      | _ => (st, "bad-op")
  | [op, a, b] =>
    match getSlot st (nat! a) with
    | none => (st, "no-object")
    | some s =>
      match op with
      | "oracle" => st.runOn (nat! a) { s with oracle := b == "1" } true "-" (pure ())
      | _ => (st, "bad-op")
  | [op, a, b, c] =>
    match getSlot st (nat! a) with
    | none => (st, "no-object")
    | some s =>
      let run := st.runOn (nat! a) s true
      match op with
      | "pushc" => run c (addBackCopyF cfg thr (parseRef b))
      | "pushm" => run c (addBackMoveF cfg thr (parseRef b))
      | "reserve" => run c (reserveF cfg thr (nat! b))
      | "shrinkto" => run c (shrinkF cfg thr (nat! b))
      | "set" => st.runOn (nat! a) (setItem s (nat! b) (.live (nat! c))) true "-" (pure ())
      | _ => (st, "bad-op")
  | [op, a, b, c, d] =>
    match getSlot st (nat! a) with
    | none => (st, "no-object")
    | some s =>
      let run := st.runOn (nat! a) s true
      match op with
      | "emplb" => run d (addBackCrtF cfg thr (b == "m") (parseRef c))
      | "setc" => run d (setCountF cfg thr (nat! b) (parseRef c))
      | "ins1m" => run d (insertMoveF cfg thr (nat! b) (parseRef c))
      | "rem" => run d (removeF cfg thr (nat! b) (nat! c))
      | "remif" => run d (do let _ ← removeIfF cfg thr (liftPred (pred (nat! b) (nat! c))); pure ())
      | _ => (st, "bad-op")
  | [op, a, b, c, d, e] =>
    match getSlot st (nat! a) with
    | none => (st, "no-object")
    | some s =>
      let run := st.runOn (nat! a) s true
      match op with
      | "empl" => run e (insertCrtF cfg thr (nat! b) (c == "m") (parseRef d))
      | "insn" => run e (insertNF cfg thr (nat! b) (nat! c) (parseRef d))
      | _ => (st, "bad-op")
  | _ => (st, "bad-op")

def engine : Engine := { σ := St, init := init, step := step }

end Driver.ArrFault
