import Momo.Model.Pool
import Momo.Model.PoolWalk
import Driver.Engine
open Momo.Pool
/-!
  Line protocol of the MemPool model (C09).  Header: `model pool arena=<absolute address of the arena>`.
  All addresses in op and answer lines are offsets from the arena start.

  layout suite:  consts | cbs size A N | gba size | cfg S A N C | nb base | nbl base | blk addr | nb1 base
                 | sizemax | params S A N (the constructor's pvCheckParams: ok | E:invalid_argument | E:length)
  dll suite:     pinit k | pset i prev next | pmove head b | punlink b | pappend head nb | pmerge thisHead otherHead
                 | pwalk head (next-walk from the head, prev-walk from its predecessor) | pdall head (order in which
                 DeallocateAll gives the buffers back)
  state suite:   new id S A N C | alloc id base1 base2 | alloc id fail | free id blk | dif id blk… | dall id
                 | merge id1 id2 | destroy id | dump id
-/
namespace Driver.Pool

structure St where
  arena : Int := 0
  P : Params := ⟨16, 8, 2, 0⟩
  pools : List (Nat × Params × Pool) := []
  heap : Heap := fun _ => ⟨none, none⟩
  nodes : Nat := 0
  dead : List Int := []

def b2s (b : Bool) : String := if b then "1" else "0"

def joinInt (xs : List Int) : String := " ".intercalate (xs.map toString)

def u64 (x : Int) : Nat := (x % 18446744073709551616).toNat

def mix (chk : Nat) (x : Int) : Nat := (chk * 1000003 + u64 x) % 18446744073709551616

/-- checksum over all blocks of a fresh buffer: address, recovered index, recovered buffer -/
def blocksChk (P : Params) (arena : Int) (L : BufLayout) : Nat := Id.run do
  let mut chk : Nat := 0
  for j in [0:P.N.toNat] do
    let blk := getBlock P L.buf (L.first + (j : Int))
    chk := mix chk (blk - arena)
    chk := mix chk (blockIdx P blk)
    chk := mix chk (blockBuf P blk - arena)
  return chk

def evStr (arena : Int) (evs : List Ev) : String :=
  if evs.isEmpty then "-" else
  " ".intercalate (evs.map fun e => match e with
    | .malloc b s => s!"M{b - arena}:{s}"
    | .free a s => s!"F{a - arena}:{s}")

def relList (arena : Int) (xs : List Int) : String := ",".intercalate (xs.map fun x => toString (x - arena))

def digest (arena : Int) (p : Pool) : String :=
  s!"n={p.allocCount} c=[{relList arena p.cache}] pre=[{relList arena p.pre}] post=[{relList arena p.post}]"

def dumpBuf (arena : Int) (b : Buffer) : String :=
  let ch := match freeChain b b.freeCount.toNat b.firstFree with
    | some l => ",".intercalate (l.map toString)
    | none => "!"
  s!"{b.buf - arena}({b.first},{b.firstFree},{b.freeCount},{b.beginOffset})[{ch}]"

def dumpPool (arena : Int) (p : Pool) : String :=
  let bs := p.order.map fun a => match getBuf p.store a with
    | some b => dumpBuf arena b
    | none => s!"{a - arena}(?)"
  s!"n={p.allocCount} c=[{relList arena p.cache}] store={p.store.length} head={p.pre.length} " ++ " ".intercalate bs

def getPool (s : St) (id : Nat) : Option (Params × Pool) := s.pools.lookup id

def setPool (s : St) (id : Nat) (P : Params) (p : Pool) : St :=
  { s with pools := (id, P, p) :: s.pools.filter (fun e => e.1 != id) }

def optRel (x : Option Int) : String := match x with | none => "-1" | some v => toString v

def dumpHeap (s : St) : String :=
  " ".intercalate ((List.range s.nodes).map fun (i : Nat) =>
    if s.dead.contains (i : Int) then "x" else s!"{optRel (s.heap i).prev},{optRel (s.heap i).next}")

def optOf (x : Int) : Option Int := if x < 0 then none else some x

/-- `UIntConst::maxSize` = `SIZE_MAX` of the 64-bit build (the harness op `sizemax` compares it with the build) -/
def sizeMax : Int := 18446744073709551615

/-- what the constructor's `pvCheckParams` (440-449) does with `CheckMode::exception`: the five `MOMO_CHECK`s
    (`Params.Legal`) come first (`std::invalid_argument`), then the overflow test `blockSize > maxSize / blockCount`
    (`std::length_error`) -/
def checkParams (P : Params) : String :=
  if ¬ P.Legal then "E:invalid_argument" else if P.S > sizeMax / P.N then "E:length" else "ok"

def finishOp {α : Type} (s : St) (id : Nat) (P : Params) (o : Outcome α) (show_ : α → String) : St × String :=
  match o with
  | .ok v p evs => (setPool s id P p, s!"{show_ v} | {evStr s.arena evs} | {digest s.arena p}")
  | .badAlloc p evs => (setPool s id P p, s!"E:bad_alloc | {evStr s.arena evs} | {digest s.arena p}")
  | .stuck w => (s, s!"STUCK {w}")

def step (s : St) : List String → St × String
  -- ---------------- layout suite
  | ["consts"] => (s, s!"{maxAllocAlignment} {sizeofBufferBytes} {sizeofPtr} {sizeofU16} {maxAlignment}")
  | ["cbs", size, a, n] => (s, toString (correctBlockSize (int! size) (int! a) (int! n)))
  | ["gba", size] => (s, toString (getBlockAlignment (int! size) 64 maxAlignment))
  | ["cfg", sS, sA, sN, sC] =>
      let P : Params := ⟨int! sS, int! sA, int! sN, nat! sC⟩
      ({ s with P := P },
       s!"legal={b2s (decide P.Legal)} addend={P.alignAddend} size0={P.bufferSize0} size1={P.bufferSize1} size={P.bufferSize} near={b2s P.bytesNear} cache={b2s P.useCache}")
  | ["nb", base] =>
      let P := s.P
      let L := newBuffer P (s.arena + int! base)
      let a := s.arena
      (s, s!"{L.buf - a} {L.first} {L.beginOffset} {blocksEnd P L.buf L.first - a} {bytesPos P L.buf L.first - a} {prevPos P L.buf L.first - a} {nextPos P L.buf L.first - a} {beginOffPos P L.buf L.first - a} {blocksChk P a L}")
  | ["nbl", base] =>
      let P := s.P
      let L := newBuffer P (s.arena + int! base)
      let blks := (List.range P.N.toNat).map fun (j : Nat) => getBlock P L.buf (L.first + (j : Int))
      (s, s!"{L.buf - s.arena} {L.first} {L.beginOffset} : " ++
        " ".intercalate (blks.map fun b => s!"{b - s.arena}>{blockIdx P b}@{blockBuf P b - s.arena}"))
  | ["blk", addr] =>
      let b := s.arena + int! addr
      (s, s!"{blockIdx s.P b} {blockBuf s.P b - s.arena}")
  | ["nb1", base] =>
      let r := newBlock1 s.P (s.arena + int! base)
      (s, s!"{r.1 - s.arena} {r.2}")
  | ["sizemax"] => (s, toString sizeMax)
  | ["params", sS, sA, sN] => (s, checkParams ⟨int! sS, int! sA, int! sN, 0⟩)
  -- ---------------- dll suite
  | ["pinit", k] => ({ s with heap := fun _ => ⟨none, none⟩, nodes := nat! k, dead := [] }, "ok")
  | ["pset", i, p, n] =>
      let s' := { s with heap := setNext (setPrev s.heap (int! i) (optOf (int! p))) (int! i) (optOf (int! n)) }
      (s', dumpHeap s')
  | ["pmove", head, b] =>
      match ptrMoveToHead s.heap (int! head) (int! b) with
      | none => (s, "assert")
      | some h => let s' := { s with heap := h }; (s', dumpHeap s')
  | ["punlink", b] =>
      let s' := { s with heap := ptrUnlink s.heap (int! b), dead := int! b :: s.dead }
      (s', dumpHeap s')
  | ["pappend", head, nb] =>
      let s' := { s with heap := ptrAppend (ptrInit s.heap (int! nb)) (int! head) (int! nb) }
      (s', dumpHeap s')
  | ["pmerge", th, oh] =>
      let s' := { s with heap := ptrMergeFrom s.nodes s.heap (int! th) (int! oh) }
      (s', dumpHeap s')
  | ["pwalk", head] =>
      (s, s!"f=[{joinInt (ptrWalk (s.nodes + 1) s.heap (int! head))}] b=[{joinInt (ptrWalkBack (s.nodes + 1) s.heap (s.heap (int! head)).prev)}]")
  | ["pdall", head] => (s, s!"[{joinInt (ptrDeallocateAll (s.nodes + 1) s.heap (int! head)).1}]")
  -- ---------------- state suite
  | ["new", id, sS, sA, sN, sC] =>
      let P : Params := ⟨int! sS, int! sA, int! sN, nat! sC⟩
      (setPool s (nat! id) P Pool.empty, s!"legal={b2s (decide P.Legal)} size={if P.N > 1 then P.bufferSize else if P.alignAddend = 0 then P.bufferSize0 else P.bufferSize1} cache={b2s P.useCache}")
  | "alloc" :: id :: answers =>
      match getPool s (nat! id) with
      | none => (s, "bad-pool")
      | some (P, p) =>
        let orc : Oracle := match answers with
          | ["fail"] => fun _ => none
          | _ => fun k => (answers[k]?).map fun a => s.arena + int! a
        finishOp s (nat! id) P (allocate P p orc) (fun b => toString (b - s.arena))
  | ["free", id, blk] =>
      match getPool s (nat! id) with
      | none => (s, "bad-pool")
      | some (P, p) => finishOp s (nat! id) P (deallocate P p (s.arena + int! blk)) (fun _ => "ok")
  | "dif" :: id :: sel =>
      match getPool s (nat! id) with
      | none => (s, "bad-pool")
      | some (P, p) =>
        let chosen := sel.map fun a => s.arena + int! a
        finishOp s (nat! id) P (deallocateIf P p (fun b => chosen.contains b)) (fun tr => "[" ++ relList s.arena tr ++ "]")
  | "dift" :: id :: k :: sel =>
      match getPool s (nat! id) with
      | none => (s, "bad-pool")
      | some (P, p) =>
        let chosen := sel.map fun a => s.arena + int! a
        finishOp s (nat! id) P (deallocateIfThrow P p (fun b => chosen.contains b) (nat! k)) (fun tr => "[" ++ relList s.arena tr ++ "]")
  | ["dall", id] =>
      match getPool s (nat! id) with
      | none => (s, "bad-pool")
      | some (P, p) => finishOp s (nat! id) P (deallocateAll P p) (fun _ => "ok")
  | ["merge", id1, id2] =>
      match getPool s (nat! id1), getPool s (nat! id2) with
      | some (P, a), some (_, b) =>
        match mergeFrom P a b with
        | .ok b' a' evs =>
          (setPool (setPool s (nat! id1) P a') (nat! id2) P b',
           s!"ok | {evStr s.arena evs} | {digest s.arena a'} || {digest s.arena b'}")
        | .badAlloc _ _ => (s, "E:bad_alloc")
        | .stuck w => (s, s!"STUCK {w}")
      | _, _ => (s, "bad-pool")
  | ["destroy", id] =>
      match getPool s (nat! id) with
      | none => (s, "bad-pool")
      | some (P, p) =>
        match destroy P p with
        | .ok _ p' evs =>
          ({ s with pools := s.pools.filter (fun e => e.1 != nat! id) },
           s!"ok | {evStr s.arena evs} | store={p'.store.length} singles={p'.singles.length}")
        | .badAlloc _ _ => (s, "E:bad_alloc")
        | .stuck w => (s, s!"STUCK {w}")
  | ["dump", id] =>
      match getPool s (nat! id) with
      | none => (s, "bad-pool")
      | some (_, p) => (s, dumpPool s.arena p)
  | _ => (s, "bad-op")

def engine : Engine :=
  { σ := St, init := fun args => { arena := int! (kv args "arena" "0") }, step := step }

end Driver.Pool
