import Momo.Model.ArrSeg
import Driver.Engine
/-!
  Line protocol of the array models (C05).  Engine `arr`: kind=arr (momo::Array / ArrayIntCap / stdish::vector /
  vector_intcap) and kind=seg (momo::SegmentedArray).

  header   model arr kind=arr intcap=N keeps=0|1 nr=0|1 nm=0|1 realloc=0|1 inplace=0|1 isz=<sizeof(Item)> z=0|1
           model arr kind=seg sqrt=0|1 L=n keeps=0|1 realloc=0|1 inplace=0|1 isz=<sizeof(Item)> z=0|1
  creation `new o`, `newfill o n <ref>`, `newrange o ids…` (forward range / initializer list), `newinput o ids…`, `newcap o n`
           (CreateCap), `newcrt o ids…` (CreateCrt), `cctor d s shrink`, `mctor d s`
  objects  live in slots 0..3; value arguments: `v<id>` = a value outside the container, `e<j>` = element j of
           the same container (aliasing)
  answer   `<count> <capacity>|<cells>|<memory-manager calls>`  (two-object operations: `dst ; src|calls`);
           cells: item id, `~` = moved-from (and id 0 when z=1: an empty std::string);
           calls: a<bytes> d<bytes> r<old>:<new> i<old>:<new>:<ok> (in bytes; the pointer array of a SegmentedArray has 8-byte items)
-/
open Momo.Arr
namespace Driver.Arr

def parseRef (t : String) : Ref Nat :=
  if t.startsWith "e" then .elem (nat! (t.drop 1).toString) else .ext (.live (nat! (t.drop 1).toString))

def showCell (z : Bool) : Cell Nat → String
  | .live v => if z && v == 0 then "~" else toString v
  | .moved => "~"

def showCells (z : Bool) (cs : Cells Nat) : String := " ".intercalate (cs.map (showCell z))

def showEv (pre : String) (unit : Nat) : Ev → String
  | .alloc n => s!"{pre}a{n * unit}"
  | .dealloc n => s!"{pre}d{n * unit}"
  | .realloc o n => s!"{pre}r{o * unit}:{n * unit}"
  | .inplace o n ok => s!"{pre}i{o * unit}:{n * unit}:{if ok then 1 else 0}"

def boolArg (args : List String) (key : String) (dflt : Bool) : Bool :=
  kv args key (if dflt then "1" else "0") == "1"

def getSlot {σ : Type} (slots : List (Option σ)) (i : Nat) : Option σ := (slots.getD i none)
def setSlot {σ : Type} (slots : List (Option σ)) (i : Nat) (v : Option σ) : List (Option σ) := slots.set i v

def pred (m r : Nat) : Nat → Bool := fun v => m != 0 && v % m == r

/-! ### engine `arr` -/

structure St where
  cfg : Cfg
  isz : Nat
  z : Bool
  slots : List (Option (State Nat)) := [none, none, none, none]

def St.showState (st : St) (s : State Nat) : String :=
  s!"{s.cells.length} {capacity st.cfg s}|{showCells st.z s.cells}"

def St.showEvs (st : St) (evs : List Ev) : String := " ".intercalate (evs.map (showEv "" st.isz))

def St.out1 (st : St) (o : Nat) (r : State Nat × List Ev) : St × String :=
  ({ st with slots := setSlot st.slots o (some r.1) }, s!"{st.showState r.1}|{st.showEvs r.2}")

def St.out2 (st : St) (d s : Nat) (sd ss : State Nat) (evs : List Ev) : St × String :=
  ({ st with slots := setSlot (setSlot st.slots d (some sd)) s (some ss) },
   s!"{st.showState sd} ; {st.showState ss}|{st.showEvs evs}")

def init (args : List String) : St :=
  { cfg := { intCap := nat! (kv args "intcap" "0"), keeps := boolArg args "keeps" false,
             nothrowReloc := boolArg args "nr" true, nothrowMove := boolArg args "nm" true,
             canRealloc := boolArg args "realloc" false, canInplace := boolArg args "inplace" false,
             growOnReserve := boolArg args "gor" true },
    isz := nat! (kv args "isz" "1"), z := boolArg args "z" false }

def live (xs : List String) : List (Cell Nat) := xs.map (fun t => Cell.live (nat! t))

def step (st : St) (toks : List String) : St × String :=
  let cfg := st.cfg
  match toks with
  | ["new", o] => st.out1 (nat! o) (State.init cfg, [])
  | ["newfill", o, n, r] => st.out1 (nat! o) (newFill cfg (nat! n) ((parseRef r).read []))
  | "newrange" :: o :: xs => st.out1 (nat! o) (newRange cfg (live xs))
  | "newinput" :: o :: xs => st.out1 (nat! o) (addAll cfg (State.init cfg) (live xs))
  -- `Array::CreateCap(capacity)` = `Array(Data(capacity))`; `CreateCrt(count, creator)` = `CreateCap(count)` + `count` times
  -- `AddBackNogrowCrt`: the shape of the forward-range constructor
  | ["newcap", o, n] => st.out1 (nat! o) (newCap cfg (nat! n))
  | "newcrt" :: o :: xs => st.out1 (nat! o) (newRange cfg (live xs))
  | ["del", o] =>
    match getSlot st.slots (nat! o) with
    | some s => ({ st with slots := setSlot st.slots (nat! o) none }, s!"|{st.showEvs (destroy cfg s).2}")
    | none => (st, "no-object")
  | "insr" :: o :: idx :: xs =>
    match getSlot st.slots (nat! o) with
    | some s => st.out1 (nat! o) (insertRange cfg s (nat! idx) (live xs))
    | none => (st, "no-object")
  | "insi" :: o :: idx :: xs =>
    match getSlot st.slots (nat! o) with
    | some s => st.out1 (nat! o) (insertInput cfg s (nat! idx) (live xs))
    | none => (st, "no-object")
  | "asgr" :: o :: xs =>
    match getSlot st.slots (nat! o) with
    | some s => st.out1 (nat! o) (assignRange cfg s (live xs))
    | none => (st, "no-object")
  | [op, o] =>
    match getSlot st.slots (nat! o) with
    | none => (st, "no-object")
    | some s =>
      match op with
      | "get" => st.out1 (nat! o) (s, [])
      | "shrink" => st.out1 (nat! o) (shrink cfg s s.cells.length)
      | _ => (st, "bad-op")
  | [op, a, b] =>
    match getSlot st.slots (nat! a) with
    | none => (st, "no-object")
    | some s =>
      match op with
      | "pushc" => st.out1 (nat! a) (addBackCopy cfg s (parseRef b))
      | "pushm" => st.out1 (nat! a) (addBackMoveOp cfg s (parseRef b))
      | "pop" => st.out1 (nat! a) (removeBack s (nat! b), [])
      | "setd" => st.out1 (nat! a) (setCount cfg s (nat! b) (.ext (.live 0)))
      | "reserve" => st.out1 (nat! a) (reserve cfg s (nat! b))
      | "shrinkto" => st.out1 (nat! a) (shrink cfg s (nat! b))
      | "clear" => st.out1 (nat! a) (clear cfg s (b == "1"))
      | "oracle" => st.out1 (nat! a) ({ s with oracle := b == "1" }, [])
      | "casg" | "masg" | "swap" =>
        match getSlot st.slots (nat! b) with
        | none => (st, "no-object")
        | some t =>
          if op == "casg" then
            let r := copyAssign cfg s t
            st.out2 (nat! a) (nat! b) r.1 t r.2
          else if op == "masg" then
            let r := moveAssign cfg s t
            st.out2 (nat! a) (nat! b) r.1 r.2.1 r.2.2
          else
            let r := swap s t
            st.out2 (nat! a) (nat! b) r.1 r.2 []
      | _ => (st, "bad-op")
  | [op, a, b, c] =>
    match getSlot st.slots (nat! a) with
    | none => (st, "no-object")
    | some s =>
      match op with
      | "emplb" => st.out1 (nat! a) (addBackCrt cfg s (b == "m") (parseRef c))
      | "ins1m" => st.out1 (nat! a) (insertMove cfg s (nat! b) (parseRef c))
      | "rem" => st.out1 (nat! a) (removeOp cfg s (nat! b) (nat! c), [])
      | "remif" =>
        let r := removeIfOp cfg s (liftPred (pred (nat! b) (nat! c)))
        let o := st.out1 (nat! a) (r.1, [])
        (o.1, s!"{o.2}|{r.2}")
      | "setc" => st.out1 (nat! a) (setCount cfg s (nat! b) (parseRef c))
      | "asgn" => st.out1 (nat! a) (assignFill cfg s (nat! b) (parseRef c))
      | "set" => st.out1 (nat! a) (setItem s (nat! b) (.live (nat! c)), [])
      | _ => (st, "bad-op")
  | [op, a, b, c, d] =>
    match getSlot st.slots (nat! a) with
    | none => (st, "no-object")
    | some s =>
      match op with
      | "empl" => st.out1 (nat! a) (insertCrt cfg s (nat! b) (c == "m") (parseRef d))
      | "insn" => st.out1 (nat! a) (insertN cfg s (nat! b) (nat! c) (parseRef d))
      | _ => (st, "bad-op")
  | _ => (st, "bad-op")

/-- construction of a new object from another one: `cctor d s shrink`, `mctor d s` -/
def stepCtor (st : St) (toks : List String) : Option (St × String) :=
  match toks with
  | ["cctor", d, s, f] =>
    match getSlot st.slots (nat! s) with
    | some t =>
      let r := copyCtor st.cfg t (f == "1")
      some (st.out2 (nat! d) (nat! s) r.1 t r.2)
    | none => some (st, "no-object")
  | ["mctor", d, s] =>
    match getSlot st.slots (nat! s) with
    | some t =>
      let r := moveCtor st.cfg t
      some (st.out2 (nat! d) (nat! s) r.1 r.2 [])
    | none => some (st, "no-object")
  | _ => none

def astep (st : St) (toks : List String) : St × String :=
  match stepCtor st toks with
  | some r => r
  | none => step st toks

/-! ### engine `segarr` -/

open Momo.Arr.Seg in
structure SSt where
  cfg : SCfg
  isz : Nat
  z : Bool
  slots : List (Option (SState Nat)) := [none, none, none, none]

namespace SSt
open Momo.Arr.Seg

def showState (st : SSt) (s : SState Nat) : String :=
  s!"{s.cells.length} {Seg.capacity st.cfg s} {segCount s} {Momo.Arr.capacity st.cfg.segs s.segs}|{showCells st.z s.cells}"

def showEvs (st : SSt) (evs : List SEv) : String :=
  " ".intercalate (evs.map (fun e => match e with | .item e => showEv "" st.isz e | .ptr e => showEv "" 8 e))

def out1 (st : SSt) (o : Nat) (r : SState Nat × List SEv) : SSt × String :=
  ({ st with slots := setSlot st.slots o (some r.1) }, s!"{st.showState r.1}|{st.showEvs r.2}")

def out2 (st : SSt) (d s : Nat) (sd ss : SState Nat) (evs : List SEv) : SSt × String :=
  ({ st with slots := setSlot (setSlot st.slots d (some sd)) s (some ss) },
   s!"{st.showState sd} ; {st.showState ss}|{st.showEvs evs}")

end SSt

open Momo.Arr.Seg in
def sinit (args : List String) : SSt :=
  { cfg := { lay := { sqrt := boolArg args "sqrt" false, L := nat! (kv args "L" "5") },
             keeps := boolArg args "keeps" false, ptrRealloc := boolArg args "realloc" false,
             ptrInplace := boolArg args "inplace" false },
    isz := nat! (kv args "isz" "1"), z := boolArg args "z" false }

open Momo.Arr.Seg in
def sstep (st : SSt) (toks : List String) : SSt × String :=
  let cfg := st.cfg
  match toks with
  | ["new", o] => st.out1 (nat! o) (SState.init, [])
  | ["newfill", o, n, r] => st.out1 (nat! o) (Seg.setCount cfg SState.init (nat! n) (.ext ((parseRef r).read [])))
  | "newinput" :: o :: xs => st.out1 (nat! o) (Seg.addAll cfg SState.init (live xs))
  | "newrange" :: o :: xs => st.out1 (nat! o) (Seg.addAll cfg SState.init (live xs))
  -- `SegmentedArray::CreateCap(capacity)`: an empty object + `pvIncCapacity(0, capacity)` (the statement of `Reserve`);
  -- `CreateCrt(count, creator)`: `CreateCap(count)`, then `pvIncCount` constructs the items in the reserved segments
  | ["newcap", o, n] => st.out1 (nat! o) (reserveOp cfg SState.init (nat! n))
  | "newcrt" :: o :: xs =>
    let r := reserveOp cfg (SState.init : SState Nat) xs.length
    let r2 := Seg.addAll cfg r.1 (live xs)
    st.out1 (nat! o) (r2.1, r.2 ++ r2.2)
  | ["del", o] =>
    match getSlot st.slots (nat! o) with
    | some s => ({ st with slots := setSlot st.slots (nat! o) none }, s!"|{st.showEvs (destroyAll cfg s).2}")
    | none => (st, "no-object")
  | "insr" :: o :: idx :: xs =>
    match getSlot st.slots (nat! o) with
    | some s => st.out1 (nat! o) (Seg.insertRange cfg s (nat! idx) (live xs))
    | none => (st, "no-object")
  | "insi" :: o :: idx :: xs =>
    match getSlot st.slots (nat! o) with
    | some s => st.out1 (nat! o) (Seg.insertInput cfg s (nat! idx) (live xs))
    | none => (st, "no-object")
  | "asgr" :: o :: xs =>
    match getSlot st.slots (nat! o) with
    | some s => st.out1 (nat! o) (Seg.step cfg s (.assignRange (xs.map nat!)))
    | none => (st, "no-object")
  | ["cctor", d, s, f] =>
    match getSlot st.slots (nat! s) with
    | some t =>
      let r := Seg.copyCtor cfg t (f == "1")
      st.out2 (nat! d) (nat! s) r.1 t r.2
    | none => (st, "no-object")
  | ["mctor", d, s] =>
    match getSlot st.slots (nat! s) with
    | some t =>
      let r := Seg.moveCtor t
      st.out2 (nat! d) (nat! s) r.1 r.2 []
    | none => (st, "no-object")
  | [op, o] =>
    match getSlot st.slots (nat! o) with
    | none => (st, "no-object")
    | some s =>
      match op with
      | "get" => st.out1 (nat! o) (s, [])
      | "shrink" => st.out1 (nat! o) (shrinkOp cfg s s.cells.length)
      | _ => (st, "bad-op")
  | [op, a, b] =>
    match getSlot st.slots (nat! a) with
    | none => (st, "no-object")
    | some s =>
      match op with
      | "pushc" => st.out1 (nat! a) (Seg.addBackCrt cfg s false (parseRef b))
      | "pushm" => st.out1 (nat! a) (Seg.addBackCrt cfg s true (parseRef b))
      | "pop" => st.out1 (nat! a) (removeBackOp s (nat! b), [])
      | "setd" => st.out1 (nat! a) (Seg.setCount cfg s (nat! b) (.ext (.live 0)))
      | "reserve" => st.out1 (nat! a) (reserveOp cfg s (nat! b))
      | "shrinkto" => st.out1 (nat! a) (shrinkOp cfg s (nat! b))
      | "clear" => st.out1 (nat! a) (clearOp cfg s (b == "1"))
      | "oracle" => st.out1 (nat! a) ({ s with segs := { s.segs with oracle := b == "1" } }, [])
      | "casg" | "masg" | "swap" =>
        match getSlot st.slots (nat! b) with
        | none => (st, "no-object")
        | some t =>
          if op == "casg" then
            let r := Seg.copyAssign cfg s t
            st.out2 (nat! a) (nat! b) r.1 t r.2
          else if op == "masg" then
            let r := Seg.moveAssign cfg s t
            st.out2 (nat! a) (nat! b) r.1 r.2.1 r.2.2
          else
            let r := Seg.swap s t
            st.out2 (nat! a) (nat! b) r.1 r.2 []
      | _ => (st, "bad-op")
  | [op, a, b, c] =>
    match getSlot st.slots (nat! a) with
    | none => (st, "no-object")
    | some s =>
      match op with
      | "emplb" => st.out1 (nat! a) (Seg.addBackCrt cfg s (b == "m") (parseRef c))
      | "ins1m" => st.out1 (nat! a) (Seg.insertCrt cfg s (nat! b) true (parseRef c))
      | "rem" => st.out1 (nat! a) (Seg.removeOp cfg s (nat! b) (nat! c), [])
      | "remif" =>
        let r := Seg.removeIfOp cfg s (liftPred (pred (nat! b) (nat! c)))
        let o := st.out1 (nat! a) (r.1, [])
        (o.1, s!"{o.2}|{r.2}")
      | "setc" => st.out1 (nat! a) (Seg.setCount cfg s (nat! b) (parseRef c))
      | "asgn" => st.out1 (nat! a) (Seg.step cfg s (.assignFill (nat! b) (parseRef c)))
      | "set" => st.out1 (nat! a) (Seg.setItem s (nat! b) (.live (nat! c)), [])
      | _ => (st, "bad-op")
  | [op, a, b, c, d] =>
    match getSlot st.slots (nat! a) with
    | none => (st, "no-object")
    | some s =>
      match op with
      | "empl" => st.out1 (nat! a) (Seg.insertCrt cfg s (nat! b) (c == "m") (parseRef d))
      | "insn" => st.out1 (nat! a) (Seg.insertN cfg s (nat! b) (nat! c) (parseRef d))
      | _ => (st, "bad-op")
  | _ => (st, "bad-op")

/-- one engine for both container families: `model arr kind=arr …` / `model arr kind=seg …` -/
def engine : Engine :=
  { σ := St ⊕ SSt,
    init := fun args => if kv args "kind" "arr" == "seg" then .inr (sinit args) else .inl (init args),
    step := fun st toks =>
      match st with
      | .inl a => let r := astep a toks; (.inl r.1, r.2)
      | .inr b => let r := sstep b toks; (.inr r.1, r.2) }

end Driver.Arr
