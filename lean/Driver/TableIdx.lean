import Momo.Model.TableIdx
import Driver.Engine
/-!
  Line protocol of the bucket-level model of one unique hash index of momo::DataTable (C07, finding F9).
  Header: `model tableidx ls=<logStartBucketCount>`.

  Stateless: every op line carries the complete layout of the index hash set before one single-column update
    `upd raw=<row id> hold=<old hash code> hnew=<new hash code> count=<n> cap=<capacity>
         G <L> B <bucket index> <m> <e> <row id>:<hash code> ... B ... G <L> B ...`
  (generations newest first, only the buckets that hold items or have a non-zero max-probe state, the items of a bucket in
  insertion order, `<m> <e>` = the Open2N2 max-probe state) and the answer is what `Momo.TIdx.updCol` predicts for the table
  after `DataIndexes::UpdateRaw(raw, offset, item, assigner)`:
    `reach=<0|1> n=<count> cap=<capacity> g=<L,L,...> sum=<layoutSumU>`
  (`dup <id>` / `fail` when `updCol` does not return `.done`).

  The entries are numbered 0,1,2,... in the order of the line (`Item.key`), `Item.val` = row id. The row store is synthetic:
  one column holding the row id (the rows of a unique index differ pairwise on the key, so "equal key" = "same raw"), the
  updated raw gets the fresh value N = (largest row id) + 1, and `acc` maps a value to the hash code the line gives for it.
-/
open Momo Momo.HT Momo.TIdx
namespace Driver.TableIdx

structure St where
  ls : Nat := 4

/-- parser state -/
structure PSt where
  /-- finished generations, in line order -/
  gens : Array Gen := #[]
  haveGen : Bool := false
  L : Nat := 0
  bs : Array Bucket := #[]
  haveB : Bool := false
  bi : Nat := 0
  bm : Nat := 0
  be : Nat := 0
  items : Array Item := #[]
  /-- entry number -> hash code -/
  hashes : Array Nat := #[]
  /-- entry number -> row id -/
  ids : Array Nat := #[]

def PSt.closeBucket (s : PSt) : PSt :=
  if s.haveB then
    { s with bs := s.bs.setIfInBounds s.bi { items := s.items.toList, wasFull := true, bst := (s.bm, s.be) },
             haveB := false, items := #[] }
  else s

def PSt.closeGen (s : PSt) : PSt :=
  let s := s.closeBucket
  if s.haveGen then { s with gens := s.gens.push ⟨s.L, s.bs.toList⟩, haveGen := false, bs := #[] } else s

def PSt.openGen (sp : Spec) (s : PSt) (l : Nat) : PSt :=
  { s.closeGen with haveGen := true, L := l, bs := Array.replicate (2 ^ l) (emptyBucket sp) }

def PSt.openBucket (s : PSt) (i m e : Nat) : PSt :=
  { s.closeBucket with haveB := true, bi := i, bm := m, be := e }

def PSt.addItem (s : PSt) (tk : String) : PSt :=
  match tk.splitOn ":" with
  | [id, h] =>
    { s with items := s.items.push ⟨s.hashes.size, nat! id⟩, hashes := s.hashes.push (nat! h), ids := s.ids.push (nat! id) }
  | _ => s

def parseBody (sp : Spec) : List String → PSt → PSt
  | [], s => s.closeGen
  | "G" :: l :: rest, s => parseBody sp rest (s.openGen sp (nat! l))
  | "B" :: i :: m :: e :: rest, s => parseBody sp rest (s.openBucket (nat! i) (nat! m) (nat! e))
  | tk :: rest, s => parseBody sp rest (s.addItem tk)

def gensStr (t : Table) : String := ",".intercalate (t.gens.map (fun g => toString g.L))

def step (s : St) : List String → St × String
  | "upd" :: rest =>
    let bs := open2N2part s.ls
    let args := rest.takeWhile (· != "G")
    let body := rest.dropWhile (· != "G")
    let raw := nat! (kv args "raw" "0")
    let hold := nat! (kv args "hold" "0")
    let hnew := nat! (kv args "hnew" "0")
    let p := parseBody bs.sp body {}
    let maxId := p.ids.foldl max raw
    let fresh := maxId + 1
    -- row id -> hash code of its current key
    let rowHash : Array Nat :=
      ((List.range p.ids.size).foldl (fun (a : Array Nat) e => a.setIfInBounds (p.ids.getD e 0) (p.hashes.getD e 0))
        (Array.replicate (fresh + 1) 0)).setIfInBounds raw hold
    let acc : Momo.Table.Acc := fun _ _ v => if v = fresh then hnew else rowHash.getD v 0
    let hashes := p.hashes
    let u : UH := { cols := [0],
                    t := { gens := p.gens.toList, count := nat! (kv args "count" "0"), cap := nat! (kv args "cap" "0") },
                    hs := fun e => hashes.getD e 0,
                    next := hashes.size }
    let rowIds := (p.ids.toList.filter (· != raw))
    let st : Momo.Table.Store := (raw :: rowIds).map (fun id => ({ id := id, addr := 0, num := 0, vals := [id] } : Momo.Table.Row))
    match updCol bs acc st u raw 0 fresh {} with
    | .dup id => (s, s!"dup {id}")
    | .fail _ => (s, "fail")
    | .done u' st' =>
      let reach := lookupVals bs acc st' u' [fresh] == some raw
      (s, s!"reach={if reach then 1 else 0} n={u'.t.count} cap={u'.t.cap} g={gensStr u'.t} sum={layoutSumU bs u'}")
  | _ => (s, "bad-op")

def init (args : List String) : St := { ls := nat! (kv args "ls" "4") }

def engine : Driver.Engine := { σ := St, init := init, step := step }

end Driver.TableIdx
