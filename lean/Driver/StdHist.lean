import Momo.Model.StdWrapOps
import Driver.Engine
/-!
  Engine `stdhist`: whole call histories of the C06 history theorem, replayed either on the wrapper model
  (`side=wrap`: compared with what momo::stdish answered) or on the specification of the std containers
  (`side=spec`: compared with what libstdc++ answered). `kind=set|mset|map|mmap|vec|uset|umap|ummap`.
  One call per line (see `parseO` / `parseV` / `parseU` / `parseM`); a call that is not legal in the current state is answered
  `illegal-call` and not executed (the harness only generates legal histories).
-/
open Momo.StdSpec
namespace Driver.StdHist

def b01 (b : Bool) : String := if b then "1" else "0"
def itemStr (e : Item) : String := s!"{e.1}:{e.2}"
def optItem : Option Item → String
  | none => "none"
  | some e => itemStr e
def nodeStr : Option Item → String
  | none => "empty"
  | some e => itemStr e

def obsStr : Obs → String
  | .done => "ok"
  | .pos p => s!"p={p}"
  | .posFlag p b => s!"p={p} {b01 b}"
  | .num n => s!"n={n}"
  | .flag b => s!"f={b01 b}"
  | .val v => s!"v={v}"
  | .outOfRange => "E:out_of_range"
  | .invalidArgument => "E:invalid_argument"
  | .range p q => s!"r={p} {q}"
  | .node n => s!"node={nodeStr n}"
  | .posNode p b n => s!"p={p} {b01 b} node={nodeStr n}"
  | .items xs => s!"{xs.length}:" ++ String.join (xs.map (fun e => " " ++ itemStr e))
  | .cmp a b c d e f => s!"c={b01 a} {b01 b} {b01 c} {b01 d} {b01 e} {b01 f}"
  | .found e => s!"e={optItem e}"
  | .foundFlag e b => s!"e={optItem e} {b01 b}"
  | .insRet e b n => s!"e={optItem e} {b01 b} node={nodeStr n}"
  | .vals xs => s!"{xs.length}:" ++ String.join (xs.map (fun v => s!" {v}"))
  | .eqne a b => s!"c={b01 a} {b01 b}"
  | .precondition => "precondition"

def side? : String → Option Side
  | "a" => some .a
  | "b" => some .b
  | _ => none

def parseItem (t : String) : Item :=
  match t.splitOn ":" with
  | [k, v] => (nat! k, nat! v)
  | _ => (0, 0)

def parseO : List String → Option OCall
  | ["ins", c, k, v] => (side? c).map (OCall.insert · (nat! k, nat! v))
  | ["emp", c, k, v] => (side? c).map (OCall.emplace · (nat! k, nat! v))
  | ["insh", c, h, k, v] => (side? c).map (OCall.insertHint · (nat! h) (nat! k, nat! v))
  | ["emph", c, h, k, v] => (side? c).map (OCall.emplaceHint · (nat! h) (nat! k, nat! v))
  | "insr" :: c :: ys => (side? c).map (OCall.insertRange · (ys.map parseItem))
  | "insl" :: c :: ys => (side? c).map (OCall.insertList · (ys.map parseItem))
  | ["try", c, k, v] => (side? c).map (OCall.tryEmplace · none (nat! k, nat! v))
  | ["tryh", c, h, k, v] => (side? c).map (OCall.tryEmplace · (some (nat! h)) (nat! k, nat! v))
  | ["ioa", c, k, v] => (side? c).map (OCall.insertOrAssign · none (nat! k, nat! v))
  | ["ioah", c, h, k, v] => (side? c).map (OCall.insertOrAssign · (some (nat! h)) (nat! k, nat! v))
  | ["idx", c, k] => (side? c).map (OCall.index · (nat! k))
  | ["idxw", c, k, v] => (side? c).map (OCall.indexAssign · (nat! k) (nat! v))
  | ["at", c, k] => (side? c).map (OCall.at · (nat! k))
  | ["find", c, k] => (side? c).map (OCall.find · (nat! k))
  | ["cnt", c, k] => (side? c).map (OCall.count · (nat! k))
  | ["has", c, k] => (side? c).map (OCall.contains · (nat! k))
  | ["lb", c, k] => (side? c).map (OCall.lowerBound · (nat! k))
  | ["ub", c, k] => (side? c).map (OCall.upperBound · (nat! k))
  | ["eqr", c, k] => (side? c).map (OCall.equalRange · (nat! k))
  | ["erk", c, k] => (side? c).map (OCall.eraseKey · (nat! k))
  | ["erp", c, p] => (side? c).map (OCall.eraseAt · (nat! p))
  | ["err", c, p, q] => (side? c).map (OCall.eraseRange · (nat! p) (nat! q))
  | ["erif", c, m, r] => (side? c).map (OCall.eraseIf · (nat! m) (nat! r))
  | ["exk", c, k] => (side? c).map (OCall.extractKey · (nat! k))
  | ["exp", c, p] => (side? c).map (OCall.extractAt · (nat! p))
  | ["insn", c] => (side? c).map OCall.insertNode
  | ["insnh", c, h] => (side? c).map (OCall.insertNodeHint · (nat! h))
  | ["dropnode"] => some .dropNode
  | ["merge", c] => (side? c).map OCall.merge
  | ["clear", c] => (side? c).map OCall.clear
  | ["size", c] => (side? c).map OCall.size
  | ["empty", c] => (side? c).map OCall.empty
  | ["swap"] => some .swap
  | ["copy", c] => (side? c).map OCall.assignCopy
  | ["move", c] => (side? c).map OCall.assignMove
  | ["ccopy", c] => (side? c).map OCall.constructCopy
  | ["cmove", c] => (side? c).map OCall.constructMove
  | "asl" :: c :: ys => (side? c).map (OCall.assignList · (ys.map parseItem))
  | ["cmp"] => some .compare
  | ["dump", c] => (side? c).map OCall.contents
  | ["rdump", c] => (side? c).map OCall.rcontents
  | "crange" :: c :: ys => (side? c).map (OCall.constructRange · (ys.map parseItem))
  | "clist" :: c :: ys => (side? c).map (OCall.constructList · (ys.map parseItem))
  | _ => none

def parseV : List String → Option VCall
  | ["push", c, v] => (side? c).map (VCall.pushBack · (nat! v))
  | ["pop", c] => (side? c).map VCall.popBack
  | ["ins", c, p, v] => (side? c).map (VCall.insert · (nat! p) (nat! v))
  | ["insn", c, p, n, v] => (side? c).map (VCall.insertN · (nat! p) (nat! n) (nat! v))
  | "insr" :: c :: p :: ys => (side? c).map (VCall.insertRange · (nat! p) (ys.map nat!))
  | ["erp", c, p] => (side? c).map (VCall.eraseAt · (nat! p))
  | ["err", c, p, q] => (side? c).map (VCall.eraseRange · (nat! p) (nat! q))
  | ["erval", c, v] => (side? c).map (VCall.eraseVal · (nat! v))
  | ["resize", c, n] => (side? c).map (VCall.resize · (nat! n))
  | ["resizev", c, n, v] => (side? c).map (VCall.resizeVal · (nat! n) (nat! v))
  | ["assign", c, n, v] => (side? c).map (VCall.assignN · (nat! n) (nat! v))
  | "assignr" :: c :: ys => (side? c).map (VCall.assignRange · (ys.map nat!))
  | ["at", c, i] => (side? c).map (VCall.at · (nat! i))
  | ["idx", c, i] => (side? c).map (VCall.index · (nat! i))
  | ["front", c] => (side? c).map VCall.front
  | ["back", c] => (side? c).map VCall.back
  | ["clear", c] => (side? c).map VCall.clear
  | ["size", c] => (side? c).map VCall.size
  | ["empty", c] => (side? c).map VCall.empty
  | ["swap"] => some .swap
  | ["copy", c] => (side? c).map VCall.assignCopy
  | ["move", c] => (side? c).map VCall.assignMove
  | ["ccopy", c] => (side? c).map VCall.constructCopy
  | ["cmove", c] => (side? c).map VCall.constructMove
  | ["cmp"] => some .compare
  | ["dump", c] => (side? c).map VCall.contents
  | ["rdump", c] => (side? c).map VCall.rcontents
  | ["cn", c, n, v] => (side? c).map (VCall.constructN · (nat! n) (nat! v))
  | "crange" :: c :: ys => (side? c).map (VCall.constructRange · (ys.map nat!))
  | ["reserve", c, n] => (side? c).map (VCall.reserve · (nat! n))
  | ["shrink", c] => (side? c).map VCall.shrinkToFit
  | _ => none

def urange? : List String → Option URange
  | ["empty"] => some .empty
  | ["single", k, mv] => some (.single (nat! k) (mv == "1"))
  | ["whole"] => some .whole
  | _ => none

def parseU : List String → Option UCall
  | ["ins", c, k, v] => (side? c).map (UCall.insert · (nat! k, nat! v))
  | ["emp", c, k, v] => (side? c).map (UCall.emplace · (nat! k, nat! v))
  | ["insh", c, k, v] => (side? c).map (UCall.insertHint · (nat! k, nat! v))
  | ["emph", c, k, v] => (side? c).map (UCall.emplaceHint · (nat! k, nat! v))
  | "insr" :: c :: ys => (side? c).map (UCall.insertRange · (ys.map parseItem))
  | "insl" :: c :: ys => (side? c).map (UCall.insertList · (ys.map parseItem))
  | ["try", c, k, v] => (side? c).map (UCall.tryEmplace · false (nat! k, nat! v))
  | ["tryh", c, k, v] => (side? c).map (UCall.tryEmplace · true (nat! k, nat! v))
  | ["ioa", c, k, v] => (side? c).map (UCall.insertOrAssign · false (nat! k, nat! v))
  | ["ioah", c, k, v] => (side? c).map (UCall.insertOrAssign · true (nat! k, nat! v))
  | ["idx", c, k] => (side? c).map (UCall.index · (nat! k))
  | ["idxw", c, k, v] => (side? c).map (UCall.indexAssign · (nat! k) (nat! v))
  | ["at", c, k] => (side? c).map (UCall.at · (nat! k))
  | ["find", c, k] => (side? c).map (UCall.find · (nat! k))
  | ["cnt", c, k] => (side? c).map (UCall.count · (nat! k))
  | ["has", c, k] => (side? c).map (UCall.contains · (nat! k))
  | ["eqr", c, k] => (side? c).map (UCall.equalRange · (nat! k))
  | ["erk", c, k] => (side? c).map (UCall.eraseKey · (nat! k))
  | ["ere", c, k] => (side? c).map (UCall.eraseElem · (nat! k))
  | "errange" :: c :: r => (side? c).bind (fun c => (urange? r).map (UCall.eraseRange c ·))
  | ["erif", c, m, r] => (side? c).map (UCall.eraseIf · (nat! m) (nat! r))
  | ["exk", c, k] => (side? c).map (UCall.extractKey · (nat! k))
  | ["exe", c, k] => (side? c).map (UCall.extractElem · (nat! k))
  | ["insn", c] => (side? c).map UCall.insertNode
  | ["insnh", c] => (side? c).map UCall.insertNodeHint
  | ["dropnode"] => some .dropNode
  | ["merge", c] => (side? c).map UCall.merge
  | ["clear", c] => (side? c).map UCall.clear
  | ["size", c] => (side? c).map UCall.size
  | ["empty", c] => (side? c).map UCall.empty
  | ["swap"] => some .swap
  | ["copy", c] => (side? c).map UCall.assignCopy
  | ["move", c] => (side? c).map UCall.assignMove
  | ["ccopy", c] => (side? c).map UCall.constructCopy
  | ["cmove", c] => (side? c).map UCall.constructMove
  | "asl" :: c :: ys => (side? c).map (UCall.assignList · (ys.map parseItem))
  | ["cmp"] => some .compare
  | ["dump", c] => (side? c).map UCall.contents
  | "crange" :: c :: ys => (side? c).map (UCall.constructRange · (ys.map parseItem))
  | "clist" :: c :: ys => (side? c).map (UCall.constructList · (ys.map parseItem))
  | ["reserve", c, n] => (side? c).map (UCall.reserve · (nat! n))
  | ["rehash", c, n] => (side? c).map (UCall.rehash · (nat! n))
  | ["mlf", c] => (side? c).map UCall.maxLoadFactor
  | _ => none

def mrange? : List String → Option MRange
  | ["empty"] => some .empty
  | ["single", k, v, mv] => some (.single (nat! k, nat! v) (mv == "1"))
  | ["key", k, mv] => some (.wholeKey (nat! k) (mv == "1"))
  | ["whole"] => some .whole
  | _ => none

def parseM : List String → Option MCall
  | ["ins", c, k, v] => (side? c).map (MCall.insert · (nat! k, nat! v))
  | ["emp", c, k, v] => (side? c).map (MCall.emplace · (nat! k, nat! v))
  | ["insh", c, k, v] => (side? c).map (MCall.insertHint · (nat! k, nat! v))
  | ["emph", c, k, v] => (side? c).map (MCall.emplaceHint · (nat! k, nat! v))
  | "insr" :: c :: ys => (side? c).map (MCall.insertRange · (ys.map parseItem))
  | "insl" :: c :: ys => (side? c).map (MCall.insertList · (ys.map parseItem))
  | ["find", c, k] => (side? c).map (MCall.find · (nat! k))
  | ["cnt", c, k] => (side? c).map (MCall.count · (nat! k))
  | ["has", c, k] => (side? c).map (MCall.contains · (nat! k))
  | ["eqr", c, k] => (side? c).map (MCall.equalRange · (nat! k))
  | ["erk", c, k] => (side? c).map (MCall.eraseKey · (nat! k))
  | ["ere", c, k, v] => (side? c).map (MCall.eraseElem · (nat! k, nat! v))
  | "errange" :: c :: r => (side? c).bind (fun c => (mrange? r).map (MCall.eraseRange c ·))
  | ["erif", c, m, r] => (side? c).map (MCall.eraseIf · (nat! m) (nat! r))
  | ["clear", c] => (side? c).map MCall.clear
  | ["size", c] => (side? c).map MCall.size
  | ["empty", c] => (side? c).map MCall.empty
  | ["swap"] => some .swap
  | ["copy", c] => (side? c).map MCall.assignCopy
  | ["move", c] => (side? c).map MCall.assignMove
  | ["ccopy", c] => (side? c).map MCall.constructCopy
  | ["cmove", c] => (side? c).map MCall.constructMove
  | "asl" :: c :: ys => (side? c).map (MCall.assignList · (ys.map parseItem))
  | ["cmp"] => some .compare
  | ["dump", c] => (side? c).map MCall.contents
  | "crange" :: c :: ys => (side? c).map (MCall.constructRange · (ys.map parseItem))
  | "clist" :: c :: ys => (side? c).map (MCall.constructList · (ys.map parseItem))
  | _ => none

structure S where
  kind : String
  spec : Bool
  o : St := {}
  v : VSt := {}
  m : Momo.StdW.MSt := {}

def kindOf (k : String) : Kind := { multi := k == "mset" || k == "mmap", isMap := k == "map" || k == "mmap" }

def step (s : S) (toks : List String) : S × String :=
  if toks == ["reset"] then ({ kind := s.kind, spec := s.spec }, "ok")
  else if s.kind == "vec" then
    match parseV toks with
    | none => (s, "bad-op")
    | some c =>
      if !c.legal s.v then (s, "illegal-call")
      else
        let r := if s.spec then c.spec s.v else Momo.StdW.wrapV s.v c
        ({ s with v := r.1 }, obsStr r.2)
  else if s.kind == "uset" || s.kind == "umap" then
    match parseU toks with
    | none => (s, "bad-op")
    | some c =>
      if !c.legal (s.kind == "umap") s.o then (s, "illegal-call")
      else
        -- wrapper side: the model keeps its own traversal order (oracle = identity); every observation is order-free
        let r := if s.spec then c.spec s.o else Momo.StdW.wrapU (fun _ xs => xs) 0 s.o c
        ({ s with o := r.1 }, obsStr r.2)
  else if s.kind == "ummap" then
    match parseM toks with
    | none => (s, "bad-op")
    | some c =>
      -- legality is judged on the specification state; on the wrapper side that is the flat traversal of the model's table
      let specSt : St := if s.spec then s.o else { a := Momo.StdWrap.MM.pairs s.m.a, b := Momo.StdWrap.MM.pairs s.m.b }
      if !c.legal specSt then (s, "illegal-call")
      else if s.spec then
        let r := c.spec s.o
        ({ s with o := r.1 }, obsStr r.2)
      else
        let r := Momo.StdW.wrapM (fun _ m => m) 0 s.m c
        ({ s with m := r.1 }, obsStr r.2)
  else
    match parseO toks with
    | none => (s, "bad-op")
    | some c =>
      let kd := kindOf s.kind
      if !c.legal kd s.o then (s, "illegal-call")
      else
        let r := if s.spec then c.spec kd s.o else Momo.StdW.wrapO kd s.o c
        ({ s with o := r.1 }, obsStr r.2)

def engine : Engine :=
  { σ := S, init := fun args => { kind := kv args "kind" "set", spec := kv args "side" "wrap" == "spec" }, step := step }

end Driver.StdHist
