import Momo.Model.HTLedger
import Driver.HashTable
open Momo.HT Momo.HTL
namespace Driver.HTLedger

/-- line protocol of the ledger layer over the hash-table model (harness/c03_htledger.cpp).
    First line: the arguments of `hashtable` (bucket kind …) plus
      cat=triv|nmove|copy assign=0|1 hdr= bsz= psz= csz= chained=0|1 counted=0|1
    Operation lines: those of `hashtable` with the fault tokens
      fh (hash functor throws in the lookup)  fe (equality functor throws in the lookup)  fg (bucket array refused)
      fp (BucketParams refused)  fw (crew block refused)  fa (creator / copy / AddCrt throws)  fr (assignment of Replace throws)
      rs=n (migration stops after n items)  cs=n (copy construction fails after n items)  at=n (the faults strike at step n of a
      bulk operation)  ag=size af=idx bg=size bf=idx (pool traffic observed in A's / B's pools)
    Answer: result | A summary | B summary | led k=… kb=… x=… xb=… el=… dc=… dd=…
      k / kb = number / bytes of the blocks of known purpose (bucket arrays, BucketParams, crews), x / xb = pool buffers,
      el = live element objects, dc / dd = constructor / destructor runs during the operation,
      pb = live memory-pool blocks of LimP4 (= non-empty buckets) -/
structure St where
  cfg : Cfg
  fam : Nat
  counted : Bool
  pb : Bool
  s : Sys

def hf (s : St) : Nat → Nat := hashFam s.fam

def init (args : List String) : St :=
  let n := nat! (kv args "n" "4")
  let sp := Driver.HashTable.mkSpec (kv args "kind" "LimP4") n (nat! (kv args "isz" "8")) (nat! (kv args "ial" "8"))
            (kv args "part" "0" == "1") (kv args "fast" "1" == "1") (kv args "reloc" "1" == "1")
            (nat! (kv args "fullFrom" (toString n))) (nat! (kv args "logstart" "4"))
  let cat : Momo.Obj.Cat := match kv args "cat" "triv" with | "nmove" => .nmove | "copy" => .copyOnly | _ => .triv
  let cfg : Cfg := { sp := sp, cat := cat, assign := kv args "assign" "1" == "1", hdr := nat! (kv args "hdr" "24"),
                     bsz := nat! (kv args "bsz" "8"), psz := nat! (kv args "psz" "8"), csz := nat! (kv args "csz" "0"),
                     chained := kv args "chained" "0" == "1" }
  { cfg := cfg, fam := nat! (kv args "hash" "3"), counted := kv args "counted" "0" == "1",
    pb := kv args "pb" "0" == "1", s := Sys.init cfg }

structure Toks where
  f : Flt := {}
  at_ : Option Nat := none
  pa : PoolT := {}
  pb : PoolT := {}

def parse (toks : List String) : Toks :=
  toks.foldl (fun (a : Toks) t =>
    if t == "fh" then { a with f := { a.f with hashThrows := true } }
    else if t == "fe" then { a with f := { a.f with eqThrows := true } }
    else if t == "fg" then { a with f := { a.f with grow := true } }
    else if t == "fp" then { a with f := { a.f with params := true } }
    else if t == "fw" then { a with f := { a.f with crew := true } }
    else if t == "fa" then { a with f := { a.f with create := true } }
    else if t == "fr" then { a with f := { a.f with assignThrows := true } }
    else if t.startsWith "rs=" then { a with f := { a.f with mig := some (nat! (t.drop 3).toString) } }
    else if t.startsWith "cs=" then { a with f := { a.f with copyStop := some (nat! (t.drop 3).toString) } }
    else if t.startsWith "at=" then { a with at_ := some (nat! (t.drop 3).toString) }
    else if t.startsWith "ag=" then { a with pa := { a.pa with gets := a.pa.gets ++ [nat! (t.drop 3).toString] } }
    else if t.startsWith "af=" then { a with pa := { a.pa with frees := a.pa.frees ++ [nat! (t.drop 3).toString] } }
    else if t.startsWith "bg=" then { a with pb := { a.pb with gets := a.pb.gets ++ [nat! (t.drop 3).toString] } }
    else if t.startsWith "bf=" then { a with pb := { a.pb with frees := a.pb.frees ++ [nat! (t.drop 3).toString] } }
    else a) {}

def atStep (t : Toks) : Nat → Flt := fun i => if t.at_ == some i then t.f else {}

def outcomeStr : Outcome → String
  | .ok => "1"
  | .full => "E:runtime"
  | .badAlloc => "E:throw"
  | .invalid => "E:invalid_argument"

def resStr : Res → String
  | .done o => outcomeStr o
  | .no => "0"
  | .user => "E:user"

def sumSizes (l : List (Nat × Nat × Nat)) : Nat := l.foldl (fun n x => n + x.2.2) 0

def countEv (p : LEv → Bool) (evs : List LEv) : Nat := (evs.filter p).length

def ledStr (st : St) (s0 s1 : Sys) : String :=
  let known (x : Momo.HTL.St) : List (Nat × Nat × Nat) := ({ x with bufs := [] } : Momo.HTL.St).blocks st.cfg
  let bufs (x : Momo.HTL.St) : List (Nat × Nat) := x.bufs
  let k := (known s1.a).length + (known s1.b).length
  let kb := sumSizes (known s1.a) + sumSizes (known s1.b)
  let x := (bufs s1.a).length + (bufs s1.b).length
  let xb := (bufs s1.a ++ bufs s1.b).foldl (fun n p => n + p.2) 0
  let newEvs := s1.w.evs.drop s0.w.evs.length
  let dc := countEv (fun e => match e with | .construct _ => true | _ => false) newEvs
  let dd := countEv (fun e => match e with | .destroy _ => true | _ => false) newEvs
  let cnt := if st.counted then s!"el={s1.elems.length} dc={if st.cfg.chained then "~" else toString dc} dd={if st.cfg.chained then "~" else toString dd}"
             else "el=~ dc=~ dd=~"
  -- LimP4: one memory-pool block per non-empty bucket (determined by the table; not a manager block)
  let nonEmpty (t : Table) : Nat := (t.gens.map (fun g => (g.bs.filter (fun b => !b.items.isEmpty)).length)).foldl (· + ·) 0
  let pbs := if st.pb then toString (nonEmpty s1.a.t + nonEmpty s1.b.t) else "~"
  s!" | led k={k} kb={kb} x={x} xb={xb} {cnt} pb={pbs}"

def tail (st : St) (s0 s1 : Sys) : String :=
  s!" | A {Driver.HashTable.summary st.cfg.sp s1.a.t} | B {Driver.HashTable.summary st.cfg.sp s1.b.t}" ++ ledStr st s0 s1

def outStr : Out → String
  | .res r => resStr r
  | .num n threw => if threw then s!"E:throw {n}" else toString n
  | .unit => "ok"
  | .threw => "E:throw"

def step (st : St) (toks : List String) : St × String :=
  let run (op : Op) (t : Toks) : St × String :=
    let r := stepT st.cfg (hf st) st.s { op := op, pa := t.pa, pb := t.pb }
    ({ st with s := r.1 }, outStr r.2 ++ tail st st.s r.1)
  match toks with
  | "ins" :: k :: v :: f => run (.ins false (nat! k) (nat! v) (parse f).f) (parse f)
  | "insb" :: k :: v :: f => run (.ins true (nat! k) (nat! v) (parse f).f) (parse f)
  | "find" :: k :: f =>
    if (parse f).f.hashThrows || (parse f).f.eqThrows then (st, "E:user" ++ tail st st.s st.s) else
    match findTable st.cfg.sp (hf st) st.s.a.t (nat! k) with
    | some _ => (st, "1" ++ tail st st.s st.s)
    | none => (st, "0" ++ tail st st.s st.s)
  | "rem" :: k :: f => run (.rem (nat! k) (parse f).f) (parse f)
  | "rempred" :: m :: r :: f => run (.remIf (nat! m) (nat! r) (atStep (parse f))) (parse f)
  | "reserve" :: c :: f => run (.reserve (nat! c) (parse f).f) (parse f)
  | "clear" :: sh :: f => run (.clear (sh == "1")) (parse f)
  | "ext" :: k :: f => run (.ext (nat! k) (parse f).f) (parse f)
  | "reins" :: f => run (.reins (parse f).f) (parse f)
  | "copyto" :: f => run (.copyTo (parse f).f) (parse f)
  | "moveto" :: f => run (.moveTo (parse f).f) (parse f)
  | "swap" :: f => run .swap (parse f)
  | "mergeto" :: f => run (.mergeTo (atStep (parse f))) (parse f)
  | "drop" :: f => run .dropHandle (parse f)
  | ["finish"] =>
    -- the handle, B and A are destroyed: what the ledger monitor says about the whole history
    let w := finish st.cfg st.s
    let verdict := match Momo.Ledger.run Momo.Ledger.St.init w.evs with
      | some s => s!"accepted blocks={s.blocks.length} elems={s.elems.length}"
      | none => "rejected"
    (st, verdict)
  | ["monitor"] =>
    let verdict := match Momo.Ledger.run Momo.Ledger.St.init st.s.w.evs with
      | some s => s!"accepted blocks={s.blocks.length} elems={s.elems.length}"
      | none => "rejected"
    (st, verdict)
  | _ => (st, "bad-op")

def engine : Engine := { σ := St, init := init, step := step }

end Driver.HTLedger
