/-! Line-protocol plumbing shared by all model drivers (core Lean only). -/
namespace Driver

/-- A model driver: a state and a step function from one tokenised input line to one output line. -/
structure Engine where
  σ : Type
  init : List String → σ
  step : σ → List String → σ × String

def nat! (s : String) : Nat := s.toNat?.getD 0

def int! (s : String) : Int :=
  if s.startsWith "-" then - (Int.ofNat ((s.drop 1).toString.toNat?.getD 0)) else Int.ofNat (s.toNat?.getD 0)

def joinNat (xs : List Nat) : String := " ".intercalate (xs.map toString)

def kv (args : List String) (key : String) (dflt : String) : String :=
  match args.find? (fun a => a.startsWith (key ++ "=")) with
  | some a => (a.drop (key.length + 1)).toString
  | none => dflt

end Driver
