import Momo.Model.Seg
import Driver.Engine
/-!
  Line protocol of the `seg` engine (property C16). Every answer is computed by the functions of
  `Momo/Model/Seg.lean` — the machine-level (`…64`) functions for the function-level suites, the container
  model `Arr` (over the ideal sizing functions) for the container suite.

    log64 v | log32 v                    → de Bruijn Log2
    logsweep64 lo hi | logsweep32 lo hi  → checksum of Log2 over lo ≤ v < hi
    map f L0 index                       → seg item GetIndex(seg,item) GetItemCount(seg)
    inv f L0 seg item                    → index seg' item' GetItemCount(seg)   ((seg',item') = GetSegItemIndexes(index))
    sweep f L0 lo hi                     → two checksums over (seg, item, GetIndex(seg,item), GetItemCount(seg)), lo ≤ index < hi
    new f L0 | add | addn k | reserve c | setcount n | shrink c | shrinkfit | clear b | removeback k | insert
                                         → n=<count> cap=<capacity> slots=<sum of segment sizes> segs=<count> ids=<id ranges>
    addr i                               → <segment id> <offset>
-/
open Momo.Seg
namespace Driver.Seg

def P1 : Nat := 2147483647
def P2 : Nat := 2147483629
def M1 : Nat := 1000003
def M2 : Nat := 998244353

structure Chk where
  a : Nat := 0
  b : Nat := 0

@[inline] def Chk.add (c : Chk) (x : Nat) : Chk :=
  ⟨(c.a * M1 + x % P1) % P1, (c.b * M2 + x % P2) % P2⟩

def Chk.str (c : Chk) : String := s!"{c.a} {c.b}"

def func! (s : String) : Func := if s == "sqrt" then .sqrt else .cnst

/-- `GetItemCount` depends on the segment only: it is re-evaluated when the segment changes (memo of the
    previous segment; the value is always `itemCount64 f L0 p.1`) -/
partial def sweepLoop (f : Func) (L0 hi : Nat) (i : Nat) (c : Chk) (lastSeg lastCnt : Nat) : Chk :=
  if i < hi then
    let p := segItem64 f L0 i
    let cnt := if p.1 == lastSeg then lastCnt else itemCount64 f L0 p.1
    let c := ((c.add p.1).add p.2).add (getIndex64 f L0 p.1 p.2)
    sweepLoop f L0 hi (i + 1) (c.add cnt) p.1 cnt
  else c

def sweep (f : Func) (L0 lo hi : Nat) : Chk :=
  let s0 := (segItem64 f L0 lo).1
  sweepLoop f L0 hi lo {} s0 (itemCount64 f L0 s0)

partial def logLoop (wide : Bool) (hi : Nat) (v : Nat) (c : Chk) : Chk :=
  if v < hi then logLoop wide hi (v + 1) (c.add (if wide then log2db64 v else log2db32 v)) else c

/-- ids as ranges: `0-5,9-12` -/
def idRanges (ids : List Nat) : String :=
  let rec go : List Nat → Option (Nat × Nat) → List String → List String
    | [], none, acc => acc.reverse
    | [], some (lo, hi), acc => (s!"{lo}-{hi}" :: acc).reverse
    | x :: xs, none, acc => go xs (some (x, x)) acc
    | x :: xs, some (lo, hi), acc =>
        if x = hi + 1 then go xs (some (lo, x)) acc else go xs (some (x, x)) (s!"{lo}-{hi}" :: acc)
  let parts := go ids none []
  if parts.isEmpty then "-" else ",".intercalate parts

structure St where
  f : Func := .cnst
  L0 : Nat := 5
  arr : Arr := {}

def St.S (s : St) : Sizing := sizing s.f s.L0

def showArr (s : St) : String :=
  let a := s.arr
  s!"n={a.count} cap={a.capacity s.S} slots={(a.segs.map Segment.size).foldl (· + ·) 0} segs={a.segs.length} ids={idRanges (a.segs.map Segment.id)}"

def doOp (s : St) (op : Op) : St × String :=
  let t := { s with arr := Momo.Seg.step s.S s.arr op }
  (t, showArr t)

def step (s : St) : List String → St × String
  | ["log64", v] => (s, toString (log2db64 (nat! v)))
  | ["log32", v] => (s, toString (log2db32 (nat! v)))
  | ["logsweep64", lo, hi] => (s, (logLoop true (nat! hi) (nat! lo) {}).str)
  | ["logsweep32", lo, hi] => (s, (logLoop false (nat! hi) (nat! lo) {}).str)
  | ["map", f, L0, index] =>
      let p := segItem64 (func! f) (nat! L0) (nat! index)
      (s, s!"{p.1} {p.2} {getIndex64 (func! f) (nat! L0) p.1 p.2} {itemCount64 (func! f) (nat! L0) p.1}")
  | ["inv", f, L0, seg, item] =>
      let i := getIndex64 (func! f) (nat! L0) (nat! seg) (nat! item)
      let p := segItem64 (func! f) (nat! L0) i
      (s, s!"{i} {p.1} {p.2} {itemCount64 (func! f) (nat! L0) (nat! seg)}")
  | ["sweep", f, L0, lo, hi] => (s, (sweep (func! f) (nat! L0) (nat! lo) (nat! hi)).str)
  | ["new", f, L0] =>
      let t : St := { f := func! f, L0 := nat! L0, arr := {} }
      (t, showArr t)
  | ["add"] => doOp s .addBack
  | ["addn", k] =>
      let t := { s with arr := Momo.Seg.run s.S s.arr (List.replicate (nat! k) Op.addBack) }
      (t, showArr t)
  | ["reserve", c] => doOp s (.reserve (nat! c))
  | ["setcount", n] => doOp s (.setCount (nat! n))
  | ["shrink", c] => doOp s (.shrink (nat! c))
  | ["shrinkfit"] => doOp s .shrinkFit
  | ["clear", b] => doOp s (.clear (b == "1"))
  | ["removeback", k] => doOp s (.removeBack (nat! k))
  | ["insert"] => doOp s .insert
  | ["addr", i] =>
      match s.arr.addr s.S (nat! i) with
      | (some id, off) => (s, s!"{id} {off}")
      | (none, off) => (s, s!"none {off}")
  | _ => (s, "bad-op")

def engine : Engine := { σ := St, init := fun _ => {}, step := step }

end Driver.Seg
