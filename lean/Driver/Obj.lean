import Momo.Model.Obj
import Driver.Engine
open Momo.Obj
namespace Driver.Obj

/-- memory layout used by the harness: src cells 100…, dst cells 200…, new object at 300 -/
def initMem (count : Nat) : Mem := fun a => if 100 ≤ a ∧ a < 100 + count then .live (1000 + (a - 100)) else .raw

def slotStr : Slot → String
  | .raw => "-"
  | .live v => s!"L{v}"
  | .moved v => s!"M{v}"

def catOf (s : String) : Cat := if s == "triv" then .triv else if s == "nmove" then .nmove else .copyOnly

def showRange (m : Mem) (a n : Nat) : String := " ".intercalate ((List.range n).map (fun i => slotStr (m (a + i))))

def ctorCount (evs : List Ev) : Nat := (evs.filter (fun e => match e with | .ctor _ => true | _ => false)).length
def dtorCount (evs : List Ev) : Nat := (evs.filter (fun e => match e with | .dtor _ => true | _ => false)).length

/-- faults are given as the index of the failing fallible step (or `none`) -/
def faultList (k : Option Nat) : List Bool :=
  match k with
  | none => []
  | some k => List.replicate k false ++ [true]

def step (_ : Unit) : List String → Unit × String
  | ["relcreate", cat, count, k] =>
    let n := nat! count
    let s0 : St := { mem := initMem n, evs := [], faults := faultList (if k == "-" then none else some (nat! k)) }
    let (s1, r) := relocateCreate (catOf cat) s0 100 200 n 300 7
    ((), s!"{if r == .ok then "ok" else "threw"} src=[{showRange s1.mem 100 n}] dst=[{showRange s1.mem 200 n}] new={slotStr (s1.mem 300)} ctor={ctorCount s1.evs} dtor={dtorCount s1.evs} wf={(replay (occOf s0.mem) s1.evs).isSome}")
  | ["copyexec", k] =>
    let s0 : St := { mem := initMem 1, evs := [], faults := faultList (if k == "-" then none else some (nat! k)) }
    let (s1, r) := copyExec s0 100 200 300 7
    ((), s!"{if r == .ok then "ok" else "threw"} src=[{showRange s1.mem 100 1}] dst=[{showRange s1.mem 200 1}] new={slotStr (s1.mem 300)} ctor={ctorCount s1.evs} dtor={dtorCount s1.evs} wf={(replay (occOf s0.mem) s1.evs).isSome}")
  | _ => ((), "bad-op")

def engine : Engine := { σ := Unit, init := fun _ => (), step := step }

end Driver.Obj
