import Momo.Model.MMLedger
import Driver.HashTable
open Momo.HT Momo.MMap Momo.MML
namespace Driver.MMLedger

/-- line protocol of the ledger layer over the hash-multimap model (harness/c03_mmledger.cpp).
    First line: the arguments of `hashtable` for the key table plus
      cat=triv|nmove|copy assign=0|1 hdr= bsz= psz= csz=   (key table, as for `htledger`)
      mf=<valueArrayMaxFastCount> vcat=triv|nmove|copy vassign=0|1 visz=<sizeof(Value)> vsz=<sizeof(ValueCrew::Data)>
    Operation lines (fault tokens after the arguments):
      add k v | addb k v | addat k v | inskey k | remv k i | rempred m r | remvals k | remkey k | resetkey k | clear |
      copyto | moveto | swap | monitor | finish
      fe (equality functor throws in the lookup)  fg (bucket array refused)  fp (BucketParams refused)  fa (key copy throws)
      va (an allocation of the value array - pool buffer or heap storage - refused)  vc (value creator / copy throws)
      vs (the allocation inside Array::Shrink refused: swallowed)  cf (the copy construction failed)  nf (re-creation of A failed)
      ag=size af=idx bg=size bf=idx (traffic observed in the value-array pools of A / B)
    Answer: result | A kc= vc= <key table summary> as= | B … | led k= kb= h= hb= x= xb= el=
      k / kb = number / bytes of the key table's blocks and the two value crews, h / hb = heap arrays of the big value arrays,
      x / xb = pool buffers, el = live key and value objects -/
structure St where
  cfg : Momo.MML.Cfg
  fam : Nat
  s : Sys

def hf (s : St) : Nat → Nat := hashFam s.fam

def catOf (s : String) : Momo.Obj.Cat := match s with | "nmove" => .nmove | "copy" => .copyOnly | _ => .triv

def init (args : List String) : St :=
  let n := nat! (kv args "n" "4")
  let sp := Driver.HashTable.mkSpec (kv args "kind" "Open8") n (nat! (kv args "isz" "8")) (nat! (kv args "ial" "8"))
            (kv args "part" "0" == "1") (kv args "fast" "1" == "1") (kv args "reloc" "1" == "1")
            (nat! (kv args "fullFrom" (toString n))) (nat! (kv args "logstart" "4"))
  let h : Momo.HTL.Cfg := { sp := sp, cat := catOf (kv args "cat" "triv"), assign := kv args "assign" "1" == "1",
                            hdr := nat! (kv args "hdr" "24"), bsz := nat! (kv args "bsz" "8"), psz := nat! (kv args "psz" "8"),
                            csz := nat! (kv args "csz" "0"), chained := false }
  let cfg : Momo.MML.Cfg := { h := h, mf := nat! (kv args "mf" "7"), vcat := catOf (kv args "vcat" "triv"),
                               vassign := kv args "vassign" "1" == "1", isz := nat! (kv args "visz" "4"), vsz := nat! (kv args "vsz" "8") }
  { cfg := cfg, fam := nat! (kv args "hash" "3"), s := Sys.init cfg }

structure Toks where
  f : Flt := {}
  cf : Bool := false
  pa : Momo.HTL.PoolT := {}
  pb : Momo.HTL.PoolT := {}

def parse (toks : List String) : Toks :=
  toks.foldl (fun (a : Toks) t =>
    if t == "fe" then { a with f := { a.f with k := { a.f.k with eqThrows := true } } }
    else if t == "fg" then { a with f := { a.f with k := { a.f.k with grow := true } } }
    else if t == "fp" then { a with f := { a.f with k := { a.f.k with params := true } } }
    else if t == "fa" then { a with f := { a.f with k := { a.f.k with create := true } } }
    else if t == "va" then { a with f := { a.f with v := { a.f.v with pool := true, heap := true } } }
    else if t == "vc" then { a with f := { a.f with v := { a.f.v with create := true } } }
    else if t == "vs" then { a with f := { a.f with v := { a.f.v with shrink := true } } }
    else if t == "cf" then { a with cf := true, f := { a.f with vcrew := true } }
    else if t == "nf" then { a with f := { a.f with vcrew := true } }
    else if t.startsWith "ag=" then { a with pa := { a.pa with gets := a.pa.gets ++ [nat! (t.drop 3).toString] } }
    else if t.startsWith "af=" then { a with pa := { a.pa with frees := a.pa.frees ++ [nat! (t.drop 3).toString] } }
    else if t.startsWith "bg=" then { a with pb := { a.pb with gets := a.pb.gets ++ [nat! (t.drop 3).toString] } }
    else if t.startsWith "bf=" then { a with pb := { a.pb with frees := a.pb.frees ++ [nat! (t.drop 3).toString] } }
    else a) {}

def outcomeStr : Outcome → String
  | .ok => "1"
  | .full => "E:runtime"
  | .badAlloc => "E:throw"
  | .invalid => "E:invalid_argument"

def resStr : Momo.HTL.Res → String
  | .done o => outcomeStr o
  | .no => "0"
  | .user => "E:user"

def outStr : Out → String
  | .res r => resStr r
  | .num n threw => if threw then s!"E:throw {n}" else toString n
  | .unit => "ok"
  | .threw => "E:throw"

/-- checksum over every value array in key traversal order: key, representation tag, values -/
def arrSum (x : Momo.MML.St) : Nat :=
  ((traverse x.kt.t).map (·.key)).foldl (fun h k =>
    (getV x.vbs k).arr.bounds.foldl (fun h v => mix h v) (mix (mix h k) (repCode (getV x.vbs k).arr.rep))) 0

def summary (st : St) (x : Momo.MML.St) : String :=
  s!"kc={(traverse x.kt.t).length} vc={x.count} {Driver.HashTable.summary st.cfg.h.sp x.kt.t} as={arrSum x}"

def sumSizes (l : List (Nat × Nat × Nat)) : Nat := l.foldl (fun n x => n + x.2.2) 0
def sumSizes2 (l : List (Nat × Nat)) : Nat := l.foldl (fun n x => n + x.2) 0

def ledStr (st : St) (s1 : Sys) : String :=
  let known (x : Momo.MML.St) : Nat × Nat :=
    ((x.kt.blocks st.cfg.h).length + (if x.vcrew.isSome then 1 else 0), sumSizes (x.kt.blocks st.cfg.h) + (if x.vcrew.isSome then st.cfg.vsz else 0))
  let heaps := vHeaps s1.a.vbs ++ vHeaps s1.b.vbs
  let bufs := s1.a.pbufs ++ s1.b.pbufs
  s!" | led k={(known s1.a).1 + (known s1.b).1} kb={(known s1.a).2 + (known s1.b).2} h={heaps.length} hb={sumSizes2 heaps} x={bufs.length} xb={sumSizes2 bufs} el={s1.elems.length}"

def tail (st : St) (s1 : Sys) : String := s!" | A {summary st s1.a} | B {summary st s1.b}" ++ ledStr st s1

def verdict (evs : List LEv) : String :=
  match Momo.Ledger.run Momo.Ledger.St.init evs with
  | some s => s!"accepted blocks={s.blocks.length} elems={s.elems.length}"
  | none => "rejected"

def step (st : St) (toks : List String) : St × String :=
  let run (op : Op) (t : Toks) : St × String :=
    let r := stepT st.cfg (hf st) st.s { op := op, pa := t.pa, pb := t.pb }
    ({ st with s := r.1 }, outStr r.2 ++ tail st r.1)
  match toks with
  | "add" :: k :: v :: f => run (.add false (nat! k) 0 (nat! v) (parse f).f) (parse f)
  | "addb" :: k :: v :: f => run (.add true (nat! k) 0 (nat! v) (parse f).f) (parse f)
  | "addat" :: k :: v :: f => run (.addAt (nat! k) (nat! v) (parse f).f) (parse f)
  | "inskey" :: k :: f => run (.insertKey (nat! k) 0 (parse f).f) (parse f)
  | "remv" :: k :: i :: f => run (.removeValue (nat! k) (nat! i) (parse f).f) (parse f)
  | "rempred" :: m :: r :: f => run (.removeIf (nat! m) (nat! r) (fun _ => {})) (parse f)
  | "remvals" :: k :: f => run (.removeValues (nat! k)) (parse f)
  | "remkey" :: k :: f => run (.removeKey (nat! k) (parse f).f) (parse f)
  | "resetkey" :: k :: f => run (.resetKey (nat! k) 0) (parse f)
  | "clear" :: f => run .clear (parse f)
  | "copyto" :: f => run (.copyTo (parse f).f (fun _ => {})) (parse f)
  | "moveto" :: f => run (.moveTo (parse f).f) (parse f)
  | "swap" :: f => run .swap (parse f)
  | ["finish"] => (st, verdict (finish st.cfg st.s).evs)
  | ["monitor"] => (st, verdict st.s.w.evs)
  | _ => (st, "bad-op")

def engine : Engine := { σ := St, init := init, step := step }

end Driver.MMLedger
